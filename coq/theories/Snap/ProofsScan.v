(* Snap/ProofsScan.v — a freshly built scan cursor (Model.scan_new) over sorted memtable lists and a
   well-formed version behaves, for every program of calls, as the reference cursor over the
   composed specification of its nesting, as long as the lists under it do not change.  Built from
   the refinement theorems of area Cursor (C11) and the leaf lemmas of ProofsLeaf. *)
From Coq Require Import NArith ZArith List Bool Lia Permutation.
From Blue Require Import Cursor.Iface Cursor.Ref Cursor.Lazy Cursor.Bounds Cursor.Pruning Cursor.Concat Cursor.Merging
  Cursor.Spec Cursor.Proofs_Order Cursor.Proofs_Ref Cursor.Proofs_Lazy Cursor.Proofs_Bounds Cursor.Proofs_Concat
  Cursor.Proofs_Pruning Cursor.Proofs_Merging Cursor.Proofs_Spec
  Snap.Model Snap.ProofsPres Snap.ProofsLeaf.
Import ListNotations.
Local Open Scope Z_scope.

Section Scan.
Variable fuel : nat.

(* ---------------------------------------------------------------- wrapping into the state tree *)
Ltac wrap_tac U comb :=
  let H := fresh in intros H;
  eapply (sim_refines _ _ (fun u i => exists s, u = U s /\ refines comb s _ i));
  [constructor;
   [ intros u j [s0 [-> Hr]]; eapply refines_range; eauto
   | intros u j [s0 [-> Hr]]; exact (refines_kv comb s0 _ j Hr)
   | intros u j [s0 [-> Hr]]; exact (refines_fail comb s0 _ j Hr)
   | intros o u j [s0 [-> Hr]]; eexists; split; [destruct o; reflexivity|]; apply refines_step; exact Hr ]
  | eexists; split; [reflexivity|exact H] ].

Lemma wrap_XL child f mk s l i : refines (lazyx mk) s l i -> refines (xcur1 fuel child) (XL f mk s) l i.
Proof. wrap_tac (XL f mk) (lazyx mk). Qed.
Lemma wrap_XM child s l i : refines (merging child) s l i -> refines (xcur1 fuel child) (XM s) l i.
Proof. wrap_tac XM (merging child). Qed.
Lemma wrap_XC child s l i : refines (concat_cursor child) s l i -> refines (xcur1 fuel child) (XC s) l i.
Proof. wrap_tac XC (concat_cursor child). Qed.
Lemma wrap_XB child lo hi s l i : refines (bounds child fuel lo hi) s l i -> refines (xcur1 fuel child) (XB lo hi s) l i.
Proof. wrap_tac (XB lo hi) (bounds child fuel lo hi). Qed.
Lemma wrap_XP child t s l i : refines (pruning child fuel t) s l i -> refines (xcur1 fuel child) (XP t s) l i.
Proof. wrap_tac (XP t) (pruning child fuel t). Qed.

Lemma xcur_unfold d : exists child, xcur fuel d = xcur1 fuel child.
Proof. destruct d; cbn; eauto. Qed.

(* ---------------------------------------------------------------- the memtable cursor *)
(* any cursor record of the family acts on a wrapper leaf as the skiplist iterator does *)
Variable ch : cursor xst.
Hypothesis Hstep : forall o m g, step ch o (XG m g) = XG m (step gcur o g).
Hypothesis Hkv : forall m g, c_kv ch (XG m g) = g_kv (g_pos g).

(* the wrapper leaf with the conventional seek_to_first *)
Definition xfix0 : cursor xst := {|
  c_first := fun u => match u with XG m g => XG m (mkG (g_tab g) GHead) | _ => c_first ch u end;
  c_last := c_last ch; c_seek := c_seek ch; c_prev := c_prev ch;
  c_next := c_next ch; c_kv := c_kv ch; c_fail := c_fail ch |}.

Section Mem.
Variables (m : N) (l : list entry).
Hypothesis Hs : sorted l.

Definition isG (u : xst) : Prop := exists g, u = XG m g /\ g_tab g = l.

Lemma isG_closed0 : closed ch isG.
Proof. intros o u [g [-> Ht]]. destruct o; cbn; eexists; split; try reflexivity; exact Ht. Qed.
Lemma isG_closedfix : closed xfix0 isG.
Proof. intros o u [g [-> Ht]]. destruct o; cbn; eexists; split; try reflexivity; exact Ht. Qed.

Lemma xfix0_sim : sim xfix0 l (fun u i => exists g, u = XG m g /\ GR l g i).
Proof.
  constructor.
  - intros u i [g [-> H]]. now apply (GR_range l g i).
  - intros u i [g [-> H]]. exact (sim_kv gfix l (GR l) (gfix_sim l Hs) g i H).
  - intros u i [g [-> H]]. reflexivity.
  - intros o u i [g [-> H]]. pose proof (sim_step gfix l (GR l) (gfix_sim l Hs) o g i H) as Hst.
    destruct o; cbn [step xfix0 xcur xcur1 xstep1 c_first c_last c_seek c_prev c_next] in *; eexists; split; try reflexivity; exact Hst.
Qed.
Lemma xfix0_refines g i : GR l g i -> refines xfix0 (XG m g) l i.
Proof. intros H. apply (sim_refines xfix0 l _ xfix0_sim). eauto. Qed.

Lemma pred_first a r : l = a :: r -> g_pred l a = GHead.
Proof.
  intros El. assert (ent l 0 = Some a) as He by (rewrite El; apply ent_cons_0).
  destruct (pred_GR l Hs 0 a He) as [_ H]. cbn [g_pos] in H. destruct (g_pred l a) as [|e|]; [reflexivity| |].
  - apply ent_range in H. lia.
  - pose proof (len_nonneg l). lia.
Qed.

(* on a non-empty list, or with a start bound, the BoundsCursor cannot tell the two leaves apart *)
Lemma bfirst_eq lo hi st : isG (b_cur st) -> (l <> [] \/ lo <> Unbounded) ->
  b_first_raw ch lo hi st = b_first_raw xfix0 lo hi st.
Proof.
  intros [g [Hc Ht]] Hne. unfold b_first_raw. destruct lo as [|k|k]; try reflexivity.
  destruct Hne as [Hne|Hne]; [|congruence]. f_equal. cbn [set_pos set_cur b_cur]. f_equal. rewrite Hc.
  unfold prev_if_some, has_key. cbn [xcur xcur1 xfix0 c_first c_kv c_prev xstep1 xkv1 step gcur g_tab g_pos]. rewrite Ht.
  destruct l as [|a r] eqn:El; [congruence|]. cbn [g_front g_kv g_prev]. rewrite <- El. rewrite (pred_first a r El). reflexivity.
Qed.

Lemma bstep_eq lo hi o st : isG (b_cur st) -> (l <> [] \/ lo <> Unbounded) ->
  step (bounds ch fuel lo hi) o st = step (bounds xfix0 fuel lo hi) o st.
Proof.
  intros HG Hne. destruct o; cbn [step bounds c_first c_last c_seek c_prev c_next]; unfold b_guard; destruct (b_fail st); try reflexivity.
  - now apply bfirst_eq.
  - unfold b_seek_raw.
    set (st1 := check_start ch lo (check_end ch hi (set_cur (set_pos st Positioned) (c_seek ch k (b_cur (set_pos st Positioned)))))).
    change (check_start xfix0 lo (check_end xfix0 hi (set_cur (set_pos st Positioned) (c_seek xfix0 k (b_cur (set_pos st Positioned)))))) with st1.
    assert (isG (b_cur st1)) as HG1.
    { unfold st1. apply (pres_check_start ch isG lo). apply (pres_check_end ch isG hi).
      unfold qb. cbn [set_cur set_pos b_cur]. apply (isG_closed0 (OSeek k)). exact HG. }
    rewrite (bfirst_eq lo hi st1 HG1 Hne). reflexivity.
Qed.

Definition memR lo hi (st : bstate xst) (P : Z) : Prop := bounds_R xfix0 lo hi l st P /\ isG (b_cur st).

Lemma mem_sim_nonempty lo hi : (l <> [] \/ lo <> Unbounded) -> Z.of_nat fuel >= len l + 2 ->
  sim (bounds ch fuel lo hi) (bounds_spec lo hi l) (memR lo hi).
Proof.
  intros Hne Hfu. pose proof (bounds_sim xfix0 fuel lo hi l Hs Hfu) as Hsim. constructor.
  - intros st P [H _]. exact (sim_range _ _ _ Hsim st P H).
  - intros st P [H _]. exact (sim_kv _ _ _ Hsim st P H).
  - intros st P [H _]. exact (sim_fail _ _ _ Hsim st P H).
  - intros o st P [H HG]. split.
    + rewrite (bstep_eq lo hi o st HG Hne). exact (sim_step _ _ _ Hsim o st P H).
    + apply (pres_bounds ch isG isG_closed0 fuel lo hi o st HG).
Qed.

(* over the empty list nothing is ever returned *)
Definition emptyR (st : bstate xst) (P : Z) : Prop :=
  l = [] /\ b_fail st = None /\ (exists p, b_cur st = XG m (mkG [] p) /\ (p = GHead \/ p = GEnd)) /\ -1 <= P <= 0.

Lemma empty_cur_closed o u : (exists p, u = XG m (mkG [] p) /\ (p = GHead \/ p = GEnd)) ->
  exists p, step ch o u = XG m (mkG [] p) /\ (p = GHead \/ p = GEnd).
Proof. intros [p [-> Hp]]. destruct o; destruct Hp as [-> | ->]; cbn; eauto. Qed.

Lemma mem_sim_empty lo hi : (1 <= fuel)%nat -> sim (bounds ch fuel lo hi) [] emptyR.
Proof.
  intros Hfu.
  assert (forall st, (exists p, b_cur st = XG m (mkG [] p) /\ (p = GHead \/ p = GEnd)) -> b_kv ch st = None) as Hkv.
  { intros st [p [Hc Hp]]. unfold b_kv. destruct (b_pos st); try reflexivity. rewrite Hc. destruct Hp as [-> | ->]; reflexivity. }
  constructor.
  - intros st P [_ [_ [_ H]]]. rewrite len_nil. lia.
  - intros st P [_ [_ [Hc _]]]. cbn [bounds c_kv]. rewrite (Hkv st Hc). now rewrite ent_nil.
  - intros st P [_ [H _]]. exact H.
  - intros o st P [El [Hf [Hc HP]]].
    assert (-1 <= step (ref []) o P <= 0) as HP' by (pose proof (ref_step_range [] o P); rewrite len_nil in *; auto).
    split; [exact El|].
    (* every piece of the bounds cursor keeps the shape and cannot fail *)
    assert (forall st, (exists p, b_cur st = XG m (mkG [] p) /\ (p = GHead \/ p = GEnd)) -> check_start ch lo st = st) as Hcs
      by (intros st0 H0; unfold check_start; now rewrite (Hkv st0 H0)).
    assert (forall st, (exists p, b_cur st = XG m (mkG [] p) /\ (p = GHead \/ p = GEnd)) -> check_end ch hi st = st) as Hce
      by (intros st0 H0; unfold check_end; now rewrite (Hkv st0 H0)).
    assert (forall u, (exists p, u = XG m (mkG [] p) /\ (p = GHead \/ p = GEnd)) -> has_key ch u = false) as Hhk
      by (intros u [p [-> [-> | ->]]]; reflexivity).
    destruct st as [cur pos fl]. cbn [b_fail b_cur] in *. subst fl.
    assert (forall pos0, b_fail (b_first_raw ch lo hi (mkB cur pos0 None)) = None /\
              exists p, b_cur (b_first_raw ch lo hi (mkB cur pos0 None)) = XG m (mkG [] p) /\ (p = GHead \/ p = GEnd)) as Hfirst.
    { intros pos0. unfold b_first_raw.
      assert (forall u, (exists p, u = XG m (mkG [] p) /\ (p = GHead \/ p = GEnd)) -> prev_if_some ch u = u) as Hpi
        by (intros u Hu; unfold prev_if_some; now rewrite (Hhk u Hu)).
      destruct lo as [|k|k]; cbn [set_pos set_cur b_cur];
        [pose proof (empty_cur_closed OFirst cur Hc) as H1|pose proof (empty_cur_closed (OSeek k) cur Hc) as H1|pose proof (empty_cur_closed (OSeek k) cur Hc) as H1];
        cbn [step] in H1; rewrite (Hpi _ H1); rewrite Hce by (cbn [b_cur]; exact H1); cbn [b_fail b_cur]; auto. }
    assert (forall pos0, b_fail (b_last_raw ch fuel lo hi (mkB cur pos0 None)) = None /\
              exists p, b_cur (b_last_raw ch fuel lo hi (mkB cur pos0 None)) = XG m (mkG [] p) /\ (p = GHead \/ p = GEnd)) as Hlast.
    { intros pos0. unfold b_last_raw. destruct hi as [|k|k]; cbn [set_pos set_cur b_cur].
      - pose proof (empty_cur_closed OLast cur Hc) as H1. cbn [step] in H1. rewrite Hcs by (cbn [b_cur]; exact H1). cbn [b_fail b_cur]. auto.
      - pose proof (empty_cur_closed (OSeek k) cur Hc) as H1. cbn [step] in H1.
        assert (skip_equal ch fuel k (c_seek ch k cur) = Some (c_seek ch k cur)) as ->.
        { destruct H1 as [p [E Hp]]. rewrite E. destruct fuel; destruct Hp as [-> | ->]; reflexivity. }
        cbn [set_cur set_pos]. rewrite Hcs by (cbn [b_cur]; exact H1). cbn [b_fail b_cur]. auto.
      - pose proof (empty_cur_closed (OSeek k) cur Hc) as H1. cbn [step] in H1. rewrite Hcs by (cbn [b_cur]; exact H1). cbn [b_fail b_cur]. auto. }
    assert (forall pos0 cur0, (exists p, cur0 = XG m (mkG [] p) /\ (p = GHead \/ p = GEnd)) ->
              b_fail (b_next_raw ch fuel lo hi (mkB cur0 pos0 None)) = None /\
              exists p, b_cur (b_next_raw ch fuel lo hi (mkB cur0 pos0 None)) = XG m (mkG [] p) /\ (p = GHead \/ p = GEnd)) as Hnext.
    { intros pos0 cur0 Hc0. unfold b_next_raw. destruct fuel as [|f]; [lia|]. cbn [b_next_loop b_pos].
      destruct (bpos_eqb pos0 AfterEnd); [cbn [b_fail b_cur]; auto|].
      pose proof (empty_cur_closed ONext cur0 Hc0) as H1. cbn [step] in H1. cbn [set_cur set_pos b_cur].
      rewrite Hcs by (cbn [b_cur]; exact H1). rewrite Hce by (cbn [b_cur]; exact H1). cbn [b_pos bpos_eqb negb b_fail b_cur]. auto. }
    destruct o; cbn [step bounds c_first c_last c_seek c_prev c_next b_guard b_fail].
    + destruct (Hfirst pos) as [H1 H2]. auto.
    + destruct (Hlast pos) as [H1 H2]. auto.
    + unfold b_seek_raw. cbn [set_pos set_cur b_cur]. pose proof (empty_cur_closed (OSeek k) cur Hc) as H1. cbn [step] in H1.
      rewrite Hce by (cbn [b_cur]; exact H1). rewrite Hcs by (cbn [b_cur]; exact H1). cbn [b_pos bpos_eqb b_cur orb].
      rewrite (Hhk _ H1). cbn [negb].
      assert (forall pos0, b_fail (b_last_raw ch fuel lo hi (mkB (c_seek ch k cur) pos0 None)) = None /\
              exists p, b_cur (b_last_raw ch fuel lo hi (mkB (c_seek ch k cur) pos0 None)) = XG m (mkG [] p) /\ (p = GHead \/ p = GEnd)) as Hlast'.
      { intros pos0. unfold b_last_raw. destruct hi as [|k0|k0]; cbn [set_pos set_cur b_cur].
        - pose proof (empty_cur_closed OLast _ H1) as H2. cbn [step] in H2. rewrite Hcs by (cbn [b_cur]; exact H2). cbn [b_fail b_cur]. auto.
        - pose proof (empty_cur_closed (OSeek k0) _ H1) as H2. cbn [step] in H2.
          assert (skip_equal ch fuel k0 (c_seek ch k0 (c_seek ch k cur)) = Some (c_seek ch k0 (c_seek ch k cur))) as ->.
          { destruct H2 as [p [E Hp]]. rewrite E. destruct fuel; destruct Hp as [-> | ->]; reflexivity. }
          cbn [set_cur set_pos]. rewrite Hcs by (cbn [b_cur]; exact H2). cbn [b_fail b_cur]. auto.
        - pose proof (empty_cur_closed (OSeek k0) _ H1) as H2. cbn [step] in H2. rewrite Hcs by (cbn [b_cur]; exact H2). cbn [b_fail b_cur]. auto. }
      destruct (Hlast' Positioned) as [H2 H3]. auto.
    + unfold b_prev_raw. cbn [b_pos]. destruct (negb (bpos_eqb pos BeforeStart)); cbn [set_pos set_cur b_cur].
      * pose proof (empty_cur_closed OPrev cur Hc) as H1. cbn [step] in H1. rewrite Hcs by (cbn [b_cur]; exact H1). cbn [b_fail b_cur]. auto.
      * rewrite Hcs by (cbn [b_cur]; exact Hc). cbn [b_fail b_cur]. auto.
    + destruct (Hnext pos cur Hc) as [H1 H2]. auto.
Qed.

(* the memtable cursor as KeyValueStore::range_scan leaves it *)
Theorem mem_leaf_refines lo hi d : Z.of_nat fuel >= len l + 2 ->
  refines (xcur fuel (Datatypes.S d)) (mem_leaf fuel lo hi (m, l)) (bounds_spec lo hi l) (-1).
Proof.
  intros Hfu. unfold mem_leaf. cbn [fst snd xcur].
  assert (refines (xcur1 fuel ch) (XB lo hi (b_new ch lo hi (XG m (g_new l)))) (bounds_spec lo hi l) (-1)) as H0.
  { apply wrap_XB. destruct l as [|a r] eqn:El.
    - assert (bounds_spec lo hi [] = []) as -> by reflexivity.
      apply (sim_refines _ _ _ (mem_sim_empty lo hi ltac:(lia))).
      split; [reflexivity|]. unfold b_new.
      pose proof (sim_step _ _ _ (mem_sim_empty lo hi ltac:(lia)) OFirst (mkB (XG m (g_new [])) BeforeStart None) (-1)) as Hst.
      cbn [step bounds c_first b_guard b_fail] in Hst. destruct Hst as [_ H]; [|split; [apply H|split; [apply H|lia]]].
      split; [reflexivity|]. split; [reflexivity|]. split; [eexists; split; [reflexivity|now right]|lia].
    - rewrite <- El in *. assert (l <> [] \/ lo <> Unbounded) as Hne by (left; rewrite El; discriminate).
      apply (sim_refines _ _ _ (mem_sim_nonempty lo hi Hne Hfu)). split.
      + unfold b_new. rewrite (bfirst_eq lo hi _ ltac:(cbn [b_cur]; eexists; split; [reflexivity|reflexivity]) Hne).
        apply (bounds_new_R xfix0 fuel lo hi l (XG m (g_new l)) (len l)). apply xfix0_refines. split; [reflexivity|reflexivity].
      + apply (pres_b_new ch isG isG_closed0 lo hi). eexists. split; reflexivity. }
  (* range_scan calls seek_to_first once more *)
  pose proof (refines_first _ _ _ _ H0) as H1.
  destruct d as [|d].
  - exact H1.
  - (* a deeper cursor record acts on a bounds-over-leaf state exactly as depth 1 *)
    assert (forall u, c_first (xcur fuel 1) (XB lo hi u) = c_first (xcur1 fuel ch) (XB lo hi u)) as E by reflexivity.
    exact H1.
Qed.
End Mem.
End Scan.
