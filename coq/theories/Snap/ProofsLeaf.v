(* Snap/ProofsLeaf.v — the leaves of a scan cursor against the reference cursor:
   the skiplist iterator over a sorted node list is the reference cursor over that list, except
   that seek_to_first lands ON the first node (the BoundsCursor above it steps back);
   the counting lazy cursor is the lazy cursor of area Cursor. *)
From Coq Require Import NArith ZArith List Bool Lia.
From Blue Require Import Cursor.Iface Cursor.Ref Cursor.Lazy Cursor.Proofs_Order Cursor.Proofs_Ref Cursor.Proofs_Lazy
  Snap.Model.
Import ListNotations.
Local Open Scope Z_scope.

(* ---------------------------------------------------------------- find on a sorted table *)
Definition upclosed (q : entry -> bool) : Prop := forall a b, ele a b -> q a = true -> q b = true.

Lemma elt_ele a b : elt a b -> ele a b.
Proof. unfold elt, ele. intros H. rewrite H. discriminate. Qed.

Lemma find_sorted q l : sorted l -> upclosed q -> find q l = ent l (count (fun x => negb (q x)) l).
Proof.
  intros Hs Hq. induction Hs as [|a l Hs IH Hf]; [now rewrite ent_nil|].
  cbn [find]. rewrite count_cons. destruct (q a) eqn:Ea; cbn [negb].
  - rewrite count_none; [rewrite ent_cons_0; reflexivity|]. intros x Hx. rewrite Forall_forall in Hf.
    rewrite (Hq a x); [reflexivity|apply elt_ele; now apply Hf|exact Ea].
  - rewrite IH. pose proof (count_range (fun x => negb (q x)) l). rewrite ent_cons_pos by lia. f_equal. lia.
Qed.

Lemma find_app {A} (q : A -> bool) l1 l2 : find q (l1 ++ l2) = match find q l1 with Some x => Some x | None => find q l2 end.
Proof. induction l1 as [|a l1 IH]; [reflexivity|]. cbn [app find]. destruct (q a); [reflexivity|exact IH]. Qed.

Lemma find_rev_sorted q l : sorted l -> downclosed q -> find q (rev l) = ent l (count q l - 1).
Proof.
  intros Hs Hq. induction Hs as [|a l Hs IH Hf]; [now rewrite ent_nil|].
  cbn [rev]. rewrite find_app, IH, count_cons. cbn [find]. pose proof (count_range q l) as Hc.
  destruct (q a) eqn:Ea.
  - destruct (Z.eq_dec (count q l) 0) as [E|E].
    + rewrite E. rewrite (ent_none l (0 - 1)) by lia. replace (1 + 0 - 1) with 0 by lia. now rewrite ent_cons_0.
    + destruct (ent_some l (count q l - 1)) as [x Hx]; [lia|]. rewrite Hx.
      rewrite ent_cons_pos by lia. replace (1 + count q l - 1 - 1) with (count q l - 1) by lia. now rewrite Hx.
  - assert (count q l = 0) as E.
    { apply count_none. intros x Hx. destruct (q x) eqn:Ex; [|reflexivity]. rewrite Forall_forall in Hf.
      rewrite (Hq a x) in Ea; [discriminate|apply elt_ele; now apply Hf|exact Ex]. }
    rewrite E. rewrite (ent_none l (0 - 1)) by lia. rewrite ent_none by lia. reflexivity.
Qed.

(* ---------------------------------------------------------------- the skiplist iterator *)
(* the wrapper with the conventional seek_to_first (before the first node) *)
Definition gfix : cursor gstate := {|
  c_first := fun s => mkG (g_tab s) GHead;
  c_last := c_last gcur; c_seek := c_seek gcur; c_prev := c_prev gcur; c_next := c_next gcur;
  c_kv := c_kv gcur; c_fail := c_fail gcur |}.

Definition GR (l : list entry) (g : gstate) (i : Z) : Prop :=
  g_tab g = l /\ match g_pos g with GHead => i = -1 | GEnd => i = len l | GAt e => ent l i = Some e end.

Section Leaf.
Variable l : list entry.
Hypothesis Hs : sorted l.

Lemma after_downclosed e : downclosed (fun x => negb (eltb e x)).
Proof.
  intros a b Hab. destruct (eltb_spec e a) as [H|H]; [|reflexivity]. destruct (eltb_spec e b) as [H'|H']; [discriminate|].
  exfalso. apply H'. eorder.
Qed.
Lemma before_downclosed e : downclosed (fun x => eltb x e).
Proof.
  intros a b Hab. destruct (eltb_spec b e) as [H|H]; [|discriminate]. intros _.
  destruct (eltb_spec a e) as [H'|H']; [reflexivity|]. exfalso. apply H'. eorder.
Qed.

Lemma idx_after i e : ent l i = Some e -> count (fun x => negb (eltb e x)) l = i + 1.
Proof.
  intros He. pose proof (ent_range _ _ _ He) as Hr.
  pose proof (count_prefix _ l Hs (after_downclosed e)) as Hp.
  pose proof (count_range (fun x => negb (eltb e x)) l) as Hc.
  assert (i < count (fun x => negb (eltb e x)) l) as H1.
  { apply (Hp i e He). destruct (eltb_spec e e) as [H|H]; [exfalso; unfold elt in H; rewrite ecmp_refl in H; discriminate|reflexivity]. }
  destruct (Z.eq_dec (i + 1) (len l)) as [E|E]; [lia|].
  destruct (ent_some l (i + 1)) as [x Hx]; [lia|].
  assert (~ (i + 1 < count (fun x => negb (eltb e x)) l)) as H2.
  { intros H. apply (Hp (i + 1) x Hx) in H. assert (elt e x) as Hlt by (eapply (sorted_ent_lt l Hs i (i + 1)); eauto; lia).
    destruct (eltb_spec e x); [discriminate|contradiction]. }
  lia.
Qed.
Lemma idx_before i e : ent l i = Some e -> count (fun x => eltb x e) l = i.
Proof.
  intros He. pose proof (ent_range _ _ _ He) as Hr.
  pose proof (count_prefix _ l Hs (before_downclosed e)) as Hp.
  pose proof (count_range (fun x => eltb x e) l) as Hc.
  assert (~ (i < count (fun x => eltb x e) l)) as H1.
  { intros H. apply (Hp i e He) in H. destruct (eltb_spec e e) as [H'|H']; [unfold elt in H'; rewrite ecmp_refl in H'|]; discriminate. }
  destruct (Z.eq_dec i 0) as [E|E]; [lia|].
  destruct (ent_some l (i - 1)) as [x Hx]; [lia|].
  assert (i - 1 < count (fun x => eltb x e) l) as H2.
  { apply (Hp (i - 1) x Hx). assert (elt x e) as Hlt by (eapply (sorted_ent_lt l Hs (i - 1) i); eauto; lia).
    destruct (eltb_spec x e); [reflexivity|contradiction]. }
  lia.
Qed.

Lemma succ_GR i e : ent l i = Some e -> GR l (mkG l (g_succ l e)) (i + 1).
Proof.
  intros He. pose proof (ent_range _ _ _ He) as Hr. split; [reflexivity|]. cbn [g_pos]. unfold g_succ.
  rewrite (find_sorted (fun x => eltb e x) l Hs).
  - rewrite (idx_after i e He). destruct (ent l (i + 1)) as [x|] eqn:E; [reflexivity|]. apply ent_none_inv in E. lia.
  - intros a b Hab Ha. destruct (eltb_spec e a) as [H|H]; [|discriminate]. destruct (eltb_spec e b) as [H'|H']; [reflexivity|].
    exfalso. apply H'. eorder.
Qed.
Lemma pred_GR i e : ent l i = Some e -> GR l (mkG l (g_pred l e)) (i - 1).
Proof.
  intros He. pose proof (ent_range _ _ _ He) as Hr. split; [reflexivity|]. cbn [g_pos]. unfold g_pred.
  rewrite (find_rev_sorted (fun x => eltb x e) l Hs (before_downclosed e)), (idx_before i e He).
  destruct (ent l (i - 1)) as [x|] eqn:E; [reflexivity|]. apply ent_none_inv in E. lia.
Qed.
Lemma front_GR : GR l (mkG l (g_front l)) (ref_next l (-1)).
Proof.
  split; [reflexivity|]. cbn [g_pos]. unfold g_front, ref_next. destruct l as [|x r]; cbn [len length].
  - reflexivity.
  - rewrite len_cons. pose proof (len_nonneg r). destruct (Z.leb_spec (len r + 1) (-1 + 1)); [lia|]. now rewrite ent_cons_0.
Qed.
Lemma back_GR : GR l (mkG l (g_back l)) (ref_prev (len l)).
Proof.
  split; [reflexivity|]. cbn [g_pos]. unfold g_back, ref_prev. destruct (rev l) as [|x r] eqn:E.
  - assert (l = []) as -> by (rewrite <- (rev_involutive l), E; reflexivity). reflexivity.
  - assert (l = rev r ++ [x]) as El by (rewrite <- (rev_involutive l), E; reflexivity).
    rewrite El, len_app, len_cons, len_nil. pose proof (len_nonneg (rev r)).
    destruct (Z.ltb_spec (len (rev r) + (0 + 1) - 1) 0); [lia|].
    rewrite ent_app_r by lia. replace (len (rev r) + (0 + 1) - 1 - len (rev r)) with 0 by lia. now rewrite ent_cons_0.
Qed.
Lemma seek_GR k : GR l (mkG l (g_seekpos l k)) (count (below k) l).
Proof.
  split; [reflexivity|]. cbn [g_pos]. unfold g_seekpos.
  rewrite (find_sorted (fun x => negb (kltb (ek x) k)) l Hs).
  - rewrite (count_ext (fun x => negb (negb (kltb (ek x) k))) (below k)) by (intros a _; unfold below; now rewrite negb_involutive).
    pose proof (count_range (below k) l).
    destruct (ent l (count (below k) l)) as [x|] eqn:E; [reflexivity|]. apply ent_none_inv in E. lia.
  - intros a b Hab Ha. destruct (kltb (ek b) k) eqn:Eb; [|reflexivity]. exfalso.
    pose proof (below_downclosed k a b Hab) as Hd. unfold below in Hd. rewrite (Hd Eb) in Ha. discriminate.
Qed.

Lemma GR_range g i : GR l g i -> -1 <= i <= len l.
Proof.
  intros [_ H]. pose proof (len_nonneg l). destruct (g_pos g); try lia. apply ent_range in H. lia.
Qed.

Theorem gfix_sim : sim gfix l (GR l).
Proof.
  constructor.
  - apply GR_range.
  - intros g i [_ H]. cbn [gfix gcur c_kv]. destruct (g_pos g); cbn [g_kv].
    + subst i. symmetry. apply ent_none. lia.
    + now rewrite H.
    + subst i. symmetry. apply ent_none. lia.
  - reflexivity.
  - intros o g i HR. pose proof (GR_range g i HR) as Hr. destruct HR as [Ht Hp].
    destruct o; cbn [step gfix gcur c_first c_last c_seek c_prev c_next ref]; rewrite Ht.
    + split; reflexivity.
    + split; reflexivity.
    + apply seek_GR.
    + destruct (g_pos g) as [|e|]; cbn [g_prev].
      * subst i. split; reflexivity.
      * pose proof (ent_range _ _ _ Hp). unfold ref_prev. destruct (Z.ltb_spec (i - 1) 0).
        -- assert (i = 0) by lia. subst i. apply (pred_GR 0 e Hp).
        -- apply (pred_GR i e Hp).
      * subst i. apply back_GR.
    + destruct (g_pos g) as [|e|]; cbn [g_next].
      * subst i. apply front_GR.
      * pose proof (ent_range _ _ _ Hp). unfold ref_next. destruct (Z.leb_spec (len l) (i + 1)).
        -- assert (i + 1 = len l) as <- by lia. apply (succ_GR i e Hp).
        -- apply (succ_GR i e Hp).
      * subst i. unfold ref_next. pose proof (len_nonneg l). destruct (Z.leb_spec (len l) (len l + 1)); [|lia]. split; reflexivity.
Qed.

Lemma GR_refines g i : GR l g i -> refines gfix g l i.
Proof. apply (sim_refines gfix l (GR l) gfix_sim). Qed.

(* the wrapper itself differs only in seek_to_first: it is the reference's first;next *)
Lemma gcur_first_GR g i : GR l g i -> GR l (c_first gcur g) (ref_next l (-1)).
Proof. intros [Ht _]. cbn [gcur c_first]. rewrite Ht. apply front_GR. Qed.
Lemma gcur_step_GR o g i : GR l g i -> o <> OFirst -> GR l (step gcur o g) (step (ref l) o i).
Proof.
  intros HR Ho. pose proof (sim_step gfix l (GR l) gfix_sim o g i HR) as H.
  destruct o; try congruence; exact H.
Qed.
End Leaf.

(* ---------------------------------------------------------------- the counting lazy cursor *)
Lemma lazyx_run mk prog : forall p n, run (lazyx mk) prog (mkLz p n) = run (lazy tcur mk) prog p.
Proof.
  induction prog as [|o prog IH]; intros p n; cbn [run]; [reflexivity|]. f_equal.
  destruct o; cbn [step lazyx lazy c_first c_last c_seek c_prev c_next lz_pos lz_opens]; apply IH.
Qed.

Lemma lazyx_refines mk p n l i : refines (lazy tcur mk) p l i -> refines (lazyx mk) (mkLz p n) l i.
Proof. intros [Hr H]. split; [exact Hr|]. intros prog. rewrite lazyx_run. apply H. Qed.

Lemma lazy_leaf_refines f : sorted (f_ents f) ->
  refines (lazyx (t_new (f_ents f))) lz_new (f_ents f) (-1).
Proof.
  intros Hs. unfold lz_new. apply lazyx_refines.
  apply (lazy_refines tcur (t_new (f_ents f)) (f_ents f) (-1)). apply tcur_refines. pose proof (len_nonneg (f_ents f)). lia.
Qed.
