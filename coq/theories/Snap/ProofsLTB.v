(* Snap/ProofsLTB.v — the cursor of MemTable::range_scan (a BoundsCursor over the skiplist iterator)
   while the memtable grows by entries newer than the snapshot: it is a LATE-TOLERANT child in the
   sense of ProofsLTK.  It is not an exact reference cursor over the list as it is now: an
   insertion can carry the iterator past a new entry (BeforeStart with the iterator at the end),
   and prev() does not check the end bound, so a new entry beyond it can be shown on the way back.
   What the state keeps, whatever is inserted, is stated entry by entry (INV); within one call the
   list is fixed and the arithmetic of Cursor.Proofs_Bounds applies. *)
From Coq Require Import NArith ZArith List Bool Lia.
From Blue Require Import Cursor.Iface Cursor.Ref Cursor.Bounds Cursor.Spec Cursor.Proofs_Order Cursor.Proofs_Ref
  Cursor.Proofs_Bounds Cursor.Proofs_Pruning Snap.Model Snap.ProofsPres Snap.ProofsLeaf Snap.ProofsScan Snap.ProofsGrow
  Snap.ProofsLT Snap.ProofsLTP.
Import ListNotations.
Local Open Scope Z_scope.

Section MemKid.
Variable fuel : nat.
Variable ch : cursor xst.
Hypothesis Hstep : forall o m g, step ch o (XG m g) = XG m (step gcur o g).
Hypothesis Hkv : forall m g, c_kv ch (XG m g) = g_kv (g_pos g).
Hypothesis Hfail : forall m g, c_fail ch (XG m g) = None.
Variables (m : N) (lo hi : bound) (t : N).

Definition Wb (e : entry) : bool := in_bounds lo hi e && oldb t e.
Definition lateP (e : entry) : Prop := (t < ets e)%N.

Lemma oldb_late e : oldb t e = false <-> lateP e.
Proof. unfold oldb, lateP. apply N.leb_gt. Qed.

(* an entry at or before / strictly before the node the iterator stands on *)
Definition posle (gp : gpos) (e : entry) : Prop := match gp with GHead => False | GAt x => ele e x | GEnd => True end.
Definition poslt (gp : gpos) (e : entry) : Prop := match gp with GHead => False | GAt x => elt e x | GEnd => True end.
Definition posin (l : list entry) (gp : gpos) : Prop := match gp with GAt x => In x l | _ => True end.
Definition idx (l : list entry) (gp : gpos) : Z :=
  match gp with GHead => -1 | GAt x => count (fun y => eltb y x) l | GEnd => len l end.

(* what survives insertions of entries newer than t *)
Definition INV (l : list entry) (pos : bpos) (gp : gpos) : Prop :=
  match pos with
  | BeforeStart => forall e, In e l -> oldb t e = true -> posle gp e -> in_lo lo e = false
  | Positioned =>
      (forall x, gp = GAt x -> in_lo lo x = true /\ (in_hi hi x = true \/ lateP x)) /\
      (forall e, In e l -> oldb t e = true -> in_lo lo e = true -> posle gp e -> in_hi hi e = true)
  | AfterEnd =>
      (forall e, In e l -> Wb e = true -> poslt gp e) /\
      (forall e, In e l -> oldb t e = true -> in_lo lo e = true -> poslt gp e -> in_hi hi e = true)
  end.

(* the logical position over the entries of the window not newer than t *)
Definition plog (l : list entry) (pos : bpos) (gp : gpos) : lpos :=
  match pos with
  | BeforeStart => LGap 0
  | AfterEnd => LGap (len (filter Wb l))
  | Positioned => lpos_of Wb l (idx l gp)
  end.

Definition MK (l : list entry) (st : bstate xst) (p : lpos) (a b : Z) : Prop :=
  sorted l /\ Z.of_nat fuel >= len l + 2 /\ b_fail st = None /\
  exists gp, b_cur st = XG m (mkG l gp) /\ posin l gp /\ INV l (b_pos st) gp /\
             p = plog l (b_pos st) gp /\ a = len l - idx l gp + 1 /\ b = idx l gp + 2.

(* ---------------------------------------------------------------- one list: nodes and indices *)
Section OneList.
Variable l : list entry.
Hypothesis Hs : sorted l.
Notation n := (len l).

Lemma idx_GR gp : posin l gp -> GR l (mkG l gp) (idx l gp).
Proof.
  intros Hin. split; [reflexivity|]. cbn [g_pos]. destruct gp as [|x|]; cbn [idx]; try reflexivity.
  cbn [posin] in Hin. destruct (In_ent _ _ Hin) as [i Hi]. now rewrite (idx_before l Hs i x Hi).
Qed.
Lemma idx_range gp : posin l gp -> -1 <= idx l gp <= n.
Proof. intros H. apply (GR_range l (mkG l gp)). now apply idx_GR. Qed.
Lemma idx_ent gp x : posin l gp -> (ent l (idx l gp) = Some x <-> gp = GAt x).
Proof.
  intros Hin. pose proof (idx_GR gp Hin) as [_ H]. cbn [g_pos] in H. pose proof (len_nonneg l). destruct gp as [|y|]; cbn [idx] in *.
  - rewrite ent_none by lia. split; discriminate.
  - rewrite H. split; [intros E; injection E as ->; reflexivity|intros E; injection E as ->; reflexivity].
  - rewrite ent_none by lia. split; discriminate.
Qed.
Lemma posle_idx gp j e : posin l gp -> ent l j = Some e -> (posle gp e <-> j <= idx l gp).
Proof.
  intros Hin He. pose proof (ent_range _ _ _ He) as Hj. destruct gp as [|x|]; cbn [posle idx].
  - split; [intros []|lia].
  - cbn [posin] in Hin. destruct (In_ent _ _ Hin) as [i Hi]. rewrite (idx_before l Hs i x Hi). split.
    + intros Hle. destruct (Z_le_dec j i); [assumption|exfalso]. assert (elt x e) by (eapply (sorted_ent_lt l Hs i j); eauto; lia). eorder.
    + intros Hle. eapply (sorted_ent_le l Hs j i); eauto.
  - split; [lia|auto].
Qed.
Lemma poslt_idx gp j e : posin l gp -> ent l j = Some e -> (poslt gp e <-> j < idx l gp).
Proof.
  intros Hin He. pose proof (ent_range _ _ _ He) as Hj. destruct gp as [|x|]; cbn [poslt idx].
  - split; [intros []|lia].
  - cbn [posin] in Hin. destruct (In_ent _ _ Hin) as [i Hi]. rewrite (idx_before l Hs i x Hi). split.
    + intros Hlt. eapply (sorted_ent_idx l Hs j i); eauto.
    + intros Hlt. eapply (sorted_ent_lt l Hs j i); eauto.
  - split; [lia|auto].
Qed.
(* an index determines the node *)
Lemma GR_pos g i : GR l g i -> posin l (g_pos g) /\ idx l (g_pos g) = i.
Proof.
  intros [_ H]. destruct (g_pos g) as [|x|]; cbn [posin idx]; [auto| |auto].
  split; [eapply ent_In; eauto|]. now apply (idx_before l Hs i x).
Qed.

(* the wrapper leaf keeps its list and stands on one of its nodes *)
Definition isGin (u : xst) : Prop := exists gp, u = XG m (mkG l gp) /\ posin l gp.
Lemma find_In {A} (f : A -> bool) (xs : list A) x : find f xs = Some x -> In x xs.
Proof. intros H. apply find_some in H. tauto. Qed.
Lemma isGin_closed : closed ch isGin.
Proof.
  intros o u [gp [-> Hin]]. rewrite Hstep. destruct o; cbn [step gcur c_first c_last c_seek c_prev c_next g_tab g_pos];
    eexists; (split; [reflexivity|]).
  - unfold g_front. destruct l; cbn; auto.
  - exact I.
  - unfold g_seekpos. destruct (find _ l) eqn:E; cbn; [eapply find_In; eauto|exact I].
  - destruct gp as [|x|]; cbn [g_prev]; [exact I| |].
    + unfold g_pred. destruct (find _ (rev l)) eqn:E; cbn; [apply in_rev; eapply find_In; eauto|exact I].
    + unfold g_back. destruct (rev l) eqn:E; cbn; [exact I|]. apply in_rev. rewrite E. now left.
  - destruct gp as [|x|]; cbn [g_next]; [|  |exact I].
    + unfold g_front. destruct l; cbn; auto.
    + unfold g_succ. destruct (find _ l) eqn:E; cbn; [eapply find_In; eauto|exact I].
Qed.

(* ---- the window in indices (as in Cursor.Proofs_Bounds) *)
Notation a := (count (fun e => negb (in_lo lo e)) l).
Notation b := (count (in_hi hi) l).
Notation g := (rank Wb l).
Notation nk := (len (filter Wb l)).
Notation X0 := (xfix0 ch).

Lemma a_rng : 0 <= a <= n. Proof. apply count_range. Qed.
Lemma b_rng : 0 <= b <= n. Proof. apply count_range. Qed.
Lemma lo_idx j e : ent l j = Some e -> (in_lo lo e = true <-> a <= j).
Proof. apply (in_lo_idx fuel lo hi l Hs). Qed.
Lemma hi_idx j e : ent l j = Some e -> (in_hi hi e = true <-> j < b).
Proof. apply (in_hi_idx fuel lo hi l Hs). Qed.
Lemma W_idx j e : ent l j = Some e -> Wb e = true -> a <= j < b.
Proof.
  intros He Hw. unfold Wb, in_bounds in Hw. apply andb_prop in Hw. destruct Hw as [Hw _]. apply andb_prop in Hw. destruct Hw as [H1 H2].
  apply (lo_idx j e He) in H1. apply (hi_idx j e He) in H2. lia.
Qed.
Lemma W_old e : Wb e = true -> oldb t e = true.
Proof. unfold Wb. intros H. apply andb_prop in H. tauto. Qed.
Lemma W_of j e : ent l j = Some e -> a <= j < b -> oldb t e = true -> Wb e = true.
Proof.
  intros He Hj Ho. unfold Wb, in_bounds. rewrite Ho. rewrite (proj2 (lo_idx j e He)) by lia. rewrite (proj2 (hi_idx j e He)) by lia. reflexivity.
Qed.
Lemma g_low j : j <= a -> g j = 0.
Proof.
  intros Hj. destruct (Z_le_dec j 0); [now apply g_neg|]. rewrite (g_skip Wb l 0 j) by
    (try lia; intros k e Hk He; destruct (Wb e) eqn:E; [apply (W_idx k e He) in E; lia|reflexivity]). now apply g_neg.
Qed.
Lemma g_high j : b <= j -> g j = nk.
Proof.
  intros Hj. destruct (Z_le_dec n j); [now apply g_end|]. rewrite <- (g_end Wb l n) by lia. symmetry. apply g_skip; [lia|].
  intros k e Hk He. destruct (Wb e) eqn:E; [apply (W_idx k e He) in E; lia|reflexivity].
Qed.

(* INV in indices *)
Lemma INV_before gp : posin l gp -> (INV l BeforeStart gp <->
  forall j e, ent l j = Some e -> oldb t e = true -> j <= idx l gp -> j < a).
Proof.
  intros Hin. cbn [INV]. split.
  - intros H j e He Ho Hj. pose proof (H e (ent_In _ _ _ He) Ho (proj2 (posle_idx gp j e Hin He) Hj)) as Hlo.
    destruct (Z_lt_dec j a); [assumption|]. rewrite (proj2 (lo_idx j e He)) in Hlo by lia. discriminate.
  - intros H e He Ho Hp. destruct (In_ent _ _ He) as [j Hj]. pose proof (H j e Hj Ho (proj1 (posle_idx gp j e Hin Hj) Hp)).
    destruct (in_lo lo e) eqn:E; [apply (lo_idx j e Hj) in E; lia|reflexivity].
Qed.
Lemma INV_pos gp : posin l gp -> (INV l Positioned gp <->
  (forall x, ent l (idx l gp) = Some x -> a <= idx l gp /\ (idx l gp < b \/ lateP x)) /\
  (forall j e, ent l j = Some e -> oldb t e = true -> a <= j -> j <= idx l gp -> j < b)).
Proof.
  intros Hin. cbn [INV]. split; intros [H1 H2]; split.
  - intros x Hx. destruct (H1 x (proj1 (idx_ent gp x Hin) Hx)) as [Ha Hb]. split; [now apply (lo_idx _ x Hx)|].
    destruct Hb as [Hb|Hb]; [left; now apply (hi_idx _ x Hx)|now right].
  - intros j e He Ho Ha Hj. apply (hi_idx j e He). apply (H2 e (ent_In _ _ _ He) Ho); [now apply (lo_idx j e He)|now apply (posle_idx gp j e Hin He)].
  - intros x ->. pose proof (proj2 (idx_ent (GAt x) x Hin) eq_refl) as Hx. destruct (H1 x Hx) as [Ha Hb]. split; [now apply (lo_idx _ x Hx)|].
    destruct Hb as [Hb|Hb]; [left; now apply (hi_idx _ x Hx)|now right].
  - intros e He Ho Hlo Hp. destruct (In_ent _ _ He) as [j Hj]. apply (hi_idx j e Hj). apply (H2 j e Hj Ho); [now apply (lo_idx j e Hj)|now apply (posle_idx gp j e Hin Hj)].
Qed.
Lemma INV_after gp : posin l gp -> (INV l AfterEnd gp <->
  (forall j e, ent l j = Some e -> Wb e = true -> j < idx l gp) /\
  (forall j e, ent l j = Some e -> oldb t e = true -> a <= j -> j < idx l gp -> j < b)).
Proof.
  intros Hin. cbn [INV]. split; intros [H1 H2]; split.
  - intros j e He Hw. apply (poslt_idx gp j e Hin He). apply H1; [eapply ent_In; eauto|exact Hw].
  - intros j e He Ho Ha Hj. apply (hi_idx j e He). apply (H2 e (ent_In _ _ _ He) Ho); [now apply (lo_idx j e He)|now apply (poslt_idx gp j e Hin He)].
  - intros e He Hw. destruct (In_ent _ _ He) as [j Hj]. apply (poslt_idx gp j e Hin Hj). now apply (H1 j e Hj).
  - intros e He Ho Hlo Hp. destruct (In_ent _ _ He) as [j Hj]. apply (hi_idx j e Hj). apply (H2 j e Hj Ho); [now apply (lo_idx j e Hj)|now apply (poslt_idx gp j e Hin Hj)].
Qed.
End OneList.
End MemKid.
