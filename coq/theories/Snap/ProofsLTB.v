(* Snap/ProofsLTB.v — the cursor of MemTable::range_scan (a BoundsCursor over the skiplist iterator)
   while the memtable grows by entries newer than the snapshot: it is a LATE-TOLERANT child in the
   sense of ProofsLTK.  It is not an exact reference cursor over the list as it is now: an
   insertion can carry the iterator past a new entry (BeforeStart with the iterator at the end),
   and prev() does not check the end bound, so a new entry beyond it can be shown on the way back.
   What the state keeps, whatever is inserted, is stated entry by entry (INV); within one call the
   list is fixed and the arithmetic of Cursor.Proofs_Bounds applies. *)
From Coq Require Import NArith ZArith List Bool Lia.
From Blue Require Import Cursor.Iface Cursor.Ref Cursor.Bounds Cursor.Spec Cursor.Proofs_Order Cursor.Proofs_Ref
  Cursor.Proofs_Bounds Cursor.Proofs_Pruning Snap.Model Snap.ProofsPres Snap.ProofsLeaf Snap.ProofsScan Snap.ProofsGrow
  Snap.ProofsSpec Snap.ProofsLT Snap.ProofsLTP.
Import ListNotations.
Local Open Scope Z_scope.

Section MemKid.
Variable fuel : nat.
Variable ch : cursor xst.
Hypothesis Hstep : forall o m g, step ch o (XG m g) = XG m (step gcur o g).
Hypothesis Hkv : forall m g, c_kv ch (XG m g) = g_kv (g_pos g).
Hypothesis Hfail : forall m g, c_fail ch (XG m g) = None.
Variables (m : N) (lo hi : bound) (t : N).

Definition Wb (e : entry) : bool := in_bounds lo hi e && oldb t e.
Definition lateP (e : entry) : Prop := (t < ets e)%N.

Lemma oldb_late e : oldb t e = false <-> lateP e.
Proof. unfold oldb, lateP. apply N.leb_gt. Qed.

(* an entry at or before / strictly before the node the iterator stands on *)
Definition posle (gp : gpos) (e : entry) : Prop := match gp with GHead => False | GAt x => ele e x | GEnd => True end.
Definition poslt (gp : gpos) (e : entry) : Prop := match gp with GHead => False | GAt x => elt e x | GEnd => True end.
Definition posin (l : list entry) (gp : gpos) : Prop := match gp with GAt x => In x l | _ => True end.
Definition idx (l : list entry) (gp : gpos) : Z :=
  match gp with GHead => -1 | GAt x => count (fun y => eltb y x) l | GEnd => len l end.

(* what survives insertions of entries newer than t *)
Definition INV (l : list entry) (pos : bpos) (gp : gpos) : Prop :=
  match pos with
  | BeforeStart => forall e, In e l -> oldb t e = true -> posle gp e -> in_lo lo e = false
  | Positioned =>
      (forall x, gp = GAt x -> in_lo lo x = true /\ (in_hi hi x = true \/ lateP x)) /\
      (forall e, In e l -> oldb t e = true -> in_lo lo e = true -> posle gp e -> in_hi hi e = true)
  | AfterEnd =>
      (forall e, In e l -> Wb e = true -> poslt gp e) /\
      (forall e, In e l -> oldb t e = true -> in_lo lo e = true -> poslt gp e -> in_hi hi e = true)
  end.

(* the logical position over the entries of the window not newer than t *)
Definition plog (l : list entry) (pos : bpos) (gp : gpos) : lpos :=
  match pos with
  | BeforeStart => LGap 0
  | AfterEnd => LGap (len (filter Wb l))
  | Positioned => lpos_of Wb l (idx l gp)
  end.

Definition MK (l : list entry) (st : bstate xst) (p : lpos) (a b : Z) : Prop :=
  sorted l /\ Z.of_nat fuel >= len l + 2 /\ b_fail st = None /\
  exists gp, b_cur st = XG m (mkG l gp) /\ posin l gp /\ INV l (b_pos st) gp /\
             p = plog l (b_pos st) gp /\ a = len l - idx l gp + 1 /\ b = idx l gp + 2.

(* ---------------------------------------------------------------- one list: nodes and indices *)
Section OneList.
Variable l : list entry.
Hypothesis Hs : sorted l.
Notation n := (len l).

Lemma idx_GR gp : posin l gp -> GR l (mkG l gp) (idx l gp).
Proof.
  intros Hin. split; [reflexivity|]. cbn [g_pos]. destruct gp as [|x|]; cbn [idx]; try reflexivity.
  cbn [posin] in Hin. destruct (In_ent _ _ Hin) as [i Hi]. now rewrite (idx_before l Hs i x Hi).
Qed.
Lemma idx_range gp : posin l gp -> -1 <= idx l gp <= n.
Proof. intros H. apply (GR_range l (mkG l gp)). now apply idx_GR. Qed.
Lemma idx_ent gp x : posin l gp -> (ent l (idx l gp) = Some x <-> gp = GAt x).
Proof.
  intros Hin. pose proof (idx_GR gp Hin) as [_ H]. cbn [g_pos] in H. pose proof (len_nonneg l). destruct gp as [|y|]; cbn [idx] in *.
  - rewrite ent_none by lia. split; discriminate.
  - rewrite H. split; [intros E; injection E as ->; reflexivity|intros E; injection E as ->; reflexivity].
  - rewrite ent_none by lia. split; discriminate.
Qed.
Lemma posle_idx gp j e : posin l gp -> ent l j = Some e -> (posle gp e <-> j <= idx l gp).
Proof.
  intros Hin He. pose proof (ent_range _ _ _ He) as Hj. destruct gp as [|x|]; cbn [posle idx].
  - split; [intros []|lia].
  - cbn [posin] in Hin. destruct (In_ent _ _ Hin) as [i Hi]. rewrite (idx_before l Hs i x Hi). split.
    + intros Hle. destruct (Z_le_dec j i); [assumption|exfalso]. assert (elt x e) by (eapply (sorted_ent_lt l Hs i j); eauto; lia). eorder.
    + intros Hle. eapply (sorted_ent_le l Hs j i); eauto.
  - split; [lia|auto].
Qed.
Lemma poslt_idx gp j e : posin l gp -> ent l j = Some e -> (poslt gp e <-> j < idx l gp).
Proof.
  intros Hin He. pose proof (ent_range _ _ _ He) as Hj. destruct gp as [|x|]; cbn [poslt idx].
  - split; [intros []|lia].
  - cbn [posin] in Hin. destruct (In_ent _ _ Hin) as [i Hi]. rewrite (idx_before l Hs i x Hi). split.
    + intros Hlt. eapply (sorted_ent_idx l Hs j i); eauto.
    + intros Hlt. eapply (sorted_ent_lt l Hs j i); eauto.
  - split; [lia|auto].
Qed.
(* an index determines the node *)
Lemma GR_pos g i : GR l g i -> posin l (g_pos g) /\ idx l (g_pos g) = i.
Proof.
  intros [_ H]. destruct (g_pos g) as [|x|]; cbn [posin idx]; [auto| |auto].
  split; [eapply ent_In; eauto|]. now apply (idx_before l Hs i x).
Qed.

(* the wrapper leaf keeps its list and stands on one of its nodes *)
Definition isGin (u : xst) : Prop := exists gp, u = XG m (mkG l gp) /\ posin l gp.
Lemma find_In {A} (f : A -> bool) (xs : list A) x : find f xs = Some x -> In x xs.
Proof. intros H. apply find_some in H. tauto. Qed.
Lemma isGin_closed : closed ch isGin.
Proof.
  intros o u [gp [-> Hin]]. rewrite Hstep. destruct o; cbn [step gcur c_first c_last c_seek c_prev c_next g_tab g_pos];
    eexists; (split; [reflexivity|]).
  - unfold g_front. destruct l; cbn; auto.
  - exact I.
  - unfold g_seekpos. destruct (find _ l) eqn:E; cbn; [eapply find_In; eauto|exact I].
  - destruct gp as [|x|]; cbn [g_prev]; [exact I| |].
    + unfold g_pred. destruct (find _ (rev l)) eqn:E; cbn; [apply in_rev; eapply find_In; eauto|exact I].
    + unfold g_back. destruct (rev l) eqn:E; cbn; [exact I|]. apply in_rev. rewrite E. now left.
  - destruct gp as [|x|]; cbn [g_next]; [|  |exact I].
    + unfold g_front. destruct l; cbn; auto.
    + unfold g_succ. destruct (find _ l) eqn:E; cbn; [eapply find_In; eauto|exact I].
Qed.

(* ---- the window in indices (as in Cursor.Proofs_Bounds) *)
Notation a := (count (fun e => negb (in_lo lo e)) l).
Notation b := (count (in_hi hi) l).
Notation g := (rank Wb l).
Notation nk := (len (filter Wb l)).
Notation X0 := (xfix0 ch).

Lemma a_rng : 0 <= a <= n. Proof. apply count_range. Qed.
Lemma b_rng : 0 <= b <= n. Proof. apply count_range. Qed.
Lemma lo_idx j e : ent l j = Some e -> (in_lo lo e = true <-> a <= j).
Proof. apply (in_lo_idx fuel lo hi l Hs). Qed.
Lemma hi_idx j e : ent l j = Some e -> (in_hi hi e = true <-> j < b).
Proof. apply (in_hi_idx hi l Hs). Qed.
Lemma W_idx j e : ent l j = Some e -> Wb e = true -> a <= j < b.
Proof.
  intros He Hw. unfold Wb, in_bounds in Hw. apply andb_prop in Hw. destruct Hw as [Hw _]. apply andb_prop in Hw. destruct Hw as [H1 H2].
  apply (lo_idx j e He) in H1. apply (hi_idx j e He) in H2. lia.
Qed.
Lemma W_old e : Wb e = true -> oldb t e = true.
Proof. unfold Wb. intros H. apply andb_prop in H. tauto. Qed.
Lemma W_of j e : ent l j = Some e -> a <= j < b -> oldb t e = true -> Wb e = true.
Proof.
  intros He Hj Ho. unfold Wb, in_bounds. rewrite Ho. rewrite (proj2 (lo_idx j e He)) by lia. rewrite (proj2 (hi_idx j e He)) by lia. reflexivity.
Qed.
Lemma g_low j : j <= a -> g j = 0.
Proof.
  intros Hj. destruct (Z_le_dec j 0) as [H0|H0]; [now apply g_neg|]. rewrite (g_skip Wb l 0 j); [now apply g_neg|lia|].
  intros k e Hk He. destruct (Wb e) eqn:E; [apply (W_idx k e He) in E; lia|reflexivity].
Qed.
Lemma g_high j : b <= j -> g j = nk.
Proof.
  intros Hj. destruct (Z_le_dec n j) as [H0|H0]; [now apply g_end|]. rewrite <- (g_end Wb l n) by lia. symmetry. apply g_skip; [lia|].
  intros k e Hk He. destruct (Wb e) eqn:E; [apply (W_idx k e He) in E; lia|reflexivity].
Qed.

(* INV in indices *)
Lemma INV_before gp : posin l gp -> (INV l BeforeStart gp <->
  forall j e, ent l j = Some e -> oldb t e = true -> j <= idx l gp -> j < a).
Proof.
  intros Hin. cbn [INV]. split.
  - intros H j e He Ho Hj. pose proof (H e (ent_In _ _ _ He) Ho (proj2 (posle_idx gp j e Hin He) Hj)) as Hlo.
    destruct (Z_lt_dec j a); [assumption|]. rewrite (proj2 (lo_idx j e He)) in Hlo by lia. discriminate.
  - intros H e He Ho Hp. destruct (In_ent _ _ He) as [j Hj]. pose proof (H j e Hj Ho (proj1 (posle_idx gp j e Hin Hj) Hp)).
    destruct (in_lo lo e) eqn:E; [apply (lo_idx j e Hj) in E; lia|reflexivity].
Qed.
Lemma INV_pos gp : posin l gp -> (INV l Positioned gp <->
  (forall x, ent l (idx l gp) = Some x -> a <= idx l gp /\ (idx l gp < b \/ lateP x)) /\
  (forall j e, ent l j = Some e -> oldb t e = true -> a <= j -> j <= idx l gp -> j < b)).
Proof.
  intros Hin. cbn [INV]. split; intros [H1 H2]; split.
  - intros x Hx. destruct (H1 x (proj1 (idx_ent gp x Hin) Hx)) as [Ha Hb]. split; [now apply (lo_idx _ x Hx)|].
    destruct Hb as [Hb|Hb]; [left; now apply (hi_idx _ x Hx)|now right].
  - intros j e He Ho Ha Hj. apply (hi_idx j e He). apply (H2 e (ent_In _ _ _ He) Ho); [now apply (lo_idx j e He)|now apply (posle_idx gp j e Hin He)].
  - intros x ->. pose proof (proj2 (idx_ent (GAt x) x Hin) eq_refl) as Hx. destruct (H1 x Hx) as [Ha Hb]. split; [now apply (lo_idx _ x Hx)|].
    destruct Hb as [Hb|Hb]; [left; now apply (hi_idx _ x Hx)|now right].
  - intros e He Ho Hlo Hp. destruct (In_ent _ _ He) as [j Hj]. apply (hi_idx j e Hj). apply (H2 j e Hj Ho); [now apply (lo_idx j e Hj)|now apply (posle_idx gp j e Hin Hj)].
Qed.
Lemma INV_after gp : posin l gp -> (INV l AfterEnd gp <->
  (forall j e, ent l j = Some e -> Wb e = true -> j < idx l gp) /\
  (forall j e, ent l j = Some e -> oldb t e = true -> a <= j -> j < idx l gp -> j < b)).
Proof.
  intros Hin. cbn [INV]. split; intros [H1 H2]; split.
  - intros j e He Hw. apply (poslt_idx gp j e Hin He). apply H1; [eapply ent_In; eauto|exact Hw].
  - intros j e He Ho Ha Hj. apply (hi_idx j e He). apply (H2 e (ent_In _ _ _ He) Ho); [now apply (lo_idx j e He)|now apply (poslt_idx gp j e Hin He)].
  - intros e He Hw. destruct (In_ent _ _ He) as [j Hj]. apply (poslt_idx gp j e Hin Hj). now apply (H1 j e Hj).
  - intros e He Ho Hlo Hp. destruct (In_ent _ _ He) as [j Hj]. apply (hi_idx j e Hj). apply (H2 j e Hj Ho); [now apply (lo_idx j e Hj)|now apply (poslt_idx gp j e Hin Hj)].
Qed.

(* ---------------------------------------------------------------- one call on a non-empty list *)
Hypothesis Hne : l <> [].
Hypothesis Hfu : Z.of_nat fuel >= n + 2.
Notation BC := (bounds ch fuel lo hi).

Lemma GR_refines0 gp : posin l gp -> refines X0 (XG m (mkG l gp)) l (idx l gp).
Proof. intros Hin. apply (xfix0_refines ch Hstep Hkv Hfail m l Hs). now apply idx_GR. Qed.

Lemma recover u i : isGin u -> refines X0 u l i -> exists gp, u = XG m (mkG l gp) /\ posin l gp /\ idx l gp = i.
Proof.
  intros [gp [-> Hin]] Hr. exists gp. split; [reflexivity|]. split; [exact Hin|].
  destruct (refines_unique X0 _ l _ _ Hs (GR_refines0 gp Hin) Hr) as [E|E]; [exact E|contradiction].
Qed.

Lemma isGin_isG u : isGin u -> isG m l u.
Proof. intros [gp [-> _]]. eexists. split; reflexivity. Qed.

Lemma step_eq o st : isGin (b_cur st) -> step BC o st = step (bounds X0 fuel lo hi) o st.
Proof. intros H. apply (bstep_eq fuel ch Hstep Hkv m l Hs lo hi o st (isGin_isG _ H)). now left. Qed.

Lemma step_isGin o st : isGin (b_cur st) -> isGin (b_cur (step BC o st)).
Proof. intros H. exact (pres_bounds ch isGin isGin_closed fuel lo hi o st H). Qed.

Lemma next_shape gp pos : posin l gp -> pos <> AfterEnd ->
  exists gp', posin l gp' /\ idx l gp' = Z.max (Z.min (idx l gp + 1) n) a /\
    step BC ONext (mkB (XG m (mkG l gp)) pos None) =
    mkB (XG m (mkG l gp')) (if (idx l gp' <? n) && (b <=? idx l gp') then AfterEnd else Positioned) None.
Proof.
  intros Hin Hpos. set (st := mkB (XG m (mkG l gp)) pos None).
  assert (isGin (b_cur st)) as HG by (exists gp; split; [reflexivity|exact Hin]).
  pose proof (step_isGin ONext st HG) as HG'. rewrite (step_eq ONext st HG) in *.
  cbn [step bounds c_next] in *. unfold b_guard in *. cbn [st b_fail] in *. unfold b_next_raw in *.
  pose proof (idx_range gp Hin) as Hr. pose proof a_rng as Ha.
  destruct (Proofs_Bounds.next_loop_spec X0 fuel lo hi l Hs fuel _ (idx l gp) pos (GR_refines0 gp Hin) Hpos Hr ltac:(lia)) as [cur' [Hc' E]].
  unfold st in HG' |- *. rewrite E in HG' |- *. cbn [b_cur] in HG'. destruct (recover cur' _ HG' Hc') as [gp' [-> [Hin' Ei]]].
  exists gp'. split; [exact Hin'|]. split; [exact Ei|]. rewrite Ei. reflexivity.
Qed.

Lemma next_after gp : step BC ONext (mkB (XG m (mkG l gp)) AfterEnd None) = mkB (XG m (mkG l gp)) AfterEnd None.
Proof. cbn [step bounds c_next]. unfold b_guard. cbn [b_fail]. unfold b_next_raw. destruct fuel; reflexivity. Qed.

Lemma prev_shape gp pos : posin l gp -> pos <> BeforeStart ->
  exists gp', posin l gp' /\ idx l gp' = Z.max (idx l gp - 1) (-1) /\
    step BC OPrev (mkB (XG m (mkG l gp)) pos None) =
    mkB (XG m (mkG l gp')) (if (0 <=? idx l gp') && (idx l gp' <? n) && (idx l gp' <? a) then BeforeStart else Positioned) None.
Proof.
  intros Hin Hpos. set (st := mkB (XG m (mkG l gp)) pos None).
  assert (isGin (b_cur st)) as HG by (exists gp; split; [reflexivity|exact Hin]).
  pose proof (step_isGin OPrev st HG) as HG'. rewrite (step_eq OPrev st HG) in *.
  cbn [step bounds c_prev] in *. unfold b_guard in *. cbn [st b_fail] in *. unfold b_prev_raw in *. unfold st in *. clear st.
  cbn [b_pos b_cur b_fail] in *.
  replace (negb (bpos_eqb pos BeforeStart)) with true in * by (destruct pos; cbn; congruence).
  unfold set_cur, set_pos in *. cbn [b_cur b_pos b_fail] in *.
  pose proof (idx_range gp Hin) as Hr.
  pose proof (refines_prev_idx X0 l _ _ (GR_refines0 gp Hin) (proj1 Hr)) as Hp.
  rewrite (check_start_idx X0 fuel lo hi l Hs _ _ None Hp) in *.
  assert (isGin (c_prev X0 (XG m (mkG l gp)))) as HGp by (destruct ((0 <=? Z.max (idx l gp - 1) (-1)) && (Z.max (idx l gp - 1) (-1) <? n) && (Z.max (idx l gp - 1) (-1) <? a)); exact HG').
  destruct (recover _ _ HGp Hp) as [gp' [E [Hin' Ei]]]. rewrite E in *.
  exists gp'. split; [exact Hin'|]. split; [exact Ei|]. rewrite Ei.
  destruct ((0 <=? Z.max (idx l gp - 1) (-1)) && (Z.max (idx l gp - 1) (-1) <? n) && (Z.max (idx l gp - 1) (-1) <? a)); reflexivity.
Qed.

Lemma prev_before gp : step BC OPrev (mkB (XG m (mkG l gp)) BeforeStart None) = mkB (XG m (mkG l gp)) BeforeStart None.
Proof. cbn [step bounds c_prev]. unfold b_guard. cbn [b_fail]. unfold b_prev_raw. cbn [b_pos bpos_eqb negb]. reflexivity. Qed.

(* ---- what the cursor shows *)
Lemma kv_shape gp pos f : posin l gp ->
  b_kv ch (mkB (XG m (mkG l gp)) pos f) = match pos with Positioned => ent l (idx l gp) | _ => None end.
Proof.
  intros Hin. unfold b_kv. cbn [b_pos b_cur]. destruct pos; try reflexivity. rewrite Hkv. cbn [g_pos].
  pose proof (idx_GR gp Hin) as [_ H]. cbn [g_pos] in H. pose proof (len_nonneg l). destruct gp as [|x|]; cbn [g_kv idx] in *.
  - rewrite ent_none by lia. reflexivity.
  - now rewrite H.
  - rewrite ent_none by lia. reflexivity.
Qed.

Lemma MK_intro gp pos : posin l gp -> INV l pos gp ->
  MK l (mkB (XG m (mkG l gp)) pos None) (plog l pos gp) (n - idx l gp + 1) (idx l gp + 2).
Proof. intros Hin HI. split; [exact Hs|]. split; [exact Hfu|]. split; [reflexivity|]. exists gp. cbn [b_cur b_pos]. auto 10. Qed.

(* no entry of the window not newer than t at or before the position: the rank just after it is 0 *)
Lemma g_after_before i : (forall j e, ent l j = Some e -> oldb t e = true -> j <= i -> j < a) -> g (i + 1) = 0.
Proof.
  intros H. destruct (Z_le_dec (i + 1) 0) as [H0|H0]; [now apply g_neg|]. rewrite (g_skip Wb l 0 (i + 1)); [now apply g_neg|lia|].
  intros k e Hk He. destruct (Wb e) eqn:E; [|reflexivity]. pose proof (W_idx k e He E). pose proof (H k e He (W_old e E) ltac:(lia)). lia.
Qed.

Lemma mk_next st p a0 b0 : MK l st p a0 b0 -> exists p' a' b',
  MK l (step BC ONext st) p' a' b' /\ nxt p p' /\ (b_kv ch (step BC ONext st) = None -> p' = LGap nk) /\
  ((b_kv ch st = None /\ b_kv ch (step BC ONext st) = None) \/ a' < a0).
Proof.
  intros [_ [_ [Hf [gp [Hc [Hin [HI [-> [-> ->]]]]]]]]]. destruct st as [cur pos fl]. cbn [b_cur b_pos b_fail] in *. subst cur fl.
  pose proof (idx_range gp Hin) as Hr. pose proof a_rng as Ha. pose proof b_rng as Hb. set (i := idx l gp) in *.
  destruct (bpos_eqb pos AfterEnd) eqn:Epos.
  - (* nothing moves *)
    assert (pos = AfterEnd) as -> by (destruct pos; cbn in Epos; congruence). rewrite next_after.
    exists (plog l AfterEnd gp), (n - i + 1), (i + 2). split; [now apply MK_intro|]. split; [cbn [plog nxt]; now left|]. split; [reflexivity|].
    left. rewrite !kv_shape by exact Hin. auto.
  - assert (pos <> AfterEnd) as Hpos by (intros ->; discriminate).
    destruct (next_shape gp pos Hin Hpos) as [gp' [Hin' [Ei' E]]]. rewrite E. fold i in Ei'. set (i' := idx l gp') in *.
    (* what the old state says, in one shape for BeforeStart and Positioned *)
    assert ((forall j e, ent l j = Some e -> oldb t e = true -> a <= j -> j <= i -> j < b) /\ nu_next (plog l pos gp) = g (i + 1) /\
            (i = n -> b_kv ch (mkB (XG m (mkG l gp)) pos None) = None)) as [Hle [Hnu Hend]].
    { destruct pos; [| |contradiction].
      - pose proof (proj1 (INV_before gp Hin) HI) as H. fold i in H. split; [intros j e He Ho Haj Hj; pose proof (H j e He Ho Hj); lia|].
        split; [cbn [plog nu_next]; symmetry; now apply g_after_before|]. intros _. now rewrite kv_shape.
      - destruct (proj1 (INV_pos gp Hin) HI) as [_ H]. fold i in H. split; [exact H|]. split; [cbn [plog]; apply nu_next_lpos|].
        intros Ei. rewrite kv_shape by exact Hin. fold i. rewrite Ei. apply ent_none. lia. }
    assert (forall j e, ent l j = Some e -> oldb t e = true -> a <= j -> j < i' -> j < b) as Hlt.
    { intros j e He Ho Haj Hj. pose proof (ent_range _ _ _ He). destruct (Z_le_dec j i); [now apply (Hle j e)|lia]. }
    assert (g i' = g (i + 1)) as Hg.
    { destruct (Z_le_dec (i + 1) i') as [H1|H1]; [|rewrite !g_end by lia; reflexivity]. apply g_skip; [exact H1|].
      intros k e Hk He. pose proof (ent_range _ _ _ He). destruct (Wb e) eqn:E'; [|reflexivity]. pose proof (W_idx k e He E'). lia. }
    destruct ((i' <? n) && (b <=? i')) eqn:Eae.
    + (* past the end bound *)
      apply andb_prop in Eae. destruct Eae as [E1 E2]. apply Z.ltb_lt in E1. apply Z.leb_le in E2.
      assert (INV l AfterEnd gp') as HI'.
      { apply (INV_after gp' Hin'). fold i'. split; [|exact Hlt]. intros j e He Hw. pose proof (W_idx j e He Hw). lia. }
      exists (plog l AfterEnd gp'), (n - i' + 1), (i' + 2). split; [now apply MK_intro|]. split; [|split; [reflexivity|right; lia]].
      apply nxt_of_nu. cbn [plog nu]. rewrite Hnu, <- Hg. symmetry. now apply g_high.
    + assert (i' = n \/ i' < b) as Hcase.
      { apply andb_false_iff in Eae. destruct Eae as [E1|E1]; [apply Z.ltb_ge in E1; left; lia|apply Z.leb_gt in E1; now right]. }
      assert (INV l Positioned gp') as HI'.
      { apply (INV_pos gp' Hin'). fold i'. split.
        - intros x Hx. pose proof (ent_range _ _ _ Hx). split; [lia|left; lia].
        - intros j e He Ho Haj Hj. pose proof (ent_range _ _ _ He). destruct (Z.eq_dec j i'); [lia|]. apply (Hlt j e He Ho Haj). lia. }
      exists (plog l Positioned gp'), (n - i' + 1), (i' + 2). split; [now apply MK_intro|]. split; [|split].
      * apply nxt_of_nu. cbn [plog]. fold i'. rewrite nu_lpos, Hnu. exact Hg.
      * rewrite kv_shape by exact Hin'. fold i'. intros Hk. apply ent_none_inv in Hk. assert (i' = n) as En by lia.
        cbn [plog]. fold i'. rewrite En. unfold lpos_of. rewrite ent_none by lia. now rewrite g_end by lia.
      * destruct (Z.eq_dec i n) as [En|En]; [left|right; lia]. split; [now apply Hend|].
        rewrite kv_shape by exact Hin'. fold i'. apply ent_none. lia.
Qed.

Lemma mk_prev st p a0 b0 : MK l st p a0 b0 -> exists p' a' b',
  MK l (step BC OPrev st) p' a' b' /\ prv p p' /\ (b_kv ch (step BC OPrev st) = None -> p' = LGap 0) /\
  ((b_kv ch st = None /\ b_kv ch (step BC OPrev st) = None) \/ b' < b0) /\
  (forall x y, b_kv ch st = Some x -> b_kv ch (step BC OPrev st) = Some y -> elt y x).
Proof.
  intros [_ [_ [Hf [gp [Hc [Hin [HI [-> [-> ->]]]]]]]]]. destruct st as [cur pos fl]. cbn [b_cur b_pos b_fail] in *. subst cur fl.
  pose proof (idx_range gp Hin) as Hr. pose proof a_rng as Ha. pose proof b_rng as Hb. set (i := idx l gp) in *.
  destruct (bpos_eqb pos BeforeStart) eqn:Epos.
  - assert (pos = BeforeStart) as -> by (destruct pos; cbn in Epos; congruence). rewrite prev_before.
    exists (plog l BeforeStart gp), (n - i + 1), (i + 2). split; [now apply MK_intro|]. split; [cbn [plog prv]; now left|]. split; [reflexivity|].
    rewrite !kv_shape by exact Hin. split; [left; auto|intros x y H; discriminate].
  - assert (pos <> BeforeStart) as Hpos by (intros ->; discriminate).
    destruct (prev_shape gp pos Hin Hpos) as [gp' [Hin' [Ei' E]]]. rewrite E. fold i in Ei'. set (i' := idx l gp') in *.
    assert ((forall j e, ent l j = Some e -> oldb t e = true -> a <= j -> j < i -> j < b) /\ nu (plog l pos gp) = g i /\
            (b_kv ch (mkB (XG m (mkG l gp)) pos None) = match pos with Positioned => ent l i | _ => None end)) as [Hlt [Hnu Hkvs]].
    { split; [|split; [|now apply kv_shape]].
      - destruct pos; [contradiction| |].
        + destruct (proj1 (INV_pos gp Hin) HI) as [_ H]. fold i in H. intros j e He Ho Haj Hj. apply (H j e He Ho Haj). lia.
        + destruct (proj1 (INV_after gp Hin) HI) as [_ H]. exact H.
      - destruct pos; [contradiction|cbn [plog]; apply nu_lpos|]. cbn [plog nu].
        destruct (proj1 (INV_after gp Hin) HI) as [H _]. fold i in H. destruct (Z_le_dec n i) as [H0|H0]; [symmetry; now apply g_end|].
        rewrite <- (g_end Wb l n) by lia. apply g_skip; [lia|]. intros k e Hk He. destruct (Wb e) eqn:E'; [|reflexivity]. pose proof (H k e He E'). lia. }
    destruct ((0 <=? i') && (i' <? n) && (i' <? a)) eqn:Ebs.
    + (* back before the start bound *)
      apply andb_prop in Ebs. destruct Ebs as [E12 E3]. apply andb_prop in E12. destruct E12 as [E1 E2].
      apply Z.leb_le in E1. apply Z.ltb_lt in E2, E3.
      assert (INV l BeforeStart gp') as HI' by (apply (INV_before gp' Hin'); fold i'; intros j e He Ho Hj; lia).
      exists (plog l BeforeStart gp'), (n - i' + 1), (i' + 2). split; [now apply MK_intro|]. split; [|split; [reflexivity|split; [right; lia|]]].
      * apply prv_of_rho. cbn [plog rho]. rewrite Hnu. rewrite g_low by lia. reflexivity.
      * intros x y _ Hy. rewrite kv_shape in Hy by exact Hin'. discriminate.
    + assert (i' = -1 \/ a <= i') as Hcase.
      { apply andb_false_iff in Ebs. destruct Ebs as [E12|E3]; [apply andb_false_iff in E12; destruct E12 as [E1|E2]|];
          [apply Z.leb_gt in E1|apply Z.ltb_ge in E2|apply Z.ltb_ge in E3]; lia. }
      assert (INV l Positioned gp') as HI'.
      { apply (INV_pos gp' Hin'). fold i'. split.
        - intros x Hx. pose proof (ent_range _ _ _ Hx). split; [lia|]. destruct (oldb t x) eqn:Eo; [left|right; now apply oldb_late].
          apply (Hlt i' x Hx Eo); lia.
        - intros j e He Ho Haj Hj. pose proof (ent_range _ _ _ He). apply (Hlt j e He Ho Haj). lia. }
      exists (plog l Positioned gp'), (n - i' + 1), (i' + 2). split; [now apply MK_intro|]. split; [|split; [|split]].
      * apply prv_of_rho. cbn [plog]. fold i'. rewrite rho_lpos, Hnu.
        destruct (Z.eq_dec i (-1)) as [Em|Em]; [rewrite Em in *; rewrite !g_neg by lia; reflexivity|]. replace (i' + 1) with i by lia. reflexivity.
      * rewrite kv_shape by exact Hin'. fold i'. intros Hk. apply ent_none_inv in Hk. assert (i' = -1) as En by lia.
        cbn [plog]. fold i'. rewrite En. unfold lpos_of. rewrite ent_none by lia. now rewrite g_neg by lia.
      * destruct (Z.eq_dec i (-1)) as [Em|Em]; [left|right; lia]. rewrite Hkvs. rewrite kv_shape by exact Hin'. fold i'.
        split; [destruct pos; try reflexivity; rewrite Em; apply ent_none; lia|apply ent_none; lia].
      * intros x y Hx Hy. rewrite Hkvs in Hx. rewrite kv_shape in Hy by exact Hin'. fold i' in Hy.
        destruct pos; try discriminate. pose proof (ent_range _ _ _ Hx). pose proof (ent_range _ _ _ Hy).
        apply (sorted_ent_lt l Hs i' i y x); [lia|exact Hy|exact Hx].
Qed.

(* ---- seek, seek_to_first, seek_to_last re-anchor: their results are exact *)
Notation B := (bounds_spec lo hi l).
Notation M := (len (bounds_spec lo hi l)).

Lemma nk_empty : b <= a -> nk = 0.
Proof. intros H. rewrite <- (g_high b) by lia. apply g_low. exact H. Qed.

Lemma mk_exact st P : isGin (b_cur st) -> bounds_R X0 lo hi l st P -> exists p' a' b',
  MK l st p' a' b' /\ (P = -1 -> p' = LGap 0) /\ (P = M -> p' = LGap nk) /\
  (forall q, 0 <= q <= n -> P = Z.max 0 (Z.min q b - a) -> nu p' = g q) /\ b_kv ch st = ent B P.
Proof.
  intros HG HR. pose proof (sim_kv _ _ _ (bounds_sim X0 fuel lo hi l Hs Hfu) st P HR) as Hkvs. cbn [bounds c_kv] in Hkvs.
  change (b_kv X0 st) with (b_kv ch st) in Hkvs.
  destruct HR as [Hf [p [Hc HR]]]. destruct (recover _ _ HG Hc) as [gp [Ec [Hin Ei]]].
  destruct st as [cur pos fl]. cbn [b_cur b_pos b_fail] in *. subst cur fl.
  pose proof a_rng as Ha. pose proof b_rng as Hb. pose proof (M_eq fuel lo hi l Hs) as HM. pose proof (len_nonneg B) as HM0.
  pose proof (idx_range gp Hin) as Hr. rewrite <- Ei in HR. set (i := idx l gp) in *.
  assert (INV l pos gp /\ (P = -1 -> plog l pos gp = LGap 0) /\ (P = M -> plog l pos gp = LGap nk) /\
          (forall q, 0 <= q <= n -> P = Z.max 0 (Z.min q b - a) -> nu (plog l pos gp) = g q)) as [HI [H1 [H2 H3]]].
  { destruct pos.
    - destruct HR as [-> HR]. split; [|split; [reflexivity|split; [intros; lia|intros; lia]]].
      apply (INV_before gp Hin). fold i. intros j e He Ho Hj. pose proof (ent_range _ _ _ He). lia.
    - split; [|split; [|split]].
      + apply (INV_pos gp Hin). fold i. split.
        * intros x Hx. pose proof (ent_range _ _ _ Hx). split; [lia|left; lia].
        * intros j e He Ho Haj Hj. pose proof (ent_range _ _ _ He). lia.
      + intros ->. cbn [plog]. fold i. assert (i = -1) as -> by lia. unfold lpos_of. rewrite ent_none by lia. now rewrite g_neg by lia.
      + intros ->. cbn [plog]. fold i. assert (i = n) as -> by lia. unfold lpos_of. rewrite ent_none by lia. now rewrite g_end by lia.
      + intros q Hq ->. cbn [plog]. fold i. rewrite nu_lpos. destruct HR as [[Hp HP]|[[Hp HP]|[Hp [HP Hbn]]]]; [| lia |].
        * destruct (Z_le_dec (Z.min q b - a) 0) as [H0|H0]; [|f_equal; lia]. assert (i = a) as -> by lia. rewrite !g_low by lia. reflexivity.
        * rewrite Hp, g_end by lia. destruct (Z_lt_dec a b) as [Hab|Hab]; [symmetry; apply g_high; lia|].
          rewrite nk_empty by lia. pose proof (g_range Wb l q). rewrite nk_empty in H by lia. lia.
    - destruct HR as [-> [Hp Hpb]]. split; [|split; [intros; lia|split; [reflexivity|]]].
      + apply (INV_after gp Hin). fold i. split; [intros j e He Hw; pose proof (W_idx j e He Hw); lia|intros j e He Ho Haj Hj; lia].
      + intros q Hq HP. cbn [plog nu]. destruct (Z_lt_dec a b) as [Hab|Hab]; [symmetry; apply g_high; lia|].
        rewrite nk_empty by lia. pose proof (g_range Wb l q). rewrite nk_empty in H by lia. lia. }
  exists (plog l pos gp), (n - i + 1), (i + 2). split; [now apply MK_intro|]. auto.
Qed.

Lemma mk_first st p a0 b0 : MK l st p a0 b0 -> exists a' b', MK l (step BC OFirst st) (LGap 0) a' b' /\ b_kv ch (step BC OFirst st) = None.
Proof.
  intros [_ [_ [Hf [gp [Hc [Hin _]]]]]]. destruct st as [cur pos fl]. cbn [b_cur b_pos b_fail] in *. subst cur fl.
  assert (isGin (b_cur (mkB (XG m (mkG l gp)) pos None))) as HG by (exists gp; split; [reflexivity|exact Hin]).
  pose proof (step_isGin OFirst _ HG) as HG'. rewrite (step_eq OFirst _ HG) in *. cbn [step bounds c_first] in *. unfold b_guard in *. cbn [b_fail] in *.
  pose proof (first_R X0 fuel lo hi l _ _ pos (GR_refines0 gp Hin)) as HR.
  destruct (mk_exact _ _ HG' HR) as [p' [a' [b' [HM [H1 [_ [_ Hk]]]]]]]. rewrite (H1 eq_refl) in HM. exists a', b'. split; [exact HM|].
  rewrite Hk. apply ent_none. lia.
Qed.
Lemma mk_last st p a0 b0 : MK l st p a0 b0 -> exists a' b', MK l (step BC OLast st) (LGap nk) a' b' /\ b_kv ch (step BC OLast st) = None.
Proof.
  intros [_ [_ [Hf [gp [Hc [Hin _]]]]]]. destruct st as [cur pos fl]. cbn [b_cur b_pos b_fail] in *. subst cur fl.
  assert (isGin (b_cur (mkB (XG m (mkG l gp)) pos None))) as HG by (exists gp; split; [reflexivity|exact Hin]).
  pose proof (step_isGin OLast _ HG) as HG'. rewrite (step_eq OLast _ HG) in *. cbn [step bounds c_last] in *. unfold b_guard in *. cbn [b_fail] in *.
  pose proof (last_R X0 fuel lo hi l Hs Hfu _ _ pos (GR_refines0 gp Hin)) as HR.
  destruct (mk_exact _ _ HG' HR) as [p' [a' [b' [HM [_ [H2 [_ Hk]]]]]]]. rewrite (H2 eq_refl) in HM. exists a', b'. split; [exact HM|].
  rewrite Hk. apply ent_none. lia.
Qed.
Lemma mk_seek st p a0 b0 k : MK l st p a0 b0 -> exists p' a' b', MK l (step BC (OSeek k) st) p' a' b' /\
  nu p' = count (below k) (filter Wb l) /\ (b_kv ch (step BC (OSeek k) st) = None -> p' = LGap nk).
Proof.
  intros [_ [_ [Hf [gp [Hc [Hin _]]]]]]. destruct st as [cur pos fl]. cbn [b_cur b_pos b_fail] in *. subst cur fl.
  assert (isGin (b_cur (mkB (XG m (mkG l gp)) pos None))) as HG by (exists gp; split; [reflexivity|exact Hin]).
  pose proof (step_isGin (OSeek k) _ HG) as HG'. rewrite (step_eq (OSeek k) _ HG) in *. cbn [step bounds c_seek] in *. unfold b_guard in *. cbn [b_fail] in *.
  (* seek does not depend on where the iterator stood, nor on the position of the bounds cursor *)
  assert (b_seek_raw X0 fuel lo hi k (mkB (XG m (mkG l gp)) pos None) = b_seek_raw X0 fuel lo hi k (mkB (XG m (mkG l GHead)) Positioned None)) as E.
  { unfold b_seek_raw, set_pos, set_cur. cbn [b_cur b_pos b_fail xfix0 c_seek].
    pose proof (Hstep (OSeek k) m (mkG l gp)) as E1. pose proof (Hstep (OSeek k) m (mkG l GHead)) as E2. cbn [step gcur c_seek g_tab] in E1, E2.
    rewrite E1, E2. reflexivity. }
  rewrite E in *.
  assert (bounds_R X0 lo hi l (mkB (XG m (mkG l GHead)) Positioned None) (-1)) as HR0.
  { split; [reflexivity|]. exists (-1). split; [exact (GR_refines0 GHead I)|]. cbn [b_pos]. right. left. auto. }
  pose proof (seek_R X0 fuel lo hi l Hs Hfu k _ _ HR0) as HR.
  destruct (mk_exact _ _ HG' HR) as [p' [a' [b' [HM [_ [H2 [H3 Hk]]]]]]]. exists p', a', b'. split; [exact HM|]. split.
  - rewrite (seek_lpos Wb l Hs k). apply H3; [apply count_range|]. apply (seek_B fuel lo hi l Hs k).
  - rewrite Hk. intros Hn. apply ent_none_inv in Hn. pose proof (count_range (below k) B). apply H2. lia.
Qed.

(* ---- what a state shows, by its logical position *)
Lemma mk_at st j a0 b0 : MK l st (LAt j) a0 b0 -> 0 <= j < nk /\ b_kv ch st = Some (at_ (filter Wb l) j).
Proof.
  intros [_ [_ [Hf [gp [Hc [Hin [HI [Hp _]]]]]]]]. destruct st as [cur pos fl]. cbn [b_cur b_pos b_fail] in *. subst cur fl.
  destruct pos; cbn [plog] in Hp; try discriminate. symmetry in Hp. destruct (lpos_at Wb l _ j Hp) as [e [He [_ [_ [Hj Hat]]]]].
  split; [exact Hj|]. rewrite kv_shape by exact Hin. now rewrite He, Hat.
Qed.
Lemma mk_gap st k a0 b0 : MK l st (LGap k) a0 b0 -> 0 <= k <= nk /\
  match b_kv ch st with
  | None => True
  | Some x => lateP x /\ (k < nk -> elt x (at_ (filter Wb l) k)) /\ (0 < k -> elt (at_ (filter Wb l) (k - 1)) x)
  end.
Proof.
  intros [_ [_ [Hf [gp [Hc [Hin [HI [Hp _]]]]]]]]. destruct st as [cur pos fl]. cbn [b_cur b_pos b_fail] in *. subst cur fl.
  rewrite kv_shape by exact Hin. pose proof (len_nonneg (filter Wb l)). destruct pos; cbn [plog] in Hp.
  - injection Hp as ->. split; [lia|exact I].
  - symmetry in Hp. destruct (lpos_gap Wb l _ k Hp) as [-> [Hk Hx]]. split; [exact Hk|].
    destruct (ent l (idx l gp)) as [x|] eqn:He; [|exact I].
    destruct (proj1 (INV_pos gp Hin) HI) as [H1 _]. destruct (H1 x He) as [Ha Hb]. split.
    + destruct Hb as [Hb|Hb]; [|exact Hb]. destruct (oldb t x) eqn:Eo; [|now apply oldb_late].
      rewrite (W_of _ x He ltac:(lia) Eo) in Hx. discriminate.
    + split; [now apply (gap_before_next Wb l Hs _ x)|now apply (gap_after_prev Wb l Hs _ x)].
  - injection Hp as ->. split; [lia|exact I].
Qed.
Lemma mk_in st p a0 b0 x : MK l st p a0 b0 -> b_kv ch st = Some x -> In x l.
Proof.
  intros [_ [_ [Hf [gp [Hc [Hin _]]]]]] Hx. destruct st as [cur pos fl]. cbn [b_cur b_pos b_fail] in *. subst cur fl.
  rewrite kv_shape in Hx by exact Hin. destruct pos; try discriminate. eapply ent_In; eauto.
Qed.
Lemma mk_meas st p a0 b0 : MK l st p a0 b0 -> 0 <= a0 <= n + 2 /\ 0 <= b0 <= n + 2.
Proof. intros [_ [_ [_ [gp [_ [Hin [_ [_ [-> ->]]]]]]]]]. pose proof (idx_range gp Hin). lia. Qed.

(* ---- seek_to_first does not depend on where the cursor stood *)
Lemma exact_step o st P : isGin (b_cur st) -> bounds_R X0 lo hi l st P ->
  isGin (b_cur (step BC o st)) /\ bounds_R X0 lo hi l (step BC o st) (step (ref B) o P).
Proof.
  intros HG HR. split; [now apply step_isGin|]. rewrite (step_eq o st HG). exact (sim_step _ _ _ (bounds_sim X0 fuel lo hi l Hs Hfu) o st P HR).
Qed.
Lemma exact_kv st P : bounds_R X0 lo hi l st P -> b_kv ch st = ent B P.
Proof. intros HR. exact (sim_kv _ _ _ (bounds_sim X0 fuel lo hi l Hs Hfu) st P HR). Qed.
Lemma first_exact st p a0 b0 : MK l st p a0 b0 -> isGin (b_cur (step BC OFirst st)) /\ bounds_R X0 lo hi l (step BC OFirst st) (-1).
Proof.
  intros [_ [_ [Hf [gp [Hc [Hin _]]]]]]. destruct st as [cur pos fl]. cbn [b_cur b_pos b_fail] in *. subst cur fl.
  assert (isGin (b_cur (mkB (XG m (mkG l gp)) pos None))) as HG by (exists gp; split; [reflexivity|exact Hin]).
  split; [now apply step_isGin|]. rewrite (step_eq OFirst _ HG). cbn [step bounds c_first]. unfold b_guard. cbn [b_fail].
  exact (first_R X0 fuel lo hi l _ _ pos (GR_refines0 gp Hin)).
Qed.
Lemma last_exact st p a0 b0 : MK l st p a0 b0 -> isGin (b_cur (step BC OLast st)) /\ bounds_R X0 lo hi l (step BC OLast st) M.
Proof.
  intros [_ [_ [Hf [gp [Hc [Hin _]]]]]]. destruct st as [cur pos fl]. cbn [b_cur b_pos b_fail] in *. subst cur fl.
  assert (isGin (b_cur (mkB (XG m (mkG l gp)) pos None))) as HG by (exists gp; split; [reflexivity|exact Hin]).
  split; [now apply step_isGin|]. rewrite (step_eq OLast _ HG). cbn [step bounds c_last]. unfold b_guard. cbn [b_fail].
  exact (last_R X0 fuel lo hi l Hs Hfu _ _ pos (GR_refines0 gp Hin)).
Qed.
Lemma mk_refirst st p a0 b0 : MK l st p a0 b0 ->
  b_kv ch (step BC ONext (step BC OFirst (step BC ONext (step BC OFirst st)))) = b_kv ch (step BC ONext (step BC OFirst st)).
Proof.
  intros HM. destruct (first_exact st p a0 b0 HM) as [G1 R1]. destruct (exact_step ONext _ _ G1 R1) as [G2 R2].
  destruct (exact_step OFirst _ _ G2 R2) as [G3 R3]. destruct (exact_step ONext _ _ G3 R3) as [G4 R4].
  rewrite (exact_kv _ _ R4), (exact_kv _ _ R2). reflexivity.
Qed.
Lemma mk_relast st p a0 b0 : MK l st p a0 b0 ->
  b_kv ch (step BC OPrev (step BC OLast (step BC OPrev (step BC OLast st)))) = b_kv ch (step BC OPrev (step BC OLast st)).
Proof.
  intros HM. destruct (last_exact st p a0 b0 HM) as [G1 R1]. destruct (exact_step OPrev _ _ G1 R1) as [G2 R2].
  destruct (exact_step OLast _ _ G2 R2) as [G3 R3]. destruct (exact_step OPrev _ _ G3 R3) as [G4 R4].
  rewrite (exact_kv _ _ R4), (exact_kv _ _ R2). reflexivity.
Qed.
(* the cursor as MemTable::range_scan returns it (BoundsCursor::new) *)
Lemma mk_start : exists a' b', MK l (b_new ch lo hi (XG m (g_new l))) (LGap 0) a' b' /\ b_kv ch (b_new ch lo hi (XG m (g_new l))) = None.
Proof.
  set (st0 := mkB (XG m (mkG l GEnd)) BeforeStart None).
  change (b_new ch lo hi (XG m (g_new l))) with (step BC OFirst st0).
  assert (isGin (b_cur st0)) as HG by (exists GEnd; split; [reflexivity|exact I]).
  pose proof (step_isGin OFirst _ HG) as HG'. rewrite (step_eq OFirst _ HG) in *. cbn [step bounds c_first] in *. unfold b_guard in *. cbn [st0 b_fail] in *.
  pose proof (first_R X0 fuel lo hi l _ _ BeforeStart (GR_refines0 GEnd I)) as HR.
  destruct (mk_exact _ _ HG' HR) as [p' [a' [b' [HM [H1 [_ [_ Hk]]]]]]]. rewrite (H1 eq_refl) in HM. exists a', b'. split; [exact HM|].
  rewrite Hk. apply ent_none. lia.
Qed.
End OneList.

(* ---------------------------------------------------------------- the empty list: nothing is ever shown *)
Notation BC := (bounds ch fuel lo hi).

Lemma rank_nil f i : rank f [] i = 0.
Proof. unfold rank. now rewrite firstn_nil. Qed.
Lemma plog_nil pos gp : plog [] pos gp = LGap 0.
Proof. destruct pos; cbn [plog]; try reflexivity. unfold lpos_of. rewrite ent_nil. now rewrite rank_nil. Qed.

Lemma MK_nil st p a0 b0 : MK [] st p a0 b0 -> b_fail st = None /\ isE m (b_cur st) /\ p = LGap 0.
Proof.
  intros [_ [_ [Hf [gp [Hc [Hin [_ [-> _]]]]]]]]. split; [exact Hf|]. split; [|apply plog_nil].
  exists gp. split; [exact Hc|]. destruct gp as [|x|]; [now left|destruct Hin|now right].
Qed.
Lemma nil_MK st : Z.of_nat fuel >= 2 -> b_fail st = None -> isE m (b_cur st) -> exists a' b', MK [] st (LGap 0) a' b'.
Proof.
  intros Hfu Hf [gp [Hc Hgp]]. exists (len (@nil entry) - idx [] gp + 1), (idx [] gp + 2). split; [constructor|]. split; [rewrite len_nil; lia|].
  split; [exact Hf|]. exists gp. split; [exact Hc|]. split; [destruct Hgp as [-> | ->]; exact I|]. split.
  - destruct (b_pos st); cbn [INV]; [intros e []|split; [intros x ->; destruct Hgp; discriminate|intros e []]|split; intros e []].
  - split; [symmetry; apply plog_nil|auto].
Qed.
Lemma nil_step o st : Z.of_nat fuel >= 2 -> b_fail st = None -> isE m (b_cur st) ->
  b_fail (step BC o st) = None /\ isE m (b_cur (step BC o st)) /\ b_kv ch (step BC o st) = None /\ b_kv ch st = None.
Proof.
  intros Hfu Hf HE. assert (1 <= fuel)%nat as H1 by lia.
  pose proof (mem_sim_empty fuel ch Hstep Hkv m lo hi H1) as Hsim.
  assert (emptyR m st (-1)) as HR by (split; [exact Hf|split; [exact HE|lia]]).
  pose proof (sim_step _ _ _ Hsim o st (-1) HR) as [Hf' [HE' _]].
  pose proof (sim_kv _ _ _ Hsim _ _ (sim_step _ _ _ Hsim o st (-1) HR)) as K1. pose proof (sim_kv _ _ _ Hsim _ _ HR) as K2.
  rewrite ent_nil in K1, K2. auto.
Qed.

(* ---------------------------------------------------------------- the interface of ProofsLTK, for any list *)
Lemma MKg_at l st j a0 b0 : MK l st (LAt j) a0 b0 -> 0 <= j < len (filter Wb l) /\ b_kv ch st = Some (at_ (filter Wb l) j).
Proof. intros HM. pose proof HM as [Hs _]. exact (mk_at l Hs st j a0 b0 HM). Qed.
Lemma MKg_gap l st k a0 b0 : MK l st (LGap k) a0 b0 -> 0 <= k <= len (filter Wb l) /\
  match b_kv ch st with
  | None => True
  | Some x => lateP x /\ (k < len (filter Wb l) -> elt x (at_ (filter Wb l) k)) /\ (0 < k -> elt (at_ (filter Wb l) (k - 1)) x)
  end.
Proof. intros HM. pose proof HM as [Hs _]. exact (mk_gap l Hs st k a0 b0 HM). Qed.
Lemma MKg_in l st p a0 b0 x : MK l st p a0 b0 -> b_kv ch st = Some x -> In x l.
Proof. intros HM. pose proof HM as [Hs _]. exact (mk_in l Hs st p a0 b0 x HM). Qed.
Lemma MKg_meas l st p a0 b0 : MK l st p a0 b0 -> 0 <= a0 <= len l + 2 /\ 0 <= b0 <= len l + 2.
Proof. intros HM. pose proof HM as [Hs _]. exact (mk_meas l Hs st p a0 b0 HM). Qed.
Lemma MKg_fail l st p a0 b0 : MK l st p a0 b0 -> b_fail st = None.
Proof. intros [_ [_ [H _]]]. exact H. Qed.

Lemma MKg_next l st p a0 b0 : MK l st p a0 b0 -> exists p' a' b',
  MK l (step BC ONext st) p' a' b' /\ nxt p p' /\ (b_kv ch (step BC ONext st) = None -> p' = LGap (len (filter Wb l))) /\
  ((b_kv ch st = None /\ b_kv ch (step BC ONext st) = None) \/ a' < a0).
Proof.
  intros HM. pose proof HM as [Hs [Hfu _]]. destruct l as [|x r].
  - destruct (MK_nil _ _ _ _ HM) as [Hf [HE ->]]. rewrite len_nil in Hfu. destruct (nil_step ONext st ltac:(lia) Hf HE) as [Hf' [HE' [K1 K2]]].
    destruct (nil_MK _ ltac:(lia) Hf' HE') as [a' [b' HM']]. exists (LGap 0), a', b'. split; [exact HM'|]. split; [now left|]. split; [reflexivity|left; auto].
  - apply (mk_next (x :: r) Hs ltac:(discriminate) Hfu st p a0 b0 HM).
Qed.
Lemma MKg_prev l st p a0 b0 : MK l st p a0 b0 -> exists p' a' b',
  MK l (step BC OPrev st) p' a' b' /\ prv p p' /\ (b_kv ch (step BC OPrev st) = None -> p' = LGap 0) /\
  ((b_kv ch st = None /\ b_kv ch (step BC OPrev st) = None) \/ b' < b0) /\
  (forall x y, b_kv ch st = Some x -> b_kv ch (step BC OPrev st) = Some y -> elt y x).
Proof.
  intros HM. pose proof HM as [Hs [Hfu _]]. destruct l as [|x r].
  - destruct (MK_nil _ _ _ _ HM) as [Hf [HE ->]]. rewrite len_nil in Hfu. destruct (nil_step OPrev st ltac:(lia) Hf HE) as [Hf' [HE' [K1 K2]]].
    destruct (nil_MK _ ltac:(lia) Hf' HE') as [a' [b' HM']]. exists (LGap 0), a', b'. split; [exact HM'|]. split; [now left|]. split; [reflexivity|].
    split; [left; auto|]. intros x y Hx. rewrite K2 in Hx. discriminate.
  - apply (mk_prev (x :: r) Hs ltac:(discriminate) Hfu st p a0 b0 HM).
Qed.
Lemma MKg_seek l st p a0 b0 k : MK l st p a0 b0 -> exists p' a' b', MK l (step BC (OSeek k) st) p' a' b' /\
  nu p' = count (below k) (filter Wb l) /\ (b_kv ch (step BC (OSeek k) st) = None -> p' = LGap (len (filter Wb l))).
Proof.
  intros HM. pose proof HM as [Hs [Hfu _]]. destruct l as [|x r].
  - destruct (MK_nil _ _ _ _ HM) as [Hf [HE ->]]. rewrite len_nil in Hfu. destruct (nil_step (OSeek k) st ltac:(lia) Hf HE) as [Hf' [HE' [K1 K2]]].
    destruct (nil_MK _ ltac:(lia) Hf' HE') as [a' [b' HM']]. exists (LGap 0), a', b'. split; [exact HM'|]. split; reflexivity.
  - apply (mk_seek (x :: r) Hs ltac:(discriminate) Hfu st p a0 b0 k HM).
Qed.
Lemma MKg_first l st p a0 b0 : MK l st p a0 b0 -> exists a' b', MK l (step BC OFirst st) (LGap 0) a' b' /\ b_kv ch (step BC OFirst st) = None.
Proof.
  intros HM. pose proof HM as [Hs [Hfu _]]. destruct l as [|x r].
  - destruct (MK_nil _ _ _ _ HM) as [Hf [HE ->]]. rewrite len_nil in Hfu. destruct (nil_step OFirst st ltac:(lia) Hf HE) as [Hf' [HE' [K1 K2]]].
    destruct (nil_MK _ ltac:(lia) Hf' HE') as [a' [b' HM']]. exists a', b'. auto.
  - apply (mk_first (x :: r) Hs ltac:(discriminate) Hfu st p a0 b0 HM).
Qed.
Lemma MKg_last l st p a0 b0 : MK l st p a0 b0 -> exists a' b', MK l (step BC OLast st) (LGap (len (filter Wb l))) a' b' /\ b_kv ch (step BC OLast st) = None.
Proof.
  intros HM. pose proof HM as [Hs [Hfu _]]. destruct l as [|x r].
  - destruct (MK_nil _ _ _ _ HM) as [Hf [HE ->]]. rewrite len_nil in Hfu. destruct (nil_step OLast st ltac:(lia) Hf HE) as [Hf' [HE' [K1 K2]]].
    destruct (nil_MK _ ltac:(lia) Hf' HE') as [a' [b' HM']]. exists a', b'. auto.
  - apply (mk_last (x :: r) Hs ltac:(discriminate) Hfu st p a0 b0 HM).
Qed.
Lemma MKg_refirst l st p a0 b0 : MK l st p a0 b0 ->
  b_kv ch (step BC ONext (step BC OFirst (step BC ONext (step BC OFirst st)))) = b_kv ch (step BC ONext (step BC OFirst st)).
Proof.
  intros HM. pose proof HM as [Hs [Hfu _]]. destruct l as [|x r].
  - destruct (MK_nil _ _ _ _ HM) as [Hf [HE ->]]. rewrite len_nil in Hfu.
    destruct (nil_step OFirst st ltac:(lia) Hf HE) as [Hf1 [HE1 _]]. destruct (nil_step ONext _ ltac:(lia) Hf1 HE1) as [Hf2 [HE2 [K2 _]]].
    destruct (nil_step OFirst _ ltac:(lia) Hf2 HE2) as [Hf3 [HE3 _]]. destruct (nil_step ONext _ ltac:(lia) Hf3 HE3) as [_ [_ [K4 _]]]. now rewrite K2, K4.
  - apply (mk_refirst (x :: r) Hs ltac:(discriminate) Hfu st p a0 b0 HM).
Qed.
Lemma MKg_relast l st p a0 b0 : MK l st p a0 b0 ->
  b_kv ch (step BC OPrev (step BC OLast (step BC OPrev (step BC OLast st)))) = b_kv ch (step BC OPrev (step BC OLast st)).
Proof.
  intros HM. pose proof HM as [Hs [Hfu _]]. destruct l as [|x r].
  - destruct (MK_nil _ _ _ _ HM) as [Hf [HE ->]]. rewrite len_nil in Hfu.
    destruct (nil_step OLast st ltac:(lia) Hf HE) as [Hf1 [HE1 _]]. destruct (nil_step OPrev _ ltac:(lia) Hf1 HE1) as [Hf2 [HE2 [K2 _]]].
    destruct (nil_step OLast _ ltac:(lia) Hf2 HE2) as [Hf3 [HE3 _]]. destruct (nil_step OPrev _ ltac:(lia) Hf3 HE3) as [_ [_ [K4 _]]]. now rewrite K2, K4.
  - apply (mk_relast (x :: r) Hs ltac:(discriminate) Hfu st p a0 b0 HM).
Qed.

Lemma MKg_start l : sorted l -> Z.of_nat fuel >= len l + 2 ->
  exists a' b', MK l (b_new ch lo hi (XG m (g_new l))) (LGap 0) a' b' /\ b_kv ch (b_new ch lo hi (XG m (g_new l))) = None.
Proof.
  intros Hs Hfu. destruct l as [|x r].
  - rewrite len_nil in Hfu. set (st0 := mkB (XG m (mkG [] GEnd)) BeforeStart None).
    change (b_new ch lo hi (XG m (g_new []))) with (step BC OFirst st0).
    assert (isE m (b_cur st0)) as HE by (exists GEnd; split; [reflexivity|now right]).
    destruct (nil_step OFirst st0 ltac:(lia) eq_refl HE) as [Hf' [HE' [K1 _]]]. destruct (nil_MK _ ltac:(lia) Hf' HE') as [a' [b' HM']]. exists a', b'. auto.
  - apply (mk_start (x :: r) Hs ltac:(discriminate) Hfu).
Qed.

(* ---------------------------------------------------------------- the list grows *)
(* l' is l with some entries newer than t inserted *)
Definition grows (l l' : list entry) : Prop :=
  sorted l' /\ (forall x, In x l -> In x l') /\ (forall x, In x l' -> In x l \/ lateP x).

Lemma grows_refl l : sorted l -> grows l l.
Proof. intros H. split; [exact H|]. split; auto. Qed.
Lemma grows_trans l1 l2 l3 : grows l1 l2 -> grows l2 l3 -> grows l1 l3.
Proof.
  intros [_ [A1 B1]] [S3 [A2 B2]]. split; [exact S3|]. split; [auto|]. intros x Hx. destruct (B2 x Hx) as [H|H]; [|now right]. apply B1. exact H.
Qed.

(* a filter that keeps nothing newer than t does not see the insertions *)
Lemma grows_filter f l l' : sorted l -> grows l l' -> (forall x, f x = true -> oldb t x = true) -> filter f l' = filter f l.
Proof.
  intros Hs [Hs' [Hin Hnew]] Hf. apply sorted_ext; [now apply sorted_filter|now apply sorted_filter|].
  intros e. rewrite !filter_In. split; intros [H1 H2]; (split; [|exact H2]).
  - destruct (Hnew e H1) as [H|H]; [exact H|]. apply oldb_late in H. rewrite (Hf e H2) in H. discriminate.
  - now apply Hin.
Qed.

Definition grank (F : list entry) (gp : gpos) : Z :=
  match gp with GHead => 0 | GAt x => count (fun y => eltb y x) F | GEnd => len F end.
Lemma rank_idx l gp : sorted l -> rank Wb l (idx l gp) = grank (filter Wb l) gp.
Proof.
  intros Hs. destruct gp as [|x|]; cbn [idx grank].
  - apply rank_neg. lia.
  - symmetry. apply (count_filter_prefix Wb (fun y => eltb y x) l Hs (before_downclosed x)).
  - apply rank_len. lia.
Qed.

Definition regrow (l' : list entry) (st : bstate xst) : bstate xst :=
  match b_cur st with
  | XG m0 g0 => mkB (XG m0 (mkG l' (g_pos g0))) (b_pos st) (b_fail st)
  | _ => st
  end.

Lemma MK_grow l l' st p a0 b0 : MK l st p a0 b0 -> grows l l' -> Z.of_nat fuel >= len l' + 2 ->
  filter Wb l' = filter Wb l /\ b_kv ch (regrow l' st) = b_kv ch st /\ exists a' b', MK l' (regrow l' st) p a' b'.
Proof.
  intros [Hs [_ [Hf [gp [Hc [Hin [HI [-> _]]]]]]]] Hg Hfu'.
  assert (forall x, Wb x = true -> oldb t x = true) as HWo by (intros x H; unfold Wb in H; apply andb_prop in H; tauto).
  pose proof (grows_filter Wb l l' Hs Hg HWo) as EF. pose proof Hg as [Hs' [Hsub Hnew]].
  assert (forall e, In e l' -> oldb t e = true -> In e l) as Hold.
  { intros e He Ho. destruct (Hnew e He) as [H|H]; [exact H|]. apply oldb_late in H. congruence. }
  destruct st as [cur pos fl]. cbn [b_cur b_pos b_fail] in *. subst cur fl. unfold regrow. cbn [b_cur b_pos b_fail g_pos].
  assert (posin l' gp) as Hin' by (destruct gp as [|x|]; cbn [posin] in *; auto).
  split; [exact EF|]. split.
  { unfold b_kv. cbn [b_pos b_cur]. destruct pos; try reflexivity. now rewrite !Hkv. }
  exists (len l' - idx l' gp + 1), (idx l' gp + 2). split; [exact Hs'|]. split; [exact Hfu'|]. split; [reflexivity|].
  exists gp. cbn [b_cur b_pos]. split; [reflexivity|]. split; [exact Hin'|]. split; [|split; [|auto]].
  - destruct pos; cbn [INV] in *.
    + intros e He Ho. apply HI; [now apply Hold|exact Ho].
    + destruct HI as [H1 H2]. split; [exact H1|]. intros e He Ho. apply H2; [now apply Hold|exact Ho].
    + destruct HI as [H1 H2]. split.
      * intros e He Hw. apply H1; [apply Hold; [exact He|now apply HWo]|exact Hw].
      * intros e He Ho. apply H2; [now apply Hold|exact Ho].
  - destruct pos; cbn [plog]; [reflexivity| |now rewrite EF].
    unfold lpos_of. rewrite (rank_idx l gp Hs), (rank_idx l' gp Hs'), EF.
    destruct (ent l (idx l gp)) as [x|] eqn:E1.
    + apply (idx_ent l Hs gp x Hin) in E1. rewrite (proj2 (idx_ent l' Hs' gp x Hin') E1). reflexivity.
    + destruct (ent l' (idx l' gp)) as [x|] eqn:E2; [|reflexivity].
      apply (idx_ent l' Hs' gp x Hin') in E2. rewrite (proj2 (idx_ent l Hs gp x Hin) E2) in E1. discriminate.
Qed.
End MemKid.
