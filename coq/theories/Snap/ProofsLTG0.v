(* Snap/ProofsLTG0.v — first part of the machine-level glue of ProofsLTG (kept apart because seq_mono
   is slow to check): lists without repeated (key, timestamp), a write as an operation on lists
   (the batch's entries, all with the next sequence number, inserted into the active memtable:
   `write_grows`), and: sequence numbers only grow (`seq_mono`). *)
From Coq Require Import NArith ZArith List Bool Arith Lia Permutation.
From Blue Require Import Cursor.Iface Cursor.Ref Cursor.Lazy Cursor.Bounds Cursor.Pruning Cursor.Concat Cursor.Merging
  Cursor.Spec Cursor.Proofs_Order Cursor.Proofs_Ref Cursor.Proofs_Spec Cursor.Proofs_Merging
  Snap.Model Snap.ProofsPres Snap.ProofsSafe Snap.ProofsLeaf Snap.ProofsScan Snap.ProofsGrow Snap.ProofsSpec Snap.ProofsStable
  Snap.ProofsLT Snap.ProofsLTP Snap.ProofsLTK Snap.ProofsLTB Snap.ProofsLTS.
Import ListNotations.
Local Open Scope Z_scope.

(* ---------------------------------------------------------------- lists without repeated (key, timestamp) *)
Lemma distinct_app_intro l1 l2 : distinct l1 -> distinct l2 -> (forall x y, In x l1 -> In y l2 -> ~ eeq x y) -> distinct (l1 ++ l2).
Proof.
  induction 1 as [|a l Hf Hd IH]; intros H2 Hx; [exact H2|]. cbn [app]. constructor.
  - apply Forall_app. split; [exact Hf|]. apply Forall_forall. intros y Hy. apply Hx; [now left|exact Hy].
  - apply IH; [exact H2|]. intros x y Hx' Hy. apply Hx; [now right|exact Hy].
Qed.
Lemma distinct_app_inv l1 l2 : distinct (l1 ++ l2) -> distinct l1 /\ distinct l2 /\ (forall x y, In x l1 -> In y l2 -> ~ eeq x y).
Proof.
  intros H. split; [|split; [|now apply distinct_app_disj]].
  - induction l1 as [|a l1 IH]; [constructor|]. cbn [app] in H. inversion H as [|? ? Hf Hd]; subst. constructor; [|now apply IH].
    apply Forall_app in Hf. tauto.
  - induction l1 as [|a l1 IH]; [exact H|]. cbn [app] in H. inversion H; subst. now apply IH.
Qed.
Lemma eeq_sym a b : eeq a b -> eeq b a.
Proof. unfold eeq. intros H. rewrite ecmp_antisym, H. reflexivity. Qed.
Lemma eeq_ts a b : eeq a b -> ets a = ets b.
Proof. unfold eeq. intros H. apply ecmp_eq_iff in H. tauto. Qed.
Lemma eeq_key a b : eeq a b -> ek a = ek b.
Proof. unfold eeq. intros H. apply ecmp_eq_iff in H. tauto. Qed.

(* ---------------------------------------------------------------- a write, as lists *)
Definition new_ents (n : N) (b : list (key * option value)) : list entry := map (fun kv => mkE (fst kv) n (snd kv)) b.
Definition ins_all (es : list entry) (l : list entry) : list entry := fold_left (fun l e => insert_sorted e l) es l.

Lemma ins_all_perm es : forall l, Permutation (ins_all es l) (es ++ l).
Proof.
  induction es as [|e r IH]; intros l; [reflexivity|]. cbn [ins_all fold_left app]. fold (ins_all r (insert_sorted e l)).
  rewrite IH. rewrite (insert_sorted_perm e l). apply Permutation_sym, Permutation_middle.
Qed.
Lemma ins_all_sorted es : forall l, sorted l -> distinct (es ++ l) -> sorted (ins_all es l).
Proof.
  induction es as [|e r IH]; intros l Hs Hd; [exact Hs|]. cbn [ins_all fold_left]. fold (ins_all r (insert_sorted e l)).
  cbn [app] in Hd. inversion Hd as [|? ? Hf Hd']; subst. apply Forall_app in Hf. destruct Hf as [Hf1 Hf2].
  apply IH; [now apply insert_sorted_sorted|].
  eapply distinct_perm; [|exact Hd]. cbn [app]. rewrite (insert_sorted_perm e l). apply Permutation_middle.
Qed.
Lemma len_ins_all es l : len (ins_all es l) = len es + len l.
Proof. unfold len. rewrite (Permutation_length (ins_all_perm es l)), app_length. lia. Qed.

Lemma new_ents_distinct n b : NoDup (map fst b) -> distinct (new_ents n b).
Proof.
  induction b as [|kv r IH]; intros H; [constructor|]. cbn [map new_ents] in *. inversion H as [|? ? Hn Hr]; subst. constructor; [|now apply IH].
  apply Forall_forall. intros y Hy He. apply in_map_iff in Hy. destruct Hy as [kv' [<- Hkv']]. apply eeq_key in He. cbn [ek] in He.
  apply Hn. rewrite He. now apply in_map.
Qed.
Lemma new_ents_ts n b e : In e (new_ents n b) -> ets e = n.
Proof. intros H. apply in_map_iff in H. destruct H as [kv [<- _]]. reflexivity. Qed.

(* the list of memtable m after a write *)
Lemma look_upd_same g m s : (forall y, mt_id (g y) = mt_id y) ->
  look_of (upd_mt g m s) m = match find_mt s m with Some y => mt_ents (g y) | None => [] end.
Proof.
  intros Hid. unfold look_of, find_mt, upd_mt. cbn [ms_mts set_mts].
  rewrite (find_map_keep (fun x => if N.eqb (mt_id x) m then g x else x)) by (intros y; destruct (N.eqb (mt_id y) m); [apply Hid|reflexivity]).
  destruct (find (fun x => N.eqb (mt_id x) m) (ms_mts s)) as [y|] eqn:E; [|reflexivity]. cbn [option_map].
  apply find_some in E. destruct E as [_ E]. now rewrite E.
Qed.
Lemma look_write s b m : (exists y, In y (ms_mts s) /\ mt_id y = m) ->
  look_of (do_write b s) m = if N.eqb m (ms_mem s) then ins_all (new_ents (ms_seq s + 1) b) (look_of s m) else look_of s m.
Proof.
  intros Hex. unfold do_write. cbv zeta. set (n := (ms_seq s + 1)%N).
  assert (forall s0, ms_mem s0 = ms_mem s -> (exists y, In y (ms_mts s0) /\ mt_id y = m) ->
            look_of (fold_left (fun s1 kv => upd_mt (mt_insert (mkE (fst kv) n (snd kv))) (ms_mem s1) s1) b s0) m =
            if N.eqb m (ms_mem s) then ins_all (new_ents n b) (look_of s0 m) else look_of s0 m) as H.
  { induction b as [|kv b IH]; intros s0 E0 Hex0; cbn [fold_left new_ents map ins_all]; [destruct (N.eqb m (ms_mem s)); reflexivity|].
    fold (new_ents n b). fold (ins_all (new_ents n b) (insert_sorted (mkE (fst kv) n (snd kv)) (look_of s0 m))).
    rewrite IH.
    - destruct (N.eqb_spec m (ms_mem s)) as [Em|Em].
      + f_equal. rewrite E0, <- Em. rewrite look_upd_same by reflexivity. unfold look_of.
        destruct (find_mt_ex s0 m Hex0) as [y Hy]. rewrite Hy. reflexivity.
      + apply look_of_upd; [reflexivity|]. left. rewrite E0. exact Em.
    - cbn [upd_mt set_mts ms_mem]. exact E0.
    - destruct Hex0 as [y [Hy Hid]]. unfold upd_mt. cbn [ms_mts set_mts].
      exists (if N.eqb (mt_id y) (ms_mem s0) then mt_insert (mkE (fst kv) n (snd kv)) y else y). split.
      + apply in_map_iff. exists y. auto.
      + destruct (N.eqb (mt_id y) (ms_mem s0)); exact Hid. }
  rewrite <- (H s eq_refl Hex). apply look_of_mts. reflexivity.
Qed.

Lemma write_grows t l b n : sorted l -> (forall e, In e l -> (ets e < n)%N) -> (t < n)%N -> NoDup (map fst b) ->
  grows t l (ins_all (new_ents n b) l) /\
  (forall e, In e (ins_all (new_ents n b) l) <-> In e (new_ents n b) \/ In e l).
Proof.
  intros Hs Hts Ht Hnd.
  assert (forall e, In e (ins_all (new_ents n b) l) <-> In e (new_ents n b) \/ In e l) as Hmem.
  { intros e. split; intros H.
    - apply (Permutation_in _ (ins_all_perm _ _)) in H. now apply in_app_or in H.
    - apply (Permutation_in _ (Permutation_sym (ins_all_perm _ _))). now apply in_or_app. }
  split; [|exact Hmem]. split; [|split].
  - apply ins_all_sorted; [exact Hs|]. apply distinct_app_intro; [now apply new_ents_distinct|now apply sorted_distinct|].
    intros x y Hx Hy He. apply eeq_ts in He. rewrite (new_ents_ts _ _ _ Hx) in He. specialize (Hts y Hy). lia.
  - intros x Hx. apply Hmem. now right.
  - intros x Hx. apply Hmem in Hx. destruct Hx as [Hx|Hx]; [right|now left]. unfold lateP. rewrite (new_ents_ts _ _ _ Hx). exact Ht.
Qed.

(* ---------------------------------------------------------------- sequence numbers only grow *)
Lemma fold_upd_seq g ms : forall s, ms_seq (fold_left (fun s m => upd_mt g m s) ms s) = ms_seq s.
Proof. induction ms as [|m ms IH]; intros s; cbn [fold_left]; [reflexivity|]. now rewrite IH. Qed.
Lemma frame_seq s s' : frame s s' -> ms_seq s' = ms_seq s.
Proof. intros [E _]. exact E. Qed.

Lemma seq_upd_mt g m s : ms_seq (upd_mt g m s) = ms_seq s. Proof. reflexivity. Qed.
Lemma seq_clear_imm s : ms_seq (clear_imm s) = ms_seq s. Proof. reflexivity. Qed.
Lemma seq_mono c s e : (ms_seq s <= ms_seq (fst (mstep c s e)))%N.
Proof.
  destruct e as [b| |fid|levels|fs|fs|c' lo hi|c' o|c'| |m' k n v|n]; cbn [mstep].
  - cbn [fst]. unfold do_write. cbv zeta. cbn [ms_seq]. lia.
  - destruct (ms_imm s); cbn [fst]; [lia|]. unfold do_rollover. cbv zeta. cbn [ms_seq upd_mt set_mts]. lia.
  - destruct (ms_imm s) as [im|]; cbn [fst]; [|lia]. unfold do_flushdone. cbv zeta. rewrite !seq_upd_mt, seq_clear_imm.
    rewrite (frame_seq _ _ (proj1 (install_new_frame _ _))). lia.
  - cbn [fst]. rewrite (frame_seq _ _ (proj1 (install_new_frame _ _))). lia.
  - cbn [fst]. cbn. lia.
  - cbn [fst]. cbn. lia.
  - destruct (find_scan s c'); [cbn [fst]; lia|]. unfold do_open. cbv zeta.
    set (s2 := fold_left (fun s m => upd_mt mt_add_iter m s) (open_mems s) (take_snapshot s)).
    assert (ms_seq s2 = ms_seq s) as E2 by (unfold s2; rewrite fold_upd_seq; reflexivity).
    destruct (freed_any s2 (open_mems s)); [cbn [fst]; lia|].
    destruct (negb (forallb (openable s2) _)); [cbn [fst]; lia|]. cbn [fst].
    destruct (cf_holds_ver c).
    + destruct (cf_cache c); cbn [ms_seq set_scans set_cache]; lia.
    + rewrite (frame_seq _ _ (proj1 (vref_drop_frame _ _))). destruct (cf_cache c); cbn [ms_seq set_scans set_cache]; lia.
  - destruct (find_scan s c') as [sc|]; [|cbn [fst]; lia]. unfold do_step. cbv zeta.
    destruct (freed_any s (xmems (sc_x sc))); [cbn [fst]; lia|].
    destruct (negb (forallb (openable s) _)); [cbn [fst]; lia|]. cbn [fst]. unfold put_scan. destruct (cf_cache c); cbn [ms_seq set_scans set_cache]; lia.
  - destruct (find_scan s c') as [sc|]; [|cbn [fst]; lia]. cbn [fst]. unfold do_close. cbv zeta.
    set (s1 := set_scans s _).
    assert (ms_seq (fold_left (fun s m => upd_mt (mt_drop_iter c) m s) (sc_mems sc) s1) = ms_seq s) as E2 by (rewrite fold_upd_seq; reflexivity).
    destruct (sc_holds sc); [|lia]. rewrite (frame_seq _ _ (proj1 (vref_drop_frame _ _))). lia.
  - cbn. lia.
  - destruct (insert_ok s m' k n); cbn; lia.
  - destruct ((ms_vis s <? n)%N && (n <=? ms_seq s)%N); cbn; lia.
Qed.

(* the read timestamp only grows, and stays a sequence number that has been handed out *)
Lemma fold_upd_vis g ms : forall s, ms_vis (fold_left (fun s m => upd_mt g m s) ms s) = ms_vis s.
Proof. induction ms as [|m ms IH]; intros s; cbn [fold_left]; [reflexivity|]. now rewrite IH. Qed.
Lemma frame_vis s s' : frame s s' -> ms_vis s' = ms_vis s.
Proof. intros [_ [E _]]. exact E. Qed.
Lemma vis_upd_mt g m s : ms_vis (upd_mt g m s) = ms_vis s. Proof. reflexivity. Qed.
Lemma vis_clear_imm s : ms_vis (clear_imm s) = ms_vis s. Proof. reflexivity. Qed.

Lemma vis_mono c s e : (ms_vis s <= ms_seq s)%N ->
  (ms_vis s <= ms_vis (fst (mstep c s e)))%N /\ (ms_vis (fst (mstep c s e)) <= ms_seq (fst (mstep c s e)))%N.
Proof.
  intros Hv. pose proof (seq_mono c s e) as Hs.
  assert (ms_vis (fst (mstep c s e)) = ms_vis s -> (ms_vis s <= ms_vis (fst (mstep c s e)))%N /\ (ms_vis (fst (mstep c s e)) <= ms_seq (fst (mstep c s e)))%N) as Hsame
    by (intros E; rewrite E; lia).
  destruct e as [b| |fid|levels|fs|fs|c' lo hi|c' o|c'| |m' k n v|n]; cbn [mstep] in *.
  - cbn [fst]. unfold do_write. cbv zeta. cbn [ms_seq ms_vis]. lia.
  - apply Hsame. destruct (ms_imm s); reflexivity.
  - apply Hsame. destruct (ms_imm s) as [im|]; cbn [fst]; [|reflexivity]. unfold do_flushdone. cbv zeta. rewrite !vis_upd_mt, vis_clear_imm.
    apply (frame_vis _ _ (proj1 (install_new_frame _ _))).
  - apply Hsame. cbn [fst]. apply (frame_vis _ _ (proj1 (install_new_frame _ _))).
  - apply Hsame. reflexivity.
  - apply Hsame. reflexivity.
  - apply Hsame. destruct (find_scan s c'); [reflexivity|]. unfold do_open. cbv zeta.
    set (s2 := fold_left (fun s m => upd_mt mt_add_iter m s) (open_mems s) (take_snapshot s)).
    assert (ms_vis s2 = ms_vis s) as E2 by (unfold s2; rewrite fold_upd_vis; reflexivity).
    destruct (freed_any s2 (open_mems s)); [exact E2|].
    destruct (negb (forallb (openable s2) _)); [exact E2|]. cbn [fst].
    destruct (cf_holds_ver c).
    + destruct (cf_cache c); exact E2.
    + rewrite (frame_vis _ _ (proj1 (vref_drop_frame _ _))). destruct (cf_cache c); exact E2.
  - apply Hsame. destruct (find_scan s c') as [sc|]; [|reflexivity]. unfold do_step. cbv zeta.
    destruct (freed_any s (xmems (sc_x sc))); [reflexivity|].
    destruct (negb (forallb (openable s) _)); [reflexivity|]. cbn [fst]. destruct (cf_cache c); reflexivity.
  - apply Hsame. destruct (find_scan s c') as [sc|]; [|reflexivity]. cbn [fst]. unfold do_close. cbv zeta.
    set (s1 := set_scans s _).
    assert (ms_vis (fold_left (fun s m => upd_mt (mt_drop_iter c) m s) (sc_mems sc) s1) = ms_vis s) as E2 by (rewrite fold_upd_vis; reflexivity).
    destruct (sc_holds sc); [|exact E2]. rewrite (frame_vis _ _ (proj1 (vref_drop_frame _ _))). exact E2.
  - cbn. lia.
  - apply Hsame. destruct (insert_ok s m' k n); reflexivity.
  - destruct ((ms_vis s <? n)%N && (n <=? ms_seq s)%N) eqn:E; cbn [fst]; [|lia]. apply andb_prop in E. destruct E as [E1 E2].
    apply N.ltb_lt in E1. apply N.leb_le in E2. cbn. lia.
Qed.

