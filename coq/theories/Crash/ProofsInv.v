(* Crash/ProofsInv.v — what a directory image must satisfy for recovery to succeed with a given set
   of entries (`Rec`), when that survives every crash cut (`Safe`), and the machinery to walk
   through the calls of an operation (`prefix_safe`). *)
From Coq Require Import NArith List Bool Arith Lia Permutation.
From Blue Require Import Lsm.Model Lsm.KeyOrder Lsm.SortLemmas Crash.Model Crash.ProofsFs.
Import ListNotations.
Open Scope N_scope.

Definition same_rel (s s' : fs) : Prop := forall n, relevant n = true -> lookup n s' = lookup n s.

Lemma same_rel_refl s : same_rel s s.
Proof. intros n _. reflexivity. Qed.

Lemma same_rel_trans a b c : same_rel a b -> same_rel b c -> same_rel a c.
Proof. intros H1 H2 n Hn. rewrite (H2 n Hn). now apply H1. Qed.

Lemma same_rel_sym a b : same_rel a b -> same_rel b a.
Proof. intros H n Hn. symmetry. now apply H. Qed.

(* ------------------------------------------------------------------ the recoverable image *)
(* every file in sst/ is a complete, durable SST holding exactly what its name says *)
Definition sst_ok (s : fs) : Prop := forall x f, lookup (NSst x) s = Some f -> f = mkFile [CkSst x] 1.
(* every SST the manifest lists is there *)
Definition live_ok (s : fs) : Prop := forall x, In x (mani_strs s) -> lookup (NSst x) s <> None.
(* the entries held by live SSTs and by the logs in the root are exactly E *)
Definition ents_ok (s : fs) (E : list entry) : Prop :=
  forall e, In e E <->
    (exists x, In x (mani_strs s) /\ In e x) \/
    (exists n f, lookup (NLog n) s = Some f /\ In e (file_log_entries f)).

Definition Rec (s : fs) (E : list entry) : Prop := wf s /\ sst_ok s /\ live_ok s /\ ents_ok s E.

(* what a reopen may find after a crash: the acknowledged entries, or those plus the whole batch
   that was in flight *)
Definition Safe (s : fs) (E : list entry) (P : option (list entry)) : Prop :=
  forall s', cut s s' -> Rec s' E \/ exists p, P = Some p /\ Rec s' (E ++ p).

(* every file recovery reads is fully durable *)
Definition stable (s : fs) : Prop :=
  forall n f, relevant n = true -> lookup n s = Some f -> f_dur f = length (f_data f).

Definition Good (s : fs) (E : list entry) : Prop := stable s /\ Rec s E.

Lemma same_rel_strs s s' : same_rel s s' -> mani_strs s' = mani_strs s.
Proof. intros H. unfold mani_strs, mani_edits. now rewrite (H NMani eq_refl). Qed.

Lemma rec_ext s s' E : wf s' -> same_rel s s' -> Rec s E -> Rec s' E.
Proof.
  intros Hw Hs (_ & A & B & C). split; [exact Hw|]. split; [|split].
  - intros x f. rewrite (Hs (NSst x) eq_refl). apply A.
  - intros x. rewrite (same_rel_strs _ _ Hs), (Hs (NSst x) eq_refl). apply B.
  - intros e. rewrite (C e), (same_rel_strs _ _ Hs). split; (intros [H|(n & f & H1 & H2)]; [now left|right]);
      exists n, f; (split; [|exact H2]); [now rewrite (Hs (NLog n) eq_refl)|now rewrite <- (Hs (NLog n) eq_refl)].
Qed.

Lemma stable_ext s s' : same_rel s s' -> stable s -> stable s'.
Proof. intros Hs H n f Hn. rewrite (Hs n Hn). now apply H. Qed.

Lemma good_ext s s' E : wf s' -> same_rel s s' -> Good s E -> Good s' E.
Proof. intros Hw Hs [A B]. split; [eapply stable_ext; eauto|eapply rec_ext; eauto]. Qed.

Lemma rec_set_eq s E E' : (forall e, In e E <-> In e E') -> Rec s E -> Rec s E'.
Proof. intros H (A & B & C & D). repeat split; auto; intros He; [apply D, H, He|apply H, D, He]. Qed.

Lemma good_set_eq s E E' : (forall e, In e E <-> In e E') -> Good s E -> Good s E'.
Proof. intros H [A B]. split; [exact A|eapply rec_set_eq; eauto]. Qed.

Lemma stable_cut_same s s' : stable s -> cut s s' -> same_rel s s'.
Proof.
  intros Hst Hc n Hn. pose proof (cut_lookup s s' n Hc) as H.
  destruct (lookup n s) as [f|] eqn:E; [|exact H].
  destruct H as (k & Hk & ->). pose proof (Hst n f Hn E) as Hd. rewrite Hd, Nat.min_id in Hk.
  assert (k = length (f_data f)) by lia. subst k. now rewrite cut_file_full.
Qed.

Lemma good_safe s E P : Good s E -> Safe s E P.
Proof.
  intros [Hst Hr] s' Hc. left. apply (rec_ext s s'); [eapply cut_wf; eauto; apply Hr|now apply stable_cut_same|exact Hr].
Qed.

Lemma cut_stable s s' : cut s s' -> stable s'.
Proof.
  intros Hc n f _ Hl. apply (cut_all_durable _ _ Hc n f). now apply lookup_in.
Qed.

(* X is an outcome the pair (E, P) allows: a directory that recovers X recovers E, or E and the
   whole pending batch *)
Definition covers (E : list entry) (P : option (list entry)) (X : list entry) : Prop :=
  forall img, Rec img X -> Rec img E \/ exists p, P = Some p /\ Rec img (E ++ p).

Lemma covers_refl E P : covers E P E.
Proof. intros img H. now left. Qed.

Lemma covers_pend E p : covers E (Some p) (E ++ p).
Proof. intros img H. right. eauto. Qed.

Lemma covers_set_eq E P X X' : (forall e, In e X <-> In e X') -> covers E P X -> covers E P X'.
Proof. intros H Hc img Hr. apply Hc. eapply rec_set_eq; [|exact Hr]. intros e. symmetry. apply H. Qed.

Lemma good_safe_c s X E P : Good s X -> covers E P X -> Safe s E P.
Proof.
  intros Hg Hc s' Hcut. apply Hc.
  destruct (good_safe s X None Hg s' Hcut) as [H|(? & H & _)]; [exact H|discriminate].
Qed.

(* ------------------------------------------------------------------ one unsynced write() *)
(* s1 = s0 after one more chunk c was written to the relevant file f (not yet synced): a crash
   keeps the chunk or drops it *)
Lemma pending_cut f s0 fl c s' :
  relevant f = true -> stable s0 -> wf s0 -> lookup f s0 = Some fl ->
  cut (set f (mkFile (f_data fl ++ [c]) (f_dur fl)) s0) s' ->
  wf s' /\ (same_rel s0 s' \/ same_rel (set f (mkFile (f_data fl ++ [c]) (S (length (f_data fl)))) s0) s').
Proof.
  intros Hf Hst Hw Hl Hc. split; [eapply cut_wf; eauto; now apply wf_set|].
  pose proof (Hst f fl Hf Hl) as Hd.
  pose proof (cut_lookup _ _ f Hc) as Hcf. rewrite lookup_set, name_eqb_refl in Hcf.
  destruct Hcf as (k & Hk & Hlf). cbn [f_data f_dur] in Hk. rewrite app_length in Hk. cbn [length] in Hk.
  assert (Hother : forall n, relevant n = true -> n <> f -> lookup n s' = lookup n s0).
  { intros n Hn Hne. pose proof (cut_lookup _ _ n Hc) as H. rewrite lookup_set, name_eqb_neq in H by exact Hne.
    destruct (lookup n s0) as [g|] eqn:E; [|exact H]. destruct H as (k' & Hk' & ->).
    pose proof (Hst n g Hn E) as Hg. rewrite Hg, Nat.min_id in Hk'. assert (k' = length (f_data g)) by lia. subst k'.
    now rewrite cut_file_full. }
  assert (k = length (f_data fl) \/ k = S (length (f_data fl))) as [->| ->] by lia.
  - left. intros n Hn. destruct (name_eqb n f) eqn:E.
    + apply name_eqb_eq in E. subst n. rewrite Hlf, Hl. f_equal. unfold cut_file. cbn [f_data].
      rewrite firstn_app, Nat.sub_diag, firstn_all. cbn [firstn]. rewrite app_nil_r. destruct fl; cbn in *. now subst.
    + apply Hother; [exact Hn|]. intros ->. now rewrite name_eqb_refl in E.
  - right. intros n Hn. rewrite lookup_set. destruct (name_eqb n f) eqn:E.
    + apply name_eqb_eq in E. subst n. rewrite Hlf. f_equal. unfold cut_file. cbn [f_data].
      replace (S (length (f_data fl))) with (length (f_data fl ++ [c])) by (rewrite app_length; cbn; lia).
      now rewrite firstn_all.
    + apply Hother; [exact Hn|]. intros ->. now rewrite name_eqb_refl in E.
Qed.

Lemma pending_safe f s0 fl c E E' P :
  relevant f = true -> Good s0 E -> lookup f s0 = Some fl ->
  Rec (set f (mkFile (f_data fl ++ [c]) (S (length (f_data fl)))) s0) E' ->
  (E' = E \/ exists p, P = Some p /\ E' = E ++ p) ->
  Safe (set f (mkFile (f_data fl ++ [c]) (f_dur fl)) s0) E P.
Proof.
  intros Hf [Hst Hr] Hl Hr' HE s' Hc.
  destruct (pending_cut f s0 fl c s' Hf Hst (proj1 Hr) Hl Hc) as [Hw [Hs|Hs]].
  - left. eapply rec_ext; eauto.
  - destruct HE as [->|(p & -> & ->)].
    + left. eapply rec_ext; eauto.
    + right. exists p. split; [reflexivity|]. eapply rec_ext; eauto.
Qed.

Lemma pending_safe_c f s0 fl c X X' E P :
  relevant f = true -> Good s0 X -> lookup f s0 = Some fl ->
  Rec (set f (mkFile (f_data fl ++ [c]) (S (length (f_data fl)))) s0) X' ->
  covers E P X -> covers E P X' ->
  Safe (set f (mkFile (f_data fl ++ [c]) (f_dur fl)) s0) E P.
Proof.
  intros Hf [Hst Hr] Hl Hr' HX HX' s' Hc.
  destruct (pending_cut f s0 fl c s' Hf Hst (proj1 Hr) Hl Hc) as [Hw [Hs|Hs]].
  - apply HX. eapply rec_ext; eauto.
  - apply HX'. eapply rec_ext; eauto.
Qed.

(* ------------------------------------------------------------------ frames: files recovery does not read *)
Lemma lookup_map_names (F : name -> file -> file) s n :
  lookup n (map (fun p => (fst p, F (fst p) (snd p))) s) = option_map (F n) (lookup n s).
Proof.
  induction s as [|[m g] s IH]; cbn [map lookup fst snd]; [reflexivity|].
  destruct (name_eqb n m) eqn:E; [|exact IH]. apply name_eqb_eq in E. now subst.
Qed.

Definition keep_rel (img : fs) (n : name) (f : file) : file :=
  if relevant n then match lookup n img with Some g => g | None => f end
  else cut_file (length (f_data f)) f.

Lemma cut_keep_rel img s :
  Forall (fun p => relevant (fst p) = true ->
            exists k, (Nat.min (f_dur (snd p)) (length (f_data (snd p))) <= k <= length (f_data (snd p)))%nat /\
                      lookup (fst p) img = Some (cut_file k (snd p))) s ->
  cut s (map (fun p => (fst p, keep_rel img (fst p) (snd p))) s).
Proof.
  induction s as [|[n f] s IH]; intros Hall; cbn [map]; [constructor|].
  inversion Hall as [|? ? Hh Ht]; subst. cbn [fst snd] in *.
  unfold keep_rel at 1. destruct (relevant n) eqn:Er.
  - destruct (Hh eq_refl) as (k & Hk & Hl). rewrite Hl. constructor; [exact Hk|now apply IH].
  - constructor; [split; [apply Nat.le_min_r|lia]|now apply IH].
Qed.

(* a state that differs only in files recovery does not read is as safe *)
Lemma safe_same_rel s s' E P : wf s -> wf s' -> same_rel s s' -> Safe s E P -> Safe s' E P.
Proof.
  intros Hw Hw' Hs HS img Hc.
  set (img0 := map (fun p => (fst p, keep_rel img (fst p) (snd p))) s).
  assert (Hcut : cut s img0).
  { apply cut_keep_rel. apply Forall_forall. intros [n f] Hin Hr. cbn [fst snd] in *.
    pose proof (in_lookup n f s Hw Hin) as Hl. rewrite <- (Hs n Hr) in Hl.
    pose proof (cut_lookup s' img n Hc) as H. rewrite Hl in H. exact H. }
  assert (Hrel : same_rel img0 img).
  { intros n Hn. unfold img0. rewrite lookup_map_names. unfold keep_rel. rewrite Hn.
    pose proof (cut_lookup s' img n Hc) as H. rewrite (Hs n Hn) in H.
    destruct (lookup n s) as [f|]; cbn [option_map].
    - destruct H as (k & _ & ->). reflexivity.
    - exact H. }
  assert (Hwi : wf img) by (eapply cut_wf; eauto).
  destruct (HS img0 Hcut) as [Hr|(p & Hp & Hr)].
  - left. eapply rec_ext; eauto.
  - right. exists p. split; [exact Hp|]. eapply rec_ext; eauto.
Qed.

(* ------------------------------------------------------------------ walking through a program *)
(* the directory after the first k calls of a run in which the call with index f (if any) fails
   with an injected I/O error; f = None: the crash points of the fault-free run *)
Definition fstate (p : prog) (f : option nat) (k : nat) (s : fs) : fs := fst (run_prog (firstn k p) f O s None).

(* every state an operation passes through — fault-free, or with any single call failing — is safe *)
Definition prefix_safe (p : prog) (s : fs) (E : list entry) (P : option (list entry)) : Prop :=
  forall f k, Safe (fstate p f k s) E P.

(* the states after an error was deferred (compaction_finish): n calls are skipped, the inputs are
   not retired, the clean-up runs *)
Definition dstate (p : prog) (n k : nat) (s : fs) : fs := fst (run_prog (firstn k p) None n s (Some EIo)).
Definition dsafe (p : prog) (n : nat) (s : fs) (E : list entry) (P : option (list entry)) : Prop :=
  forall k, Safe (dstate p n k s) E P.

Definition run (p : prog) (s : fs) : fs * option err := run_prog p None O s None.

Lemma prefix_state_fstate p k s : prefix_state p k s = fstate p None k s.
Proof. reflexivity. Qed.

Lemma prefix_safe_nil s E P : Safe s E P -> prefix_safe [] s E P.
Proof. intros H f k. unfold fstate. now rewrite firstn_nil. Qed.

Lemma prefix_safe_must_cons c p s E P :
  Safe s E P -> (forall s', exec c s = Some s' -> prefix_safe p s' E P) -> prefix_safe ((c, Must) :: p) s E P.
Proof.
  intros H0 Hn f [|k]; [exact H0|]. unfold fstate. cbn [firstn run_prog retire_suppressed].
  destruct f as [[|j]|]; [exact H0| |]; (destruct (exec c s) as [s'|] eqn:Ex; [apply (Hn s' eq_refl)|exact H0]).
Qed.

(* a call whose error is dropped: it succeeds, fails by itself, or fails by injection *)
Lemma prefix_safe_ignore_cons c p s E P :
  Safe s E P -> prefix_safe p (exec_or c s) E P -> prefix_safe p s E P -> prefix_safe ((c, Ignore) :: p) s E P.
Proof.
  intros H0 Hn Hs f [|k]; [exact H0|]. unfold fstate, exec_or in *. cbn [firstn run_prog retire_suppressed].
  destruct f as [[|j]|]; [apply (Hs None k)| |]; (destruct (exec c s) as [s'|]; apply Hn).
Qed.

Lemma prefix_safe_retire_cons c p s E P :
  Safe s E P -> prefix_safe p (exec_or c s) E P -> prefix_safe p s E P -> prefix_safe ((c, Retire) :: p) s E P.
Proof.
  intros H0 Hn Hs f [|k]; [exact H0|]. unfold fstate, exec_or in *. cbn [firstn run_prog retire_suppressed].
  destruct f as [[|j]|]; [apply (Hs None k)| |]; (destruct (exec c s) as [s'|]; apply Hn).
Qed.

Lemma prefix_safe_exist_cons c p s E P :
  Safe s E P -> prefix_safe p (exec_or c s) E P -> prefix_safe ((c, Exist) :: p) s E P.
Proof.
  intros H0 Hn f [|k]; [exact H0|]. unfold fstate, exec_or in *. cbn [firstn run_prog retire_suppressed].
  destruct f as [[|j]|]; [exact H0| |]; (destruct (exec c s) as [s'|]; apply Hn).
Qed.

Lemma prefix_safe_defer_cons c n p s E P :
  Safe s E P -> (exists s1, exec c s = Some s1) -> (forall s', exec c s = Some s' -> prefix_safe p s' E P) ->
  dsafe p n s E P -> prefix_safe ((c, Defer n) :: p) s E P.
Proof.
  intros H0 (s1 & E1) Hn Hd f [|k]; [exact H0|]. unfold fstate. cbn [firstn run_prog retire_suppressed].
  destruct f as [[|j]|]; [apply (Hd k)| |]; rewrite E1; apply (Hn s1 E1).
Qed.

Lemma run_must_cons c p s :
  run ((c, Must) :: p) s = match exec c s with Some s' => run p s' | None => (s, Some EIo) end.
Proof. unfold run. cbn [run_prog retire_suppressed]. now destruct (exec c s). Qed.

Lemma run_ignore_cons c p s : run ((c, Ignore) :: p) s = run p (exec_or c s).
Proof. unfold run, exec_or. cbn [run_prog retire_suppressed]. now destruct (exec c s). Qed.

Lemma run_retire_cons c p s : run ((c, Retire) :: p) s = run p (exec_or c s).
Proof. unfold run, exec_or. cbn [run_prog retire_suppressed]. now destruct (exec c s). Qed.

Lemma run_exist_cons c p s : run ((c, Exist) :: p) s = run p (exec_or c s).
Proof. unfold run, exec_or. cbn [run_prog retire_suppressed]. now destruct (exec c s). Qed.

Lemma must_app a b : must (a ++ b) = must a ++ must b.
Proof. unfold must. apply map_app. Qed.

Definition fsub (f : option nat) (n : nat) : option nat := match f with Some j => Some (j - n)%nat | None => None end.

(* a run of `?` calls, then more: either it stopped inside the first part, or nothing was injected
   there and the rest runs from where the fault-free first part ends *)
Lemma run_prog_must_app cs : forall p f s,
  run_prog (must cs ++ p) f O s None =
  match run_prog (must cs) f O s None with
  | (s', None) => run_prog p (fsub f (length cs)) O s' None
  | r => r
  end.
Proof.
  induction cs as [|c cs IH]; intros p f s.
  - cbn [must map app run_prog retire_suppressed length fsub]. destruct f as [j|]; cbn [fsub]; [now rewrite Nat.sub_0_r|reflexivity].
  - cbn [must map app run_prog retire_suppressed length]. fold (must cs).
    destruct f as [[|j]|]; cbn [fsub]; [reflexivity| |]; (destruct (exec c s) as [s1|]; [|reflexivity]); rewrite IH; reflexivity.
Qed.

Lemma run_prog_must_ok cs : forall f s s', run_prog (must cs) f O s None = (s', None) -> run (must cs) s = (s', None).
Proof.
  induction cs as [|c cs IH]; intros f s s'; cbn [must map run_prog retire_suppressed].
  - intros H. exact H.
  - fold (must cs). unfold run. cbn [run_prog retire_suppressed]. fold (must cs).
    destruct f as [[|j]|]; [discriminate| |]; (destruct (exec c s) as [s1|]; [apply IH|discriminate]).
Qed.

Lemma run_app_must cs p s :
  run (must cs ++ p) s = match run (must cs) s with (s', None) => run p s' | r => r end.
Proof. unfold run. rewrite run_prog_must_app. reflexivity. Qed.

Lemma prefix_safe_app_must cs p s E P :
  prefix_safe (must cs) s E P ->
  (forall s', run (must cs) s = (s', None) -> prefix_safe p s' E P) ->
  prefix_safe (must cs ++ p) s E P.
Proof.
  intros H1 H2 f k. unfold fstate. destruct (Nat.le_gt_cases k (length (must cs))) as [Hk|Hk].
  - rewrite firstn_app. replace (k - length (must cs))%nat with O by lia. cbn [firstn]. rewrite app_nil_r. apply H1.
  - rewrite firstn_app, firstn_all2 by lia. rewrite run_prog_must_app.
    destruct (run_prog (must cs) f O s None) as [s' [e|]] eqn:R.
    + specialize (H1 f (length (must cs))). unfold fstate in H1. rewrite firstn_all, R in H1. exact H1.
    + apply (H2 s' (run_prog_must_ok _ _ _ _ R)).
Qed.

Lemma run_must_err cs s s' e : run (must cs) s = (s', Some e) -> e = EIo.
Proof.
  revert s. induction cs as [|c cs IH]; intros s; cbn [must map].
  - unfold run. cbn. intros H. inversion H.
  - rewrite run_must_cons. destruct (exec c s); [apply IH|]. intros H. now inversion H.
Qed.

(* a successful run ends where the (tolerant) replay of its calls ends *)
Lemma run_must_replay cs : forall s s', run (must cs) s = (s', None) -> s' = replay cs s.
Proof.
  induction cs as [|c cs IH]; intros s s'; cbn [must map replay].
  - unfold run. cbn. intros H. now inversion H.
  - rewrite run_must_cons. unfold exec_or. destruct (exec c s); [apply IH|discriminate].
Qed.

(* ------------------------------------------------------------------ after a deferred error *)
Lemma dsafe_nil n s E P : Safe s E P -> dsafe [] n s E P.
Proof. intros H k. unfold dstate. rewrite firstn_nil. exact H. Qed.

Lemma dsafe_skip cm p n s E P : Safe s E P -> dsafe p n s E P -> dsafe (cm :: p) (S n) s E P.
Proof. intros H0 H [|k]; [exact H0|]. unfold dstate. destruct cm as [c m]. cbn [firstn run_prog retire_suppressed]. apply H. Qed.

Lemma dsafe_retire c p s E P : Safe s E P -> dsafe p O s E P -> dsafe ((c, Retire) :: p) O s E P.
Proof. intros H0 H [|k]; [exact H0|]. unfold dstate. cbn [firstn run_prog retire_suppressed]. apply H. Qed.

Lemma dsafe_must c p s E P :
  Safe s E P -> (forall s', exec c s = Some s' -> dsafe p O s' E P) -> dsafe ((c, Must) :: p) O s E P.
Proof.
  intros H0 H [|k]; [exact H0|]. unfold dstate. cbn [firstn run_prog retire_suppressed].
  destruct (exec c s) as [s'|] eqn:Ex; [apply (H s' eq_refl)|exact H0].
Qed.

(* ------------------------------------------------------------------ after a late error (the clean-up after the manifest edit) *)
Lemma deferred_stays p : forall f k s e, snd (run_prog p f k s (Some e)) <> None.
Proof.
  induction p as [|[c m] p IH]; intros f k s e; cbn [run_prog]; [discriminate|].
  destruct k; [|apply IH].
  destruct (retire_suppressed m (Some e)); [apply IH|].
  destruct (if match f with Some O => true | _ => false end then None else exec c s); [apply IH|].
  destruct m; try (apply IH); try discriminate.
  destruct (match f with Some O => true | _ => false end); [discriminate|apply IH].
Qed.

Lemma retire_suppressed_none m : retire_suppressed m None = false.
Proof. destruct m; reflexivity. Qed.

Lemma retire_suppressed_late m : retire_suppressed m (Some ELate) = retire_suppressed m None.
Proof. destruct m; reflexivity. Qed.

(* a late error changes what is returned, never what is done *)
Lemma late_states p : forall f k s, fst (run_prog p f k s (Some ELate)) = fst (run_prog p f k s None).
Proof.
  induction p as [|[c m] p IH]; intros f k s; cbn [run_prog]; [reflexivity|].
  destruct k; [|apply IH]. rewrite retire_suppressed_late.
  destruct (retire_suppressed m None); [apply IH|].
  destruct (if match f with Some O => true | _ => false end then None else exec c s); [apply IH|].
  destruct m; try (apply IH); try reflexivity.
  destruct (match f with Some O => true | _ => false end); [reflexivity|apply IH].
Qed.

(* every state of a run whose first n calls are skipped *)
Definition psafe_skip (p : prog) (n : nat) (s : fs) (E : list entry) (P : option (list entry)) : Prop :=
  forall f k, Safe (fst (run_prog (firstn k p) f n s None)) E P.

Lemma psafe_skip_app a : forall q s E P, Safe s E P -> prefix_safe q s E P -> psafe_skip (a ++ q) (length a) s E P.
Proof.
  induction a as [|cm a IH]; intros q s E P H0 Hq f k.
  - cbn [app length]. apply (Hq f k).
  - destruct k as [|k]; [cbn; exact H0|]. cbn [app length firstn run_prog]. destruct cm. apply (IH q s E P H0 Hq f k).
Qed.

Lemma prefix_safe_late_cons c n p s E P :
  Safe s E P -> (forall s', exec c s = Some s' -> prefix_safe p s' E P) ->
  psafe_skip p n s E P -> prefix_safe ((c, Late n) :: p) s E P.
Proof.
  intros H0 Hn Hl f [|k]; [exact H0|]. unfold fstate. cbn [firstn run_prog retire_suppressed late_err].
  destruct f as [[|j]|].
  - rewrite late_states. apply Hl.
  - destruct (exec c s) as [s1|] eqn:E1; [apply (Hn s1 eq_refl)|]. rewrite late_states. apply Hl.
  - destruct (exec c s) as [s1|] eqn:E1; [apply (Hn s1 eq_refl)|]. rewrite late_states. apply Hl.
Qed.

Lemma dsafe_late c n p s E P :
  Safe s E P -> (forall s', exec c s = Some s' -> dsafe p O s' E P) -> dsafe p n s E P ->
  dsafe ((c, Late n) :: p) O s E P.
Proof.
  intros H0 H Hn [|k]; [exact H0|]. unfold dstate. cbn [firstn run_prog retire_suppressed late_err].
  destruct (exec c s) as [s'|] eqn:Ex; [apply (H s' eq_refl)|apply Hn].
Qed.

(* ------------------------------------------------------------------ walk = every state passed through is safe, and the end satisfies Q *)
Definition walk (p : prog) (s : fs) (E : list entry) (P : option (list entry)) (Q : fs -> Prop) : Prop :=
  prefix_safe p s E P /\ forall s', run p s = (s', None) -> Q s'.

Lemma walk_nil s E P (Q : fs -> Prop) : Safe s E P -> Q s -> walk [] s E P Q.
Proof.
  intros H HQ. split; [now apply prefix_safe_nil|]. unfold run. cbn. intros s' Hs. now inversion Hs; subst.
Qed.

Lemma walk_must_cons c p s E P (Q : fs -> Prop) :
  Safe s E P -> (forall s', exec c s = Some s' -> walk p s' E P Q) -> walk ((c, Must) :: p) s E P Q.
Proof.
  intros H0 Hn. split.
  - apply prefix_safe_must_cons; [exact H0|]. intros s' Hs. apply (Hn s' Hs).
  - intros s'. rewrite run_must_cons. destruct (exec c s) as [s1|] eqn:Ex; [|discriminate]. apply (Hn s1 eq_refl).
Qed.

Lemma walk_ignore_cons c p s E P (Q : fs -> Prop) :
  Safe s E P -> walk p (exec_or c s) E P Q -> prefix_safe p s E P -> walk ((c, Ignore) :: p) s E P Q.
Proof.
  intros H0 [Hn1 Hn2] Hs. split.
  - now apply prefix_safe_ignore_cons.
  - intros s'. rewrite run_ignore_cons. apply Hn2.
Qed.

Lemma walk_retire_cons c p s E P (Q : fs -> Prop) :
  Safe s E P -> walk p (exec_or c s) E P Q -> prefix_safe p s E P -> walk ((c, Retire) :: p) s E P Q.
Proof.
  intros H0 [Hn1 Hn2] Hs. split.
  - now apply prefix_safe_retire_cons.
  - intros s'. rewrite run_retire_cons. apply Hn2.
Qed.

Lemma walk_exist_cons c p s E P (Q : fs -> Prop) :
  Safe s E P -> walk p (exec_or c s) E P Q -> walk ((c, Exist) :: p) s E P Q.
Proof.
  intros H0 [Hn1 Hn2]. split.
  - now apply prefix_safe_exist_cons.
  - intros s'. rewrite run_exist_cons. apply Hn2.
Qed.

Lemma walk_defer_cons c n p s E P (Q : fs -> Prop) :
  Safe s E P -> (exists s1, exec c s = Some s1) -> (forall s', exec c s = Some s' -> walk p s' E P Q) ->
  dsafe p n s E P -> walk ((c, Defer n) :: p) s E P Q.
Proof.
  intros H0 (s1 & E1) Hn Hd. destruct (Hn s1 E1) as [A B]. split.
  - apply prefix_safe_defer_cons; [exact H0|eauto| |exact Hd]. intros s' Hs. apply (Hn s' Hs).
  - intros s'. unfold run. cbn [run_prog retire_suppressed]. rewrite E1. apply B.
Qed.

Lemma walk_late_cons c n p s E P (Q : fs -> Prop) :
  Safe s E P -> (forall s', exec c s = Some s' -> walk p s' E P Q) ->
  psafe_skip p n s E P -> walk ((c, Late n) :: p) s E P Q.
Proof.
  intros H0 Hn Hl. split.
  - apply prefix_safe_late_cons; [exact H0| |exact Hl]. intros s' Hs. apply (Hn s' Hs).
  - intros s'. unfold run. cbn [run_prog retire_suppressed late_err].
    destruct (exec c s) as [s1|] eqn:E1; [apply (Hn s1 eq_refl)|].
    intros H. exfalso. pose proof (deferred_stays p None n s ELate) as Hd. rewrite H in Hd. now apply Hd.
Qed.

Lemma walk_conseq p s E P (Q Q' : fs -> Prop) : (forall s', Q s' -> Q' s') -> walk p s E P Q -> walk p s E P Q'.
Proof. intros H [A B]. split; [exact A|]. intros s' Hs. apply H, B, Hs. Qed.

(* sequencing *)
Lemma walk_app_must cs p s E P (Q : fs -> Prop) :
  walk (must cs) s E P (fun s' => walk p s' E P Q) -> walk (must cs ++ p) s E P Q.
Proof.
  intros [A B]. split.
  - apply prefix_safe_app_must; [exact A|]. intros s' Hs. apply (B s' Hs).
  - intros s''. rewrite run_app_must. destruct (run (must cs) s) as [s' [e|]] eqn:R; [discriminate|].
    intros Hs. exact (proj2 (B s' eq_refl) s'' Hs).
Qed.

(* ------------------------------------------------------------------ calls recovery does not see *)
Definition irrelevant_call (c : call) : Prop := forall n, In n (touches c) -> relevant n = false.

Lemma exec_irrelevant c s s' : irrelevant_call c -> exec c s = Some s' -> same_rel s s'.
Proof.
  intros Hi He n Hn. apply (exec_untouched c s s' n He). intros Hin. rewrite (Hi n Hin) in Hn. discriminate.
Qed.

Lemma good_irrelevant c s s' E : irrelevant_call c -> exec c s = Some s' -> Good s E -> Good s' E.
Proof.
  intros Hi He Hg. eapply good_ext; [|eapply exec_irrelevant; eauto|exact Hg].
  eapply exec_wf; [|exact He]. apply Hg.
Qed.

Lemma safe_irrelevant c s s' E P : wf s -> irrelevant_call c -> exec c s = Some s' -> Safe s E P -> Safe s' E P.
Proof.
  intros Hw Hi He HS. apply (safe_same_rel s s'); [exact Hw|eapply exec_wf; eauto|eapply exec_irrelevant; eauto|exact HS].
Qed.

Lemma walk_irrelevant_c cs : forall s X E P,
  Forall irrelevant_call cs -> Good s X -> covers E P X ->
  walk (must cs) s E P (fun s' => run (must cs) s = (s', None) /\ Good s' X /\ same_rel s s').
Proof.
  induction cs as [|c cs IH]; intros s X E P Hall Hg Hcv.
  - cbn [must map]. apply walk_nil; [now apply (good_safe_c s X)|]. split; [reflexivity|]. split; [exact Hg|apply same_rel_refl].
  - cbn [must map]. inversion Hall as [|? ? Hc Hcs]; subst.
    apply walk_must_cons; [now apply (good_safe_c s X)|]. intros s' Hs'.
    eapply walk_conseq; [|apply (IH s' X E P); [exact Hcs|eapply good_irrelevant; eauto|exact Hcv]].
    cbn beta. intros s'' (R & G & Sm). split; [|split; [exact G|]].
    + rewrite run_must_cons, Hs'. exact R.
    + eapply same_rel_trans; [eapply exec_irrelevant; eauto|exact Sm].
Qed.

Lemma walk_irrelevant cs : forall s E P,
  Forall irrelevant_call cs -> Good s E ->
  walk (must cs) s E P (fun s' => run (must cs) s = (s', None) /\ Good s' E /\ same_rel s s').
Proof. intros s E P Hall Hg. apply walk_irrelevant_c; [exact Hall|exact Hg|apply covers_refl]. Qed.

(* after a deferred error only inputs' retirement (not issued) and clean-up calls are left *)
Definition cleanup_like (p : prog) : Prop :=
  Forall (fun cm => snd cm = Retire \/ (snd cm = Must /\ irrelevant_call (fst cm)) \/
                    ((exists n, snd cm = Late n) /\ irrelevant_call (fst cm))) p.

Lemma dsafe_cleanup p : forall n s E P, cleanup_like p -> wf s -> Safe s E P -> dsafe p n s E P.
Proof.
  induction p as [|[c m] p IH]; intros n s E P Hc Hw HS; [now apply dsafe_nil|].
  inversion Hc as [|? ? Hh Ht]; subst. cbn [fst snd] in Hh.
  destruct n as [|n]; [|apply dsafe_skip; [exact HS|now apply IH]].
  destruct Hh as [->|[[-> Hi]|[(k & ->) Hi]]].
  - apply dsafe_retire; [exact HS|now apply IH].
  - apply dsafe_must; [exact HS|]. intros s' Hs'. apply IH; [exact Ht|eapply exec_wf; eauto|eapply safe_irrelevant; eauto].
  - apply dsafe_late; [exact HS| |now apply IH].
    intros s' Hs'. apply IH; [exact Ht|eapply exec_wf; eauto|eapply safe_irrelevant; eauto].
Qed.

(* ------------------------------------------------------------------ walk_ok = walk, and the fault-free run does complete *)
Definition walk_ok (p : prog) (s : fs) (E : list entry) (P : option (list entry)) (Q : fs -> Prop) : Prop :=
  prefix_safe p s E P /\ exists s', run p s = (s', None) /\ Q s'.

Lemma walk_ok_walk p s E P (Q : fs -> Prop) : walk_ok p s E P Q -> walk p s E P Q.
Proof. intros [A (s' & R & HQ)]. split; [exact A|]. intros s'' R'. rewrite R in R'. now inversion R'; subst. Qed.

Lemma walk_upgrade p s E P (Q : fs -> Prop) s' : walk p s E P Q -> run p s = (s', None) -> walk_ok p s E P Q.
Proof. intros [A B] R. split; [exact A|]. exists s'. split; [exact R|now apply B]. Qed.

Lemma walk_ok_nil s E P (Q : fs -> Prop) : Safe s E P -> Q s -> walk_ok [] s E P Q.
Proof. intros H HQ. split; [now apply prefix_safe_nil|]. exists s. split; [reflexivity|exact HQ]. Qed.

Lemma walk_ok_must_cons c p s E P (Q : fs -> Prop) :
  Safe s E P -> (exists s1, exec c s = Some s1) -> (forall s', exec c s = Some s' -> walk_ok p s' E P Q) ->
  walk_ok ((c, Must) :: p) s E P Q.
Proof.
  intros H0 (s1 & E1) Hn. destruct (Hn s1 E1) as [A (s' & R & HQ)]. split.
  - apply prefix_safe_must_cons; [exact H0|]. intros s2 Hs. apply (Hn s2 Hs).
  - exists s'. split; [|exact HQ]. now rewrite run_must_cons, E1.
Qed.

Lemma walk_ok_conseq p s E P (Q Q' : fs -> Prop) : (forall s', Q s' -> Q' s') -> walk_ok p s E P Q -> walk_ok p s E P Q'.
Proof. intros H [A (s' & R & HQ)]. split; [exact A|]. exists s'. auto. Qed.

Lemma walk_ok_app_must cs p s E P (Q : fs -> Prop) :
  walk_ok (must cs) s E P (fun s' => walk_ok p s' E P Q) -> walk_ok (must cs ++ p) s E P Q.
Proof.
  intros [A (s' & R & [B (s'' & R' & HQ)])]. split.
  - apply prefix_safe_app_must; [exact A|]. intros t Ht. rewrite R in Ht. inversion Ht; subst. exact B.
  - exists s''. split; [|exact HQ]. now rewrite run_app_must, R.
Qed.

Lemma walk_ok_with_replay cs s E P (Q : fs -> Prop) :
  walk_ok (must cs) s E P Q -> walk_ok (must cs) s E P (fun s' => Q s' /\ s' = replay cs s).
Proof. intros [A (s' & R & HQ)]. split; [exact A|]. exists s'. split; [exact R|]. split; [exact HQ|now apply run_must_replay]. Qed.

Lemma walk_ok_ignore_cons c p s E P (Q : fs -> Prop) :
  Safe s E P -> walk_ok p (exec_or c s) E P Q -> prefix_safe p s E P -> walk_ok ((c, Ignore) :: p) s E P Q.
Proof.
  intros H0 [Hn1 (s' & R & HQ)] Hs. split.
  - now apply prefix_safe_ignore_cons.
  - exists s'. split; [|exact HQ]. now rewrite run_ignore_cons.
Qed.
