(* Crash/ProofsOpen.v — KeyValueStore::open on any recoverable image: every crash point of the
   recovery itself is recoverable with the same entries, the open succeeds, and the store that
   comes up holds exactly those entries. *)
From Coq Require Import NArith List Bool Arith Lia Permutation.
From Blue Require Import Lsm.Model Lsm.KeyOrder Lsm.SortLemmas Crash.Model Crash.ProofsFs Crash.ProofsInv Crash.ProofsSteps Crash.ProofsOps.
Import ListNotations.
Open Scope N_scope.

Lemma walk_with_replay cs s E P (Q : fs -> Prop) :
  walk (must cs) s E P Q -> walk (must cs) s E P (fun s' => Q s' /\ s' = replay cs s).
Proof. intros [A B]. split; [exact A|]. intros s' Hs. split; [now apply B|now apply run_must_replay]. Qed.

(* ------------------------------------------------------------------ log numbers *)
Lemma in_insert_n x y l : In x (insert_n y l) <-> x = y \/ In x l.
Proof.
  induction l as [|z l IH]; cbn [insert_n]; [cbn; intuition|].
  destruct (y <=? z); cbn [In]; [intuition|]. rewrite IH. intuition.
Qed.

Lemma in_log_numbers_raw n s : In n (log_numbers_raw s) <-> exists f, In (NLog n, f) s.
Proof.
  induction s as [|[m g] s IH]; cbn [log_numbers_raw].
  - split; [intros []|intros (f & [])].
  - destruct m; try (rewrite IH; split; intros (f & H); exists f; [now right|destruct H as [H|H]; [discriminate|exact H]]).
    cbn [In]. rewrite IH. split.
    + intros [<-|(f & H)]; [exists g; now left|exists f; now right].
    + intros (f & [H|H]); [inversion H; now left|right; eauto].
Qed.

Lemma in_lookup_some n f s : In (n, f) s -> lookup n s <> None.
Proof.
  induction s as [|[k g] s IH]; [intros []|]. cbn [lookup]. intros [H|H].
  - inversion H; subst. now rewrite name_eqb_refl.
  - destruct (name_eqb n k); [discriminate|now apply IH].
Qed.

Lemma in_sorted_numbers n l : In n (fold_right insert_n [] l) <-> In n l.
Proof.
  induction l as [|a l IH]; cbn [fold_right]; [reflexivity|]. rewrite in_insert_n, IH. cbn [In]. intuition.
Qed.

Lemma in_log_numbers n s : lookup (NLog n) s <> None <-> In n (log_numbers s).
Proof.
  unfold log_numbers. rewrite in_sorted_numbers, in_log_numbers_raw. split.
  - intros H. destruct (lookup (NLog n) s) as [f|] eqn:E; [|congruence]. exists f. now apply lookup_in.
  - intros (f & H). eapply in_lookup_some; eauto.
Qed.

Lemma nodup_insert_n x l : ~ In x l -> NoDup l -> NoDup (insert_n x l).
Proof.
  induction l as [|y l IH]; intros Hn Hd; cbn [insert_n]; [constructor; [intros []|constructor]|].
  destruct (x <=? y); [now constructor|]. inversion Hd as [|? ? Hy Hd']; subst.
  constructor; [|apply IH; [intros H; apply Hn; now right|exact Hd']].
  rewrite in_insert_n. intros [->|H]; [apply Hn; now left|contradiction].
Qed.

Lemma nodup_log_numbers s : wf s -> NoDup (log_numbers s).
Proof.
  intros Hw. unfold log_numbers.
  assert (Hraw : NoDup (log_numbers_raw s)).
  { unfold wf in Hw. induction s as [|[m g] s IH]; cbn [log_numbers_raw]; [constructor|].
    cbn [map fst] in Hw. inversion Hw as [|? ? Hm Hd]; subst.
    destruct m; try (now apply IH). constructor; [|now apply IH].
    intros Hin. apply in_log_numbers_raw in Hin. destruct Hin as (f & Hf). apply Hm.
    apply in_map_iff. exists (NLog n, f). auto. }
  induction (log_numbers_raw s) as [|a l IH]; cbn [fold_right]; [constructor|].
  inversion Hraw as [|? ? Ha Hl]; subst. apply nodup_insert_n; [|now apply IH].
  now rewrite in_sorted_numbers.
Qed.

(* ------------------------------------------------------------------ replaying one log *)
Definition log_file_entries (n : N) (s : fs) : list entry :=
  match lookup (NLog n) s with Some f => file_log_entries f | None => [] end.

Lemma unlink_if_exists T p s E P (Q : fs -> Prop) : relevant T = false -> Good s E ->
  (forall s0, Good s0 E -> lookup T s0 = None -> (forall n, n <> T -> lookup n s0 = lookup n s) -> walk_ok p s0 E P Q) ->
  walk_ok (must (if exists_name T s then [CUnlink T] else []) ++ p) s E P Q.
Proof.
  intros HT Hg Hp. unfold exists_name. destruct (lookup T s) as [f|] eqn:L.
  - cbn [must map app]. apply walk_ok_must_cons; [now apply good_safe|apply exec_unlink_ok; congruence|].
    intros s0 E0.
    assert (Hg0 : Good s0 E) by (eapply good_irrelevant; [|exact E0|exact Hg]; intros m [<-|[]]; exact HT).
    apply exec_unlink_inv in E0. destruct E0 as [_ ->]. apply Hp; [exact Hg0| |].
    + now rewrite lookup_remove, name_eqb_refl.
    + intros n Hn. now rewrite lookup_remove, name_eqb_neq.
  - cbn [must map app]. apply Hp; [exact Hg|exact L|reflexivity].
Qed.

Lemma recover_one_walk n s E : Good s E -> lookup (NLog n) s <> None ->
  walk_ok (must (recover_one_calls n s (mani_strs s))) s E None
       (fun s' => Good s' E /\ lookup (NLog n) s' = None /\
                  (forall m, m <> n -> lookup (NLog m) s' = lookup (NLog m) s)).
Proof.
  intros Hg Hlogn. unfold recover_one_calls. set (out := NTmpLog n).
  fold (log_file_entries n s). set (es := log_file_entries n s).
  rewrite must_app. apply unlink_if_exists; [reflexivity|exact Hg|].
  intros s0 Hg0 Hout0 Ho0.
  assert (Hes0 : log_file_entries n s0 = es) by (unfold es, log_file_entries; now rewrite Ho0 by discriminate).
  assert (Hstrs0 : mani_strs s0 = mani_strs s) by (unfold mani_strs, mani_edits; now rewrite Ho0 by discriminate).
  assert (Hex0 : exists_name (NSst (sort_entries es)) s0 = exists_name (NSst (sort_entries es)) s)
    by (unfold exists_name; now rewrite Ho0 by discriminate).
  assert (Hlogn0 : lookup (NLog n) s0 <> None) by (now rewrite Ho0 by discriminate).
  destruct es as [|e0 es'] eqn:Ees.
  - (* empty log: straight to trash *)
    cbn [app must map].
    apply walk_ok_must_cons; [now apply good_safe|now apply exec_create_ok|]. intros s1 E1.
    assert (Hg1 : Good s1 E) by (eapply good_irrelevant; [|exact E1|exact Hg0]; intros m [<-|[]]; reflexivity).
    assert (Hsame1 : same_rel s0 s1) by (eapply exec_irrelevant; [|exact E1]; intros m [<-|[]]; reflexivity).
    apply walk_ok_must_cons; [now apply good_safe|apply exec_rename_ok; now rewrite (Hsame1 (NLog n) eq_refl)|]. intros s2 E2.
    apply exec_rename_inv in E2. destruct E2 as (f2 & L2 & ->).
    match goal with |- walk_ok [] ?st _ _ _ => set (s2 := st) end.
    assert (Hu2 : upd_rel s1 s2 (NLog n) None).
    { intros m Hm. unfold s2. rewrite lookup_set, lookup_remove.
      destruct (name_eqb m (NTrashLog n)) eqn:En; [apply name_eqb_eq in En; subst m; discriminate|reflexivity]. }
    assert (Hw2 : wf s2) by (unfold s2; apply wf_set, wf_remove, Hg1).
    assert (Hg2 : Good s2 E).
    { apply (good_upd_log s1 s2 n None E E Hw2 Hu2 Hg1 I).
      intros e. destruct Hg1 as [_ (_ & _ & _ & C)]. rewrite (C e). split.
      - intros [H|(m & f & Hm & He)]; [now left|right; left]. exists m, f. split; [|auto].
        intros ->. rewrite L2 in Hm. inversion Hm; subst f.
        unfold log_file_entries in Hes0. rewrite <- (Hsame1 (NLog n) eq_refl), L2 in Hes0. rewrite Hes0 in He. destruct He.
      - intros [H|[(m & f & _ & Hm & He)|(g & Hg' & _)]]; [now left|right; eauto|discriminate]. }
    apply walk_ok_nil; [now apply good_safe|]. split; [exact Hg2|]. split.
    + now rewrite (upd_rel_same _ _ _ _ Hu2 eq_refl).
    + intros m Hm. rewrite (upd_rel_other _ _ _ _ (NLog m) Hu2 eq_refl) by congruence.
      rewrite (Hsame1 (NLog m) eq_refl). apply Ho0. discriminate.
  - (* a log with entries *)
    rewrite <- Ees in *. set (x := sort_entries es) in *.
    assert (Hx : forall e, In e x <-> In e es) by (intros e; apply in_sort_entries).
    change ([CCreate out] ++ [CWrite out (CkSst x); CSync out] ++
            (if exists_name (NSst x) s then [] else [CLink out (NSst x)]) ++
            (if mem_sname x (mani_strs s) then [] else mani_apply (CkEdit [x] [])) ++
            [CUnlink out; CRename (NLog n) (NTrashLog n)])
      with ([CCreate out; CWrite out (CkSst x); CSync out] ++
            (if exists_name (NSst x) s then [] else [CLink out (NSst x)]) ++
            (if mem_sname x (mani_strs s) then [] else mani_apply (CkEdit [x] [])) ++
            [CUnlink out; CRename (NLog n) (NTrashLog n)]).
    rewrite must_app. apply walk_ok_app_must.
    eapply walk_ok_conseq; [|apply (tmp_block_ok out (CkSst x) s0 E None eq_refl Hg0 Hout0)].
    cbn beta. intros s3 (Hg3 & Ht3 & Ho3).
    rewrite must_app. apply walk_ok_app_must.
    (* link into sst/ unless it is there *)
    apply (walk_ok_conseq _ _ _ _ (fun s4 => Good s4 E /\ lookup (NSst x) s4 <> None /\
                                             (forall m, m <> NSst x -> lookup m s4 = lookup m s3))).
    2:{ rewrite <- Hex0. unfold exists_name. rewrite <- (Ho3 (NSst x)) by discriminate.
        destruct (lookup (NSst x) s3) as [fx|] eqn:Lx.
        - cbn [must map]. apply walk_ok_nil; [now apply good_safe|]. split; [exact Hg3|]. split; [congruence|reflexivity].
        - cbn [must map]. apply walk_ok_must_cons; [now apply good_safe|eapply exec_link_ok; eauto|]. intros s4 E4.
          apply exec_link_inv in E4. destruct E4 as (f4 & L4 & _ & ->). rewrite Ht3 in L4. inversion L4; subst f4. clear L4.
          assert (Hg4 : Good (set (NSst x) (mkFile [CkSst x] 1) s3) E).
          { apply (good_add_sst s3 _ x E); [apply wf_set, Hg3| |exact Hg3]. intros m _. now rewrite lookup_set. }
          apply walk_ok_nil; [now apply good_safe|]. split; [exact Hg4|]. split.
          + rewrite lookup_set, name_eqb_refl. discriminate.
          + intros m Hm. now rewrite lookup_set, name_eqb_neq. }
    cbn beta. intros s4 (Hg4 & Hx4 & Ho4).
    assert (Hlog4 : forall m, lookup (NLog m) s4 = lookup (NLog m) s0).
    { intros m. rewrite Ho4 by discriminate. apply Ho3. discriminate. }
    assert (Hstrs4 : mani_strs s4 = mani_strs s).
    { rewrite <- Hstrs0. unfold mani_strs, mani_edits. rewrite Ho4 by discriminate. now rewrite Ho3 by discriminate. }
    assert (Hn4 : exists lf, lookup (NLog n) s4 = Some lf /\ file_log_entries lf = es).
    { rewrite Hlog4. unfold log_file_entries in Hes0. destruct (lookup (NLog n) s0) as [lf|]; [eauto|].
      rewrite <- Hes0 in Ees. discriminate. }
    destruct Hn4 as (lf & Hlf4 & Hlfe).
    rewrite must_app. apply walk_ok_app_must.
    (* manifest add unless it is listed *)
    apply (walk_ok_conseq _ _ _ _ (fun s5 => Good s5 E /\ In x (mani_strs s5) /\
                                             (forall m, m <> NMani -> lookup m s5 = lookup m s4))).
    2:{ rewrite <- Hstrs4. destruct (mem_sname x (mani_strs s4)) eqn:Emem.
        - cbn [must map]. apply walk_ok_nil; [now apply good_safe|]. split; [exact Hg4|]. split; [now apply mem_sname_in|reflexivity].
        - eapply walk_ok_conseq; [|apply (mani_block_ok [x] [] None s4 E E None Hg4)].
          + cbn beta. intros s5 (Hg5 & Hstrs5 & _ & Ho5). split; [exact Hg5|]. split; [|exact Ho5].
            rewrite Hstrs5, in_apply_edit. right. now left.
          + intros y [<-|[]]. exact Hx4.
          + intros e. destruct Hg4 as [_ (_ & _ & _ & C)]. rewrite (C e). split.
            * intros [(y & Hy & He)|H]; [left|now right]. exists y. split; [|exact He]. rewrite in_apply_edit. left. split; [exact Hy|intros []].
            * intros [(y & Hy & He)|H]; [|now right]. rewrite in_apply_edit in Hy. destruct Hy as [[Hy _]|[<-|[]]]; [left; eauto|].
              right. exists n, lf. split; [exact Hlf4|]. rewrite Hlfe. now apply Hx.
          + now left. }
    cbn beta. intros s5 (Hg5 & Hin5 & Ho5).
    cbn [must map].
    apply walk_ok_must_cons; [now apply good_safe| |].
    { apply exec_unlink_ok. rewrite Ho5 by discriminate. rewrite Ho4 by discriminate. rewrite Ht3. discriminate. }
    intros s6 E6.
    assert (Hg6 : Good s6 E) by (eapply good_irrelevant; [|exact E6|exact Hg5]; intros m [<-|[]]; reflexivity).
    assert (Hsame6 : same_rel s5 s6) by (eapply exec_irrelevant; [|exact E6]; intros m [<-|[]]; reflexivity).
    assert (Hlog6 : forall m, lookup (NLog m) s6 = lookup (NLog m) s0).
    { intros m. rewrite (Hsame6 (NLog m) eq_refl), Ho5 by discriminate. apply Hlog4. }
    apply walk_ok_must_cons; [now apply good_safe|apply exec_rename_ok; now rewrite Hlog6|]. intros s7 E7.
    apply exec_rename_inv in E7. destruct E7 as (f7 & L7 & ->).
    match goal with |- walk_ok [] ?st _ _ _ => set (s7 := st) end.
    assert (Hu7 : upd_rel s6 s7 (NLog n) None).
    { intros m Hm. unfold s7. rewrite lookup_set, lookup_remove.
      destruct (name_eqb m (NTrashLog n)) eqn:En; [apply name_eqb_eq in En; subst m; discriminate|reflexivity]. }
    assert (Hw7 : wf s7) by (unfold s7; apply wf_set, wf_remove, Hg6).
    assert (Hg7 : Good s7 E).
    { apply (good_upd_log s6 s7 n None E E Hw7 Hu7 Hg6 I).
      intros e. destruct Hg6 as [_ (_ & _ & _ & C)]. rewrite (C e). split.
      - intros [H|(m & f & Hm & He)]; [now left|].
        destruct (N.eq_dec m n) as [->|Hne]; [|right; left; eauto].
        left. exists x. split; [rewrite (same_rel_strs _ _ Hsame6); exact Hin5|].
        apply Hx. rewrite Hlog6, <- Hlog4, Hlf4 in Hm. inversion Hm; subst f. now rewrite <- Hlfe.
      - intros [H|[(m & f & _ & Hm & He)|(g & Hg' & _)]]; [now left|right; eauto|discriminate]. }
    apply walk_ok_nil; [now apply good_safe|]. split; [exact Hg7|]. split.
    + now rewrite (upd_rel_same _ _ _ _ Hu7 eq_refl).
    + intros m Hm. rewrite (upd_rel_other _ _ _ _ (NLog m) Hu7 eq_refl) by congruence.
      rewrite Hlog6. apply Ho0. discriminate.
Qed.

(* ------------------------------------------------------------------ the loop over the logs *)
Lemma recover_walk ns : forall s E, Good s E -> NoDup ns ->
  (forall m, lookup (NLog m) s <> None <-> In m ns) ->
  walk_ok (must (fst (recover_calls ns s))) s E None
       (fun s' => Good s' E /\ (forall m, lookup (NLog m) s' = None) /\ s' = replay (fst (recover_calls ns s)) s).
Proof.
  induction ns as [|n ns IH]; intros s E Hg Hnd Hall.
  - cbn [recover_calls fst must map]. apply walk_ok_nil; [now apply good_safe|]. split; [exact Hg|]. split; [|reflexivity].
    intros m. destruct (lookup (NLog m) s) eqn:L; [|reflexivity]. exfalso. apply (proj1 (Hall m)). congruence.
  - cbn [recover_calls]. set (cs := recover_one_calls n s (mani_strs s)).
    destruct (recover_calls ns (replay cs s)) as [rest m0] eqn:Er. cbn [fst].
    inversion Hnd as [|? ? Hnin Hnd']; subst.
    rewrite must_app. apply walk_ok_app_must.
    eapply walk_ok_conseq; [|apply walk_ok_with_replay, (recover_one_walk n s E Hg); apply Hall; now left].
    cbn beta. intros s' ((Hg' & Hn' & Ho') & ->). fold cs.
    replace rest with (fst (recover_calls ns (replay cs s))) by now rewrite Er.
    eapply walk_ok_conseq; [|apply (IH (replay cs s) E Hg' Hnd')].
    + cbn beta. intros s'' (Hg'' & Hnone & ->). split; [exact Hg''|]. split; [exact Hnone|].
      now rewrite replay_app.
    + intros m. destruct (N.eq_dec m n) as [->|Hne].
      * split; [congruence|contradiction].
      * rewrite Ho' by exact Hne. rewrite Hall. cbn [In]. split; [intros [H|H]; [congruence|exact H]|auto].
Qed.

(* ------------------------------------------------------------------ orphans *)
Lemma rnr_not_live edits : forall acc init,
  (forall x, In x acc -> ~ In x init) ->
  forall x, In x (removed_not_readded edits acc) -> ~ In x (fold_left apply_edit edits init).
Proof.
  induction edits as [|c edits IH]; intros acc init Hacc x; cbn [removed_not_readded fold_left].
  - apply Hacc.
  - destruct c as [es|es|add rm]; try (apply IH; exact Hacc).
    apply IH. intros y Hy. apply filter_In in Hy. destruct Hy as [Hy Hna].
    apply negb_true_iff, mem_sname_not_in in Hna. apply in_fold_add in Hy.
    rewrite in_apply_edit. intros [[Hi Hnr]|Ha]; [|contradiction].
    destruct Hy as [Hy|Hy]; [exact (Hacc y Hy Hi)|contradiction].
Qed.

Lemma orphan_not_live s x : In x (removed_not_readded (tl (mani_edits s)) []) -> ~ In x (mani_strs s).
Proof.
  unfold mani_strs, strs_of. destruct (mani_edits s) as [|c r]; [intros []|].
  cbn [tl fold_left]. apply rnr_not_live. intros y [].
Qed.

Definition ign (cs : list call) : prog := map (fun c => (c, Ignore)) cs.

Lemma run_ign_app cs : forall p s, run (ign cs ++ p) s = run p (replay cs s).
Proof. induction cs as [|c cs IH]; intros p s; cbn [ign map app replay]; [reflexivity|]. rewrite run_ignore_cons. apply IH. Qed.

Lemma orphans_walk xs : forall s E p (Q : fs -> Prop),
  Good s E -> (forall x, In x xs -> ~ In x (mani_strs s)) ->
  (forall s', Good s' E -> mani_strs s' = mani_strs s -> (forall m, lookup (NLog m) s' = lookup (NLog m) s) ->
              walk_ok p s' E None Q) ->
  walk_ok (ign (map (fun x => CRename (NSst x) (NTrashSst x)) xs) ++ p) s E None Q.
Proof.
  induction xs as [|x xs IH]; intros s E p Q Hg Hnl Hp.
  - cbn [map ign app]. apply Hp; [exact Hg|reflexivity|reflexivity].
  - cbn [map ign app].
    assert (Hskip : walk_ok (ign (map (fun x => CRename (NSst x) (NTrashSst x)) xs) ++ p) s E None Q)
      by (apply (IH s E p Q Hg); [intros y Hy; apply Hnl; now right|exact Hp]).
    apply walk_ok_ignore_cons; [now apply good_safe| |exact (proj1 Hskip)].
    unfold exec_or. destruct (exec (CRename (NSst x) (NTrashSst x)) s) as [s1|] eqn:E1; [|exact Hskip].
    apply exec_rename_inv in E1. destruct E1 as (f1 & L1 & ->).
    set (s1 := set (NTrashSst x) f1 (remove (NSst x) s)).
    assert (Hu : upd_rel s s1 (NSst x) None).
    { intros m Hm. unfold s1. rewrite lookup_set, lookup_remove.
      destruct (name_eqb m (NTrashSst x)) eqn:En; [apply name_eqb_eq in En; subst m; discriminate|reflexivity]. }
    assert (Hw1 : wf s1) by (unfold s1; apply wf_set, wf_remove, Hg).
    assert (Hg1 : Good s1 E) by (apply (good_remove_sst s s1 x E Hw1 Hu); [apply Hnl; now left|exact Hg]).
    assert (Hstrs1 : mani_strs s1 = mani_strs s) by (apply (upd_rel_strs _ _ _ _ Hu); discriminate).
    apply (IH s1 E p Q Hg1).
    + intros y Hy. rewrite Hstrs1. apply Hnl. now right.
    + intros s' Hg' Hs' Hl'. apply Hp; [exact Hg'|congruence|].
      intros m. rewrite Hl'. apply (upd_rel_other _ _ _ _ (NLog m) Hu eq_refl). discriminate.
Qed.

Lemma orphan_calls_map s :
  orphan_calls s = map (fun x => CRename (NSst x) (NTrashSst x))
                       (filter (fun x => exists_name (NSst x) s && negb (exists_name (NTrashSst x) s))
                               (removed_not_readded (tl (mani_edits s)) [])).
Proof.
  unfold orphan_calls. induction (removed_not_readded (tl (mani_edits s)) []) as [|x l IH]; [reflexivity|].
  cbn [flat_map filter]. destruct (exists_name (NSst x) s && negb (exists_name (NTrashSst x) s)); cbn [map app]; now rewrite IH.
Qed.

(* ------------------------------------------------------------------ open *)
Lemma ensure_dirs_walk ks s E P : forall t, NoDup ks -> Good t E ->
  (forall k, In k ks -> lookup (NDir k) t = lookup (NDir k) s) ->
  walk_ok (must (ensure_dirs ks s)) t E P (fun t' => Good t' E).
Proof.
  unfold ensure_dirs. induction ks as [|k ks IH]; intros t Hnd Hg Hsame; cbn [flat_map].
  - cbn [must map]. apply walk_ok_nil; [now apply good_safe|exact Hg].
  - inversion Hnd as [|? ? Hk Hnd']; subst. unfold exists_name at 1.
    destruct (lookup (NDir k) s) eqn:L; cbn [app].
    + apply IH; [exact Hnd'|exact Hg|]. intros j Hj. apply Hsame. now right.
    + cbn [must map]. apply walk_ok_must_cons; [now apply good_safe| |].
      { apply exec_mkdir_ok. rewrite Hsame by now left. exact L. }
      intros t1 E1.
      assert (Hg1 : Good t1 E) by (eapply good_irrelevant; [|exact E1|exact Hg]; intros m [<-|[]]; reflexivity).
      apply exec_mkdir_inv in E1. destruct E1 as [_ ->].
      apply IH; [exact Hnd'|exact Hg1|]. intros j Hj. rewrite lookup_set. cbn [name_eqb].
      destruct (N.eqb_spec j k) as [->|_]; [contradiction|]. apply Hsame. now right.
Qed.

Theorem open_walk s E : Good s E ->
  walk_ok (fst (fst (open_prog s))) s E None
       (fun s' => Run s' (snd (fst (open_prog s))) /\
                  forall e, In e (all_entries (snd (fst (open_prog s)))) <-> In e E) /\
  snd (open_prog s) = true.
Proof.
  intros Hg. unfold open_prog.
  set (c1 := ensure_dirs [0; 1; 2; 3; 4; 5; 6; 7] s). set (s1 := replay c1 s).
  set (c2 := match mani_edits s1 with [] => mani_apply (CkEdit [] []) | _ :: _ => [] end). set (s2 := replay c2 s1).
  destruct (recover_calls (log_numbers s2) s2) as [c3 rec] eqn:Er.
  set (s3 := replay c3 s2). set (c4 := orphan_calls s3). set (s4 := replay c4 s3).
  cbn [fst snd].
  assert (W1 : walk_ok (must c1) s E None (fun s' => s' = s1 /\ Good s1 E)).
  { eapply walk_ok_conseq; [|apply walk_ok_with_replay, (ensure_dirs_walk [0; 1; 2; 3; 4; 5; 6; 7] s E None s)].
    - cbn beta. intros s' (G & ->). fold c1 s1 in G |- *. auto.
    - repeat (constructor; [cbn; intuition discriminate|]). constructor.
    - exact Hg.
    - reflexivity. }
  assert (G1 : Good s1 E) by (destruct W1 as [_ (? & _ & _ & G)]; exact G).
  assert (W2 : walk_ok (must c2) s1 E None (fun s' => s' = s2 /\ Good s2 E)).
  { eapply walk_ok_conseq with (Q := fun s' => Good s' E /\ s' = replay c2 s1).
    - intros s' (G & ->). fold s2 in G |- *. auto.
    - apply walk_ok_with_replay. unfold c2. destruct (mani_edits s1) eqn:Em.
      + eapply walk_ok_conseq; [|apply (mani_block_ok [] [] None s1 E E None G1)].
        * cbn beta. intros s' (G & _). exact G.
        * intros x [].
        * intros e. destruct G1 as [_ (_ & _ & _ & C)]. rewrite (C e).
          split; (intros [(y & Hy & He)|H]; [left|now right]); exists y; (split; [|exact He]).
          -- rewrite in_apply_edit. left. split; [exact Hy|intros []].
          -- rewrite in_apply_edit in Hy. destruct Hy as [[Hy _]|[]]. exact Hy.
        * now left.
      + cbn [must map]. apply walk_ok_nil; [now apply good_safe|exact G1]. }
  assert (G2 : Good s2 E) by (destruct W2 as [_ (? & _ & _ & G)]; exact G).
  assert (W3 : walk_ok (must c3) s2 E None
                 (fun s' => s' = s3 /\ Good s3 E /\ forall m, lookup (NLog m) s3 = None)).
  { replace c3 with (fst (recover_calls (log_numbers s2) s2)) by now rewrite Er.
    eapply walk_ok_conseq; [|apply (recover_walk (log_numbers s2) s2 E G2);
                             [apply nodup_log_numbers, G2|intros m; apply in_log_numbers]].
    cbn beta. rewrite Er. cbn [fst]. intros s' (G & Hn & ->). fold s3 in G, Hn |- *. auto. }
  assert (G3 : Good s3 E /\ forall m, lookup (NLog m) s3 = None) by (destruct W3 as [_ (? & _ & _ & G)]; exact G).
  destruct G3 as [G3 Hnolog].
  split.
  - rewrite !must_app, <- !app_assoc. apply walk_ok_app_must.
    eapply walk_ok_conseq; [|exact W1]. cbn beta. intros ? (-> & _).
    apply walk_ok_app_must. eapply walk_ok_conseq; [|exact W2]. cbn beta. intros ? (-> & _).
    apply walk_ok_app_must. eapply walk_ok_conseq; [|exact W3]. cbn beta. intros ? (-> & _ & _).
    unfold c4 at 1. rewrite orphan_calls_map. fold (ign (map (fun x => CRename (NSst x) (NTrashSst x))
      (filter (fun x => exists_name (NSst x) s3 && negb (exists_name (NTrashSst x) s3)) (removed_not_readded (tl (mani_edits s3)) [])))).
    apply orphans_walk; [exact G3| |].
    { intros x Hx. apply filter_In in Hx. apply orphan_not_live, Hx. }
    intros s4' G4 Hstrs4 Hlog4. cbn [must map].
    apply walk_ok_must_cons; [now apply good_safe|apply exec_create_ok; now rewrite Hlog4|]. intros s5 E5.
    apply exec_create_inv in E5. destruct E5 as [N5 ->].
    set (q := N.max (N.max (rec + 1) (max_ts (concat (mani_strs s4)))) (mani_L s4 + 1)) in *. set (L := NLog q) in *. set (s5 := set L empty_file s4').
    assert (Hu5 : upd_rel s4' s5 L (Some empty_file)) by (intros m _; unfold s5; now rewrite lookup_set).
    assert (Hw5 : wf s5) by (unfold s5; apply wf_set, G4).
    assert (G5 : Good s5 E).
    { apply (good_upd_log s4' s5 q (Some empty_file) E E Hw5 Hu5 G4 eq_refl).
      intros e. destruct G4 as [_ (_ & _ & _ & C)]. rewrite (C e). split.
      - intros [H|(n & f & Hn & He)]; [now left|right; left]. exists n, f. split; [|auto]. intros ->. unfold L in N5. congruence.
      - intros [H|[(n & f & _ & Hn & He)|(g & Hg' & He)]]; [now left|right; eauto|]. inversion Hg'; subst g. destruct He. }
    apply walk_ok_nil; [now apply good_safe|].
    destruct G5 as [Hst5 (_ & Hs5 & Hl5 & C5)].
    assert (Hstrs5 : mani_strs s5 = mani_strs s3).
    { rewrite (upd_rel_strs _ _ _ _ Hu5) by discriminate. exact Hstrs4. }
    (* orphan renames do not touch the manifest *)
    assert (Hs4 : mani_strs s4 = mani_strs s3).
    { unfold s4, c4. rewrite orphan_calls_map.
      generalize (filter (fun x => exists_name (NSst x) s3 && negb (exists_name (NTrashSst x) s3)) (removed_not_readded (tl (mani_edits s3)) [])).
      intros l. generalize s3. induction l as [|x l IH]; intros t0; [reflexivity|].
      cbn [map replay]. rewrite IH. unfold mani_strs, mani_edits. now rewrite exec_or_untouched by (cbn; intuition discriminate). }
    split.
    + constructor; cbn [v_files v_cur v_mem]; try assumption.
      * now rewrite Hs4.
      * intros n. rewrite (Hu5 (NLog n) eq_refl). unfold L. cbn [name_eqb]. destruct (N.eqb_spec n q); [auto|].
        rewrite Hlog4, Hnolog. congruence.
      * exists empty_file. split; [|reflexivity]. fold L. now rewrite (upd_rel_same _ _ _ _ Hu5 eq_refl).
    + intros e. unfold all_entries. cbn [v_mem v_files app]. rewrite Hs4, <- Hstrs5, in_concat, (C5 e). split.
      * intros (x & Hx & He). left. eauto.
      * intros [(x & Hx & He)|(n & f & Hn & He)]; [eauto|].
        rewrite (Hu5 (NLog n) eq_refl) in Hn. unfold L in Hn. cbn [name_eqb] in Hn. destruct (n =? q).
        -- inversion Hn; subst f. destruct He.
        -- rewrite Hlog4, Hnolog in Hn. discriminate.
  - (* every live SST is there when list_ssts_from_manifest looks *)
    apply forallb_forall. intros x Hx. unfold exists_name.
    destruct G3 as [_ (_ & _ & Hl3 & _)]. specialize (Hl3 x Hx). now destruct (lookup (NSst x) s3).
Qed.
