(* Extraction of the executable crash model for the correspondence check.
   Directives in force: those of ExtrOcamlBasic only (bool, option, unit, list, prod, sumbool,
   sumor extracted to OCaml's own; N, positive, nat stay inductive).  No Extract Constant of ours. *)
From Coq Require Import NArith List.
From Blue Require Import Lsm.Model Crash.Model.
Require Import ExtrOcamlBasic.
Extraction Language OCaml.
Extraction "../ocaml/crash/gen_crash.ml" open_prog op_prog op_next run_prog prefix_state image_a image_b
  disk_entries all_entries acceptedb vis issued xop_prog xnext_ok xnext_err hits_mani same_relb fault_next calls_of mani_strs lookup N.of_nat N.to_nat N.add N.mul N.div_eucl.
