(* Props_C02.v — the property theorems for C02 and nothing else.
   C02: "Acknowledged writes survive any crash; recovery is all-or-nothing per batch."

   Model: Crash/Model.v — every store operation (KeyValueStore::open with its log replay and orphan
   clean-up, write, memtable flush, merging or garbage-collecting compaction) as the sequence of file-system mutating
   calls it issues, over files that are lists of whole write() calls with a durable prefix.
   Transition system `reach` (Crash/ProofsLts.v): from the empty directory, any sequence of open /
   write / flush / compaction (merging or garbage-collecting), an operation that returns an I/O
   error before it changed a file recovery reads or that the store refuses outright - after which
   the history CONTINUES -, and a crash before ANY system call of any of them — the calls of
   recovery included — under ANY cut (`cut`: every file independently keeps a prefix of its
   write() calls that covers the synced ones; process death = keep everything, power loss as the
   property words it = keep exactly the synced prefix; both are instances), any number of times.
   Ghost field `c_hist`: every write batch issued so far, in order, flagged true when its call
   returned Ok and false when a crash took it in flight, when it returned an error, or when the store refused it.  `sel h W`: W keeps every acknowledged
   batch of h and some of the others, each whole, in order.  `explains W E`: for every key the
   newest version among the entries E reads as the last write to that key in W (`shows`, `spec`),
   and every entry of E belongs to a batch of W.  The statements are about what a reader can
   observe, so that garbage collection - which drops shadowed versions and tombstones - is a step
   of the transition system like any other (`accepted`). *)
From Coq Require Import NArith List Bool.
From Blue Require Import Lsm.Model Lsm.LoadProofs Lsm.Ordered Crash.Model Crash.ProofsFs Crash.ProofsInv Crash.ProofsSteps
  Crash.ProofsOps Crash.ProofsOpen Crash.ProofsCompact Crash.ProofsLts Crash.ProofsTop.
Import ListNotations.
Open Scope N_scope.

(* ---- 1. crash safety (the central theorem).
   Whenever the process is down - after any history, with any number of crashes at any system call
   and any loss of unsynced data - KeyValueStore::open succeeds: none of its calls fails, every
   SST the manifest lists is there, the store that comes up satisfies the running invariant, and
   its entries are explained by the acknowledged batches plus some of the batches that were in
   flight at a crash, each such batch wholly or not at all: every key reads as the last of those
   writes to it, and the store holds no entry that was not written. *)
Theorem C02_crash_safe : forall c, reach c -> c_v c = None ->
  exists s', run (fst (fst (open_prog (c_fs c)))) (c_fs c) = (s', None) /\
             snd (open_prog (c_fs c)) = true /\
             Run s' (snd (fst (open_prog (c_fs c)))) /\
             exists W, sel (c_hist c) W /\ explains W (all_entries (snd (fst (open_prog (c_fs c))))).
Proof. exact crash_safe. Qed.

(* ---- 1b. what `sel` keeps: every acknowledged batch, and nothing that was not issued. *)
Theorem C02_acknowledged_kept : forall h W, sel h W -> forall b, In (true, b) h -> In b W.
Proof. exact sel_acked. Qed.

Theorem C02_nothing_invented : forall h W, sel h W -> forall b, In b W -> exists a, In (a, b) h.
Proof. exact sel_from. Qed.

(* ---- 1c. which compactions are steps.  A merge - outputs holding exactly the inputs' entries -
   always is; any other (a garbage collection) is when it leaves what every key reads as unchanged,
   which is C05's theorem about the real tree and which the driver evaluates (`acceptedb`) on every
   compaction of every history. *)
Theorem C02_merge_accepted : forall v gc ins outs, ts_unique (all_entries v) ->
  incl ins (v_files v) -> (forall e, In e (concat outs) <-> In e (concat ins)) ->
  accepted v (OpCompact gc ins outs).
Proof. exact merge_accepted. Qed.

Theorem C02_acceptedb_sound : forall v o, acceptedb v o = true -> accepted v o.
Proof. exact acceptedb_sound. Qed.

(* the hypothesis of 1c holds in every reachable open state *)
Theorem C02_timestamps_unique : forall c v, reach c -> c_v c = Some v -> ts_unique (all_entries v).
Proof. exact timestamps_unique. Qed.

(* ---- 2. both crash models of the property are cuts: what is left when the process dies between
   two calls (everything written is kept) and what is left when, in addition, every byte written
   after a file's last successful fsync/fdatasync is lost. *)
Theorem C02_crash_models_covered : forall s, cut s (image_a s) /\ cut s (image_b s).
Proof. intros s. split; [apply cut_refl_image_a|apply cut_image_b]. Qed.

(* ---- 3. the same accounting holds while the store is open (so a write acknowledged before a
   crash-and-reopen is still what its keys read as many operations later). *)
Theorem C02_open_store_contents : forall c v, reach c -> c_v c = Some v ->
  Run (c_fs c) v /\ exists W, sel (c_hist c) W /\ explains W (all_entries v).
Proof. exact open_store_contents. Qed.

(* ---- 3b. sequence numbers stay fresh through any number of crashes and recoveries: every
   timestamp the open store holds is smaller than the one the next write will get (state.seq_no +
   1), so by theorem 5 a later acknowledged write shadows every earlier version of its keys. *)
Theorem C02_sequence_numbers_fresh : forall c v, reach c -> c_v c = Some v ->
  forall e, In e (all_entries v) -> ets e < v_seq v + 1.
Proof. exact sequence_numbers_fresh. Qed.

(* ---- 4. what recovery returns is what the image holds: the entries of the SSTs the manifest
   lists plus the entries of the logs in the root (the executable `disk_entries`, which the
   correspondence check evaluates on every crash image). *)
Theorem C02_recovery_returns_image : forall c, reach c -> c_v c = None ->
  forall e, In e (disk_entries (c_fs c)) <-> In e (all_entries (snd (fst (open_prog (c_fs c))))).
Proof. exact recovery_returns_image. Qed.

(* ---- 5. reads after recovery.  Any store whose tree is a well-formed, Ordered arrangement (C01)
   of the recovered entries returns, for every key, the newest recovered version.  Tree recovery
   (recover.rs) re-levels the files from their key and timestamp ranges and is not part of this
   model; C02 guarantees WHICH entries it gets (theorem 1).  The known class K2 (C01: recovery
   builds a tree that is not Ordered when two files overlap in key range and in timestamp range)
   is exactly the complement of the hypothesis `Ordered st`: this is the statement outside the
   known class ... *)
Theorem C02_reads_newest_recovered_outside_known : forall (st : store) (E : list entry) k,
  wf_version (ver st) -> Ordered st ->
  (forall e, In e (Lsm.Ordered.all_entries st) <-> In e E) ->
  match load st k (seq st) with
  | Some e => In e E /\ ek e = k /\ (forall e', In e' E -> ek e' = k -> ets e' <= seq st -> ets e' <= ets e)
  | None => forall e', In e' E -> ek e' = k -> seq st < ets e'
  end.
Proof. exact reads_newest_recovered. Qed.

(* ---- 5b. ... and without it the statement is false: two files in level 0 that overlap in key
   range and in timestamp range ([k@3, z@9] and [a@1, k@5]) are consulted by largest timestamp,
   and the read of k returns the version 3 although version 5 was recovered (K2). *)
Theorem C02_reads_newest_recovered_refuted : exists (st : store) k e e',
  wf_version (ver st) /\ load st k (seq st) = Some e /\
  In e' (Lsm.Ordered.all_entries st) /\ ek e' = k /\ ets e' <= seq st /\ ets e < ets e'.
Proof.
  exists (mkS [] ([[mkF 1 [mkE [107] 3 (Some [1]); mkE [122] 9 (Some [2])] 10;
                    mkF 2 [mkE [97] 1 (Some [3]); mkE [107] 5 (Some [4])] 10]] ++ repeat [] 15) 10),
         [107], (mkE [107] 3 (Some [1])), (mkE [107] 5 (Some [4])).
  vm_compute. repeat split; try reflexivity; try discriminate. right. right. right. now left.
Qed.

(* ---- 6. an I/O error is surfaced.  For ANY program of calls in the model (every operation and
   open is one): if it completes without error when nothing is injected, then a single I/O error
   injected at its k-th call makes it return an error — unless the Rust deliberately drops the
   result of that call (`let _ = rename(..)`) ... *)
Theorem C02_fault_surfaced : forall p k s, run p s = (fst (run p s), None) ->
  (k < length p)%nat -> ~ dropped (snd (nth k p (CSync NMani, Must))) ->
  snd (run_prog p (Some k) O s None) <> None.
Proof. exact fault_surfaced_prog. Qed.

(* ---- 6b. ... and the only calls whose result is dropped are the renames of an SST that is no
   longer referenced from sst/ to trash/ (explicit_unref, cleanup_orphans). *)
Theorem C02_only_trash_renames_dropped : forall c m, dropped m ->
  (forall v s o, In (c, m) (fst (op_prog v s o)) -> exists x, c = CRename (NSst x) (NTrashSst x)) /\
  (forall s, In (c, m) (fst (fst (open_prog s))) -> exists x, c = CRename (NSst x) (NTrashSst x)).
Proof. exact only_trash_renames_ignored. Qed.

(* ---- 6c. an error leaves a recoverable directory.  Whatever single call of an operation fails with
   an injected I/O error (f = Some j; or none, f = None) - a call whose error ends the operation, a
   rename whose error is dropped, the manifest edit of compaction_finish whose error is kept
   while the clean-up still runs, or a clean-up call of a merging compaction after which the
   inputs are retired all the same - EVERY state the operation passes through (k calls of the
   program considered, k arbitrary; k = its length is where it ends) is safe: a crash there, under
   any cut, recovers to `op_base` or to `op_base ++ op_pend` - for a write the entries before it or
   those plus the whole batch; for a flush the same entries; for a compaction the entries after it
   or those before it. *)
Theorem C02_fault_leaves_recoverable : forall s v o f k, Run s v -> op_fs_ok v o ->
  Safe (fst (run_prog (firstn k (fst (op_prog v s o))) f O s None)) (op_base v o) (op_pend v o).
Proof. exact fault_leaves_recoverable. Qed.

(* ---- 6d. the same for recovery itself, after any history with any number of crashes. *)
Theorem C02_recovery_fault_leaves_recoverable : forall c f k, reach c -> c_v c = None ->
  exists E W, sel (c_hist c) W /\ explains W E /\
    Safe (fst (run_prog (firstn k (fst (fst (open_prog (c_fs c))))) f O (c_fs c) None)) E None.
Proof. exact recovery_fault_recoverable. Qed.

(* ---- 7. what the predicates of 6c/6d mean, in terms of KeyValueStore::open only.
   `Good s E` (ProofsInv.v) is a recoverable image: names unique, every file in sst/ a complete durable
   SST holding what its name says, every listed SST present, live SSTs + root logs hold exactly E,
   and every file recovery reads fully durable.  Such an image opens: none of open's calls fails
   and the store that comes up holds exactly E. *)
Theorem C02_recoverable_image_opens : forall s E, Good s E ->
  exists s', run (fst (fst (open_prog s))) s = (s', None) /\ snd (open_prog s) = true /\
             Run s' (snd (fst (open_prog s))) /\
             forall e, In e (all_entries (snd (fst (open_prog s)))) <-> In e E.
Proof. exact recoverable_image_opens. Qed.

(* ---- 7b. `Safe s E P`: every crash image of s, under any cut, opens and holds E, or E plus the
   whole batch p in flight (P = Some p). *)
Theorem C02_safe_state_recovers : forall s E P img, Safe s E P -> cut s img ->
  exists E', (E' = E \/ exists p, P = Some p /\ E' = E ++ p) /\
    exists s', run (fst (fst (open_prog img))) img = (s', None) /\ snd (open_prog img) = true /\
               Run s' (snd (fst (open_prog img))) /\
               forall e, In e (all_entries (snd (fst (open_prog img)))) <-> In e E'.
Proof. exact safe_state_recovers. Qed.

(* ---- 8. histories continue after an error.  `reach` has two more kinds of step: an operation
   whose call j fails with an injected I/O error that is returned, when every file recovery reads
   is as before (`same_rel`; the driver decides it with `same_relb`), and an operation the store
   refuses without a call (a write after its log failed, a flush after the memtable thread died).
   Theorems 1, 3, 3b, 4, 6d range over these histories too.  The step sst::log's fail-stop turns a
   failed write() into, and the failed first call of a flush, are such steps: *)
Theorem C02_error_at_log_write_is_step : forall c v b, reach c -> c_v c = Some v -> accepted v (OpWrite b) ->
  reach (mkCfg (c_fs c) (Some (fault_next v (OpWrite b))) (hist_next v (OpWrite b) false (c_hist c))).
Proof. exact error_at_log_write_is_step. Qed.

Theorem C02_error_at_flush_start_is_step : forall c v, reach c -> c_v c = Some v ->
  reach (mkCfg (c_fs c) (Some v) (c_hist c)).
Proof. exact error_at_flush_start_is_step. Qed.

Theorem C02_same_relb_sound : forall s s', same_relb s s' = true -> same_rel s s'.
Proof. exact same_relb_sound. Qed.

(* the state the driver continues from after an error is the transition system's; its programs are
   the operation's or the empty refusal *)
Theorem C02_driver_error_state : forall x o hit_mani, x_v (xnext_err x o hit_mani) = fault_next (x_v x) o.
Proof. exact xnext_err_v. Qed.

Theorem C02_driver_programs : forall x s o p flag, xop_prog x s o = Some (p, flag) ->
  (p, flag) = op_prog (x_v x) s o \/ (p, flag) = ([], false).
Proof. exact xop_prog_cases. Qed.

(* ---- 8b. what is NOT continued (stated so that nobody reads more into 8): an error that strikes
   after the operation changed a file recovery reads - the fdatasync of a log append or of a
   manifest edit (the bytes are in the file, durable or not), a flush past its rollover (the old
   log stays in the root), a compaction past its first hard link or past its manifest edit.  For
   those, theorems 6c/7b still say that EVERY state the failing operation passes through, the one
   it stops in included, recovers; what the running store does afterwards is judged by the check
   against the specification only (no model in lock step). *)

(* ---- non-vacuity: a concrete history — open, two writes, a flush that dies by power loss after
   the SST was linked into sst/ but before the manifest edit — is reachable, and recovery returns
   the three entries *)
Definition ex_b1 : list (key * option (list N)) := [([107; 49], Some [118; 49])].
Definition ex_b2 : list (key * option (list N)) := [([107; 50], Some [118; 50]); ([107; 49], None)].

Example ex_reachable_crash :
  exists c, reach c /\ c_v c = None /\ c_hist c = [(true, [mkE [107; 49] 3 (Some [118; 49])]);
                                                   (true, [mkE [107; 50] 4 (Some [118; 50]); mkE [107; 49] 4 None])] /\
            map fst (c_fs c) = [NSst [mkE [107; 49] 4 None; mkE [107; 49] 3 (Some [118; 49]); mkE [107; 50] 4 (Some [118; 50])];
                                NTmp [mkE [107; 49] 4 None; mkE [107; 49] 3 (Some [118; 49]); mkE [107; 50] 4 (Some [118; 50])];
                                NLog 4; NLog 1; NMani; NDir 7; NDir 6; NDir 5; NDir 4; NDir 3; NDir 2; NDir 1; NDir 0] /\
            mani_strs (c_fs c) = [] /\
            all_entries (snd (fst (open_prog (c_fs c)))) =
              [mkE [107; 49] 4 None; mkE [107; 49] 3 (Some [118; 49]); mkE [107; 50] 4 (Some [118; 50])].
Proof.
  eexists. split.
  - eapply reach_step.
    + eapply reach_step.
      * eapply reach_step.
        -- eapply reach_step; [apply reach_init|].
           eapply step_open; [reflexivity|vm_compute; reflexivity|vm_compute; reflexivity].
        -- eapply (step_op _ _ (OpWrite ex_b1)); [reflexivity|apply acceptedb_sound; reflexivity|vm_compute; reflexivity|reflexivity].
      * eapply (step_op _ _ (OpWrite ex_b2)); [reflexivity|apply acceptedb_sound; reflexivity|vm_compute; reflexivity|reflexivity].
    + eapply (step_op_crash _ _ OpFlush 5%nat); [reflexivity|exact I|apply cut_image_b].
  - vm_compute. repeat split.
Qed.

(* ---- non-vacuity for garbage collection: put k1, flush, delete k1, flush, then a garbage
   collection of the two tables that drops the tombstone together with the version under it (no
   output at all) is an accepted step; power is lost inside it, after the manifest edit was written
   but before its fdatasync: the edit is lost, recovery returns both entries, k1 reads as deleted *)
Definition ex_s1 : sname := [mkE [107; 49] 3 (Some [118; 49])].
Definition ex_s2 : sname := [mkE [107; 49] 5 None].

Example ex_gc_crash :
  exists c, reach c /\ c_v c = None /\
            c_hist c = [(true, [mkE [107; 49] 3 (Some [118; 49])]); (true, [mkE [107; 49] 5 None])] /\
            mani_strs (c_fs c) = [ex_s1; ex_s2] /\
            vis (all_entries (snd (fst (open_prog (c_fs c))))) [107; 49] = None.
Proof.
  eexists. split.
  - eapply reach_step.
    + eapply reach_step.
      * eapply reach_step.
        -- eapply reach_step.
           ++ eapply reach_step.
              ** eapply reach_step; [apply reach_init|].
                 eapply step_open; [reflexivity|vm_compute; reflexivity|vm_compute; reflexivity].
              ** eapply (step_op _ _ (OpWrite ex_b1)); [reflexivity|apply acceptedb_sound; reflexivity|vm_compute; reflexivity|reflexivity].
           ++ eapply (step_op _ _ OpFlush); [reflexivity|exact I|vm_compute; reflexivity|reflexivity].
        -- eapply (step_op _ _ (OpWrite [([107; 49], None)])); [reflexivity|apply acceptedb_sound; reflexivity|vm_compute; reflexivity|reflexivity].
      * eapply (step_op _ _ OpFlush); [reflexivity|exact I|vm_compute; reflexivity|reflexivity].
    + eapply (step_op_crash _ _ (OpCompact true [ex_s1; ex_s2] []) 3%nat); [reflexivity|apply acceptedb_sound; vm_compute; reflexivity|apply cut_image_b].
  - vm_compute. repeat split.
Qed.

(* ---- non-vacuity for 8: write k1; the write() of the next batch fails and the error is returned;
   a third write is refused; power is lost: recovery returns the first batch only, and the history
   records the other two as not acknowledged *)
Example ex_continue_after_error :
  exists c, reach c /\ c_v c = None /\
            c_hist c = [(true, [mkE [107; 49] 3 (Some [118; 49])]); (false, [mkE [107; 50] 4 (Some [118; 50]); mkE [107; 49] 4 None]);
                        (false, [mkE [107; 49] 5 None])] /\
            all_entries (snd (fst (open_prog (c_fs c)))) = [mkE [107; 49] 3 (Some [118; 49])].
Proof.
  eexists. split.
  - eapply reach_step.
    + eapply reach_step.
      * eapply reach_step.
        -- eapply reach_step.
           ++ eapply reach_step; [apply reach_init|].
              eapply step_open; [reflexivity|vm_compute; reflexivity|vm_compute; reflexivity].
           ++ eapply (step_op _ _ (OpWrite ex_b1)); [reflexivity|apply acceptedb_sound; reflexivity|vm_compute; reflexivity|reflexivity].
        -- eapply (step_op_fault _ _ (OpWrite ex_b2) O); [reflexivity|apply acceptedb_sound; reflexivity|reflexivity|apply same_rel_refl].
      * eapply (step_op_refused _ _ (OpWrite [([107; 49], None)])); [reflexivity|apply acceptedb_sound; reflexivity].
    + eapply step_crash; [reflexivity|apply cut_image_b].
  - vm_compute. repeat split.
Qed.
