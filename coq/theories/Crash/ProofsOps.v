(* Crash/ProofsOps.v — the running store: invariant `Run`, and write / flush walked call by call. *)
From Coq Require Import NArith List Bool Arith Lia Permutation.
From Blue Require Import Lsm.Model Lsm.KeyOrder Lsm.SortLemmas Crash.Model Crash.ProofsFs Crash.ProofsInv Crash.ProofsSteps.
Import ListNotations.
Open Scope N_scope.

(* what holds between two operations of an open store *)
Record Run (s : fs) (v : vstate) : Prop := {
  run_wf : wf s;
  run_stable : stable s;
  run_sst : sst_ok s;
  run_live : live_ok s;
  run_strs : mani_strs s = v_files v;
  run_logs : forall n, lookup (NLog n) s <> None -> n = v_cur v;
  run_cur : exists lf, lookup (NLog (v_cur v)) s = Some lf /\ file_log_entries lf = v_mem v
}.

Lemma run_good s v : Run s v -> Good s (all_entries v).
Proof.
  intros [Hw Hst Hs Hl Hstrs Hlogs (lf & Hlf & Hmem)].
  split; [exact Hst|]. split; [exact Hw|]. split; [exact Hs|]. split; [exact Hl|].
  intros e. unfold all_entries. rewrite in_app_iff, in_concat, Hstrs, <- Hmem. split.
  - intros [H|(x & Hx & He)]; [right; eauto|left; eauto].
  - intros [(x & Hx & He)|(n & f & Hn & He)]; [right; eauto|left].
    assert (n = v_cur v) by (apply Hlogs; congruence). subst n. rewrite Hlf in Hn. now inversion Hn; subst.
Qed.

Lemma good_safe_pend s E p : Good s (E ++ p) -> Safe s E (Some p).
Proof.
  intros Hg s' Hc. right. exists p. split; [reflexivity|].
  destruct (good_safe s (E ++ p) None Hg s' Hc) as [H|(? & H & _)]; [exact H|discriminate].
Qed.

(* ------------------------------------------------------------------ write *)
Lemma write_walk s v b : Run s v ->
  walk (write_prog v b) s (all_entries v) (Some (batch_entries v b)) (fun s' => Run s' (op_next v (OpWrite b))).
Proof.
  intros R. pose proof (run_good s v R) as Hg. destruct R as [Hw Hst Hs Hl Hstrs Hlogs (lf & Hlf & Hmem)].
  set (es := batch_entries v b). set (L := NLog (v_cur v)). set (E := all_entries v) in *.
  unfold write_prog. fold es L. cbn [must map].
  apply walk_must_cons; [now apply good_safe|]. intros s1 E1.
  apply exec_write_inv in E1. destruct E1 as (f1 & L1 & ->). unfold L in L1. rewrite Hlf in L1. inversion L1; subst f1. clear L1.
  set (S' := set L (mkFile (f_data lf ++ [CkLog es]) (S (length (f_data lf)))) s).
  assert (HgS : Good S' (E ++ es)).
  { apply (good_upd_log s S' (v_cur v) (Some (mkFile (f_data lf ++ [CkLog es]) (S (length (f_data lf))))) E (E ++ es)).
    - apply wf_set, Hw.
    - intros n _. unfold S', L. now rewrite lookup_set.
    - exact Hg.
    - cbn. rewrite app_length. cbn. lia.
    - intros e. unfold E, all_entries. rewrite !in_app_iff, in_concat, Hstrs. split.
      + intros [[H|(x & Hx & He)]|H].
        * right. right. eexists. split; [reflexivity|]. unfold file_log_entries. cbn [f_data]. rewrite flat_map_app, in_app_iff.
          left. unfold file_log_entries in Hmem. now rewrite Hmem.
        * left. eauto.
        * right. right. eexists. split; [reflexivity|]. unfold file_log_entries. cbn [f_data]. rewrite flat_map_app, in_app_iff.
          right. cbn. now rewrite app_nil_r.
      + intros [(x & Hx & He)|[(n & f & Hne & Hn & He)|(g & Hg' & He)]].
        * left. right. eauto.
        * exfalso. apply Hne. apply Hlogs. congruence.
        * inversion Hg'; subst g. unfold file_log_entries in He. cbn [f_data] in He. rewrite flat_map_app, in_app_iff in He.
          cbn in He. rewrite app_nil_r in He. unfold file_log_entries in Hmem. rewrite Hmem in He. tauto. }
  apply walk_must_cons.
  { apply (pending_safe L s lf (CkLog es) E (E ++ es) (Some es) eq_refl Hg Hlf); [apply HgS|].
    right. exists es. auto. }
  intros s2 E2. apply exec_sync_inv in E2. destruct E2 as (f2 & L2 & ->).
  rewrite lookup_set, name_eqb_refl in L2. inversion L2; subst f2. clear L2. cbn [f_data].
  match goal with |- walk [] ?st _ _ _ => set (s2 := st) end.
  assert (Hw2 : wf s2) by (unfold s2; repeat apply wf_set; exact Hw).
  assert (Hsame : forall n, lookup n s2 = lookup n S').
  { intros n. unfold s2, S'. rewrite !lookup_set. destruct (name_eqb n L); [|reflexivity].
    rewrite app_length. cbn. do 2 f_equal. lia. }
  assert (Hg2 : Good s2 (E ++ es)) by (eapply good_ext; [exact Hw2| |exact HgS]; intros n _; apply Hsame).
  apply walk_nil; [now apply good_safe_pend|].
  destruct Hg2 as [Hst2 (_ & Hs2 & Hl2 & _)].
  assert (Hstrs2 : mani_strs s2 = mani_strs s).
  { unfold mani_strs, mani_edits. rewrite Hsame. unfold S', L. now rewrite lookup_set. }
  constructor; cbn [op_next v_files v_cur v_mem]; try assumption.
  - now rewrite Hstrs2.
  - intros n. rewrite Hsame. unfold S', L. rewrite lookup_set. cbn [name_eqb].
    destruct (N.eqb_spec n (v_cur v)); [auto|apply Hlogs].
  - eexists. split; [rewrite Hsame; unfold S', L; now rewrite lookup_set, name_eqb_refl|].
    unfold file_log_entries. cbn [f_data]. rewrite flat_map_app. cbn. rewrite app_nil_r.
    unfold file_log_entries in Hmem. now rewrite Hmem.
Qed.

(* ------------------------------------------------------------------ flush *)
Lemma in_sort_entries e l : In e (sort_entries l) <-> In e l.
Proof.
  split; intros H; (eapply Permutation_in; [|exact H]); [apply Permutation_sym|]; apply sort_entries_perm.
Qed.

Lemma flush_walk s v : Run s v ->
  walk (fst (flush_prog v s)) s (all_entries v) None
       (fun s' => snd (flush_prog v s) = true -> Run s' (op_next v OpFlush)).
Proof.
  intros R. pose proof (run_good s v R) as Hg. destruct R as [Hw Hst Hs Hl Hstrs Hlogs (lf & Hlf & Hmem)].
  set (E := all_entries v) in *. set (x := sort_entries (v_mem v)).
  unfold flush_prog. fold x.
  assert (Hx : forall e, In e x <-> In e (v_mem v)) by (intros e; apply in_sort_entries).
  (* the first four calls are the same in both branches *)
  assert (Hfirst : forall (Q : fs -> Prop) rest,
    (forall s4, Good s4 E -> lookup (NLog (v_seq v)) s = None ->
       lookup (NTmp x) s4 = Some (mkFile [CkSst x] 1) ->
       lookup (NLog (v_seq v)) s4 = Some empty_file ->
       (forall n, n <> NTmp x -> n <> NLog (v_seq v) -> lookup n s4 = lookup n s) ->
       walk rest s4 E None Q) ->
    walk (must [CCreate (NLog (v_seq v)); CCreate (NTmp x); CWrite (NTmp x) (CkSst x); CSync (NTmp x)] ++ rest) s E None Q).
  { intros Q rest Hrest. cbn [must map app].
    apply walk_must_cons; [now apply good_safe|]. intros s1 E1.
    apply exec_create_inv in E1. destruct E1 as [N1 ->].
    assert (Hg1 : Good (set (NLog (v_seq v)) empty_file s) E).
    { apply (good_upd_log s _ (v_seq v) (Some empty_file) E E); [apply wf_set, Hw| |exact Hg|reflexivity|].
      - intros n _. now rewrite lookup_set.
      - intros e. destruct Hg as [_ (_ & _ & _ & C)]. rewrite (C e). split.
        + intros [H|(n & f & Hn & He)]; [now left|right; left]. exists n, f. split; [|auto]. intros ->. congruence.
        + intros [H|[(n & f & _ & Hn & He)|(g & Hg' & He)]]; [now left|right; eauto|]. inversion Hg'; subst g. destruct He. }
    change ((CCreate (NTmp x), Must) :: (CWrite (NTmp x) (CkSst x), Must) :: (CSync (NTmp x), Must) :: rest)
      with (must [CCreate (NTmp x); CWrite (NTmp x) (CkSst x); CSync (NTmp x)] ++ rest).
    apply walk_app_must. eapply walk_conseq; [|apply tmp_block; [reflexivity|exact Hg1]].
    cbn beta. intros s4 (Hg4 & Ht4 & Ho4). apply Hrest; [exact Hg4|exact N1|exact Ht4| |].
    - rewrite Ho4 by discriminate. now rewrite lookup_set, name_eqb_refl.
    - intros n Hn1 Hn2. rewrite Ho4 by exact Hn1. now rewrite lookup_set, name_eqb_neq. }
  destruct (exists_name (NSst x) s) eqn:Ex.
  - (* duplicate-sst: the flush ends with an error after the temporary file was sealed *)
    cbn [fst snd]. rewrite <- (app_nil_r (must _)). apply Hfirst.
    intros s4 Hg4 _ _ _ _. apply walk_nil; [now apply good_safe|discriminate].
  - cbn [fst snd]. rewrite must_app. apply Hfirst.
    intros s4 Hg4 Nseq Ht4 Hl4 Ho4.
    assert (Nsst : lookup (NSst x) s4 = None).
    { rewrite Ho4 by discriminate. unfold exists_name in Ex. now destruct (lookup (NSst x) s). }
    unfold mani_apply. cbn [must map app].
    apply walk_must_cons; [now apply good_safe|]. intros s5 E5.
    apply exec_link_inv in E5. destruct E5 as (f5 & L5 & _ & ->). rewrite Ht4 in L5. inversion L5; subst f5. clear L5.
    set (s5 := set (NSst x) (mkFile [CkSst x] 1) s4).
    assert (Hg5 : Good s5 E).
    { apply (good_add_sst s4 s5 x E); [apply wf_set, Hg4| |exact Hg4]. intros n _. unfold s5. now rewrite lookup_set. }
    change ((COpenAppend NMani, Must) :: (CWrite NMani (CkEditL [x] [] (Some (v_cur v))), Must) :: (CSync NMani, Must) ::
            (CUnlink (NTmp x), Must) :: (CRename (NLog (v_cur v)) (NTrashLog (v_cur v)), Must) :: nil)
      with (must (mani_apply (CkEditL [x] [] (Some (v_cur v)))) ++ must [CUnlink (NTmp x); CRename (NLog (v_cur v)) (NTrashLog (v_cur v))]).
    apply walk_app_must.
    assert (Hstrs5 : mani_strs s5 = v_files v).
    { rewrite <- Hstrs. unfold mani_strs, mani_edits, s5. rewrite lookup_set. cbn [name_eqb]. now rewrite Ho4 by discriminate. }
    assert (Hlog5 : forall n, lookup (NLog n) s5 = if n =? v_seq v then Some empty_file else lookup (NLog n) s).
    { intros n. unfold s5. rewrite lookup_set. cbn [name_eqb]. destruct (N.eqb_spec n (v_seq v)) as [->|Hne]; [exact Hl4|].
      apply Ho4; [discriminate|congruence]. }
    eapply walk_conseq; [|apply (mani_block [x] [] (Some (v_cur v)) s5 E E None Hg5)].
    + cbn beta. intros s8 (Hg8 & Hstrs8 & Hm8 & Ho8).
      cbn [must map].
      apply walk_must_cons; [now apply good_safe|]. intros s9 E9.
      assert (Hg9 : Good s9 E) by (eapply good_irrelevant; [|exact E9|exact Hg8]; intros n [<-|[]]; reflexivity).
      apply exec_unlink_inv in E9. destruct E9 as [_ ->].
      apply walk_must_cons; [now apply good_safe|]. intros s10 E10.
      apply exec_rename_inv in E10. destruct E10 as (f10 & L10 & ->).
      set (s9 := remove (NTmp x) s8) in *.
      assert (Hl9 : forall n, relevant n = true -> lookup n s9 = lookup n s8).
      { intros n Hn. unfold s9. rewrite lookup_remove. destruct (name_eqb n (NTmp x)) eqn:En; [|reflexivity].
        apply name_eqb_eq in En. subst n. discriminate. }
      set (s10 := set (NTrashLog (v_cur v)) f10 (remove (NLog (v_cur v)) s9)).
      assert (Hu10 : upd_rel s9 s10 (NLog (v_cur v)) None).
      { intros n Hn. unfold s10. rewrite lookup_set, lookup_remove.
        destruct (name_eqb n (NTrashLog (v_cur v))) eqn:En; [apply name_eqb_eq in En; subst n; discriminate|reflexivity]. }
      assert (Hw10 : wf s10) by (unfold s10; apply wf_set, wf_remove, Hg9).
      assert (Hstrs9 : mani_strs s9 = apply_edit (v_files v) (CkEdit [x] [])).
      { rewrite <- Hstrs5. change (apply_edit (mani_strs s5) (CkEdit [x] [])) with (apply_edit (mani_strs s5) (CkEditL [x] [] (Some (v_cur v)))).
        rewrite <- Hstrs8. unfold mani_strs, mani_edits. now rewrite (Hl9 NMani eq_refl). }
      assert (Hlog9 : forall n, lookup (NLog n) s9 = if n =? v_seq v then Some empty_file else lookup (NLog n) s).
      { intros n. rewrite (Hl9 (NLog n) eq_refl), Ho8 by discriminate. apply Hlog5. }
      assert (Hcs : v_cur v <> v_seq v) by (intros Heq; rewrite <- Heq in Nseq; congruence).
      assert (Hg10 : Good s10 E).
      { apply (good_upd_log s9 s10 (v_cur v) None E E Hw10 Hu10 Hg9 I).
        intros e. destruct Hg9 as [_ (_ & _ & _ & C)]. rewrite (C e). split.
        - intros [H|(n & f & Hn & He)]; [now left|].
          destruct (N.eq_dec n (v_cur v)) as [->|Hne]; [|right; left; eauto].
          left. exists x. rewrite Hstrs9, in_apply_edit. split; [right; now left|].
          apply Hx. rewrite Hlog9 in Hn. destruct (N.eqb_spec (v_cur v) (v_seq v)); [contradiction|].
          rewrite Hlf in Hn. inversion Hn; subst f. now rewrite <- Hmem.
        - intros [H|[(n & f & _ & Hn & He)|(g & Hg' & _)]]; [now left|right; eauto|discriminate]. }
      apply walk_nil; [now apply good_safe|]. intros _.
      destruct Hg10 as [Hst10 (_ & Hs10 & Hl10 & _)].
      assert (Hlog10 : forall n, lookup (NLog n) s10 = if n =? v_cur v then None else lookup (NLog n) s9).
      { intros n. rewrite (Hu10 (NLog n) eq_refl). cbn [name_eqb]. reflexivity. }
      constructor; cbn [op_next v_files v_cur v_mem v_seq]; try assumption.
      * rewrite (upd_rel_strs _ _ _ _ Hu10) by discriminate. exact Hstrs9.
      * intros n. rewrite Hlog10, Hlog9. destruct (N.eqb_spec n (v_cur v)); [congruence|].
        destruct (N.eqb_spec n (v_seq v)); [auto|]. intros H. exfalso. apply n0. now apply Hlogs.
      * exists empty_file. split; [|reflexivity]. rewrite Hlog10, Hlog9.
        destruct (N.eqb_spec (v_seq v) (v_cur v)); [congruence|]. now rewrite N.eqb_refl.
    + intros y [<-|[]]. unfold s5. rewrite lookup_set, name_eqb_refl. discriminate.
    + intros e. destruct Hg5 as [_ (_ & _ & _ & C)]. rewrite (C e). split.
      * intros [(y & Hy & He)|H]; [left|now right]. exists y. split; [|exact He]. rewrite in_apply_edit. left. split; [exact Hy|intros []].
      * intros [(y & Hy & He)|H]; [|now right]. rewrite in_apply_edit in Hy. destruct Hy as [[Hy _]|[<-|[]]]; [left; eauto|].
        right. exists (v_cur v), lf. split; [|rewrite Hmem; now apply Hx].
        rewrite Hlog5. destruct (N.eqb_spec (v_cur v) (v_seq v)) as [Heq|]; [rewrite <- Heq in Nseq; congruence|exact Hlf].
    + now left.
Qed.
