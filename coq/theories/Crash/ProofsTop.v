(* Crash/ProofsTop.v — corollaries stated in Props_C02.v: what recovery returns is what the image
   holds; reads over the recovered entries (bridge to C01); which call results are dropped; where a
   faulted operation stops. *)
From Coq Require Import NArith List Bool Arith Lia.
From Blue Require Import Lsm.Model Lsm.LoadProofs Lsm.Ordered Crash.Model Crash.ProofsFs Crash.ProofsInv Crash.ProofsSteps
  Crash.ProofsOps Crash.ProofsOpen Crash.ProofsCompact Crash.ProofsLts.
Import ListNotations.
Open Scope N_scope.

Lemma recovery_returns_image c : reach c -> c_v c = None ->
  forall e, In e (disk_entries (c_fs c)) <-> In e (Crash.Model.all_entries (snd (fst (open_prog (c_fs c))))).
Proof.
  intros Hr Hv e. pose proof (inv_reach c Hr) as Hi. unfold inv in Hi. rewrite Hv in Hi.
  destruct Hi as (E & Hg & _).
  destruct (open_walk (c_fs c) E Hg) as [[_ (s' & _ & _ & Hent)] _].
  rewrite (Hent e). apply rec_disk_entries, Hg.
Qed.

Lemma reads_newest_recovered (st : store) (E : list entry) k :
  wf_version (ver st) -> Ordered st ->
  (forall e, In e (Lsm.Ordered.all_entries st) <-> In e E) ->
  match load st k (seq st) with
  | Some e => In e E /\ ek e = k /\ (forall e', In e' E -> ek e' = k -> ets e' <= seq st -> ets e' <= ets e)
  | None => forall e', In e' E -> ek e' = k -> seq st < ets e'
  end.
Proof.
  intros Hw Ho HE. pose proof (load_newest st k (seq st) Hw Ho) as H.
  destruct (load st k (seq st)) as [e|].
  - destruct H as (H1 & H2 & _ & H4). split; [now apply HE|]. split; [exact H2|].
    intros e' He'. apply H4. now apply HE.
  - intros e' He'. apply H. now apply HE.
Qed.

(* ------------------------------------------------------------------ dropped results *)
Lemma in_must c m cs : In (c, m) (must cs) -> m = Must.
Proof. unfold must. intros H. apply in_map_iff in H. destruct H as (c' & E & _). now inversion E. Qed.

Lemma only_trash_renames_ignored c m : dropped m ->
  (forall v s o, In (c, m) (fst (op_prog v s o)) -> exists x, c = CRename (NSst x) (NTrashSst x)) /\
  (forall s, In (c, m) (fst (fst (open_prog s))) -> exists x, c = CRename (NSst x) (NTrashSst x)).
Proof.
  intros Hm.
  assert (Hmust : forall cs, In (c, m) (must cs) -> False).
  { intros cs H. apply in_must in H. destruct Hm; subst; discriminate. }
  assert (Hlate : forall cs, In (c, m) (late cs) -> False).
  { induction cs as [|c0 cs IH]; cbn [late]; [intros []|]. intros [E|H]; [inversion E; destruct Hm; subst; discriminate|auto]. }
  split.
  - intros v s [b| |gc ins outs]; cbn [op_prog fst].
    + unfold write_prog. intros H. now apply Hmust in H.
    + unfold flush_prog. destruct (exists_name _ s); cbn [fst]; intros H; now apply Hmust in H.
    + unfold compact_prog. rewrite !in_app_iff.
      assert (Hret : In (c, m) (map (fun x => (CRename (NSst x) (NTrashSst x), Retire)) (filter (fun x => negb (mem_sname x outs)) ins)) ->
                     exists x, c = CRename (NSst x) (NTrashSst x)).
      { intros H. apply in_map_iff in H. destruct H as (x & E & _). inversion E. eauto. }
      intros [H|[H|[H|[H|[H|H]]]]].
      * destruct (exists_name _ s); [now apply Hmust in H|destruct H].
      * now apply Hmust in H.
      * now apply Hmust in H.
      * apply in_map_iff in H. destruct H as (ix & E & _). inversion E. destruct Hm; subst; discriminate.
      * destruct H as [E|[E|[E|[]]]]; inversion E; destruct Hm; subst; discriminate.
      * destruct gc; rewrite in_app_iff in H; destruct H as [H|H]; auto; [now apply Hmust in H|now apply Hlate in H].
  - intros s. unfold open_prog.
    destruct (recover_calls _ _) as [c3 rec]. cbn [fst]. rewrite !in_app_iff.
    intros [H|[H|H]].
    + now apply Hmust in H.
    + apply in_map_iff in H. destruct H as (c' & E & Hc). inversion E; subst c'.
      rewrite orphan_calls_map in Hc. apply in_map_iff in Hc. destruct Hc as (x & <- & _). eauto.
    + now apply Hmust in H.
Qed.

(* ------------------------------------------------------------------ where a faulted operation stops *)
Definition stops (m : mode) : Prop := m = Must \/ m = Exist.

Lemma fault_stops_at_prefix p : forall k s, run p s = (fst (run p s), None) ->
  (k < length p)%nat -> stops (snd (nth k p (CSync NMani, Must))) ->
  fst (run_prog p (Some k) O s None) = prefix_state p k s.
Proof.
  induction p as [|[c m] p IH]; intros k s Hrun Hk Hm; [cbn in Hk; lia|].
  pose proof (run_ok_tail c m p s Hrun) as Htail. unfold exec_or in Htail.
  unfold prefix_state. destruct k as [|k].
  - cbn [nth snd] in Hm. cbn [firstn run_prog retire_suppressed]. destruct Hm as [->| ->]; reflexivity.
  - cbn [nth] in Hm. cbn [length] in Hk. cbn [firstn run_prog]. rewrite !retire_suppressed_none.
    unfold run in Hrun. cbn [run_prog] in Hrun. rewrite retire_suppressed_none in Hrun.
    destruct (exec c s) as [s1|] eqn:E1.
    + destruct m; (apply IH; [exact Htail|lia|exact Hm]).
    + destruct m; try (apply IH; [exact Htail|lia|exact Hm]).
      * reflexivity.
      * exfalso. pose proof (deferred_stays p None n s EIo) as H. rewrite Hrun in H. now apply H.
      * exfalso. pose proof (deferred_stays p None n s (late_err None)) as H. rewrite Hrun in H. now apply H.
Qed.

(* whatever single call fails — or none — every state the operation passes through is safe *)
Lemma fault_leaves_recoverable s v o f k : Run s v -> op_fs_ok v o ->
  Safe (fst (run_prog (firstn k (fst (op_prog v s o))) f O s None)) (op_base v o) (op_pend v o).
Proof. intros R Ha. destruct (op_walk s v o R Ha) as [Hp _]. apply (Hp f k). Qed.

Lemma fault_leaves_recoverable_end s v o j : Run s v -> op_fs_ok v o ->
  Safe (fst (run_prog (fst (op_prog v s o)) (Some j) O s None)) (op_base v o) (op_pend v o).
Proof.
  intros R Ha. pose proof (fault_leaves_recoverable s v o (Some j) (length (fst (op_prog v s o))) R Ha) as H.
  now rewrite firstn_all in H.
Qed.

Lemma open_fault_leaves_recoverable s E f k : Good s E ->
  Safe (fst (run_prog (firstn k (fst (fst (open_prog s)))) f O s None)) E None.
Proof. intros Hg. destruct (open_walk s E Hg) as [[Hp _] _]. apply (Hp f k). Qed.

(* recovery itself: whatever single call of KeyValueStore::open fails, after any history with any
   crashes, every state it passes through still recovers to entries the history explains *)
Lemma recovery_fault_recoverable c f k : reach c -> c_v c = None ->
  exists E W, sel (c_hist c) W /\ explains W E /\
    Safe (fst (run_prog (firstn k (fst (fst (open_prog (c_fs c))))) f O (c_fs c) None)) E None.
Proof.
  intros Hr Hv. pose proof (inv_reach c Hr) as Hi. unfold inv in Hi. rewrite Hv in Hi.
  destruct Hi as (E & Hg & ((W & Hsel & Hex) & _)). exists E, W. split; [exact Hsel|]. split; [exact Hex|].
  now apply open_fault_leaves_recoverable.
Qed.

(* ------------------------------------------------------------------ what "safe" buys *)
(* a recoverable image opens: none of open's calls fails, every listed SST is there, the store
   that comes up holds exactly E *)
Lemma recoverable_image_opens s E : Good s E ->
  exists s', run (fst (fst (open_prog s))) s = (s', None) /\ snd (open_prog s) = true /\
             Run s' (snd (fst (open_prog s))) /\
             forall e, In e (Crash.Model.all_entries (snd (fst (open_prog s)))) <-> In e E.
Proof.
  intros Hg. destruct (open_walk s E Hg) as [[_ (s' & Hrun & HR & Hent)] Hok]. exists s'. auto.
Qed.

(* ... and a safe state is one every crash image of which is such an image, for the acknowledged
   entries or for those plus the whole batch in flight *)
Lemma safe_state_recovers s E P img : Safe s E P -> cut s img ->
  exists E', (E' = E \/ exists p, P = Some p /\ E' = E ++ p) /\
    exists s', run (fst (fst (open_prog img))) img = (s', None) /\ snd (open_prog img) = true /\
               Run s' (snd (fst (open_prog img))) /\
               forall e, In e (Crash.Model.all_entries (snd (fst (open_prog img)))) <-> In e E'.
Proof.
  intros HS Hc. destruct (HS img Hc) as [Hr|(p & Hp & Hr)].
  - exists E. split; [now left|]. apply recoverable_image_opens. eapply rec_good_image; eauto.
  - exists (E ++ p). split; [right; eauto|]. apply recoverable_image_opens. eapply rec_good_image; eauto.
Qed.

(* ------------------------------------------------------------------ going on after an error *)
Lemma first_call_fault c p s : run_prog ((c, Must) :: p) (Some O) O s None = (s, Some EIo).
Proof. reflexivity. Qed.

(* the write() of the log fails (what `sst::log` turns into a refusal of every later append): the
   store goes on from the same directory; that is a step *)
Lemma error_at_log_write_is_step c v b : reach c -> c_v c = Some v -> accepted v (OpWrite b) ->
  reach (mkCfg (c_fs c) (Some (fault_next v (OpWrite b))) (hist_next v (OpWrite b) false (c_hist c))).
Proof.
  intros Hr Hv Ha. eapply reach_step; [exact Hr|].
  apply (step_op_fault c v (OpWrite b) O (c_fs c) EIo Hv Ha); [reflexivity|apply same_rel_refl].
Qed.

(* the first call of a flush (create_new of the next log) fails: likewise *)
Lemma error_at_flush_start_is_step c v : reach c -> c_v c = Some v ->
  reach (mkCfg (c_fs c) (Some v) (c_hist c)).
Proof.
  intros Hr Hv. eapply reach_step; [exact Hr|].
  assert (Hrun : run_prog (fst (op_prog v (c_fs c) OpFlush)) (Some O) O (c_fs c) None = (c_fs c, Some EIo)).
  { cbn [op_prog]. unfold flush_prog. destruct (exists_name _ _); reflexivity. }
  exact (step_op_fault c v OpFlush O (c_fs c) EIo Hv I Hrun (same_rel_refl _)).
Qed.

(* the driver's error transitions are the transition system's *)
Lemma xnext_err_v x o hm : x_v (xnext_err x o hm) = fault_next (x_v x) o.
Proof. destruct o; reflexivity. Qed.

Lemma xop_prog_cases x s o p flag : xop_prog x s o = Some (p, flag) ->
  (p, flag) = op_prog (x_v x) s o \/ (p, flag) = ([], false).
Proof.
  destruct o as [b| |gc ins outs]; cbn [xop_prog].
  - destruct (x_log_ok x); intros H; inversion H; auto.
  - destruct (x_flush_ok x); [destruct (x_log_ok x && x_mani_ok x); [|discriminate]|]; intros H; inversion H; auto.
  - destruct (x_mani_ok x); [|discriminate]. intros H; inversion H; auto.
Qed.
