(* Crash/ProofsFs.v — facts about the file-system model: names, lookup/set/remove, exec, cut. *)
From Coq Require Import NArith List Bool Arith Lia.
From Blue Require Import Lsm.Model Lsm.KeyOrder Crash.Model.
Import ListNotations.
Open Scope N_scope.

(* ------------------------------------------------------------------ name equality *)
Lemma opt_eqb_eq a b : opt_eqb a b = true <-> a = b.
Proof.
  destruct a, b; cbn; split; intros H; try discriminate; try reflexivity.
  - f_equal. now apply key_eqb_eq.
  - inversion H. apply key_eqb_refl.
Qed.

Lemma ent_eqb_eq a b : ent_eqb a b = true <-> a = b.
Proof.
  unfold ent_eqb. destruct a as [ka ta va], b as [kb tb vb]. cbn [ek ets ev]. split.
  - intros H. apply andb_prop in H. destruct H as [H Hv]. apply andb_prop in H. destruct H as [Hk Ht].
    apply key_eqb_eq in Hk. apply N.eqb_eq in Ht. apply opt_eqb_eq in Hv. now subst.
  - intros H. inversion H; subst. rewrite key_eqb_refl, N.eqb_refl. cbn. now apply opt_eqb_eq.
Qed.

Lemma sname_eqb_eq a : forall b, sname_eqb a b = true <-> a = b.
Proof.
  induction a as [|x a IH]; intros [|y b]; cbn; split; intros H; try discriminate; try reflexivity.
  - apply andb_prop in H. destruct H as [H1 H2]. apply ent_eqb_eq in H1. apply IH in H2. now subst.
  - inversion H; subst. apply andb_true_intro. split; [now apply ent_eqb_eq|now apply IH].
Qed.

Lemma snames_eqb_eq a : forall b, snames_eqb a b = true <-> a = b.
Proof.
  induction a as [|x a IH]; intros [|y b]; cbn; split; intros H; try discriminate; try reflexivity.
  - apply andb_prop in H. destruct H as [H1 H2]. apply sname_eqb_eq in H1. apply IH in H2. now subst.
  - inversion H; subst. apply andb_true_intro. split; [now apply sname_eqb_eq|now apply IH].
Qed.

Lemma name_eqb_eq a b : name_eqb a b = true <-> a = b.
Proof.
  destruct a, b; cbn; split; intros H; try discriminate; try reflexivity;
    try (apply N.eqb_eq in H; now subst);
    try (inversion H; subst; apply N.eqb_refl);
    try (apply sname_eqb_eq in H; now subst);
    try (inversion H; subst; now apply sname_eqb_eq);
    try (apply snames_eqb_eq in H; now subst);
    try (inversion H; subst; now apply snames_eqb_eq).
  - apply andb_prop in H. destruct H as [H1 H2]. apply sname_eqb_eq in H1. apply Nat.eqb_eq in H2. now subst.
  - inversion H; subst. apply andb_true_intro. split; [now apply sname_eqb_eq|apply Nat.eqb_refl].
Qed.

Lemma name_eqb_refl a : name_eqb a a = true.
Proof. now apply name_eqb_eq. Qed.

Lemma name_eqb_neq a b : a <> b -> name_eqb a b = false.
Proof. intros H. destruct (name_eqb a b) eqn:E; [apply name_eqb_eq in E; contradiction|reflexivity]. Qed.

Lemma name_eqb_sym a b : name_eqb a b = name_eqb b a.
Proof.
  destruct (name_eqb a b) eqn:E.
  - apply name_eqb_eq in E. subst. now rewrite name_eqb_refl.
  - destruct (name_eqb b a) eqn:E2; [apply name_eqb_eq in E2; subst; now rewrite name_eqb_refl in E|reflexivity].
Qed.

Lemma mem_sname_in x l : mem_sname x l = true <-> In x l.
Proof.
  unfold mem_sname. rewrite existsb_exists. split.
  - intros (y & Hy & E). apply sname_eqb_eq in E. now subst.
  - intros H. exists x. split; [exact H|now apply sname_eqb_eq].
Qed.

Lemma mem_sname_not_in x l : mem_sname x l = false <-> ~ In x l.
Proof.
  rewrite <- mem_sname_in. destruct (mem_sname x l); split; intros H.
  - discriminate.
  - exfalso. now apply H.
  - discriminate.
  - reflexivity.
Qed.

(* ------------------------------------------------------------------ lookup / set / remove *)
Lemma lookup_remove n m s : lookup n (remove m s) = if name_eqb n m then None else lookup n s.
Proof.
  induction s as [|[k f] s IH]; cbn [remove lookup].
  - now destruct (name_eqb n m).
  - destruct (name_eqb m k) eqn:Emk.
    + apply name_eqb_eq in Emk. subst k. rewrite IH. destruct (name_eqb n m); reflexivity.
    + cbn [lookup]. rewrite IH. destruct (name_eqb n k) eqn:Enk; [|reflexivity].
      apply name_eqb_eq in Enk. subst k. rewrite name_eqb_sym, Emk. reflexivity.
Qed.

Lemma lookup_set n m f s : lookup n (set m f s) = if name_eqb n m then Some f else lookup n s.
Proof. unfold set. cbn [lookup]. rewrite lookup_remove. now destruct (name_eqb n m). Qed.

Definition wf (s : fs) : Prop := NoDup (map fst s).

Lemma in_remove p m s : In p (remove m s) -> In p s /\ fst p <> m.
Proof.
  induction s as [|[k f] s IH]; cbn [remove]; [intros []|].
  destruct (name_eqb m k) eqn:E.
  - intros H. destruct (IH H). split; [now right|assumption].
  - intros [<-|H].
    + split; [now left|]. cbn. intros ->. now rewrite name_eqb_refl in E.
    + destruct (IH H). split; [now right|assumption].
Qed.

Lemma in_remove_iff p m s : In p (remove m s) <-> In p s /\ fst p <> m.
Proof.
  split; [apply in_remove|]. intros [H Hn]. induction s as [|[k f] s IH]; [destruct H|].
  cbn [remove]. destruct (name_eqb m k) eqn:E.
  - destruct H as [<-|H]; [|now apply IH]. apply name_eqb_eq in E. cbn in Hn. congruence.
  - destruct H as [<-|H]; [now left|right; now apply IH].
Qed.

Lemma wf_remove m s : wf s -> wf (remove m s).
Proof.
  unfold wf. induction s as [|[k f] s IH]; cbn [remove map fst]; [auto|].
  intros H. inversion H as [|? ? Hn Hd]; subst.
  destruct (name_eqb m k); [now apply IH|].
  cbn [map fst]. constructor; [|now apply IH].
  intros Hin. apply Hn. apply in_map_iff in Hin. destruct Hin as (p & <- & Hp).
  apply in_remove in Hp. apply in_map. tauto.
Qed.

Lemma wf_set m f s : wf s -> wf (set m f s).
Proof.
  intros H. unfold set, wf. cbn [map fst]. constructor; [|now apply wf_remove].
  intros Hin. apply in_map_iff in Hin. destruct Hin as (p & E & Hp). apply in_remove in Hp. tauto.
Qed.

Lemma lookup_in n f s : lookup n s = Some f -> In (n, f) s.
Proof.
  induction s as [|[k g] s IH]; cbn [lookup]; [discriminate|].
  destruct (name_eqb n k) eqn:E.
  - apply name_eqb_eq in E. subst. intros H. inversion H. now left.
  - intros H. right. now apply IH.
Qed.

Lemma in_lookup n f s : wf s -> In (n, f) s -> lookup n s = Some f.
Proof.
  unfold wf. induction s as [|[k g] s IH]; [intros _ []|].
  cbn [map fst lookup]. intros H. inversion H as [|? ? Hn Hd]; subst. intros [E|Hin].
  - inversion E; subst. now rewrite name_eqb_refl.
  - destruct (name_eqb n k) eqn:E; [|now apply IH].
    apply name_eqb_eq in E. subst. exfalso. apply Hn. apply in_map_iff. exists (k, f). auto.
Qed.

Lemma lookup_none_not_in n s : lookup n s = None -> ~ In n (map fst s).
Proof.
  induction s as [|[k g] s IH]; cbn [lookup map fst]; [auto|].
  destruct (name_eqb n k) eqn:E; [discriminate|].
  intros H [->|Hin]; [now rewrite name_eqb_refl in E|now apply IH].
Qed.

(* ------------------------------------------------------------------ exec *)
Lemma exec_wf c s s' : wf s -> exec c s = Some s' -> wf s'.
Proof.
  intros Hw. destruct c; cbn [exec]; intros H.
  - destruct (lookup d s); inversion H; subst. now apply wf_set.
  - destruct (lookup d s); [|discriminate]. destruct d; try (inversion H; subst; now apply wf_remove).
    destruct (comp_files d s); inversion H; subst. now apply wf_remove.
  - destruct (lookup f s); inversion H; subst. now apply wf_set.
  - destruct (lookup f s); inversion H; subst; [assumption|now apply wf_set].
  - destruct (lookup f s); inversion H; subst. now apply wf_set.
  - destruct (lookup f s); inversion H; subst. now apply wf_set.
  - destruct (lookup src s); [|discriminate]. destruct (lookup dst s); inversion H; subst. now apply wf_set.
  - destruct (lookup f s); inversion H; subst. now apply wf_remove.
  - destruct (lookup src s); inversion H; subst. apply wf_set. now apply wf_remove.
Qed.

Lemma exec_or_wf c s : wf s -> wf (exec_or c s).
Proof. intros H. unfold exec_or. destruct (exec c s) eqn:E; [eapply exec_wf; eauto|assumption]. Qed.

Lemma replay_wf cs : forall s, wf s -> wf (replay cs s).
Proof. induction cs as [|c cs IH]; intros s H; cbn [replay]; [assumption|]. apply IH. now apply exec_or_wf. Qed.

Lemma replay_app a b s : replay (a ++ b) s = replay b (replay a s).
Proof. revert s. induction a as [|c a IH]; intros s; cbn [app replay]; [reflexivity|apply IH]. Qed.

(* the names a call may change *)
Definition touches (c : call) : list name :=
  match c with
  | CMkdir d | CRmdir d => [d]
  | CCreate f | COpenAppend f | CWrite f _ | CSync f | CUnlink f => [f]
  | CLink _ dst => [dst]
  | CRename src dst => [src; dst]
  end.

Lemma exec_untouched c s s' n : exec c s = Some s' -> ~ In n (touches c) -> lookup n s' = lookup n s.
Proof.
  intros H Hn. destruct c; cbn [exec touches] in *.
  - destruct (lookup d s); inversion H; subst. rewrite lookup_set, name_eqb_neq; [reflexivity|intros ->; apply Hn; now left].
  - destruct (lookup d s); [|discriminate].
    assert (E : s' = remove d s) by (destruct d; try (now inversion H); destruct (comp_files d s); now inversion H).
    subst. rewrite lookup_remove, name_eqb_neq; [reflexivity|intros ->; apply Hn; now left].
  - destruct (lookup f s); inversion H; subst. rewrite lookup_set, name_eqb_neq; [reflexivity|intros ->; apply Hn; now left].
  - destruct (lookup f s); inversion H; subst; [reflexivity|].
    rewrite lookup_set, name_eqb_neq; [reflexivity|intros ->; apply Hn; now left].
  - destruct (lookup f s); inversion H; subst. rewrite lookup_set, name_eqb_neq; [reflexivity|intros ->; apply Hn; now left].
  - destruct (lookup f s); inversion H; subst. rewrite lookup_set, name_eqb_neq; [reflexivity|intros ->; apply Hn; now left].
  - destruct (lookup src s); [|discriminate]. destruct (lookup dst s); inversion H; subst.
    rewrite lookup_set, name_eqb_neq; [reflexivity|intros ->; apply Hn; now left].
  - destruct (lookup f s); inversion H; subst. rewrite lookup_remove, name_eqb_neq; [reflexivity|intros ->; apply Hn; now left].
  - destruct (lookup src s); inversion H; subst.
    rewrite lookup_set, name_eqb_neq by (intros ->; apply Hn; right; now left).
    rewrite lookup_remove, name_eqb_neq; [reflexivity|intros ->; apply Hn; now left].
Qed.

Lemma exec_or_untouched c s n : ~ In n (touches c) -> lookup n (exec_or c s) = lookup n s.
Proof. intros H. unfold exec_or. destruct (exec c s) eqn:E; [eapply exec_untouched; eauto|reflexivity]. Qed.

(* ------------------------------------------------------------------ cut *)
Lemma cut_names s s' : cut s s' -> map fst s' = map fst s.
Proof. induction 1; cbn; [reflexivity|now f_equal]. Qed.

Lemma cut_wf s s' : cut s s' -> wf s -> wf s'.
Proof. intros H. unfold wf. now rewrite (cut_names _ _ H). Qed.

Lemma cut_lookup s s' n : cut s s' ->
  match lookup n s with
  | Some f => exists k, (Nat.min (f_dur f) (length (f_data f)) <= k <= length (f_data f))%nat /\ lookup n s' = Some (cut_file k f)
  | None => lookup n s' = None
  end.
Proof.
  induction 1 as [|m f k s s' Hk Hc IH]; cbn [lookup]; [reflexivity|].
  destruct (name_eqb n m); [exists k; auto|exact IH].
Qed.

Lemma cut_file_full f : f_dur f = length (f_data f) -> cut_file (length (f_data f)) f = f.
Proof. intros H. unfold cut_file. rewrite firstn_all. destruct f; cbn in *. now subst. Qed.

Lemma cut_refl_image_a s : cut s (image_a s).
Proof.
  induction s as [|[n f] s IH]; cbn; constructor; [|exact IH].
  cbn. split; [apply Nat.le_min_r|lia].
Qed.

Lemma cut_image_b s : cut s (image_b s).
Proof.
  induction s as [|[n f] s IH]; cbn; constructor; [|exact IH].
  cbn. split; [lia|apply Nat.le_min_r].
Qed.

(* an image: everything in it is durable *)
Definition all_durable (s : fs) : Prop := forall n f, In (n, f) s -> f_dur f = length (f_data f).

Lemma cut_all_durable s s' : cut s s' -> all_durable s'.
Proof.
  induction 1 as [|m f k s s' Hk Hc IH]; intros n g; [intros []|].
  intros [E|Hin]; [|now apply (IH n g)].
  inversion E; subst. cbn. rewrite firstn_length. lia.
Qed.

Lemma cut_of_durable s s' : all_durable s -> cut s s' -> s' = s.
Proof.
  intros Hd Hc. induction Hc as [|m f k s s' Hk Hc IH]; [reflexivity|].
  assert (Hf : f_dur f = length (f_data f)) by (apply (Hd m f); now left).
  rewrite Hf, Nat.min_id in Hk. assert (k = length (f_data f)) by lia. subst k.
  rewrite cut_file_full by exact Hf. f_equal. apply IH. intros n g Hin. apply (Hd n g). now right.
Qed.
