(* Crash/ProofsCompact.v — a merging (or garbage-collecting) compaction walked call by call. *)
From Coq Require Import NArith List Bool Arith Lia Permutation.
From Blue Require Import Lsm.Model Lsm.KeyOrder Lsm.SortLemmas Crash.Model Crash.ProofsFs Crash.ProofsInv Crash.ProofsSteps Crash.ProofsOps.
Import ListNotations.
Open Scope N_scope.

(* which compactions the file-system walk covers: the inputs are live, and every entry of the
   outputs is an entry of the inputs (a merge keeps all of them; a garbage collection drops some -
   which ones it may drop is a matter of what a reader sees, `accepted` in ProofsLts) *)
Definition compact_ok (v : vstate) (ins outs : list sname) : Prop :=
  incl ins (v_files v) /\ incl (concat outs) (concat ins).

Lemma enumerate_ge {A} (l : list A) : forall k j y, In (j, y) (enumerate k l) -> (k <= j)%nat.
Proof.
  induction l as [|x l IH]; intros k j y; cbn [enumerate]; [intros []|].
  intros [H|H]; [inversion H; lia|]. apply IH in H. lia.
Qed.

Lemma enumerate_in {A} (l : list A) : forall k x, In x l -> exists i, In (i, x) (enumerate k l).
Proof.
  induction l as [|y l IH]; intros k x; [intros []|]. cbn [enumerate]. intros [->|H].
  - exists k. now left.
  - destruct (IH (S k) x H) as (i & Hi). exists i. now right.
Qed.

Lemma enumerate_in_snd {A} (l : list A) : forall k i x, In (i, x) (enumerate k l) -> In x l.
Proof.
  induction l as [|y l IH]; intros k i x; cbn [enumerate]; [intros []|].
  intros [H|H]; [inversion H; now left|right; eapply IH; eauto].
Qed.

Section Compact.
  Variable d : sname.

  Definition out_calls (ix : nat * sname) : list call :=
    [CCreate (NComp d (fst ix)); CWrite (NComp d (fst ix)) (CkSst (snd ix)); CSync (NComp d (fst ix))].

  (* SstMultiBuilder: the outputs, one after the other *)
  Lemma outputs_walk eo : forall k s X E P, Good s X -> covers E P X ->
    (forall j y, In (j, y) eo -> (k <= j)%nat) ->
    NoDup (map fst eo) ->
    walk (must (flat_map out_calls eo)) s E P
         (fun s' => Good s' X /\
                    (forall j y, In (j, y) eo -> lookup (NComp d j) s' = Some (mkFile [CkSst y] 1)) /\
                    (forall n, (forall j, In j (map fst eo) -> n <> NComp d j) -> lookup n s' = lookup n s)).
  Proof.
    induction eo as [|[i x] eo IH]; intros k s X E P Hg Hcv Hge Hnd.
    - cbn [flat_map must map]. apply walk_nil; [now apply (good_safe_c s X)|]. split; [exact Hg|]. split; [intros j y []|reflexivity].
    - cbn [flat_map]. rewrite must_app. apply walk_app_must.
      eapply walk_conseq; [|apply (tmp_block_c (NComp d i) (CkSst x) s X E P eq_refl Hg Hcv)].
      cbn beta. intros s1 (Hg1 & Ht1 & Ho1). cbn [map fst] in Hnd. inversion Hnd as [|? ? Hi Hnd']; subst.
      eapply walk_conseq; [|apply (IH k s1 X E P Hg1 Hcv); [intros j y Hj; apply (Hge j y); now right|exact Hnd']].
      cbn beta. intros s' (Hg' & Hl' & Ho'). split; [exact Hg'|]. split.
      + intros j y [H|H]; [|now apply Hl'].
        inversion H; subst j y. rewrite Ho'; [exact Ht1|]. intros j Hj E'. inversion E'; subst j. contradiction.
      + intros n Hn. rewrite Ho'; [apply Ho1|].
        * apply (Hn i). now left.
        * intros j Hj. apply Hn. now right.
  Qed.

  (* compaction_finish: hard_link every output into sst/; AlreadyExists is fine *)
  Lemma links_walk eo : forall s X E P rest (Q : fs -> Prop), Good s X -> covers E P X ->
    (forall j y, In (j, y) eo -> lookup (NComp d j) s = Some (mkFile [CkSst y] 1)) ->
    (forall s', Good s' X -> (forall j y, In (j, y) eo -> lookup (NSst y) s' <> None) ->
                (forall n, (forall y, n <> NSst y) -> lookup n s' = lookup n s) ->
                (forall y, lookup (NSst y) s <> None -> lookup (NSst y) s' <> None) ->
                walk rest s' E P Q) ->
    walk (map (fun ix => (CLink (NComp d (fst ix)) (NSst (snd ix)), Exist)) eo ++ rest) s E P Q.
  Proof.
    induction eo as [|[i x] eo IH]; intros s X E P rest Q Hg Hcv Hsrc Hrest.
    - cbn [map app]. apply Hrest; [exact Hg|intros j y []|reflexivity|auto].
    - cbn [map app fst snd]. apply walk_exist_cons; [now apply (good_safe_c s X)|].
      assert (Hsrc_i : lookup (NComp d i) s = Some (mkFile [CkSst x] 1)) by (apply Hsrc; now left).
      unfold exec_or. destruct (exec (CLink (NComp d i) (NSst x)) s) as [s1|] eqn:E1.
      + apply exec_link_inv in E1. destruct E1 as (f1 & L1 & N1 & ->). rewrite Hsrc_i in L1. inversion L1; subst f1. clear L1.
        set (s1 := set (NSst x) (mkFile [CkSst x] 1) s).
        assert (Hg1 : Good s1 X).
        { apply (good_add_sst s s1 x X); [apply wf_set, Hg| |exact Hg]. intros m _. unfold s1. now rewrite lookup_set. }
        apply (IH s1 X E P rest Q Hg1 Hcv).
        * intros j y Hj. unfold s1. rewrite lookup_set. cbn [name_eqb]. apply Hsrc. now right.
        * intros s' Hg' Hall Hoth Hmono. apply Hrest; [exact Hg'| | |].
          -- intros j y [H|H]; [|now apply (Hall j y)]. inversion H; subst j y.
             apply Hmono. unfold s1. rewrite lookup_set, name_eqb_refl. discriminate.
          -- intros n Hn. rewrite Hoth by exact Hn. unfold s1. rewrite lookup_set, name_eqb_neq; [reflexivity|apply Hn].
          -- intros y Hy. apply Hmono. unfold s1. rewrite lookup_set. destruct (name_eqb (NSst y) (NSst x)); [discriminate|exact Hy].
      + (* the link failed: the source is there, so the target exists already *)
        assert (Hx : lookup (NSst x) s <> None).
        { cbn [exec] in E1. rewrite Hsrc_i in E1. destruct (lookup (NSst x) s); [discriminate|discriminate]. }
        apply (IH s X E P rest Q Hg Hcv); [intros j y Hj; apply Hsrc; now right|].
        intros s' Hg' Hall Hoth Hmono. apply Hrest; [exact Hg'| |exact Hoth|exact Hmono].
        intros j y [H|H]; [|now apply (Hall j y)]. inversion H; subst j y. now apply Hmono.
  Qed.
End Compact.

(* install_version -> explicit_unref: the retired inputs go to trash/, errors ignored *)
Lemma trash_walk xs : forall s X E P rest (Q : fs -> Prop),
  Good s X -> covers E P X -> (forall x, In x xs -> ~ In x (mani_strs s)) ->
  (forall s', Good s' X -> mani_strs s' = mani_strs s -> (forall n, (forall y, n <> NSst y) -> relevant n = true -> lookup n s' = lookup n s) ->
              walk rest s' E P Q) ->
  walk (map (fun x => (CRename (NSst x) (NTrashSst x), Retire)) xs ++ rest) s E P Q.
Proof.
  induction xs as [|x xs IH]; intros s X E P rest Q Hg Hcv Hnl Hp.
  - cbn [map app]. apply Hp; [exact Hg|reflexivity|reflexivity].
  - cbn [map app].
    (* the rename is skipped (it fails by itself or by injection) *)
    assert (Hskip : walk (map (fun x => (CRename (NSst x) (NTrashSst x), Retire)) xs ++ rest) s E P Q)
      by (apply (IH s X E P rest Q Hg Hcv); [intros y Hy; apply Hnl; now right|exact Hp]).
    apply walk_retire_cons; [now apply (good_safe_c s X)| |exact (proj1 Hskip)].
    unfold exec_or. destruct (exec (CRename (NSst x) (NTrashSst x)) s) as [s1|] eqn:E1; [|exact Hskip].
    apply exec_rename_inv in E1. destruct E1 as (f1 & L1 & ->).
    set (s1 := set (NTrashSst x) f1 (remove (NSst x) s)).
    assert (Hu : upd_rel s s1 (NSst x) None).
    { intros m Hm. unfold s1. rewrite lookup_set, lookup_remove.
      destruct (name_eqb m (NTrashSst x)) eqn:En; [apply name_eqb_eq in En; subst m; discriminate|reflexivity]. }
    assert (Hw1 : wf s1) by (unfold s1; apply wf_set, wf_remove, Hg).
    assert (Hg1 : Good s1 X) by (apply (good_remove_sst s s1 x X Hw1 Hu); [apply Hnl; now left|exact Hg]).
    assert (Hstrs1 : mani_strs s1 = mani_strs s) by (apply (upd_rel_strs _ _ _ _ Hu); discriminate).
    apply (IH s1 X E P rest Q Hg1 Hcv).
    + intros y Hy. rewrite Hstrs1. apply Hnl. now right.
    + intros s' Hg' Hs' Hl'. apply Hp; [exact Hg'|congruence|].
      intros n Hn Hr. rewrite Hl' by assumption. apply (upd_rel_other _ _ _ _ n Hu Hr). apply Hn.
Qed.

Lemma if_must (b : bool) (cs : list call) : (if b then must cs else []) = must (if b then cs else []).
Proof. now destruct b. Qed.

Lemma enumerate_nodup {A} (l : list A) : forall k, NoDup (map fst (enumerate k l)).
Proof.
  induction l as [|x l IH]; intros k; cbn [enumerate map fst]; [constructor|].
  constructor; [|apply IH]. intros H. apply in_map_iff in H. destruct H as ([j y] & E & Hj). cbn in E. subst j.
  apply enumerate_ge in Hj. lia.
Qed.

Lemma late_length cs : length (late cs) = length cs.
Proof. induction cs as [|c cs IH]; cbn [late length]; [reflexivity|now rewrite IH]. Qed.

Lemma late_cleanup_like cs : Forall irrelevant_call cs -> cleanup_like (late cs).
Proof.
  induction 1 as [|c cs Hc _ IH]; cbn [late]; constructor; [|exact IH].
  right. right. split; [eexists; reflexivity|exact Hc].
Qed.

(* the clean-up of a merging compaction: a failing call ends it, the inputs are retired all the same *)
Lemma late_walk cs : forall s X E P rest (Q : fs -> Prop),
  Forall irrelevant_call cs -> Good s X -> covers E P X ->
  (forall s', Good s' X -> same_rel s s' -> walk rest s' E P Q) ->
  walk (late cs ++ rest) s E P Q.
Proof.
  induction cs as [|c cs IH]; intros s X E P rest Q Hall Hg Hcv Hrest.
  - cbn [late app]. apply Hrest; [exact Hg|apply same_rel_refl].
  - cbn [late app]. inversion Hall as [|? ? Hc Hcs]; subst.
    apply walk_late_cons; [now apply (good_safe_c s X)| |].
    + intros s' Hs'. apply (IH s' X E P rest Q Hcs); [eapply good_irrelevant; eauto|exact Hcv|].
      intros s'' Hg'' Hs''. apply Hrest; [exact Hg''|]. eapply same_rel_trans; [eapply exec_irrelevant; eauto|exact Hs''].
    + rewrite <- (late_length cs). apply psafe_skip_app; [now apply (good_safe_c s X)|].
      exact (proj1 (Hrest s Hg (same_rel_refl s))).
Qed.

Lemma entries_after_sub v gc ins outs : compact_ok v ins outs ->
  incl (all_entries (op_next v (OpCompact gc ins outs))) (all_entries v).
Proof.
  intros [Hincl Hsub] e. unfold all_entries. cbn [op_next v_mem v_files]. rewrite !in_app_iff, !in_concat.
  intros [H|(y & Hy & He)]; [now left|right]. rewrite in_apply_edit in Hy. destruct Hy as [[Hy _]|Hy]; [eauto|].
  assert (Hc : In e (concat ins)) by (apply Hsub, in_concat; eauto).
  apply in_concat in Hc. destruct Hc as (z & Hz & Hez). exists z. split; [now apply Hincl|exact Hez].
Qed.

(* a crash during a compaction leaves what the store held before it or what it holds after it; for
   a garbage collection the latter is less (base: the entries after; pending: the ones before) *)
Lemma compact_walk s v gc ins outs : Run s v -> compact_ok v ins outs ->
  walk (compact_prog gc ins outs s) s (all_entries (op_next v (OpCompact gc ins outs))) (Some (all_entries v))
       (fun s' => Run s' (op_next v (OpCompact gc ins outs))).
Proof.
  intros R Hok. pose proof (entries_after_sub v gc ins outs Hok) as Hsub. destruct Hok as [Hincl Hents].
  pose proof (run_good s v R) as Hg. destruct R as [Hw Hst Hs Hl Hstrs Hlogs Hcur].
  set (X := all_entries v) in *. set (E := all_entries (op_next v (OpCompact gc ins outs))) in *.
  set (P := Some X).
  assert (HcX : covers E P X).
  { apply (covers_set_eq E P (E ++ X)); [|apply covers_pend].
    intros e. rewrite in_app_iff. split; [intros [H|H]; [now apply Hsub|exact H]|now right]. }
  assert (HcE : covers E P E) by apply covers_refl.
  unfold compact_prog.
  set (d := sort_entries (concat ins)). set (eo := enumerate 0 outs). set (rl := filter (fun x => negb (mem_sname x outs)) ins).
  (* where every branch ends *)
  assert (Hfinal : forall s9, Good s9 E -> mani_strs s9 = apply_edit (v_files v) (CkEdit outs ins) ->
                     (forall n, lookup (NLog n) s9 = lookup (NLog n) s) -> Run s9 (op_next v (OpCompact gc ins outs))).
  { intros s9 [Hst9 (Hw9 & Hs9 & Hl9 & _)] Hstrs9 Hlog9.
    constructor; cbn [op_next v_files v_cur v_mem]; try assumption.
    - intros n. rewrite Hlog9. apply Hlogs.
    - destruct Hcur as (lf & Hlf & Hmem). exists lf. split; [now rewrite Hlog9|exact Hmem]. }
  assert (Hclean : Forall irrelevant_call (map (fun ix : nat * sname => CUnlink (NComp d (fst ix))) eo ++ [CRmdir (NCompDir d)])).
  { apply Forall_app. split; [|repeat constructor; intros n [<-|[]]; reflexivity].
    apply Forall_forall. intros c Hc. apply in_map_iff in Hc. destruct Hc as (ix & <- & _). intros n [<-|[]]. reflexivity. }
  (* A and B: the left-over directory, the fresh directory *)
  rewrite if_must. rewrite app_assoc, <- must_app.
  apply walk_app_must.
  eapply walk_conseq; [|apply (walk_irrelevant_c _ s X E P); [|exact Hg|exact HcX]].
  2:{ apply Forall_app. split; [|repeat constructor; intros n [<-|[]]; reflexivity].
      destruct (exists_name (NCompDir d) s); [|constructor].
      apply Forall_app. split; [|repeat constructor; intros n [<-|[]]; reflexivity].
      apply Forall_forall. intros c Hc. apply in_map_iff in Hc. destruct Hc as (n & <- & Hn).
      unfold comp_files in Hn. apply in_map_iff in Hn. destruct Hn as ([m f] & <- & Hm). apply filter_In in Hm.
      destruct Hm as [_ Hm]. cbn [fst] in *. intros n' [<-|[]]. destruct m; try discriminate. reflexivity. }
  cbn beta. intros s2 (_ & Hg2 & Hsame2).
  (* C: the outputs *)
  change (flat_map (fun ix : nat * sname => [CCreate (NComp d (fst ix)); CWrite (NComp d (fst ix)) (CkSst (snd ix)); CSync (NComp d (fst ix))]) eo)
    with (flat_map (out_calls d) eo).
  apply walk_app_must.
  eapply walk_conseq; [|apply (outputs_walk d eo 0%nat s2 X E P Hg2 HcX); [intros; lia|apply enumerate_nodup]].
  cbn beta. intros s3 (Hg3 & Hsrc3 & Ho3).
  assert (Hrel3 : forall n, relevant n = true -> lookup n s3 = lookup n s).
  { intros n Hn. rewrite Ho3; [now apply Hsame2|]. intros j _ ->. discriminate. }
  (* D: the links *)
  apply (links_walk d eo s3 X E P); [exact Hg3|exact HcX|exact Hsrc3|].
  intros s4 Hg4 Hall4 Ho4 Hmono4.
  assert (Hstrs4 : mani_strs s4 = v_files v).
  { rewrite <- Hstrs. unfold mani_strs, mani_edits. rewrite Ho4 by discriminate. now rewrite Hrel3. }
  assert (Hlog4 : forall n, lookup (NLog n) s4 = lookup (NLog n) s).
  { intros n. rewrite Ho4 by discriminate. now apply Hrel3. }
  (* E: the manifest edit *)
  cbn [app].
  apply (mani_block_defer outs ins None _ s4 X E E P); [|exact Hg4| | |exact HcX|exact HcE|].
  { assert (Hr : cleanup_like (map (fun x => (CRename (NSst x) (NTrashSst x), Retire)) rl))
      by (apply Forall_forall; intros cm Hcm; apply in_map_iff in Hcm; destruct Hcm as (x & <- & _); now left).
    assert (Hc : cleanup_like (must (map (fun ix : nat * sname => CUnlink (NComp d (fst ix))) eo ++ [CRmdir (NCompDir d)]))).
    { apply Forall_forall. intros cm Hcm. unfold must in Hcm. apply in_map_iff in Hcm. destruct Hcm as (c & <- & Hc).
      right. left. split; [reflexivity|]. rewrite Forall_forall in Hclean. now apply Hclean. }
    pose proof (late_cleanup_like _ Hclean) as Hcl.
    destruct gc; apply Forall_app; auto. }
  { intros x Hx. destruct (enumerate_in outs 0%nat x Hx) as (i & Hi). apply (Hall4 i x Hi). }
  { (* what the store holds after the edit: the memtable (the log) and the new set of tables *)
    intros e. rewrite Hstrs4. unfold E, all_entries. cbn [op_next v_mem v_files]. rewrite in_app_iff, in_concat.
    destruct Hcur as (lf & Hlf & Hmem). split.
    - intros [H|(y & Hy & He)]; [right|left; eauto].
      exists (v_cur v), lf. split; [now rewrite Hlog4|now rewrite Hmem].
    - intros [(y & Hy & He)|(n & f & Hn & He)]; [right; eauto|left].
      rewrite Hlog4 in Hn. assert (n = v_cur v) by (apply Hlogs; congruence). subst n.
      rewrite Hlf in Hn. inversion Hn; subst f. now rewrite <- Hmem. }
  intros s7 Hg7 Hstrs7 Ho7.
  assert (Hlog7 : forall n, lookup (NLog n) s7 = lookup (NLog n) s).
  { intros n. rewrite Ho7 by discriminate. apply Hlog4. }
  assert (Hret : forall x, In x rl -> ~ In x (mani_strs s7)).
  { intros x Hx. unfold rl in Hx. apply filter_In in Hx. destruct Hx as [Hxi Hxo].
    apply negb_true_iff, mem_sname_not_in in Hxo. rewrite Hstrs7, in_apply_edit. intros [[_ Hn]|Ho]; contradiction. }
  destruct gc.
  - (* garbage collection: the inputs are retired inside install_version, then the clean-up *)
    apply (trash_walk rl s7 E E P); [exact Hg7|exact HcE|exact Hret|].
    intros s8 Hg8 Hstrs8 Ho8.
    rewrite <- (app_nil_r (must _)). apply walk_app_must.
    eapply walk_conseq; [|apply walk_irrelevant; [exact Hclean|exact Hg8]].
    cbn beta. intros s9 (_ & Hg9 & Hsame9).
    apply walk_nil; [now apply good_safe|]. apply Hfinal; [exact Hg9| |].
    + rewrite (same_rel_strs _ _ Hsame9), Hstrs8, Hstrs7, Hstrs4. reflexivity.
    + intros n. rewrite (Hsame9 (NLog n) eq_refl), Ho8 by (try discriminate; reflexivity). apply Hlog7.
  - (* merge: the clean-up first; the snapshot held for the split hints retires the inputs last *)
    apply (late_walk _ s7 E E P); [exact Hclean|exact Hg7|exact HcE|].
    intros s8 Hg8 Hsame8.
    rewrite <- (app_nil_r (map _ rl)).
    apply (trash_walk rl s8 E E P); [exact Hg8|exact HcE|intros x Hx; rewrite (same_rel_strs _ _ Hsame8); now apply Hret|].
    intros s9 Hg9 Hstrs9 Ho9.
    apply walk_nil; [now apply good_safe|]. apply Hfinal; [exact Hg9| |].
    + rewrite Hstrs9, (same_rel_strs _ _ Hsame8), Hstrs7, Hstrs4. reflexivity.
    + intros n. rewrite Ho9 by (try discriminate; reflexivity). rewrite (Hsame8 (NLog n) eq_refl). apply Hlog7.
Qed.
