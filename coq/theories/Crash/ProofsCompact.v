(* Crash/ProofsCompact.v — a merging (or garbage-collecting) compaction walked call by call. *)
From Coq Require Import NArith List Bool Arith Lia Permutation.
From Blue Require Import Lsm.Model Lsm.KeyOrder Lsm.SortLemmas Crash.Model Crash.ProofsFs Crash.ProofsInv Crash.ProofsSteps Crash.ProofsOps.
Import ListNotations.
Open Scope N_scope.

(* which compactions the theorems cover: the inputs are live, and the outputs hold exactly the
   inputs' entries (a merge; garbage collection, which drops entries, is C05's subject) *)
Definition compact_ok (v : vstate) (ins outs : list sname) : Prop :=
  incl ins (v_files v) /\ forall e, In e (concat outs) <-> In e (concat ins).

Lemma enumerate_ge {A} (l : list A) : forall k j y, In (j, y) (enumerate k l) -> (k <= j)%nat.
Proof.
  induction l as [|x l IH]; intros k j y; cbn [enumerate]; [intros []|].
  intros [H|H]; [inversion H; lia|]. apply IH in H. lia.
Qed.

Lemma enumerate_in {A} (l : list A) : forall k x, In x l -> exists i, In (i, x) (enumerate k l).
Proof.
  induction l as [|y l IH]; intros k x; [intros []|]. cbn [enumerate]. intros [->|H].
  - exists k. now left.
  - destruct (IH (S k) x H) as (i & Hi). exists i. now right.
Qed.

Lemma enumerate_in_snd {A} (l : list A) : forall k i x, In (i, x) (enumerate k l) -> In x l.
Proof.
  induction l as [|y l IH]; intros k i x; cbn [enumerate]; [intros []|].
  intros [H|H]; [inversion H; now left|right; eapply IH; eauto].
Qed.

Section Compact.
  Variable d : sname.

  Definition out_calls (ix : nat * sname) : list call :=
    [CCreate (NComp d (fst ix)); CWrite (NComp d (fst ix)) (CkSst (snd ix)); CSync (NComp d (fst ix))].

  (* SstMultiBuilder: the outputs, one after the other *)
  Lemma outputs_walk eo : forall k s E P, Good s E ->
    (forall j y, In (j, y) eo -> (k <= j)%nat) ->
    NoDup (map fst eo) ->
    walk (must (flat_map out_calls eo)) s E P
         (fun s' => Good s' E /\
                    (forall j y, In (j, y) eo -> lookup (NComp d j) s' = Some (mkFile [CkSst y] 1)) /\
                    (forall n, (forall j, In j (map fst eo) -> n <> NComp d j) -> lookup n s' = lookup n s)).
  Proof.
    induction eo as [|[i x] eo IH]; intros k s E P Hg Hge Hnd.
    - cbn [flat_map must map]. apply walk_nil; [now apply good_safe|]. split; [exact Hg|]. split; [intros j y []|reflexivity].
    - cbn [flat_map]. rewrite must_app. apply walk_app_must.
      eapply walk_conseq; [|apply (tmp_block (NComp d i) (CkSst x) s E P eq_refl Hg)].
      cbn beta. intros s1 (Hg1 & Ht1 & Ho1). cbn [map fst] in Hnd. inversion Hnd as [|? ? Hi Hnd']; subst.
      eapply walk_conseq; [|apply (IH k s1 E P Hg1); [intros j y Hj; apply (Hge j y); now right|exact Hnd']].
      cbn beta. intros s' (Hg' & Hl' & Ho'). split; [exact Hg'|]. split.
      + intros j y [H|H]; [|now apply Hl'].
        inversion H; subst j y. rewrite Ho'; [exact Ht1|]. intros j Hj E'. inversion E'; subst j. contradiction.
      + intros n Hn. rewrite Ho'; [apply Ho1|].
        * apply (Hn i). now left.
        * intros j Hj. apply Hn. now right.
  Qed.

  (* compaction_finish: hard_link every output into sst/; AlreadyExists is fine *)
  Lemma links_walk eo : forall s E P rest (Q : fs -> Prop), Good s E ->
    (forall j y, In (j, y) eo -> lookup (NComp d j) s = Some (mkFile [CkSst y] 1)) ->
    (forall s', Good s' E -> (forall j y, In (j, y) eo -> lookup (NSst y) s' <> None) ->
                (forall n, (forall y, n <> NSst y) -> lookup n s' = lookup n s) ->
                (forall y, lookup (NSst y) s <> None -> lookup (NSst y) s' <> None) ->
                walk rest s' E P Q) ->
    walk (map (fun ix => (CLink (NComp d (fst ix)) (NSst (snd ix)), Exist)) eo ++ rest) s E P Q.
  Proof.
    induction eo as [|[i x] eo IH]; intros s E P rest Q Hg Hsrc Hrest.
    - cbn [map app]. apply Hrest; [exact Hg|intros j y []|reflexivity|auto].
    - cbn [map app fst snd]. apply walk_exist_cons; [now apply good_safe|].
      assert (Hsrc_i : lookup (NComp d i) s = Some (mkFile [CkSst x] 1)) by (apply Hsrc; now left).
      unfold exec_or. destruct (exec (CLink (NComp d i) (NSst x)) s) as [s1|] eqn:E1.
      + apply exec_link_inv in E1. destruct E1 as (f1 & L1 & N1 & ->). rewrite Hsrc_i in L1. inversion L1; subst f1. clear L1.
        set (s1 := set (NSst x) (mkFile [CkSst x] 1) s).
        assert (Hg1 : Good s1 E).
        { apply (good_add_sst s s1 x E); [apply wf_set, Hg| |exact Hg]. intros m _. unfold s1. now rewrite lookup_set. }
        apply (IH s1 E P rest Q Hg1).
        * intros j y Hj. unfold s1. rewrite lookup_set. cbn [name_eqb]. apply Hsrc. now right.
        * intros s' Hg' Hall Hoth Hmono. apply Hrest; [exact Hg'| | |].
          -- intros j y [H|H]; [|now apply (Hall j y)]. inversion H; subst j y.
             apply Hmono. unfold s1. rewrite lookup_set, name_eqb_refl. discriminate.
          -- intros n Hn. rewrite Hoth by exact Hn. unfold s1. rewrite lookup_set, name_eqb_neq; [reflexivity|apply Hn].
          -- intros y Hy. apply Hmono. unfold s1. rewrite lookup_set. destruct (name_eqb (NSst y) (NSst x)); [discriminate|exact Hy].
      + (* the link failed: the source is there, so the target exists already *)
        assert (Hx : lookup (NSst x) s <> None).
        { cbn [exec] in E1. rewrite Hsrc_i in E1. destruct (lookup (NSst x) s); [discriminate|discriminate]. }
        apply (IH s E P rest Q Hg); [intros j y Hj; apply Hsrc; now right|].
        intros s' Hg' Hall Hoth Hmono. apply Hrest; [exact Hg'| |exact Hoth|exact Hmono].
        intros j y [H|H]; [|now apply (Hall j y)]. inversion H; subst j y. now apply Hmono.
  Qed.
End Compact.

(* install_version -> explicit_unref: the retired inputs go to trash/, errors ignored *)
Lemma trash_walk xs : forall s E P rest (Q : fs -> Prop),
  Good s E -> (forall x, In x xs -> ~ In x (mani_strs s)) ->
  (forall s', Good s' E -> mani_strs s' = mani_strs s -> (forall n, (forall y, n <> NSst y) -> relevant n = true -> lookup n s' = lookup n s) ->
              walk rest s' E P Q) ->
  walk (map (fun x => (CRename (NSst x) (NTrashSst x), Retire)) xs ++ rest) s E P Q.
Proof.
  induction xs as [|x xs IH]; intros s E P rest Q Hg Hnl Hp.
  - cbn [map app]. apply Hp; [exact Hg|reflexivity|reflexivity].
  - cbn [map app].
    (* the rename is skipped (it fails by itself or by injection) *)
    assert (Hskip : walk (map (fun x => (CRename (NSst x) (NTrashSst x), Retire)) xs ++ rest) s E P Q)
      by (apply (IH s E P rest Q Hg); [intros y Hy; apply Hnl; now right|exact Hp]).
    apply walk_retire_cons; [now apply good_safe| |exact (proj1 Hskip)].
    unfold exec_or. destruct (exec (CRename (NSst x) (NTrashSst x)) s) as [s1|] eqn:E1; [|exact Hskip].
    apply exec_rename_inv in E1. destruct E1 as (f1 & L1 & ->).
    set (s1 := set (NTrashSst x) f1 (remove (NSst x) s)).
    assert (Hu : upd_rel s s1 (NSst x) None).
    { intros m Hm. unfold s1. rewrite lookup_set, lookup_remove.
      destruct (name_eqb m (NTrashSst x)) eqn:En; [apply name_eqb_eq in En; subst m; discriminate|reflexivity]. }
    assert (Hw1 : wf s1) by (unfold s1; apply wf_set, wf_remove, Hg).
    assert (Hg1 : Good s1 E) by (apply (good_remove_sst s s1 x E Hw1 Hu); [apply Hnl; now left|exact Hg]).
    assert (Hstrs1 : mani_strs s1 = mani_strs s) by (apply (upd_rel_strs _ _ _ _ Hu); discriminate).
    apply (IH s1 E P rest Q Hg1).
    + intros y Hy. rewrite Hstrs1. apply Hnl. now right.
    + intros s' Hg' Hs' Hl'. apply Hp; [exact Hg'|congruence|].
      intros n Hn Hr. rewrite Hl' by assumption. apply (upd_rel_other _ _ _ _ n Hu Hr). apply Hn.
Qed.

Lemma if_must (b : bool) (cs : list call) : (if b then must cs else []) = must (if b then cs else []).
Proof. now destruct b. Qed.

Lemma enumerate_nodup {A} (l : list A) : forall k, NoDup (map fst (enumerate k l)).
Proof.
  induction l as [|x l IH]; intros k; cbn [enumerate map fst]; [constructor|].
  constructor; [|apply IH]. intros H. apply in_map_iff in H. destruct H as ([j y] & E & Hj). cbn in E. subst j.
  apply enumerate_ge in Hj. lia.
Qed.

Lemma compact_walk s v gc ins outs : Run s v -> compact_ok v ins outs ->
  walk (compact_prog gc ins outs s) s (all_entries v) None (fun s' => Run s' (op_next v (OpCompact gc ins outs))).
Proof.
  intros R [Hincl Hents]. pose proof (run_good s v R) as Hg. destruct R as [Hw Hst Hs Hl Hstrs Hlogs Hcur].
  set (E := all_entries v) in *. unfold compact_prog.
  set (d := sort_entries (concat ins)). set (eo := enumerate 0 outs). set (rl := filter (fun x => negb (mem_sname x outs)) ins).
  (* where every branch ends *)
  assert (Hfinal : forall s9, Good s9 E -> mani_strs s9 = apply_edit (v_files v) (CkEdit outs ins) ->
                     (forall n, lookup (NLog n) s9 = lookup (NLog n) s) -> Run s9 (op_next v (OpCompact gc ins outs))).
  { intros s9 [Hst9 (Hw9 & Hs9 & Hl9 & _)] Hstrs9 Hlog9.
    constructor; cbn [op_next v_files v_cur v_mem]; try assumption.
    - intros n. rewrite Hlog9. apply Hlogs.
    - destruct Hcur as (lf & Hlf & Hmem). exists lf. split; [now rewrite Hlog9|exact Hmem]. }
  assert (Hclean : Forall irrelevant_call (map (fun ix : nat * sname => CUnlink (NComp d (fst ix))) eo ++ [CRmdir (NCompDir d)])).
  { apply Forall_app. split; [|repeat constructor; intros n [<-|[]]; reflexivity].
    apply Forall_forall. intros c Hc. apply in_map_iff in Hc. destruct Hc as (ix & <- & _). intros n [<-|[]]. reflexivity. }
  (* A and B: the left-over directory, the fresh directory *)
  rewrite if_must. rewrite app_assoc, <- must_app.
  apply walk_app_must.
  eapply walk_conseq; [|apply walk_irrelevant; [|exact Hg]].
  2:{ apply Forall_app. split; [|repeat constructor; intros n [<-|[]]; reflexivity].
      destruct (exists_name (NCompDir d) s); [|constructor].
      apply Forall_app. split; [|repeat constructor; intros n [<-|[]]; reflexivity].
      apply Forall_forall. intros c Hc. apply in_map_iff in Hc. destruct Hc as (n & <- & Hn).
      unfold comp_files in Hn. apply in_map_iff in Hn. destruct Hn as ([m f] & <- & Hm). apply filter_In in Hm.
      destruct Hm as [_ Hm]. cbn [fst] in *. intros n' [<-|[]]. destruct m; try discriminate. reflexivity. }
  cbn beta. intros s2 (_ & Hg2 & Hsame2).
  (* C: the outputs *)
  change (flat_map (fun ix : nat * sname => [CCreate (NComp d (fst ix)); CWrite (NComp d (fst ix)) (CkSst (snd ix)); CSync (NComp d (fst ix))]) eo)
    with (flat_map (out_calls d) eo).
  apply walk_app_must.
  eapply walk_conseq; [|apply (outputs_walk d eo 0%nat s2 E None Hg2); [intros; lia|apply enumerate_nodup]].
  cbn beta. intros s3 (Hg3 & Hsrc3 & Ho3).
  assert (Hrel3 : forall n, relevant n = true -> lookup n s3 = lookup n s).
  { intros n Hn. rewrite Ho3; [now apply Hsame2|]. intros j _ ->. discriminate. }
  (* D: the links *)
  apply links_walk; [exact Hg3|exact Hsrc3|].
  intros s4 Hg4 Hall4 Ho4 Hmono4.
  assert (Hstrs4 : mani_strs s4 = v_files v).
  { rewrite <- Hstrs. unfold mani_strs, mani_edits. rewrite Ho4 by discriminate. now rewrite Hrel3. }
  assert (Hlog4 : forall n, lookup (NLog n) s4 = lookup (NLog n) s).
  { intros n. rewrite Ho4 by discriminate. now apply Hrel3. }
  (* E: the manifest edit *)
  cbn [app].
  apply (mani_block_defer outs ins _ s4 E E None); [|exact Hg4| | |now left|].
  { assert (Hr : cleanup_like (map (fun x => (CRename (NSst x) (NTrashSst x), Retire)) rl))
      by (apply Forall_forall; intros cm Hcm; apply in_map_iff in Hcm; destruct Hcm as (x & <- & _); now left).
    assert (Hc : cleanup_like (must (map (fun ix : nat * sname => CUnlink (NComp d (fst ix))) eo ++ [CRmdir (NCompDir d)]))).
    { apply Forall_forall. intros cm Hcm. unfold must in Hcm. apply in_map_iff in Hcm. destruct Hcm as (c & <- & Hc).
      right. split; [reflexivity|]. rewrite Forall_forall in Hclean. now apply Hclean. }
    destruct gc; apply Forall_app; auto. }
  { intros x Hx. destruct (enumerate_in outs 0%nat x Hx) as (i & Hi). apply (Hall4 i x Hi). }
  { intros e. destruct Hg4 as [_ (_ & _ & _ & C)]. rewrite (C e), Hstrs4. split.
    - intros [(y & Hy & He)|H]; [|now right]. left.
      destruct (mem_sname y ins) eqn:Em.
      + apply mem_sname_in in Em.
        assert (Hc : In e (concat outs)) by (apply Hents, in_concat; eauto).
        apply in_concat in Hc. destruct Hc as (z & Hz & Hez). exists z. split; [|exact Hez]. rewrite in_apply_edit. now right.
      + apply mem_sname_not_in in Em. exists y. split; [|exact He]. rewrite in_apply_edit. left. auto.
    - intros [(y & Hy & He)|H]; [|now right]. left. rewrite in_apply_edit in Hy. destruct Hy as [[Hy _]|Hy]; [eauto|].
      assert (Hc : In e (concat ins)) by (apply Hents, in_concat; eauto).
      apply in_concat in Hc. destruct Hc as (z & Hz & Hez). exists z. split; [now apply Hincl|exact Hez]. }
  intros s7 Hg7 Hstrs7 Ho7.
  assert (Hlog7 : forall n, lookup (NLog n) s7 = lookup (NLog n) s).
  { intros n. rewrite Ho7 by discriminate. apply Hlog4. }
  assert (Hret : forall x, In x rl -> ~ In x (mani_strs s7)).
  { intros x Hx. unfold rl in Hx. apply filter_In in Hx. destruct Hx as [Hxi Hxo].
    apply negb_true_iff, mem_sname_not_in in Hxo. rewrite Hstrs7, in_apply_edit. intros [[_ Hn]|Ho]; contradiction. }
  destruct gc.
  - (* garbage collection: the inputs are retired inside install_version, then the clean-up *)
    apply trash_walk; [exact Hg7|exact Hret|].
    intros s8 Hg8 Hstrs8 Ho8.
    rewrite <- (app_nil_r (must _)). apply walk_app_must.
    eapply walk_conseq; [|apply walk_irrelevant; [exact Hclean|exact Hg8]].
    cbn beta. intros s9 (_ & Hg9 & Hsame9).
    apply walk_nil; [now apply good_safe|]. apply Hfinal; [exact Hg9| |].
    + rewrite (same_rel_strs _ _ Hsame9), Hstrs8, Hstrs7, Hstrs4. reflexivity.
    + intros n. rewrite (Hsame9 (NLog n) eq_refl), Ho8 by (try discriminate; reflexivity). apply Hlog7.
  - (* merge: the clean-up first; the snapshot held for the split hints retires the inputs last *)
    apply walk_app_must.
    eapply walk_conseq; [|apply walk_irrelevant; [exact Hclean|exact Hg7]].
    cbn beta. intros s8 (_ & Hg8 & Hsame8).
    rewrite <- (app_nil_r (map _ rl)).
    apply trash_walk; [exact Hg8|intros x Hx; rewrite (same_rel_strs _ _ Hsame8); now apply Hret|].
    intros s9 Hg9 Hstrs9 Ho9.
    apply walk_nil; [now apply good_safe|]. apply Hfinal; [exact Hg9| |].
    + rewrite Hstrs9, (same_rel_strs _ _ Hsame8), Hstrs7, Hstrs4. reflexivity.
    + intros n. rewrite Ho9 by (try discriminate; reflexivity). rewrite (Hsame8 (NLog n) eq_refl). apply Hlog7.
Qed.
