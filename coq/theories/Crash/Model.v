(* Crash/Model.v — executable model of what lsmtk's KeyValueStore does to its directory:
   every store operation as the sequence of file-system mutating calls it issues, over a small
   file-system model with durable prefixes (the shape of Mani/Fs.v, generalised to the names lsmtk
   uses and to whole write() calls as the unit of data).  Definitions only (no proofs).

   Transcribed from (control flow and ORDER OF EFFECTS, function by function):
     lsmtk/src/kvs/mod.rs   KeyValueStore::{open, recover, recover_one, write, _memtable_thread}
     lsmtk/src/tree/mod.rs  LsmTree::{from_manifest, cleanup_orphans, _ingest, apply_manifest_ingest,
                            perform_compaction, compaction_setup, compaction_finish,
                            apply_manifest_compaction, install_version/explicit_unref}
     lsmtk/src/lib.rs       make_all_dirs / ensure_dir and the path helpers
     sst/src/log.rs         ConcurrentLogBuilder::append (write, then fdatasync), log_to_builder
     sst/src/lib.rs         SstBuilder::{new (O_CREAT|O_EXCL), seal (write.., sync_all)}, SstMultiBuilder
     mani/src/lib.rs        Manifest::_apply (open-append, ONE write of the edit, sync_data)

   Granularity and what is abstracted (named in the evidence):
   * a file is the list of the buffers written to it by whole write() calls (`chunk`s) plus the
     number of leading chunks known durable (everything up to the last fsync/fdatasync).  The
     byte formats of the three file types are the subject of C10 (SST), C12 (log), C13 (manifest).
   * an SST is named by its setsum; here the name IS the (sorted) entry list, i.e. setsum
     collisions between the files of one history are excluded by construction.
   * the manifest is ONE append-only file of edits; Manifest::rollover and the backup fragments are
     C13's subject (they never change the state a reopen reads) and are left out of the call
     lists, as are the LOCKFILE and the I/O/D setsum infos (C04).
   * a hard link is a copy of the file record: no operation writes to or syncs a file after it has
     been linked (visible in the call lists below), so sharing is unobservable.
   * OS semantics assumed: completed calls are atomic and ordered; create / link / unlink / rename
     / mkdir / rmdir are durable on return; file data is durable up to the last successful sync.
   * single-stepped execution: one operation at a time (histories as in C01). *)
From Coq Require Import NArith List Bool Arith.
From Blue Require Import Lsm.Model.
Import ListNotations.
Open Scope N_scope.

(* ------------------------------------------------------------------ names *)
Definition sname := list entry.

Inductive name :=
| NDir (k : N)                       (* 0 root, 1 verify, 2 sst, 3 compaction, 4 trash, 5 ingest, 6 tmp, 7 mani *)
| NMani                              (* mani/MANIFEST *)
| NLog (n : N)                       (* log.<n> *)
| NSst (x : sname)                   (* sst/<setsum>.sst *)
| NTmp (x : sname)                   (* tmp/<setsum>.sst : output of a memtable flush *)
| NTmpLog (n : N)                    (* tmp/log.<n>.sst : output of a log replay *)
| NCompDir (d : sname)               (* compaction/<sum of the inputs' setsums>/ : named by ALL the
                                        entries of the inputs (a setsum is a sum over entries, so two
                                        input sets holding the same entries share the directory) *)
| NComp (d : sname) (i : nat)        (* compaction/<sum of inputs>/<i>.sst *)
| NTrashLog (n : N)                  (* trash/log.<n> *)
| NTrashSst (x : sname).             (* trash/<setsum>.sst *)

Definition opt_eqb (a b : option (list N)) : bool :=
  match a, b with
  | None, None => true
  | Some p, Some q => key_eqb p q
  | _, _ => false
  end.
Definition ent_eqb (a b : entry) : bool := key_eqb (ek a) (ek b) && (ets a =? ets b) && opt_eqb (ev a) (ev b).
Fixpoint sname_eqb (a b : sname) : bool :=
  match a, b with
  | [], [] => true
  | x :: a', y :: b' => ent_eqb x y && sname_eqb a' b'
  | _, _ => false
  end.
Fixpoint snames_eqb (a b : list sname) : bool :=
  match a, b with
  | [], [] => true
  | x :: a', y :: b' => sname_eqb x y && snames_eqb a' b'
  | _, _ => false
  end.

Definition name_eqb (a b : name) : bool :=
  match a, b with
  | NDir x, NDir y => x =? y
  | NMani, NMani => true
  | NLog x, NLog y => x =? y
  | NSst x, NSst y => sname_eqb x y
  | NTmp x, NTmp y => sname_eqb x y
  | NTmpLog x, NTmpLog y => x =? y
  | NCompDir x, NCompDir y => sname_eqb x y
  | NComp x i, NComp y j => sname_eqb x y && Nat.eqb i j
  | NTrashLog x, NTrashLog y => x =? y
  | NTrashSst x, NTrashSst y => sname_eqb x y
  | _, _ => false
  end.

(* ------------------------------------------------------------------ files *)
(* one buffer handed to one write() call *)
Inductive chunk :=
| CkLog (es : list entry)            (* a log record: the entries of a whole number of batches *)
| CkSst (es : list entry)            (* (a piece of) an SST *)
| CkEditL (add rm : list sname) (l : option N).   (* one manifest edit: +add, -rm, and (a flush) info L = the
                                                     number of the log the flush made redundant *)
Notation CkEdit add rm := (CkEditL add rm None).

Record file := mkFile { f_data : list chunk; f_dur : nat }.

Definition fs := list (name * file).

Fixpoint lookup (n : name) (s : fs) : option file :=
  match s with
  | [] => None
  | (m, f) :: s' => if name_eqb n m then Some f else lookup n s'
  end.

Fixpoint remove (n : name) (s : fs) : fs :=
  match s with
  | [] => []
  | (m, f) :: s' => if name_eqb n m then remove n s' else (m, f) :: remove n s'
  end.

Definition set (n : name) (f : file) (s : fs) : fs := (n, f) :: remove n s.

Definition exists_name (n : name) (s : fs) : bool :=
  match lookup n s with Some _ => true | None => false end.

(* the files inside compaction/<d>/ *)
Definition in_comp_dir (d : sname) (n : name) : bool :=
  match n with NComp d' _ => sname_eqb d d' | _ => false end.
Definition comp_files (d : sname) (s : fs) : list name :=
  map fst (filter (fun p => in_comp_dir d (fst p)) s).

(* ------------------------------------------------------------------ system calls *)
Inductive call :=
| CMkdir (d : name)
| CRmdir (d : name)
| CCreate (f : name)                 (* open(O_CREAT|O_EXCL) *)
| COpenAppend (f : name)             (* open(O_CREAT|O_APPEND) *)
| CWrite (f : name) (c : chunk)
| CSync (f : name)                   (* fsync / fdatasync *)
| CLink (src dst : name)
| CUnlink (f : name)
| CRename (src dst : name).

Definition empty_file : file := mkFile [] 0.

(* None = the call fails (ENOENT / EEXIST / ENOTEMPTY) *)
Definition exec (c : call) (s : fs) : option fs :=
  match c with
  | CMkdir d => match lookup d s with Some _ => None | None => Some (set d empty_file s) end
  | CRmdir d =>
      match lookup d s with
      | None => None
      | Some _ =>
          match d with
          | NCompDir d' => match comp_files d' s with [] => Some (remove d s) | _ => None end
          | _ => Some (remove d s)
          end
      end
  | CCreate f => match lookup f s with Some _ => None | None => Some (set f empty_file s) end
  | COpenAppend f => match lookup f s with Some _ => Some s | None => Some (set f empty_file s) end
  | CWrite f c =>
      match lookup f s with
      | Some fl => Some (set f (mkFile (f_data fl ++ [c]) (f_dur fl)) s)
      | None => None
      end
  | CSync f =>
      match lookup f s with
      | Some fl => Some (set f (mkFile (f_data fl) (length (f_data fl))) s)
      | None => None
      end
  | CLink src dst =>
      match lookup src s, lookup dst s with
      | Some fl, None => Some (set dst fl s)
      | _, _ => None
      end
  | CUnlink f => match lookup f s with Some _ => Some (remove f s) | None => None end
  | CRename src dst =>
      match lookup src s with
      | Some fl => Some (set dst fl (remove src s))
      | None => None
      end
  end.

Definition exec_or (c : call) (s : fs) : fs := match exec c s with Some s' => s' | None => s end.

(* replay a call sequence; a call that fails changes nothing (it was attempted) *)
Fixpoint replay (cs : list call) (s : fs) : fs :=
  match cs with
  | [] => s
  | c :: cs' => replay cs' (exec_or c s)
  end.

(* ------------------------------------------------------------------ crash images *)
(* a file after the machine went down: it keeps k of its chunks; afterwards all of it is durable *)
Definition cut_file (k : nat) (f : file) : file := mkFile (firstn k (f_data f)) k.

(* every file independently keeps a prefix of its write() calls that covers the synced ones.
   Crash model (a) (process death) keeps everything; crash model (b) (power loss, as the property
   words it) keeps exactly the synced prefix; the relation covers both and everything between. *)
Inductive cut : fs -> fs -> Prop :=
| cut_nil : cut [] []
| cut_cons n f k s s' :
    (Nat.min (f_dur f) (length (f_data f)) <= k <= length (f_data f))%nat ->
    cut s s' -> cut ((n, f) :: s) ((n, cut_file k f) :: s').

Definition image_a (s : fs) : fs := map (fun p => (fst p, cut_file (length (f_data (snd p))) (snd p))) s.
Definition image_b (s : fs) : fs :=
  map (fun p => (fst p, cut_file (Nat.min (f_dur (snd p)) (length (f_data (snd p)))) (snd p))) s.

(* ------------------------------------------------------------------ reading files *)
Definition chunk_log (c : chunk) : list entry := match c with CkLog es => es | _ => [] end.
Definition chunk_sst (c : chunk) : list entry := match c with CkSst es => es | _ => [] end.
Definition file_log_entries (f : file) : list entry := flat_map chunk_log (f_data f).
Definition file_sst_entries (f : file) : list entry := flat_map chunk_sst (f_data f).

Definition mem_sname (x : sname) (l : list sname) : bool := existsb (sname_eqb x) l.
Definition add_sname (l : list sname) (x : sname) : list sname := if mem_sname x l then l else l ++ [x].

(* Manifest::apply_edit: removals first, then additions (a name both removed and added stays) *)
Definition apply_edit (strs : list sname) (c : chunk) : list sname :=
  match c with
  | CkEditL add rm _ => fold_left add_sname add (filter (fun x => negb (mem_sname x rm)) strs)
  | _ => strs
  end.

Definition mani_edits (s : fs) : list chunk :=
  match lookup NMani s with Some f => f_data f | None => [] end.
(* Manifest::info('L'): the last value an edit set; 0 when none did *)
Definition mani_L (s : fs) : N :=
  fold_left (fun acc c => match c with CkEditL _ _ (Some l) => l | _ => acc end) (mani_edits s) 0.
Definition strs_of (edits : list chunk) : list sname := fold_left apply_edit edits [].
Definition mani_strs (s : fs) : list sname := strs_of (mani_edits s).

(* read_dir of the root, parse_log_file, numbers.sort() *)
Fixpoint insert_n (x : N) (l : list N) : list N :=
  match l with
  | [] => [x]
  | y :: l' => if x <=? y then x :: l else y :: insert_n x l'
  end.
Fixpoint log_numbers_raw (s : fs) : list N :=
  match s with
  | [] => []
  | (NLog n, _) :: s' => n :: log_numbers_raw s'
  | _ :: s' => log_numbers_raw s'
  end.
Definition log_numbers (s : fs) : list N := fold_right insert_n [] (log_numbers_raw s).

Definition max_ts (es : list entry) : N := fold_right (fun e m => N.max (ets e) m) 0 es.

(* ------------------------------------------------------------------ programs *)
(* what the Rust does with the result of a call:
     Must     `?`            : an error ends the operation with Err
     Ignore   `let _ = ..`   : an error is dropped
     Retire   `let _ = rename(sst, trash)` inside install_version/explicit_unref: as Ignore, but not
                               issued at all when the manifest edit before it failed (the old
                               version stays current, nothing is retired)
     Exist    hard_link whose AlreadyExists is tolerated: failing because the target exists is
                               fine, any other (injected) error ends the operation with Err
     Defer n  `let ret = ..` : the error is kept and returned at the end, the next n calls (the
                               rest of the manifest edit in compaction_finish) are skipped, the
                               clean-up still runs *)
Inductive mode := Must | Ignore | Retire | Exist | Defer (n : nat) | Late (n : nat).
Definition prog := list (call * mode).
Definition must (cs : list call) : prog := map (fun c => (c, Must)) cs.
Definition calls_of (p : prog) : list call := map fst p.

Inductive err := EIo | EDuplicate | ELate.

(* the inputs of a compaction are retired (`Retire`) unless the manifest edit failed (a deferred
   EIo: the new version was never installed); an error of the clean-up after the edit (`Late`) is
   kept as ELate - the rest of the clean-up is skipped, the inputs are still retired *)
Definition retire_suppressed (m : mode) (deferred : option err) : bool :=
  match m, deferred with
  | Retire, Some EIo => true
  | Retire, Some EDuplicate => true
  | _, _ => false
  end.
Definition late_err (deferred : option err) : err := match deferred with Some e => e | None => ELate end.

(* run a program; `fault = Some k`: the k-th call from here (0-based) fails with an I/O error.
   Result: the directory afterwards and the error returned, if any. *)
Fixpoint run_prog (p : prog) (fault : option nat) (skip : nat) (s : fs) (deferred : option err) : fs * option err :=
  match p with
  | [] => (s, deferred)
  | (c, m) :: p' =>
      match skip with
      | S k => run_prog p' fault k s deferred          (* not issued *)
      | O =>
          if retire_suppressed m deferred then run_prog p' fault O s deferred      (* not issued *)
          else
            let injected := match fault with Some O => true | _ => false end in
            let fault' := match fault with Some (S k) => Some k | _ => None end in
            match (if injected then None else exec c s) with
            | Some s' => run_prog p' fault' O s' deferred
            | None =>
                match m with
                | Must => (s, Some EIo)
                | Ignore => run_prog p' fault' O s deferred
                | Retire => run_prog p' fault' O s deferred
                | Exist => if injected then (s, Some EIo) else run_prog p' fault' O s deferred
                | Defer n => run_prog p' fault' n s (Some EIo)
                | Late n => run_prog p' fault' n s (Some (late_err deferred))
                end
            end
      end
  end.

(* the calls such a run issues, in order (the one the error is injected into included) *)
Fixpoint issued (p : prog) (fault : option nat) (skip : nat) (s : fs) (deferred : option err) : list call :=
  match p with
  | [] => []
  | (c, m) :: p' =>
      match skip with
      | S k => issued p' fault k s deferred
      | O =>
          if retire_suppressed m deferred then issued p' fault O s deferred
          else
            let injected := match fault with Some O => true | _ => false end in
            let fault' := match fault with Some (S k) => Some k | _ => None end in
            c :: match (if injected then None else exec c s) with
                 | Some s' => issued p' fault' O s' deferred
                 | None =>
                     match m with
                     | Must => []
                     | Ignore => issued p' fault' O s deferred
                     | Retire => issued p' fault' O s deferred
                     | Exist => if injected then [] else issued p' fault' O s deferred
                     | Defer n => issued p' fault' n s (Some EIo)
                     | Late n => issued p' fault' n s (Some (late_err deferred))
                     end
                 end
      end
  end.

(* the directory after the first k calls of a fault-free run: the crash points of an operation *)
Definition prefix_state (p : prog) (k : nat) (s : fs) : fs := fst (run_prog (firstn k p) None O s None).

(* Manifest::apply(edit) = _apply: OpenOptions::create(true).append(true), write_all of the whole
   edit text, sync_data *)
Definition mani_apply (e : chunk) : list call := [COpenAppend NMani; CWrite NMani e; CSync NMani].

(* ------------------------------------------------------------------ the running store *)
(* volatile state: the memtable (in log order, oldest first), the live SSTs (the manifest's strs
   = the version's setsums), state.seq_no, and the number of the active log (mem_path) *)
Record vstate := mkV { v_mem : list entry; v_files : list sname; v_seq : N; v_cur : N }.

Definition all_entries (v : vstate) : list entry := v_mem v ++ concat (v_files v).

Inductive op :=
| OpWrite (b : list (key * option (list N)))       (* put / del / write(batch): ONE sequence number *)
| OpFlush                                          (* rollover + one iteration of _memtable_thread *)
| OpCompact (gc : bool) (ins outs : list sname).   (* perform_compaction (gc = false) or
                                                      perform_garbage_collection (gc = true: the upper
                                                      level is the last one) with >= 2 inputs; a trivial
                                                      move touches nothing on disk (apply_moving_compaction) *)

Definition batch_entries (v : vstate) (b : list (key * option (list N))) : list entry :=
  map (fun kv => mkE (fst kv) (v_seq v + 1) (snd kv)) b.

Fixpoint enumerate {A} (i : nat) (l : list A) : list (nat * A) :=
  match l with [] => [] | x :: r => (i, x) :: enumerate (S i) r end.

(* KeyValueStore::write: log.append = one write() of the framed batch, then fdatasync; only then
   the memtable insert and the return *)
Definition write_prog (v : vstate) (b : list (key * option (list N))) : prog :=
  must [CWrite (NLog (v_cur v)) (CkLog (batch_entries v b)); CSync (NLog (v_cur v))].

(* _memtable_thread, one iteration: new log log.<seq_no> (create_new); build tmp/<setsum>.sst
   (create_new, writes, sync_all); _ingest: target.exists() -> duplicate-sst, hard_link into sst/,
   manifest edit (+setsum, info L); remove_file(tmp); rename(log, trash/log) *)
Definition flush_prog (v : vstate) (s : fs) : prog * bool :=
  let x := sort_entries (v_mem v) in
  let p1 := [CCreate (NLog (v_seq v)); CCreate (NTmp x); CWrite (NTmp x) (CkSst x); CSync (NTmp x)] in
  if exists_name (NSst x) s then (must p1, false)
  else (must (p1 ++ [CLink (NTmp x) (NSst x)] ++ mani_apply (CkEditL [x] [] (Some (v_cur v))) ++
              [CUnlink (NTmp x); CRename (NLog (v_cur v)) (NTrashLog (v_cur v))]), true).

Fixpoint late (cs : list call) : prog :=
  match cs with [] => [] | c :: r => (c, Late (length r)) :: late r end.

(* perform_compaction / perform_garbage_collection: compaction_setup (remove_dir_all of a left-over
   directory, create_dir), SstMultiBuilder (each output: create_new, writes, sync_all, in turn),
   compaction_finish: hard_link every output into sst/ (AlreadyExists tolerated), [balance check],
   manifest edit (-inputs +outputs), remove_file every output, remove_dir.  The inputs that are no
   longer referenced are renamed to trash/ (errors ignored) by explicit_unref of the old version:
   in perform_garbage_collection that happens inside install_version, i.e. right after the manifest
   edit; perform_compaction still holds a snapshot of the old version (for its split hints) until
   it returns, so there it happens last. *)
Definition compact_prog (gc : bool) (ins outs : list sname) (s : fs) : prog :=
  let d := sort_entries (concat ins) in
  let eo := enumerate 0 outs in
  let retire := map (fun x => (CRename (NSst x) (NTrashSst x), Retire)) (filter (fun x => negb (mem_sname x outs)) ins) in
  let cleanup_calls := map (fun ix => CUnlink (NComp d (fst ix))) eo ++ [CRmdir (NCompDir d)] in
  (if exists_name (NCompDir d) s
   then must (map CUnlink (comp_files d s) ++ [CRmdir (NCompDir d)]) else []) ++
  must [CMkdir (NCompDir d)] ++
  must (flat_map (fun ix => [CCreate (NComp d (fst ix)); CWrite (NComp d (fst ix)) (CkSst (snd ix)); CSync (NComp d (fst ix))]) eo) ++
  (* a link onto an existing sst/<setsum> fails with EEXIST, which is tolerated *)
  map (fun ix => (CLink (NComp d (fst ix)) (NSst (snd ix)), Exist)) eo ++
  [(COpenAppend NMani, Defer 2); (CWrite NMani (CkEdit outs ins), Defer 1); (CSync NMani, Defer 0)] ++
  (* a failing clean-up call ends the clean-up; perform_compaction then drops its snapshot of the
     old version, which retires the inputs all the same *)
  (if gc then retire ++ must cleanup_calls else late cleanup_calls ++ retire).

Definition op_prog (v : vstate) (s : fs) (o : op) : prog * bool :=
  match o with
  | OpWrite b => (write_prog v b, true)
  | OpFlush => flush_prog v s
  | OpCompact gc ins outs => (compact_prog gc ins outs s, true)
  end.

Definition op_next (v : vstate) (o : op) : vstate :=
  match o with
  | OpWrite b => mkV (v_mem v ++ batch_entries v b) (v_files v) (v_seq v + 1) (v_cur v)
  | OpFlush => mkV [] (apply_edit (v_files v) (CkEdit [sort_entries (v_mem v)] [])) (v_seq v + 1) (v_seq v)
  | OpCompact _ ins outs => mkV (v_mem v) (apply_edit (v_files v) (CkEdit outs ins)) (v_seq v) (v_cur v)
  end.

(* ------------------------------------------------------------------ what a reader sees; which steps the theorems take *)
(* the newest version of a key among a list of entries, and what it reads as *)
Fixpoint newest (E : list entry) (k : key) : option entry :=
  match E with
  | [] => None
  | e :: r => if key_eqb (ek e) k
              then match newest r k with Some b => if ets e <? ets b then Some b else Some e | None => Some e end
              else newest r k
  end.
Definition vis (E : list entry) (k : key) : option (list N) := shown (newest E k).

Fixpoint keys_nodupb (ks : list key) : bool :=
  match ks with [] => true | k :: r => negb (existsb (key_eqb k) r) && keys_nodupb r end.
Definition mem_ent (e : entry) (l : list entry) : bool := existsb (ent_eqb e) l.
Definition compact_okb (v : vstate) (ins outs : list sname) : bool :=
  forallb (fun x => mem_sname x (v_files v)) ins && forallb (fun e => mem_ent e (concat ins)) (concat outs).

(* the executable form of ProofsLts.accepted: the driver evaluates it on every step *)
Definition acceptedb (v : vstate) (o : op) : bool :=
  match o with
  | OpWrite b => keys_nodupb (map fst b)
  | OpFlush => true
  | OpCompact gc ins outs =>
      compact_okb v ins outs &&
      forallb (fun e => opt_eqb (vis (all_entries (op_next v o)) (ek e)) (vis (all_entries v) (ek e))) (all_entries v)
  end.

(* ------------------------------------------------------------------ going on after an error *)
(* the volatile state after an operation returned an error without having changed a file recovery
   reads: a write has consumed its sequence number, nothing else moved *)
Definition fault_next (v : vstate) (o : op) : vstate :=
  match o with
  | OpWrite _ => mkV (v_mem v) (v_files v) (v_seq v + 1) (v_cur v)
  | _ => v
  end.

(* what the driver tracks on top: has the current log failed (FailStop / poison: every later append
   is refused before a byte is written), has the memtable thread died (every later flush is
   refused), has a call on the manifest failed (poisoned: the model does not follow flushes and
   compactions any further) *)
Record xstate := mkX { x_v : vstate; x_log_ok : bool; x_flush_ok : bool; x_mani_ok : bool }.

(* the calls of the next operation; None: outside what the model continues (a flush while the log
   has failed rolls over to a new log and then dies sealing the old one; a poisoned manifest) *)
Definition xop_prog (x : xstate) (s : fs) (o : op) : option (prog * bool) :=
  match o with
  | OpWrite _ => if x_log_ok x then Some (op_prog (x_v x) s o) else Some ([], false)
  | OpFlush => if x_flush_ok x
               then (if x_log_ok x && x_mani_ok x then Some (op_prog (x_v x) s o) else None)
               else Some ([], false)
  | OpCompact _ _ _ => if x_mani_ok x then Some (op_prog (x_v x) s o) else None
  end.

Definition xnext_ok (x : xstate) (o : op) : xstate := mkX (op_next (x_v x) o) (x_log_ok x) (x_flush_ok x) (x_mani_ok x).
(* hit_mani: the failing call was one on the manifest *)
Definition hits_mani (p : prog) (k : nat) : bool :=
  match nth_error p k with
  | Some (COpenAppend NMani, _) | Some (CWrite NMani _, _) | Some (CSync NMani, _) => true
  | _ => false
  end.
Definition xnext_err (x : xstate) (o : op) (hit_mani : bool) : xstate :=
  match o with
  | OpWrite _ => mkX (fault_next (x_v x) o) false (x_flush_ok x) (x_mani_ok x)
  | OpFlush => mkX (x_v x) (x_log_ok x) false (x_mani_ok x && negb hit_mani)
  | OpCompact _ _ _ => mkX (x_v x) (x_log_ok x) (x_flush_ok x) (x_mani_ok x && negb hit_mani)
  end.

(* the names recovery reads *)
Definition relevant (n : name) : bool :=
  match n with NMani | NLog _ | NSst _ => true | _ => false end.

(* did an error leave every file recovery reads as it was?  (decides whether the model goes on) *)
Definition optn_eqb (a b : option N) : bool :=
  match a, b with None, None => true | Some x, Some y => x =? y | _, _ => false end.
Definition chunk_eqb (a b : chunk) : bool :=
  match a, b with
  | CkLog x, CkLog y => sname_eqb x y
  | CkSst x, CkSst y => sname_eqb x y
  | CkEditL a1 r1 l1, CkEditL a2 r2 l2 => snames_eqb a1 a2 && snames_eqb r1 r2 && optn_eqb l1 l2
  | _, _ => false
  end.
Definition file_eqb (a b : option file) : bool :=
  match a, b with
  | None, None => true
  | Some f, Some g => Nat.eqb (f_dur f) (f_dur g) && Nat.eqb (length (f_data f)) (length (f_data g)) &&
                      forallb (fun cd => chunk_eqb (fst cd) (snd cd)) (combine (f_data f) (f_data g))
  | _, _ => false
  end.
Definition same_relb (s s' : fs) : bool :=
  forallb (fun n => negb (relevant n) || file_eqb (lookup n s) (lookup n s')) (map fst s ++ map fst s').

(* ------------------------------------------------------------------ KeyValueStore::open *)
(* ensure_dir: create_dir unless it is there *)
Definition ensure_dirs (ks : list N) (s : fs) : list call :=
  flat_map (fun k => if exists_name (NDir k) s then [] else [CMkdir (NDir k)]) ks.

(* recover_one: remove a stale tmp/log.N.sst, SstBuilder::new on it, log_to_builder; an empty log
   goes to trash at once; otherwise seal (sync_all), link into sst/ unless it exists, manifest add
   unless it is listed, remove the tmp file, rename the log to trash *)
Definition recover_one_calls (n : N) (s : fs) (strs : list sname) : list call :=
  let out := NTmpLog n in
  let es := match lookup (NLog n) s with Some f => file_log_entries f | None => [] end in
  (if exists_name out s then [CUnlink out] else []) ++ [CCreate out] ++
  match es with
  | [] => [CRename (NLog n) (NTrashLog n)]
  | _ =>
      let x := sort_entries es in
      [CWrite out (CkSst x); CSync out] ++
      (if exists_name (NSst x) s then [] else [CLink out (NSst x)]) ++
      (if mem_sname x strs then [] else mani_apply (CkEdit [x] [])) ++
      [CUnlink out; CRename (NLog n) (NTrashLog n)]
  end.

(* recover: the logs in ascending number; returns the calls and the largest timestamp replayed *)
Fixpoint recover_calls (ns : list N) (s : fs) : list call * N :=
  match ns with
  | [] => ([], 0)
  | n :: ns' =>
      let cs := recover_one_calls n s (mani_strs s) in
      let es := match lookup (NLog n) s with Some f => file_log_entries f | None => [] end in
      let s' := replay cs s in
      let (rest, m) := recover_calls ns' s' in
      (cs ++ rest, N.max (max_ts es) m)
  end.

(* cleanup_orphans: names removed by some edit (the first edit of the file is skipped) and not
   added again later; each is renamed to trash/ if sst/<x> exists and trash/<x> does not *)
Fixpoint removed_not_readded (edits : list chunk) (acc : list sname) : list sname :=
  match edits with
  | [] => acc
  | CkEditL add rm _ :: r =>
      removed_not_readded r (filter (fun x => negb (mem_sname x add)) (fold_left add_sname rm acc))
  | _ :: r => removed_not_readded r acc
  end.
Definition orphan_calls (s : fs) : list call :=
  flat_map (fun x => if exists_name (NSst x) s && negb (exists_name (NTrashSst x) s)
                     then [CRename (NSst x) (NTrashSst x)] else [])
           (removed_not_readded (tl (mani_edits s)) []).

(* KeyValueStore::open up to the point where the store is usable:
   ensure_dir(root), make_all_dirs, Manifest::open (mkdir mani), the first edit (infos) when the
   manifest is empty, recover, LsmTree::from_manifest (cleanup_orphans), start_new_log *)
Definition open_prog (s : fs) : prog * vstate * bool :=
  let c1 := ensure_dirs [0; 1; 2; 3; 4; 5; 6; 7] s in
  let s1 := replay c1 s in
  let c2 := match mani_edits s1 with [] => mani_apply (CkEdit [] []) | _ => [] end in
  let s2 := replay c2 s1 in
  let (c3, rec) := recover_calls (log_numbers s2) s2 in
  let s3 := replay c3 s2 in
  let c4 := orphan_calls s3 in
  let s4 := replay c4 s3 in
  let files := mani_strs s4 in
  (* the log carries the number of its memtable: max(recovered + 1, largest timestamp in the tree,
     the number of the last flushed log + 1 - a garbage collection can have dropped every entry
     newer than that log) *)
  let seq0 := N.max (N.max (rec + 1) (max_ts (concat files))) (mani_L s4 + 1) in
  let c5 := [CCreate (NLog seq0)] in
  (must (c1 ++ c2 ++ c3) ++ map (fun c => (c, Ignore)) c4 ++ must c5,
   mkV [] files (seq0 + 1) seq0,
   (* list_ssts_from_manifest opens every live SST; a missing one makes open fail *)
   forallb (fun x => exists_name (NSst x) s3) (mani_strs s3)).

(* the entries a directory image holds: live SSTs and every log in the root *)
Fixpoint log_entries (s : fs) : list entry :=
  match s with
  | [] => []
  | (NLog _, f) :: s' => file_log_entries f ++ log_entries s'
  | _ :: s' => log_entries s'
  end.
Definition disk_entries (s : fs) : list entry := concat (mani_strs s) ++ log_entries s.
