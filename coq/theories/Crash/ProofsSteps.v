(* Crash/ProofsSteps.v — what each kind of call does to a good image: inversion of exec, the
   manifest's edit semantics, and the blocks (temporary SST, manifest edit, log removal, link)
   the operations are made of. *)
From Coq Require Import NArith List Bool Arith Lia Permutation.
From Blue Require Import Lsm.Model Lsm.KeyOrder Lsm.SortLemmas Crash.Model Crash.ProofsFs Crash.ProofsInv.
Import ListNotations.
Open Scope N_scope.

(* ------------------------------------------------------------------ inversion of exec *)
Lemma exec_create_inv f s s' : exec (CCreate f) s = Some s' -> lookup f s = None /\ s' = set f empty_file s.
Proof. cbn. destruct (lookup f s); intros H; inversion H; auto. Qed.

Lemma exec_mkdir_inv f s s' : exec (CMkdir f) s = Some s' -> lookup f s = None /\ s' = set f empty_file s.
Proof. cbn. destruct (lookup f s); intros H; inversion H; auto. Qed.

Lemma exec_write_inv f c s s' : exec (CWrite f c) s = Some s' ->
  exists fl, lookup f s = Some fl /\ s' = set f (mkFile (f_data fl ++ [c]) (f_dur fl)) s.
Proof. cbn. destruct (lookup f s) as [fl|]; intros H; inversion H. eauto. Qed.

Lemma exec_sync_inv f s s' : exec (CSync f) s = Some s' ->
  exists fl, lookup f s = Some fl /\ s' = set f (mkFile (f_data fl) (length (f_data fl))) s.
Proof. cbn. destruct (lookup f s) as [fl|]; intros H; inversion H. eauto. Qed.

Lemma exec_link_inv a b s s' : exec (CLink a b) s = Some s' ->
  exists fl, lookup a s = Some fl /\ lookup b s = None /\ s' = set b fl s.
Proof. cbn. destruct (lookup a s) as [fl|]; [|discriminate]. destruct (lookup b s); intros H; inversion H. eauto. Qed.

Lemma exec_unlink_inv f s s' : exec (CUnlink f) s = Some s' -> lookup f s <> None /\ s' = remove f s.
Proof. cbn. destruct (lookup f s); intros H; inversion H. split; [discriminate|reflexivity]. Qed.

Lemma exec_rename_inv a b s s' : exec (CRename a b) s = Some s' ->
  exists fl, lookup a s = Some fl /\ s' = set b fl (remove a s).
Proof. cbn. destruct (lookup a s) as [fl|]; intros H; inversion H. eauto. Qed.

Lemma exec_openappend_inv f s s' : exec (COpenAppend f) s = Some s' ->
  (lookup f s <> None /\ s' = s) \/ (lookup f s = None /\ s' = set f empty_file s).
Proof.
  cbn. destruct (lookup f s); intros H; inversion H; subst.
  - left. split; [discriminate|reflexivity].
  - right. auto.
Qed.

(* ------------------------------------------------------------------ manifest edits *)
Lemma in_add_sname y l x : In y (add_sname l x) <-> In y l \/ y = x.
Proof.
  unfold add_sname. destruct (mem_sname x l) eqn:E.
  - apply mem_sname_in in E. split; [auto|]. intros [H| ->]; assumption.
  - rewrite in_app_iff. cbn. split.
    + intros [H|[<-|[]]]; auto.
    + intros [H| ->]; auto.
Qed.

Lemma in_fold_add y add : forall l, In y (fold_left add_sname add l) <-> In y l \/ In y add.
Proof.
  induction add as [|a add IH]; intros l; cbn [fold_left].
  - split; [auto|intros [H|[]]; exact H].
  - rewrite IH, in_add_sname. cbn [In]. split; intros H; [destruct H as [[H| ->]|H]|destruct H as [H|[<-|H]]]; auto.
Qed.

Lemma in_apply_edit y strs add rm l :
  In y (apply_edit strs (CkEditL add rm l)) <-> (In y strs /\ ~ In y rm) \/ In y add.
Proof.
  cbn [apply_edit]. rewrite in_fold_add, filter_In, negb_true_iff, mem_sname_not_in. reflexivity.
Qed.

Lemma strs_of_app a b : strs_of (a ++ b) = fold_left apply_edit b (strs_of a).
Proof. unfold strs_of. apply fold_left_app. Qed.

Lemma strs_of_snoc a e : strs_of (a ++ [e]) = apply_edit (strs_of a) e.
Proof. rewrite strs_of_app. reflexivity. Qed.

Definition mani_file (s : fs) : file := match lookup NMani s with Some f => f | None => empty_file end.

Lemma mani_edits_file s : mani_edits s = f_data (mani_file s).
Proof. unfold mani_edits, mani_file. now destruct (lookup NMani s). Qed.

Lemma mani_strs_set s f : mani_strs (set NMani f s) = strs_of (f_data f).
Proof. unfold mani_strs, mani_edits. now rewrite lookup_set. Qed.

(* a state that differs from s only at NMani *)
Lemma mani_strs_lookup (s' : fs) f : lookup NMani s' = Some f -> mani_strs s' = strs_of (f_data f).
Proof. intros H. unfold mani_strs, mani_edits. now rewrite H. Qed.

(* ------------------------------------------------------------------ updates of one relevant name *)
(* s' is s with the relevant name F set to o (irrelevant names may differ arbitrarily) *)
Definition upd_rel (s s' : fs) (F : name) (o : option file) : Prop :=
  forall n, relevant n = true -> lookup n s' = if name_eqb n F then o else lookup n s.

Lemma upd_rel_other s s' F o n : upd_rel s s' F o -> relevant n = true -> n <> F -> lookup n s' = lookup n s.
Proof. intros H Hn Hne. rewrite (H n Hn), name_eqb_neq; auto. Qed.

Lemma upd_rel_same s s' F o : upd_rel s s' F o -> relevant F = true -> lookup F s' = o.
Proof. intros H Hf. now rewrite (H F Hf), name_eqb_refl. Qed.

Lemma upd_rel_strs s s' F o : upd_rel s s' F o -> F <> NMani -> mani_strs s' = mani_strs s.
Proof.
  intros H Hne. unfold mani_strs, mani_edits. rewrite (upd_rel_other _ _ _ _ NMani H eq_refl); [reflexivity|congruence].
Qed.

(* a new SST that holds what its name says *)
Lemma good_add_sst s s' x E : wf s' -> upd_rel s s' (NSst x) (Some (mkFile [CkSst x] 1)) -> Good s E -> Good s' E.
Proof.
  intros Hw Hu [Hst (_ & A & B & C)].
  assert (Hstrs := upd_rel_strs _ _ _ _ Hu ltac:(discriminate)).
  split; [|split; [exact Hw|split; [|split]]].
  - intros n f Hn. rewrite (Hu n Hn). destruct (name_eqb n (NSst x)); [intros H; now inversion H|now apply Hst].
  - intros y f. rewrite (Hu (NSst y) eq_refl). destruct (name_eqb (NSst y) (NSst x)) eqn:Ey; [|apply A].
    apply name_eqb_eq in Ey. inversion Ey; subst. intros H. now inversion H.
  - intros y. rewrite Hstrs, (Hu (NSst y) eq_refl). destruct (name_eqb (NSst y) (NSst x)); [discriminate|apply B].
  - intros e. rewrite (C e), Hstrs. split; (intros [H|(n & f & H1 & H2)]; [now left|right]); exists n, f; (split; [|exact H2]).
    + now rewrite (Hu (NLog n) eq_refl).
    + now rewrite (Hu (NLog n) eq_refl) in H1.
Qed.

(* an SST the manifest does not list disappears *)
Lemma good_remove_sst s s' x E : wf s' -> upd_rel s s' (NSst x) None -> ~ In x (mani_strs s) -> Good s E -> Good s' E.
Proof.
  intros Hw Hu Hnot [Hst (_ & A & B & C)].
  assert (Hstrs := upd_rel_strs _ _ _ _ Hu ltac:(discriminate)).
  split; [|split; [exact Hw|split; [|split]]].
  - intros n f Hn. rewrite (Hu n Hn). destruct (name_eqb n (NSst x)); [discriminate|now apply Hst].
  - intros y f. rewrite (Hu (NSst y) eq_refl). destruct (name_eqb (NSst y) (NSst x)); [discriminate|apply A].
  - intros y Hy. rewrite Hstrs in Hy. rewrite (Hu (NSst y) eq_refl). destruct (name_eqb (NSst y) (NSst x)) eqn:Ey; [|now apply B].
    apply name_eqb_eq in Ey. inversion Ey; subst. contradiction.
  - intros e. rewrite (C e), Hstrs. split; (intros [H|(n & f & H1 & H2)]; [now left|right]); exists n, f; (split; [|exact H2]).
    + now rewrite (Hu (NLog n) eq_refl).
    + now rewrite (Hu (NLog n) eq_refl) in H1.
Qed.

(* a log is replaced / added / removed, and the entries still add up *)
Lemma good_upd_log s s' m o E E' : wf s' -> upd_rel s s' (NLog m) o -> Good s E ->
  match o with Some g => f_dur g = length (f_data g) | None => True end ->
  (forall e, In e E' <->
     (exists x, In x (mani_strs s) /\ In e x) \/
     (exists n f, n <> m /\ lookup (NLog n) s = Some f /\ In e (file_log_entries f)) \/
     (exists g, o = Some g /\ In e (file_log_entries g))) ->
  Good s' E'.
Proof.
  intros Hw Hu [Hst (_ & A & B & C)] Hdur HE.
  assert (Hstrs := upd_rel_strs _ _ _ _ Hu ltac:(discriminate)).
  split; [|split; [exact Hw|split; [|split]]].
  - intros n f Hn. rewrite (Hu n Hn). destruct (name_eqb n (NLog m)); [|now apply Hst].
    intros H. subst o. exact Hdur.
  - intros y f. rewrite (Hu (NSst y) eq_refl). cbn [name_eqb]. apply A.
  - intros y. rewrite Hstrs, (Hu (NSst y) eq_refl). cbn [name_eqb]. apply B.
  - intros e. rewrite (HE e), Hstrs. split.
    + intros [H|[(n & f & Hne & H1 & H2)|(g & -> & H2)]]; [now left| |].
      * right. exists n, f. split; [|exact H2]. rewrite (Hu (NLog n) eq_refl), name_eqb_neq; [exact H1|congruence].
      * right. exists m, g. split; [|exact H2]. now rewrite (Hu (NLog m) eq_refl), name_eqb_refl.
    + intros [H|(n & f & H1 & H2)]; [now left|right].
      rewrite (Hu (NLog n) eq_refl) in H1. destruct (name_eqb (NLog n) (NLog m)) eqn:En.
      * right. exists f. auto.
      * left. exists n, f. split; [|auto]. intros ->. now rewrite name_eqb_refl in En.
Qed.

(* the synced manifest with one more edit *)
Lemma rec_mani_append s s' mf add rm l E E' :
  wf s' -> upd_rel s s' NMani (Some (mkFile (f_data mf ++ [CkEditL add rm l]) (S (length (f_data mf))))) ->
  mf = mani_file s -> Good s E ->
  (forall x, In x add -> lookup (NSst x) s <> None) ->
  (forall e, In e E' <->
     (exists x, In x (apply_edit (mani_strs s) (CkEditL add rm l)) /\ In e x) \/
     (exists n f, lookup (NLog n) s = Some f /\ In e (file_log_entries f))) ->
  Good s' E'.
Proof.
  intros Hw Hu Hmf [Hst (_ & A & B & C)] Hadd HE.
  assert (Hstrs : mani_strs s' = apply_edit (mani_strs s) (CkEditL add rm l)).
  { rewrite (mani_strs_lookup s' _ (upd_rel_same _ _ _ _ Hu eq_refl)). cbn [f_data].
    rewrite strs_of_snoc. unfold mani_strs. now rewrite mani_edits_file, <- Hmf. }
  split; [|split; [exact Hw|split; [|split]]].
  - intros n f Hn. rewrite (Hu n Hn). destruct (name_eqb n NMani); [|now apply Hst].
    intros H. inversion H; subst f. cbn. rewrite app_length. cbn. lia.
  - intros y f. rewrite (Hu (NSst y) eq_refl). cbn [name_eqb]. apply A.
  - intros y. rewrite Hstrs, (Hu (NSst y) eq_refl). cbn [name_eqb]. rewrite in_apply_edit.
    intros [[Hy _]|Hy]; [now apply B|now apply Hadd].
  - intros e. rewrite (HE e), Hstrs. split; (intros [H|(n & f & H1 & H2)]; [now left|right]); exists n, f; (split; [|exact H2]).
    + now rewrite (Hu (NLog n) eq_refl).
    + now rewrite (Hu (NLog n) eq_refl) in H1.
Qed.

(* ------------------------------------------------------------------ blocks of calls *)
(* create, fill and seal a temporary SST under an irrelevant name *)
Lemma tmp_block_c T c s X E P : relevant T = false -> Good s X -> covers E P X ->
  walk (must [CCreate T; CWrite T c; CSync T]) s E P
       (fun s' => Good s' X /\ lookup T s' = Some (mkFile [c] 1) /\ (forall n, n <> T -> lookup n s' = lookup n s)).
Proof.
  intros HT Hg Hcv.
  assert (Hirr : forall n, In n [T] -> relevant n = false) by (intros n [<-|[]]; exact HT).
  eapply walk_conseq; [|apply (walk_irrelevant_c _ s X E P); [repeat constructor; exact Hirr|exact Hg|exact Hcv]].
  cbn beta. intros s' (Hr & Hg' & Hsame). cbn [must map] in Hr. rewrite run_must_cons in Hr.
  destruct (exec (CCreate T) s) as [s1|] eqn:E1; [|discriminate].
  rewrite run_must_cons in Hr. destruct (exec (CWrite T c) s1) as [s2|] eqn:E2; [|discriminate].
  rewrite run_must_cons in Hr. destruct (exec (CSync T) s2) as [s3|] eqn:E3; [|discriminate].
  unfold run in Hr. cbn in Hr. inversion Hr; subst s3. clear Hr.
  apply exec_create_inv in E1. destruct E1 as [N1 ->].
  apply exec_write_inv in E2. destruct E2 as (f2 & L2 & ->). rewrite lookup_set, name_eqb_refl in L2. inversion L2; subst f2. clear L2.
  apply exec_sync_inv in E3. destruct E3 as (f3 & L3 & ->). rewrite lookup_set, name_eqb_refl in L3. inversion L3; subst f3. clear L3.
  cbn [f_data f_dur empty_file app length] in *.
  split; [exact Hg'|]. split.
  - now rewrite lookup_set, name_eqb_refl.
  - intros n Hn. rewrite !lookup_set, name_eqb_neq by exact Hn. reflexivity.
Qed.

Lemma tmp_block T c s E P : relevant T = false -> Good s E ->
  walk (must [CCreate T; CWrite T c; CSync T]) s E P
       (fun s' => Good s' E /\ lookup T s' = Some (mkFile [c] 1) /\ (forall n, n <> T -> lookup n s' = lookup n s)).
Proof. intros HT Hg. apply tmp_block_c; [exact HT|exact Hg|apply covers_refl]. Qed.

(* Manifest::apply of one edit *)
Lemma mani_block add rm l s E E' P :
  Good s E ->
  (forall x, In x add -> lookup (NSst x) s <> None) ->
  (forall e, In e E' <->
     (exists x, In x (apply_edit (mani_strs s) (CkEditL add rm l)) /\ In e x) \/
     (exists n f, lookup (NLog n) s = Some f /\ In e (file_log_entries f))) ->
  (E' = E \/ exists q, P = Some q /\ E' = E ++ q) ->
  walk (must (mani_apply (CkEditL add rm l))) s E P
       (fun s' => Good s' E' /\ mani_strs s' = apply_edit (mani_strs s) (CkEditL add rm l) /\
                  lookup NMani s' <> None /\ (forall n, n <> NMani -> lookup n s' = lookup n s)).
Proof.
  intros Hg Hadd HE HEE. unfold mani_apply. cbn [must map].
  apply walk_must_cons; [now apply good_safe|]. intros s1 E1.
  (* after the open: NMani is there with the same edits *)
  assert (H1 : wf s1 /\ lookup NMani s1 = Some (mani_file s) /\ (forall n, n <> NMani -> lookup n s1 = lookup n s)).
  { apply exec_openappend_inv in E1. destruct E1 as [[Hne ->]|[Hn ->]].
    - split; [apply Hg|]. split; [|reflexivity]. unfold mani_file. destruct (lookup NMani s); [reflexivity|congruence].
    - split; [apply wf_set; apply Hg|]. split.
      + rewrite lookup_set, name_eqb_refl. unfold mani_file. now rewrite Hn.
      + intros n Hne. now rewrite lookup_set, name_eqb_neq. }
  destruct H1 as (Hw1 & Hm1 & Ho1).
  assert (Hstrs1 : mani_strs s1 = mani_strs s).
  { rewrite (mani_strs_lookup s1 _ Hm1). unfold mani_strs. now rewrite mani_edits_file. }
  assert (Hg1 : Good s1 E).
  { destruct Hg as [Hst (_ & A & B & C)].
    split; [|split; [exact Hw1|split; [|split]]].
    - intros n f Hn. destruct (name_eqb n NMani) eqn:En.
      + apply name_eqb_eq in En. subst n. rewrite Hm1. intros H. inversion H; subst f.
        unfold mani_file. destruct (lookup NMani s) eqn:L; [now apply (Hst NMani)|reflexivity].
      + rewrite Ho1; [now apply Hst|]. intros ->. now rewrite name_eqb_refl in En.
    - intros y f. rewrite Ho1 by discriminate. apply A.
    - intros y. rewrite Hstrs1, Ho1 by discriminate. apply B.
    - intros e. rewrite (C e), Hstrs1. split; (intros [H|(n & f & H1 & H2)]; [now left|right]); exists n, f; (split; [|exact H2]).
      + now rewrite Ho1 by discriminate.
      + now rewrite Ho1 in H1 by discriminate. }
  apply walk_must_cons; [now apply good_safe|]. intros s2 E2.
  apply exec_write_inv in E2. destruct E2 as (f2 & L2 & ->). rewrite Hm1 in L2. inversion L2; subst f2. clear L2.
  set (mf := mani_file s) in *.
  set (S' := set NMani (mkFile (f_data mf ++ [CkEditL add rm l]) (S (length (f_data mf)))) s1).
  assert (HwS : wf S') by (apply wf_set; exact Hw1).
  assert (HgS : Good S' E').
  { apply (rec_mani_append s1 S' mf add rm l E E'); [exact HwS| | |exact Hg1| |].
    - intros n _. unfold S'. now rewrite lookup_set.
    - unfold mani_file. now rewrite Hm1.
    - intros x Hx. rewrite Ho1 by discriminate. now apply Hadd.
    - intros e. rewrite (HE e), Hstrs1.
      split; (intros [H|(n & f & H1 & H2)]; [now left|right]); exists n, f; (split; [|exact H2]).
      + now rewrite Ho1 by discriminate.
      + now rewrite Ho1 in H1 by discriminate. }
  apply walk_must_cons.
  { apply (pending_safe NMani s1 mf (CkEditL add rm l) E E' P eq_refl Hg1 Hm1); [apply HgS|exact HEE]. }
  intros s3 E3. apply exec_sync_inv in E3. destruct E3 as (f3 & L3 & ->).
  rewrite lookup_set, name_eqb_refl in L3. inversion L3; subst f3. clear L3. cbn [f_data].
  match goal with |- walk [] ?st E P _ => set (s3 := st) end.
  assert (Hw3 : wf s3) by (unfold s3; repeat apply wf_set; exact Hw1).
  assert (Hsame : forall n, lookup n s3 = lookup n S').
  { intros n. unfold s3, S'. rewrite !lookup_set. destruct (name_eqb n NMani); [|reflexivity].
    rewrite app_length. cbn. do 2 f_equal. lia. }
  assert (Hg3 : Good s3 E') by (eapply good_ext; [exact Hw3| |exact HgS]; intros n _; apply Hsame).
  apply walk_nil.
  - destruct HEE as [->|(q & -> & ->)]; [now apply good_safe|].
    intros s' Hc. right. exists q. split; [reflexivity|].
    destruct (good_safe s3 (E ++ q) None Hg3 s' Hc) as [H|(? & H & _)]; [exact H|discriminate].
  - split; [exact Hg3|]. split; [|split].
    + rewrite (mani_strs_lookup s3 (mkFile (f_data mf ++ [CkEditL add rm l]) (S (length (f_data mf))))).
      * cbn [f_data]. rewrite strs_of_snoc. unfold mani_strs. now rewrite mani_edits_file.
      * rewrite Hsame. unfold S'. now rewrite lookup_set, name_eqb_refl.
    + rewrite Hsame. unfold S'. rewrite lookup_set, name_eqb_refl. discriminate.
    + intros n Hn. rewrite Hsame. unfold S'. rewrite lookup_set, name_eqb_neq by exact Hn. now apply Ho1.
Qed.

(* ------------------------------------------------------------------ the blocks do complete *)
Lemma tmp_block_ok T c s E P : relevant T = false -> Good s E -> lookup T s = None ->
  walk_ok (must [CCreate T; CWrite T c; CSync T]) s E P
       (fun s' => Good s' E /\ lookup T s' = Some (mkFile [c] 1) /\ (forall n, n <> T -> lookup n s' = lookup n s)).
Proof.
  intros HT Hg Hn. eapply walk_upgrade; [now apply tmp_block|].
  cbn [must map]. rewrite run_must_cons. cbn [exec]. rewrite Hn.
  rewrite run_must_cons. cbn [exec]. rewrite lookup_set, name_eqb_refl.
  rewrite run_must_cons. cbn [exec]. rewrite lookup_set, name_eqb_refl. reflexivity.
Qed.

Lemma mani_apply_runs e s : exists s', run (must (mani_apply e)) s = (s', None).
Proof.
  unfold mani_apply. cbn [must map]. rewrite run_must_cons. cbn [exec].
  destruct (lookup NMani s) as [mf|] eqn:L.
  - rewrite run_must_cons. cbn [exec]. rewrite L. rewrite run_must_cons. cbn [exec]. rewrite lookup_set, name_eqb_refl. eexists. reflexivity.
  - rewrite run_must_cons. cbn [exec]. rewrite lookup_set, name_eqb_refl.
    rewrite run_must_cons. cbn [exec]. rewrite lookup_set, name_eqb_refl. eexists. reflexivity.
Qed.

Lemma mani_block_ok add rm l s E E' P :
  Good s E ->
  (forall x, In x add -> lookup (NSst x) s <> None) ->
  (forall e, In e E' <->
     (exists x, In x (apply_edit (mani_strs s) (CkEditL add rm l)) /\ In e x) \/
     (exists n f, lookup (NLog n) s = Some f /\ In e (file_log_entries f))) ->
  (E' = E \/ exists q, P = Some q /\ E' = E ++ q) ->
  walk_ok (must (mani_apply (CkEditL add rm l))) s E P
       (fun s' => Good s' E' /\ mani_strs s' = apply_edit (mani_strs s) (CkEditL add rm l) /\
                  lookup NMani s' <> None /\ (forall n, n <> NMani -> lookup n s' = lookup n s)).
Proof.
  intros Hg Hadd HE HEE. destruct (mani_apply_runs (CkEditL add rm l) s) as (s' & R).
  eapply walk_upgrade; [now apply mani_block|exact R].
Qed.

Lemma exec_rename_ok a b s : lookup a s <> None -> exists s1, exec (CRename a b) s = Some s1.
Proof. intros H. cbn. destruct (lookup a s); [eauto|congruence]. Qed.

Lemma exec_unlink_ok a s : lookup a s <> None -> exists s1, exec (CUnlink a) s = Some s1.
Proof. intros H. cbn. destruct (lookup a s); [eauto|congruence]. Qed.

Lemma exec_create_ok a s : lookup a s = None -> exists s1, exec (CCreate a) s = Some s1.
Proof. intros H. cbn. rewrite H. eauto. Qed.

Lemma exec_mkdir_ok a s : lookup a s = None -> exists s1, exec (CMkdir a) s = Some s1.
Proof. intros H. cbn. rewrite H. eauto. Qed.

Lemma exec_link_ok a b f s : lookup a s = Some f -> lookup b s = None -> exists s1, exec (CLink a b) s = Some s1.
Proof. intros H1 H2. cbn. rewrite H1, H2. eauto. Qed.

(* the manifest edit inside a longer program, whatever the Rust does with its errors (the three
   calls cannot fail for file-system reasons) *)
Lemma mani_block_defer add rm l rest s X X' E P (Q : fs -> Prop) :
  cleanup_like rest ->
  Good s X ->
  (forall x, In x add -> lookup (NSst x) s <> None) ->
  (forall e, In e X' <->
     (exists x, In x (apply_edit (mani_strs s) (CkEditL add rm l)) /\ In e x) \/
     (exists n f, lookup (NLog n) s = Some f /\ In e (file_log_entries f))) ->
  covers E P X -> covers E P X' ->
  (forall s', Good s' X' -> mani_strs s' = apply_edit (mani_strs s) (CkEditL add rm l) ->
              (forall n, n <> NMani -> lookup n s' = lookup n s) -> walk rest s' E P Q) ->
  walk ((COpenAppend NMani, Defer 2) :: (CWrite NMani (CkEditL add rm l), Defer 1) :: (CSync NMani, Defer 0) :: rest) s E P Q.
Proof.
  intros Hcl Hg Hadd HE HcX HcX' Hrest.
  pose proof (good_safe_c s X E P Hg HcX) as HS0.
  apply walk_defer_cons; [exact HS0|cbn [exec]; destruct (lookup NMani s); eauto| |].
  2:{ apply dsafe_skip; [exact HS0|]. apply dsafe_skip; [exact HS0|].
      apply dsafe_cleanup; [exact Hcl|apply Hg|exact HS0]. }
  intros s1 E1.
  assert (H1 : wf s1 /\ lookup NMani s1 = Some (mani_file s) /\ (forall n, n <> NMani -> lookup n s1 = lookup n s)).
  { apply exec_openappend_inv in E1. destruct E1 as [[Hne ->]|[Hn ->]].
    - split; [apply Hg|]. split; [|reflexivity]. unfold mani_file. destruct (lookup NMani s); [reflexivity|congruence].
    - split; [apply wf_set; apply Hg|]. split.
      + rewrite lookup_set, name_eqb_refl. unfold mani_file. now rewrite Hn.
      + intros n Hne. now rewrite lookup_set, name_eqb_neq. }
  destruct H1 as (Hw1 & Hm1 & Ho1).
  assert (Hstrs1 : mani_strs s1 = mani_strs s).
  { rewrite (mani_strs_lookup s1 _ Hm1). unfold mani_strs. now rewrite mani_edits_file. }
  assert (Hg1 : Good s1 X).
  { destruct Hg as [Hst (_ & A & B & C)].
    split; [|split; [exact Hw1|split; [|split]]].
    - intros n f Hn. destruct (name_eqb n NMani) eqn:En.
      + apply name_eqb_eq in En. subst n. rewrite Hm1. intros H. inversion H; subst f.
        unfold mani_file. destruct (lookup NMani s) eqn:L; [now apply (Hst NMani)|reflexivity].
      + rewrite Ho1; [now apply Hst|]. intros ->. now rewrite name_eqb_refl in En.
    - intros y f. rewrite Ho1 by discriminate. apply A.
    - intros y. rewrite Hstrs1, Ho1 by discriminate. apply B.
    - intros e. rewrite (C e), Hstrs1. split; (intros [H|(n & f & H1 & H2)]; [now left|right]); exists n, f; (split; [|exact H2]).
      + now rewrite Ho1 by discriminate.
      + now rewrite Ho1 in H1 by discriminate. }
  pose proof (good_safe_c s1 X E P Hg1 HcX) as HS1.
  apply walk_defer_cons; [exact HS1|cbn [exec]; rewrite Hm1; eauto| |].
  2:{ apply dsafe_skip; [exact HS1|]. apply dsafe_cleanup; [exact Hcl|exact Hw1|exact HS1]. }
  intros s2 E2.
  apply exec_write_inv in E2. destruct E2 as (f2 & L2 & ->). rewrite Hm1 in L2. inversion L2; subst f2. clear L2.
  set (mf := mani_file s) in *.
  set (S' := set NMani (mkFile (f_data mf ++ [CkEditL add rm l]) (S (length (f_data mf)))) s1).
  assert (HwS : wf S') by (apply wf_set; exact Hw1).
  assert (HgS : Good S' X').
  { apply (rec_mani_append s1 S' mf add rm l X X'); [exact HwS| | |exact Hg1| |].
    - intros n _. unfold S'. now rewrite lookup_set.
    - unfold mani_file. now rewrite Hm1.
    - intros x Hx. rewrite Ho1 by discriminate. now apply Hadd.
    - intros e. rewrite (HE e), Hstrs1.
      split; (intros [H|(n & f & H1 & H2)]; [now left|right]); exists n, f; (split; [|exact H2]).
      + now rewrite Ho1 by discriminate.
      + now rewrite Ho1 in H1 by discriminate. }
  assert (Hpend : Safe (set NMani (mkFile (f_data mf ++ [CkEditL add rm l]) (f_dur mf)) s1) E P)
    by (apply (pending_safe_c NMani s1 mf (CkEditL add rm l) X X' E P eq_refl Hg1 Hm1); [apply HgS|exact HcX|exact HcX']).
  apply walk_defer_cons; [exact Hpend|cbn [exec]; rewrite lookup_set, name_eqb_refl; eauto| |].
  2:{ apply dsafe_cleanup; [exact Hcl|apply wf_set; exact Hw1|exact Hpend]. }
  intros s3 E3. apply exec_sync_inv in E3. destruct E3 as (f3 & L3 & ->).
  rewrite lookup_set, name_eqb_refl in L3. inversion L3; subst f3. clear L3. cbn [f_data].
  match goal with |- walk rest ?st E P _ => set (s3 := st) end.
  assert (Hw3 : wf s3) by (unfold s3; repeat apply wf_set; exact Hw1).
  assert (Hsame : forall n, lookup n s3 = lookup n S').
  { intros n. unfold s3, S'. rewrite !lookup_set. destruct (name_eqb n NMani); [|reflexivity].
    rewrite app_length. cbn. do 2 f_equal. lia. }
  assert (Hg3 : Good s3 X') by (eapply good_ext; [exact Hw3| |exact HgS]; intros n _; apply Hsame).
  apply Hrest; [exact Hg3| |].
  - rewrite (mani_strs_lookup s3 (mkFile (f_data mf ++ [CkEditL add rm l]) (S (length (f_data mf))))).
    + cbn [f_data]. rewrite strs_of_snoc. unfold mani_strs. now rewrite mani_edits_file.
    + rewrite Hsame. unfold S'. now rewrite lookup_set, name_eqb_refl.
  - intros n Hn. rewrite Hsame. unfold S'. rewrite lookup_set, name_eqb_neq by exact Hn. now apply Ho1.
Qed.
