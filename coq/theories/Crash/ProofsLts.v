(* Crash/ProofsLts.v — the life of a store directory as a transition system: open, write, flush,
   compaction, and a crash at ANY system call of any of them (recovery included), under any cut of
   the unsynced data, any number of times.  Ghost fields record what was acknowledged and which
   batches were in flight at some crash. *)
From Coq Require Import NArith List Bool Arith Lia Permutation.
From Blue Require Import Lsm.Model Lsm.KeyOrder Lsm.SortLemmas Crash.Model Crash.ProofsFs Crash.ProofsInv
  Crash.ProofsSteps Crash.ProofsOps Crash.ProofsOpen Crash.ProofsCompact.
Import ListNotations.
Open Scope N_scope.

(* ------------------------------------------------------------------ what a reader can observe *)
(* `shows E k x`: among the entries E the newest version of key k carries x (None: a tombstone,
   or no version at all) - what a get of k returns from a store holding E (C01 makes that link) *)
Definition shows (E : list entry) (k : key) (x : option (list N)) : Prop :=
  (exists e, In e E /\ ek e = k /\ ev e = x /\ forall e', In e' E -> ek e' = k -> ets e' <= ets e)
  \/ (x = None /\ forall e, In e E -> ek e <> k).

Lemma shows_set_eq E E' : (forall e, In e E <-> In e E') -> forall k x, shows E k x -> shows E' k x.
Proof.
  intros H k x [(e & He & Hk & Hx & Hmax)|[Hx Hno]].
  - left. exists e. split; [now apply H|]. split; [exact Hk|]. split; [exact Hx|]. intros e' He'. apply Hmax. now apply H.
  - right. split; [exact Hx|]. intros e He. apply Hno. now apply H.
Qed.

(* no two different entries carry the same key and timestamp *)
Definition ts_unique (E : list entry) : Prop :=
  forall e e', In e E -> In e' E -> ek e = ek e' -> ets e = ets e' -> e = e'.

Lemma ts_unique_incl E E' : incl E' E -> ts_unique E -> ts_unique E'.
Proof. intros Hi Hu e e' He He'. apply Hu; now apply Hi. Qed.

Lemma newest_none E k : newest E k = None -> forall e, In e E -> ek e <> k.
Proof.
  induction E as [|a E IH]; cbn [newest]; [intros _ e []|].
  destruct (key_eqb (ek a) k) eqn:Ek.
  - destruct (newest E k) as [b|]; [destruct (ets a <? ets b)|]; discriminate.
  - intros H e [<-|He]; [|now apply IH]. intros Hk. apply key_eqb_eq in Hk. congruence.
Qed.

Lemma newest_some E k m : newest E k = Some m ->
  In m E /\ ek m = k /\ forall e, In e E -> ek e = k -> ets e <= ets m.
Proof.
  revert m. induction E as [|a E IH]; cbn [newest]; [discriminate|]. intros m.
  destruct (key_eqb (ek a) k) eqn:Ek.
  - apply key_eqb_eq in Ek. destruct (newest E k) as [b|] eqn:Nb.
    + destruct (IH b eq_refl) as (Hb & Hkb & Hmax). destruct (ets a <? ets b) eqn:Lt; intros H; inversion H; subst m.
      * apply N.ltb_lt in Lt. split; [now right|]. split; [exact Hkb|]. intros e [<-|He] Hk; [lia|now apply Hmax].
      * apply N.ltb_ge in Lt. split; [now left|]. split; [exact Ek|]. intros e [<-|He] Hk; [lia|]. specialize (Hmax e He Hk). lia.
    + intros H. inversion H; subst m. split; [now left|]. split; [exact Ek|].
      intros e [<-|He] Hk; [lia|]. exfalso. exact (newest_none E k Nb e He Hk).
  - intros H. destruct (IH m H) as (Hm & Hkm & Hmax). split; [now right|]. split; [exact Hkm|].
    intros e [<-|He] Hk; [|now apply Hmax]. apply key_eqb_eq in Hk. congruence.
Qed.

Lemma vis_shows E k : shows E k (vis E k).
Proof.
  unfold vis. destruct (newest E k) as [m|] eqn:Nm; cbn [shown].
  - destruct (newest_some E k m Nm) as (Hm & Hk & Hmax). left. exists m. auto.
  - right. split; [reflexivity|]. now apply newest_none.
Qed.

Lemma shows_vis E k x : ts_unique E -> shows E k x -> x = vis E k.
Proof.
  intros Hu [(e & He & Hk & Hx & Hmax)|[Hx Hno]]; unfold vis.
  - destruct (newest E k) as [m|] eqn:Nm; cbn [shown].
    + destruct (newest_some E k m Nm) as (Hm & Hkm & Hmaxm).
      assert (e = m). { apply Hu; [exact He|exact Hm|congruence|]. specialize (Hmax m Hm Hkm). specialize (Hmaxm e He Hk). lia. }
      subst m. now symmetry.
    + exfalso. exact (newest_none E k Nm e He Hk).
  - destruct (newest E k) as [m|] eqn:Nm; cbn [shown]; [|exact Hx].
    destruct (newest_some E k m Nm) as (Hm & Hkm & _). exfalso. exact (Hno m Hm Hkm).
Qed.

(* ------------------------------------------------------------------ the specification *)
(* batches applied in the order they were issued; within the map the last write to a key wins *)
Definition find_key (k : key) (b : list entry) : option entry := find (fun e => key_eqb (ek e) k) b.
Definition apply_batch (m : key -> option (list N)) (b : list entry) : key -> option (list N) :=
  fun k => match find_key k b with Some e => ev e | None => m k end.
Definition spec (W : list (list entry)) : key -> option (list N) := fold_left apply_batch W (fun _ => None).

(* the store's entries E are explained by the batches W: every key reads as the last write to it,
   and the store holds nothing that was not written *)
Definition explains (W : list (list entry)) (E : list entry) : Prop :=
  (forall k x, shows E k x -> x = spec W k) /\ incl E (concat W).

Lemma spec_snoc W b k : spec (W ++ [b]) k = apply_batch (spec W) b k.
Proof. unfold spec. rewrite fold_left_app. reflexivity. Qed.

Lemma nodup_map_inj {A B} (f : A -> B) l a b : NoDup (map f l) -> In a l -> In b l -> f a = f b -> a = b.
Proof.
  induction l as [|x l IH]; [intros _ []|]. cbn [map]. intros Hnd Ha Hb Hf. inversion Hnd as [|? ? Hx Hl]; subst.
  destruct Ha as [<-|Ha], Hb as [<-|Hb]; [reflexivity| | |now apply IH].
  - exfalso. apply Hx. rewrite Hf. now apply in_map.
  - exfalso. apply Hx. rewrite <- Hf. now apply in_map.
Qed.

Lemma explains_write W E es t :
  (forall e, In e E -> ets e < t) -> (forall e, In e es -> ets e = t) -> NoDup (map ek es) ->
  explains W E -> explains (W ++ [es]) (E ++ es).
Proof.
  intros Hold Hnew Hnd [Hsp Hin]. split.
  - intros k x Hs. rewrite spec_snoc. unfold apply_batch, find_key.
    destruct (find (fun e => key_eqb (ek e) k) es) as [e0|] eqn:F.
    + apply find_some in F. destruct F as [He0 Hk0]. apply key_eqb_eq in Hk0.
      destruct Hs as [(e & He & Hk & Hx & Hmax)|[_ Hno]].
      * assert (Hle : ets e0 <= ets e) by (apply Hmax; [apply in_or_app; now right|exact Hk0]).
        apply in_app_or in He. destruct He as [He|He].
        -- specialize (Hold e He). rewrite (Hnew e0 He0) in Hle. lia.
        -- assert (e = e0) by (apply (nodup_map_inj ek es); [exact Hnd|exact He|exact He0|congruence]). subst e0. now symmetry.
      * exfalso. apply (Hno e0); [apply in_or_app; now right|exact Hk0].
    + pose proof (find_none _ _ F) as Hnone. apply Hsp.
      destruct Hs as [(e & He & Hk & Hx & Hmax)|[Hx Hno]].
      * left. exists e. apply in_app_or in He. destruct He as [He|He].
        -- split; [exact He|]. split; [exact Hk|]. split; [exact Hx|]. intros e' He'. apply Hmax. apply in_or_app. now left.
        -- exfalso. specialize (Hnone e He). cbn beta in Hnone. rewrite Hk, key_eqb_refl in Hnone. discriminate.
      * right. split; [exact Hx|]. intros e He. apply Hno. apply in_or_app. now left.
  - intros e He. rewrite concat_app. cbn [concat]. rewrite app_nil_r. apply in_app_or in He. apply in_or_app.
    destruct He as [He|He]; [left; now apply Hin|now right].
Qed.

Lemma explains_sub W E E' : incl E' E -> (forall k x, shows E' k x -> shows E k x) -> explains W E -> explains W E'.
Proof. intros Hi Hs [A B]. split; [intros k x H; apply A, Hs, H|intros e He; apply B, Hi, He]. Qed.

Lemma explains_set_eq W E E' : (forall e, In e E <-> In e E') -> explains W E -> explains W E'.
Proof.
  intros H. apply explains_sub; [intros e He; now apply H|].
  apply shows_set_eq. intros e. symmetry. apply H.
Qed.

Lemma ts_unique_write E es t :
  (forall e, In e E -> ets e < t) -> (forall e, In e es -> ets e = t) -> NoDup (map ek es) ->
  ts_unique E -> ts_unique (E ++ es).
Proof.
  intros Hold Hnew Hnd Hu e e' He He' Hk Ht. apply in_app_or in He. apply in_app_or in He'.
  destruct He as [He|He], He' as [He'|He'].
  - now apply Hu.
  - specialize (Hold e He). rewrite (Hnew e' He') in Ht. lia.
  - specialize (Hold e' He'). rewrite (Hnew e He) in Ht. lia.
  - apply (nodup_map_inj ek es); assumption.
Qed.

(* ------------------------------------------------------------------ the ghost history *)
(* every write the application issued, in order: (true, batch) when the call returned Ok; (false,
   batch) when a crash (or a surfaced error) took it in flight.  `sel h W`: W keeps every
   acknowledged batch of h and some of the others, each whole, in order. *)
Inductive sel : list (bool * list entry) -> list (list entry) -> Prop :=
| sel_nil : sel [] []
| sel_keep a b l w : sel l w -> sel ((a, b) :: l) (b :: w)
| sel_drop b l w : sel l w -> sel ((false, b) :: l) w.

Lemma sel_snoc_keep l w a b : sel l w -> sel (l ++ [(a, b)]) (w ++ [b]).
Proof. induction 1; cbn; [apply sel_keep, sel_nil|now apply sel_keep|now apply sel_drop]. Qed.

Lemma sel_snoc_drop l w b : sel l w -> sel (l ++ [(false, b)]) w.
Proof. induction 1; cbn; [apply sel_drop, sel_nil|now apply sel_keep|now apply sel_drop]. Qed.

(* every acknowledged batch is kept, nothing foreign is added *)
Lemma sel_acked l w : sel l w -> forall b, In (true, b) l -> In b w.
Proof.
  induction 1 as [|a b0 l w _ IH|b0 l w _ IH]; intros b; cbn [In]; [intros []| |].
  - intros [H|H]; [inversion H; now left|right; now apply IH].
  - intros [H|H]; [discriminate|now apply IH].
Qed.

Lemma sel_from l w : sel l w -> forall b, In b w -> exists a, In (a, b) l.
Proof.
  induction 1 as [|a b0 l w _ IH|b0 l w _ IH]; intros b; cbn [In]; [intros []| |].
  - intros [<-|H]; [exists a; now left|]. destruct (IH b H) as (a' & Ha'). exists a'. now right.
  - intros H. destruct (IH b H) as (a' & Ha'). exists a'. now right.
Qed.

(* ------------------------------------------------------------------ operations *)
(* which operations the transition system takes: a write batch names each key once (the store
   deduplicates before it logs); a compaction's inputs are live, its outputs hold only entries of
   its inputs, and it does not change what any key reads as - for a merge that is immediate
   (`merge_accepted`), for a garbage collection it is C05's theorem about the tree; the driver
   evaluates `acceptedb` on every step of every history *)
Definition accepted (v : vstate) (o : op) : Prop :=
  match o with
  | OpWrite b => NoDup (map fst b)
  | OpFlush => True
  | OpCompact gc ins outs =>
      compact_ok v ins outs /\ forall k, vis (all_entries (op_next v o)) k = vis (all_entries v) k
  end.

Definition op_batch (v : vstate) (o : op) : option (list entry) :=
  match o with OpWrite b => Some (batch_entries v b) | _ => None end.

(* the crash outcomes of an operation: `op_base` or `op_base ++ op_pend` *)
Definition op_base (v : vstate) (o : op) : list entry :=
  match o with OpCompact _ _ _ => all_entries (op_next v o) | _ => all_entries v end.
Definition op_pend (v : vstate) (o : op) : option (list entry) :=
  match o with OpWrite b => Some (batch_entries v b) | OpFlush => None | OpCompact _ _ _ => Some (all_entries v) end.

Definition op_fs_ok (v : vstate) (o : op) : Prop :=
  match o with OpCompact _ ins outs => compact_ok v ins outs | _ => True end.

Lemma accepted_fs_ok v o : accepted v o -> op_fs_ok v o.
Proof. destruct o; cbn; tauto. Qed.

Lemma op_walk s v o : Run s v -> op_fs_ok v o ->
  walk (fst (op_prog v s o)) s (op_base v o) (op_pend v o)
       (fun s' => snd (op_prog v s o) = true -> Run s' (op_next v o)).
Proof.
  intros R Ha. destruct o as [b| |gc ins outs]; cbn [op_prog op_base op_pend fst snd].
  - eapply walk_conseq; [|apply write_walk, R]. auto.
  - apply flush_walk, R.
  - eapply walk_conseq; [|apply compact_walk; [exact R|exact Ha]]. auto.
Qed.

(* writes and flushes keep every entry *)
Lemma all_entries_next v o : (forall gc ins outs, o <> OpCompact gc ins outs) -> forall e,
  In e (all_entries (op_next v o)) <->
  In e (all_entries v ++ match op_batch v o with Some p => p | None => [] end).
Proof.
  intros Hn e. destruct o as [b| |gc ins outs]; cbn [op_next op_batch]; unfold all_entries; cbn [v_mem v_files].
  - rewrite !in_app_iff. tauto.
  - rewrite app_nil_r. cbn [app]. rewrite in_app_iff, !in_concat. split.
    + intros (x & Hx & He). apply in_apply_edit in Hx. destruct Hx as [[Hx _]|[<-|[]]]; [right; eauto|].
      left. now apply in_sort_entries.
    + intros [H|(x & Hx & He)].
      * exists (sort_entries (v_mem v)). split; [apply in_apply_edit; right; now left|now apply in_sort_entries].
      * exists x. split; [apply in_apply_edit; left; split; [exact Hx|intros []]|exact He].
  - exfalso. now apply (Hn gc ins outs).
Qed.

Lemma all_entries_next_incl v o : op_fs_ok v o ->
  incl (all_entries (op_next v o)) (all_entries v ++ match op_batch v o with Some p => p | None => [] end).
Proof.
  intros Ha e He. destruct o as [b| |gc ins outs].
  - apply (all_entries_next v (OpWrite b)); [discriminate|exact He].
  - apply (all_entries_next v OpFlush); [discriminate|exact He].
  - cbn [op_batch]. rewrite app_nil_r. exact (entries_after_sub v gc ins outs Ha e He).
Qed.

(* a merge - outputs with exactly the inputs' entries - is accepted *)
Lemma merge_accepted v gc ins outs (U : ts_unique (all_entries v)) :
  incl ins (v_files v) -> (forall e, In e (concat outs) <-> In e (concat ins)) ->
  accepted v (OpCompact gc ins outs).
Proof.
  intros Hincl Hents. assert (Hok : compact_ok v ins outs) by (split; [exact Hincl|intros e; apply Hents]).
  split; [exact Hok|]. intros k.
  assert (Heq : forall e, In e (all_entries (op_next v (OpCompact gc ins outs))) <-> In e (all_entries v)).
  { intros e. split; [apply (entries_after_sub v gc ins outs Hok)|].
    unfold all_entries. cbn [op_next v_mem v_files]. rewrite !in_app_iff, !in_concat.
    intros [H|(x & Hx & He)]; [now left|right]. destruct (mem_sname x ins) eqn:Em.
    - apply mem_sname_in in Em.
      assert (Hc : In e (concat outs)) by (apply Hents, in_concat; eauto).
      apply in_concat in Hc. destruct Hc as (z & Hz & Hez). exists z. split; [apply in_apply_edit; now right|exact Hez].
    - apply mem_sname_not_in in Em. exists x. split; [apply in_apply_edit; left; auto|exact He]. }
  symmetry. apply shows_vis.
  - eapply ts_unique_incl; [|exact U]. intros e He. now apply Heq.
  - apply (shows_set_eq (all_entries v)); [intros e; symmetry; apply Heq|apply vis_shows].
Qed.

Lemma newest_none_conv E k : (forall e, In e E -> ek e <> k) -> newest E k = None.
Proof.
  induction E as [|a E IH]; intros H; cbn [newest]; [reflexivity|].
  destruct (key_eqb (ek a) k) eqn:Ek.
  - apply key_eqb_eq in Ek. exfalso. apply (H a); [now left|exact Ek].
  - apply IH. intros e He. apply H. now right.
Qed.

Lemma keys_nodupb_nodup ks : keys_nodupb ks = true -> NoDup ks.
Proof.
  induction ks as [|k r IH]; cbn [keys_nodupb]; [constructor|]. intros H. apply andb_prop in H. destruct H as [H1 H2].
  constructor; [|now apply IH]. intros Hin. apply negb_true_iff in H1.
  assert (existsb (key_eqb k) r = true) by (apply existsb_exists; exists k; split; [exact Hin|apply key_eqb_refl]). congruence.
Qed.

Lemma compact_okb_ok v ins outs : compact_okb v ins outs = true -> compact_ok v ins outs.
Proof.
  unfold compact_okb. intros H. apply andb_prop in H. destruct H as [H1 H2]. rewrite forallb_forall in H1, H2. split.
  - intros x Hx. apply mem_sname_in. now apply H1.
  - intros e He. specialize (H2 e He). unfold mem_ent in H2. apply existsb_exists in H2.
    destruct H2 as (y & Hy & Ey). apply ent_eqb_eq in Ey. now subst.
Qed.

(* the check the driver runs is sound *)
Lemma acceptedb_sound v o : acceptedb v o = true -> accepted v o.
Proof.
  destruct o as [b| |gc ins outs]; cbn [acceptedb accepted]; [apply keys_nodupb_nodup|auto|].
  intros H. apply andb_prop in H. destruct H as [H1 H2]. pose proof (compact_okb_ok v ins outs H1) as Hok.
  split; [exact Hok|]. intros k. rewrite forallb_forall in H2.
  destruct (newest (all_entries v) k) as [m|] eqn:Nm.
  - destruct (newest_some _ _ _ Nm) as (Hm & Hk & _). specialize (H2 m Hm). rewrite Hk in H2. now apply opt_eqb_eq in H2.
  - pose proof (newest_none _ _ Nm) as Hno. unfold vis. rewrite Nm.
    rewrite (newest_none_conv (all_entries (op_next v (OpCompact gc ins outs))) k); [reflexivity|].
    intros e He. apply Hno. exact (entries_after_sub v gc ins outs Hok e He).
Qed.

(* ------------------------------------------------------------------ going on after an error *)
Lemma run_prog_wf p : forall f k s d, wf s -> wf (fst (run_prog p f k s d)).
Proof.
  induction p as [|[c m] p IH]; intros f k s d Hw; cbn [run_prog]; [exact Hw|].
  destruct k as [|k]; [|now apply IH].
  destruct (retire_suppressed m d); [now apply IH|].
  destruct (if match f with Some O => true | _ => false end then None else exec c s) as [s'|] eqn:E1.
  - apply IH. destruct (match f with Some O => true | _ => false end); [discriminate|]. eapply exec_wf; eauto.
  - destruct m; try (now apply IH); [exact Hw|].
    destruct (match f with Some O => true | _ => false end); [exact Hw|now apply IH].
Qed.

(* the running invariant reads only the files recovery reads *)
Lemma run_same_rel s s' v : wf s' -> same_rel s s' -> Run s v -> Run s' v.
Proof.
  intros Hw Hs R. pose proof (run_good s v R) as Hg. destruct (good_ext s s' _ Hw Hs Hg) as [Hst (_ & Hsst & Hlive & _)].
  destruct R as [_ _ _ _ Hstrs Hlogs (lf & Hlf & Hmem)].
  constructor; try assumption.
  - now rewrite (same_rel_strs _ _ Hs).
  - intros n. rewrite (Hs (NLog n) eq_refl). apply Hlogs.
  - exists lf. split; [now rewrite (Hs (NLog (v_cur v)) eq_refl)|exact Hmem].
Qed.

Lemma optn_eqb_eq a b : optn_eqb a b = true -> a = b.
Proof. destruct a, b; cbn; try discriminate; [|reflexivity]. intros H. apply N.eqb_eq in H. now subst. Qed.

Lemma chunk_eqb_eq a b : chunk_eqb a b = true -> a = b.
Proof.
  destruct a, b; cbn [chunk_eqb]; try discriminate.
  - intros H. apply sname_eqb_eq in H. now subst.
  - intros H. apply sname_eqb_eq in H. now subst.
  - intros H. apply andb_prop in H. destruct H as [H H3]. apply andb_prop in H. destruct H as [H1 H2].
    apply snames_eqb_eq in H1. apply snames_eqb_eq in H2. apply optn_eqb_eq in H3. now subst.
Qed.

Lemma chunks_eq (a : list chunk) : forall b, length a = length b ->
  forallb (fun cd => chunk_eqb (fst cd) (snd cd)) (combine a b) = true -> a = b.
Proof.
  induction a as [|x a IH]; intros [|y b]; cbn [length combine forallb fst snd]; try discriminate; [reflexivity|].
  intros Hl H. apply andb_prop in H. destruct H as [H1 H2]. apply chunk_eqb_eq in H1. subst y. f_equal. apply IH; [lia|exact H2].
Qed.

Lemma file_eqb_eq a b : file_eqb a b = true -> a = b.
Proof.
  destruct a as [[da ua]|], b as [[db ub]|]; cbn [file_eqb f_dur f_data]; try discriminate; [|reflexivity].
  intros H. apply andb_prop in H. destruct H as [H H3]. apply andb_prop in H. destruct H as [H1 H2].
  apply Nat.eqb_eq in H1, H2. f_equal. rewrite (chunks_eq da db H2 H3). now subst.
Qed.

(* the driver's test is sound *)
Lemma same_relb_sound s s' : same_relb s s' = true -> same_rel s s'.
Proof.
  unfold same_relb. rewrite forallb_forall. intros H n Hn.
  destruct (lookup n s) as [f|] eqn:L1.
  - assert (Hin : In n (map fst s ++ map fst s')) by (apply in_or_app; left; apply in_map_iff; exists (n, f); split; [reflexivity|now apply lookup_in]).
    specialize (H n Hin). rewrite Hn in H. cbn [negb orb] in H. rewrite L1 in H. apply file_eqb_eq in H. now symmetry.
  - destruct (lookup n s') as [g|] eqn:L2; [|reflexivity].
    assert (Hin : In n (map fst s ++ map fst s')) by (apply in_or_app; right; apply in_map_iff; exists (n, g); split; [reflexivity|now apply lookup_in]).
    specialize (H n Hin). rewrite Hn in H. cbn [negb orb] in H. rewrite L1, L2 in H. discriminate.
Qed.

Lemma run_fault_next s v o : Run s v -> Run s (fault_next v o).
Proof. intros R. destruct o; [|exact R|exact R]. destruct R. constructor; assumption. Qed.

(* ------------------------------------------------------------------ configurations *)
Record cfg := mkCfg {
  c_fs : fs;
  c_v : option vstate;                     (* the open store; None = the process is down *)
  c_hist : list (bool * list entry)        (* ghost: the write batches issued so far, see `sel` *)
}.

Definition init_cfg : cfg := mkCfg [] None [].

Definition hist_next (v : vstate) (o : op) (ack : bool) (h : list (bool * list entry)) : list (bool * list entry) :=
  match op_batch v o with Some p => h ++ [(ack, p)] | None => h end.

Inductive step : cfg -> cfg -> Prop :=
| step_open c s' :
    c_v c = None -> run (fst (fst (open_prog (c_fs c)))) (c_fs c) = (s', None) -> snd (open_prog (c_fs c)) = true ->
    step c (mkCfg s' (Some (snd (fst (open_prog (c_fs c))))) (c_hist c))
| step_open_crash c k img :
    c_v c = None -> cut (prefix_state (fst (fst (open_prog (c_fs c)))) k (c_fs c)) img ->
    step c (mkCfg img None (c_hist c))
| step_op c v o s' :
    c_v c = Some v -> accepted v o ->
    run (fst (op_prog v (c_fs c) o)) (c_fs c) = (s', None) -> snd (op_prog v (c_fs c) o) = true ->
    step c (mkCfg s' (Some (op_next v o)) (hist_next v o true (c_hist c)))
| step_op_crash c v o k img :
    c_v c = Some v -> accepted v o ->
    cut (prefix_state (fst (op_prog v (c_fs c) o)) k (c_fs c)) img ->
    step c (mkCfg img None (hist_next v o false (c_hist c)))
| step_crash c v img :
    c_v c = Some v -> cut (c_fs c) img ->
    step c (mkCfg img None (c_hist c))
(* an I/O error at call j is returned to the caller and the store goes on: covered when the error
   struck before the operation changed any file recovery reads (the log's write() of a write, the
   first call of a flush, the output files of a compaction, ...) *)
| step_op_fault c v o j s' e :
    c_v c = Some v -> accepted v o ->
    run_prog (fst (op_prog v (c_fs c) o)) (Some j) O (c_fs c) None = (s', Some e) ->
    same_rel (c_fs c) s' ->
    step c (mkCfg s' (Some (fault_next v o)) (hist_next v o false (c_hist c)))
(* the store refuses an operation without a single call (a write after its log failed, a flush
   after the memtable thread died) *)
| step_op_refused c v o :
    c_v c = Some v -> accepted v o ->
    step c (mkCfg (c_fs c) (Some (fault_next v o)) (hist_next v o false (c_hist c))).

Inductive reach : cfg -> Prop :=
| reach_init : reach init_cfg
| reach_step c c' : reach c -> step c c' -> reach c'.

(* ------------------------------------------------------------------ the invariant *)
Definition holds (E : list entry) (c : cfg) : Prop :=
  (exists W, sel (c_hist c) W /\ explains W E) /\ ts_unique E.

(* every timestamp in the store is at most state.seq_no: the next write gets a larger one *)
Definition seq_ok (v : vstate) : Prop := forall e, In e (all_entries v) -> ets e <= v_seq v.

Definition inv (c : cfg) : Prop :=
  match c_v c with
  | Some v => Run (c_fs c) v /\ holds (all_entries v) c /\ seq_ok v
  | None => exists E, Good (c_fs c) E /\ holds E c
  end.

Lemma max_ts_ge e l : In e l -> ets e <= max_ts l.
Proof.
  unfold max_ts. induction l as [|x l IH]; [intros []|]. cbn [fold_right]. intros [<-|H]; [lia|]. specialize (IH H). lia.
Qed.

Lemma seq_ok_open s : seq_ok (snd (fst (open_prog s))).
Proof.
  unfold open_prog. destruct (recover_calls _ _) as [c3 rec]. cbn [fst snd].
  intros e He. unfold all_entries in He. cbn [v_mem v_files v_seq app] in *.
  apply max_ts_ge in He. lia.
Qed.

Lemma seq_ok_next v o : op_fs_ok v o -> seq_ok v -> seq_ok (op_next v o).
Proof.
  intros Ha Hs e He. apply (all_entries_next_incl v o Ha e) in He. apply in_app_or in He.
  assert (Hle : v_seq v <= v_seq (op_next v o)) by (destruct o; cbn [op_next v_seq]; lia).
  destruct He as [He|He].
  - specialize (Hs e He). lia.
  - destruct o as [b| |gc ins outs]; cbn [op_batch] in He; try destruct He.
    unfold batch_entries in He. apply in_map_iff in He. destruct He as (kv & <- & _). cbn [op_next v_seq ets]. lia.
Qed.

Lemma good_empty : Good [] [].
Proof.
  split; [intros n f _ H; discriminate|]. split; [constructor|]. split; [intros x f H; discriminate|].
  split; [intros x []|]. intros e. split; [intros []|]. intros [(x & [] & _)|(n & f & H & _)]. discriminate.
Qed.

Lemma rec_good_image s img E : cut s img -> Rec img E -> Good img E.
Proof. intros Hc Hr. split; [eapply cut_stable; eauto|exact Hr]. Qed.

Lemma batch_keys v b : map ek (batch_entries v b) = map fst b.
Proof. unfold batch_entries. rewrite map_map. reflexivity. Qed.

Lemma batch_ts v b e : In e (batch_entries v b) -> ets e = v_seq v + 1.
Proof. unfold batch_entries. intros H. apply in_map_iff in H. destruct H as (kv & <- & _). reflexivity. Qed.

(* the store after a write, whether the call returned or a crash kept its batch *)
Lemma holds_write (h : list (bool * list entry)) v b a E : NoDup (map fst b) -> (forall e, In e E -> ets e <= v_seq v) ->
  (exists W, sel h W /\ explains W E) /\ ts_unique E ->
  (exists W, sel (h ++ [(a, batch_entries v b)]) W /\ explains W (E ++ batch_entries v b)) /\ ts_unique (E ++ batch_entries v b).
Proof.
  intros Hnd Hseq [(W & Hsel & Hex) Hu].
  assert (Hold : forall e, In e E -> ets e < v_seq v + 1) by (intros e He; specialize (Hseq e He); lia).
  assert (Hnd' : NoDup (map ek (batch_entries v b))) by (now rewrite batch_keys).
  split.
  - exists (W ++ [batch_entries v b]). split; [now apply sel_snoc_keep|].
    apply (explains_write W E _ (v_seq v + 1)); [exact Hold|apply batch_ts|exact Hnd'|exact Hex].
  - apply (ts_unique_write E _ (v_seq v + 1)); [exact Hold|apply batch_ts|exact Hnd'|exact Hu].
Qed.

Lemma holds_next v o c : accepted v o -> seq_ok v -> holds (all_entries v) c ->
  holds (all_entries (op_next v o)) (mkCfg (c_fs c) (c_v c) (hist_next v o true (c_hist c))).
Proof.
  intros Ha Hseq Hh. unfold holds in *. cbn [c_hist]. destruct o as [b| |gc ins outs]; unfold hist_next; cbn [op_batch].
  - destruct (holds_write (c_hist c) v b true (all_entries v) Ha Hseq Hh) as [(W & Hsel & Hex) Hu].
    assert (Heq : forall e, In e (all_entries v ++ batch_entries v b) <-> In e (all_entries (op_next v (OpWrite b))))
      by (intros e; symmetry; apply (all_entries_next v (OpWrite b)); discriminate).
    split; [exists W; split; [exact Hsel|eapply explains_set_eq; eauto]|].
    eapply ts_unique_incl; [|exact Hu]. intros e He. now apply Heq.
  - destruct Hh as [(W & Hsel & Hex) Hu].
    assert (Heq : forall e, In e (all_entries v) <-> In e (all_entries (op_next v OpFlush))).
    { intros e. rewrite (all_entries_next v OpFlush) by discriminate. cbn [op_batch]. now rewrite app_nil_r. }
    split; [exists W; split; [exact Hsel|eapply explains_set_eq; eauto]|].
    eapply ts_unique_incl; [|exact Hu]. intros e He. now apply Heq.
  - destruct Hh as [(W & Hsel & Hex) Hu]. destruct Ha as [Hok Hvis].
    pose proof (entries_after_sub v gc ins outs Hok) as Hsub.
    assert (Hu' : ts_unique (all_entries (op_next v (OpCompact gc ins outs)))) by (eapply ts_unique_incl; eauto).
    split; [|exact Hu']. exists W. split; [exact Hsel|].
    apply (explains_sub W (all_entries v)); [exact Hsub| |exact Hex].
    intros k x Hs. rewrite (shows_vis _ k x Hu' Hs), Hvis. apply vis_shows.
Qed.

Lemma holds_fault v o c : holds (all_entries v) c -> seq_ok v ->
  holds (all_entries (fault_next v o)) (mkCfg (c_fs c) (c_v c) (hist_next v o false (c_hist c))) /\ seq_ok (fault_next v o).
Proof.
  intros [(W & Hsel & Hex) Hu] Hseq. destruct o as [b| |gc ins outs]; unfold holds, hist_next; cbn [op_batch fault_next c_hist].
  - split; [split; [exists W; split; [now apply sel_snoc_drop|exact Hex]|exact Hu]|].
    intros e He. specialize (Hseq e He). cbn [v_seq]. lia.
  - split; [split; [exists W; auto|exact Hu]|exact Hseq].
  - split; [split; [exists W; auto|exact Hu]|exact Hseq].
Qed.

Lemma inv_step c c' : inv c -> step c c' -> inv c'.
Proof.
  intros Hi Hs. destruct Hs as [c s' Hv Hr Hok|c k img Hv Hc|c v o s' Hv Ha Hr Hok|c v o k img Hv Ha Hc|c v img Hv Hc|c v o j s' e Hv Ha Hr Hsame|c v o Hv Ha];
    unfold inv in *; rewrite Hv in Hi; cbn [c_v c_fs c_hist].
  - (* open *)
    destruct Hi as (E & Hg & ((W & Hsel & Hex) & Hu)).
    destruct (open_walk (c_fs c) E Hg) as [[_ (s'' & Hr' & HR & Hent)] _].
    rewrite Hr in Hr'. inversion Hr'; subst s''. split; [exact HR|]. split; [|apply seq_ok_open].
    split; [exists W; cbn [c_hist]; split; [exact Hsel|]|].
    + apply (explains_set_eq W E); [intros e; symmetry; apply Hent|exact Hex].
    + eapply ts_unique_incl; [|exact Hu]. intros e He. now apply Hent.
  - (* crash during recovery *)
    destruct Hi as (E & Hg & Hh).
    destruct (open_walk (c_fs c) E Hg) as [[Hp _] _].
    destruct (Hp None k img Hc) as [Hrec|(p & Hp' & _)]; [|discriminate].
    exists E. split; [eapply rec_good_image; eauto|exact Hh].
  - (* an operation completes *)
    destruct Hi as (HR & Hh & Hseq). pose proof (accepted_fs_ok v o Ha) as Hf.
    destruct (op_walk (c_fs c) v o HR Hf) as [_ Hq]. split; [now apply (Hq s' Hr)|]. split; [|now apply seq_ok_next].
    exact (holds_next v o c Ha Hseq Hh).
  - (* crash during an operation *)
    destruct Hi as (HR & Hh & Hseq). pose proof (accepted_fs_ok v o Ha) as Hf.
    destruct (op_walk (c_fs c) v o HR Hf) as [Hp _].
    destruct (Hp None k img Hc) as [Hrec|(p & Hp' & Hrec)].
    + (* the image holds the base: the entries before (write, flush), after (compaction) *)
      exists (op_base v o). split; [eapply rec_good_image; eauto|].
      destruct o as [b| |gc ins outs]; unfold holds, hist_next; cbn [op_base op_batch c_hist].
      * destruct Hh as [(W & Hsel & Hex) Hu]. split; [|exact Hu]. exists W. split; [now apply sel_snoc_drop|exact Hex].
      * exact Hh.
      * pose proof (holds_next v (OpCompact gc ins outs) c Ha Hseq Hh) as H. unfold holds, hist_next in H. cbn [op_batch c_hist] in H. exact H.
    + destruct o as [b| |gc ins outs]; cbn [op_pend op_base] in Hp', Hrec; [| discriminate|]; inversion Hp'; subst p.
      * exists (all_entries v ++ batch_entries v b). split; [eapply rec_good_image; eauto|].
        unfold holds, hist_next. cbn [op_batch c_hist]. apply holds_write; [exact Ha|exact Hseq|exact Hh].
      * (* the compaction's edit did not reach the disk: everything the store held before *)
        exists (all_entries v). split.
        -- eapply rec_good_image; [exact Hc|]. eapply rec_set_eq; [|exact Hrec].
           intros e. rewrite in_app_iff. split; [intros [H|H]; [|exact H]|now right].
           exact (entries_after_sub v gc ins outs Hf e H).
        -- exact Hh.
  - (* crash while idle *)
    destruct Hi as (HR & Hh & _). pose proof (run_good _ _ HR) as Hg.
    destruct (good_safe _ _ None Hg img Hc) as [Hrec|(p & Hp' & _)]; [|discriminate].
    exists (all_entries v). split; [eapply rec_good_image; eauto|exact Hh].
  - (* an error was returned; recovery's files are as before *)
    destruct Hi as (HR & Hh & Hseq).
    assert (Hw' : wf s') by (pose proof (run_prog_wf (fst (op_prog v (c_fs c) o)) (Some j) O (c_fs c) None (run_wf _ _ HR)) as H; now rewrite Hr in H).
    split; [apply run_fault_next; eapply run_same_rel; eauto|].
    apply (holds_fault v o c Hh Hseq).
  - (* refused *)
    destruct Hi as (HR & Hh & Hseq). split; [now apply run_fault_next|]. apply (holds_fault v o c Hh Hseq).
Qed.

Lemma inv_reach c : reach c -> inv c.
Proof.
  induction 1 as [|c c' _ IH Hs]; [|eapply inv_step; eauto].
  unfold inv, init_cfg. cbn. exists []. split; [exact good_empty|]. split; [|intros e e' []].
  exists []. split; [constructor|]. split; [|intros e []].
  intros k x [(e & [] & _)|[-> _]]. reflexivity.
Qed.

(* ------------------------------------------------------------------ the theorems *)
Theorem crash_safe c : reach c -> c_v c = None ->
  exists s', run (fst (fst (open_prog (c_fs c)))) (c_fs c) = (s', None) /\
             snd (open_prog (c_fs c)) = true /\
             Run s' (snd (fst (open_prog (c_fs c)))) /\
             exists W, sel (c_hist c) W /\ explains W (all_entries (snd (fst (open_prog (c_fs c))))).
Proof.
  intros Hr Hv. pose proof (inv_reach c Hr) as Hi. unfold inv in Hi. rewrite Hv in Hi.
  destruct Hi as (E & Hg & ((W & Hsel & Hex) & _)).
  destruct (open_walk (c_fs c) E Hg) as [[_ (s' & Hrun & HR & Hent)] Hok].
  exists s'. split; [exact Hrun|]. split; [exact Hok|]. split; [exact HR|].
  exists W. split; [exact Hsel|]. apply (explains_set_eq W E); [intros e; symmetry; apply Hent|exact Hex].
Qed.

(* while the store is open every key reads as the last write to it among the acknowledged batches
   and whole in-flight ones, and the store holds nothing else *)
Theorem open_store_contents c v : reach c -> c_v c = Some v ->
  Run (c_fs c) v /\ exists W, sel (c_hist c) W /\ explains W (all_entries v).
Proof.
  intros Hr Hv. pose proof (inv_reach c Hr) as Hi. unfold inv in Hi. rewrite Hv in Hi.
  destruct Hi as (HR & ((W & Hsel & Hex) & _) & _). split; [exact HR|]. exists W. auto.
Qed.

(* no two different entries of the open store carry the same key and timestamp (what `newest`, and
   the hypothesis of `merge_accepted`, rely on) *)
Theorem timestamps_unique c v : reach c -> c_v c = Some v -> ts_unique (all_entries v).
Proof.
  intros Hr Hv. pose proof (inv_reach c Hr) as Hi. unfold inv in Hi. rewrite Hv in Hi.
  destruct Hi as (_ & (_ & Hu) & _). exact Hu.
Qed.

(* the sequence number of the next write is larger than every timestamp the store holds *)
Theorem sequence_numbers_fresh c v : reach c -> c_v c = Some v ->
  forall e, In e (all_entries v) -> ets e < v_seq v + 1.
Proof.
  intros Hr Hv e He. pose proof (inv_reach c Hr) as Hi. unfold inv in Hi. rewrite Hv in Hi.
  destruct Hi as (_ & _ & Hs). specialize (Hs e He). lia.
Qed.

(* ------------------------------------------------------------------ the executable reading of an image *)
Lemma in_log_entries_raw s e : In e (log_entries s) <-> exists n f, In (NLog n, f) s /\ In e (file_log_entries f).
Proof.
  induction s as [|[m g] s IH]; cbn [log_entries].
  - split; [intros []|intros (n & f & [] & _)].
  - destruct m;
      try (rewrite IH; split;
           [intros (n0 & f & H & He); exists n0, f; split; [now right|exact He]
           |intros (n0 & f & [H|H] & He); [discriminate|exists n0, f; auto]]).
    rewrite in_app_iff, IH. split.
    + intros [H|(n0 & f & H & He)]; [exists n, g; split; [now left|exact H]|exists n0, f; split; [now right|exact He]].
    + intros (n0 & f & [H|H] & He); [inversion H; subst; now left|right; eauto].
Qed.

Lemma rec_disk_entries s E : Rec s E -> forall e, In e (disk_entries s) <-> In e E.
Proof.
  intros (Hw & _ & _ & C) e. rewrite (C e). unfold disk_entries. rewrite in_app_iff, in_concat, in_log_entries_raw.
  split; (intros [H|(n & f & H & He)]; [now left|right]); exists n, f; (split; [|exact He]).
  - now apply in_lookup.
  - now apply lookup_in.
Qed.

(* ------------------------------------------------------------------ injected I/O errors *)
(* a single I/O error injected at the k-th call of an operation that would otherwise succeed is
   returned to the caller, unless the Rust deliberately drops the result of that call *)
Definition dropped (m : mode) : Prop := m = Ignore \/ m = Retire.

Lemma run_ok_tail c m p s : run ((c, m) :: p) s = (fst (run ((c, m) :: p) s), None) ->
  run p (exec_or c s) = (fst (run p (exec_or c s)), None).
Proof.
  unfold run, exec_or. cbn [run_prog]. rewrite retire_suppressed_none. intros H.
  assert (G : forall t, snd (run_prog p None O t None) = None -> run_prog p None O t None = (fst (run_prog p None O t None), None))
    by (intros t Ht; destruct (run_prog p None O t None); cbn in *; now subst).
  destruct (exec c s) as [s1|] eqn:E1.
  - apply G. destruct m; rewrite H; reflexivity.
  - apply G. destruct m; try (rewrite H; reflexivity).
    + cbn in H. discriminate.
    + exfalso. pose proof (deferred_stays p None n s EIo) as Hd. rewrite H in Hd. now apply Hd.
    + exfalso. pose proof (deferred_stays p None n s (late_err None)) as Hd. rewrite H in Hd. now apply Hd.
Qed.

Lemma fault_surfaced_prog p : forall k s, run p s = (fst (run p s), None) ->
  (k < length p)%nat -> ~ dropped (snd (nth k p (CSync NMani, Must))) ->
  snd (run_prog p (Some k) O s None) <> None.
Proof.
  induction p as [|[c m] p IH]; intros k s Hrun Hk Hm; [cbn in Hk; lia|].
  pose proof (run_ok_tail c m p s Hrun) as Htail. unfold exec_or in Htail.
  cbn [run_prog]. rewrite retire_suppressed_none. destruct k as [|k].
  - cbn [nth snd] in Hm. destruct m; try discriminate.
    + exfalso. apply Hm. now left.
    + exfalso. apply Hm. now right.
    + apply deferred_stays.
    + apply deferred_stays.
  - cbn [nth] in Hm. cbn [length] in Hk.
    unfold run in Hrun. cbn [run_prog] in Hrun. rewrite retire_suppressed_none in Hrun.
    destruct (exec c s) as [s1|] eqn:E1.
    + destruct m; (apply IH; [exact Htail|lia|exact Hm]).
    + destruct m; try (apply IH; [exact Htail|lia|exact Hm]).
      * cbn in Hrun. discriminate.
      * exfalso. pose proof (deferred_stays p None n s EIo) as H. rewrite Hrun in H. now apply H.
      * exfalso. pose proof (deferred_stays p None n s (late_err None)) as H. rewrite Hrun in H. now apply H.
Qed.
