(* Crash/ProofsLts.v — the life of a store directory as a transition system: open, write, flush,
   compaction, and a crash at ANY system call of any of them (recovery included), under any cut of
   the unsynced data, any number of times.  Ghost fields record what was acknowledged and which
   batches were in flight at some crash. *)
From Coq Require Import NArith List Bool Arith Lia Permutation.
From Blue Require Import Lsm.Model Lsm.KeyOrder Lsm.SortLemmas Crash.Model Crash.ProofsFs Crash.ProofsInv
  Crash.ProofsSteps Crash.ProofsOps Crash.ProofsOpen Crash.ProofsCompact.
Import ListNotations.
Open Scope N_scope.

(* ------------------------------------------------------------------ sublists *)
Inductive sub {A : Type} : list A -> list A -> Prop :=
| sub_nil : sub [] []
| sub_skip x a b : sub a b -> sub a (x :: b)
| sub_keep x a b : sub a b -> sub (x :: a) (x :: b).

Lemma sub_refl {A} (l : list A) : sub l l.
Proof. induction l; constructor; assumption. Qed.

Lemma sub_app_skip {A} (a b : list A) x : sub a b -> sub a (b ++ [x]).
Proof. induction 1; cbn; [apply sub_skip, sub_nil|now apply sub_skip|now apply sub_keep]. Qed.

Lemma sub_app_keep {A} (a b : list A) x : sub a b -> sub (a ++ [x]) (b ++ [x]).
Proof. induction 1; cbn; [apply sub_keep, sub_nil|now apply sub_skip|now apply sub_keep]. Qed.

Lemma sub_in {A} (a b : list A) x : sub a b -> In x a -> In x b.
Proof. induction 1; cbn; intuition. Qed.

(* ------------------------------------------------------------------ operations *)
Definition accepted (v : vstate) (o : op) : Prop :=
  match o with OpCompact _ ins outs => compact_ok v ins outs | _ => True end.

Definition op_batch (v : vstate) (o : op) : option (list entry) :=
  match o with OpWrite b => Some (batch_entries v b) | _ => None end.

Lemma op_walk s v o : Run s v -> accepted v o ->
  walk (fst (op_prog v s o)) s (all_entries v) (op_batch v o)
       (fun s' => snd (op_prog v s o) = true -> Run s' (op_next v o)).
Proof.
  intros R Ha. destruct o as [b| |gc ins outs]; cbn [op_prog op_batch fst snd].
  - eapply walk_conseq; [|apply write_walk, R]. auto.
  - apply flush_walk, R.
  - eapply walk_conseq; [|apply compact_walk; [exact R|exact Ha]]. auto.
Qed.

Lemma all_entries_next v o : accepted v o -> forall e,
  In e (all_entries (op_next v o)) <->
  In e (all_entries v ++ match op_batch v o with Some p => p | None => [] end).
Proof.
  intros Ha e. destruct o as [b| |gc ins outs]; cbn [op_next op_batch]; unfold all_entries; cbn [v_mem v_files].
  - rewrite !in_app_iff. tauto.
  - rewrite app_nil_r. cbn [app]. rewrite in_app_iff, !in_concat. split.
    + intros (x & Hx & He). apply in_apply_edit in Hx. destruct Hx as [[Hx _]|[<-|[]]]; [right; eauto|].
      left. now apply in_sort_entries.
    + intros [H|(x & Hx & He)].
      * exists (sort_entries (v_mem v)). split; [apply in_apply_edit; right; now left|now apply in_sort_entries].
      * exists x. split; [apply in_apply_edit; left; split; [exact Hx|intros []]|exact He].
  - rewrite app_nil_r. rewrite !in_app_iff, !in_concat. destruct Ha as [Hincl Hents].
    split; (intros [H|(x & Hx & He)]; [now left|right]).
    + apply in_apply_edit in Hx. destruct Hx as [[Hx _]|Hx]; [eauto|].
      assert (Hc : In e (concat ins)) by (apply Hents, in_concat; eauto).
      apply in_concat in Hc. destruct Hc as (z & Hz & Hez). exists z. split; [now apply Hincl|exact Hez].
    + destruct (mem_sname x ins) eqn:Em.
      * apply mem_sname_in in Em.
        assert (Hc : In e (concat outs)) by (apply Hents, in_concat; eauto).
        apply in_concat in Hc. destruct Hc as (z & Hz & Hez). exists z. split; [apply in_apply_edit; now right|exact Hez].
      * apply mem_sname_not_in in Em. exists x. split; [apply in_apply_edit; left; auto|exact He].
Qed.

(* ------------------------------------------------------------------ configurations *)
Record cfg := mkCfg {
  c_fs : fs;
  c_v : option vstate;              (* the open store; None = the process is down *)
  c_ack : list (list entry);        (* ghost: the batches whose write call returned Ok, in order *)
  c_fly : list (list entry)         (* ghost: the batches that were in flight at some crash *)
}.

Definition init_cfg : cfg := mkCfg [] None [] [].

Definition ack_next (v : vstate) (o : op) (ack : list (list entry)) : list (list entry) :=
  match op_batch v o with Some p => ack ++ [p] | None => ack end.

Inductive step : cfg -> cfg -> Prop :=
| step_open c s' :
    c_v c = None -> run (fst (fst (open_prog (c_fs c)))) (c_fs c) = (s', None) -> snd (open_prog (c_fs c)) = true ->
    step c (mkCfg s' (Some (snd (fst (open_prog (c_fs c))))) (c_ack c) (c_fly c))
| step_open_crash c k img :
    c_v c = None -> cut (prefix_state (fst (fst (open_prog (c_fs c)))) k (c_fs c)) img ->
    step c (mkCfg img None (c_ack c) (c_fly c))
| step_op c v o s' :
    c_v c = Some v -> accepted v o ->
    run (fst (op_prog v (c_fs c) o)) (c_fs c) = (s', None) -> snd (op_prog v (c_fs c) o) = true ->
    step c (mkCfg s' (Some (op_next v o)) (ack_next v o (c_ack c)) (c_fly c))
| step_op_crash c v o k img :
    c_v c = Some v -> accepted v o ->
    cut (prefix_state (fst (op_prog v (c_fs c) o)) k (c_fs c)) img ->
    step c (mkCfg img None (c_ack c) (ack_next v o (c_fly c)))
| step_crash c v img :
    c_v c = Some v -> cut (c_fs c) img ->
    step c (mkCfg img None (c_ack c) (c_fly c)).

Inductive reach : cfg -> Prop :=
| reach_init : reach init_cfg
| reach_step c c' : reach c -> step c c' -> reach c'.

(* ------------------------------------------------------------------ the invariant *)
Definition holds (E : list entry) (c : cfg) : Prop :=
  exists ch, sub ch (c_fly c) /\ forall e, In e E <-> In e (concat (c_ack c) ++ concat ch).

(* every timestamp in the store is at most state.seq_no: the next write gets a larger one *)
Definition seq_ok (v : vstate) : Prop := forall e, In e (all_entries v) -> ets e <= v_seq v.

Definition inv (c : cfg) : Prop :=
  match c_v c with
  | Some v => Run (c_fs c) v /\ holds (all_entries v) c /\ seq_ok v
  | None => exists E, Good (c_fs c) E /\ holds E c
  end.

Lemma max_ts_ge e l : In e l -> ets e <= max_ts l.
Proof.
  unfold max_ts. induction l as [|x l IH]; [intros []|]. cbn [fold_right]. intros [<-|H]; [lia|]. specialize (IH H). lia.
Qed.

Lemma seq_ok_open s : seq_ok (snd (fst (open_prog s))).
Proof.
  unfold open_prog. destruct (recover_calls _ _) as [c3 rec]. cbn [fst snd].
  intros e He. unfold all_entries in He. cbn [v_mem v_files v_seq app] in *.
  apply max_ts_ge in He. lia.
Qed.

Lemma seq_ok_next v o : accepted v o -> seq_ok v -> seq_ok (op_next v o).
Proof.
  intros Ha Hs e He. apply (all_entries_next v o Ha e) in He. apply in_app_or in He.
  assert (Hle : v_seq v <= v_seq (op_next v o)) by (destruct o; cbn [op_next v_seq]; lia).
  destruct He as [He|He].
  - specialize (Hs e He). lia.
  - destruct o as [b| |gc ins outs]; cbn [op_batch] in He; try destruct He.
    unfold batch_entries in He. apply in_map_iff in He. destruct He as (kv & <- & _). cbn [op_next v_seq ets]. lia.
Qed.

Lemma good_empty : Good [] [].
Proof.
  split; [intros n f _ H; discriminate|]. split; [constructor|]. split; [intros x f H; discriminate|].
  split; [intros x []|]. intros e. split; [intros []|]. intros [(x & [] & _)|(n & f & H & _)]. discriminate.
Qed.

Lemma rec_good_image s img E : cut s img -> Rec img E -> Good img E.
Proof. intros Hc Hr. split; [eapply cut_stable; eauto|exact Hr]. Qed.

Lemma inv_step c c' : inv c -> step c c' -> inv c'.
Proof.
  intros Hi Hs. destruct Hs as [c s' Hv Hr Hok|c k img Hv Hc|c v o s' Hv Ha Hr Hok|c v o k img Hv Ha Hc|c v img Hv Hc];
    unfold inv in *; rewrite Hv in Hi; cbn [c_v c_fs c_ack c_fly].
  - (* open *)
    destruct Hi as (E & Hg & (ch & Hsub & HE)).
    destruct (open_walk (c_fs c) E Hg) as [[_ (s'' & Hr' & HR & Hent)] _].
    rewrite Hr in Hr'. inversion Hr'; subst s''. split; [exact HR|]. split; [|apply seq_ok_open].
    exists ch. cbn [c_ack c_fly]. split; [exact Hsub|]. intros e. rewrite Hent. apply HE.
  - (* crash during recovery *)
    destruct Hi as (E & Hg & Hh).
    destruct (open_walk (c_fs c) E Hg) as [[Hp _] _].
    destruct (Hp None k img Hc) as [Hrec|(p & Hp' & _)]; [|discriminate].
    exists E. split; [eapply rec_good_image; eauto|exact Hh].
  - (* an operation completes *)
    destruct Hi as (HR & (ch & Hsub & HE) & Hseq).
    destruct (op_walk (c_fs c) v o HR Ha) as [_ Hq]. split; [now apply (Hq s' Hr)|]. split; [|now apply seq_ok_next].
    exists ch. cbn [c_ack c_fly]. split; [exact Hsub|]. intros e. rewrite (all_entries_next v o Ha e). unfold ack_next.
    destruct (op_batch v o) as [p|].
    + rewrite concat_app. cbn [concat]. rewrite app_nil_r, !in_app_iff, (HE e), in_app_iff. tauto.
    + rewrite app_nil_r. apply HE.
  - (* crash during an operation *)
    destruct Hi as (HR & (ch & Hsub & HE) & _).
    destruct (op_walk (c_fs c) v o HR Ha) as [Hp _].
    destruct (Hp None k img Hc) as [Hrec|(p & Hp' & Hrec)].
    + exists (all_entries v). split; [eapply rec_good_image; eauto|].
      exists ch. cbn [c_ack c_fly]. split; [|exact HE]. unfold ack_next. destruct (op_batch v o); [now apply sub_app_skip|exact Hsub].
    + exists (all_entries v ++ p). split; [eapply rec_good_image; eauto|].
      exists (ch ++ [p]). cbn [c_ack c_fly]. unfold ack_next. rewrite Hp'. split; [now apply sub_app_keep|].
      intros e. rewrite concat_app. cbn [concat]. rewrite app_nil_r, !in_app_iff, (HE e), in_app_iff. tauto.
  - (* crash while idle *)
    destruct Hi as (HR & Hh & _). pose proof (run_good _ _ HR) as Hg.
    destruct (good_safe _ _ None Hg img Hc) as [Hrec|(p & Hp' & _)]; [|discriminate].
    exists (all_entries v). split; [eapply rec_good_image; eauto|exact Hh].
Qed.

Lemma inv_reach c : reach c -> inv c.
Proof.
  induction 1 as [|c c' _ IH Hs]; [|eapply inv_step; eauto].
  unfold inv, init_cfg. cbn. exists []. split; [exact good_empty|]. exists []. split; [constructor|]. cbn. tauto.
Qed.

(* ------------------------------------------------------------------ the theorems *)
Theorem crash_safe c : reach c -> c_v c = None ->
  exists s', run (fst (fst (open_prog (c_fs c)))) (c_fs c) = (s', None) /\
             snd (open_prog (c_fs c)) = true /\
             Run s' (snd (fst (open_prog (c_fs c)))) /\
             exists ch, sub ch (c_fly c) /\
               forall e, In e (all_entries (snd (fst (open_prog (c_fs c))))) <-> In e (concat (c_ack c) ++ concat ch).
Proof.
  intros Hr Hv. pose proof (inv_reach c Hr) as Hi. unfold inv in Hi. rewrite Hv in Hi.
  destruct Hi as (E & Hg & (ch & Hsub & HE)).
  destruct (open_walk (c_fs c) E Hg) as [[_ (s' & Hrun & HR & Hent)] Hok].
  exists s'. split; [exact Hrun|]. split; [exact Hok|]. split; [exact HR|].
  exists ch. split; [exact Hsub|]. intros e. rewrite Hent. apply HE.
Qed.

(* while the store is open its contents are the acknowledged batches plus whole in-flight ones *)
Theorem open_store_contents c v : reach c -> c_v c = Some v ->
  Run (c_fs c) v /\ exists ch, sub ch (c_fly c) /\
    forall e, In e (all_entries v) <-> In e (concat (c_ack c) ++ concat ch).
Proof.
  intros Hr Hv. pose proof (inv_reach c Hr) as Hi. unfold inv in Hi. rewrite Hv in Hi. tauto.
Qed.

(* the sequence number of the next write is larger than every timestamp the store holds *)
Theorem sequence_numbers_fresh c v : reach c -> c_v c = Some v ->
  forall e, In e (all_entries v) -> ets e < v_seq v + 1.
Proof.
  intros Hr Hv e He. pose proof (inv_reach c Hr) as Hi. unfold inv in Hi. rewrite Hv in Hi.
  destruct Hi as (_ & _ & Hs). specialize (Hs e He). lia.
Qed.

(* ------------------------------------------------------------------ the executable reading of an image *)
Lemma in_log_entries_raw s e : In e (log_entries s) <-> exists n f, In (NLog n, f) s /\ In e (file_log_entries f).
Proof.
  induction s as [|[m g] s IH]; cbn [log_entries].
  - split; [intros []|intros (n & f & [] & _)].
  - destruct m;
      try (rewrite IH; split;
           [intros (n0 & f & H & He); exists n0, f; split; [now right|exact He]
           |intros (n0 & f & [H|H] & He); [discriminate|exists n0, f; auto]]).
    rewrite in_app_iff, IH. split.
    + intros [H|(n0 & f & H & He)]; [exists n, g; split; [now left|exact H]|exists n0, f; split; [now right|exact He]].
    + intros (n0 & f & [H|H] & He); [inversion H; subst; now left|right; eauto].
Qed.

Lemma rec_disk_entries s E : Rec s E -> forall e, In e (disk_entries s) <-> In e E.
Proof.
  intros (Hw & _ & _ & C) e. rewrite (C e). unfold disk_entries. rewrite in_app_iff, in_concat, in_log_entries_raw.
  split; (intros [H|(n & f & H & He)]; [now left|right]); exists n, f; (split; [|exact He]).
  - now apply in_lookup.
  - now apply lookup_in.
Qed.

(* ------------------------------------------------------------------ injected I/O errors *)
Lemma deferred_stays p : forall f k s e, snd (run_prog p f k s (Some e)) <> None.
Proof.
  induction p as [|[c m] p IH]; intros f k s e; cbn [run_prog]; [discriminate|].
  destruct k; [|apply IH].
  destruct m; try (apply IH);
    (destruct (if match f with Some O => true | _ => false end then None else exec c s); [apply IH|]);
    try (apply IH); try discriminate.
  destruct (match f with Some O => true | _ => false end); [discriminate|apply IH].
Qed.

(* a single I/O error injected at the k-th call of an operation that would otherwise succeed is
   returned to the caller, unless the Rust deliberately drops the result of that call *)
Definition dropped (m : mode) : Prop := m = Ignore \/ m = Retire.

Lemma run_ok_tail c m p s : run ((c, m) :: p) s = (fst (run ((c, m) :: p) s), None) ->
  run p (exec_or c s) = (fst (run p (exec_or c s)), None).
Proof.
  unfold run, exec_or. cbn [run_prog]. intros H.
  assert (G : forall t, snd (run_prog p None O t None) = None -> run_prog p None O t None = (fst (run_prog p None O t None), None))
    by (intros t Ht; destruct (run_prog p None O t None); cbn in *; now subst).
  destruct (exec c s) as [s1|] eqn:E1.
  - apply G. destruct m; rewrite H; reflexivity.
  - apply G. destruct m; try (rewrite H; reflexivity).
    + cbn in H. discriminate.
    + exfalso. pose proof (deferred_stays p None n s EIo) as Hd. rewrite H in Hd. now apply Hd.
Qed.

Lemma fault_surfaced_prog p : forall k s, run p s = (fst (run p s), None) ->
  (k < length p)%nat -> ~ dropped (snd (nth k p (CSync NMani, Must))) ->
  snd (run_prog p (Some k) O s None) <> None.
Proof.
  induction p as [|[c m] p IH]; intros k s Hrun Hk Hm; [cbn in Hk; lia|].
  pose proof (run_ok_tail c m p s Hrun) as Htail. unfold exec_or in Htail.
  cbn [run_prog]. destruct k as [|k].
  - cbn [nth snd] in Hm. destruct m; try discriminate.
    + exfalso. apply Hm. now left.
    + exfalso. apply Hm. now right.
    + apply deferred_stays.
  - cbn [nth] in Hm. cbn [length] in Hk.
    unfold run in Hrun. cbn [run_prog] in Hrun.
    destruct (exec c s) as [s1|] eqn:E1.
    + destruct m; (apply IH; [exact Htail|lia|exact Hm]).
    + destruct m; try (apply IH; [exact Htail|lia|exact Hm]).
      * cbn in Hrun. discriminate.
      * exfalso. pose proof (deferred_stays p None n s EIo) as H. rewrite Hrun in H. now apply H.
Qed.
