(* Props_C14.v — the property theorems for C14 and nothing else.
   C14: "Setsum is an order-independent, invertible, composable multiset checksum".
   `H` is SHA3-256 (external code): any function producing 32 bytes. *)
From Coq Require Import NArith List Permutation.
From Blue Require Import Gen.Const_Setsum Setsum.Model Setsum.Proofs.
Import ListNotations.
Open Scope N_scope.

Definition hash_ok (H : list N -> list N) : Prop :=
  forall x, bytes_ok (H x) /\ length (H x) = 32%nat.

(* the setsum of a multiset does not depend on insertion order *)
Theorem C14_order_independent : forall H, hash_ok H -> forall xs ys,
  Permutation xs ys -> setsum_of H xs = setsum_of H ys.
Proof. intros H Hok xs ys P. exact (fold_insert_perm H Hok xs ys P zero zero_canonical). Qed.

(* the setsum of a union is the sum of the setsums *)
Theorem C14_union : forall H, hash_ok H -> forall xs ys,
  setsum_of H (xs ++ ys) = add_state (setsum_of H xs) (setsum_of H ys).
Proof. exact setsum_union. Qed.

(* removing an item undoes inserting it (and never panics on canonical states) *)
Theorem C14_remove_undoes_insert : forall H, hash_ok H -> forall s x,
  canonical s -> remove H (insert H s x) x = Some s.
Proof. exact remove_insert. Qed.

(* vectored items: the pieces behave as their concatenation, however the item is split *)
Theorem C14_vectored_is_concat : forall H s pieces,
  insert_vectored H s pieces = insert H s (concat pieces).
Proof. exact insert_vectored_concat. Qed.

(* subtraction undoes addition, both ways round *)
Theorem C14_sub_undoes_add : forall a b, canonical a -> canonical b ->
  sub_state (add_state a b) b = Some a.
Proof. exact sub_add. Qed.

Theorem C14_add_undoes_sub : forall a b s, canonical a -> canonical b ->
  sub_state a b = Some s -> add_state s b = a.
Proof. exact add_sub. Qed.

(* abelian group laws *)
Theorem C14_group_laws : forall a b c, canonical a -> canonical b -> canonical c ->
  add_state a b = add_state b a /\
  add_state (add_state a b) c = add_state a (add_state b c) /\
  add_state a zero = a /\
  sub_state a a = Some zero.
Proof.
  intros a b c Ha Hb Hc.
  exact (conj (add_comm a b) (conj (add_assoc a b c Ha Hb Hc) (conj (add_zero_r a Ha) (sub_self a Ha)))).
Qed.

(* digests and hex digests round-trip *)
Theorem C14_digest_roundtrip : forall s, canonical s ->
  from_digest (digest s) = s /\ from_hexdigest (hexdigest s) = Some s.
Proof. intros s Hs. exact (conj (from_digest_digest s Hs) (from_hexdigest_hexdigest s Hs)). Qed.

Theorem C14_digest_of_from_digest : forall d, bytes_ok d -> length d = 32%nat ->
  canonical (words d) -> digest (from_digest d) = d.
Proof. exact digest_from_digest. Qed.

(* every value the library can produce is canonical: all constructors and operations preserve it,
   including from_digest / from_hexdigest on ARBITRARY 32-byte / 64-char inputs *)
Theorem C14_all_values_canonical : forall H, hash_ok H ->
  canonical zero /\
  (forall a b, canonical a -> canonical b -> canonical (add_state a b)) /\
  (forall a b s, canonical a -> canonical b -> sub_state a b = Some s -> canonical s) /\
  (forall s x, canonical s -> canonical (insert H s x)) /\
  (forall s x s', canonical s -> remove H s x = Some s' -> canonical s') /\
  (forall d, bytes_ok d -> length d = 32%nat -> canonical (from_digest d)) /\
  (forall cs s, from_hexdigest cs = Some s -> canonical s).
Proof.
  intros H Hok.
  exact (conj zero_canonical (conj add_canonical (conj sub_canonical
        (conj (insert_canonical H Hok) (conj (remove_canonical H Hok)
        (conj from_digest_canonical from_hexdigest_canonical)))))).
Qed.

(* no sequence of operations panics (u32 underflow in invert_state is unreachable) *)
Theorem C14_no_panic : forall ops, Forall op_ok ops -> ~ In OutPanic (run_case ops).
Proof.
  intros ops Hops. apply run_never_panics; [|exact Hops].
  repeat constructor; exact zero_canonical.
Qed.

(* the value equals the published definition *)
Theorem C14_matches_definition : forall H, hash_ok H -> forall items,
  setsum_of H items = setsum_spec H items.
Proof. exact setsum_matches_definition. Qed.

(* ---- non-vacuity: the hypotheses are satisfiable by concrete, non-trivial objects ---- *)
Definition H_example (x : list N) : list N :=
  map (fun i => (i * 37 + N.of_nat (length x) * 101 + 250) mod 256) (map N.of_nat (seq 0 32)).

Example hash_ok_example : hash_ok H_example.
Proof.
  intros x. split.
  - unfold bytes_ok, H_example. apply Forall_forall. intros b Hin.
    apply in_map_iff in Hin. destruct Hin as (i & <- & _). apply N.mod_upper_bound. discriminate.
  - unfold H_example. now rewrite !map_length, seq_length.
Qed.

Example canonical_example :
  canonical (setsum_of H_example [[1;2;3]; []; [255]]) /\
  setsum_of H_example [[1;2;3]; []; [255]] <> zero /\
  setsum_of H_example [[1;2;3]; []; [255]] = setsum_of H_example [[255]; [1;2;3]; []].
Proof.
  split; [apply setsum_of_canonical, hash_ok_example|].
  split; [vm_compute; discriminate | vm_compute; reflexivity].
Qed.
