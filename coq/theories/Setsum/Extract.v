(* Extraction of the executable Setsum model for the correspondence check.
   Directives in force: those of ExtrOcamlBasic only (bool, option, unit, list, prod, sumbool,
   sumor extracted to OCaml's own; N, positive, nat stay inductive).  No Extract Constant of ours. *)
From Coq Require Import NArith List.
From Blue Require Import Setsum.Model.
Require Import ExtrOcamlBasic.
Extraction Language OCaml.
Extraction "../ocaml/setsum/gen_setsum.ml" run_case N.of_nat N.to_nat.
