(* Setsum/Model.v — executable model of setsum/src/lib.rs and sst/src/setsum.rs.
   Definitions only (no proofs) so that the model still extracts and runs when a proof breaks.
   Transcribes the Rust function by function; u32/u64 arithmetic is written out explicitly:
   truncation `as u32` is `mod 2^32`, u32 subtraction underflow is the explicit result None
   (a panic in builds with overflow checks). *)
From Coq Require Import NArith List Bool.
From Blue Require Import Gen.Const_Setsum.
Import ListNotations.
Open Scope N_scope.

Definition W32 : N := 4294967296.
Definition primes : list N := SETSUM_PRIMES.

(* add_state, one column: sum in u64, one conditional subtraction, `as u32` *)
Definition add_col (p a b : N) : N :=
  let s := a + b in (if p <=? s then s - p else s) mod W32.

(* invert_state, one column: SETSUM_PRIMES[i] - state[i] in u32 (None = overflow panic) *)
Definition inv_col (p a : N) : option N := if a <=? p then Some (p - a) else None.

Fixpoint map3 {A} (f : N -> N -> N -> A) (ps xs ys : list N) : list A :=
  match ps, xs, ys with
  | p :: ps', x :: xs', y :: ys' => f p x y :: map3 f ps' xs' ys'
  | _, _, _ => []
  end.

Fixpoint map2o (f : N -> N -> option N) (ps xs : list N) : option (list N) :=
  match ps, xs with
  | p :: ps', x :: xs' =>
      match f p x, map2o f ps' xs' with
      | Some c, Some r => Some (c :: r)
      | _, _ => None
      end
  | _, _ => Some []
  end.

Definition state := list N.
Definition zero : state := map (fun _ => 0) primes.
Definition add_state (a b : state) : state := map3 add_col primes a b.
Definition invert_state (a : state) : option state := map2o inv_col primes a.

(* Sub / SubAssign / remove: invert the rhs, then add *)
Definition sub_state (a b : state) : option state :=
  match invert_state b with Some ib => Some (add_state a ib) | None => None end.

(* little-endian words *)
Definition le32_of (c : N) : list N :=
  [c mod 256; (c / 256) mod 256; (c / 65536) mod 256; (c / 16777216) mod 256].
Definition of_le32 (b0 b1 b2 b3 : N) : N := b0 + 256 * b1 + 65536 * b2 + 16777216 * b3.

Fixpoint words (bs : list N) : list N :=
  match bs with
  | b0 :: b1 :: b2 :: b3 :: r => of_le32 b0 b1 b2 b3 :: words r
  | _ => []
  end.

(* the reduction used by hash_to_state (and, since the fix for F10, by from_digest):
   one conditional subtraction *)
Definition reduce_col (p num : N) : N := if p <=? num then num - p else num.

Fixpoint map2 (f : N -> N -> N) (ps xs : list N) : list N :=
  match ps, xs with
  | p :: ps', x :: xs' => f p x :: map2 f ps' xs'
  | _, _ => []
  end.

(* hash_to_state: `hash` is the 32-byte SHA3-256 output *)
Definition hash_to_state (hash : list N) : state := map2 reduce_col primes (words hash).

Definition digest (s : state) : list N := flat_map le32_of s.
Definition from_digest (d : list N) : state := map2 reduce_col primes (words d).

(* hex *)
Definition hexchar (n : N) : N := if n <? 10 then 48 + n else 87 + n.   (* '0'.. / 'a'.. *)
Definition hexbyte (b : N) : list N := [hexchar (b / 16); hexchar (b mod 16)].
Definition hexdigest (s : state) : list N := flat_map hexbyte (digest s).

Definition hexval (c : N) : option N :=
  if (48 <=? c) && (c <=? 57) then Some (c - 48)
  else if (97 <=? c) && (c <=? 102) then Some (c - 87)
  else if (65 <=? c) && (c <=? 70) then Some (c - 55)
  else None.

(* u8::from_str_radix(two chars, 16): a leading '+' is accepted by Rust's integer parser *)
Definition parse_pair (c0 c1 : N) : option N :=
  if c0 =? 43 then hexval c1
  else match hexval c0, hexval c1 with
       | Some h, Some l => Some (16 * h + l)
       | _, _ => None
       end.

Fixpoint parse_pairs (cs : list N) : option (list N) :=
  match cs with
  | [] => Some []
  | c0 :: c1 :: r =>
      match parse_pair c0 c1 with
      | Some b => match parse_pairs r with Some bs => Some (b :: bs) | None => None end
      | None => None
      end
  | _ => None
  end.

(* from_hexdigest on the BYTES of the string: 64 bytes, each pair a hex byte.  A string that is not
   ASCII holds a byte >= 128, which is no hex digit, so the result is None - as in the Rust since
   a22f7bf (before it, the byte-offset slicing of the &str panicked off a character boundary). *)
Definition from_hexdigest (cs : list N) : option state :=
  if N.of_nat (length cs) =? 2 * SETSUM_BYTES then
    match parse_pairs cs with Some d => Some (from_digest d) | None => None end
  else None.

(* The hash is external code (SHA3-256): a Section variable, never an axiom. *)
Section WithHash.
  Variable H : list N -> list N.

  (* insert_vectored hashes the pieces in order through one hasher: H of the concatenation *)
  Definition item_vectored_to_state (pieces : list (list N)) : state :=
    hash_to_state (H (concat pieces)).
  Definition insert_vectored (s : state) (pieces : list (list N)) : state :=
    add_state s (item_vectored_to_state pieces).
  Definition insert (s : state) (item : list N) : state := insert_vectored s [item].
  Definition remove_vectored (s : state) (pieces : list (list N)) : option state :=
    sub_state s (item_vectored_to_state pieces).
  Definition remove (s : state) (item : list N) : option state := remove_vectored s [item].

  Definition setsum_of (items : list (list N)) : state := fold_left insert items zero.

  (* sst/src/setsum.rs framing *)
  Definition le64_of (t : N) : list N :=
    [t mod 256; (t / 256) mod 256; (t / 65536) mod 256; (t / 16777216) mod 256;
     (t / 4294967296) mod 256; (t / 1099511627776) mod 256; (t / 281474976710656) mod 256;
     (t / 72057594037927936) mod 256].
  Definition kv_put (s : state) (k : list N) (ts : N) (v : list N) : state :=
    insert_vectored s [[8]; k; le64_of ts; v].
  Definition kv_del (s : state) (k : list N) (ts : N) : state :=
    insert_vectored s [[9]; k; le64_of ts].

  (* The published definition: per column, the sum of the little-endian words of the item
     hashes, reduced modulo that column's prime. *)
  Definition col_sum (i : nat) (items : list (list N)) : N :=
    fold_right (fun it acc => nth i (words (H it)) 0 + acc) 0 items.
  Fixpoint spec_cols (i : nat) (ps : list N) (items : list (list N)) : list N :=
    match ps with
    | [] => []
    | p :: ps' => (col_sum i items) mod p :: spec_cols (S i) ps' items
    end.
  Definition setsum_spec (items : list (list N)) : state := spec_cols 0 primes items.
End WithHash.

(* A small register machine used by the correspondence check: the same op lists are run on the
   Rust Setsum.  Items arrive already hashed (the harness supplies SHA3 digests computed by an
   independent implementation), so the machine is hash-free. *)
Inductive op :=
| OIns (r : nat) (hash : list N)        (* r.insert / insert_vectored, given H(item) *)
| ORem (r : nat) (hash : list N)
| OAdd (r a b : nat)                    (* r := a + b *)
| OSub (r a b : nat)                    (* r := a - b *)
| OFromDigest (r : nat) (d : list N)
| OFromHex (r : nat) (cs : list N)      (* None leaves r unchanged and outputs "none" *)
| OOut (r : nat).                       (* output hexdigest *)

Inductive outv := OutHex (cs : list N) | OutNone | OutPanic.

Fixpoint set_nth (n : nat) (x : state) (l : list state) : list state :=
  match n, l with
  | O, _ :: t => x :: t
  | S n', h :: t => h :: set_nth n' x t
  | _, [] => []
  end.

Definition step (regs : list state) (o : op) : option (list state * list outv) :=
  match o with
  | OIns r h => Some (set_nth r (add_state (nth r regs zero) (hash_to_state h)) regs, [])
  | ORem r h =>
      match sub_state (nth r regs zero) (hash_to_state h) with
      | Some s => Some (set_nth r s regs, [])
      | None => None
      end
  | OAdd r a b => Some (set_nth r (add_state (nth a regs zero) (nth b regs zero)) regs, [])
  | OSub r a b =>
      match sub_state (nth a regs zero) (nth b regs zero) with
      | Some s => Some (set_nth r s regs, [])
      | None => None
      end
  | OFromDigest r d => Some (set_nth r (from_digest d) regs, [])
  | OFromHex r cs =>
      match from_hexdigest cs with
      | Some s => Some (set_nth r s regs, [])
      | None => Some (regs, [OutNone])
      end
  | OOut r => Some (regs, [OutHex (hexdigest (nth r regs zero))])
  end.

Fixpoint run (regs : list state) (ops : list op) : list outv :=
  match ops with
  | [] => []
  | o :: ops' =>
      match step regs o with
      | Some (regs', out) => out ++ run regs' ops'
      | None => [OutPanic]
      end
  end.

Definition run_case (ops : list op) : list outv := run [zero; zero; zero; zero] ops.
