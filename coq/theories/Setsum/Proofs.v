(* Setsum/Proofs.v — lemmas about Setsum/Model.v *)
From Coq Require Import NArith Arith List Bool Lia Permutation.
From Blue Require Import Gen.Const_Setsum Setsum.Model.
Import ListNotations.
Open Scope N_scope.

Arguments N.add : simpl never.
Arguments N.sub : simpl never.
Arguments N.mul : simpl never.
Arguments N.div : simpl never.
Arguments N.modulo : simpl never.
Arguments N.leb : simpl never.
Arguments N.ltb : simpl never.
Arguments N.eqb : simpl never.

(* ------------------------------------------------------------------ columns *)
Definition good_prime (p : N) : Prop := 2147483648 <= p /\ p <= W32.

Lemma add_col_spec p a b : good_prime p -> a < p -> b < p ->
  add_col p a b = (a + b) mod p /\ add_col p a b < p.
Proof.
  unfold good_prime, add_col, W32; intros [Hlo Hhi] Ha Hb.
  destruct (N.leb_spec p (a + b)) as [Hle|Hlt].
  - rewrite N.mod_small by lia.
    assert (E : (a + b) mod p = a + b - p).
    { symmetry. apply (N.mod_unique (a + b) p 1 (a + b - p)); lia. }
    rewrite E; lia.
  - rewrite N.mod_small by lia. rewrite (N.mod_small (a + b) p) by lia. lia.
Qed.

Lemma add_col_lt p a b : good_prime p -> a < p -> b < p -> add_col p a b < p.
Proof. intros; now apply add_col_spec. Qed.

Lemma add_col_comm p a b : add_col p a b = add_col p b a.
Proof. unfold add_col. now rewrite (N.add_comm a b). Qed.

Lemma add_col_assoc p a b c : good_prime p -> a < p -> b < p -> c < p ->
  add_col p (add_col p a b) c = add_col p a (add_col p b c).
Proof.
  intros Hp Ha Hb Hc.
  destruct (add_col_spec p a b Hp Ha Hb) as [E1 L1].
  destruct (add_col_spec p b c Hp Hb Hc) as [E2 L2].
  destruct (add_col_spec p _ c Hp L1 Hc) as [E3 _].
  destruct (add_col_spec p a _ Hp Ha L2) as [E4 _].
  rewrite E3, E4, E1, E2.
  assert (p <> 0) by (destruct Hp; unfold W32 in *; lia).
  rewrite N.add_mod_idemp_l, N.add_mod_idemp_r by assumption.
  now rewrite N.add_assoc.
Qed.

Lemma add_col_0_r p a : good_prime p -> a < p -> add_col p a 0 = a.
Proof.
  intros Hp Ha. unfold add_col. rewrite N.add_0_r.
  destruct (N.leb_spec p a); [lia|]. destruct Hp. unfold W32 in *. apply N.mod_small; lia.
Qed.

(* the inverse may be p itself (for a = 0): `p - 0`, which add_col then absorbs *)
Lemma inv_col_some p a : a < p -> inv_col p a = Some (p - a).
Proof. intros. unfold inv_col. destruct (N.leb_spec a p); [reflexivity|lia]. Qed.

Lemma add_col_inv_gen p a b : good_prime p -> a < p -> b < p ->
  add_col p (add_col p a b) (p - b) = a.
Proof.
  intros Hp Ha Hb. destruct Hp as [Hlo Hhi]. unfold add_col, W32 in *.
  destruct (N.leb_spec p (a + b)).
  - rewrite (N.mod_small (a + b - p)) by lia.
    destruct (N.leb_spec p (a + b - p + (p - b))); rewrite N.mod_small; lia.
  - rewrite (N.mod_small (a + b)) by lia.
    destruct (N.leb_spec p (a + b + (p - b))); rewrite N.mod_small; lia.
Qed.

Lemma add_col_inv_self p a : good_prime p -> a < p -> add_col p a (p - a) = 0.
Proof.
  intros [Hlo Hhi] Ha. unfold add_col, W32 in *.
  destruct (N.leb_spec p (a + (p - a))); [|lia]. rewrite N.mod_small; lia.
Qed.

(* adding a (possibly equal to p) inverse keeps the column canonical *)
Lemma add_col_lt_inv p a b : good_prime p -> a < p -> b < p -> add_col p a (p - b) < p.
Proof.
  intros [Hlo Hhi] Ha Hb. unfold add_col, W32 in *.
  destruct (N.leb_spec p (a + (p - b))); rewrite N.mod_small; lia.
Qed.

Lemma reduce_col_lt p n : good_prime p -> n < W32 -> reduce_col p n < p.
Proof.
  intros [Hlo Hhi] Hn. unfold reduce_col, W32 in *. destruct (N.leb_spec p n); lia.
Qed.

Lemma reduce_col_mod p n : good_prime p -> n < W32 -> reduce_col p n = n mod p.
Proof.
  intros [Hlo Hhi] Hn. unfold reduce_col, W32 in *. destruct (N.leb_spec p n).
  - apply (N.mod_unique n p 1 (n - p)); lia.
  - now rewrite N.mod_small.
Qed.

Lemma reduce_col_id p n : n < p -> reduce_col p n = n.
Proof. intros. unfold reduce_col. destruct (N.leb_spec p n); lia. Qed.

(* ------------------------------------------------------------------ states over any prime list *)
Definition canon (ps : list N) (s : list N) : Prop := Forall2 (fun p c => c < p) ps s.
Definition good_primes (ps : list N) : Prop := Forall good_prime ps.

Lemma canon_length ps s : canon ps s -> length s = length ps.
Proof. induction 1; cbn; congruence. Qed.

Section Lists.
  Variable ps0 : list N.

  Lemma map3_add_canon ps a b : good_primes ps -> canon ps a -> canon ps b ->
    canon ps (map3 add_col ps a b).
  Proof.
    intros Hp Ha; revert b; induction Ha as [|p x ps a Hx Ha IH]; intros b Hb; inversion Hb; subst; cbn.
    - constructor.
    - inversion Hp; subst. constructor; [apply add_col_lt; assumption | apply IH; assumption].
  Qed.

  Lemma map3_add_comm ps a b : map3 add_col ps a b = map3 add_col ps b a.
  Proof.
    revert a b; induction ps as [|p ps IH]; intros [|x a] [|y b]; cbn; try reflexivity.
    now rewrite add_col_comm, IH.
  Qed.

  Lemma map3_add_assoc ps a b c : good_primes ps -> canon ps a -> canon ps b -> canon ps c ->
    map3 add_col ps (map3 add_col ps a b) c = map3 add_col ps a (map3 add_col ps b c).
  Proof.
    intros Hp Ha; revert b c; induction Ha as [|p x ps a Hx Ha IH]; intros b c Hb Hc;
      inversion Hb; inversion Hc; subst; cbn; try reflexivity.
    inversion Hp; subst. rewrite add_col_assoc by assumption. f_equal. now apply IH.
  Qed.

  Lemma map3_add_zero ps a : good_primes ps -> canon ps a ->
    map3 add_col ps a (map (fun _ => 0) ps) = a.
  Proof.
    intros Hp Ha; induction Ha as [|p x ps a Hx Ha IH]; cbn; [reflexivity|].
    inversion Hp; subst. rewrite add_col_0_r by assumption. f_equal. now apply IH.
  Qed.

  Lemma zero_canon ps : good_primes ps -> canon ps (map (fun _ => 0) ps).
  Proof.
    induction 1 as [|p ps Hp _ IH]; cbn; constructor; [|exact IH].
    destruct Hp; lia.
  Qed.

  Lemma map2o_inv_some ps a : canon ps a ->
    map2o inv_col ps a = Some (map2 (fun p c => p - c) ps a).
  Proof.
    induction 1 as [|p x ps a Hx Ha IH]; cbn; [reflexivity|].
    rewrite inv_col_some by assumption. now rewrite IH.
  Qed.

  Lemma map3_add_inv_canon ps a b : good_primes ps -> canon ps a -> canon ps b ->
    canon ps (map3 add_col ps a (map2 (fun p c => p - c) ps b)).
  Proof.
    intros Hp Ha; revert b; induction Ha as [|p x ps a Hx Ha IH]; intros b Hb; inversion Hb; subst; cbn.
    - constructor.
    - inversion Hp; subst. constructor; [apply add_col_lt_inv; assumption | apply IH; assumption].
  Qed.

  Lemma map3_add_sub ps a b : good_primes ps -> canon ps a -> canon ps b ->
    map3 add_col ps (map3 add_col ps a b) (map2 (fun p c => p - c) ps b) = a.
  Proof.
    intros Hp Ha; revert b; induction Ha as [|p x ps a Hx Ha IH]; intros b Hb; inversion Hb; subst; cbn.
    - reflexivity.
    - inversion Hp; subst. rewrite add_col_inv_gen by assumption. f_equal. now apply IH.
  Qed.

  Lemma map3_add_inv_self ps a : good_primes ps -> canon ps a ->
    map3 add_col ps a (map2 (fun p c => p - c) ps a) = map (fun _ => 0) ps.
  Proof.
    intros Hp Ha; induction Ha as [|p x ps a Hx Ha IH]; cbn; [reflexivity|].
    inversion Hp; subst. rewrite add_col_inv_self by assumption. f_equal. now apply IH.
  Qed.

  (* reduction of a word list *)
  Lemma map2_reduce_canon ps ws : good_primes ps -> Forall (fun w => w < W32) ws ->
    length ws = length ps -> canon ps (map2 reduce_col ps ws).
  Proof.
    intros Hp; revert ws; induction Hp as [|p ps Hp1 Hp IH]; intros [|w ws] Hw Hl; cbn in *; try discriminate.
    - constructor.
    - inversion Hw; subst. constructor; [now apply reduce_col_lt | apply IH; [assumption|lia]].
  Qed.

  Lemma map2_reduce_id ps s : canon ps s -> map2 reduce_col ps s = s.
  Proof.
    induction 1 as [|p x ps a Hx Ha IH]; cbn; [reflexivity|]. now rewrite reduce_col_id, IH.
  Qed.
End Lists.

(* ------------------------------------------------------------------ the concrete primes *)
Definition good_primeb (p : N) : bool := (2147483648 <=? p) && (p <=? W32).

Lemma primes_good : good_primes primes.
Proof.
  assert (H : forallb good_primeb primes = true) by (vm_compute; reflexivity).
  unfold good_primes. apply Forall_forall. intros p Hin.
  rewrite forallb_forall in H. specialize (H p Hin). unfold good_primeb in H.
  apply andb_prop in H. destruct H as [H1 H2].
  apply N.leb_le in H1. apply N.leb_le in H2. split; assumption.
Qed.

Lemma primes_length : length primes = N.to_nat SETSUM_COLUMNS.
Proof. vm_compute. reflexivity. Qed.

Lemma bytes_cols : SETSUM_BYTES = SETSUM_BYTES_PER_COLUMN * SETSUM_COLUMNS /\ SETSUM_BYTES_PER_COLUMN = 4.
Proof. vm_compute. split; reflexivity. Qed.

Definition canonical (s : state) : Prop := canon primes s.

Lemma zero_canonical : canonical zero.
Proof. apply zero_canon, primes_good. Qed.

Lemma add_canonical a b : canonical a -> canonical b -> canonical (add_state a b).
Proof. apply map3_add_canon, primes_good. Qed.

Lemma add_comm a b : add_state a b = add_state b a.
Proof. apply map3_add_comm. Qed.

Lemma add_assoc a b c : canonical a -> canonical b -> canonical c ->
  add_state (add_state a b) c = add_state a (add_state b c).
Proof. apply map3_add_assoc, primes_good. Qed.

Lemma add_zero_r a : canonical a -> add_state a zero = a.
Proof. apply map3_add_zero, primes_good. Qed.

Lemma add_zero_l a : canonical a -> add_state zero a = a.
Proof. intros. rewrite add_comm. now apply add_zero_r. Qed.

Lemma invert_some a : canonical a -> invert_state a = Some (map2 (fun p c => p - c) primes a).
Proof. apply map2o_inv_some. Qed.

Lemma sub_some a b : canonical b ->
  sub_state a b = Some (add_state a (map2 (fun p c => p - c) primes b)).
Proof. intros Hb. unfold sub_state. now rewrite invert_some. Qed.

Lemma sub_canonical a b s : canonical a -> canonical b -> sub_state a b = Some s -> canonical s.
Proof.
  intros Ha Hb. rewrite sub_some by assumption. intros E.
  assert (E' : s = add_state a (map2 (fun p c => p - c) primes b)) by congruence. subst s.
  apply map3_add_inv_canon; auto using primes_good.
Qed.

Lemma sub_add a b : canonical a -> canonical b -> sub_state (add_state a b) b = Some a.
Proof.
  intros Ha Hb. rewrite sub_some by assumption. f_equal.
  apply map3_add_sub; auto using primes_good.
Qed.

Lemma sub_self a : canonical a -> sub_state a a = Some zero.
Proof.
  intros Ha. rewrite sub_some by assumption. f_equal.
  apply map3_add_inv_self; auto using primes_good.
Qed.

(* add after sub: (a - b) + b = a *)
Lemma add_col_sub_add p a b : good_prime p -> a < p -> b < p ->
  add_col p (add_col p a (p - b)) b = a.
Proof.
  intros [Hlo Hhi] Ha Hb. unfold add_col, W32 in *.
  destruct (N.leb_spec p (a + (p - b))).
  - rewrite (N.mod_small (a + (p - b) - p)) by lia.
    destruct (N.leb_spec p (a + (p - b) - p + b)); rewrite N.mod_small; lia.
  - rewrite (N.mod_small (a + (p - b))) by lia.
    destruct (N.leb_spec p (a + (p - b) + b)); rewrite N.mod_small; lia.
Qed.

Lemma map3_sub_add ps a b : good_primes ps -> canon ps a -> canon ps b ->
  map3 add_col ps (map3 add_col ps a (map2 (fun p c => p - c) ps b)) b = a.
Proof.
  intros Hp Ha; revert b; induction Ha as [|p x ps a Hx Ha IH]; intros b Hb; inversion Hb; subst; cbn.
  - reflexivity.
  - inversion Hp; subst. rewrite add_col_sub_add by assumption. f_equal. now apply IH.
Qed.

Lemma add_sub a b s : canonical a -> canonical b -> sub_state a b = Some s -> add_state s b = a.
Proof.
  intros Ha Hb Hs.
  rewrite sub_some in Hs by assumption.
  assert (E' : s = add_state a (map2 (fun p c => p - c) primes b)) by congruence. subst s.
  apply map3_sub_add; auto using primes_good.
Qed.

(* ------------------------------------------------------------------ words and digests *)
Definition bytes_ok (bs : list N) : Prop := Forall (fun b => b < 256) bs.

Lemma of_le32_lt b0 b1 b2 b3 : b0 < 256 -> b1 < 256 -> b2 < 256 -> b3 < 256 -> of_le32 b0 b1 b2 b3 < W32.
Proof. unfold of_le32, W32. lia. Qed.

Lemma words_ok bs : bytes_ok bs -> Forall (fun w => w < W32) (words bs).
Proof.
  unfold bytes_ok. revert bs. fix IH 1. intros [|b0 [|b1 [|b2 [|b3 r]]]] Hb; cbn; try constructor.
  - inversion Hb as [|? ? H0 Hb1]; subst. inversion Hb1 as [|? ? H1 Hb2]; subst.
    inversion Hb2 as [|? ? H2 Hb3]; subst. inversion Hb3 as [|? ? H3 Hb4]; subst.
    now apply of_le32_lt.
  - apply IH. inversion Hb as [|? ? H0 Hb1]; subst. inversion Hb1 as [|? ? H1 Hb2]; subst.
    inversion Hb2 as [|? ? H2 Hb3]; subst. inversion Hb3 as [|? ? H3 Hb4]; subst. assumption.
Qed.

Lemma words_length bs n : length bs = (4 * n)%nat -> length (words bs) = n.
Proof.
  revert bs. induction n as [|n IH]; intros bs Hl.
  - destruct bs; [reflexivity|discriminate].
  - destruct bs as [|b0 [|b1 [|b2 [|b3 r]]]]; cbn in Hl; try lia.
    cbn. f_equal. apply IH. lia.
Qed.

Lemma le32_roundtrip c : c < W32 ->
  match le32_of c with [b0; b1; b2; b3] => of_le32 b0 b1 b2 b3 = c | _ => False end.
Proof.
  unfold le32_of, of_le32, W32. intros Hc.
  pose proof (N.div_mod c 256 ltac:(lia)).
  pose proof (N.div_mod (c / 256) 256 ltac:(lia)).
  pose proof (N.div_mod (c / 256 / 256) 256 ltac:(lia)).
  replace (c / 65536) with (c / 256 / 256) by (rewrite N.div_div by lia; reflexivity).
  replace (c / 16777216) with (c / 256 / 256 / 256) by (rewrite !N.div_div by lia; reflexivity).
  assert (c / 256 / 256 / 256 < 256).
  { rewrite !N.div_div by lia. apply N.div_lt_upper_bound; lia. }
  rewrite (N.mod_small (c / 256 / 256 / 256)) by assumption.
  pose proof (N.mod_upper_bound c 256 ltac:(lia)).
  pose proof (N.mod_upper_bound (c / 256) 256 ltac:(lia)).
  pose proof (N.mod_upper_bound (c / 256 / 256) 256 ltac:(lia)).
  lia.
Qed.

Lemma le32_bytes_ok c : bytes_ok (le32_of c).
Proof.
  unfold bytes_ok, le32_of. repeat constructor; apply N.mod_upper_bound; lia.
Qed.

Lemma of_le32_inj_le32 b0 b1 b2 b3 : b0 < 256 -> b1 < 256 -> b2 < 256 -> b3 < 256 ->
  le32_of (of_le32 b0 b1 b2 b3) = [b0; b1; b2; b3].
Proof.
  intros H0 H1 H2 H3. unfold le32_of, of_le32.
  assert (E0 : (b0 + 256 * b1 + 65536 * b2 + 16777216 * b3) mod 256 = b0).
  { symmetry. apply (N.mod_unique _ 256 (b1 + 256 * b2 + 65536 * b3)); lia. }
  assert (D1 : (b0 + 256 * b1 + 65536 * b2 + 16777216 * b3) / 256 = b1 + 256 * b2 + 65536 * b3).
  { symmetry. apply (N.div_unique _ 256 _ b0); lia. }
  assert (D2 : (b0 + 256 * b1 + 65536 * b2 + 16777216 * b3) / 65536 = b2 + 256 * b3).
  { symmetry. apply (N.div_unique _ 65536 _ (b0 + 256 * b1)); lia. }
  assert (D3 : (b0 + 256 * b1 + 65536 * b2 + 16777216 * b3) / 16777216 = b3).
  { symmetry. apply (N.div_unique _ 16777216 _ (b0 + 256 * b1 + 65536 * b2)); lia. }
  rewrite E0, D1, D2, D3.
  assert (E1 : (b1 + 256 * b2 + 65536 * b3) mod 256 = b1).
  { symmetry. apply (N.mod_unique _ 256 (b2 + 256 * b3)); lia. }
  assert (E2 : (b2 + 256 * b3) mod 256 = b2).
  { symmetry. apply (N.mod_unique _ 256 b3); lia. }
  rewrite E1, E2, (N.mod_small b3) by lia. reflexivity.
Qed.

Lemma words_digest s : Forall (fun c => c < W32) s -> words (digest s) = s.
Proof.
  unfold digest. induction 1 as [|c s Hc Hs IH]; [reflexivity|].
  cbn [flat_map]. pose proof (le32_roundtrip c Hc) as R.
  destruct (le32_of c) as [|b0 [|b1 [|b2 [|b3 [|? ?]]]]] eqn:E; try contradiction.
  cbn [app words]. now rewrite R, IH.
Qed.

Lemma digest_words bs n : bytes_ok bs -> length bs = (4 * n)%nat -> digest (words bs) = bs.
Proof.
  unfold digest. revert bs. induction n as [|n IH]; intros bs Hb Hl.
  - destruct bs; [reflexivity|discriminate].
  - destruct bs as [|b0 [|b1 [|b2 [|b3 r]]]]; cbn in Hl; try lia.
    unfold bytes_ok in Hb.
    inversion Hb as [|? ? H0 Hb1]; subst. inversion Hb1 as [|? ? H1 Hb2]; subst.
    inversion Hb2 as [|? ? H2 Hb3]; subst. inversion Hb3 as [|? ? H3 Hb4]; subst.
    cbn [words flat_map]. rewrite of_le32_inj_le32 by assumption. cbn [app].
    do 4 f_equal. apply IH; [assumption|lia].
Qed.

Lemma canonical_lt_W32 s : canonical s -> Forall (fun c => c < W32) s.
Proof.
  unfold canonical. generalize primes_good. generalize primes as ps. intros ps Hp Hc.
  induction Hc as [|p c ps s Hc Hs IH]; constructor.
  - inversion Hp as [|? ? [_ Hhi] _]; subst. lia.
  - apply IH. now inversion Hp.
Qed.

Lemma canonical_length s : canonical s -> length s = 8%nat.
Proof. intros Hc. rewrite (canon_length _ _ Hc). vm_compute. reflexivity. Qed.

Lemma digest_length s : length s = 8%nat -> length (digest s) = 32%nat.
Proof.
  intros Hl. do 9 (destruct s as [|? s]; cbn in Hl; try lia). reflexivity.
Qed.

Lemma digest_bytes_ok s : bytes_ok (digest s).
Proof.
  unfold digest, bytes_ok. induction s as [|c s IH]; cbn [flat_map]; [constructor|].
  apply Forall_app; split; [apply le32_bytes_ok|exact IH].
Qed.

Lemma from_digest_canonical d : bytes_ok d -> length d = 32%nat -> canonical (from_digest d).
Proof.
  intros Hb Hl. unfold from_digest, canonical.
  apply map2_reduce_canon; [apply primes_good | now apply words_ok |].
  rewrite (words_length d 8) by (rewrite Hl; reflexivity). vm_compute. reflexivity.
Qed.

Lemma from_digest_digest s : canonical s -> from_digest (digest s) = s.
Proof.
  intros Hc. unfold from_digest. rewrite words_digest by now apply canonical_lt_W32.
  now apply map2_reduce_id.
Qed.

Lemma hash_to_state_canonical h : bytes_ok h -> length h = 32%nat -> canonical (hash_to_state h).
Proof. exact (from_digest_canonical h). Qed.

(* digest . from_digest is the identity exactly on canonical digests *)
Lemma digest_from_digest d : bytes_ok d -> length d = 32%nat -> canonical (words d) ->
  digest (from_digest d) = d.
Proof.
  intros Hb Hl Hc. unfold from_digest. rewrite map2_reduce_id by exact Hc.
  apply (digest_words d 8); [assumption| rewrite Hl; reflexivity].
Qed.

(* ------------------------------------------------------------------ hex *)
Lemma hexval_hexchar n : n < 16 -> hexval (hexchar n) = Some n.
Proof.
  intros Hn. unfold hexval, hexchar.
  destruct (N.ltb_spec n 10).
  - replace ((48 <=? 48 + n) && (48 + n <=? 57)) with true.
    + f_equal. lia.
    + symmetry. apply andb_true_intro. split; apply N.leb_le; lia.
  - replace ((48 <=? 87 + n) && (87 + n <=? 57)) with false.
    + replace ((97 <=? 87 + n) && (87 + n <=? 102)) with true.
      * f_equal. lia.
      * symmetry. apply andb_true_intro. split; apply N.leb_le; lia.
    + symmetry. apply andb_false_intro2. apply N.leb_gt. lia.
Qed.

Lemma hexchar_not_plus n : n < 16 -> hexchar n =? 43 = false.
Proof. intros. unfold hexchar. destruct (N.ltb_spec n 10); apply N.eqb_neq; lia. Qed.

Lemma parse_pair_hexbyte b : b < 256 ->
  match hexbyte b with [c0; c1] => parse_pair c0 c1 = Some b | _ => False end.
Proof.
  intros Hb. unfold hexbyte, parse_pair.
  assert (b / 16 < 16) by (apply N.div_lt_upper_bound; lia).
  assert (b mod 16 < 16) by (apply N.mod_upper_bound; lia).
  rewrite hexchar_not_plus, !hexval_hexchar by assumption.
  f_equal. pose proof (N.div_mod b 16 ltac:(lia)). lia.
Qed.

Lemma parse_pairs_hex bs : bytes_ok bs -> parse_pairs (flat_map hexbyte bs) = Some bs.
Proof.
  induction 1 as [|b bs Hb Hbs IH]; [reflexivity|].
  cbn [flat_map]. pose proof (parse_pair_hexbyte b Hb) as P.
  unfold hexbyte in *. cbn [app parse_pairs]. now rewrite P, IH.
Qed.

Lemma hexdigest_length s : length s = 8%nat -> length (hexdigest s) = 64%nat.
Proof.
  intros Hl. unfold hexdigest.
  pose proof (digest_length s Hl) as Hd. revert Hd. generalize (digest s). intros d Hd.
  do 33 (destruct d as [|? d]; cbn in Hd; try lia). reflexivity.
Qed.

Lemma from_hexdigest_hexdigest s : canonical s -> from_hexdigest (hexdigest s) = Some s.
Proof.
  intros Hc. unfold from_hexdigest.
  rewrite (hexdigest_length s (canonical_length s Hc)).
  replace (N.of_nat 64 =? 2 * SETSUM_BYTES) with true by (vm_compute; reflexivity).
  unfold hexdigest. rewrite parse_pairs_hex by apply digest_bytes_ok.
  now rewrite from_digest_digest.
Qed.

Lemma skipn_S_tl {A} i (l : list A) w ws : skipn i l = w :: ws -> skipn (S i) l = ws.
Proof.
  revert l. induction i as [|i IH]; intros l E.
  - cbn in E. subst l. reflexivity.
  - destruct l as [|x l]; [discriminate|]. cbn [skipn] in E. apply IH in E. exact E.
Qed.

(* ------------------------------------------------------------------ multisets of items *)
Section WithHash.
  Variable H : list N -> list N.
  Hypothesis H_ok : forall x, bytes_ok (H x) /\ length (H x) = 32%nat.

  Lemma item_canonical pieces : canonical (item_vectored_to_state H pieces).
  Proof. unfold item_vectored_to_state. destruct (H_ok (concat pieces)). now apply hash_to_state_canonical. Qed.

  Lemma insert_canonical s x : canonical s -> canonical (insert H s x).
  Proof. intros. apply add_canonical; [assumption|apply item_canonical]. Qed.

  Lemma insert_vectored_canonical s ps : canonical s -> canonical (insert_vectored H s ps).
  Proof. intros. apply add_canonical; [assumption|apply item_canonical]. Qed.

  Lemma insert_vectored_concat s pieces : insert_vectored H s pieces = insert H s (concat pieces).
  Proof. unfold insert, insert_vectored, item_vectored_to_state. cbn [concat]. now rewrite app_nil_r. Qed.

  Lemma fold_insert_canonical xs s : canonical s -> canonical (fold_left (insert H) xs s).
  Proof. revert s; induction xs as [|x xs IH]; intros s Hs; cbn; [assumption|]. apply IH, insert_canonical, Hs. Qed.

  Lemma setsum_of_canonical xs : canonical (setsum_of H xs).
  Proof. apply fold_insert_canonical, zero_canonical. Qed.

  Lemma insert_insert_comm s x y : canonical s -> insert H (insert H s x) y = insert H (insert H s y) x.
  Proof.
    intros Hs. unfold insert, insert_vectored.
    rewrite !add_assoc by (try assumption; apply item_canonical).
    f_equal. apply add_comm.
  Qed.

  Lemma fold_insert_perm xs ys : Permutation xs ys -> forall s, canonical s ->
    fold_left (insert H) xs s = fold_left (insert H) ys s.
  Proof.
    induction 1 as [|x xs ys _ IH|x y xs|xs ys zs _ IH1 _ IH2]; intros s Hs; cbn [fold_left].
    - reflexivity.
    - apply IH, insert_canonical, Hs.
    - now rewrite (insert_insert_comm s y x).
    - rewrite IH1 by assumption. now apply IH2.
  Qed.

  Lemma fold_insert_add xs : forall s, canonical s ->
    fold_left (insert H) xs s = add_state s (setsum_of H xs).
  Proof.
    unfold setsum_of. induction xs as [|x xs IH]; intros s Hs; cbn [fold_left].
    - now rewrite add_zero_r.
    - rewrite IH by (apply insert_canonical, Hs).
      rewrite (IH (insert H zero x)) by (apply insert_canonical, zero_canonical).
      unfold insert, insert_vectored.
      rewrite (add_zero_l (item_vectored_to_state H [x])) by apply item_canonical.
      apply add_assoc; [assumption|apply item_canonical|].
      apply fold_insert_canonical, zero_canonical.
  Qed.

  Lemma setsum_union xs ys : setsum_of H (xs ++ ys) = add_state (setsum_of H xs) (setsum_of H ys).
  Proof.
    unfold setsum_of at 1. rewrite fold_left_app. apply fold_insert_add, setsum_of_canonical.
  Qed.

  Lemma remove_insert s x : canonical s -> remove H (insert H s x) x = Some s.
  Proof.
    intros Hs. unfold remove, remove_vectored, insert, insert_vectored.
    apply sub_add; [assumption|apply item_canonical].
  Qed.

  Lemma remove_canonical s x s' : canonical s -> remove H s x = Some s' -> canonical s'.
  Proof. intros Hs. unfold remove, remove_vectored. apply sub_canonical; [assumption|apply item_canonical]. Qed.

  Lemma remove_total s x : canonical s -> exists s', remove H s x = Some s'.
  Proof. intros Hs. unfold remove, remove_vectored. rewrite sub_some by apply item_canonical. eauto. Qed.

  (* ---- the published definition ---- *)
  Lemma add_col_mod p a b : good_prime p -> a < p -> b < p -> add_col p a b = (a + b) mod p.
  Proof. intros; now apply add_col_spec. Qed.

  Lemma spec_cols_insert_gen ps : good_primes ps -> forall i ws x items,
    ws = skipn i (words (H x)) -> Forall (fun w => w < W32) ws -> (length ps <= length ws)%nat ->
    spec_cols H i ps (x :: items) =
    map3 add_col ps (spec_cols H i ps items) (map2 reduce_col ps ws).
  Proof.
    induction 1 as [|p ps Hp Hps IH]; intros i ws x items Hws Hok Hlen; [reflexivity|].
    destruct ws as [|w ws]; [cbn in Hlen; lia|].
    cbn [spec_cols map2 map3]. inversion Hok; subst.
    assert (Hnth : nth i (words (H x)) 0 = w).
    { rewrite <- (firstn_skipn i (words (H x))) at 1.
      assert (Hl : length (firstn i (words (H x))) = i).
      { apply firstn_length_le.
        assert (length (skipn i (words (H x))) = S (length ws)) by (rewrite <- Hws; reflexivity).
        rewrite skipn_length in *. lia. }
      rewrite app_nth2 by lia. rewrite Hl, Nat.sub_diag, <- Hws. reflexivity. }
    assert (Hp0 : p <> 0) by (destruct Hp; lia).
    f_equal.
    - cbn [col_sum fold_right]. fold (col_sum H i items). rewrite Hnth.
      rewrite add_col_mod; [|assumption|now apply N.mod_upper_bound|now apply reduce_col_lt].
      rewrite reduce_col_mod by assumption.
      rewrite N.add_mod_idemp_l, N.add_mod_idemp_r by assumption. f_equal. lia.
    - apply IH.
      + symmetry. apply skipn_S_tl with (w := w). now rewrite <- Hws.
      + assumption.
      + cbn in Hlen. lia.
  Qed.

  Lemma spec_cols_nil ps i : good_primes ps -> spec_cols H i ps [] = map (fun _ => 0) ps.
  Proof.
    intros Hp. revert i. induction Hp as [|p ps Hp Hps IH]; intros i; cbn; [reflexivity|].
    rewrite IH. f_equal; try (apply N.mod_0_l; destruct Hp; lia).
  Qed.

  Lemma setsum_spec_cons x items :
    setsum_spec H (x :: items) = add_state (setsum_spec H items) (item_vectored_to_state H [x]).
  Proof.
    unfold setsum_spec, add_state, item_vectored_to_state, hash_to_state. cbn [concat]. rewrite app_nil_r.
    destruct (H_ok x) as [Hb Hl].
    apply spec_cols_insert_gen; [apply primes_good|reflexivity|now apply words_ok|].
    cbn [skipn]. rewrite (words_length (H x) 8) by (rewrite Hl; reflexivity). vm_compute. lia.
  Qed.

  Lemma setsum_spec_canonical items : canonical (setsum_spec H items).
  Proof.
    induction items as [|x items IH].
    - unfold setsum_spec. rewrite spec_cols_nil by apply primes_good. apply zero_canonical.
    - rewrite setsum_spec_cons. apply add_canonical; [assumption|apply item_canonical].
  Qed.

  Lemma setsum_matches_definition items : setsum_of H items = setsum_spec H items.
  Proof.
    (* fold_left over items = fold over reversed list; the spec is order independent by construction *)
    assert (G : forall items, setsum_of H (rev items) = setsum_spec H items).
    { induction items0 as [|x its IH].
      - unfold setsum_of, setsum_spec. cbn [rev fold_left]. now rewrite spec_cols_nil by apply primes_good.
      - cbn [rev]. rewrite setsum_union, IH, setsum_spec_cons. f_equal.
        unfold setsum_of. cbn [fold_left]. unfold insert, insert_vectored. apply add_zero_l, item_canonical. }
    rewrite <- (G items). apply fold_insert_perm; [apply Permutation_rev|apply zero_canonical].
  Qed.
End WithHash.

(* ------------------------------------------------------------------ the register machine never panics *)
Definition regs_ok (regs : list state) : Prop := Forall canonical regs.

Lemma nth_regs_ok regs r : regs_ok regs -> canonical (nth r regs zero).
Proof.
  intros Hr. destruct (Nat.lt_ge_cases r (length regs)) as [Hlt|Hge].
  - unfold regs_ok in Hr. rewrite Forall_forall in Hr. apply Hr, nth_In, Hlt.
  - rewrite nth_overflow by assumption. apply zero_canonical.
Qed.

Lemma set_nth_ok regs r s : regs_ok regs -> canonical s -> regs_ok (set_nth r s regs).
Proof.
  intros Hr Hs. revert r. induction Hr as [|x regs Hx Hr IH]; intros [|r]; cbn [set_nth].
  - constructor.
  - constructor.
  - constructor; assumption.
  - constructor; [assumption|apply IH].
Qed.

Definition op_ok (o : op) : Prop :=
  match o with
  | OIns _ h | ORem _ h => bytes_ok h /\ length h = 32%nat
  | OFromDigest _ d => bytes_ok d /\ length d = 32%nat
  | OFromHex _ cs => True
  | _ => True
  end.

Lemma parse_pair_lt c0 c1 b : parse_pair c0 c1 = Some b -> b < 256.
Proof.
  unfold parse_pair, hexval.
  destruct (c0 =? 43).
  - repeat match goal with |- context [if ?c then _ else _] => destruct c eqn:? end; intros [= <-];
    repeat match goal with H : (_ && _) = true |- _ => apply andb_prop in H; destruct H end;
    repeat match goal with H : (_ <=? _) = true |- _ => apply N.leb_le in H end; lia.
  - repeat match goal with |- context [if ?c then _ else _] => destruct c eqn:? end; try discriminate; intros [= <-];
    repeat match goal with H : (_ && _) = true |- _ => apply andb_prop in H; destruct H end;
    repeat match goal with H : (_ <=? _) = true |- _ => apply N.leb_le in H end; lia.
Qed.

Lemma parse_pairs_ok cs : forall bs, parse_pairs cs = Some bs ->
  bytes_ok bs /\ length cs = (2 * length bs)%nat.
Proof.
  revert cs. fix IH 1. intros [|c0 [|c1 r]] bs; cbn [parse_pairs].
  - intros [= <-]. split; [constructor|reflexivity].
  - discriminate.
  - destruct (parse_pair c0 c1) eqn:E; [|discriminate].
    destruct (parse_pairs r) eqn:E2; [|discriminate]. intros [= <-].
    destruct (IH r _ E2) as [Hb Hl]. split.
    + constructor; [eapply parse_pair_lt; eauto|assumption].
    + cbn [length]. lia.
Qed.

Lemma from_hexdigest_canonical cs s : from_hexdigest cs = Some s -> canonical s.
Proof.
  unfold from_hexdigest. destruct (N.eqb_spec (N.of_nat (length cs)) (2 * SETSUM_BYTES)) as [E|]; [|discriminate].
  destruct (parse_pairs cs) as [d|] eqn:P; [|discriminate]. intros [= <-].
  destruct (parse_pairs_ok _ _ P) as [Hb Hl].
  apply from_digest_canonical; [assumption|].
  change (2 * SETSUM_BYTES) with 64 in E. lia.
Qed.

Lemma step_ok regs o : regs_ok regs -> op_ok o ->
  exists regs' out, step regs o = Some (regs', out) /\ regs_ok regs'.
Proof.
  intros Hr Ho. destruct o as [r h|r h|r a b|r a b|r d|r cs|r]; cbn [step op_ok] in *.
  - destruct Ho. eexists _, _. split; [reflexivity|]. apply set_nth_ok; [assumption|].
    apply add_canonical; [now apply nth_regs_ok|now apply hash_to_state_canonical].
  - destruct Ho as [Hb Hl]. pose proof (hash_to_state_canonical h Hb Hl) as Hc.
    rewrite sub_some by assumption. eexists _, _. split; [reflexivity|].
    apply set_nth_ok; [assumption|]. apply map3_add_inv_canon; auto using primes_good. now apply nth_regs_ok.
  - eexists _, _. split; [reflexivity|]. apply set_nth_ok; [assumption|].
    apply add_canonical; now apply nth_regs_ok.
  - rewrite sub_some by now apply nth_regs_ok. eexists _, _. split; [reflexivity|].
    apply set_nth_ok; [assumption|]. apply map3_add_inv_canon; auto using primes_good; now apply nth_regs_ok.
  - destruct Ho. eexists _, _. split; [reflexivity|]. apply set_nth_ok; [assumption|]. now apply from_digest_canonical.
  - destruct (from_hexdigest cs) eqn:E; eexists _, _; (split; [reflexivity|]); [|assumption].
    apply set_nth_ok; [assumption|]. eapply from_hexdigest_canonical; eauto.
  - eexists _, _. split; [reflexivity|assumption].
Qed.

Lemma run_never_panics ops : forall regs, regs_ok regs -> Forall op_ok ops -> ~ In OutPanic (run regs ops).
Proof.
  induction ops as [|o ops IH]; intros regs Hr Ho; cbn [run]; [intros []|].
  inversion Ho; subst.
  destruct (step_ok regs o Hr) as (regs' & out & E & Hr'); [assumption|].
  rewrite E. intros Hin. apply in_app_or in Hin. destruct Hin as [Hin|Hin].
  - destruct o; cbn [step] in E;
      repeat match type of E with context [match ?x with _ => _ end] => destruct x end;
      inversion E; subst; cbn in Hin; intuition discriminate.
  - eapply IH; eauto.
Qed.
