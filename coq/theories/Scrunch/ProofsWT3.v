(* Scrunch/ProofsWT3.v — the queries of WaveletTreePsi over a structurally well-formed table:
   lookup returns psi[idx]; lower_bound / upper_bound / constrain find the sub-range of a symbol's
   bucket whose psi values fall into the target range: WaveletTreePsi meets `psi_ok`. *)
From Coq Require Import Arith NArith List Bool Lia Sorted Permutation.
From Blue Require Import Scrunch.ModelBits Scrunch.Model Scrunch.ModelWT Scrunch.ProofsBits
  Scrunch.ProofsSorted Scrunch.ProofsSuffix Scrunch.ProofsIAP Scrunch.ProofsSearch Scrunch.ProofsSigma
  Scrunch.ProofsWT1 Scrunch.ProofsWT2.
Import ListNotations.
Local Open Scope nat_scope.

Arguments Nat.sub : simpl never.
Arguments Nat.div : simpl never.
Arguments Nat.modulo : simpl never.
Arguments Nat.leb : simpl never.
Arguments Nat.ltb : simpl never.
Arguments Nat.eqb : simpl never.

Lemma SS_nth_gen {A} (R : A -> A -> Prop) (d : A) l : StronglySorted R l ->
  forall i j, i < j -> j < length l -> R (nth i l d) (nth j l d).
Proof.
  induction 1 as [|x l Hs IH Hf]; intros i j Hij Hj; [cbn in Hj; lia|].
  destruct j as [|j]; [lia|]. cbn in Hj. destruct i as [|i]; cbn [nth].
  - rewrite Forall_forall in Hf. apply Hf, nth_In. lia.
  - apply IH; lia.
Qed.

Definition lexR (a b : nat * nat) : Prop := fst a < fst b \/ (fst a = fst b /\ snd a < snd b).

Lemma cells_sorted K rows : StronglySorted lexR (cells K rows).
Proof.
  unfold cells.
  assert (G : forall a k, StronglySorted lexR (flat_map (fun c => map (pair c) (col_rows c rows)) (seq a k)) /\
                          Forall (fun cr => a <= fst cr) (flat_map (fun c => map (pair c) (col_rows c rows)) (seq a k))).
  { intros a k. revert a. induction k as [|k IH]; intros a; cbn [seq flat_map]; [split; constructor|].
    destruct (IH (S a)) as [S1 F1]. split.
    - apply SS_app; [|exact S1|].
      + assert (H : forall l, sinc l -> StronglySorted lexR (map (pair a) l)).
        { induction 1 as [|x l Hs IHs Hf]; cbn [map]; constructor; [exact IHs|].
          apply Forall_map. eapply Forall_impl; [|exact Hf]. intros y Hy. right. cbn. split; [reflexivity|exact Hy]. }
        apply H. unfold col_rows. apply sinc_filter_seq.
      + intros x y Hx Hy. apply in_map_iff in Hx. destruct Hx as (r & <- & _).
        rewrite Forall_forall in F1. specialize (F1 y Hy). left. cbn in *. lia.
    - apply Forall_app. split.
      + apply Forall_forall. intros x Hx. apply in_map_iff in Hx. destruct Hx as (r & <- & _). cbn. lia.
      + eapply Forall_impl; [|exact F1]. cbn. intros; lia. }
  apply G.
Qed.

Lemma covers_end SY rows : forall a, covers SY rows a -> rows <> [] ->
  w_start (last rows row0) + length (w_tree (last rows row0)) = length SY.
Proof.
  induction rows as [|x rows IH]; intros a Hc Hne; [contradiction|].
  cbn [covers] in Hc. destruct Hc as (Hs & _ & _ & _ & Hrest).
  destruct rows as [|y rows].
  - cbn [covers] in Hrest. cbn [last]. lia.
  - change (last (x :: y :: rows) row0) with (last (y :: rows) row0). apply (IH _ Hrest). discriminate.
Qed.

Lemma count_lt_all_lt l x : Forall (fun y => y < x) l -> count_lt l x = length l.
Proof.
  unfold count_lt. induction 1 as [|y l Hy Hl IH]; [reflexivity|]. cbn [filter].
  destruct (Nat.ltb_spec y x); [|lia]. cbn [length]. now rewrite IH.
Qed.

Lemma match_nonempty {A B} (l : list A) (x y : B) : l <> [] ->
  match l with [] => x | _ :: _ => y end = y.
Proof. destruct l; [contradiction|reflexivity]. Qed.

Lemma wpsi_len_nonempty w : w_table w <> [] ->
  wpsi_len w = w_start (last (w_table w) row0) + length (w_tree (last (w_table w) row0)).
Proof. unfold wpsi_len, wt_len, row0. destruct (w_table w); [contradiction|reflexivity]. Qed.

Lemma covers_nonempty SY rows a : covers SY rows a -> a < length SY -> rows <> [].
Proof. intros H Ha E. subst rows. cbn in H. lia. Qed.

Section Queries.
  Variables (text : list N) (sg : sigma) (T sa : list nat).
  Hypothesis Hio : index_ok text sg T sa.
  Let n := length text.
  Let isa := inverse sa.
  Let psi := psi_of sa isa.
  Let SY := wt_syms T sa n.
  Variable K : nat.
  Hypothesis HK : forall j, j < S n -> fs T sa j < K.
  Variable w : wpsi.
  Hypothesis Hw : wstruct K SY w.

  Let Hsa := io_sa _ _ _ _ Hio.
  Let HT : length T = S n := io_len _ _ _ _ Hio.
  Let Hterm : nth n T 0 = 0 := io_term _ _ _ _ Hio.
  Let Hpos := io_pos text sg T sa Hio.

  Let rows := w_table w.
  Let CL := cells K rows.
  Let sizes := map (cell_size rows) CL.
  Let L := length CL.
  Let cs := cstart sizes.
  Let rowof (t : nat) : wrow := nth (snd (nth t CL (0, 0))) rows row0.
  Let colof (t : nat) : nat := fst (nth t CL (0, 0)).

  Let Hsizes_pos : Forall (fun s => 1 <= s) sizes := sizes_pos T sa n Hsa HT Hterm Hpos K HK w Hw.
  Let Htotal : sumn sizes = S n := sizes_total T sa n Hsa HT Hterm Hpos K HK w Hw.

  Lemma q_sizes_len : length sizes = L.
  Proof. unfold sizes, L. apply map_length. Qed.

  Lemma q_ykey : w_ykey w = bits_of_indices (sumn sizes) (cell_ends sizes).
  Proof. rewrite Htotal. rewrite (ws_ykey _ _ _ Hw). unfold SY. now rewrite (wt_syms_length T sa n Hsa HT Hterm Hpos). Qed.

  Lemma q_select t : t <= L -> bv_select (w_ykey w) t = Some (cs t).
  Proof. intros Ht. rewrite q_ykey. apply (yk_select sizes Hsizes_pos). now rewrite q_sizes_len. Qed.

  Lemma q_rank x : x < S n -> exists t, bv_rank (w_ykey w) x = Some t /\ t < L /\ cs t <= x < cs (S t).
  Proof.
    intros Hx. rewrite q_ykey. destruct (yk_rank sizes Hsizes_pos x ltac:(rewrite Htotal; exact Hx)) as (t & A & B & C).
    exists t. rewrite q_sizes_len in B. split; [exact A|]. split; [exact B|exact C].
  Qed.

  Lemma q_cs_L : cs L = S n.
  Proof. unfold cs. rewrite cstart_all by (rewrite q_sizes_len; lia). exact Htotal. Qed.

  Lemma q_cs_mono t u : t < u -> u <= L -> cs t < cs u.
  Proof. intros H1 H2. apply (cstart_mono sizes Hsizes_pos); [exact H1|now rewrite q_sizes_len]. Qed.

  Lemma q_cs_le t u : t <= u -> u <= L -> cs t <= cs u.
  Proof. intros H1 H2. destruct (Nat.eq_dec t u) as [->|]; [lia|]. pose proof (q_cs_mono t u ltac:(lia) H2). lia. Qed.

  Lemma q_row_of_cell t : t < L -> row_of_cell w t = Ok (rowof t).
  Proof.
    intros Ht. unfold row_of_cell. rewrite (ws_yvalue _ _ _ Hw). fold rows CL.
    rewrite (nth_error_nth' _ 0) by (rewrite map_length; exact Ht). cbn [unwrap rbind].
    rewrite (nth_indep _ 0 (snd (0, 0))) by (rewrite map_length; exact Ht). rewrite (map_nth snd).
    destruct (CL_cell T sa n Hsa HT Hterm Hpos K HK w Hw t Ht) as (Hr & _). fold rows CL in Hr.
    rewrite (nth_error_nth' rows row0 Hr). reflexivity.
  Qed.

  Lemma q_cell t j : t < L -> cs t <= j < cs (S t) ->
    j < S n /\ fs T sa j = colof t /\
    j - cs t < length (positions (colof t) (w_tree (rowof t))) /\
    nth j psi 0 = w_start (rowof t) + nth (j - cs t) (positions (colof t) (w_tree (rowof t))) 0.
  Proof. intros Ht Hj. exact (cell_value T sa n Hsa HT Hterm Hpos K HK w Hw t j Ht Hj). Qed.

  Lemma q_cell_size t : t < L -> cs (S t) = cs t + length (positions (colof t) (w_tree (rowof t))).
  Proof.
    intros Ht. unfold cs. rewrite cstart_S by (rewrite q_sizes_len; exact Ht). f_equal.
    unfold sizes. rewrite (nth_indep _ 0 (cell_size rows (0, 0))) by (rewrite map_length; exact Ht).
    rewrite (map_nth (cell_size rows)). unfold cell_size. now rewrite count_eq_positions.
  Qed.

  Lemma q_row_facts t : t < L ->
    w_tree (rowof t) <> [] /\ w_start (rowof t) + length (w_tree (rowof t)) <= S n.
  Proof.
    intros Ht. destruct (CL_cell T sa n Hsa HT Hterm Hpos K HK w Hw t Ht) as (Hr & _). fold rows CL in Hr.
    destruct (covers_row SY rows 0 (ws_cov _ _ _ Hw) _ Hr) as (_ & A & B & _).
    unfold SY in B. rewrite (wt_syms_length T sa n Hsa HT Hterm Hpos) in B. split; assumption.
  Qed.

  (* ---- lookup ---- *)
  Theorem wpsi_lookup_correct idx : idx < S n -> wpsi_lookup sg w idx = Ok (nth idx psi 0).
  Proof.
    intros Hi. unfold wpsi_lookup.
    destruct (q_rank idx Hi) as (t & R & Ht & Hc). rewrite R. cbn [ok_or rbind].
    rewrite (q_row_of_cell t Ht). cbn [rbind]. rewrite (q_select t ltac:(lia)). cbn [ok_or rbind].
    rewrite (io_sigma _ _ _ _ Hio idx Hi). cbn [ok_or rbind].
    destruct (Nat.ltb_spec idx (cs t)); [lia|].
    destruct (q_cell t idx Ht Hc) as (_ & Hcol & Hlen & Hval).
    unfold ctx_lookup. rewrite Hcol.
    destruct (q_row_facts t Ht) as (_ & Hle).
    assert (Hpl : length (positions (colof t) (w_tree (rowof t))) <= length (w_tree (rowof t))).
    { rewrite <- count_eq_positions. unfold count_eq. clear. induction (w_tree (rowof t)) as [|x l IH]; cbn [filter length]; [lia|].
      destruct (colof t =? x); cbn [length]; lia. }
    unfold wt_len. destruct (Nat.leb_spec (length (w_tree (rowof t))) (idx - cs t)); [lia|].
    replace (idx - cs t + 1) with (S (idx - cs t)) by lia.
    rewrite (wt_select_positions _ _ _ Hlen). cbn [ok_or rbind].
    destruct (Nat.eqb_spec (S (nth (idx - cs t) (positions (colof t) (w_tree (rowof t))) 0)) 0); [lia|].
    rewrite Hval. f_equal. lia.
  Qed.

  Theorem wpsi_len_correct : wpsi_len w = S n.
  Proof.
    pose proof (ws_cov _ _ _ Hw) as C.
    assert (Hl : length SY = S n) by (unfold SY; apply (wt_syms_length T sa n Hsa HT Hterm Hpos)).
    assert (Hne : w_table w <> []) by (apply (covers_nonempty SY _ 0 C); lia).
    rewrite (wpsi_len_nonempty w Hne), (covers_end SY _ 0 C Hne). exact Hl.
  Qed.

  (* ---- a symbol's bucket is a run of cells ---- *)
  Lemma q_cell_range t j : t < L -> cs t <= j < cs (S t) ->
    w_start (rowof t) <= nth j psi 0 < w_start (rowof t) + length (w_tree (rowof t)).
  Proof.
    intros Ht Hj. destruct (q_cell t j Ht Hj) as (_ & _ & Hlen & Hval).
    assert (Hin : In (nth (j - cs t) (positions (colof t) (w_tree (rowof t))) 0) (positions (colof t) (w_tree (rowof t)))) by (now apply nth_In).
    apply positions_In in Hin. lia.
  Qed.

  Section Bucket.
    Variables c s e : nat.
    Hypothesis Hb : is_bucket T sa n c s e.

    Lemma bucket_cells : exists ts te,
      bv_rank (w_ykey w) s = Some ts /\ bv_rank (w_ykey w) e = Some te /\
      ts <= te /\ te < L /\ cs ts = s /\ cs (S te) = S e /\
      forall t, ts <= t <= te -> colof t = c.
    Proof.
      destruct Hb as (B1 & B2 & B3 & B4).
      destruct (q_rank s ltac:(lia)) as (ts & Rs & Lts & Cts).
      destruct (q_rank e ltac:(lia)) as (te & Re & Lte & Cte).
      exists ts, te. split; [exact Rs|]. split; [exact Re|].
      assert (Es : cs ts = s).
      { destruct (Nat.eq_dec (cs ts) s) as [|NE]; [assumption|]. exfalso.
        destruct (q_cell ts (s - 1) Lts ltac:(lia)) as (Hlt & Hfs & _).
        destruct (q_cell ts s Lts Cts) as (_ & Hfs' & _).
        assert (fs T sa s = c) by (apply B4; lia).
        assert (fs T sa (s - 1) = c) by congruence.
        apply B4 in H0; lia. }
      assert (Ee : cs (S te) = S e).
      { destruct (Nat.eq_dec (cs (S te)) (S e)) as [|NE]; [assumption|]. exfalso.
        destruct (q_cell te (S e) Lte ltac:(lia)) as (Hlt & Hfs & _).
        destruct (q_cell te e Lte Cte) as (_ & Hfs' & _).
        assert (fs T sa e = c) by (apply B4; lia).
        assert (fs T sa (S e) = c) by congruence.
        apply B4 in H0; lia. }
      assert (Hle : ts <= te).
      { destruct (Nat.le_gt_cases ts te) as [|Hgt]; [assumption|]. exfalso.
        pose proof (q_cs_le (S te) ts ltac:(lia) ltac:(lia)). lia. }
      split; [exact Hle|]. split; [exact Lte|]. split; [exact Es|]. split; [exact Ee|].
      intros t Ht.
      pose proof (q_cs_le ts t ltac:(lia) ltac:(lia)) as M1.
      pose proof (q_cs_le t te ltac:(lia) ltac:(lia)) as M2.
      pose proof (q_cs_mono t (S t) ltac:(lia) ltac:(lia)) as M3.
      destruct (q_cell t (cs t) ltac:(lia) ltac:(lia)) as (Hlt & Hfs & _).
      rewrite <- Hfs. apply B4; lia.
    Qed.

    (* rows grow along the cells of a column *)
    Lemma bucket_rows_increase ts te : (forall t, ts <= t <= te -> colof t = c) -> te < L ->
      forall t t', ts <= t -> t < t' -> t' <= te ->
      w_start (rowof t) + length (w_tree (rowof t)) <= w_start (rowof t').
    Proof.
      intros Hcol Lte t t' H1 H2 H3.
      pose proof (SS_nth_gen lexR (0, 0) CL (cells_sorted K rows) t t' H2 ltac:(fold L; lia)) as R.
      unfold lexR in R. pose proof (Hcol t ltac:(lia)) as C1. pose proof (Hcol t' ltac:(lia)) as C2.
      unfold colof in C1, C2. destruct R as [R|[_ R]]; [lia|].
      destruct (CL_cell T sa n Hsa HT Hterm Hpos K HK w Hw t ltac:(fold rows CL L; lia)) as (Hr & _).
      destruct (CL_cell T sa n Hsa HT Hterm Hpos K HK w Hw t' ltac:(fold rows CL L; lia)) as (Hr' & _).
      fold rows CL in Hr, Hr'.
      destruct (covers_row SY rows 0 (ws_cov _ _ _ Hw) _ Hr) as (_ & _ & _ & _ & E).
      apply E; assumption.
    Qed.

    Lemma bucket_cell_of ts te i : cs ts = s -> cs (S te) = S e -> ts <= te -> te < L -> s <= i <= e ->
      exists t, ts <= t <= te /\ cs t <= i < cs (S t).
    Proof.
      intros Es Ee Hle Lte Hi. destruct Hb as (B1 & B2 & B3 & B4).
      destruct (q_rank i ltac:(lia)) as (t & _ & Lt & Ct). exists t. split; [|exact Ct].
      split.
      - destruct (Nat.le_gt_cases ts t) as [|Hgt]; [assumption|]. exfalso.
        pose proof (q_cs_le (S t) ts ltac:(lia) ltac:(lia)). lia.
      - destruct (Nat.le_gt_cases t te) as [|Hgt]; [assumption|]. exfalso.
        pose proof (q_cs_le (S te) t ltac:(lia) ltac:(lia)). lia.
    Qed.

    (* the cell search of lower_bound / upper_bound *)
    Lemma find_cell_spec point : exists ts te tc,
      cs ts = s /\ cs (S te) = S e /\ ts <= tc /\ tc <= te /\ te < L /\
      (forall t, ts <= t <= te -> colof t = c) /\
      find_cell w point (s, e) = Ok (cs tc, cs (S tc) - 1, tc, rowof tc) /\
      (w_start (rowof tc) <= point -> forall t, tc < t -> t <= te -> point < w_start (rowof t)) /\
      (point < w_start (rowof tc) -> tc = ts).
    Proof.
      destruct bucket_cells as (ts & te & Rs & Re & Hle & Lte & Es & Ee & Hcol).
      exists ts, te.
      pose proof (bucket_rows_increase ts te Hcol Lte) as Hinc.
      destruct Hb as (B1 & B2 & B3 & B4).
      unfold find_cell. cbn [fst snd].
      pose proof (ws_cov _ _ _ Hw) as Cv.
      assert (Hl : length SY = S n) by (unfold SY; apply (wt_syms_length T sa n Hsa HT Hterm Hpos)).
      assert (Hne : w_table w <> []) by (apply (covers_nonempty SY _ 0 Cv); lia).
      rewrite (match_nonempty (w_table w) _ _ Hne).
      destruct (Nat.leb_spec s e); [|lia]. cbn [negb].
      rewrite wpsi_len_correct. destruct (Nat.leb_spec e (S n)); [|lia]. cbn [negb].
      destruct (Nat.eqb_spec s 0); [lia|].
      rewrite Rs, Re. cbn [ok_or rbind].
      destruct (partition_by_spec (fun cell => do row <- row_of_cell w cell; Ok (w_start row <? point))
                  (fun t => w_start (rowof t) <? point) ts te) as (p & P1 & P2 & _ & P4 & P5).
      { intros t Ht. rewrite q_row_of_cell by lia. reflexivity. }
      { intros x y Hy Hyx Hx Hf. apply Nat.ltb_lt in Hf. apply Nat.ltb_lt.
        destruct (Nat.eq_dec y x) as [->|]; [exact Hf|].
        pose proof (Hinc y x Hy ltac:(lia) ltac:(lia)). lia. }
      specialize (P2 Hle). rewrite P1. cbn [rbind].
      rewrite (q_row_of_cell p ltac:(lia)). cbn [rbind].
      set (tc := if (ts <? p) && (point <? w_start (rowof p)) then p - 1 else p).
      assert (Htc : ts <= tc <= te).
      { unfold tc. destruct (Nat.ltb_spec ts p), (Nat.ltb_spec point (w_start (rowof p))); cbn [andb]; lia. }
      exists tc.
      rewrite (q_select tc ltac:(lia)). cbn [ok_or rbind].
      replace (tc + 1) with (S tc) by lia. rewrite (q_select (S tc) ltac:(lia)). cbn [ok_or rbind].
      pose proof (q_cs_mono tc (S tc) ltac:(lia) ltac:(lia)) as Mtc.
      destruct (Nat.eqb_spec (cs (S tc)) 0); [lia|].
      rewrite (q_row_of_cell tc ltac:(lia)). cbn [rbind].
      split; [exact Es|]. split; [exact Ee|]. split; [lia|]. split; [lia|]. split; [exact Lte|].
      split; [exact Hcol|]. split; [reflexivity|].
      unfold tc in *. clear tc.
      destruct (Nat.ltb_spec ts p) as [Hp|Hp]; cbn [andb] in *.
      - destruct (Nat.ltb_spec point (w_start (rowof p))) as [Hq|Hq].
        + (* decremented *)
          pose proof (P4 (p - 1) ltac:(lia)) as F. apply Nat.ltb_lt in F. split; [|lia].
          intros _ t Ht1 Ht2. destruct (Nat.eq_dec t p) as [->|]; [exact Hq|].
          pose proof (Hinc p t ltac:(lia) ltac:(lia) Ht2). lia.
        + split; [|lia]. intros _ t Ht1 Ht2.
          assert (Fp : (w_start (rowof p) <? point) = false) by (apply P5; lia).
          apply Nat.ltb_ge in Fp.
          pose proof (Hinc p t ltac:(lia) Ht1 Ht2).
          destruct (q_row_facts p ltac:(lia)) as (Hnep & _).
          assert (0 < length (w_tree (rowof p))) by (destruct (w_tree (rowof p)); [contradiction|cbn; lia]). lia.
      - assert (p = ts) by lia. subst p. split; [|reflexivity].
        intros Hsp t Ht1 Ht2.
        assert (Fp : (w_start (rowof ts) <? point) = false) by (apply P5; lia).
        apply Nat.ltb_ge in Fp.
        pose proof (Hinc ts t ltac:(lia) Ht1 Ht2).
        destruct (q_row_facts ts ltac:(lia)) as (Hnep & _).
        assert (0 < length (w_tree (rowof ts))) by (destruct (w_tree (rowof ts)); [contradiction|cbn; lia]). lia.
    Qed.

    (* positions below a bound: rank_q, also past the end of the row *)
    Lemma rank_or_size tc x : tc < L ->
      match wt_rank_q (w_tree (rowof tc)) (colof tc) x with
      | Some r => r
      | None => cs (S tc) - 1 - cs tc + 1
      end = count_lt (positions (colof tc) (w_tree (rowof tc))) x.
    Proof.
      intros Ht. destruct (Nat.le_gt_cases x (length (w_tree (rowof tc)))) as [Hx|Hx].
      - now rewrite wt_rank_positions.
      - rewrite wt_rank_none by exact Hx. rewrite (q_cell_size tc Ht).
        pose proof (q_cs_mono tc (S tc) ltac:(lia) ltac:(lia)). rewrite (q_cell_size tc Ht) in H.
        replace (cs tc + length (positions (colof tc) (w_tree (rowof tc))) - 1 - cs tc + 1)
          with (length (positions (colof tc) (w_tree (rowof tc)))) by lia.
        symmetry. apply count_lt_all_lt.
        eapply Forall_impl; [|apply positions_lt]. cbn. intros; lia.
    Qed.

    Theorem lower_bound_spec point : exists lo,
      lower_bound sg w point (s, e) = Ok lo /\ s <= lo <= S e /\
      forall i, s <= i <= e -> (lo <= i <-> point <= nth i psi 0).
    Proof.
      destruct (find_cell_spec point) as (ts & te & tc & Es & Ee & H1 & H2 & Lte & Hcol & Fc & Pafter & Pfirst).
      pose proof (bucket_rows_increase ts te Hcol Lte) as Hinc.
      unfold lower_bound. rewrite Fc. cbn [rbind].
      pose proof (q_cs_le ts tc ltac:(lia) ltac:(lia)) as M1.
      pose proof (q_cs_le (S tc) (S te) ltac:(lia) ltac:(lia)) as M2.
      pose proof (q_cs_mono tc (S tc) ltac:(lia) ltac:(lia)) as M3.
      destruct Hb as (B1 & B2 & B3 & B4).
      rewrite (io_sigma _ _ _ _ Hio (cs tc)) by (fold n; lia). cbn [ok_or rbind].
      assert (Hcolc : fs T sa (cs tc) = colof tc).
      { destruct (q_cell tc (cs tc) ltac:(lia) ltac:(lia)) as (_ & E & _). exact E. }
      rewrite Hcolc.
      destruct (Nat.leb_spec (w_start (rowof tc)) point) as [Hsp|Hsp].
      - rewrite (rank_or_size tc (point - w_start (rowof tc)) ltac:(lia)).
        set (pos := positions (colof tc) (w_tree (rowof tc))).
        set (q := count_lt pos (point - w_start (rowof tc))).
        pose proof (count_lt_le_length pos (point - w_start (rowof tc))) as Hq. fold q in Hq.
        pose proof (q_cell_size tc ltac:(lia)) as Hsz. fold pos in Hsz.
        exists (q + cs tc). split; [reflexivity|]. split; [lia|].
        intros i Hi. destruct (bucket_cell_of ts te i Es Ee ltac:(lia) Lte Hi) as (t & Ht & Hit).
        pose proof (q_cell_range t i ltac:(lia) Hit) as Rg.
        destruct (Nat.lt_trichotomy t tc) as [Hlt|[Heq|Hgt]].
        + pose proof (Hinc t tc ltac:(lia) Hlt ltac:(lia)).
          pose proof (q_cs_le (S t) tc ltac:(lia) ltac:(lia)). lia.
        + subst t. destruct (q_cell tc i ltac:(lia) Hit) as (_ & _ & Hlen & Hval). fold pos in Hlen, Hval.
          pose proof (count_lt_nth pos (positions_sinc _ _) (i - cs tc) (point - w_start (rowof tc)) Hlen) as Q.
          fold q in Q. lia.
        + pose proof (Pafter Hsp t Hgt ltac:(lia)).
          pose proof (q_cs_le (S tc) t ltac:(lia) ltac:(lia)). lia.
      - exists (cs tc). split; [reflexivity|]. specialize (Pfirst Hsp). subst tc. split; [lia|].
        intros i Hi. destruct (bucket_cell_of ts te i Es Ee ltac:(lia) Lte Hi) as (t & Ht & Hit).
        pose proof (q_cell_range t i ltac:(lia) Hit) as Rg.
        destruct (Nat.eq_dec t ts) as [->|NE]; [lia|].
        pose proof (Hinc ts t ltac:(lia) ltac:(lia) ltac:(lia)). lia.
    Qed.

    Theorem upper_bound_spec point : exists hi,
      upper_bound sg w point (s, e) = Ok hi /\ s <= S hi /\ hi <= e /\
      forall i, s <= i <= e -> (i <= hi <-> nth i psi 0 <= point).
    Proof.
      destruct (find_cell_spec point) as (ts & te & tc & Es & Ee & H1 & H2 & Lte & Hcol & Fc & Pafter & Pfirst).
      pose proof (bucket_rows_increase ts te Hcol Lte) as Hinc.
      unfold upper_bound. rewrite Fc. cbn [rbind].
      pose proof (q_cs_le ts tc ltac:(lia) ltac:(lia)) as M1.
      pose proof (q_cs_le (S tc) (S te) ltac:(lia) ltac:(lia)) as M2.
      pose proof (q_cs_mono tc (S tc) ltac:(lia) ltac:(lia)) as M3.
      destruct Hb as (B1 & B2 & B3 & B4).
      rewrite (io_sigma _ _ _ _ Hio (cs tc)) by (fold n; lia). cbn [ok_or rbind].
      assert (Hcolc : fs T sa (cs tc) = colof tc).
      { destruct (q_cell tc (cs tc) ltac:(lia) ltac:(lia)) as (_ & E & _). exact E. }
      rewrite Hcolc.
      set (pos := positions (colof tc) (w_tree (rowof tc))).
      pose proof (q_cell_size tc ltac:(lia)) as Hsz. fold pos in Hsz.
      pose proof (positions_sinc (colof tc) (w_tree (rowof tc))) as Spos. fold pos in Spos.
      (* the answer in every branch: cs tc + (number of positions <= point - start) - 1 *)
      assert (Hmain : w_start (rowof tc) <= point ->
                forall hi, hi + 1 = cs tc + count_lt pos (S (point - w_start (rowof tc))) ->
                s <= S hi /\ hi <= e /\ forall i, s <= i <= e -> (i <= hi <-> nth i psi 0 <= point)).
      { intros Hsp hi Hhi.
        pose proof (count_lt_le_length pos (S (point - w_start (rowof tc)))) as Hq.
        split; [lia|]. split; [lia|].
        intros i Hi. destruct (bucket_cell_of ts te i Es Ee ltac:(lia) Lte Hi) as (t & Ht & Hit).
        pose proof (q_cell_range t i ltac:(lia) Hit) as Rg.
        destruct (Nat.lt_trichotomy t tc) as [Hlt|[Heq|Hgt]].
        - pose proof (Hinc t tc ltac:(lia) Hlt ltac:(lia)).
          pose proof (q_cs_le (S t) tc ltac:(lia) ltac:(lia)). lia.
        - subst t. destruct (q_cell tc i ltac:(lia) Hit) as (_ & _ & Hlen & Hval). fold pos in Hlen, Hval.
          pose proof (count_lt_nth pos Spos (i - cs tc) (S (point - w_start (rowof tc))) Hlen) as Q. lia.
        - pose proof (Pafter Hsp t Hgt ltac:(lia)).
          pose proof (q_cs_le (S tc) t ltac:(lia) ltac:(lia)). lia. }
      destruct (Nat.leb_spec (w_start (rowof tc)) point) as [Hsp|Hsp].
      - specialize (Hmain Hsp). set (x := point - w_start (rowof tc)) in *.
        destruct (Nat.le_gt_cases x (length (w_tree (rowof tc)))) as [Hx|Hx].
        + rewrite (wt_rank_positions _ _ _ Hx). fold pos. set (q := count_lt pos x).
          pose proof (count_lt_le_length pos x) as Hq. fold q in Hq.
          pose proof (count_lt_mono pos x (S x) ltac:(lia)) as Hm. fold q in Hm.
          pose proof (count_lt_le_length pos (S x)) as Hq'.
          assert (Hpl : length pos <= length (w_tree (rowof tc))).
          { unfold pos. rewrite <- count_eq_positions. unfold count_eq. clear.
            induction (w_tree (rowof tc)) as [|y l IH]; cbn [filter length]; [lia|].
            destruct (colof tc =? y); cbn [length]; lia. }
          destruct (Nat.lt_ge_cases q (length pos)) as [Hlt|Hge].
          * (* the q-th occurrence exists: compare its psi value with point *)
            unfold ctx_lookup, wt_len. destruct (Nat.leb_spec (length (w_tree (rowof tc))) q); [lia|].
            replace (q + 1) with (S q) by lia.
            rewrite (wt_select_positions (w_tree (rowof tc)) (colof tc) q Hlt). fold pos. cbn [ok_or rbind].
            destruct (Nat.eqb_spec (S (nth q pos 0)) 0); [lia|]. cbn [rbind].
            replace (S (nth q pos 0) - 1) with (nth q pos 0) by lia.
            pose proof (count_lt_nth pos Spos q x Hlt) as Qx. fold q in Qx.
            pose proof (count_lt_nth pos Spos q (S x) Hlt) as Qx'.
            destruct (Nat.ltb_spec point (w_start (rowof tc) + nth q pos 0)) as [Hv|Hv].
            -- destruct (Nat.eqb_spec (q + cs tc) 0); [lia|].
               exists (q + cs tc - 1). split; [reflexivity|]. apply Hmain.
               assert (count_lt pos (S x) = q); [|lia].
               destruct (Nat.eq_dec (count_lt pos (S x)) q); [assumption|]. exfalso.
               assert (Hqq : q < count_lt pos (S x)) by lia. apply Qx' in Hqq. unfold x in *. lia.
            -- exists (q + cs tc). split; [reflexivity|]. apply Hmain.
               assert (count_lt pos (S x) = S q); [|lia].
               assert (A : q < count_lt pos (S x)) by (apply Qx'; unfold x in *; lia).
               destruct (Nat.eq_dec (count_lt pos (S x)) (S q)); [assumption|]. exfalso.
               assert (B : S q < length pos) by lia.
               pose proof (count_lt_nth pos Spos (S q) (S x) B) as Q2.
               assert (Hn1 : nth (S q) pos 0 < S x) by (apply Q2; lia).
               pose proof (sinc_nth pos Spos q (S q) ltac:(lia) B) as Hn2.
               assert (Hn3 : ~ nth q pos 0 < x) by (intros C; apply Qx in C; lia). lia.
          * (* all occurrences are below the point *)
            assert (Herr : ctx_lookup (rowof tc) (colof tc) q = Err).
            { unfold ctx_lookup, wt_len. destruct (Nat.leb_spec (length (w_tree (rowof tc))) q); [reflexivity|].
              replace (q + 1) with (S q) by lia.
              rewrite (wt_select_none (w_tree (rowof tc)) (colof tc) q); [reflexivity|]. fold pos. lia. }
            rewrite Herr. cbn [rbind]. destruct (Nat.ltb_spec point (point + 1)); [|lia].
            destruct (Nat.eqb_spec (q + cs tc) 0); [lia|].
            exists (q + cs tc - 1). split; [reflexivity|]. apply Hmain. lia.
        + rewrite wt_rank_none by exact Hx. exists (cs (S tc) - 1). split; [reflexivity|]. apply Hmain.
          assert (count_lt pos (S x) = length pos); [|lia].
          apply count_lt_all_lt. eapply Forall_impl; [|apply positions_lt]. cbn. intros; lia.
      - destruct (Nat.eqb_spec (cs tc) 0); [lia|]. exists (cs tc - 1). split; [reflexivity|].
        specialize (Pfirst Hsp). subst tc. split; [lia|]. split; [lia|].
        intros i Hi. destruct (bucket_cell_of ts te i Es Ee ltac:(lia) Lte Hi) as (t & Ht & Hit).
        pose proof (q_cell_range t i ltac:(lia) Hit) as Rg.
        destruct (Nat.eq_dec t ts) as [->|NE]; [lia|].
        pose proof (Hinc ts t ltac:(lia) ltac:(lia) ltac:(lia)). lia.
    Qed.
  End Bucket.

  (* ---- WaveletTreePsi meets the Psi interface ---- *)
  Theorem wpsi_psi_ok : psi_ok T sa psi n (wpsi_ops sg w).
  Proof.
    constructor.
    - cbn [wpsi_ops p_len]. exact wpsi_len_correct.
    - intros i Hi. cbn [wpsi_ops p_lookup]. now apply wpsi_lookup_correct.
    - intros into. cbn [wpsi_ops p_constrain]. unfold wpsi_constrain. cbn [fst snd].
      destruct (Nat.ltb_spec 0 1); [|lia]. exists (1, 0). split; [reflexivity|cbn; lia].
    - intros c s e [a b] Hb. cbn [wpsi_ops p_constrain]. unfold wpsi_constrain. cbn [fst snd].
      pose proof Hb as (B1 & B2 & B3 & B4).
      destruct (Nat.ltb_spec e s); [lia|].
      destruct (Nat.ltb_spec b a) as [Hab|Hab].
      + destruct (Nat.eqb_spec s 0); [lia|]. exists s, (s - 1). split; [reflexivity|]. split; [lia|]. split; [lia|].
        intros i Hi. lia.
      + pose proof (ws_cov _ _ _ Hw) as Cv.
        assert (Hl : length SY = S n) by (unfold SY; apply (wt_syms_length T sa n Hsa HT Hterm Hpos)).
        assert (Hne : w_table w <> []) by (apply (covers_nonempty SY _ 0 Cv); lia).
        rewrite (match_nonempty (w_table w) _ _ Hne).
        destruct (lower_bound_spec c s e Hb a) as (lo & Elo & Rlo & Slo).
        destruct (upper_bound_spec c s e Hb b) as (hi & Ehi & Rhi1 & Rhi2 & Shi).
        rewrite Elo, Ehi. cbn [rbind]. exists lo, hi. split; [reflexivity|]. split; [lia|]. split; [lia|].
        intros i Hi. specialize (Slo i Hi). specialize (Shi i Hi). lia.
  Qed.
End Queries.
