(* Scrunch/ModelBits.v — bit vectors BY INTERFACE, and the hand-written binary searches.
   Definitions only.

   scrunch/src/bit_vector/mod.rs: here a bit vector is the plain `list bool` it encodes and
   `access`/`rank`/`select` are stated directly on that list; this is the specification every
   implementation is compared with at every index by the correspondence check.  The two encodings
   CompressedDocument uses are transcribed in ModelSparse.v (sparse.rs) and ModelRRR.v (rrr.rs)
   and proved equal to this specification (ProofsSparse*.v, ProofsRRR*.v); cf_rrr.rs and the
   reference vectors are compared only.

   What IS transcribed: scrunch/src/binary_search.rs (`binary_search_by`, `partition_by`) and the
   default methods of `trait BitVector` built on it (`select`, `rank0`, `select0`), which
   `sparse::BitVector` inherits for `rank0`/`select0`. *)
From Coq Require Import Arith List Bool.
Import ListNotations.

(* results of fallible Rust code: Ok / Err(_) / panic / the model ran out of fuel *)
Inductive res (A : Type) : Type :=
| Ok (a : A)
| Err
| Panic
| NoFuel.
Arguments Ok {A} a.
Arguments Err {A}.
Arguments Panic {A}.
Arguments NoFuel {A}.

Definition rbind {A B} (r : res A) (f : A -> res B) : res B :=
  match r with Ok a => f a | Err => Err | Panic => Panic | NoFuel => NoFuel end.
Notation "'do' x <- r ; k" := (rbind r (fun x => k)) (at level 200, x name, r at level 100, k at level 200).
Notation "'do' ' ( x , y ) <- r ; k" := (rbind r (fun '(x, y) => k)) (at level 200, x name, y name, r at level 100, k at level 200).

(* `opt.ok_or(Error::..)?` *)
Definition ok_or {A} (o : option A) : res A := match o with Some a => Ok a | None => Err end.
(* `opt.unwrap()` / slice indexing *)
Definition unwrap {A} (o : option A) : res A := match o with Some a => Ok a | None => Panic end.

(* ------------------------------------------------------------------ the plain bit array *)
Definition bits := list bool.

Fixpoint count1 (b : bits) : nat :=
  match b with
  | [] => 0
  | x :: r => (if x then 1 else 0) + count1 r
  end.

Definition bv_len (b : bits) : nat := length b.

(* access[x], defined for x < len *)
Definition bv_access (b : bits) (x : nat) : option bool := nth_error b x.

(* rank[x] = number of bits set at i < x, defined for x in [0, len] *)
Definition bv_rank (b : bits) (x : nat) : option nat :=
  if x <=? length b then Some (count1 (firstn x b)) else None.

(* select[k]: 0 for k = 0; one past the index of the k-th bit equal to v, for k >= 1 *)
Fixpoint select_from (v : bool) (b : bits) (k pos : nat) {struct b} : option nat :=
  match k with
  | 0 => Some pos
  | S k' =>
      match b with
      | [] => None
      | x :: r => if Bool.eqb x v then select_from v r k' (S pos) else select_from v r k (S pos)
      end
  end.

Definition bv_select (b : bits) (k : nat) : option nat := select_from true b k 0.
Definition bv_select0 (b : bits) (k : nat) : option nat := select_from false b k 0.

Definition bv_access_rank (b : bits) (x : nat) : option (bool * nat) :=
  match bv_access b x, bv_rank b x with
  | Some a, Some r => Some (a, r)
  | _, _ => None
  end.

(* ------------------------------------------------------------------ binary_search.rs *)
(* binary_search_by(first, last, search): `while left < right`, mid = left + (right-left)/2.
   The probe may panic (closures `unwrap()` inside): Panic propagates.  Fuel: the interval
   shrinks every iteration, `last - first + 1` always suffices. *)
Fixpoint binary_search_by (fuel : nat) (search : nat -> res comparison) (left right : nat) : res nat :=
  match fuel with
  | 0 => NoFuel
  | S f =>
      if left <? right then
        let mid := left + (right - left) / 2 in
        do c <- search mid;
        match c with
        | Lt => binary_search_by f search (mid + 1) right
        | Gt => binary_search_by f search left mid
        | Eq => Ok mid
        end
      else Ok left
  end.

(* partition_by(first, last, pred): pred true -> Less, false -> Greater *)
Definition partition_by (pred : nat -> res bool) (first last : nat) : res nat :=
  binary_search_by (S (last - first))
    (fun probe => do p <- pred probe; Ok (if p then Lt else Gt)) first last.

(* ------------------------------------------------------------------ trait BitVector defaults *)
Section Defaults.
  Variable len : nat.
  Variable rank : nat -> option nat.

  (* fn select: partition_by(0, len, |mid| rank(mid).unwrap() < x); Some(left) iff rank(left) == x *)
  Definition default_select (x : nat) : res (option nat) :=
    do left <- partition_by (fun mid => do r <- unwrap (rank mid); Ok (r <? x)) 0 len;
    Ok (match rank left with
        | Some r => if r =? x then Some left else None
        | None => None
        end).

  (* fn rank0: Some(x - self.rank(x)?) *)
  Definition default_rank0 (x : nat) : option nat :=
    match rank x with Some r => Some (x - r) | None => None end.

  Definition default_select0 (x : nat) : res (option nat) :=
    do left <- partition_by (fun mid => do r <- unwrap (default_rank0 mid); Ok (r <? x)) 0 len;
    Ok (match default_rank0 left with
        | Some r => if r =? x then Some left else None
        | None => None
        end).
End Defaults.

(* ------------------------------------------------------------------ sparse::BitVector::from_indices *)
(* Interface model of the constructor: the preconditions it checks, and the bits it denotes
   (ones exactly at the listed indices).  An index equal to `len` is accepted by the Rust
   (`len < last` is the rejection) but denotes no bit of a length-`len` array; no caller in
   scrunch passes one, and the model rejects it (None) — see Props. *)
Fixpoint strictly_increasing (l : list nat) : bool :=
  match l with
  | [] => true
  | x :: r => match r with
              | [] => true
              | y :: _ => (x <? y) && strictly_increasing r
              end
  end.

Definition bits_of_indices (len : nat) (idx : list nat) : bits :=
  map (fun i => existsb (Nat.eqb i) idx) (seq 0 len).

Definition from_indices (branch len : nat) (idx : list nat) : option bits :=
  if (4 <=? branch) && (branch <? 256) then
    if strictly_increasing idx then
      if forallb (fun i => i <? len) idx then Some (bits_of_indices len idx) else None
    else None
  else None.
