(* Extraction of the executable Scrunch model for the correspondence check.
   Directives in force: those of ExtrOcamlBasic only (bool, option, unit, list, prod, sumbool,
   sumor extracted to OCaml's own; N, positive, nat stay inductive).  No Extract Constant of ours. *)
From Coq Require Import Arith NArith List.
From Blue Require Import Scrunch.ModelBits Scrunch.Model Scrunch.ModelWT Scrunch.ModelPrefixWT Scrunch.ModelSparse Scrunch.ModelRRR Scrunch.ModelPrefixRRR.
Require Import ExtrOcamlBasic.
Extraction Language OCaml.
Extraction "../ocaml/scrunch/gen_scrunch.ml"
  bv_len bv_access bv_rank bv_select bv_select0 default_select default_rank0 default_select0
  wt_len wt_access wt_rank_q wt_select_q
  construct_parts construct_reference_psi_doc construct_wavelet_doc construct_compressed
  construct_refdoc
  doc_len doc_records doc_search doc_count doc_lookup doc_offset_of doc_retrieve
  ref_search ref_count ref_lookup ref_retrieve ref_offset_of
  occurrences spec_record_of spec_record
  sigma_K char_to_sigma sa_index_to_sigma sa_index_to_t sa_range_for sa_range_for_sigma
  sigma_construct translate_text suffix_array inverse psi_of inverse_and_psi
  fw_tree fw_enc fw_dec pt_access pt_rank_q pt_select_q
  sv_from_indices sv_construct sv_access sv_rank sv_select
  rt_of rt_access rt_rank_q rt_select_q
  rr_construct rr_access rr_rank rr_select rr_select0 rrr_tables
  N.of_nat N.to_nat.
