(* Scrunch/ModelPrefixWT.v — executable model of scrunch/src/wavelet_tree/prefix.rs: a wavelet
   tree over prefix-free code words (least significant bit first), one bit vector per node.
   Definitions only.

   Transcribed: construct_recursive (the consistency checks, the bit vector of a node, the
   sequences handed to the children), recursive_access, recursive_rank, recursive_select and the
   trait methods access / rank_q / select_q built on them.
   By interface: the bit vectors of the nodes (rrr::BitVector) are their `list bool`
   (ModelBits.v); the encoder (encoder.rs: HuffmanEncoder / FixedWidthEncoder) is a pair of
   functions enc / dec, code words are `list bool` in the order the bits are consumed (bit 0 of
   the u32 first); node offsets / the nodes vector / serialisation are a tree value. *)
From Coq Require Import Arith List Bool.
From Blue Require Import Scrunch.ModelBits.
Import ListNotations.

Notation code := (list bool) (only parsing).

Inductive ptree := PNil | PNode (bv : bits) (l r : ptree).

Definition is_empty_code (c : code) : bool := match c with [] => true | _ => false end.
Definition head_bit (c : code) : bool := match c with b :: _ => b | [] => false end.
(* `len == 1` with the given low bit *)
Definition ends_with (b : bool) (c : code) : bool :=
  match c with [x] => Bool.eqb x b | _ => false end.
(* `len > 1` with the given low bit *)
Definition continues_with (b : bool) (c : code) : bool :=
  match c with x :: _ :: _ => Bool.eqb x b | _ => false end.

(* the (code >> 1, len - 1) sequence handed to the child on side b *)
Definition sub (b : bool) (cs : list code) : list code :=
  flat_map (fun c => if continues_with b c then [tl c] else []) cs.

Fixpoint pt_construct (fuel : nat) (cs : list code) : res ptree :=
  match fuel with
  | 0 => NoFuel
  | S f =>
      if existsb is_empty_code cs then Err          (* len == 0 *)
      else
        let left_done := existsb (ends_with false) cs in
        let right_done := existsb (ends_with true) cs in
        let left_count := existsb (continues_with false) cs in     (* left_count > 0 *)
        let right_count := existsb (continues_with true) cs in
        if (left_done && left_count) || (right_done && right_count) then Err
        else
          do l <- (if left_count then pt_construct f (sub false cs) else Ok PNil);
          do r <- (if right_count then pt_construct f (sub true cs) else Ok PNil);
          Ok (PNode (map head_bit cs) l r)
  end.

Section Queries.
  Variable enc : nat -> option code.     (* Encoder::encode *)
  Variable dec : code -> option nat.     (* Encoder::decode *)

  (* recursive_access: node_offset == 0 -> decode; else access_rank (None at x >= len) *)
  Fixpoint pt_access_rec (t : ptree) (acc : code) (x : nat) : option nat :=
    match t with
    | PNil => dec acc
    | PNode bv l r =>
        match bv_access bv x, bv_rank bv x with
        | Some bit, Some rank =>
            if bit then pt_access_rec r (acc ++ [true]) rank
            else pt_access_rec l (acc ++ [false]) (x - rank)
        | _, _ => None
        end
    end.

  (* recursive_rank *)
  Fixpoint pt_rank_rec (t : ptree) (c : code) (x : nat) : option nat :=
    match t, c with
    | PNode bv l r, b :: c' =>
        match bv_rank bv x with
        | None => None
        | Some rk =>
            let this_rank := if b then rk else x - rk in
            match c' with
            | [] => Some this_rank
            | _ => pt_rank_rec (if b then r else l) c' this_rank
            end
        end
    | _, _ => None          (* sz == 0, or the node cannot be loaded *)
    end.

  (* recursive_select *)
  Fixpoint pt_select_rec (t : ptree) (c : code) (x : nat) : option nat :=
    match t, c with
    | PNode bv l r, b :: c' =>
        match (match c' with
               | [] => Some x
               | _ => pt_select_rec (if b then r else l) c' x
               end) with
        | None => None
        | Some x' => if b then bv_select bv x' else bv_select0 bv x'
        end
    | _, _ => None
    end.

  Definition pt_access (t : ptree) (x : nat) : option nat := pt_access_rec t [] x.
  Definition pt_rank_q (t : ptree) (q x : nat) : option nat :=
    match t, enc q with
    | PNode _ _ _, Some c => pt_rank_rec t c x
    | _, _ => None
    end.
  Definition pt_select_q (t : ptree) (q x : nat) : option nat :=
    match t, enc q with
    | PNode _ _ _, Some c => pt_select_rec t c x
    | _, _ => None
    end.
End Queries.

(* WaveletTree::construct: encode every symbol, then construct_recursive *)
Definition pt_build (enc : nat -> option code) (fuel : nat) (text : list nat) : res ptree :=
  let fix encode_all (l : list nat) : res (list code) :=
    match l with
    | [] => Ok []
    | s :: r => do c <- ok_or (enc s); do cs <- encode_all r; Ok (c :: cs)
    end in
  do cs <- encode_all text;
  pt_construct fuel cs.

(* ------------------------------------------------------------------ encoder.rs FixedWidthEncoder *)
(* chars = the distinct symbols, ascending; encode(t) = (position of t, width) with
   width = max(len, 2).next_power_of_two().ilog2(); decode(v) = chars[v] *)
Fixpoint insert_uniq (x : nat) (l : list nat) : list nat :=
  match l with
  | [] => [x]
  | y :: r => if x <? y then x :: l else if x =? y then l else y :: insert_uniq x r
  end.
Definition fw_chars (text : list nat) : list nat := fold_right insert_uniq [] text.
Definition fw_width (chars : list nat) : nat := Nat.log2_up (Nat.max (length chars) 2).

Fixpoint to_bits (width n : nat) : list bool :=
  match width with
  | 0 => []
  | S w => Nat.odd n :: to_bits w (Nat.div2 n)
  end.
Fixpoint of_bits (c : list bool) : nat :=
  match c with
  | [] => 0
  | b :: r => (if b then 1 else 0) + 2 * of_bits r
  end.
Fixpoint position_of (t : nat) (l : list nat) (i : nat) : option nat :=
  match l with
  | [] => None
  | y :: r => if t =? y then Some i else position_of t r (S i)
  end.

Definition fw_enc (chars : list nat) (t : nat) : option code :=
  match position_of t chars 0 with
  | Some p => Some (to_bits (fw_width chars) p)
  | None => None
  end.
Definition fw_dec (chars : list nat) (c : code) : option nat := nth_error chars (of_bits c).

(* prefix::WaveletTree<FixedWidthEncoder> over a symbol string: (tree, chars) *)
Definition fw_tree (text : list nat) : res (ptree * list nat) :=
  let chars := fw_chars text in
  do t <- pt_build (fw_enc chars) (S (fw_width chars)) text;
  Ok (t, chars).
