(* Scrunch/ProofsRRR1.v — rrr.rs, part 1: the bit array round trip (push_word / load), the K table
   is Pascal's triangle, decode inverts encode on every 63-bit word, and every encoded offset fits
   the width L gives its class. *)
From Coq Require Import Arith NArith List Bool Lia.
From Blue Require Import Scrunch.ModelBits Scrunch.ModelRRR Scrunch.ProofsBits.
Import ListNotations.
Local Open Scope nat_scope.
Arguments Nat.sub : simpl never.
Arguments Nat.div : simpl never.
Arguments Nat.modulo : simpl never.
Arguments Nat.leb : simpl never.
Arguments Nat.ltb : simpl never.
Arguments Nat.eqb : simpl never.
Arguments Nat.pow : simpl never.
Arguments N.pow : simpl never.
Arguments N.mul : simpl never.
Arguments N.add : simpl never.
Arguments N.sub : simpl never.
Arguments N.leb : simpl never.
Arguments N.ltb : simpl never.

(* ------------------------------------------------------------------ bit arrays *)
Lemma to_bits_length w : forall v, length (to_bits w v) = w.
Proof. induction w as [|w IH]; intros v; cbn [to_bits length]; [reflexivity|now rewrite IH]. Qed.

Lemma bits_val_to_bits w : forall v, (v < 2 ^ N.of_nat w)%N -> bits_val (to_bits w v) = v.
Proof.
  induction w as [|w IH]; intros v Hv.
  - cbn in Hv. cbn. change (2 ^ 0)%N with 1%N in Hv. lia.
  - cbn [to_bits bits_val]. rewrite IH.
    + rewrite (N.div2_odd v) at 3. destruct (N.odd v); cbn [N.b2n]; lia.
    + rewrite Nat2N.inj_succ, N.pow_succ_r' in Hv. pose proof (N.div2_odd v) as E. destruct (N.odd v); cbn [N.b2n] in E; lia.
Qed.

Lemma ba_load_zero a i : ba_load a i 0 = Some 0%N.
Proof. reflexivity. Qed.

Lemma ba_load_mid a f b : 1 <= length f -> ba_load (a ++ f ++ b) (length a) (length f) = Some (bits_val f).
Proof.
  intros H. unfold ba_load.
  replace (length f =? 0) with false by (symmetry; apply Nat.eqb_neq; lia).
  replace (length a + length f <=? length (a ++ f ++ b)) with true
    by (symmetry; apply Nat.leb_le; rewrite !app_length; lia).
  rewrite skipn_app, skipn_all, Nat.sub_diag. cbn [app skipn].
  rewrite firstn_app, firstn_all, Nat.sub_diag. cbn [firstn]. now rewrite app_nil_r.
Qed.

Lemma ba_load_past a i n : 1 <= n -> length a < i + n -> ba_load a i n = None.
Proof.
  intros H1 H2. unfold ba_load.
  replace (n =? 0) with false by (symmetry; apply Nat.eqb_neq; lia).
  now replace (i + n <=? length a) with false by (symmetry; apply Nat.leb_gt; lia).
Qed.

Lemma seal_length_lt acc : length (seal acc) < length acc + 8.
Proof.
  unfold seal. rewrite app_length, repeat_length.
  pose proof (Nat.mod_upper_bound (8 - length acc mod 8) 8 ltac:(lia)). lia.
Qed.

Lemma seal_prefix acc : exists pad, seal acc = acc ++ pad /\ length pad < 8 /\ Forall (fun b => b = false) pad.
Proof.
  unfold seal. eexists. split; [reflexivity|]. split.
  - rewrite repeat_length. apply Nat.mod_upper_bound. lia.
  - apply Forall_forall. intros b Hb. now apply repeat_spec in Hb.
Qed.

(* fixed-width fields *)
Definition fbits (w : nat) (vs : list nat) : list bool := concat (map (fun v => to_bits w (N.of_nat v)) vs).

Lemma fbits_length w vs : length (fbits w vs) = length vs * w.
Proof.
  unfold fbits. induction vs as [|v vs IH]; [reflexivity|].
  cbn [map concat length]. rewrite app_length, to_bits_length, IH. lia.
Qed.

Lemma fbits_app w a b : fbits w (a ++ b) = fbits w a ++ fbits w b.
Proof. unfold fbits. now rewrite map_app, concat_app. Qed.

Lemma skipn_S_tl {A} (l : list A) : forall j, skipn (S j) l = tl (skipn j l).
Proof. induction l as [|x l IH]; intros [|j]; try reflexivity. cbn [skipn] in *. now rewrite <- IH. Qed.

Lemma fbits_split w vs j : j < length vs ->
  fbits w vs = fbits w (firstn j vs) ++ to_bits w (N.of_nat (nth j vs 0)) ++ fbits w (skipn (S j) vs).
Proof.
  intros Hj. rewrite <- (firstn_skipn j vs) at 1. rewrite fbits_app. f_equal.
  destruct (skipn j vs) as [|x r] eqn:E.
  - exfalso. assert (length (skipn j vs) = 0) by now rewrite E. rewrite skipn_length in H. lia.
  - assert (Ex : nth j vs 0 = x).
    { rewrite <- (firstn_skipn j vs) at 1. rewrite app_nth2 by (rewrite firstn_length; lia).
      rewrite firstn_length, Nat.min_l by lia. rewrite Nat.sub_diag, E. reflexivity. }
    assert (Er : skipn (S j) vs = r).
    { now rewrite skipn_S_tl, E. }
    rewrite Ex, Er. unfold fbits. cbn [map concat]. reflexivity.
Qed.

Lemma load_field w vs j tail : 1 <= w -> j < length vs -> (N.of_nat (nth j vs 0%nat) < 2 ^ N.of_nat w)%N ->
  load_nat (fbits w vs ++ tail) (j * w) w = Some (nth j vs 0).
Proof.
  intros Hw Hj Hfit. unfold load_nat. rewrite (fbits_split w vs j Hj), <- !app_assoc.
  pose proof (ba_load_mid (fbits w (firstn j vs)) (to_bits w (N.of_nat (nth j vs 0))) (fbits w (skipn (S j) vs) ++ tail)
                ltac:(rewrite to_bits_length; lia)) as H.
  rewrite fbits_length, firstn_length, Nat.min_l, to_bits_length in H by lia. rewrite H.
  cbn [option_map]. rewrite bits_val_to_bits by exact Hfit. now rewrite Nat2N.id.
Qed.

(* past the last field of a sealed array of fields at least a byte wide there is nothing *)
Lemma load_field_past w vs j : 8 <= w -> length vs <= j -> load_nat (seal (fbits w vs)) (j * w) w = None.
Proof.
  intros Hw Hj. unfold load_nat. rewrite ba_load_past; [reflexivity|lia|].
  pose proof (seal_length_lt (fbits w vs)) as H. rewrite fbits_length in H. nia.
Qed.

(* ------------------------------------------------------------------ the K table *)
Definition Kv (n k : nat) : N := match K_at n k with Some x => x | None => 0%N end.

Definition K_facts_b : bool :=
  forallb (fun n =>
    forallb (fun k =>
      (match K_at n k with Some _ => k <=? n | None => n <? k end)
      && (if k <=? n then (1 <=? Kv n k)%N else true)
      && (if n <? 63 then (Kv (S n) (S k) =? Kv n k + Kv n (S k))%N else true))
      (seq 0 66)
    && (Kv n 0 =? 1)%N) (seq 0 64).

Lemma K_facts_true : K_facts_b = true.
Proof. vm_compute. reflexivity. Qed.

Lemma K_facts n k : n <= 63 -> k <= 65 ->
  (k <= n -> K_at n k = Some (Kv n k) /\ (1 <= Kv n k)%N) /\
  (n < k -> K_at n k = None) /\
  (n < 63 -> Kv (S n) (S k) = (Kv n k + Kv n (S k))%N) /\
  Kv n 0 = 1%N.
Proof.
  intros Hn Hk. pose proof K_facts_true as H. unfold K_facts_b in H.
  rewrite forallb_forall in H. specialize (H n ltac:(apply in_seq; lia)).
  apply andb_true_iff in H. destruct H as [H H0]. rewrite forallb_forall in H.
  specialize (H k ltac:(apply in_seq; lia)).
  apply andb_true_iff in H. destruct H as [H H3]. apply andb_true_iff in H. destruct H as [H1 H2].
  repeat split.
  - unfold Kv. destruct (K_at n k); [reflexivity|]. apply Nat.ltb_lt in H1. lia.
  - rewrite (proj2 (Nat.leb_le k n)) in H2 by lia. now apply N.leb_le in H2.
  - intros Hlt. destruct (K_at n k); [|reflexivity]. apply Nat.leb_le in H1. lia.
  - intros Hlt. rewrite (proj2 (Nat.ltb_lt n 63)) in H3 by lia. now apply N.eqb_eq in H3.
  - now apply N.eqb_eq in H0.
Qed.

Lemma Kv_beyond n k : n <= 63 -> n < k -> Kv n k = 0%N.
Proof.
  intros Hn Hk. unfold Kv, K_at. destruct (nth_error K_table n) as [row|] eqn:E; [|reflexivity].
  destruct (nth_error row k) eqn:E2; [|reflexivity]. exfalso.
  assert (Hl : length row = S n).
  { unfold K_table in E. rewrite nth_error_map in E. rewrite (nth_error_nth' _ 0) in E by (rewrite seq_length; lia).
    rewrite seq_nth in E by lia. cbn in E. inversion E. clear.
    induction n as [|n IH]; [reflexivity|]. cbn [pascal_row].
    assert (Z : forall a b : list N, length b = length a -> length (zip_add a b) = length a).
    { induction a as [|x a IHa]; intros [|y b] Hb; cbn in *; try lia. now rewrite IHa by lia. }
    rewrite Z; cbn [length]; rewrite ?app_length; cbn [length]; lia. }
  assert (k < length row) by (apply nth_error_Some; congruence). lia.
Qed.

Lemma Kv_pascal n k : n < 63 -> Kv (S n) (S k) = (Kv n k + Kv n (S k))%N.
Proof.
  intros Hn. destruct (Nat.le_gt_cases k 64) as [Hk|Hk].
  { destruct (K_facts n k ltac:(lia) ltac:(lia)) as (_ & _ & P & _). now apply P. }
  rewrite !Kv_beyond by lia. reflexivity.
Qed.

Lemma Kv_mono n k : n < 63 -> (Kv n k <= Kv (S n) k)%N.
Proof.
  intros Hn. destruct k as [|k].
  - destruct (K_facts n 0 ltac:(lia) ltac:(lia)) as (_ & _ & _ & E1).
    destruct (K_facts (S n) 0 ltac:(lia) ltac:(lia)) as (_ & _ & _ & E2). rewrite E1, E2. lia.
  - rewrite Kv_pascal by lia. lia.
Qed.

(* ------------------------------------------------------------------ encode / decode *)
(* the sum encode accumulates over a word given most significant bit first *)
Fixpoint Vf (msb : list bool) (c : nat) : N :=
  match msb with
  | [] => 0%N
  | b :: r => if b then (Kv (length msb) c + Vf r (c - 1))%N else Vf r c
  end.

Lemma enc_loop_spec l : forall o, length l <= 63 -> enc_loop l (count1 l) o = Ok (o + Vf l (count1 l))%N.
Proof.
  induction l as [|b r IH]; intros o Hl; [cbn; f_equal; lia|].
  cbn [length] in Hl. pose proof (count1_le_length r) as Hc.
  destruct b; cbn [enc_loop count1 Vf].
  - replace (1 + count1 r) with (S (count1 r)) by lia.
    destruct (K_facts (length (true :: r)) (S (count1 r)) ltac:(cbn [length]; lia) ltac:(lia)) as (A & _).
    destruct (A ltac:(cbn [length]; lia)) as [A1 _]. rewrite A1. cbn [unwrap rbind].
    replace (S (count1 r) - 1) with (count1 r) by lia. rewrite IH by lia. f_equal. lia.
  - cbn [Nat.add]. now rewrite IH by lia.
Qed.

Lemma Vf_bound l : length l < 63 -> (Vf l (count1 l) + 1 <= Kv (S (length l)) (count1 l))%N.
Proof.
  induction l as [|b r IH]; intros Hl.
  - cbn [Vf count1 length]. destruct (K_facts 1 0 ltac:(lia) ltac:(lia)) as (_ & _ & _ & E). rewrite E. lia.
  - cbn [length] in *. specialize (IH ltac:(lia)). destruct b; cbn [count1 Vf].
    + replace (1 + count1 r) with (S (count1 r)) by lia. replace (S (count1 r) - 1) with (count1 r) by lia.
      cbn [length]. rewrite (Kv_pascal (S (length r)) (count1 r)) by lia. lia.
    + cbn [Nat.add]. pose proof (Kv_mono (S (length r)) (count1 r) ltac:(lia)). lia.
Qed.

Lemma Vf_ge_count l : length l <= 63 -> (N.of_nat (count1 l) <= Vf l (count1 l))%N.
Proof.
  induction l as [|b r IH]; intros Hl; [cbn; lia|].
  cbn [length] in Hl. specialize (IH ltac:(lia)). pose proof (count1_le_length r) as Hc.
  destruct b; cbn [count1 Vf]; [|exact IH].
  replace (1 + count1 r) with (S (count1 r)) by lia. replace (S (count1 r) - 1) with (count1 r) by lia.
  destruct (K_facts (length (true :: r)) (S (count1 r)) ltac:(cbn [length]; lia) ltac:(lia)) as (A & _).
  destruct (A ltac:(cbn [length]; lia)) as [_ A2]. lia.
Qed.

Lemma dec_loop_spec l : length l <= 63 -> dec_loop (length l) (Vf l (count1 l)) (count1 l) = Some l.
Proof.
  induction l as [|b r IH]; intros Hl; [reflexivity|].
  cbn [length] in Hl. specialize (IH ltac:(lia)). pose proof (count1_le_length r) as Hc.
  cbn [length dec_loop].
  destruct (K_facts (S (length r)) (count1 (b :: r)) ltac:(lia) ltac:(cbn [count1]; destruct b; lia)) as (A & _).
  destruct (A ltac:(cbn [count1]; destruct b; lia)) as [A1 _]. rewrite A1.
  destruct b; cbn [count1 Vf length].
  - replace (1 + count1 r) with (S (count1 r)) by lia. replace (S (count1 r) - 1) with (count1 r) by lia.
    replace (Kv (S (length r)) (S (count1 r)) <=? Kv (S (length r)) (S (count1 r)) + Vf r (count1 r))%N with true
      by (symmetry; apply N.leb_le; lia).
    replace (Kv (S (length r)) (S (count1 r)) + Vf r (count1 r) - Kv (S (length r)) (S (count1 r)))%N with (Vf r (count1 r)) by lia.
    now rewrite IH.
  - cbn [Nat.add]. pose proof (Vf_bound r ltac:(lia)) as Hb.
    replace (Kv (S (length r)) (count1 r) <=? Vf r (count1 r))%N with false by (symmetry; apply N.leb_gt; lia).
    now rewrite IH.
Qed.

Lemma count1_rev l : count1 (rev l) = count1 l.
Proof. induction l as [|b r IH]; [reflexivity|]. cbn [rev]. rewrite count1_app, IH. cbn. lia. Qed.

Lemma count1_zero_repeat l : count1 l = 0 -> l = repeat false (length l).
Proof.
  induction l as [|b r IH]; intros H; [reflexivity|]. destruct b; cbn in H; [lia|].
  cbn [length repeat]. f_equal. now apply IH.
Qed.

Lemma count1_full_repeat l : count1 l = length l -> l = repeat true (length l).
Proof.
  induction l as [|b r IH]; intros H; [reflexivity|]. pose proof (count1_le_length r).
  destruct b; cbn in H; [|lia]. cbn [length repeat]. f_equal. apply IH. lia.
Qed.

(* the value encode stores for a word *)
Definition enc_o (w : word63) : N :=
  let c := count1 w in
  if (c =? 0) || (c =? 63) then 0%N else (Vf (rev w) c - N.of_nat c)%N.

Lemma encode_spec w : length w = 63 -> encode w = Ok (enc_o w, count1 w).
Proof.
  intros Hw. unfold encode, enc_o. destruct ((count1 w =? 0) || (count1 w =? 63)); [reflexivity|].
  rewrite <- (count1_rev w) at 1. rewrite enc_loop_spec by (rewrite rev_length; lia). cbn [rbind].
  rewrite count1_rev. f_equal.
Qed.

Theorem decode_encode w : length w = 63 -> decode (enc_o w) (count1 w) = Some w.
Proof.
  intros Hw. unfold decode, enc_o.
  destruct (Nat.eqb_spec (count1 w) 0) as [E0|N0]; cbn [orb].
  - f_equal. rewrite <- Hw. symmetry. now apply count1_zero_repeat.
  - destruct (Nat.eqb_spec (count1 w) 63) as [E1|N1].
    + f_equal. rewrite <- Hw. symmetry. apply count1_full_repeat. lia.
    + pose proof (Vf_ge_count (rev w) ltac:(rewrite rev_length; lia)) as Hge. rewrite count1_rev in Hge.
      replace (Vf (rev w) (count1 w) - N.of_nat (count1 w) + N.of_nat (count1 w))%N with (Vf (rev w) (count1 w)) by lia.
      pose proof (dec_loop_spec (rev w) ltac:(rewrite rev_length; lia)) as Hd.
      rewrite rev_length, Hw, count1_rev in Hd. rewrite Hd. cbn [option_map]. now rewrite rev_involutive.
Qed.

(* every offset fits the width of its class *)
Definition Lw (c : nat) : nat := nth c L_table 0.

Definition L_fits_b : bool :=
  forallb (fun c => (Kv 63 c + Kv 63 (c - 1) - 1 - N.of_nat c <? 2 ^ N.of_nat (Lw c))%N && (Lw c <? 64)) (seq 1 62)
  && (Lw 0 =? 0) && (Lw 63 =? 0) && (length L_table =? 64).

Lemma L_fits_true : L_fits_b = true.
Proof. vm_compute. reflexivity. Qed.

Lemma L_table_nth c : c <= 63 -> nth_error L_table c = Some (Lw c).
Proof.
  intros Hc. unfold Lw. apply nth_error_nth'. pose proof L_fits_true as H. unfold L_fits_b in H.
  apply andb_true_iff in H. destruct H as [_ H]. apply Nat.eqb_eq in H. lia.
Qed.

Lemma Lw_lt_64 c : c <= 63 -> Lw c < 64.
Proof.
  intros Hc. pose proof L_fits_true as H. unfold L_fits_b in H.
  apply andb_true_iff in H. destruct H as [H _]. apply andb_true_iff in H. destruct H as [H H63].
  apply andb_true_iff in H. destruct H as [H H0]. apply Nat.eqb_eq in H0, H63.
  destruct (Nat.eq_dec c 0) as [->|]; [lia|]. destruct (Nat.eq_dec c 63) as [->|]; [lia|].
  rewrite forallb_forall in H. specialize (H c ltac:(apply in_seq; lia)).
  apply andb_true_iff in H. destruct H as [_ H]. now apply Nat.ltb_lt in H.
Qed.

Theorem enc_o_fits w : length w = 63 -> (enc_o w < 2 ^ N.of_nat (Lw (count1 w)))%N.
Proof.
  intros Hw. unfold enc_o.
  destruct (Nat.eqb_spec (count1 w) 0) as [E0|N0]; cbn [orb]; [rewrite E0; vm_compute; reflexivity|].
  destruct (Nat.eqb_spec (count1 w) 63) as [E1|N1]; [rewrite E1; vm_compute; reflexivity|].
  pose proof (count1_le_length w) as Hc. rewrite Hw in Hc.
  pose proof L_fits_true as H. unfold L_fits_b in H.
  apply andb_true_iff in H. destruct H as [H _]. apply andb_true_iff in H. destruct H as [H _].
  apply andb_true_iff in H. destruct H as [H _].
  rewrite forallb_forall in H. specialize (H (count1 w) ltac:(apply in_seq; lia)).
  apply andb_true_iff in H. destruct H as [H _]. apply N.ltb_lt in H.
  (* the first (most significant) bit decides between the two summands *)
  assert (Hr : length (rev w) = 63) by now rewrite rev_length.
  rewrite <- (count1_rev w) in *. set (l := rev w) in *. clearbody l. clear w Hw.
  destruct l as [|b r]; [cbn in Hr; lia|]. cbn [length] in Hr.
  pose proof (Vf_bound r ltac:(lia)) as Hb. replace (S (length r)) with 63 in Hb by lia.
  assert (Hv : (Vf (b :: r) (count1 (b :: r)) + 1 <= Kv 63 (count1 (b :: r)) + Kv 63 (count1 (b :: r) - 1))%N).
  { destruct b; cbn [count1 Vf length].
    - replace (1 + count1 r) with (S (count1 r)) by lia. replace (S (count1 r) - 1) with (count1 r) by lia.
      replace (S (length r)) with 63 by lia. lia.
    - cbn [Nat.add]. lia. }
  lia.
Qed.
