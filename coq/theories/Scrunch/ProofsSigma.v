(* Scrunch/ProofsSigma.v — Sigma::construct yields the alphabet in ascending order and bucket
   boundaries such that, for the sorted suffix array, rank/select over `columns` give the first
   symbol of every suffix-array position and the range of every symbol: `index_ok`. *)
From Coq Require Import Arith NArith List Bool Lia Sorted Permutation.
From Blue Require Import Scrunch.ModelBits Scrunch.Model Scrunch.ProofsBits Scrunch.ProofsSorted
  Scrunch.ProofsSuffix Scrunch.ProofsSearch.
Import ListNotations.

Arguments Nat.sub : simpl never.
Arguments Nat.div : simpl never.
Arguments Nat.modulo : simpl never.
Arguments Nat.leb : simpl never.
Arguments Nat.ltb : simpl never.
Arguments Nat.eqb : simpl never.
Arguments N.eqb : simpl never.
Arguments N.ltb : simpl never.

(* ------------------------------------------------------------------ the counting pass *)
Definition cnt (t : N) (text : list N) : nat := length (filter (N.eqb t) text).

Fixpoint lookup (t : N) (sc : list (N * nat)) : nat :=
  match sc with
  | [] => 0
  | (u, c) :: r => if N.eqb t u then c else lookup t r
  end.

Definition keys_sorted (sc : list (N * nat)) : Prop := StronglySorted N.lt (map fst sc).

Lemma lookup_notin t sc : ~ In t (map fst sc) -> lookup t sc = 0.
Proof.
  induction sc as [|[u c] r IH]; intros H; [reflexivity|]. cbn [lookup]. cbn [map fst] in H.
  destruct (N.eqb_spec t u) as [->|]; [exfalso; apply H; now left|]. apply IH. intros Hin. apply H. now right.
Qed.

Lemma insert_count_keys t sc u : In u (map fst (insert_count t sc)) <-> u = t \/ In u (map fst sc).
Proof.
  induction sc as [|[v c] r IH]; cbn [insert_count map fst].
  - cbn. intuition.
  - destruct (N.eqb_spec t v) as [->|Hne].
    + cbn [map fst In]. intuition.
    + destruct (N.ltb_spec t v); cbn [map fst In].
      * intuition.
      * rewrite IH. intuition.
Qed.

Lemma insert_count_sorted t sc : keys_sorted sc -> keys_sorted (insert_count t sc).
Proof.
  unfold keys_sorted. induction sc as [|[v c] r IH]; intros H; cbn [insert_count map fst].
  - repeat constructor.
  - cbn [map fst] in H. inversion H as [|? ? Hs Hf]; subst.
    destruct (N.eqb_spec t v) as [->|Hne]; [exact H|].
    destruct (N.ltb_spec t v) as [Hlt|Hge]; cbn [map fst].
    + constructor; [exact H|]. constructor; [exact Hlt|].
      eapply Forall_impl; [|exact Hf]. cbn. intros; lia.
    + constructor; [now apply IH|]. apply Forall_forall. intros u Hu.
      apply insert_count_keys in Hu. destruct Hu as [->|Hu]; [lia|].
      rewrite Forall_forall in Hf. now apply Hf.
Qed.

Lemma insert_count_lookup t sc u : keys_sorted sc ->
  lookup u (insert_count t sc) = lookup u sc + (if N.eqb u t then 1 else 0).
Proof.
  unfold keys_sorted. induction sc as [|[v c] r IH]; intros H; cbn [insert_count lookup].
  - destruct (N.eqb u t); reflexivity.
  - cbn [map fst] in H. inversion H as [|? ? Hs Hf]; subst.
    destruct (N.eqb_spec t v) as [->|Hne].
    + cbn [lookup]. destruct (N.eqb_spec u v); lia.
    + destruct (N.ltb_spec t v) as [Hlt|Hge]; cbn [lookup].
      * destruct (N.eqb_spec u t) as [E|E]; [|lia]. subst u.
        destruct (N.eqb_spec t v); [lia|].
        rewrite lookup_notin; [reflexivity|]. intros Hin. rewrite Forall_forall in Hf. specialize (Hf _ Hin). lia.
      * destruct (N.eqb_spec u v) as [E|E].
        -- subst u. destruct (N.eqb_spec v t); [congruence|lia].
        -- now apply IH.
Qed.

Lemma insert_count_pos t sc : Forall (fun p => 1 <= snd p) sc -> Forall (fun p => 1 <= snd p) (insert_count t sc).
Proof.
  induction sc as [|[v c] r IH]; intros H; cbn [insert_count]; [repeat constructor|].
  inversion H; subst. cbn [snd] in *.
  destruct (N.eqb t v); [constructor; [cbn; lia|assumption]|].
  destruct (N.ltb t v); [constructor; [cbn; lia|assumption]|]. constructor; [assumption|now apply IH].
Qed.

Lemma sigma_counts_gen text : forall acc, keys_sorted acc -> Forall (fun p => 1 <= snd p) acc ->
  let sc := fold_left (fun acc t => insert_count t acc) text acc in
  keys_sorted sc /\ Forall (fun p => 1 <= snd p) sc /\ forall u, lookup u sc = lookup u acc + cnt u text.
Proof.
  induction text as [|t text IH]; intros acc Hs Hp; cbn [fold_left].
  - repeat split; try assumption. intros u. unfold cnt. cbn. lia.
  - destruct (IH (insert_count t acc) (insert_count_sorted t acc Hs) (insert_count_pos t acc Hp)) as (A & B & C).
    repeat split; try assumption. intros u. rewrite C, insert_count_lookup by assumption.
    unfold cnt. cbn [filter]. destruct (N.eqb u t); cbn [length]; lia.
Qed.

Lemma sigma_counts_spec text :
  let sc := sigma_counts text in
  keys_sorted sc /\ Forall (fun p => 1 <= snd p) sc /\ forall u, lookup u sc = cnt u text.
Proof.
  unfold sigma_counts. destruct (sigma_counts_gen text [] ltac:(constructor) ltac:(constructor)) as (A & B & C).
  repeat split; assumption.
Qed.

Lemma cnt_pos_In t text : 0 < cnt t text <-> In t text.
Proof.
  unfold cnt. induction text as [|x text IH]; cbn [filter length In]; [lia|].
  destruct (N.eqb_spec t x) as [->|Hne]; cbn [length].
  - split; [now left|lia].
  - rewrite IH. split; [now right|]. intros [E|H]; [congruence|assumption].
Qed.

Lemma lookup_pos_In t sc : Forall (fun p => 1 <= snd p) sc -> (0 < lookup t sc <-> In t (map fst sc)).
Proof.
  induction 1 as [|[u c] r Hc Hr IH]; cbn [lookup map fst In]; [lia|]. cbn [snd] in Hc.
  destruct (N.eqb_spec t u) as [->|Hne].
  - split; [now left|lia].
  - rewrite IH. split; [now right|]. intros [E|H]; [congruence|assumption].
Qed.

Lemma lookup_nth sc : keys_sorted sc -> forall u, u < length sc ->
  lookup (nth u (map fst sc) 0%N) sc = nth u (map snd sc) 0.
Proof.
  unfold keys_sorted. induction sc as [|[v c] r IH]; intros H u Hu; [cbn in Hu; lia|].
  cbn [map fst snd] in *. inversion H as [|? ? Hs Hf]; subst.
  destruct u as [|u]; cbn [nth lookup].
  - now rewrite N.eqb_refl.
  - cbn [length] in Hu.
    assert (Hin : In (nth u (map fst r) 0%N) (map fst r)) by (apply nth_In; rewrite map_length; lia).
    rewrite Forall_forall in Hf. specialize (Hf _ Hin).
    destruct (N.eqb_spec (nth u (map fst r) 0%N) v); [lia|]. apply IH; [assumption|lia].
Qed.

(* ------------------------------------------------------------------ index_of / char_to_sigma *)
Lemma index_of_spec t l : forall base,
  match index_of t l base with
  | Some i => base <= i /\ i < base + length l /\ nth (i - base) l 0%N = t /\
              forall j, j < i - base -> nth j l 0%N <> t
  | None => ~ In t l
  end.
Proof.
  induction l as [|u l IH]; intros base; cbn [index_of]; [intros []|].
  destruct (N.eqb_spec t u) as [->|Hne].
  - replace (base - base) with 0 by lia. cbn [nth length]. repeat split; try lia.
  - specialize (IH (S base)). destruct (index_of t l (S base)) as [i|].
    + destruct IH as (A & B & C & D). cbn [length]. repeat split; try lia.
      * replace (i - base) with (S (i - S base)) by lia. exact C.
      * intros j Hj. destruct j as [|j]; cbn [nth]; [congruence|]. apply D. lia.
    + intros [E|H]; [congruence|contradiction].
Qed.

Lemma NoDup_nth_N (l : list N) : NoDup l -> forall i j, i < length l -> j < length l ->
  nth i l 0%N = nth j l 0%N -> i = j.
Proof. intros H. apply NoDup_nth. exact H. Qed.

Lemma sorted_N_NoDup (l : list N) : StronglySorted N.lt l -> NoDup l.
Proof.
  induction 1 as [|x l Hs IH Hf]; constructor; [|exact IH].
  intros Hin. rewrite Forall_forall in Hf. specialize (Hf x Hin). lia.
Qed.

Lemma index_of_nth (l : list N) : NoDup l -> forall u, u < length l ->
  index_of (nth u l 0%N) l 1 = Some (S u).
Proof.
  intros Hnd u Hu. pose proof (index_of_spec (nth u l 0%N) l 1) as H.
  destruct (index_of (nth u l 0%N) l 1) as [i|].
  - destruct H as (A & B & C & D). f_equal.
    assert (i - 1 = u) by (apply (NoDup_nth_N l Hnd); [lia|exact Hu|exact C]). lia.
  - exfalso. apply H. now apply nth_In.
Qed.

(* ------------------------------------------------------------------ running sums *)
Definition sumn (l : list nat) : nat := fold_right Nat.add 0 l.

Lemma running_length acc cs : length (running acc cs) = S (length cs).
Proof. revert acc. induction cs as [|c cs IH]; intros acc; cbn; [reflexivity|]. now rewrite IH. Qed.

Lemma running_nth cs : forall acc j, j <= length cs -> nth j (running acc cs) 0 = acc + sumn (firstn j cs).
Proof.
  induction cs as [|c cs IH]; intros acc j Hj.
  - cbn in Hj. assert (j = 0) by lia. subst. cbn. lia.
  - destruct j as [|j]; cbn [running nth firstn sumn fold_right]; [lia|].
    rewrite IH by (cbn in Hj; lia). fold (sumn (firstn j cs)). lia.
Qed.

Lemma last_is_nth (l : list nat) d : l <> [] -> last l d = nth (length l - 1) l d.
Proof.
  induction l as [|x l IH]; intros H; [contradiction|].
  destruct l as [|y l]; [reflexivity|].
  change (last (x :: y :: l) d) with (last (y :: l) d). rewrite IH by discriminate.
  cbn [length]. replace (S (S (length l)) - 1) with (S (S (length l) - 1)) by lia. reflexivity.
Qed.

Lemma running_last cs : forall acc, last (running acc cs) 0 = acc + sumn cs.
Proof.
  intros acc. rewrite last_is_nth by (destruct cs; discriminate).
  rewrite running_length. replace (S (length cs) - 1) with (length cs) by lia.
  rewrite running_nth by lia. now rewrite firstn_all.
Qed.

Lemma running_sinc cs : Forall (fun c => 1 <= c) cs -> forall acc, sinc (running acc cs).
Proof.
  induction 1 as [|c cs Hc Hcs IH]; intros acc; cbn [running]; [repeat constructor|].
  constructor; [apply IH|]. apply Forall_forall. intros y Hy.
  destruct (In_nth _ _ 0 Hy) as (k & Hk & <-). rewrite running_length in Hk.
  rewrite running_nth by lia. lia.
Qed.

(* ------------------------------------------------------------------ counting in lists of nat *)
Definition cle (j : nat) (l : list nat) : nat := length (filter (fun x => x <=? j) l).
Definition ceq (j : nat) (l : list nat) : nat := length (filter (fun x => x =? j) l).

Lemma cle_S j l : cle (S j) l = cle j l + ceq (S j) l.
Proof.
  unfold cle, ceq. induction l as [|x l IH]; [reflexivity|]. cbn [filter].
  destruct (Nat.leb_spec x (S j)), (Nat.leb_spec x j), (Nat.eqb_spec x (S j)); cbn [length]; lia.
Qed.

Lemma cle_app j a b : cle j (a ++ b) = cle j a + cle j b.
Proof. unfold cle. now rewrite filter_app, app_length. Qed.

Lemma cle_perm j a b : Permutation a b -> cle j a = cle j b.
Proof.
  unfold cle. induction 1 as [| x a b _ IH | x y a | a b c _ IH1 _ IH2]; cbn [filter]; try lia.
  - destruct (x <=? j); cbn [length]; lia.
  - destruct (x <=? j), (y <=? j); reflexivity.
Qed.

Lemma cle_all j l : Forall (fun x => x <= j) l -> cle j l = length l.
Proof.
  unfold cle. induction 1 as [|x l Hx Hl IH]; [reflexivity|]. cbn [filter].
  destruct (Nat.leb_spec x j); [|lia]. cbn [length]. lia.
Qed.

Lemma cle_le_length j l : cle j l <= length l.
Proof. unfold cle. induction l as [|x l IH]; cbn [filter length]; [lia|]. destruct (x <=? j); cbn [length]; lia. Qed.

(* in a non-decreasing list the elements <= j are exactly the first `cle j` ones *)
Lemma sorted_cle_prefix l : StronglySorted le l -> forall i j, i < length l ->
  (nth i l 0 <= j <-> i < cle j l).
Proof.
  induction 1 as [|x l Hs IH Hf]; intros i j Hi; [cbn in Hi; lia|].
  unfold cle. cbn [filter]. destruct (Nat.leb_spec x j) as [Hx|Hx]; cbn [length]; fold (cle j l).
  - destruct i as [|i]; cbn [nth]; [lia|]. cbn [length] in Hi. rewrite (IH i j ltac:(lia)). lia.
  - assert (Z : cle j l = 0).
    { unfold cle. clear IH Hs Hi. induction Hf as [|y l Hy Hl IHf]; [reflexivity|]. cbn [filter].
      destruct (Nat.leb_spec y j); [lia|]. exact IHf. }
    rewrite Z. destruct i as [|i]; cbn [nth]; [lia|].
    cbn [length] in Hi. rewrite Forall_forall in Hf.
    assert (Hin : In (nth i l 0) l) by (apply nth_In; lia). specialize (Hf _ Hin). lia.
Qed.

Lemma filter_lt_seq c m : length (filter (fun j => j <? c) (seq 0 m)) = Nat.min c m.
Proof.
  induction m as [|m IH]; [cbn; lia|].
  rewrite seq_S, filter_app, app_length, IH. cbn [filter Nat.add].
  destruct (Nat.ltb_spec m c); cbn [length]; lia.
Qed.

Lemma map_nth_seq (l : list nat) : map (fun p => nth p l 0) (seq 0 (length l)) = l.
Proof.
  induction l as [|x l IH]; [reflexivity|]. cbn [length seq map nth]. f_equal.
  rewrite <- seq_shift, map_map. exact IH.
Qed.

(* ------------------------------------------------------------------ Sigma::construct *)
Section SigmaOk.
  Variable text : list N.
  Let n := length text.
  Let sc := sigma_counts text.
  Let s2c' := map fst sc.
  Let counts := map snd sc.
  Let K1 := length sc.
  Let buckets := running 0 counts.

  Definition c2s (t : N) : nat := match index_of t s2c' 1 with Some i => i | None => 0 end.
  Let Tt := map c2s text.
  Let T := Tt ++ [0].

  Let Hks : StronglySorted N.lt s2c' := proj1 (sigma_counts_spec text).
  Let Hpos : Forall (fun p => 1 <= snd p) sc := proj1 (proj2 (sigma_counts_spec text)).
  Let Hlk : forall u, lookup u sc = cnt u text := proj2 (proj2 (sigma_counts_spec text)).

  Lemma so_nodup : NoDup s2c'.
  Proof. apply sorted_N_NoDup, Hks. Qed.

  Lemma so_len_s2c : length s2c' = K1.
  Proof. unfold s2c', K1. apply map_length. Qed.

  Lemma so_len_counts : length counts = K1.
  Proof. unfold counts, K1. apply map_length. Qed.

  Lemma so_in t : In t s2c' <-> In t text.
  Proof. unfold s2c'. rewrite <- (lookup_pos_In t sc Hpos), Hlk. apply cnt_pos_In. Qed.

  Lemma so_counts u : u < K1 -> nth u counts 0 = cnt (nth u s2c' 0%N) text.
  Proof. intros Hu. unfold counts, s2c'. rewrite <- (lookup_nth sc Hks u Hu). apply Hlk. Qed.

  Lemma so_counts_pos : Forall (fun c => 1 <= c) counts.
  Proof. unfold counts. apply Forall_map. exact Hpos. Qed.

  Lemma c2s_nth u : u < K1 -> c2s (nth u s2c' 0%N) = S u.
  Proof. intros Hu. unfold c2s. rewrite index_of_nth; [reflexivity|apply so_nodup|now rewrite so_len_s2c]. Qed.

  Lemma c2s_in t : In t s2c' -> 1 <= c2s t /\ c2s t <= K1 /\ nth (c2s t - 1) s2c' 0%N = t.
  Proof.
    intros Hin. destruct (In_nth _ _ 0%N Hin) as (u & Hu & <-). rewrite so_len_s2c in Hu.
    rewrite c2s_nth by exact Hu. replace (S u - 1) with u by lia. repeat split; lia.
  Qed.

  Lemma c2s_eq t j : j < K1 -> (c2s t = S j <-> t = nth j s2c' 0%N).
  Proof.
    intros Hj. split; [|intros ->; now apply c2s_nth].
    unfold c2s. pose proof (index_of_spec t s2c' 1) as H. destruct (index_of t s2c' 1) as [i|]; [|discriminate].
    intros ->. destruct H as (_ & _ & C & _). replace (S j - 1) with j in C by lia. now symmetry.
  Qed.

  Lemma so_ceq_gen j (l : list N) : j < K1 -> ceq (S j) (map c2s l) = cnt (nth j s2c' 0%N) l.
  Proof.
    intros Hj. unfold ceq, cnt. induction l as [|t l IH]; [reflexivity|].
    cbn [map filter]. destruct (Nat.eqb_spec (c2s t) (S j)) as [E|NE].
    - apply (c2s_eq t j Hj) in E. rewrite <- E, N.eqb_refl. cbn [length]. now rewrite IH, E.
    - destruct (N.eqb_spec (nth j s2c' 0%N) t) as [E|_]; [|exact IH].
      exfalso. apply NE. apply (c2s_eq t j Hj). now symmetry.
  Qed.

  Lemma so_ceq j : j < K1 -> ceq (S j) Tt = cnt (nth j s2c' 0%N) text.
  Proof. apply so_ceq_gen. Qed.

  Lemma so_Tt_pos : Forall (fun x => 1 <= x /\ x <= K1) Tt.
  Proof.
    unfold Tt. apply Forall_map. apply Forall_forall. intros t Ht. apply so_in in Ht.
    destruct (c2s_in t Ht) as (A & B & _). now split.
  Qed.

  Lemma so_sum j : j <= K1 -> sumn (firstn j counts) = cle j Tt.
  Proof.
    induction j as [|j IH]; intros Hj.
    - cbn. symmetry. unfold cle. pose proof so_Tt_pos as H. induction H as [|x l [Hx _] Hl IHl]; [reflexivity|].
      cbn [filter]. destruct (Nat.leb_spec x 0); [lia|exact IHl].
    - rewrite cle_S, <- IH by lia. rewrite so_ceq by lia. rewrite <- so_counts by lia.
      rewrite (firstn_S_nth 0) by (rewrite so_len_counts; lia).
      unfold sumn. rewrite fold_right_app. cbn [fold_right].
      generalize (firstn j counts). intros l. induction l as [|a l IHl]; cbn [fold_right]; lia.
  Qed.

  Lemma so_total : sumn counts = n.
  Proof.
    rewrite <- (firstn_all counts), so_len_counts, so_sum by lia.
    rewrite cle_all; [unfold Tt; now rewrite map_length|].
    eapply Forall_impl; [|exact so_Tt_pos]. cbn. intros x [_ H]. exact H.
  Qed.

  Lemma so_bucket_nth j : j <= K1 -> nth j buckets 0 = cle j Tt.
  Proof.
    intros Hj. unfold buckets. rewrite running_nth by (rewrite so_len_counts; exact Hj). now rewrite so_sum.
  Qed.

  Lemma so_buckets_length : length buckets = S K1.
  Proof. unfold buckets. now rewrite running_length, so_len_counts. Qed.

  Lemma so_buckets_sinc : sinc buckets.
  Proof. apply running_sinc, so_counts_pos. Qed.

  Lemma so_buckets_lt : Forall (fun b => b < n + 1) buckets.
  Proof.
    apply Forall_forall. intros b Hb. destruct (In_nth _ _ 0 Hb) as (j & Hj & <-).
    rewrite so_buckets_length in Hj. rewrite so_bucket_nth by lia.
    pose proof (cle_le_length j Tt).
    assert (length Tt = n) by (unfold Tt; apply map_length). lia.
  Qed.

  Definition the_sigma : sigma := {| s2c := s2c'; columns := bits_of_indices (n + 1) buckets |}.

  Lemma so_construct : sigma_construct text = Ok the_sigma.
  Proof.
    unfold sigma_construct. fold sc. fold counts. fold buckets.
    assert (L : last buckets 0 = n) by (unfold buckets; rewrite running_last, so_total; lia).
    rewrite L. unfold from_indices. cbn [Nat.leb Nat.ltb andb].
    replace ((4 <=? 16) && (16 <? 256)) with true by reflexivity.
    rewrite (sinc_strictly_increasing _ so_buckets_sinc).
    replace (forallb (fun i => i <? n + 1) buckets) with true; [reflexivity|].
    symmetry. apply forallb_forall. intros b Hb. apply Nat.ltb_lt.
    pose proof so_buckets_lt as H. rewrite Forall_forall in H. now apply H.
  Qed.

  Lemma so_char_to_sigma t : In t text -> char_to_sigma the_sigma t = Some (c2s t).
  Proof.
    intros Hin. apply so_in in Hin. unfold char_to_sigma, c2s. cbn [s2c the_sigma].
    pose proof (index_of_spec t s2c' 1) as H. destruct (index_of t s2c' 1); [reflexivity|contradiction].
  Qed.

  Lemma so_translate : translate_text the_sigma text = Ok T.
  Proof.
    unfold translate_text. rewrite (mapM_ok _ c2s); [reflexivity|].
    intros t Ht. now rewrite so_char_to_sigma.
  Qed.

  Lemma so_T_length : length T = S n.
  Proof. unfold T, Tt. rewrite app_length, map_length. cbn. fold n. lia. Qed.

  Lemma so_T_nth p : p < n -> nth p T 0 = c2s (nth p text 0%N).
  Proof.
    intros Hp. unfold T. rewrite app_nth1 by (unfold Tt; rewrite map_length; exact Hp).
    unfold Tt. rewrite (nth_indep _ 0 (c2s 0%N)) by (rewrite map_length; exact Hp). apply map_nth.
  Qed.

  Lemma so_T_term : nth n T 0 = 0.
  Proof.
    unfold T. rewrite app_nth2 by (unfold Tt; rewrite map_length; fold n; lia).
    unfold Tt. rewrite map_length. fold n. now rewrite Nat.sub_diag.
  Qed.

  Lemma so_cle_T j : cle j T = cle j Tt + 1.
  Proof. unfold T. rewrite cle_app. unfold cle at 2. cbn [filter]. destruct (Nat.leb_spec 0 j); [reflexivity|lia]. Qed.

  (* ---- with a suffix array ---- *)
  Variable sa : list nat.
  Hypothesis Hsa : is_suffix_array T sa.

  Let Fl := map (fun p => nth p T 0) sa.

  Lemma so_T_pos p : p < n -> 0 < nth p T 0.
  Proof.
    intros Hp. rewrite so_T_nth by exact Hp.
    destruct (c2s_in (nth p text 0%N)) as (A & _); [apply so_in, nth_In; exact Hp|lia].
  Qed.

  Lemma so_Fl_nth i : i < S n -> nth i Fl 0 = fs T sa i.
  Proof.
    intros Hi. unfold Fl, fs.
    rewrite (nth_indep _ 0 ((fun p => nth p T 0) 0)) by (rewrite map_length, (sa_length T sa Hsa), so_T_length; exact Hi).
    apply (map_nth (fun p => nth p T 0)).
  Qed.

  Lemma so_Fl_length : length Fl = S n.
  Proof. unfold Fl. now rewrite map_length, (sa_length T sa Hsa), so_T_length. Qed.

  Lemma so_Fl_perm : Permutation Fl T.
  Proof.
    unfold Fl. destruct Hsa as [P _].
    pose proof (Permutation_map (fun p => nth p T 0) P) as Q. now rewrite map_nth_seq in Q.
  Qed.

  Lemma so_Fl_sorted : StronglySorted le Fl.
  Proof.
    assert (G : forall l, (forall i j, i < j -> j < length l -> nth i l 0 <= nth j l 0) -> StronglySorted le l).
    { induction l as [|x l IH]; intros H; constructor.
      - apply IH. intros i j Hij Hj. apply (H (S i) (S j)); cbn; lia.
      - apply Forall_forall. intros y Hy. destruct (In_nth l y 0 Hy) as (k & Hk & <-). apply (H 0 (S k)); cbn; lia. }
    apply G. rewrite so_Fl_length. intros i j Hij Hj. rewrite !so_Fl_nth by lia.
    apply (fs_mono T sa n Hsa so_T_length so_T_term so_T_pos); lia.
  Qed.

  Lemma so_fs_le i : i < S n -> fs T sa i <= K1.
  Proof.
    intros Hi. unfold fs. pose proof (ix_sa_lt T sa n Hsa so_T_length so_T_term so_T_pos i Hi) as L.
    destruct (Nat.eq_dec (nth i sa 0) n) as [->|NE]; [rewrite so_T_term; lia|].
    rewrite so_T_nth by lia. destruct (c2s_in (nth (nth i sa 0) text 0%N)) as (_ & B & _); [apply so_in, nth_In; fold n; lia|exact B].
  Qed.

  (* bucket j ends below i iff the suffix at position i starts with a symbol above j *)
  Lemma so_bucket_lt i j : i < S n -> j <= K1 -> (nth j buckets 0 < i <-> j < fs T sa i).
  Proof.
    intros Hi Hj. rewrite so_bucket_nth by exact Hj.
    pose proof (sorted_cle_prefix Fl so_Fl_sorted i j ltac:(rewrite so_Fl_length; exact Hi)) as H.
    rewrite so_Fl_nth in H by exact Hi. rewrite (cle_perm j Fl T so_Fl_perm), so_cle_T in H. lia.
  Qed.

  Lemma so_rank i : i < S n -> count_lt buckets i = fs T sa i.
  Proof.
    intros Hi.
    assert (E : buckets = map (fun j => nth j buckets 0) (seq 0 (S K1))).
    { rewrite <- so_buckets_length. symmetry. apply map_nth_seq. }
    unfold count_lt. rewrite E at 1. 
    assert (G : forall l, Forall (fun j => j <= K1) l ->
              length (filter (fun y => y <? i) (map (fun j => nth j buckets 0) l)) =
              length (filter (fun j => j <? fs T sa i) l)).
    { induction 1 as [|j l Hj Hl IHl]; [reflexivity|]. cbn [map filter].
      pose proof (so_bucket_lt i j Hi Hj) as B.
      destruct (Nat.ltb_spec (nth j buckets 0) i), (Nat.ltb_spec j (fs T sa i)); cbn [length]; lia. }
    rewrite G by (apply Forall_forall; intros j Hj; apply in_seq in Hj; lia).
    rewrite filter_lt_seq. pose proof (so_fs_le i Hi). lia.
  Qed.

  Lemma so_columns_length : bv_len (columns the_sigma) = S n.
  Proof. cbn [columns the_sigma]. unfold bv_len. rewrite bits_of_indices_length. lia. Qed.

  Lemma so_sigma_rank i : i < S n -> bv_rank (columns the_sigma) i = Some (fs T sa i).
  Proof.
    intros Hi. cbn [columns the_sigma].
    rewrite (rank_of_indices (n + 1) buckets so_buckets_sinc) by lia. f_equal. now apply so_rank.
  Qed.

  Lemma so_select k : 0 < k -> k <= S K1 ->
    bv_select (columns the_sigma) k = Some (S (nth (k - 1) buckets 0)).
  Proof.
    intros Hk Hk'. cbn [columns the_sigma].
    apply (select_of_indices (n + 1) buckets so_buckets_sinc so_buckets_lt k Hk).
    now rewrite so_buckets_length.
  Qed.

  Lemma so_range c : 1 <= c -> c <= K1 ->
    exists s e, sa_range_for_sigma the_sigma c = Ok (s, e) /\ 1 <= s /\ s <= e /\ e <= n /\
                forall i, i < S n -> (s <= i <= e <-> fs T sa i = c).
  Proof.
    intros Hc1 Hc2. unfold sa_range_for_sigma.
    rewrite (so_select c) by lia. rewrite (so_select (c + 1)) by lia. cbn [ok_or rbind].
    replace (c + 1 - 1) with c by lia.
    destruct (Nat.eqb_spec (S (nth c buckets 0)) 0); [lia|].
    exists (S (nth (c - 1) buckets 0)), (S (nth c buckets 0) - 1). split; [reflexivity|].
    (* the bucket of c is not empty: some text position carries c *)
    assert (Hne : nth (c - 1) buckets 0 < nth c buckets 0).
    { apply (sinc_nth buckets so_buckets_sinc); [lia|rewrite so_buckets_length; lia]. }
    assert (Hle : nth c buckets 0 <= n).
    { pose proof so_buckets_lt as H. rewrite Forall_forall in H.
      assert (Hin : In (nth c buckets 0) buckets) by (apply nth_In; rewrite so_buckets_length; lia).
      specialize (H _ Hin). lia. }
    split; [lia|]. split; [lia|]. split; [lia|].
    intros i Hi.
    pose proof (so_bucket_lt i (c - 1) Hi ltac:(lia)) as B1.
    pose proof (so_bucket_lt i c Hi ltac:(lia)) as B2. lia.
  Qed.

  Theorem sigma_index_ok : index_ok text the_sigma T sa.
  Proof.
    constructor.
    - exact Hsa.
    - exact so_T_length.
    - exact so_T_term.
    - intros p Hp. split.
      + rewrite so_char_to_sigma by (apply nth_In; exact Hp). now rewrite so_T_nth.
      + now apply so_T_pos.
    - intros t c p Hc Hp. fold n in Hp. rewrite so_T_nth by exact Hp.
      unfold char_to_sigma in Hc. cbn [s2c the_sigma] in Hc.
      pose proof (index_of_spec t s2c' 1) as St. rewrite Hc in St. destruct St as (A1 & A2 & A3 & _).
      split.
      + intros E. assert (Hin : In (nth p text 0%N) s2c') by (apply so_in, nth_In; exact Hp).
        destruct (c2s_in _ Hin) as (_ & _ & N3). rewrite E in N3. congruence.
      + intros ->. unfold c2s. now rewrite Hc.
    - intros t Hc Hin. unfold char_to_sigma in Hc. cbn [s2c the_sigma] in Hc.
      pose proof (index_of_spec t s2c' 1) as St. rewrite Hc in St. apply St. now apply so_in.
    - intros t c Hc. fold n. unfold char_to_sigma in Hc. cbn [s2c the_sigma] in Hc.
      pose proof (index_of_spec t s2c' 1) as St. rewrite Hc in St. destruct St as (A1 & A2 & _).
      rewrite so_len_s2c in A2. apply so_range; lia.
    - intros i Hi. fold n in Hi. unfold sa_index_to_sigma. rewrite so_columns_length.
      destruct (Nat.ltb_spec i (S n)); [|lia]. now apply so_sigma_rank.
    - intros i Hi0 Hi. fold n in Hi. unfold sa_index_to_t. rewrite so_columns_length.
      destruct (Nat.ltb_spec 0 i); [|lia]. destruct (Nat.ltb_spec i (S n)); [|lia]. cbn [andb].
      rewrite so_sigma_rank by exact Hi. cbn [ok_or rbind].
      pose proof (ix_sa_lt T sa n Hsa so_T_length so_T_term so_T_pos i Hi) as L.
      assert (NE : nth i sa 0 <> n).
      { intros E. assert (i = 0); [|lia].
        apply (fs_zero_iff T sa n Hsa so_T_length so_T_term so_T_pos i Hi). unfold fs. rewrite E. exact so_T_term. }
      unfold fs. rewrite so_T_nth by lia.
      assert (Hin : In (nth (nth i sa 0) text 0%N) s2c') by (apply so_in, nth_In; fold n; lia).
      destruct (c2s_in _ Hin) as (C1 & C2 & C3).
      destruct (Nat.eqb_spec (c2s (nth (nth i sa 0) text 0%N)) 0); [lia|].
      cbn [s2c the_sigma]. rewrite (nth_error_nth' s2c' 0%N) by (rewrite so_len_s2c; lia).
      cbn [unwrap]. now rewrite C3.
  Qed.
End SigmaOk.
