(* Scrunch/ProofsRRR3.v — rrr.rs, part 3: access, access_rank and rank of the constructed vector
   are those of the plain bit list, at every index. *)
From Coq Require Import Arith NArith List Bool Lia.
From Blue Require Import Scrunch.ModelBits Scrunch.ModelRRR Scrunch.ProofsBits Scrunch.ProofsSparse1
  Scrunch.ProofsRRR1 Scrunch.ProofsRRR2.
Import ListNotations.
Local Open Scope nat_scope.
Arguments Nat.sub : simpl never.
Arguments Nat.div : simpl never.
Arguments Nat.modulo : simpl never.
Arguments Nat.leb : simpl never.
Arguments Nat.ltb : simpl never.
Arguments Nat.eqb : simpl never.
Arguments Nat.pow : simpl never.
Arguments Nat.mul : simpl never.
Arguments Nat.log2_up : simpl never.
Arguments N.pow : simpl never.
Arguments N.ltb : simpl never.
Arguments N.of_nat : simpl never.

(* ------------------------------------------------------------------ list facts *)
Lemma firstn_plus {A} (l : list A) a : forall b, firstn (a + b) l = firstn a l ++ firstn b (skipn a l).
Proof.
  revert l. induction a as [|a IH]; intros l b; [reflexivity|].
  destruct l as [|x l]; [cbn; now rewrite firstn_nil|]. cbn [Nat.add firstn skipn app]. now rewrite IH.
Qed.

Lemma skipn_nth_cons {A} (d : A) (l : list A) : forall k, k < length l -> skipn k l = nth k l d :: skipn (S k) l.
Proof.
  induction l as [|x l IH]; intros [|k] H; cbn [length] in H; try lia; [reflexivity|].
  cbn [skipn nth]. rewrite (IH k) by lia. reflexivity.
Qed.

Lemma chunked_firstn {A} k (l : list A) cs : chunked k l cs -> forall j r, j < length cs -> r <= length (nth j cs []) ->
  firstn (k * j + r) l = concat (firstn j cs) ++ firstn r (nth j cs []).
Proof.
  induction 1 as [c H1 H2|c l cs Hc Hch IH]; intros j r Hj Hr.
  - cbn [length] in Hj. replace j with 0 in * by lia. cbn [nth] in Hr. cbn [firstn concat nth app].
    now replace (k * 0 + r) with r by lia.
  - destruct j as [|j].
    + cbn [nth] in *. cbn [firstn concat app]. replace (k * 0 + r) with r by lia.
      rewrite firstn_app. replace (r - length c) with 0 by lia. cbn [firstn]. now rewrite app_nil_r.
    + cbn [nth length] in *. cbn [firstn concat]. rewrite <- app_assoc, <- (IH j r) by lia.
      replace (k * S j + r) with (length c + (k * j + r)) by lia.
      rewrite firstn_plus. rewrite firstn_app, Nat.sub_diag, firstn_all. cbn [firstn]. rewrite app_nil_r.
      f_equal. rewrite skipn_app, skipn_all, Nat.sub_diag. reflexivity.
Qed.

Lemma count1_repeat_false n : count1 (repeat false n) = 0.
Proof. induction n; [reflexivity|exact IHn]. Qed.

Lemma count1_pad63 c : count1 (pad63 c) = count1 c.
Proof. unfold pad63. rewrite count1_app, count1_repeat_false. lia. Qed.

Lemma count1_concat_pad l : count1 (concat (map pad63 l)) = count1 (concat l).
Proof. induction l as [|c l IH]; [reflexivity|]. cbn [map concat]. now rewrite !count1_app, IH, count1_pad63. Qed.

Lemma firstn_pad63 r c : r <= length c -> firstn r (pad63 c) = firstn r c.
Proof. intros H. unfold pad63. rewrite firstn_app. replace (r - length c) with 0 by lia. cbn [firstn]. apply app_nil_r. Qed.

Lemma nth_pad63 r c : r < length c -> nth r (pad63 c) false = nth r c false.
Proof. intros H. unfold pad63. now rewrite app_nth1. Qed.

Lemma olen_of_bound ws : Forall (fun w => length w = 63) ws -> olen_of ws <= 63 * length ws.
Proof.
  induction 1 as [|w ws Hw Hall IH]; [cbn; lia|]. unfold olen_of in *. cbn [fold_right length].
  pose proof (count1_le_length w). pose proof (Lw_le_63 (count1 w) ltac:(lia)). lia.
Qed.

Lemma rank_of_bound ws : Forall (fun w => length w = 63) ws -> rank_of ws <= 63 * length ws.
Proof.
  unfold rank_of. induction 1 as [|w ws Hw Hall IH]; [cbn; lia|]. cbn [concat length]. rewrite count1_app.
  pose proof (count1_le_length w). lia.
Qed.

Lemma ofields_length ws : length (concat (map ofield ws)) = olen_of ws.
Proof.
  unfold olen_of. induction ws as [|w ws IH]; [reflexivity|]. cbn [map concat fold_right].
  rewrite app_length, IH. unfold ofield. now rewrite to_bits_length.
Qed.

Lemma nth_map_pad63 k cs : k < length cs -> nth k (map pad63 cs) [] = pad63 (nth k cs []).
Proof.
  intros H. rewrite (nth_indep (map pad63 cs) [] (pad63 [])) by (now rewrite map_length). apply (map_nth pad63).
Qed.

Lemma ofield_length w : length (ofield w) = Lw (count1 w).
Proof. unfold ofield. apply to_bits_length. Qed.

Lemma Forall_firstn {A} (P : A -> Prop) n l : Forall P l -> Forall P (firstn n l).
Proof. revert l. induction n as [|n IH]; intros l H; [constructor|]. destruct H; cbn [firstn]; constructor; auto. Qed.

(* ------------------------------------------------------------------ the constructed vector *)
Section Built.
  Variable bs : list bool.
  Variable cs : list (list bool).
  Hypothesis Hok : words_ok bs cs.
  Hypothesis Hlen : rrr_len_ok (length bs).

  Notation ws := (map pad63 cs).
  Notation bits := (length bs).
  Notation width := (calc_width (length bs)).
  Notation v := (rrr_of (length bs) (map pad63 cs)).
  Notation wk k := (nth k (map pad63 cs) []).

  Local Set Default Proof Using "Hok Hlen".

  Lemma ws_all : Forall (fun w => length w = 63) ws.
  Proof. exact (proj1 (words_ok_facts bs cs Hok)). Qed.
  Lemma ws_count : 63 * length ws < bits + 63 /\ bits <= 63 * length ws.
  Proof. rewrite map_length. exact (proj2 (words_ok_facts bs cs Hok)). Qed.
  Lemma wk_length k : k < length ws -> length (wk k) = 63.
  Proof. intros H. pose proof ws_all as A. rewrite Forall_forall in A. apply A. now apply nth_In. Qed.

  Lemma load_c_at k : k < length ws ->
    load_c_o_bits v (6 * k) = Some (count1 (wk k), Lw (count1 (wk k))).
  Proof.
    intros Hk. unfold load_c_o_bits. cbn [rrr_of rr_c].
    destruct (fstate_closed ws) as (_ & _ & _ & Ecv & _). cbv zeta in Ecv. rewrite Ecv.
    destruct (seal_prefix (fbits 6 (map (@count1) ws))) as (pad & -> & _).
    pose proof (wk_length k Hk) as Hw. pose proof (count1_le_length (wk k)) as Hc. rewrite Hw in Hc.
    assert (En : nth k (map (@count1) ws) 0 = count1 (wk k)).
    { change 0 with (count1 []) at 1. apply map_nth. }
    replace (6 * k) with (k * 6) by lia.
    rewrite load_field; [| lia | now rewrite map_length | rewrite En; change (2 ^ N.of_nat 6)%N with 64%N; lia].
    rewrite En. now rewrite (L_table_nth _ Hc).
  Qed.

  Lemma load_o_at k : k < length ws ->
    load_o v (count1 (wk k)) (olen_of (firstn k ws)) (Lw (count1 (wk k))) = Some (wk k).
  Proof.
    intros Hk. unfold load_o. cbn [rrr_of rr_o].
    destruct (fstate_closed ws) as (_ & _ & _ & _ & Eob & _). cbv zeta in Eob. rewrite Eob.
    pose proof (wk_length k Hk) as Hw.
    destruct (Nat.eq_dec (Lw (count1 (wk k))) 0) as [Ez|Enz].
    - rewrite Ez, ba_load_zero. pose proof (enc_o_fits (wk k) Hw) as Hf. rewrite Ez in Hf.
      change (2 ^ N.of_nat 0)%N with 1%N in Hf. replace 0%N with (enc_o (wk k)) by lia.
      now apply decode_encode.
    - destruct (seal_prefix (concat (map ofield ws))) as (pad & -> & _).
      assert (Esplit : concat (map ofield ws) =
                       concat (map ofield (firstn k ws)) ++ ofield (wk k) ++ concat (map ofield (skipn (S k) ws))).
      { rewrite <- (firstn_skipn k ws) at 1. first [rewrite (skipn_nth_cons (A:=word63) [] ws k Hk)|rewrite (skipn_nth_cons (A:=list bool) [] ws k Hk)].
        rewrite map_app, concat_app. reflexivity. }
      rewrite Esplit, <- !app_assoc.
      pose proof (ba_load_mid (concat (map ofield (firstn k ws))) (ofield (wk k))
                    (concat (map ofield (skipn (S k) ws)) ++ pad)) as H.
      rewrite ofields_length, !ofield_length in H.
      rewrite H by lia. unfold ofield. rewrite bits_val_to_bits by now apply enc_o_fits.
      now apply decode_encode.
  Qed.

  Lemma olen_firstn_S k : k < length ws -> olen_of (firstn (S k) ws) = olen_of (firstn k ws) + Lw (count1 (wk k)).
  Proof. intros H. rewrite (firstn_S_nth (A:=word63) [] k ws H), olen_of_app, olen_of_one. reflexivity. Qed.
  Lemma rank_firstn_S k : k < length ws -> rank_of (firstn (S k) ws) = rank_of (firstn k ws) + count1 (wk k).
  Proof. intros H. rewrite (firstn_S_nth (A:=word63) [] k ws H), rank_of_app, rank_of_one. reflexivity. Qed.

  (* the walk over whole words *)
  Lemma walk_words_spec : forall m k0 rem rank fuel, k0 + m <= length ws -> rem < 63 -> m < fuel ->
    walk_words fuel v (63 * m + rem) (6 * k0) (olen_of (firstn k0 ws)) (rank + rank_of (firstn k0 ws)) =
    Ok (Some (rem, 6 * (k0 + m), olen_of (firstn (k0 + m) ws), rank + rank_of (firstn (k0 + m) ws))).
  Proof.
    induction m as [|m IH]; intros k0 rem rank fuel Hk Hr Hf; (destruct fuel as [|fuel]; [lia|]); cbn [walk_words].
    - replace (63 * 0 + rem) with rem by lia. replace (63 <=? rem) with false by (symmetry; apply Nat.leb_gt; lia).
      now replace (k0 + 0) with k0 by lia.
    - replace (63 <=? 63 * S m + rem) with true by (symmetry; apply Nat.leb_le; lia).
      rewrite load_c_at by lia.
      replace (63 * S m + rem - 63) with (63 * m + rem) by lia.
      replace (6 * k0 + 6) with (6 * S k0) by lia.
      rewrite <- olen_firstn_S by lia.
      replace (rank + rank_of (firstn k0 ws) + count1 (wk k0)) with (rank + rank_of (firstn (S k0) ws))
        by (rewrite rank_firstn_S by lia; lia).
      rewrite IH by lia. now replace (S k0 + m) with (k0 + S m) by lia.
  Qed.

  Lemma walk_shift fuel : forall idx c o ra d,
    walk_words fuel v idx c o (ra + d) =
    match walk_words fuel v idx c o ra with
    | Ok (Some (a, b, c', r)) => Ok (Some (a, b, c', r + d))
    | x => x
    end.
  Proof.
    induction fuel as [|fuel IH]; intros idx c o ra d; [reflexivity|]. cbn [walk_words].
    destruct (63 <=? idx); [|reflexivity]. destruct (load_c_o_bits v c) as [[c1 ob]|]; [|reflexivity].
    replace (ra + d + c1) with (ra + c1 + d) by lia. apply IH.
  Qed.

  (* where index i lives *)
  Lemma locate i : i < bits ->
    let k := i / 63 in let r := i mod 63 in let j := i / 504 in
    k < length ws /\ r < 63 /\ i = 63 * k + r /\ 8 * j <= k /\ k < 8 * j + 8 /\
    r < length (nth k cs []) /\ nth i bs false = nth r (wk k) false /\
    count1 (firstn i bs) = rank_of (firstn k ws) + count1 (firstn r (wk k)).
  Proof.
    intros Hi. cbv zeta. destruct Hok as [[E _]|Hch]; [rewrite E in Hi; cbn in Hi; lia|].
    destruct (chunked_nth 63 bs cs false i Hch Hi) as (A & B & C).
    pose proof (Nat.div_mod i 63 ltac:(lia)) as D. pose proof (Nat.mod_upper_bound i 63 ltac:(lia)) as M.
    assert (J : i / 504 = i / 63 / 8) by (rewrite Nat.div_div by lia; reflexivity).
    pose proof (Nat.div_mod (i / 63) 8 ltac:(lia)) as D8. pose proof (Nat.mod_upper_bound (i / 63) 8 ltac:(lia)) as M8.
    rewrite map_length. repeat split; try lia.
    - rewrite C. rewrite nth_map_pad63 by lia. now rewrite nth_pad63.
    - rewrite D at 1. rewrite (chunked_firstn 63 bs cs Hch (i / 63) (i mod 63)) by lia.
      rewrite count1_app. unfold rank_of. rewrite firstn_map, count1_concat_pad.
      rewrite nth_map_pad63 by lia. rewrite firstn_pad63 by lia. reflexivity.
  Qed.

  Lemma p_r_at j : 8 * j < length ws ->
    load_nat (rr_p v) (j * width) width = Some (olen_of (firstn (8 * j) ws)) /\
    load_nat (rr_r v) (j * width) width = Some (rank_of (firstn (8 * j) ws)).
  Proof.
    intros Hj. cbn [rrr_of rr_p rr_r].
    destruct (fstate_closed ws) as (_ & _ & _ & _ & _ & (P1 & P2 & P3) & (R1 & R2 & R3)).
    pose proof (calc_width_bounds bits Hlen) as Hw. pose proof ws_count as [Hc _].
    pose proof (Forall_firstn _ (8 * j) _ ws_all) as Hall.
    assert (Hfl : length (firstn (8 * j) ws) = 8 * j) by (rewrite firstn_length; lia).
    split.
    - destruct (seal_prefix (fbits width (q_pv (fstate ws)))) as (pad & -> & _).
      rewrite load_field; [now rewrite P3 by lia|lia|lia|].
      rewrite P3 by lia. apply width_fits. pose proof (olen_of_bound _ Hall). change word63 with (list bool) in *. lia.
    - destruct (seal_prefix (fbits width (q_rv (fstate ws)))) as (pad & -> & _).
      rewrite load_field; [now rewrite R3 by lia|lia|lia|].
      rewrite R3 by lia. apply width_fits. pose proof (rank_of_bound _ Hall). change word63 with (list bool) in *. lia.
  Qed.

  Lemma rank_at_correct i : i < bits ->
    rank_at v i = Ok (Some (nth i bs false, count1 (firstn i bs))).
  Proof.
    intros Hi. destruct (locate i Hi) as (K1 & K2 & K3 & K4 & K5 & K6 & K7 & K8). cbv zeta in *.
    unfold rank_at. cbn [rr_bits rr_word rrr_of]. fold (rrr_of bits ws).
    replace (8 * 63) with 504 by reflexivity.
    destruct (p_r_at (i / 504) ltac:(lia)) as [Ep Er]. rewrite Ep, Er.
    set (k := i / 63) in *. set (j := i / 504) in *. set (r := i mod 63) in *.
    replace (i - j * 504) with (63 * (k - 8 * j) + r) by lia.
    replace (j * 6 * 8) with (6 * (8 * j)) by lia.
    replace (rank_of (firstn (8 * j) ws)) with (0 + rank_of (firstn (8 * j) ws)) by lia.
    rewrite walk_words_spec by lia. cbn [rbind].
    replace (8 * j + (k - 8 * j)) with k by lia.
    rewrite load_c_at by lia. rewrite load_o_at by lia.
    rewrite <- K7, K8. reflexivity.
  Qed.

  Theorem rr_access_correct i : rr_access v i = Ok (bv_access bs i).
  Proof.
    unfold rr_access, bv_access. cbn [rr_bits rr_word rrr_of]. fold (rrr_of bits ws).
    destruct (Nat.leb_spec bits i) as [Hge|Hi].
    - f_equal. symmetry. now apply nth_error_None.
    - destruct (locate i Hi) as (K1 & K2 & K3 & K4 & K5 & K6 & K7 & K8). cbv zeta in *.
      replace (8 * 63) with 504 by reflexivity.
      destruct (p_r_at (i / 504) ltac:(lia)) as [Ep _]. rewrite Ep.
      set (k := i / 63) in *. set (j := i / 504) in *. set (r := i mod 63) in *.
      replace (i - j * 504) with (63 * (k - 8 * j) + r) by lia.
      replace (j * 6 * 8) with (6 * (8 * j)) by lia.
      pose proof (walk_words_spec (k - 8 * j) (8 * j) r 0 (S i) ltac:(lia) ltac:(lia) ltac:(lia)) as W.
      (* access starts its (unused) rank at 0 *)
      rewrite walk_shift in W.
      destruct (walk_words (S i) v (63 * (k - 8 * j) + r) (6 * (8 * j)) (olen_of (firstn (8 * j) ws)) 0)
        as [[[[[a b] c'] d]|]| | |] eqn:Ew; try discriminate.
      inversion W; subst a b c'. cbn [rbind]. replace (8 * j + (k - 8 * j)) with k by lia.
      rewrite load_c_at by lia. rewrite load_o_at by lia.
      rewrite <- K7. rewrite (nth_error_nth' bs false) by lia. reflexivity.
  Qed.

  Theorem rr_access_rank_correct i : rr_access_rank v i = Ok (bv_access_rank bs i).
  Proof.
    unfold rr_access_rank, bv_access_rank, bv_access. cbn [rr_bits rrr_of]. fold (rrr_of bits ws).
    destruct (Nat.leb_spec bits i) as [Hge|Hi].
    - now rewrite (proj2 (nth_error_None bs i)) by lia.
    - rewrite rank_at_correct by lia. rewrite (nth_error_nth' bs false) by lia.
      now rewrite bv_rank_some by lia.
  Qed.

  Theorem rr_rank_correct x : rr_rank v x = Ok (bv_rank bs x).
  Proof.
    unfold rr_rank. cbn [rr_bits rrr_of]. fold (rrr_of bits ws).
    destruct (Nat.ltb_spec bits x) as [Hgt|Hle]; [now rewrite bv_rank_none|].
    rewrite bv_rank_some by lia.
    destruct (Nat.eqb_spec x bits) as [->|Hne].
    - destruct (Nat.eqb_spec bits 0) as [E0|N0].
      + rewrite E0. reflexivity.
      + rewrite rank_at_correct by lia. cbn [rbind option_map fst snd].
        replace bits with (S (bits - 1)) at 4 by lia. rewrite count1_firstn_S by lia.
        destruct (nth (bits - 1) bs false); do 2 f_equal; lia.
    - rewrite rank_at_correct by lia. reflexivity.
  Qed.
End Built.
