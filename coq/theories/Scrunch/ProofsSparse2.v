(* Scrunch/ProofsSparse2.v — a well-formed B-tree of the sparse bit vector answers access_rank and
   select as counting / indexing in the sorted index list. *)
From Coq Require Import Arith List Bool Lia Sorted.
From Blue Require Import Scrunch.ModelBits Scrunch.Model Scrunch.ModelSparse Scrunch.ProofsBits
  Scrunch.ProofsSorted Scrunch.ProofsSparse1.
Import ListNotations.

Arguments Nat.sub : simpl never.
Arguments Nat.div : simpl never.
Arguments Nat.modulo : simpl never.
Arguments Nat.leb : simpl never.
Arguments Nat.ltb : simpl never.
Arguments Nat.eqb : simpl never.
Arguments Nat.pow : simpl never.

Definition lastv (c : list nat) : nat := last c 0.

Lemma removelast_cons2 {A} (a b : A) l : removelast (a :: b :: l) = a :: removelast (b :: l).
Proof. reflexivity. Qed.

Lemma sinc_last_max_aux l : sinc l -> forall x, In x l -> x <= last l 0.
Proof.
  induction 1 as [|y l Hs IH Hf]; intros x Hx; [destruct Hx|].
  destruct l as [|z l]; [destruct Hx as [->|[]]; cbn; lia|].
  change (last (y :: z :: l) 0) with (last (z :: l) 0).
  destruct Hx as [->|Hx]; [|now apply IH].
  rewrite Forall_forall in Hf. specialize (Hf z (or_introl eq_refl)).
  specialize (IH z (or_introl eq_refl)). lia.
Qed.

Lemma count_lt_all_lt_aux l x : Forall (fun y => y < x) l -> count_lt l x = length l.
Proof.
  unfold count_lt. induction 1 as [|y l Hy Hl IH]; [reflexivity|]. cbn [filter].
  destruct (Nat.ltb_spec y x); [|lia]. cbn [length]. now rewrite IH.
Qed.

Lemma removelast_In_aux {A} (x : A) l : In x (removelast l) -> In x l.
Proof.
  induction l as [|a l IH]; [intros []|]. destruct l as [|b l]; [intros []|].
  rewrite removelast_cons2. intros [->|H]; [now left|right; now apply IH].
Qed.

Lemma removelast_length_aux {A} (l : list A) : length (removelast l) = length l - 1.
Proof.
  induction l as [|a l IH]; [reflexivity|]. destruct l as [|b l]; [reflexivity|].
  rewrite removelast_cons2. cbn [length] in *. lia.
Qed.

Lemma last_nth_aux {A} (l : list A) d : l <> [] -> last l d = nth (length l - 1) l d.
Proof.
  induction l as [|a l IH]; intros H; [contradiction|]. destruct l as [|b l]; [reflexivity|].
  change (last (a :: b :: l) d) with (last (b :: l) d). rewrite IH by discriminate.
  cbn [length]. replace (S (S (length l)) - 1) with (S (S (length l) - 1)) by lia. reflexivity.
Qed.

(* ------------------------------------------------------------------ sorted lists cut into chunks *)
Lemma count_lt_app a b x : count_lt (a ++ b) x = count_lt a x + count_lt b x.
Proof. unfold count_lt. now rewrite filter_app, app_length. Qed.

Lemma memb_app x a b : memb x (a ++ b) = memb x a || memb x b.
Proof. unfold memb. apply existsb_app. Qed.

Lemma memb_false x l : (forall y, In y l -> y <> x) -> memb x l = false.
Proof.
  intros H. unfold memb. destruct (existsb (Nat.eqb x) l) eqn:E; [|reflexivity].
  apply existsb_exists in E. destruct E as (y & Hy & Ey). apply Nat.eqb_eq in Ey. subst y. exfalso. now apply (H x Hy).
Qed.

Lemma sinc_last_ge l y : sinc l -> In y l -> y <= lastv l.
Proof. intros Hs Hy. unfold lastv. now apply sinc_last_max_aux. Qed.

Lemma chunked_tail_nonempty {A} k (l : list A) cs : chunked k l cs -> exists c cs', cs = c :: cs'.
Proof. destruct 1; eauto. Qed.

Lemma chunks_rank k l cs x : chunked k l cs -> sinc l ->
  let c := count_lt (map lastv (removelast cs)) x in
  c < length cs /\
  count_lt l x = c * k + count_lt (nth c cs []) x /\
  memb x l = memb x (nth c cs []).
Proof.
  intros H. induction H as [c0 H1 H2|c0 l' cs' Hc0 Hch IH]; intros Hs.
  - cbn zeta. change (removelast [c0]) with (@nil (list nat)). cbn [map]. change (count_lt [] x) with 0.
    cbn [nth length]. split; [lia|]. split; [now rewrite Nat.mul_0_l|reflexivity].
  - destruct (chunked_tail_nonempty _ _ _ Hch) as (c1 & cs'' & E). subst cs'.
    cbn zeta. rewrite removelast_cons2. cbn [map]. rewrite count_lt_cons.
    destruct (sinc_app_inv _ _ Hs) as (S0 & S1 & S01). specialize (IH S1). cbn zeta in IH.
    pose proof (chunked_pos _ _ _ Hch) as [Hk Hl'].
    assert (Hne0 : c0 <> []) by (intros ->; cbn in Hc0; lia).
    assert (Hlast_in : In (lastv c0) c0).
    { unfold lastv. destruct c0; [contradiction|apply last_In_aux]. }
    destruct (Nat.ltb_spec (lastv c0) x) as [Hlt|Hge].
    + (* the whole first chunk is below x *)
      destruct IH as (I1 & I2 & I3).
      assert (Hall : count_lt c0 x = length c0).
      { apply count_lt_all_lt_aux. apply Forall_forall. intros y Hy. pose proof (sinc_last_ge c0 y S0 Hy). lia. }
      split; [cbn [length] in *; lia|]. split.
      * rewrite count_lt_app, Hall, I2, Hc0. cbn [Nat.add nth]. rewrite Nat.mul_succ_l. lia.
      * rewrite memb_app, I3. cbn [Nat.add nth]. rewrite memb_false; [reflexivity|].
        intros y Hy. pose proof (sinc_last_ge c0 y S0 Hy). lia.
    + (* x is at or below the end of the first chunk: nothing later counts *)
      assert (Hlater : forall y, In y l' -> x < y).
      { intros y Hy. specialize (S01 _ _ Hlast_in Hy). lia. }
      assert (Z : count_lt (map lastv (removelast (c1 :: cs''))) x = 0).
      { apply count_lt_all_ge. apply Forall_forall. intros d Hd. apply in_map_iff in Hd.
        destruct Hd as (ch & <- & Hch'). apply removelast_In_aux in Hch'.
        assert (Hin : In (lastv ch) l').
        { rewrite <- (chunked_concat _ _ _ Hch). apply in_concat. exists ch. split; [exact Hch'|].
          pose proof (chunked_nonempty _ _ _ Hch) as [_ Hall]. rewrite Forall_forall in Hall. specialize (Hall ch Hch').
          unfold lastv. destruct ch; [cbn in Hall; lia|apply last_In_aux]. }
        specialize (Hlater _ Hin). lia. }
      rewrite Z. cbn [Nat.add nth]. split; [cbn [length]; lia|]. split.
      * rewrite count_lt_app. rewrite (count_lt_all_ge l' x); [lia|].
        apply Forall_forall. intros y Hy. specialize (Hlater y Hy). lia.
      * rewrite memb_app, (memb_false x l'); [apply orb_false_r|]. intros y Hy. specialize (Hlater y Hy). lia.
Qed.

Lemma lasts_sinc k l cs : chunked k l cs -> sinc l -> sinc (map lastv (removelast cs)).
Proof.
  intros H. induction H as [c0 H1 H2|c0 l' cs' Hc0 Hch IH]; intros Hs; [constructor|].
  destruct (chunked_tail_nonempty _ _ _ Hch) as (c1 & cs'' & E). subst cs'.
  rewrite removelast_cons2. cbn [map].
  destruct (sinc_app_inv _ _ Hs) as (S0 & S1 & S01). constructor; [now apply IH|].
  pose proof (chunked_pos _ _ _ Hch) as [Hk _].
  assert (Hlast_in : In (lastv c0) c0).
  { unfold lastv. destruct c0; [cbn in Hc0; lia|apply last_In_aux]. }
  apply Forall_forall. intros d Hd. apply in_map_iff in Hd. destruct Hd as (ch & <- & Hch'). apply removelast_In_aux in Hch'.
  apply S01; [exact Hlast_in|].
  rewrite <- (chunked_concat _ _ _ Hch). apply in_concat. exists ch. split; [exact Hch'|].
  pose proof (chunked_nonempty _ _ _ Hch) as [_ Hall]. rewrite Forall_forall in Hall. specialize (Hall ch Hch').
  unfold lastv. destruct ch; [cbn in Hall; lia|apply last_In_aux].
Qed.

Lemma chunk_sinc k l cs j : chunked k l cs -> sinc l -> j < length cs -> sinc (nth j cs []).
Proof.
  intros H. revert j. induction H as [c0 H1 H2|c0 l' cs' Hc0 Hch IH]; intros j Hs Hj.
  - destruct j; [exact Hs|cbn in Hj; lia].
  - destruct (sinc_app_inv _ _ Hs) as (S0 & S1 & _). destruct j; [exact S0|]. cbn [nth]. apply IH; [exact S1|cbn in Hj; lia].
Qed.

(* ------------------------------------------------------------------ the tree *)
Section Tree.
  Variable v : sparse.
  Let B := sv_branch v.
  Let nodes := sv_nodes v.
  Hypothesis HB : 3 <= B.

  Definition cap (h : nat) : nat := B ^ (S h).

  Inductive wf : nat -> nat -> list nat -> Prop :=
  | wf_leaf a chunk :
      nth_error nodes a = Some (SLeaf (mk_slice B chunk)) ->
      1 <= length chunk -> length chunk <= B -> wf 0 a chunk
  | wf_node h a chunk cs ptrs :
      nth_error nodes a = Some (SInternal (mk_slice (B - 1) (map lastv (removelast cs))) (mk_slice B ptrs)) ->
      chunked (cap h) chunk cs -> Forall2 (wf h) ptrs cs -> length ptrs <= B -> sinc ptrs ->
      wf (S h) a chunk.

  Lemma Forall2_nth_aux {X Y} (R : X -> Y -> Prop) l1 l2 dx dy j : Forall2 R l1 l2 -> j < length l1 ->
    R (nth j l1 dx) (nth j l2 dy).
  Proof.
    intros H. revert j. induction H as [|x y l1 l2 Hxy H IH]; intros j Hj; [cbn in Hj; lia|].
    destruct j; [exact Hxy|]. cbn [nth]. apply IH. cbn in Hj. lia.
  Qed.

  Lemma Forall2_length_aux {X Y} (R : X -> Y -> Prop) l1 l2 : Forall2 R l1 l2 -> length l1 = length l2.
  Proof. induction 1; cbn; congruence. Qed.

  Theorem descend_rank_correct h : forall a chunk, wf h a chunk -> sinc chunk -> forall cum x,
    descend_rank v (skip_factors_from B h) a cum x = Ok (Some (memb x chunk, cum + count_lt chunk x)).
  Proof.
    induction h as [|h IH]; intros a chunk Hw Hs cum x.
    - inversion Hw as [a' chunk' Hn H1 H2|]; subst. cbn [skip_factors_from descend_rank].
      unfold load_leaf. fold nodes. rewrite Hn. fold B.
      now rewrite (leaf_access_rank_correct B chunk x Hs H1 H2).
    - inversion Hw as [|h' a' chunk' cs ptrs Hn Hch Hf Hlp Hsp]; subst.
      cbn [skip_factors_from descend_rank]. unfold load_internal. fold nodes. rewrite Hn. fold B.
      pose proof (Forall2_length_aux _ _ _ Hf) as Hlen.
      pose proof (chunked_nonempty _ _ _ Hch) as [Hne _].
      assert (Hcs1 : 1 <= length cs) by (destruct cs; [contradiction|cbn; lia]).
      rewrite (internal_position_correct B (map lastv (removelast cs)) ptrs x HB
                 (lasts_sinc _ _ _ Hch Hs) Hsp ltac:(lia) Hlp
                 ltac:(rewrite map_length, removelast_length_aux; lia)).
      cbn [rbind].
      destruct (chunks_rank _ _ _ x Hch Hs) as (C1 & C2 & C3).
      set (c := count_lt (map lastv (removelast cs)) x) in *.
      rewrite (IH (nth c ptrs 0) (nth c cs [])).
      + rewrite C2, C3. unfold cap. f_equal. f_equal. f_equal. lia.
      + apply Forall2_nth_aux; [exact Hf|lia].
      + apply (chunk_sinc _ _ _ c Hch Hs C1).
  Qed.

  Theorem descend_select_correct h : forall a chunk, wf h a chunk -> sinc chunk -> forall x,
    descend_select v (skip_factors_from B h) a x =
    if x <? length chunk then Some (S (nth x chunk 0)) else None.
  Proof.
    induction h as [|h IH]; intros a chunk Hw Hs x.
    - inversion Hw as [a' chunk' Hn H1 H2|]; subst. cbn [skip_factors_from descend_select].
      unfold load_leaf. fold nodes. rewrite Hn. apply (leaf_select_correct B chunk x Hs H1 H2).
    - inversion Hw as [|h' a' chunk' cs ptrs Hn Hch Hf Hlp Hsp]; subst.
      cbn [skip_factors_from descend_select]. unfold load_internal. fold nodes. rewrite Hn.
      pose proof (Forall2_length_aux _ _ _ Hf) as Hlen.
      pose proof (chunked_nonempty _ _ _ Hch) as [Hne _].
      assert (Hcs1 : 1 <= length cs) by (destruct cs; [contradiction|cbn; lia]).
      rewrite (internal_pointer_correct B ptrs (x / B ^ S h) Hsp ltac:(lia) Hlp).
      change (B ^ S h) with (cap h).
      destruct (Nat.ltb_spec x (length chunk)) as [Hx|Hx].
      + destruct (chunked_nth _ _ _ 0 x Hch Hx) as (A1 & A2 & A3).
        destruct (Nat.ltb_spec (x / cap h) (length ptrs)); [|lia].
        rewrite (IH (nth (x / cap h) ptrs 0) (nth (x / cap h) cs [])).
        * destruct (Nat.ltb_spec (x mod cap h) (length (nth (x / cap h) cs []))); [|lia]. now rewrite A3.
        * apply Forall2_nth_aux; [exact Hf|lia].
        * apply (chunk_sinc _ _ _ _ Hch Hs A1).
      + destruct (chunked_beyond _ _ _ x Hch Hx) as [Hb|[Hb1 Hb2]].
        * destruct (Nat.ltb_spec (x / cap h) (length ptrs)); [lia|reflexivity].
        * destruct (Nat.ltb_spec (x / cap h) (length ptrs)); [|reflexivity].
          rewrite (IH (nth (x / cap h) ptrs 0) (nth (x / cap h) cs [])).
          -- rewrite Hb1, <- last_nth_aux by exact Hne.
             destruct (Nat.ltb_spec (x mod cap h) (length (last cs []))); [lia|reflexivity].
          -- apply Forall2_nth_aux; [exact Hf|lia].
          -- apply (chunk_sinc _ _ _ _ Hch Hs). lia.
  Qed.
End Tree.
