(* Scrunch/ProofsSampled.v — SampledArray by interface; SampledSuffixArray::lookup (locate by
   walking psi to the next sample) returns sa[idx]; SampledInverseSuffixArray answers isa at the
   record starts. *)
From Coq Require Import Arith NArith List Bool Lia Sorted Permutation.
From Blue Require Import Scrunch.ModelBits Scrunch.Model Scrunch.ProofsBits Scrunch.ProofsSorted
  Scrunch.ProofsSuffix Scrunch.ProofsSearch Scrunch.ProofsSigma Scrunch.ProofsDoc.
Import ListNotations.

Arguments Nat.sub : simpl never.
Arguments Nat.div : simpl never.
Arguments Nat.modulo : simpl never.
Arguments Nat.leb : simpl never.
Arguments Nat.ltb : simpl never.
Arguments Nat.eqb : simpl never.
Arguments Nat.pow : simpl never.

Lemma nth_error_Some_aux {A} (l : list A) x a : nth_error l x = Some a -> x < length l.
Proof. intros H. apply nth_error_Some. congruence. Qed.

(* ------------------------------------------------------------------ SampledArray *)
Lemma sinc_last_max l : sinc l -> forall x, In x l -> x <= last l 0.
Proof.
  induction 1 as [|y l Hs IH Hf]; intros x Hx; [destruct Hx|].
  destruct l as [|z l]; [destruct Hx as [->|[]]; cbn; lia|].
  change (last (y :: z :: l) 0) with (last (z :: l) 0).
  destruct Hx as [->|Hx]; [|now apply IH].
  rewrite Forall_forall in Hf. specialize (Hf z (or_introl eq_refl)).
  specialize (IH z (or_introl eq_refl)). lia.
Qed.

Lemma last_map_fst (vals : list (nat * nat)) : fst (last vals (0, 0)) = last (map fst vals) 0.
Proof.
  induction vals as [|a vals IH]; [reflexivity|]. destruct vals as [|b vals]; [reflexivity|].
  change (last (a :: b :: vals) (0, 0)) with (last (b :: vals) (0, 0)).
  cbn [map]. change (last (fst a :: fst b :: map fst vals) 0) with (last (fst b :: map fst vals) 0). exact IH.
Qed.

Lemma sampled_construct_nonempty vals : vals <> [] ->
  sampled_construct vals =
  match from_indices 128 (fst (last vals (0, 0)) + 1) (map fst vals) with
  | Some b => Ok {| sp_present := b; sp_values := map snd vals |}
  | None => Err
  end.
Proof. destruct vals; [contradiction|reflexivity]. Qed.

Section Sampled.
  Variable vals : list (nat * nat).
  Hypothesis Hne : vals <> [].
  Hypothesis Hs : sinc (map fst vals).
  Local Set Default Proof Using "Hne Hs".
  Let offs := map fst vals.
  Let len := last offs 0 + 1.

  Lemma offs_lt : Forall (fun i => i < len) offs.
  Proof. apply Forall_forall. intros x Hx. pose proof (sinc_last_max offs Hs x Hx). unfold len. lia. Qed.

  Definition the_sampled : sampled := {| sp_present := bits_of_indices len offs; sp_values := map snd vals |}.

  Lemma sampled_construct_ok : sampled_construct vals = Ok the_sampled.
  Proof.
    rewrite (sampled_construct_nonempty vals Hne).
    rewrite last_map_fst. fold offs. fold len.
    unfold from_indices. replace ((4 <=? 128) && (128 <? 256)) with true by reflexivity.
    rewrite (sinc_strictly_increasing offs Hs).
    replace (forallb (fun i => i <? len) offs) with true; [reflexivity|].
    symmetry. apply forallb_forall. intros x Hx. apply Nat.ltb_lt.
    pose proof offs_lt as H. rewrite Forall_forall in H. now apply H.
  Qed.

  Lemma sampled_lookup_nth k : k < length vals ->
    sampled_lookup the_sampled (fst (nth k vals (0, 0))) = Some (snd (nth k vals (0, 0))).
  Proof.
    intros Hk. unfold sampled_lookup. cbn [sp_present sp_values the_sampled].
    assert (Ex : fst (nth k vals (0, 0)) = nth k offs 0).
    { unfold offs. symmetry. apply (map_nth fst vals (0, 0)). }
    assert (Hko : k < length offs) by (unfold offs; now rewrite map_length).
    assert (Hin : In (nth k offs 0) offs) by (now apply nth_In).
    pose proof offs_lt as Hlt. rewrite Forall_forall in Hlt. specialize (Hlt _ Hin).
    rewrite Ex, (access_of_indices len offs) by exact Hlt.
    replace (existsb (Nat.eqb (nth k offs 0)) offs) with true by (symmetry; now apply existsb_eqb_In).
    rewrite (rank_of_indices len offs Hs) by lia. rewrite (count_lt_nth_self offs Hs k Hko).
    rewrite (nth_error_nth' _ 0) by (now rewrite map_length). f_equal.
    apply (map_nth snd vals (0, 0)).
  Qed.

  (* completeness and soundness of lookup *)
  Lemma sampled_lookup_complete x v : In (x, v) vals -> sampled_lookup the_sampled x = Some v.
  Proof.
    intros Hin. destruct (In_nth _ _ (0, 0) Hin) as (k & Hk & E).
    pose proof (sampled_lookup_nth k Hk) as H. now rewrite E in H.
  Qed.

  Lemma sampled_lookup_sound x v : sampled_lookup the_sampled x = Some v -> In (x, v) vals.
  Proof.
    unfold sampled_lookup. cbn [sp_present sp_values the_sampled]. intros H.
    destruct (bv_access (bits_of_indices len offs) x) as [[|]|] eqn:A; try discriminate.
    assert (Hx : x < len).
    { unfold bv_access in A. apply nth_error_Some_aux in A. now rewrite bits_of_indices_length in A. }
    rewrite (access_of_indices len offs) in A by exact Hx. injection A as A.
    apply existsb_eqb_In in A. destruct (In_nth _ _ 0 A) as (k & Hk & E).
    assert (Hkv : k < length vals) by (unfold offs in Hk; now rewrite map_length in Hk).
    pose proof (sampled_lookup_nth k Hkv) as L. unfold sampled_lookup in L. cbn [sp_present sp_values the_sampled] in L.
    assert (Ex : fst (nth k vals (0, 0)) = x).
    { rewrite <- E. unfold offs. symmetry. apply (map_nth fst vals (0, 0)). }
    rewrite Ex in L. rewrite (access_of_indices len offs) in L by exact Hx.
    replace (existsb (Nat.eqb x) offs) with true in L by (symmetry; now apply existsb_eqb_In).
    destruct (bv_rank (bits_of_indices len offs) x); [|discriminate].
    rewrite H in L. injection L as L. subst v. rewrite <- Ex. rewrite <- surjective_pairing. now apply nth_In.
  Qed.
End Sampled.

(* ------------------------------------------------------------------ enumerate / filter *)
Lemma enumerate_from_In {A} (l : list A) : forall i idx v,
  In (idx, v) (enumerate_from i l) <-> exists k, k < length l /\ idx = i + k /\ nth_error l k = Some v.
Proof.
  induction l as [|a l IH]; intros i idx v; cbn [enumerate_from In length].
  - split; [intros []|intros (k & H & _); lia].
  - rewrite IH. split.
    + intros [E|(k & Hk & E1 & E2)].
      * injection E as <- <-. exists 0. repeat split; [lia|lia].
      * exists (S k). repeat split; [lia|lia|exact E2].
    + intros (k & Hk & E1 & E2). destruct k as [|k].
      * left. cbn in E2. injection E2 as <-. f_equal. lia.
      * right. exists k. repeat split; [lia|lia|exact E2].
Qed.

Lemma enumerate_filter_sinc {A} (f : nat * A -> bool) (l : list A) : forall i,
  sinc (map fst (filter f (enumerate_from i l))) /\
  Forall (fun x => i <= x) (map fst (filter f (enumerate_from i l))).
Proof.
  induction l as [|a l IH]; intros i; cbn [enumerate_from filter map]; [split; constructor|].
  destruct (IH (S i)) as [S1 F1].
  assert (F2 : Forall (fun x => i <= x) (map fst (filter f (enumerate_from (S i) l)))).
  { eapply Forall_impl; [|exact F1]. cbn. intros; lia. }
  destruct (f (i, a)); cbn [map fst]; [|now split].
  split.
  - constructor; [exact S1|]. eapply Forall_impl; [|exact F1]. cbn. intros; lia.
  - constructor; [lia|exact F2].
Qed.

(* ------------------------------------------------------------------ SampledSuffixArray *)
Section SSA.
  Variables (T sa : list nat) (n : nat).
  Hypothesis Hsa : is_suffix_array T sa.
  Hypothesis HT : length T = S n.
  Hypothesis Hterm : nth n T 0 = 0.
  Hypothesis Hpos : forall p, p < n -> 0 < nth p T 0.
  Let isa := inverse sa.
  Let psi := psi_of sa isa.
  Variable sampling : nat.
  Hypothesis Hsmp : sampling <= 31.
  Local Set Default Proof Using "Hsa HT Hterm Hpos Hsmp".
  Let stride := 2 ^ sampling.

  Let picked := filter (fun '(idx, v) => v mod stride =? 0) (enumerate_from 0 sa).
  Let vals := map (fun '(idx, v) => (idx, v / stride)) picked.

  Lemma stride_pos : 0 < stride.
  Proof. unfold stride. apply Nat.neq_0_lt_0, Nat.pow_nonzero. lia. Qed.

  Lemma ssa_vals_fst : map fst vals = map fst picked.
  Proof.
    unfold vals. rewrite map_map. apply map_ext. intros [idx v]. reflexivity.
  Qed.

  Lemma ssa_vals_sinc : sinc (map fst vals).
  Proof. rewrite ssa_vals_fst. unfold picked. apply enumerate_filter_sinc. Qed.

  Lemma ssa_vals_In x v' : In (x, v') vals -> x < S n /\ v' * stride = nth x sa 0.
  Proof.
    unfold vals. intros H. apply in_map_iff in H. destruct H as ([idx v] & E & Hin). injection E as <- <-.
    unfold picked in Hin. apply filter_In in Hin. destruct Hin as [Hin Hm].
    apply enumerate_from_In in Hin. destruct Hin as (k & Hk & E1 & E2). cbn in E1. subst idx.
    rewrite (ix_sa_length T sa n Hsa HT Hterm Hpos) in Hk. split; [exact Hk|].
    apply nth_error_nth with (d := 0) in E2. rewrite E2.
    apply Nat.eqb_eq in Hm. pose proof (Nat.div_mod v stride ltac:(pose proof stride_pos; lia)). lia.
  Qed.

  Lemma ssa_vals_nonempty : vals <> [].
  Proof.
    (* the position holding text offset 0 is always sampled *)
    pose proof (ix_isa_lt T sa n Hsa HT Hterm Hpos 0 ltac:(lia)) as L. fold isa in L.
    pose proof (ix_sa_isa T sa n Hsa HT Hterm Hpos 0 ltac:(lia)) as E. fold isa in E.
    assert (Hin : In (nth 0 isa 0, 0) picked).
    { unfold picked. apply filter_In. split.
      - apply enumerate_from_In. exists (nth 0 isa 0). split; [now rewrite (ix_sa_length T sa n Hsa HT Hterm Hpos)|].
        split; [reflexivity|]. rewrite (nth_error_nth' sa 0) by (now rewrite (ix_sa_length T sa n Hsa HT Hterm Hpos)).
        now rewrite E.
      - rewrite Nat.mod_0_l by (pose proof stride_pos; lia). reflexivity. }
    unfold vals. intros Z. apply map_eq_nil in Z. now rewrite Z in Hin.
  Qed.

  Definition the_ssa : ssa :=
    {| ssa_sampling := sampling; ssa_zero := n; ssa_sampled := the_sampled vals |}.

  Lemma ssa_construct_ok : ssa_construct sampling sa = Ok the_ssa.
  Proof.
    unfold ssa_construct. destruct (Nat.ltb_spec 31 sampling); [lia|].
    rewrite (nth_error_nth' sa 0) by (rewrite (ix_sa_length T sa n Hsa HT Hterm Hpos); lia).
    cbn [unwrap rbind]. fold stride. fold picked. fold vals.
    rewrite (sampled_construct_ok vals ssa_vals_nonempty ssa_vals_sinc). cbn [rbind].
    now rewrite (ix_sa_zero T sa n Hsa HT Hterm Hpos).
  Qed.

  (* locate: whatever Psi implementation supplies psi[idx], the walk ends with sa[idx] *)
  Variable psi_lookup : nat -> res nat.
  Hypothesis Hpl : forall i, i < S n -> psi_lookup i = Ok (nth i psi 0).

  Lemma ssa_lookup_correct fuel : forall idx k, idx < S n -> k <= nth idx sa 0 ->
    n - nth idx sa 0 < fuel ->
    ssa_lookup fuel the_ssa psi_lookup idx k = Ok (nth idx sa 0 - k).
  Proof using Hsa HT Hterm Hpos Hsmp Hpl.
    induction fuel as [|fuel IH]; intros idx k Hidx Hk Hf; [lia|].
    cbn [ssa_lookup]. cbn [ssa_zero ssa_sampled ssa_sampling the_ssa].
    destruct (Nat.eqb_spec idx 0) as [->|NZ].
    - rewrite (ix_sa_zero T sa n Hsa HT Hterm Hpos) in *. destruct (Nat.leb_spec k n); [reflexivity|lia].
    - destruct (sampled_lookup (the_sampled vals) idx) as [v|] eqn:E.
      + apply (sampled_lookup_sound vals ssa_vals_nonempty ssa_vals_sinc) in E.
        destruct (ssa_vals_In idx v E) as (_ & Ev). fold stride. rewrite Ev.
        destruct (Nat.leb_spec k (nth idx sa 0)); [reflexivity|lia].
      + rewrite (Hpl idx Hidx). cbn [rbind].
        pose proof (ix_sa_lt T sa n Hsa HT Hterm Hpos idx Hidx) as L.
        assert (Ln : nth idx sa 0 < n).
        { destruct (Nat.eq_dec (nth idx sa 0) n) as [En|]; [|lia]. exfalso. apply NZ.
          apply (sa_inj T sa Hsa); [rewrite HT; lia|rewrite HT; lia|].
          now rewrite (ix_sa_zero T sa n Hsa HT Hterm Hpos). }
        pose proof (ix_sa_psi T sa n Hsa HT Hterm Hpos idx Hidx Ln) as Esp. fold isa psi in Esp.
        pose proof (ix_psi_lt T sa n Hsa HT Hterm Hpos idx Hidx) as Lp. fold isa psi in Lp.
        rewrite (IH (nth idx psi 0) (S k) Lp) by (rewrite Esp; lia). rewrite Esp.
        replace (S (nth idx sa 0) - S k) with (nth idx sa 0 - k) by lia. reflexivity.
  Qed.
End SSA.

(* ------------------------------------------------------------------ SampledInverseSuffixArray *)
Section SISA.
  Variables (isa rb : list nat) (n : nat).
  Hypothesis Hlen : length isa = S n.
  Hypothesis Hv : valid_boundaries n rb.
  Local Set Default Proof Using "Hlen Hv".

  Let vals := map (fun s => (s, nth s isa 0)) rb.

  Lemma sisa_values_ok : sisa_values isa rb None = Ok vals.
  Proof.
    assert (G : forall l prev, sinc l -> Forall (fun s => s < length isa) l ->
              (match prev with Some p => Forall (fun s => p < s) l | None => True end) ->
              sisa_values isa l prev = Ok (map (fun s => (s, nth s isa 0)) l)).
    { induction l as [|s l IH]; intros prev Hs Hf Hp; [reflexivity|]. cbn [sisa_values map].
      inversion Hs as [|? ? Hs' Hf']; subst. inversion Hf as [|? ? Hlt Hf'']; subst.
      destruct (Nat.leb_spec (length isa) s); [lia|]. cbn [orb].
      assert (Hprev : (match prev with Some p => s <=? p | None => false end) = false).
      { destruct prev as [p|]; [|reflexivity]. inversion Hp; subst. apply Nat.leb_gt. assumption. }
      rewrite Hprev. rewrite (nth_error_nth' isa 0 Hlt). cbn [unwrap rbind].
      rewrite (IH (Some s) Hs' Hf'' Hf'). reflexivity. }
    apply G; [destruct Hv as (_ & S & _); exact S| |exact I].
    apply Forall_forall. intros s Hs. destruct (In_nth _ _ 0 Hs) as (k & Hk & <-).
    pose proof (rb_nth_lt n rb Hv k Hk). lia.
  Qed.

  Lemma sisa_vals_fst : map fst vals = rb.
  Proof. unfold vals. rewrite map_map. cbn [fst]. apply map_id. Qed.

  Lemma sisa_construct_ok : sisa_construct isa rb = Ok (the_sampled vals).
  Proof.
    unfold sisa_construct. rewrite sisa_values_ok. cbn [rbind]. apply sampled_construct_ok.
    - unfold vals. destruct Hv as (A & _). destruct rb; [contradiction|discriminate].
    - rewrite sisa_vals_fst. destruct Hv as (_ & S & _). exact S.
  Qed.

  Lemma sisa_lookup_correct r : r < length rb ->
    sisa_lookup (the_sampled vals) (nth r rb 0) = Ok (nth (nth r rb 0) isa 0).
  Proof.
    intros Hr. unfold sisa_lookup. rewrite (sampled_lookup_complete vals) with (v := nth (nth r rb 0) isa 0); [reflexivity| | |].
    - unfold vals. destruct Hv as (A & _). destruct rb; [contradiction|discriminate].
    - rewrite sisa_vals_fst. destruct Hv as (_ & S & _). exact S.
    - unfold vals. apply in_map_iff. exists (nth r rb 0). split; [reflexivity|now apply nth_In].
  Qed.
End SISA.
