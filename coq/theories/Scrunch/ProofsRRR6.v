(* Scrunch/ProofsRRR6.v — rrr::BitVector::construct(bits) implements the bit list, for every list
   shorter than 2^62 bits; and the prefix wavelet tree over rrr vectors is the prefix wavelet tree
   over bit lists. *)
From Coq Require Import Arith NArith List Bool Lia.
From Blue Require Import Scrunch.ModelBits Scrunch.ModelRRR Scrunch.ModelPrefixWT Scrunch.ModelPrefixRRR
  Scrunch.ProofsBits Scrunch.ProofsRRR1 Scrunch.ProofsRRR2 Scrunch.ProofsRRR3 Scrunch.ProofsRRR4 Scrunch.ProofsRRR5.
Import ListNotations.
Local Open Scope nat_scope.
Arguments Nat.sub : simpl never.
Arguments Nat.log2_up : simpl never.

Definition rrr_answers (v : rrr) (b : bits) : Prop :=
  (forall x, rr_access v x = Ok (bv_access b x)) /\
  (forall x, rr_access_rank v x = Ok (bv_access_rank b x)) /\
  (forall x, rr_rank v x = Ok (bv_rank b x)) /\
  (forall k, rr_select v k = Ok (bv_select b k)) /\
  (forall k, rr_select0 v k = Ok (bv_select0 b k)).

Theorem rrr_is_the_bit_list bs : rrr_len_ok (length bs) ->
  exists v, rr_construct bs = Ok v /\ rrr_answers v bs.
Proof.
  intros Hlen. destruct (rr_construct_ok bs Hlen) as (cs & Hok & E).
  exists (rrr_of (length bs) (map pad63 cs)). split; [exact E|]. unfold rrr_answers.
  split; [|split; [|split; [|split]]]; intros x.
  - now apply rr_access_correct.
  - now apply rr_access_rank_correct.
  - now apply rr_rank_correct.
  - now apply rr_select_correct.
  - now apply rr_select0_correct.
Qed.

Lemma rrr_len_ok_mono a b : a <= b -> rrr_len_ok b -> rrr_len_ok a.
Proof. unfold rrr_len_ok. intros H Hb. pose proof (Nat.log2_up_le_mono (a + 1) (b + 1) ltac:(lia)). lia. Qed.

(* ------------------------------------------------------------------ the tree *)
Fixpoint pt_len_le (n : nat) (t : ptree) : Prop :=
  match t with
  | PNil => True
  | PNode bv l r => length bv <= n /\ pt_len_le n l /\ pt_len_le n r
  end.

Lemma pt_len_le_mono a b t : a <= b -> pt_len_le a t -> pt_len_le b t.
Proof.
  intros H. induction t as [|bv l IHl r IHr]; [trivial|]. cbn [pt_len_le].
  intros (A & B & C). repeat split; [lia|auto|auto].
Qed.

Lemma sub_length b cs : length (sub b cs) <= length cs.
Proof.
  unfold sub. induction cs as [|c cs IH]; [cbn; lia|]. cbn [flat_map].
  rewrite app_length. destruct (continues_with b c); cbn [length]; lia.
Qed.

Lemma pt_construct_len fuel : forall cs t, pt_construct fuel cs = Ok t -> pt_len_le (length cs) t.
Proof.
  induction fuel as [|f IH]; intros cs t H; [discriminate|]. cbn [pt_construct] in H.
  destruct (existsb is_empty_code cs); [discriminate|].
  destruct (_ || _); [discriminate|].
  destruct (if existsb (continues_with false) cs then pt_construct f (sub false cs) else Ok PNil) as [l| | |] eqn:El; try discriminate.
  cbn [rbind] in H.
  destruct (if existsb (continues_with true) cs then pt_construct f (sub true cs) else Ok PNil) as [r| | |] eqn:Er; try discriminate.
  cbn [rbind] in H. inversion H; subst t. cbn [pt_len_le]. rewrite map_length. split; [lia|]. split.
  - destruct (existsb (continues_with false) cs); [|inversion El; exact I].
    apply IH in El. eapply pt_len_le_mono; [apply sub_length|exact El].
  - destruct (existsb (continues_with true) cs); [|inversion Er; exact I].
    apply IH in Er. eapply pt_len_le_mono; [apply sub_length|exact Er].
Qed.

Lemma pt_build_len enc fuel text t : pt_build enc fuel text = Ok t -> pt_len_le (length text) t.
Proof.
  unfold pt_build.
  set (ea := fix encode_all (l : list nat) : res (list code) :=
          match l with
          | [] => Ok []
          | s :: r => do c <- ok_or (enc s); do cs <- encode_all r; Ok (c :: cs)
          end).
  assert (L : forall l cs, ea l = Ok cs -> length cs = length l).
  { induction l as [|s l IHl]; intros cs H; cbn in H; [inversion H; reflexivity|].
    destruct (enc s); cbn in H; [|discriminate]. destruct (ea l) eqn:E; cbn in H; try discriminate.
    inversion H. cbn. f_equal. now apply IHl. }
  destruct (ea text) as [cs| | |] eqn:E; cbn [rbind]; try discriminate.
  intros H. apply pt_construct_len in H. now rewrite (L _ _ E) in H.
Qed.

Section Tree.
  Variable enc : nat -> option code.
  Variable dec : code -> option nat.

  Theorem rt_of_correct n : rrr_len_ok n -> forall t, pt_len_le n t ->
    exists rt, rt_of t = Ok rt /\
      (forall acc x, rt_access_rec dec rt acc x = Ok (pt_access_rec dec t acc x)) /\
      (forall c x, rt_rank_rec rt c x = Ok (pt_rank_rec t c x)) /\
      (forall c x, rt_select_rec rt c x = Ok (pt_select_rec t c x)).
  Proof.
    intros Hn. induction t as [|bv l IHl r IHr]; intros Hle.
    - exists RNil. split; [reflexivity|]. split; [|split]; intros; reflexivity.
    - cbn [pt_len_le] in Hle. destruct Hle as (Hb & Hl & Hr).
      destruct (IHl Hl) as (rl & El & Al & Rl & Sl). destruct (IHr Hr) as (rr & Er & Ar & Rr & Sr).
      destruct (rrr_is_the_bit_list bv (rrr_len_ok_mono _ _ Hb Hn)) as (v & Ev & (_ & Aar & Ark & Asel & Asel0)).
      exists (RNode v rl rr). split; [cbn [rt_of]; now rewrite Ev, El, Er|].
      split; [|split].
      + intros acc x. cbn [rt_access_rec pt_access_rec]. rewrite Aar. cbn [rbind]. unfold bv_access_rank.
        destruct (bv_access bv x) as [bit|]; [|reflexivity]. destruct (bv_rank bv x) as [rk|]; [|reflexivity].
        destruct bit; [apply Ar|apply Al].
      + intros c x. destruct c as [|b c']; [reflexivity|]. cbn [rt_rank_rec pt_rank_rec]. rewrite Ark. cbn [rbind].
        destruct (bv_rank bv x) as [rk|]; [|reflexivity].
        destruct c' as [|b' c'']; [reflexivity|]. destruct b; [apply Rr|apply Rl].
      + intros c x. destruct c as [|b c']; [reflexivity|]. cbn [rt_select_rec pt_select_rec].
        destruct c' as [|b' c''].
        * cbn [rbind]. destruct b; [apply Asel|apply Asel0].
        * destruct b.
          -- rewrite Sr. cbn [rbind]. destruct (pt_select_rec r (b' :: c'') x); [apply Asel|reflexivity].
          -- rewrite Sl. cbn [rbind]. destruct (pt_select_rec l (b' :: c'') x); [apply Asel0|reflexivity].
  Qed.

  (* the tree CompressedDocument stores, against the tree over bit lists *)
  Theorem rt_build_correct fuel text t : rrr_len_ok (length text) -> pt_build enc fuel text = Ok t ->
    exists rt, rt_build enc fuel text = Ok rt /\
      (forall x, rt_access dec rt x = Ok (pt_access dec t x)) /\
      (forall q x, rt_rank_q enc rt q x = Ok (pt_rank_q enc t q x)) /\
      (forall q k, rt_select_q enc rt q k = Ok (pt_select_q enc t q k)).
  Proof.
    intros Hn Hb. destruct (rt_of_correct (length text) Hn t (pt_build_len enc fuel text t Hb)) as (rt & E & A & R & S).
    exists rt. split; [unfold rt_build; now rewrite Hb|]. split; [|split].
    - intros x. apply A.
    - intros q x. unfold rt_rank_q, pt_rank_q. destruct t; cbn [rt_of] in E.
      + inversion E. reflexivity.
      + destruct (rr_construct bv); try discriminate. cbn [rbind] in E.
        destruct (rt_of t1); try discriminate. destruct (rt_of t2); try discriminate. inversion E as [E'].
        rewrite E'. destruct (enc q); [apply R|reflexivity].
    - intros q k. unfold rt_select_q, pt_select_q. destruct t; cbn [rt_of] in E.
      + inversion E. reflexivity.
      + destruct (rr_construct bv); try discriminate. cbn [rbind] in E.
        destruct (rt_of t1); try discriminate. destruct (rt_of t2); try discriminate. inversion E as [E'].
        rewrite E'. destruct (enc q); [apply S|reflexivity].
  Qed.
End Tree.
