(* Scrunch/ProofsWT1.v — ingredients for WaveletTreePsi: wavelet-tree rank_q/select_q through the
   positions of a symbol; the y_key bit vector as cell boundaries; psi as a permutation. *)
From Coq Require Import Arith NArith List Bool Lia Sorted Permutation.
From Blue Require Import Scrunch.ModelBits Scrunch.Model Scrunch.ModelWT Scrunch.ProofsBits
  Scrunch.ProofsSorted Scrunch.ProofsSuffix Scrunch.ProofsIAP Scrunch.ProofsSearch Scrunch.ProofsSigma.
Import ListNotations.
Local Open Scope nat_scope.

Arguments Nat.sub : simpl never.
Arguments Nat.div : simpl never.
Arguments Nat.modulo : simpl never.
Arguments Nat.leb : simpl never.
Arguments Nat.ltb : simpl never.
Arguments Nat.eqb : simpl never.

(* ------------------------------------------------------------------ positions of a symbol *)
Definition positions (c : nat) (t : list nat) : list nat :=
  filter (fun k => nth k t 0 =? c) (seq 0 (length t)).

Definition symbits (c : nat) (t : list nat) : bits := map (fun x => x =? c) t.

Lemma positions_sinc c t : sinc (positions c t).
Proof. unfold positions. apply sinc_filter_seq. Qed.

Lemma positions_In c t k : In k (positions c t) <-> k < length t /\ nth k t 0 = c.
Proof.
  unfold positions. rewrite filter_In, in_seq, Nat.eqb_eq. split; intros (A & B); split; try assumption; lia.
Qed.

Lemma positions_lt c t : Forall (fun k => k < length t) (positions c t).
Proof. apply Forall_forall. intros k Hk. now apply positions_In in Hk. Qed.

Lemma symbits_indices c t : symbits c t = bits_of_indices (length t) (positions c t).
Proof.
  apply (nth_ext _ _ false false).
  - unfold symbits. now rewrite map_length, bits_of_indices_length.
  - intros i Hi. unfold symbits in Hi. rewrite map_length in Hi.
    rewrite bits_of_indices_nth by exact Hi. unfold symbits.
    rewrite (nth_indep _ false ((fun x => x =? c) 0)) by (now rewrite map_length).
    rewrite (map_nth (fun x => x =? c) t 0 i).
    destruct (Nat.eqb_spec (nth i t 0) c) as [E|NE]; symmetry.
    + apply existsb_eqb_In. apply positions_In. now split.
    + destruct (existsb (Nat.eqb i) (positions c t)) eqn:X; [|reflexivity].
      apply existsb_eqb_In in X. apply positions_In in X. destruct X; contradiction.
Qed.

Lemma wt_select_from_bits q t : forall k pos,
  wt_select_from q t k pos = select_from true (symbits q t) k pos.
Proof.
  induction t as [|x t IH]; intros k pos; destruct k; cbn [wt_select_from select_from symbits map]; try reflexivity.
  fold (symbits q t). destruct (Nat.eqb_spec x q); cbn [Bool.eqb]; apply IH.
Qed.

Lemma count_eq_count1 q t : count_eq q t = count1 (symbits q t).
Proof.
  unfold count_eq, symbits. induction t as [|x t IH]; [reflexivity|]. cbn [filter map count1].
  rewrite (Nat.eqb_sym q x). destruct (x =? q); cbn [length]; lia.
Qed.

Lemma symbits_firstn q t x : firstn x (symbits q t) = symbits q (firstn x t).
Proof. unfold symbits. apply firstn_map. Qed.

Lemma count_eq_positions c t : count_eq c t = length (positions c t).
Proof.
  rewrite count_eq_count1, symbits_indices.
  apply (count1_of_indices (length t) (positions c t) (positions_sinc c t) (positions_lt c t)).
Qed.

Theorem wt_rank_positions t c x : x <= length t ->
  wt_rank_q t c x = Some (count_lt (positions c t) x).
Proof.
  intros Hx. unfold wt_rank_q. destruct (Nat.leb_spec x (length t)); [|lia]. f_equal.
  rewrite count_eq_count1, <- symbits_firstn, symbits_indices.
  apply (count1_bits_of_indices (length t) (positions c t) x); [apply sinc_NoDup, positions_sinc|exact Hx].
Qed.

Theorem wt_rank_none t c x : length t < x -> wt_rank_q t c x = None.
Proof. intros Hx. unfold wt_rank_q. destruct (Nat.leb_spec x (length t)); [lia|reflexivity]. Qed.

Theorem wt_select_positions t c u : u < length (positions c t) ->
  wt_select_q t c (S u) = Some (S (nth u (positions c t) 0)).
Proof.
  intros Hu. unfold wt_select_q. rewrite wt_select_from_bits, symbits_indices.
  pose proof (select_of_indices (length t) (positions c t) (positions_sinc c t) (positions_lt c t) (S u) ltac:(lia) ltac:(lia)) as H.
  unfold bv_select in H. rewrite H. f_equal. f_equal. f_equal. lia.
Qed.

Theorem wt_select_none t c u : length (positions c t) <= u -> wt_select_q t c (S u) = None.
Proof.
  intros Hu. unfold wt_select_q. rewrite wt_select_from_bits, symbits_indices.
  apply (select_of_indices_none (length t) (positions c t) (positions_sinc c t) (positions_lt c t)). lia.
Qed.

(* ------------------------------------------------------------------ cell boundaries *)
(* cumulative starts of consecutive cells of the given sizes *)
Definition cstart (sizes : list nat) (t : nat) : nat := sumn (firstn t sizes).

(* the set bits of y_key: the last index of every cell *)
Definition cell_ends (sizes : list nat) : list nat :=
  map (fun t => cstart sizes t - 1) (seq 1 (length sizes)).

Lemma sumn_app a b : sumn (a ++ b) = sumn a + sumn b.
Proof. unfold sumn. induction a as [|x a IH]; cbn [app fold_right]; [reflexivity|]. rewrite IH. lia. Qed.

Lemma cstart_S sizes t : t < length sizes -> cstart sizes (S t) = cstart sizes t + nth t sizes 0.
Proof.
  intros H. unfold cstart. rewrite (firstn_S_nth 0) by exact H. rewrite sumn_app. cbn. lia.
Qed.

Lemma cstart_all sizes t : length sizes <= t -> cstart sizes t = sumn sizes.
Proof. intros H. unfold cstart. now rewrite firstn_all2. Qed.

Lemma cstart_mono sizes : Forall (fun s => 1 <= s) sizes -> forall t u, t < u -> u <= length sizes ->
  cstart sizes t < cstart sizes u.
Proof.
  intros Hp t u Htu Hu. induction u as [|u IH]; [lia|].
  rewrite cstart_S by lia.
  assert (1 <= nth u sizes 0).
  { rewrite Forall_forall in Hp. apply Hp, nth_In. lia. }
  destruct (Nat.eq_dec t u) as [->|]; [lia|]. specialize (IH ltac:(lia) ltac:(lia)). lia.
Qed.

Lemma cstart_0 sizes : cstart sizes 0 = 0.
Proof. reflexivity. Qed.

Section YKey.
  Variable sizes : list nat.
  Hypothesis Hpos : Forall (fun s => 1 <= s) sizes.
  Notation L := (length sizes).
  Notation total := (sumn sizes).
  Notation yk := (bits_of_indices (sumn sizes) (cell_ends sizes)).

  Lemma cell_ends_nth k : k < L -> nth k (cell_ends sizes) 0 = cstart sizes (S k) - 1.
  Proof.
    intros Hk. unfold cell_ends.
    rewrite (nth_indep _ 0 ((fun t => cstart sizes t - 1) 0)) by (rewrite map_length, seq_length; exact Hk).
    rewrite (map_nth (fun t => cstart sizes t - 1) (seq 1 (length sizes)) 0 k). now rewrite seq_nth.
  Qed.

  Lemma cell_ends_length : length (cell_ends sizes) = L.
  Proof. unfold cell_ends. now rewrite map_length, seq_length. Qed.

  Lemma cell_ends_sinc : sinc (cell_ends sizes).
  Proof.
    apply sinc_of_nth. rewrite cell_ends_length. intros i j Hij Hj. rewrite !cell_ends_nth by lia.
    pose proof (cstart_mono sizes Hpos (S i) (S j) ltac:(lia) ltac:(lia)).
    pose proof (cstart_mono sizes Hpos 0 (S i) ltac:(lia) ltac:(lia)). rewrite cstart_0 in *. lia.
  Qed.

  Lemma cell_ends_lt : Forall (fun i => i < total) (cell_ends sizes).
  Proof.
    apply Forall_forall. intros x Hx. destruct (In_nth _ _ 0 Hx) as (k & Hk & <-).
    rewrite cell_ends_length in Hk. rewrite cell_ends_nth by exact Hk.
    pose proof (cstart_mono sizes Hpos 0 (S k) ltac:(lia) ltac:(lia)). rewrite cstart_0 in *.
    destruct (Nat.eq_dec (S k) L) as [E|NE].
    - rewrite <- (cstart_all sizes L) by lia. rewrite E in *. lia.
    - pose proof (cstart_mono sizes Hpos (S k) L ltac:(lia) ltac:(lia)).
      rewrite <- (cstart_all sizes L) by lia. lia.
  Qed.

  (* select gives the start of a cell (and, at L, one past the last cell) *)
  Lemma yk_select t : t <= L -> bv_select yk t = Some (cstart sizes t).
  Proof.
    intros Ht. destruct t as [|t]; [now rewrite bv_select_zero|].
    rewrite (select_of_indices total _ cell_ends_sinc cell_ends_lt) by (rewrite ?cell_ends_length; lia).
    replace (S t - 1) with t by lia. rewrite cell_ends_nth by lia.
    pose proof (cstart_mono sizes Hpos 0 (S t) ltac:(lia) ltac:(lia)). rewrite cstart_0 in *. f_equal. lia.
  Qed.

  (* rank gives the cell that contains x *)
  Lemma yk_rank x : x < total ->
    exists t, bv_rank yk x = Some t /\ t < L /\ cstart sizes t <= x < cstart sizes (S t).
  Proof.
    intros Hx. rewrite (rank_of_indices total _ cell_ends_sinc) by lia.
    set (t := count_lt (cell_ends sizes) x). exists t. split; [reflexivity|].
    pose proof (count_lt_le_length (cell_ends sizes) x) as Hle. fold t in Hle. rewrite cell_ends_length in Hle.
    assert (Hlow : cstart sizes t <= x).
    { destruct t as [|t'] eqn:Et; [rewrite cstart_0; lia|].
      assert (Q : nth t' (cell_ends sizes) 0 < x).
      { apply (count_lt_nth _ cell_ends_sinc t' x); [rewrite cell_ends_length; lia|]. fold t. lia. }
      rewrite cell_ends_nth in Q by lia. lia. }
    assert (HtL : t < L).
    { destruct (Nat.eq_dec t L) as [E|]; [|lia]. exfalso.
      rewrite <- (cstart_all sizes L) in Hx by lia. rewrite <- E in Hx. lia. }
    split; [exact HtL|]. split; [exact Hlow|].
    destruct (Nat.lt_ge_cases x (cstart sizes (S t))) as [|Hge]; [assumption|]. exfalso.
    assert (Q : nth t (cell_ends sizes) 0 < x).
    { rewrite cell_ends_nth by exact HtL.
      pose proof (cstart_mono sizes Hpos 0 (S t) ltac:(lia) ltac:(lia)). rewrite cstart_0 in *.
      (* cstart (S t) - 1 < x needs cstart (S t) <= x: yes *) lia. }
    apply (count_lt_nth _ cell_ends_sinc t x) in Q; [|rewrite cell_ends_length; exact HtL]. fold t in Q. lia.
  Qed.

  Lemma yk_rank_total : bv_rank yk total = Some L.
  Proof.
    rewrite (rank_of_indices total _ cell_ends_sinc) by lia. f_equal.
    rewrite <- cell_ends_length. unfold count_lt.
    pose proof cell_ends_lt as H. induction H as [|x l Hx Hl IH]; [reflexivity|]. cbn [filter].
    destruct (Nat.ltb_spec x total); [|lia]. cbn [length]. now rewrite IH.
  Qed.

  Lemma yk_len : bv_len yk = total.
  Proof. unfold bv_len. apply bits_of_indices_length. Qed.
End YKey.

(* ------------------------------------------------------------------ concat, cell-wise *)
Lemma cstart_cons a sizes t : cstart (a :: sizes) (S t) = a + cstart sizes t.
Proof. reflexivity. Qed.

Lemma concat_nth_cell {A} (LL : list (list A)) (d : A) : Forall (fun l => 1 <= length l) LL ->
  forall t x, t < length LL -> cstart (map (@length A) LL) t <= x < cstart (map (@length A) LL) (S t) ->
  nth x (concat LL) d = nth (x - cstart (map (@length A) LL) t) (nth t LL []) d.
Proof.
  induction 1 as [|l LL Hl HLL IH]; intros t x Ht Hx; [cbn in Ht; lia|].
  cbn [concat map] in *. destruct t as [|t].
  - rewrite cstart_cons, !cstart_0 in Hx. rewrite cstart_0. rewrite app_nth1 by lia. cbn [nth]. f_equal. lia.
  - rewrite !cstart_cons in Hx. rewrite cstart_cons. cbn [nth length] in *.
    rewrite app_nth2 by lia.
    rewrite (IH t (x - length l) ltac:(lia) ltac:(lia)). f_equal. lia.
Qed.

Lemma sumn_map_length_concat {A} (LL : list (list A)) : sumn (map (@length A) LL) = length (concat LL).
Proof. induction LL as [|l LL IH]; [reflexivity|]. cbn [map sumn fold_right concat]. rewrite app_length. unfold sumn in IH. lia. Qed.

(* ------------------------------------------------------------------ psi is a permutation *)
Section PsiPerm.
  Variables (T sa : list nat) (n : nat).
  Hypothesis Hsa : is_suffix_array T sa.
  Hypothesis HT : length T = S n.
  Hypothesis Hterm : nth n T 0 = 0.
  Hypothesis Hpos : forall p, p < n -> 0 < nth p T 0.
  Local Set Default Proof Using "Hsa HT Hterm Hpos".
  Let isa := inverse sa.
  Let psi := psi_of sa isa.
  Let ipsi := inverse psi.

  Lemma isa_inj p q : p < S n -> q < S n -> nth p isa 0 = nth q isa 0 -> p = q.
  Proof.
    intros Hp Hq E. pose proof (ix_sa_isa T sa n Hsa HT Hterm Hpos p Hp) as A.
    pose proof (ix_sa_isa T sa n Hsa HT Hterm Hpos q Hq) as B. fold isa in A, B. congruence.
  Qed.

  Lemma psi_NoDup : NoDup psi.
  Proof.
    apply NoDup_nth with (d := 0). pose proof (ix_psi_length T sa n Hsa HT Hterm Hpos) as L. fold isa psi in L.
    rewrite L. intros i j Hi Hj E.
    pose proof (ix_psi_nth T sa n Hsa HT Hterm Hpos i Hi) as A. pose proof (ix_psi_nth T sa n Hsa HT Hterm Hpos j Hj) as B.
    fold isa psi in A, B. rewrite A, B in E.
    pose proof (ix_sa_lt T sa n Hsa HT Hterm Hpos i Hi) as Li. pose proof (ix_sa_lt T sa n Hsa HT Hterm Hpos j Hj) as Lj.
    apply isa_inj in E.
    - apply (sa_inj T sa Hsa); [rewrite HT; lia|rewrite HT; lia|].
      destruct (Nat.eqb_spec (nth i sa 0 + 1) (S n)), (Nat.eqb_spec (nth j sa 0 + 1) (S n)); lia.
    - destruct (Nat.eqb_spec (nth i sa 0 + 1) (S n)); lia.
    - destruct (Nat.eqb_spec (nth j sa 0 + 1) (S n)); lia.
  Qed.

  Lemma psi_bounded : Forall (fun v => v < length psi) psi.
  Proof.
    pose proof (ix_psi_length T sa n Hsa HT Hterm Hpos) as L. fold isa psi in L. rewrite L.
    apply Forall_forall. intros v Hv. destruct (In_nth _ _ 0 Hv) as (i & Hi & <-). rewrite L in Hi.
    apply (ix_psi_lt T sa n Hsa HT Hterm Hpos i Hi).
  Qed.

  Lemma ipsi_length : length ipsi = S n.
  Proof. unfold ipsi. rewrite inverse_length. exact (ix_psi_length T sa n Hsa HT Hterm Hpos). Qed.

  Lemma ipsi_psi i : i < S n -> nth (nth i psi 0) ipsi 0 = i.
  Proof.
    intros Hi. unfold ipsi. apply inverse_spec; [apply psi_NoDup|apply psi_bounded|].
    pose proof (ix_psi_length T sa n Hsa HT Hterm Hpos) as L. fold isa psi in L. now rewrite L.
  Qed.

  Lemma psi_ipsi p : p < S n -> nth p ipsi 0 < S n /\ nth (nth p ipsi 0) psi 0 = p.
  Proof.
    intros Hp. pose proof (ix_psi_length T sa n Hsa HT Hterm Hpos) as L. fold isa psi in L.
    pose proof (inverse_perm psi psi_NoDup psi_bounded p ltac:(lia)) as H. now rewrite L in H.
  Qed.

  (* the symbol string the wavelet trees are cut from: SY[i] = first symbol of the suffix whose
     successor sits at suffix-array position i *)
  Definition wt_syms : list nat := map (fun i => fs T sa (nth i ipsi 0)) (seq 0 (S n)).

  Lemma wt_syms_length : length wt_syms = S n.
  Proof. unfold wt_syms. now rewrite map_length, seq_length. Qed.

  Lemma wt_syms_nth i : i < S n -> nth i wt_syms 0 = fs T sa (nth i ipsi 0).
  Proof.
    intros Hi. unfold wt_syms.
    rewrite (nth_indep _ 0 ((fun i => fs T sa (nth i ipsi 0)) 0)) by (rewrite map_length, seq_length; exact Hi).
    rewrite (map_nth (fun i => fs T sa (nth i ipsi 0)) (seq 0 (S n)) 0 i). now rewrite seq_nth.
  Qed.

  Lemma wt_syms_psi j : j < S n -> nth (nth j psi 0) wt_syms 0 = fs T sa j.
  Proof.
    intros Hj. rewrite wt_syms_nth by (apply (ix_psi_lt T sa n Hsa HT Hterm Hpos j Hj)). now rewrite ipsi_psi.
  Qed.

  (* ---- psi lists the text positions' successors sorted by (symbol, value) ---- *)
  Definition keylt (i i' : nat) : Prop :=
    nth i wt_syms 0 < nth i' wt_syms 0 \/ (nth i wt_syms 0 = nth i' wt_syms 0 /\ i < i').

  Lemma psi_key_sorted : StronglySorted keylt psi.
  Proof.
    assert (G : forall l, (forall i j, i < j -> j < length l -> keylt (nth i l 0) (nth j l 0)) -> StronglySorted keylt l).
    { induction l as [|x l IH]; intros H; constructor.
      - apply IH. intros i j Hij Hj. apply (H (S i) (S j)); cbn; lia.
      - apply Forall_forall. intros y Hy. destruct (In_nth l y 0 Hy) as (k & Hk & <-). apply (H 0 (S k)); cbn; lia. }
    apply G. pose proof (ix_psi_length T sa n Hsa HT Hterm Hpos) as L. fold isa psi in L. rewrite L.
    intros i j Hij Hj. unfold keylt.
    rewrite !wt_syms_psi by lia.
    pose proof (fs_mono T sa n Hsa HT Hterm Hpos i j ltac:(lia) Hj) as M.
    destruct (Nat.eq_dec (fs T sa i) (fs T sa j)) as [E|NE]; [|left; lia]. right. split; [exact E|].
    destruct (Nat.eq_dec i 0) as [->|NZ].
    - exfalso. assert (Z : fs T sa 0 = 0) by (apply (fs_zero_iff T sa n Hsa HT Hterm Hpos 0); lia).
      rewrite Z in E. symmetry in E. apply (fs_zero_iff T sa n Hsa HT Hterm Hpos j Hj) in E. lia.
    - apply (psi_mono_bucket T sa n Hsa HT Hterm Hpos i j Hij Hj ltac:(lia) E).
  Qed.

  Lemma keylt_asym x y : keylt x y -> keylt y x -> False.
  Proof. unfold keylt. lia. Qed.
End PsiPerm.
