(* Scrunch/ModelRRR.v — executable model of scrunch/src/bit_vector/rrr.rs (the RRR bit vector the
   prefix wavelet tree of CompressedDocument is built from) and of scrunch/src/bit_array.rs as far
   as rrr.rs uses it.  Definitions only.

   Transcribed: u63::select_word / select1 / select0 (halving by popcounts over the shifts
   32,16,8,4,2,1), SixtyThreeBitWords (63 bits per word, the last word padded with zeros), the
   tables L (offset widths per class) and K (binomials; Pascal's triangle), encode / decode (the
   combinatorial number system rrr.rs uses: o = sum over the set bits, from the highest, of
   K[position + 1][set bits remaining], minus the class), construct_from_words (arrays p, c, o, r,
   s0, s1; one p / r entry per WORD = 8 words; one s0 / s1 entry per SELECT = 64 zeros / ones),
   calc_p_r_width, load_c_o_bits, load_o, access, rank, access_rank_at, select_helper, select,
   select0 (rank0 is the trait default of ModelBits.v).

   By interface: a bit array is the list of its bits.  `Builder::push_word(word, bits)` appends the
   low `bits` bits of `word`, least significant first, and panics when the word does not fit
   (its `assert!`s); `seal` pads with zeros to a whole byte; `BitArray::load(index, bits)` reads
   `bits` bits at `index`, least significant first, None when that runs past the last byte, and
   Some(0) for bits = 0 wherever index is.  (The byte-at-a-time loops of load / push_word, the
   protobuf framing of the six arrays, and u64 / usize wrap-around are not modelled: words are
   lists of 63 bools, offsets in the o array are the binary naturals N, positions are nat.)
   `(bits + 1).next_power_of_two().ilog2()` is Nat.log2_up (bits + 1). *)
From Coq Require Import Arith NArith List Bool.
From Blue Require Import Scrunch.ModelBits.
Import ListNotations.
Local Open Scope nat_scope.

(* ------------------------------------------------------------------ bit_array.rs *)
Fixpoint to_bits (w : nat) (v : N) : list bool :=
  match w with
  | 0 => []
  | S w' => N.odd v :: to_bits w' (N.div2 v)
  end.

Fixpoint bits_val (l : list bool) : N :=
  match l with
  | [] => 0%N
  | b :: r => ((if b then 1 else 0) + 2 * bits_val r)%N
  end.

(* Builder::push_word: `assert!(bits < 64); assert!(word & !((1 << bits) - 1) == 0)` *)
Definition push_word (acc : list bool) (v : N) (w : nat) : res (list bool) :=
  if w <? 64 then
    if (v <? 2 ^ N.of_nat w)%N then Ok (acc ++ to_bits w v) else Panic
  else Panic.

Definition seal (acc : list bool) : list bool :=
  acc ++ repeat false ((8 - length acc mod 8) mod 8).

Definition ba_load (a : list bool) (index bits : nat) : option N :=
  if bits =? 0 then Some 0%N
  else if index + bits <=? length a then Some (bits_val (firstn bits (skipn index a)))
  else None.

(* ------------------------------------------------------------------ u63 *)
Notation word63 := (list bool) (only parsing).          (* 63 bits, bit i of the u64 at position i *)

(* one round of select_word: lo = word & ((1 << shift) - 1) *)
Definition sw_step (st : list bool * nat * nat) (shift : nat) : list bool * nat * nat :=
  let '(word, x, idx) := st in
  let lo := firstn shift word in
  let count := count1 lo in
  if count <? x then (skipn shift word, x - count, idx + shift) else (lo, x, idx).

Definition select_word (word : list bool) (x : nat) : option nat :=
  if x =? 0 then Some 0
  else if count1 word <? x then None
  else let '(_, _, idx) := fold_left sw_step [32; 16; 8; 4; 2; 1] (word, x, 0) in Some (idx + 1).

Definition w_select1 (w : word63) (x : nat) : option nat := select_word w x.
(* `!self.0 & MASK` *)
Definition w_select0 (w : word63) (x : nat) : option nat := select_word (map negb w) x.

(* ------------------------------------------------------------------ SixtyThreeBitWords *)
Definition pad63 (l : list bool) : word63 := l ++ repeat false (63 - length l).

Fixpoint chunks63 (fuel : nat) (bs : list bool) : list word63 :=
  match fuel with
  | 0 => []
  | S f =>
      match bs with
      | [] => []
      | _ => pad63 (firstn 63 bs) :: chunks63 f (skipn 63 bs)
      end
  end.
Definition words_of_bits (bs : list bool) : list word63 := chunks63 (S (length bs)) bs.

(* ------------------------------------------------------------------ Binomials *)
Definition L_table : list nat :=
  [0; 6; 11; 16; 20; 23; 27; 30; 33; 35; 38; 40; 42; 44; 46; 48; 49; 51; 52; 53; 55; 56; 57; 58;
   58; 59; 60; 60; 60; 61; 61; 61; 61; 61; 61; 61; 60; 60; 60; 59; 58; 58; 57; 56; 55; 53; 52; 51;
   49; 48; 46; 44; 42; 40; 38; 35; 33; 30; 27; 23; 20; 16; 11; 0].

(* the source spells K out as 64 rows of literals; the model generates the rows (the check
   compares the two tables entry by entry) *)
Fixpoint zip_add (a b : list N) : list N :=
  match a, b with
  | x :: a', y :: b' => (x + y)%N :: zip_add a' b'
  | _, _ => []
  end.
Fixpoint pascal_row (n : nat) : list N :=
  match n with
  | 0 => [1%N]
  | S n' => let r := pascal_row n' in zip_add (0%N :: r) (r ++ [0%N])
  end.
Definition K_table : list (list N) := map pascal_row (seq 0 64).
Definition K_at (n k : nat) : option N :=
  match nth_error K_table n with
  | Some row => nth_error row k
  | None => None
  end.

(* encode: `for bit in 0..63` looks at bit 62 - bit, i.e. from the most significant end; the list
   handed to enc_loop is the word reversed, and 63 - bit is the length of what is left of it *)
Fixpoint enc_loop (msb : list bool) (remain : nat) (o : N) : res N :=
  match msb with
  | [] => Ok o
  | b :: r =>
      if b then do skip <- unwrap (K_at (length msb) remain); enc_loop r (remain - 1) (o + skip)%N
      else enc_loop r remain o
  end.

Definition encode (w : word63) : res (N * nat) :=
  let c := count1 w in
  if (c =? 0) || (c =? 63) then Ok (0%N, c)
  else do o <- enc_loop (rev w) c 0%N; Ok ((o - N.of_nat c)%N, c).

(* decode: `K.get(63 - bit)?.get(c)?`; the result of dec_loop is most significant bit first *)
Fixpoint dec_loop (n : nat) (o : N) (c : nat) : option (list bool) :=
  match n with
  | 0 => Some []
  | S n' =>
      match K_at n c with
      | None => None
      | Some skip =>
          if (skip <=? o)%N then option_map (cons true) (dec_loop n' (o - skip)%N (c - 1))
          else option_map (cons false) (dec_loop n' o c)
      end
  end.

Definition decode (o : N) (c : nat) : option word63 :=
  if c =? 0 then Some (repeat false 63)
  else if c =? 63 then Some (repeat true 63)
  else option_map (@rev bool) (dec_loop 63 (o + N.of_nat c)%N c).

(* ------------------------------------------------------------------ BitVector *)
Record rrr := {
  rr_word : nat;
  rr_sel : nat;
  rr_bits : nat;
  rr_p : list bool;
  rr_c : list bool;
  rr_o : list bool;
  rr_r : list bool;
  rr_s0 : list bool;
  rr_s1 : list bool
}.

Definition calc_width (bits : nat) : nat := Nat.max (Nat.log2_up (bits + 1) + 1) 8.

Definition load_nat (a : list bool) (index bits : nat) : option nat :=
  option_map N.to_nat (ba_load a index bits).

Definition load_c_o_bits (v : rrr) (c_offset : nat) : option (nat * nat) :=
  match load_nat (rr_c v) c_offset 6 with
  | Some c => match nth_error L_table c with Some o_bits => Some (c, o_bits) | None => None end
  | None => None
  end.

Definition load_o (v : rrr) (c o_offset o_bits : nat) : option word63 :=
  match ba_load (rr_o v) o_offset o_bits with
  | Some o => decode o c
  | None => None
  end.

(* `while index >= 63 { .. }` of access / rank / access_rank_at; rank is carried along (access
   ignores it) *)
Fixpoint walk_words (fuel : nat) (v : rrr) (index c_off o_off rank : nat) : res (option (nat * nat * nat * nat)) :=
  match fuel with
  | 0 => NoFuel
  | S f =>
      if 63 <=? index then
        match load_c_o_bits v c_off with
        | None => Ok None
        | Some (c, o_bits) => walk_words f v (index - 63) (c_off + 6) (o_off + o_bits) (rank + c)
        end
      else Ok (Some (index, c_off, o_off, rank))
  end.

Definition rr_access (v : rrr) (index : nat) : res (option bool) :=
  if rr_bits v <=? index then Ok None
  else
    let width := calc_width (rr_bits v) in
    let stride := rr_word v * 63 in
    let p_offset := index / stride in
    match load_nat (rr_p v) (p_offset * width) width with
    | None => Ok None
    | Some o_offset =>
        do st <- walk_words (S index) v (index - p_offset * stride) (p_offset * 6 * rr_word v) o_offset 0;
        Ok (match st with
            | None => None
            | Some (index', c_off, o_off, _) =>
                match load_c_o_bits v c_off with
                | None => None
                | Some (c, o_bits) =>
                    match load_o v c o_off o_bits with
                    | None => None
                    | Some w => Some (nth index' w false)
                    end
                end
            end)
    end.

(* the common part of rank and access_rank_at after the bounds checks: (bit at index, rank) *)
Definition rank_at (v : rrr) (index : nat) : res (option (bool * nat)) :=
  let width := calc_width (rr_bits v) in
  let stride := rr_word v * 63 in
  let p_offset := index / stride in
  match load_nat (rr_p v) (p_offset * width) width with
  | None => Ok None
  | Some o_offset =>
      match load_nat (rr_r v) (p_offset * width) width with
      | None => Ok None
      | Some rank0 =>
          do st <- walk_words (S index) v (index - p_offset * stride) (p_offset * 6 * rr_word v) o_offset rank0;
          Ok (match st with
              | None => None
              | Some (index', c_off, o_off, rank) =>
                  match load_c_o_bits v c_off with
                  | None => None
                  | Some (c, o_bits) =>
                      match load_o v c o_off o_bits with
                      | None => None
                      | Some w => Some (nth index' w false, rank + count1 (firstn index' w))
                      end
                  end
              end)
      end
  end.

Definition rr_access_rank (v : rrr) (index : nat) : res (option (bool * nat)) :=
  if rr_bits v <=? index then Ok None else rank_at v index.

(* rank: index == len looks at the bit before and adds it *)
Definition rr_rank (v : rrr) (index : nat) : res (option nat) :=
  if rr_bits v <? index then Ok None
  else if index =? rr_bits v then
    if index =? 0 then Ok (Some 0)
    else do ar <- rank_at v (index - 1);
         Ok (option_map (fun ar' : bool * nat => if fst ar' then snd ar' + 1 else snd ar') ar)
  else do ar <- rank_at v index; Ok (option_map snd ar).

(* select_helper's `loop`: it ends when a word reaches x or a load fails; the c array is finite *)
Fixpoint sel_loop (fuel : nat) (v : rrr) (x : nat) (add_rank : nat -> nat) (wsel : word63 -> nat -> option nat)
  (c_off o_off rank idx : nat) : res (option nat) :=
  match fuel with
  | 0 => NoFuel
  | S f =>
      match load_c_o_bits v c_off with
      | None => Ok None
      | Some (c, o_bits) =>
          if x <=? rank + add_rank c then
            Ok (match load_o v c o_off o_bits with
                | None => None
                | Some w =>
                    match wsel w (x - rank) with
                    | None => None
                    | Some k => if rr_bits v <? idx + k then None else Some (idx + k)
                    end
                end)
          else sel_loop f v x add_rank wsel (c_off + 6) (o_off + o_bits) (rank + add_rank c) (idx + 63)
      end
  end.

(* load_rank is `unwrap_or(u64::MAX)` / `unwrap_or(u64::MIN)`: a missing r entry makes the
   arithmetic after it overflow; Panic here *)
Definition select_helper (v : rrr) (x : nat) (structure : list bool) (load_rank : nat -> res nat)
  (add_rank : nat -> nat) (wsel : word63 -> nat -> option nat) : res (option nat) :=
  if x =? 0 then Ok (Some 0)
  else if rr_bits v <? x then Ok None
  else
    let width := calc_width (rr_bits v) in
    match load_nat structure ((x / rr_sel v) * width) width with
    | None => Ok None
    | Some augment =>
        match load_nat (rr_p v) (augment * width) width with
        | None => Ok None
        | Some o_offset =>
            do rank <- load_rank augment;
            sel_loop (S (length (rr_c v))) v x add_rank wsel (augment * 6 * rr_word v) o_offset rank
                     (augment * rr_word v * 63)
        end
    end.

Definition rr_select (v : rrr) (x : nat) : res (option nat) :=
  let width := calc_width (rr_bits v) in
  select_helper v x (rr_s1 v) (fun idx => unwrap (load_nat (rr_r v) (idx * width) width))
                (fun c => c) w_select1.

Definition rr_select0 (v : rrr) (x : nat) : res (option nat) :=
  let width := calc_width (rr_bits v) in
  select_helper v x (rr_s0 v)
                (fun idx => do r <- unwrap (load_nat (rr_r v) (idx * width) width);
                            if idx * rr_word v * 63 <? r then Panic else Ok (idx * rr_word v * 63 - r))
                (fun c => 63 - c) w_select0.

(* ------------------------------------------------------------------ construct_from_words *)
Definition WORD := 8.
Definition SELECT := 64.

Record bstate := {
  b_idx : nat; b_olen : nat; b_rank : nat; b_rank0 : nat; b_next0 : nat; b_next1 : nat;
  b_p : list bool; b_c : list bool; b_o : list bool; b_r : list bool; b_s0 : list bool; b_s1 : list bool
}.

(* `while rank >= next_select { push_word(idx / WORD, width); next_select += SELECT }` *)
Fixpoint sel_push (fuel width rank next sb : nat) (acc : list bool) : res (list bool * nat) :=
  match fuel with
  | 0 => NoFuel
  | S f =>
      if next <=? rank then
        do acc' <- push_word acc (N.of_nat sb) width;
        sel_push f width rank (next + SELECT) sb acc'
      else Ok (acc, next)
  end.

Definition build_step (width : nat) (st : bstate) (word : word63) : res bstate :=
  let idx := b_idx st in
  do p1 <- (if idx mod WORD =? 0 then push_word (b_p st) (N.of_nat (b_olen st)) width else Ok (b_p st));
  do r1 <- (if idx mod WORD =? 0 then push_word (b_r st) (N.of_nat (b_rank st)) width else Ok (b_r st));
  do oc <- encode word;
  let o := fst oc in
  let c := snd oc in
  if 63 <? c then Panic
  else
    do lc <- unwrap (nth_error L_table c);
    do o1 <- (if 0 <? lc then push_word (b_o st) o lc else Ok (b_o st));
    let rank := b_rank st + c in
    let rank0 := b_rank0 st + (63 - c) in
    do c1 <- push_word (b_c st) (N.of_nat c) 6;
    do s0n <- sel_push 2 width rank0 (b_next0 st) (idx / WORD) (b_s0 st);
    do s1n <- sel_push 2 width rank (b_next1 st) (idx / WORD) (b_s1 st);
    Ok {| b_idx := S idx; b_olen := b_olen st + lc; b_rank := rank; b_rank0 := rank0;
          b_next0 := snd s0n; b_next1 := snd s1n;
          b_p := p1; b_c := c1; b_o := o1; b_r := r1; b_s0 := fst s0n; b_s1 := fst s1n |}.

Fixpoint build_loop (width : nat) (st : bstate) (ws : list word63) : res bstate :=
  match ws with
  | [] => Ok st
  | w :: r => do st' <- build_step width st w; build_loop width st' r
  end.

Definition bstate0 : bstate :=
  {| b_idx := 0; b_olen := 0; b_rank := 0; b_rank0 := 0; b_next0 := 0; b_next1 := 0;
     b_p := []; b_c := []; b_o := []; b_r := []; b_s0 := []; b_s1 := [] |}.

Definition construct_from_words (bits : nat) (ws : list word63) : res rrr :=
  let width := calc_width bits in
  do st <- build_loop width bstate0 ws;
  Ok {| rr_word := WORD; rr_sel := SELECT; rr_bits := bits;
        rr_p := seal (b_p st); rr_c := seal (b_c st); rr_o := seal (b_o st);
        rr_r := seal (b_r st); rr_s0 := seal (b_s0 st); rr_s1 := seal (b_s1 st) |}.

Definition rr_construct (bs : list bool) : res rrr :=
  construct_from_words (length bs) (words_of_bits bs).

(* the tables, for the check to compare with the literals of the source *)
Definition rrr_tables : list nat * list (list N) := (L_table, K_table).
