(* Scrunch/ModelWT.v — executable model of scrunch/src/psi/wavelet_tree.rs (WaveletTreePsi):
   psi stored as a table of context rows, one wavelet tree per row, cells located through the
   y_key bit vector and the y_value array.  Definitions only.

   Transcribed: construct_streaming / construct_streaming_mapped / flush_context / SaToSigma::build,
   Context::lookup, WaveletTreePsi::{len, lookup, lower_bound, upper_bound, constrain}.
   By interface: a wavelet tree (wavelet_tree/mod.rs, prefix.rs, encoder.rs) is the `list nat`
   it encodes with access / rank_q / select_q stated on the list; y_key is a `list bool`.
   CompressedDocument = PsiDocument<SampledSuffixArray, SampledInverseSuffixArray,
   WaveletTreePsi<prefix::WaveletTree<HuffmanEncoder>>> is assembled at the end. *)
From Coq Require Import Arith NArith List Bool.
From Blue Require Import Gen.Const_Scrunch Scrunch.ModelBits Scrunch.Model.
Import ListNotations.
Local Open Scope nat_scope.

(* ------------------------------------------------------------------ wavelet tree, by interface *)
Definition wt_len (t : list nat) : nat := length t.
Definition wt_access (t : list nat) (x : nat) : option nat := nth_error t x.
Definition count_eq (q : nat) (l : list nat) : nat := length (filter (Nat.eqb q) l).
(* rank_q[x]: occurrences of q left of x, for x in [0, len] *)
Definition wt_rank_q (t : list nat) (q x : nat) : option nat :=
  if x <=? length t then Some (count_eq q (firstn x t)) else None.
(* select_q[k]: 0 for k = 0, one past the index of the k-th q otherwise *)
Fixpoint wt_select_from (q : nat) (t : list nat) (k pos : nat) {struct t} : option nat :=
  match k with
  | 0 => Some pos
  | S k' =>
      match t with
      | [] => None
      | x :: r => if Nat.eqb x q then wt_select_from q r k' (S pos) else wt_select_from q r k (S pos)
      end
  end.
Definition wt_select_q (t : list nat) (q k : nat) : option nat := wt_select_from q t k 0.

(* ------------------------------------------------------------------ the table *)
Record wrow := { w_start : nat; w_tree : list nat }.     (* Context: ctx itself is dead data *)
Record wpsi := { w_table : list wrow; w_ykey : bits; w_yvalue : list nat }.

(* Context::lookup *)
Definition ctx_lookup (row : wrow) (sigma idx : nat) : res nat :=
  if wt_len (w_tree row) <=? idx then Err else
  do sel <- ok_or (wt_select_q (w_tree row) sigma (idx + 1));
  if sel =? 0 then Panic else Ok (w_start row + (sel - 1)).

Definition wpsi_len (w : wpsi) : nat :=
  match w_table w with
  | [] => 0
  | _ => let l := last (w_table w) {| w_start := 0; w_tree := [] |} in w_start l + wt_len (w_tree l)
  end.

(* self.table[self.y_value[cell]]: both indexings panic out of bounds *)
Definition row_of_cell (w : wpsi) (cell : nat) : res wrow :=
  do y <- unwrap (nth_error (w_yvalue w) cell);
  unwrap (nth_error (w_table w) y).

Definition wpsi_lookup (sg : sigma) (w : wpsi) (idx : nat) : res nat :=
  do y_rank <- ok_or (bv_rank (w_ykey w) idx);
  do row <- row_of_cell w y_rank;
  do start_of_cell <- ok_or (bv_select (w_ykey w) y_rank);
  do sigma <- ok_or (sa_index_to_sigma sg idx);
  if idx <? start_of_cell then Panic else ctx_lookup row sigma (idx - start_of_cell).

(* the cell search shared by lower_bound and upper_bound *)
Definition find_cell (w : wpsi) (point : nat) (range : nat * nat) : res (nat * nat * nat * wrow) :=
  (* assert!(!self.table.is_empty()); assert!(into.0 <= into.1); assert!(into.1 <= self.len()) *)
  match w_table w with
  | [] => Panic
  | _ =>
      if negb (fst range <=? snd range) then Panic else
      if negb (snd range <=? wpsi_len w) then Panic else
      if fst range =? 0 then Err else
      do first_cell <- ok_or (bv_rank (w_ykey w) (fst range));
      do last_cell <- ok_or (bv_rank (w_ykey w) (snd range));
      do cell0 <- partition_by (fun cell => do row <- row_of_cell w cell; Ok (w_start row <? point))
                               first_cell last_cell;
      do row0 <- row_of_cell w cell0;
      let cell := if (first_cell <? cell0) && (point <? w_start row0) then cell0 - 1 else cell0 in
      do start_of_cell <- ok_or (bv_select (w_ykey w) cell);
      do e <- ok_or (bv_select (w_ykey w) (cell + 1));
      if e =? 0 then Panic else
      do row <- row_of_cell w cell;
      Ok (start_of_cell, e - 1, cell, row)
  end.

(* lowest index in `range` whose psi value is >= point *)
Definition lower_bound (sg : sigma) (w : wpsi) (point : nat) (range : nat * nat) : res nat :=
  do fc <- find_cell w point range;
  let '(start_of_cell, end_of_cell, _, row) := fc in
  do column <- ok_or (sa_index_to_sigma sg start_of_cell);
  if w_start row <=? point then
    let r := match wt_rank_q (w_tree row) column (point - w_start row) with
             | Some r => r
             | None => end_of_cell - start_of_cell + 1
             end in
    Ok (r + start_of_cell)
  else Ok start_of_cell.

(* highest index in `range` whose psi value is <= point *)
Definition upper_bound (sg : sigma) (w : wpsi) (point : nat) (range : nat * nat) : res nat :=
  do fc <- find_cell w point range;
  let '(start_of_cell, end_of_cell, _, row) := fc in
  do column <- ok_or (sa_index_to_sigma sg start_of_cell);
  if w_start row <=? point then
    match wt_rank_q (w_tree row) column (point - w_start row) with
    | Some rank =>
        let v := match ctx_lookup row column rank with
                 | Ok v => Ok v
                 | Err => Ok (point + 1)          (* .unwrap_or(point + 1) *)
                 | Panic => Panic
                 | NoFuel => NoFuel
                 end in
        do v' <- v;
        if point <? v' then (if rank + start_of_cell =? 0 then Panic else Ok (rank + start_of_cell - 1))
        else Ok (rank + start_of_cell)
    | None => Ok end_of_cell
    end
  else if start_of_cell =? 0 then Panic else Ok (start_of_cell - 1).

Definition wpsi_constrain (sg : sigma) (w : wpsi) (range into : nat * nat) : res (nat * nat) :=
  if snd range <? fst range then Ok range else
  if snd into <? fst into then (if fst range =? 0 then Panic else Ok (fst range, fst range - 1)) else
  match w_table w with
  | [] => Ok (1, 0)
  | _ =>
      do lower <- lower_bound sg w (fst into) range;
      do upper <- upper_bound sg w (snd into) range;
      Ok (lower, upper)
  end.

Definition wpsi_ops (sg : sigma) (w : wpsi) : psi_ops :=
  {| p_len := wpsi_len w; p_lookup := wpsi_lookup sg w; p_constrain := wpsi_constrain sg w |}.

(* ------------------------------------------------------------------ construction *)
(* SaToSigma::build: the symbol of every suffix-array index, from the bucket limits *)
Fixpoint sa_to_sigma_build (limits : list nat) (symbol prev len : nat) : res (list nat) :=
  match limits with
  | [] => if prev =? len then Ok [] else Err
  | limit :: r =>
      if (limit <? prev) || (len <? limit) then Err
      else do rest <- sa_to_sigma_build r (S symbol) limit len;
           Ok (repeat symbol (limit - prev) ++ rest)
  end.

Record cstate := {
  c_ctx : nat * nat; c_start : nat; c_row : nat;
  c_tree : list nat; c_counts : list nat; c_active : list nat;
  c_cells : list (list (nat * nat));        (* cells_by_sigma: (row, count) per symbol *)
  c_out : list wrow
}.

(* flush_context *)
Definition flush_context (st : cstate) : cstate :=
  let cells := fold_left (fun cells symbol =>
                            set_nth symbol (nth symbol cells [] ++ [(c_row st, nth symbol (c_counts st) 0)]) cells)
                         (c_active st) (c_cells st) in
  let counts := fold_left (fun cs symbol => set_nth symbol 0 cs) (c_active st) (c_counts st) in
  {| c_ctx := c_ctx st; c_start := c_start st; c_row := c_row st;
     c_tree := []; c_counts := counts; c_active := []; c_cells := cells;
     c_out := c_out st ++ [{| w_start := c_start st; w_tree := c_tree st |}] |}.

Definition ctx_eqb (a b : nat * nat) : bool := (fst a =? fst b) && (snd a =? snd b).

(* one iteration of the streaming loop (CTX_SZ = 2: the context of index i is the pair
   (symbol of i, symbol of psi[i])) *)
Definition stream_step (len : nat) (s2s psi : list nat) (st : cstate) (i ipsi_i : nat) : res cstate :=
  if len <=? i then Err else
  do t0 <- unwrap (nth_error s2s i);
  do idx <- unwrap (nth_error psi i);
  if len <=? idx then Err else
  do t1 <- unwrap (nth_error s2s idx);
  let tmp := (t0, t1) in
  let st1 :=
    if ctx_eqb (c_ctx st) tmp then st
    else let st' := if 0 <? i
                    then let f := flush_context st in
                         {| c_ctx := c_ctx f; c_start := c_start f; c_row := c_row f + 1;
                            c_tree := c_tree f; c_counts := c_counts f; c_active := c_active f;
                            c_cells := c_cells f; c_out := c_out f |}
                    else st in
         {| c_ctx := tmp; c_start := i; c_row := c_row st';
            c_tree := c_tree st'; c_counts := c_counts st'; c_active := c_active st';
            c_cells := c_cells st'; c_out := c_out st' |} in
  if len <=? ipsi_i then Err else
  do symbol <- unwrap (nth_error s2s ipsi_i);
  do cnt <- unwrap (nth_error (c_counts st1) symbol);
  Ok {| c_ctx := c_ctx st1; c_start := c_start st1; c_row := c_row st1;
        c_tree := c_tree st1 ++ [symbol];
        c_counts := set_nth symbol (cnt + 1) (c_counts st1);
        c_active := if cnt =? 0 then c_active st1 ++ [symbol] else c_active st1;
        c_cells := c_cells st1; c_out := c_out st1 |}.

Fixpoint stream_loop (len : nat) (s2s psi : list nat) (st : cstate) (i : nat) (ipsi : list nat) : res cstate :=
  match ipsi with
  | [] => Ok st
  | x :: r => do st' <- stream_step len s2s psi st i x; stream_loop len s2s psi st' (S i) r
  end.

(* y_key / y_value from the cells, column by column *)
Fixpoint y_fold (cells : list (nat * nat)) (sum : nat) (ykey yvalue : list nat) : nat * list nat * list nat :=
  match cells with
  | [] => (sum, ykey, yvalue)
  | (row, count) :: r =>
      y_fold r (sum + count) (if 0 <? sum then ykey ++ [sum - 1] else ykey) (yvalue ++ [row])
  end.

Definition wpsi_construct (sg : sigma) (psi : list nat) : res wpsi :=
  let len := length psi in
  let ipsi := inverse psi in
  do limits <- bucket_limits sg;
  do s2s <- (if length limits =? sigma_K sg then sa_to_sigma_build limits 0 0 len else Err);
  let st0 := {| c_ctx := (0, 0); c_start := 0; c_row := 0; c_tree := [];
                c_counts := repeat 0 (sigma_K sg); c_active := [];
                c_cells := repeat [] (sigma_K sg); c_out := [] |} in
  do st <- stream_loop len s2s psi st0 0 ipsi;
  if negb (length ipsi =? len) then Err else
  let st := flush_context st in
  let '(sum, ykey, yvalue) := y_fold (concat (c_cells st)) 0 [] [] in
  if sum =? 0 then Panic else
  do yk <- ok_or (from_indices 128 sum (ykey ++ [sum - 1]));
  Ok {| w_table := c_out st; w_ykey := yk; w_yvalue := yvalue |}.

(* ------------------------------------------------------------------ CompressedDocument *)
Definition CTX_SZ_is_two : bool := N.eqb PSI_CTX_SZ 2 && N.eqb PSI_CTX_MAX 2.

Definition construct_compressed (text : list N) (rb : list nat) : res doc :=
  do p <- construct_parts text rb;
  do s <- ssa_construct SA_SAMPLING (pt_sa p);
  do si <- sisa_construct (pt_isa p) rb;
  do w <- wpsi_construct (pt_sigma p) (pt_psi p);
  let ops := wpsi_ops (pt_sigma p) w in
  Ok {| d_rb := pt_rb p; d_sigma := pt_sigma p;
        d_sa := fun idx => ssa_lookup (S (length (pt_psi p))) s (p_lookup ops) idx 0;
        d_isa := sisa_lookup si;
        d_psi := ops |}.

(* PsiDocument<ReferenceSuffixArray, ReferenceInverseSuffixArray, WaveletTreePsi<..>> *)
Definition construct_wavelet_doc (text : list N) (rb : list nat) : res doc :=
  do p <- construct_parts text rb;
  do w <- wpsi_construct (pt_sigma p) (pt_psi p);
  Ok {| d_rb := pt_rb p; d_sigma := pt_sigma p;
        d_sa := rsa_lookup (pt_sa p); d_isa := risa_lookup (pt_isa p);
        d_psi := wpsi_ops (pt_sigma p) w |}.
