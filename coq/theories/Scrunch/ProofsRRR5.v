(* Scrunch/ProofsRRR5.v — rrr.rs, part 5: the select samples s0 / s1 written by the constructor,
   the word loop of select_helper, and select / select0 of the constructed vector are those of the
   plain bit list, for every argument. *)
From Coq Require Import Arith NArith List Bool Lia.
From Blue Require Import Scrunch.ModelBits Scrunch.ModelRRR Scrunch.ProofsBits Scrunch.ProofsSparse1
  Scrunch.ProofsRRR1 Scrunch.ProofsRRR2 Scrunch.ProofsRRR3 Scrunch.ProofsRRR4.
Import ListNotations.
Local Open Scope nat_scope.
Arguments Nat.sub : simpl never.
Arguments Nat.div : simpl never.
Arguments Nat.modulo : simpl never.
Arguments Nat.leb : simpl never.
Arguments Nat.ltb : simpl never.
Arguments Nat.eqb : simpl never.
Arguments Nat.pow : simpl never.
Arguments Nat.mul : simpl never.
Arguments Nat.log2_up : simpl never.
Arguments N.pow : simpl never.
Arguments N.ltb : simpl never.
Arguments N.of_nat : simpl never.

(* bits equal to vb in a list of words *)
Definition G (vb : bool) (l : list (list bool)) : nat := countv vb (concat l).

Lemma G_app vb a b : G vb (a ++ b) = G vb a + G vb b.
Proof. unfold G. now rewrite concat_app, countv_app. Qed.
Lemma G_one vb w : G vb [w] = countv vb w.
Proof. unfold G. cbn [concat]. now rewrite app_nil_r. Qed.
Lemma G_firstn_le vb a l : G vb (firstn a l) <= G vb l.
Proof. rewrite <- (firstn_skipn a l) at 2. rewrite G_app. lia. Qed.
Lemma G_firstn_mono vb a b l : a <= b -> G vb (firstn a l) <= G vb (firstn b l).
Proof.
  intros H. replace (firstn a l) with (firstn a (firstn b l)); [apply G_firstn_le|].
  rewrite firstn_firstn. f_equal. lia.
Qed.
Lemma filter_length_le_aux {A} (f : A -> bool) l : length (filter f l) <= length l.
Proof. induction l as [|x l IH]; [cbn; lia|]. cbn [filter]. destruct (f x); cbn [length]; lia. Qed.
Lemma countv_le_63 vb w : length w = 63 -> countv vb w <= 63.
Proof. intros H. unfold countv. pose proof (filter_length_le_aux (Bool.eqb vb) w). lia. Qed.

(* ------------------------------------------------------------------ the samples *)
Definition sel_ok (vb : bool) (ws : list (list bool)) (sv : list nat) (next : nat) : Prop :=
  next = 64 * length sv /\
  ((ws = [] /\ sv = []) \/ (ws <> [] /\ G vb ws < next)) /\
  forall j, j < length sv ->
    8 * nth j sv 0 < length ws /\
    (G vb (firstn (8 * nth j sv 0) ws) < 64 * j \/ (j = 0 /\ nth j sv 0 = 0)).

Lemma firstn_snoc_lt {A} (l : list A) x a : a <= length l -> firstn a (l ++ [x]) = firstn a l.
Proof. intros H. rewrite firstn_app. replace (a - length l) with 0 by lia. cbn [firstn]. apply app_nil_r. Qed.

Lemma sel_ok_step vb ws sv next w : sel_ok vb ws sv next -> length w = 63 ->
  sel_ok vb (ws ++ [w]) (fst (sel1 (G vb ws + countv vb w) next (length ws / 8) sv))
                        (snd (sel1 (G vb ws + countv vb w) next (length ws / 8) sv)).
Proof.
  intros (H1 & H2 & H3) Hw. pose proof (countv_le_63 vb w Hw) as Hc.
  assert (Hold : forall j, j < length sv ->
            8 * nth j sv 0 < length (ws ++ [w]) /\
            (G vb (firstn (8 * nth j sv 0) (ws ++ [w])) < 64 * j \/ j = 0 /\ nth j sv 0 = 0)).
  { intros j Hj. destruct (H3 j Hj) as [A B]. rewrite app_length. cbn [length]. split; [lia|].
    now rewrite firstn_snoc_lt by lia. }
  assert (Hne : ws ++ [w] <> []) by (destruct ws; discriminate).
  unfold sel1. destruct (Nat.leb_spec next (G vb ws + countv vb w)) as [Hpush|Hno]; cbn [fst snd].
  - unfold sel_ok. rewrite app_length. cbn [length]. split; [lia|]. split.
    + right. split; [exact Hne|]. rewrite G_app, G_one. destruct H2 as [[-> ->]|[_ H2]]; cbn in *; lia.
    + intros j Hj. destruct (Nat.eq_dec j (length sv)) as [->|Hn].
      * rewrite nth_middle. rewrite app_length. cbn [length].
        pose proof (Nat.mul_div_le (length ws) 8 ltac:(lia)) as Hd. split; [lia|].
        rewrite firstn_snoc_lt by lia.
        destruct H2 as [[E1 E2]|[_ H2]].
        -- right. subst. cbn. split; reflexivity.
        -- left. pose proof (G_firstn_le vb (8 * (length ws / 8)) ws). lia.
      * rewrite app_nth1 by lia. apply Hold. lia.
  - unfold sel_ok. split; [exact H1|]. split.
    + right. split; [exact Hne|]. now rewrite G_app, G_one.
    + exact Hold.
Qed.

Lemma concat_length_63 ws : Forall (fun w : list bool => length w = 63) ws -> length (concat ws) = 63 * length ws.
Proof. induction 1 as [|w ws Hw _ IH]; [reflexivity|]. cbn [concat length]. rewrite app_length, IH, Hw. lia. Qed.

Lemma fstate_sel ws : Forall (fun w : list bool => length w = 63) ws ->
  q_rank0 (fstate ws) = G false ws /\
  sel_ok true ws (q_s1v (fstate ws)) (q_next1 (fstate ws)) /\
  sel_ok false ws (q_s0v (fstate ws)) (q_next0 (fstate ws)).
Proof.
  induction ws as [|w ws IH] using rev_ind; intros Hall.
  - cbn. unfold sel_ok. cbn. repeat split; try lia; left; split; reflexivity.
  - apply Forall_app in Hall. destruct Hall as [Hall Hw]. apply Forall_inv in Hw.
    destruct (IH Hall) as (I0 & I1 & I2).
    destruct (fstate_closed ws) as (Eidx & _ & Erank & _). cbv zeta in Eidx, Erank.
    rewrite fstate_snoc. unfold pure_step. cbn [q_rank0 q_s1v q_next1 q_s0v q_next0].
    rewrite Eidx, Erank, I0.
    assert (E0 : 63 - count1 w = countv false w) by (rewrite countv_false; lia).
    assert (E1 : rank_of ws = G true ws) by (unfold rank_of, G; now rewrite countv_true).
    rewrite E0, E1. split; [now rewrite G_app, G_one|].
    split.
    + rewrite <- (countv_true w). now apply sel_ok_step.
    + now apply sel_ok_step.
Qed.

(* ------------------------------------------------------------------ small facts *)
Lemma select_word_pos w y k : select_word w y = Some k -> 1 <= y -> 1 <= k.
Proof.
  unfold select_word. destruct (Nat.eqb_spec y 0); [lia|]. destruct (count1 w <? y); [discriminate|].
  destruct (fold_left sw_step _ _) as [[a b] c]. intros [= <-] _. lia.
Qed.

Lemma select_from_pos v b : forall k pos p, select_from v b (S k) pos = Some p -> pos < p.
Proof.
  induction b as [|x b IH]; intros k pos p H; [discriminate|]. cbn [select_from] in H.
  destruct (Bool.eqb x v).
  - destruct k as [|k]; [rewrite select_from_zero in H; inversion H; lia|]. apply IH in H. lia.
  - apply IH in H. lia.
Qed.

Lemma bits_val_false l : Forall (fun b => b = false) l -> bits_val l = 0%N.
Proof. induction 1 as [|b l Hb _ IH]; [reflexivity|]. subst. cbn [bits_val]. rewrite IH. reflexivity. Qed.

Lemma least_step (f : nat -> nat) x : forall n, f 0 < x -> x <= f n -> exists t, t < n /\ f t < x /\ x <= f (S t).
Proof.
  induction n as [|n IH]; intros H0 Hn; [lia|].
  destruct (Nat.le_gt_cases x (f n)) as [Hle|Hgt].
  - destruct (IH H0 Hle) as (t & A & B & C). exists t. repeat split; try lia.
  - exists n. repeat split; try lia.
Qed.

Definition add_rank_v (vb : bool) (c : nat) : nat := if vb then c else 63 - c.
Definition wsel_v (vb : bool) : word63 -> nat -> option nat := if vb then w_select1 else w_select0.

Lemma add_rank_v_spec vb w : length w = 63 -> add_rank_v vb (count1 w) = countv vb w.
Proof. intros H. destruct vb; cbn; [now rewrite countv_true|rewrite countv_false; lia]. Qed.

Lemma wsel_v_spec vb w y : length w = 63 -> wsel_v vb w y = select_from vb w y 0.
Proof. intros H. destruct vb; cbn; [now apply w_select1_spec|now apply w_select0_spec]. Qed.

Lemma chunked_pad_concat l cs : chunked 63 l cs -> exists pad, concat (map pad63 cs) = l ++ pad.
Proof.
  induction 1 as [c H1 H2|c l cs' Hc Hch IH].
  - exists (repeat false (63 - length c)). cbn [map concat]. unfold pad63. now rewrite app_nil_r.
  - destruct IH as (pad & E). exists pad. cbn [map concat]. rewrite E. unfold pad63.
    rewrite Hc, Nat.sub_diag. cbn [repeat]. now rewrite app_nil_r, app_assoc.
Qed.

(* ------------------------------------------------------------------ the constructed vector *)
Section Built.
  Variable bs : list bool.
  Variable cs : list (list bool).
  Hypothesis Hok : words_ok bs cs.
  Hypothesis Hlen : rrr_len_ok (length bs).

  Notation ws := (map pad63 cs).
  Notation bits := (length bs).
  Notation width := (calc_width (length bs)).
  Notation v := (rrr_of (length bs) (map pad63 cs)).
  Notation wk k := (nth k (map pad63 cs) []).

  Local Set Default Proof Using "Hok Hlen".

  Let Hall := ws_all bs cs Hok Hlen.

  Lemma G_firstn_S vb k : k < length ws -> G vb (firstn (S k) ws) = G vb (firstn k ws) + countv vb (wk k).
  Proof. intros H. rewrite (firstn_S_nth (A:=word63) [] k ws H), G_app, G_one. reflexivity. Qed.

  Lemma concat_ws : exists pad, concat ws = bs ++ pad.
  Proof.
    destruct Hok as [[-> ->]|Hch]; [exists []; reflexivity|]. exact (chunked_pad_concat bs cs Hch).
  Qed.

  Lemma countv_bs_le vb : countv vb bs <= G vb ws.
  Proof. destruct concat_ws as (pad & E). unfold G. rewrite E, countv_app. lia. Qed.

  (* select on the padded words against select on the bits *)
  Lemma select_ws_bs vb x p : 1 <= x -> select_from vb (concat ws) x 0 = Some p ->
    select_from vb bs x 0 = if bits <? p then None else Some p.
  Proof.
    intros Hx. destruct concat_ws as (pad & E). rewrite E, select_from_app.
    destruct (Nat.leb_spec x (countv vb bs)) as [Hle|Hgt]; intros H.
    - rewrite H. apply select_from_least in H. destruct H as (H & _).
      now replace (bits <? p) with false by (symmetry; apply Nat.ltb_ge; lia).
    - rewrite select_from_none by lia.
      replace (x - countv vb bs) with (S (x - countv vb bs - 1)) in H by lia.
      apply select_from_pos in H. now replace (bits <? p) with true by (symmetry; apply Nat.ltb_lt; lia).
  Qed.

  (* select inside the word that holds the x-th bit *)
  Lemma select_in_word vb t x : t < length ws -> G vb (firstn t ws) < x -> x <= G vb (firstn (S t) ws) ->
    exists k, select_from vb (wk t) (x - G vb (firstn t ws)) 0 = Some k /\
              select_from vb (concat ws) x 0 = Some (63 * t + k).
  Proof.
    intros Ht Hlo Hhi. rewrite G_firstn_S in Hhi by exact Ht.
    destruct (select_from_total vb (wk t) (x - G vb (firstn t ws)) ltac:(lia)) as (k & Ek).
    exists k. split; [exact Ek|].
    rewrite <- (firstn_skipn t ws) at 1. rewrite (skipn_nth_cons (A:=word63) [] ws t Ht).
    rewrite concat_app. cbn [concat]. rewrite select_from_app. fold (G vb (firstn t ws)).
    replace (x <=? G vb (firstn t ws)) with false by (symmetry; apply Nat.leb_gt; lia).
    rewrite select_from_app.
    replace (x - G vb (firstn t ws) <=? countv vb (wk t)) with true by (symmetry; apply Nat.leb_le; lia).
    rewrite select_from_shift, Ek. cbn [option_map]. f_equal.
    rewrite concat_length_63 by (apply Forall_firstn; exact Hall). rewrite firstn_length. lia.
  Qed.

  (* the word loop, when the x-th bit is in word t *)
  Lemma sel_loop_found vb x t : t < length ws -> G vb (firstn t ws) < x -> x <= G vb (firstn (S t) ws) ->
    forall d k0 fuel, t = k0 + d -> d < fuel ->
    sel_loop fuel v x (add_rank_v vb) (wsel_v vb) (6 * k0) (olen_of (firstn k0 ws)) (G vb (firstn k0 ws)) (63 * k0) =
    Ok (match select_from vb (wk t) (x - G vb (firstn t ws)) 0 with
        | None => None
        | Some k => if bits <? 63 * t + k then None else Some (63 * t + k)
        end).
  Proof.
    intros Ht Hlo Hhi. induction d as [|d IH]; intros k0 fuel Hk Hf; (destruct fuel as [|fuel]; [lia|]); cbn [sel_loop].
    - replace k0 with t in * by lia. rewrite (load_c_at bs cs Hok Hlen t Ht).
      rewrite add_rank_v_spec by (apply (wk_length bs cs Hok Hlen); exact Ht).
      rewrite <- G_firstn_S by exact Ht.
      replace (x <=? G vb (firstn (S t) ws)) with true by (symmetry; apply Nat.leb_le; lia).
      rewrite (load_o_at bs cs Hok Hlen t Ht).
      rewrite wsel_v_spec by (apply (wk_length bs cs Hok Hlen); exact Ht). cbn [rr_bits rrr_of]. reflexivity.
    - assert (Hk0 : k0 < length ws) by lia.
      rewrite (load_c_at bs cs Hok Hlen k0 Hk0).
      rewrite add_rank_v_spec by (apply (wk_length bs cs Hok Hlen); exact Hk0).
      rewrite <- G_firstn_S by exact Hk0.
      pose proof (G_firstn_mono vb (S k0) t ws ltac:(lia)) as Hm.
      replace (x <=? G vb (firstn (S k0) ws)) with false by (symmetry; apply Nat.leb_gt; lia).
      replace (6 * k0 + 6) with (6 * S k0) by lia. replace (63 * k0 + 63) with (63 * S k0) by lia.
      rewrite <- (olen_firstn_S bs cs Hok Hlen k0 Hk0).
      apply IH; lia.
  Qed.

  (* what can be read from the c array past the last word *)
  Lemma load_c_end :
    (load_c_o_bits v (6 * length ws) = None \/ load_c_o_bits v (6 * length ws) = Some (0, 0)) /\
    load_c_o_bits v (6 * length ws + 6) = None.
  Proof.
    unfold load_c_o_bits, load_nat. cbn [rrr_of rr_c].
    destruct (fstate_closed ws) as (_ & _ & _ & Ecv & _). cbv zeta in Ecv. rewrite Ecv.
    destruct (seal_prefix (fbits 6 (map (@count1) ws))) as (pad & -> & Hp & Hfalse).
    assert (Lc : length (fbits 6 (map (@count1) ws)) = 6 * length ws) by (rewrite fbits_length, !map_length; lia).
    split.
    - unfold ba_load. replace (6 =? 0) with false by reflexivity. rewrite app_length, Lc.
      destruct (Nat.leb_spec (6 * length ws + 6) (6 * length ws + length pad)) as [H|H]; [right|left; reflexivity].
      rewrite skipn_app, skipn_all2 by lia. replace (6 * length ws - length (fbits 6 (map (@count1) ws))) with 0 by lia.
      cbn [app skipn]. rewrite bits_val_false by (apply Forall_firstn; exact Hfalse). reflexivity.
    - rewrite ba_load_past; [reflexivity|lia|]. rewrite app_length, Lc. lia.
  Qed.

  (* the word loop, when there are fewer than x such bits *)
  Lemma sel_loop_none vb x : G vb ws < x -> forall d k0 fuel, k0 + d = length ws -> d + 2 <= fuel ->
    sel_loop fuel v x (add_rank_v vb) (wsel_v vb) (6 * k0) (olen_of (firstn k0 ws)) (G vb (firstn k0 ws)) (63 * k0) = Ok None.
  Proof.
    intros Hx. induction d as [|d IH]; intros k0 fuel Hk Hf; (destruct fuel as [|fuel]; [lia|]); cbn [sel_loop].
    - replace k0 with (length ws) in * by lia. destruct load_c_end as [[E|E] E2]; rewrite E; [reflexivity|].
      rewrite firstn_all.
      destruct (Nat.leb_spec x (G vb ws + add_rank_v vb 0)) as [Hhit|Hno].
      + destruct vb; cbn [add_rank_v] in Hhit; [lia|].
        unfold load_o. rewrite ba_load_zero. change (decode 0 0) with (Some (repeat false 63)).
        cbn [wsel_v]. unfold w_select0.
        destruct (select_word (map negb (repeat false 63)) (x - G false ws)) as [k|] eqn:Ek; [|reflexivity].
        apply select_word_pos in Ek; [|lia]. cbn [rr_bits rrr_of].
        pose proof (ws_count bs cs Hok Hlen) as [_ Hb].
        now replace (bits <? 63 * length ws + k) with true by (symmetry; apply Nat.ltb_lt; lia).
      + destruct fuel as [|fuel]; [lia|]. cbn [sel_loop]. now rewrite E2.
    - assert (Hk0 : k0 < length ws) by lia.
      rewrite (load_c_at bs cs Hok Hlen k0 Hk0).
      rewrite add_rank_v_spec by (apply (wk_length bs cs Hok Hlen); exact Hk0).
      rewrite <- G_firstn_S by exact Hk0.
      pose proof (G_firstn_le vb (S k0) ws) as Hm.
      replace (x <=? G vb (firstn (S k0) ws)) with false by (symmetry; apply Nat.leb_gt; lia).
      replace (6 * k0 + 6) with (6 * S k0) by lia. replace (63 * k0 + 63) with (63 * S k0) by lia.
      rewrite <- (olen_firstn_S bs cs Hok Hlen k0 Hk0).
      apply IH; lia.
  Qed.

  (* select_helper, for both kinds *)
  Lemma select_helper_correct vb sv next load_rank x :
    sel_ok vb ws sv next ->
    (forall sb, 8 * sb < length ws -> load_rank sb = Ok (G vb (firstn (8 * sb) ws))) ->
    select_helper v x (seal (fbits width sv)) load_rank (add_rank_v vb) (wsel_v vb) = Ok (select_from vb bs x 0).
  Proof.
    intros (S1 & S2 & S3) Hlr. unfold select_helper. cbn [rr_bits rr_sel rr_word rrr_of]. fold (rrr_of bits ws).
    destruct (Nat.eqb_spec x 0) as [->|Hx0]; [now rewrite select_from_zero|].
    destruct (Nat.ltb_spec bits x) as [Hbig|Hx].
    { rewrite select_from_none; [reflexivity|]. unfold countv. pose proof (filter_length_le_aux (Bool.eqb vb) bs). lia. }
    pose proof (calc_width_bounds bits Hlen) as Hw.
    pose proof (ws_count bs cs Hok Hlen) as [Hc1 Hc2].
    pose proof (countv_bs_le vb) as Hcv.
    assert (Hn : 1 <= length ws) by lia.
    pose proof (Nat.mul_div_le x 64 ltac:(lia)) as Hdiv.
    destruct (Nat.le_gt_cases (length sv) (x / 64)) as [Hpast|Hj].
    - rewrite load_field_past by lia.
      rewrite select_from_none; [reflexivity|]. destruct S2 as [[E _]|[_ S2]]; [rewrite E in Hn; cbn in Hn; lia|]. lia.
    - destruct (S3 (x / 64) Hj) as [Sa Sb]. set (sb := nth (x / 64) sv 0) in *.
      destruct (seal_prefix (fbits width sv)) as (pad & -> & _).
      rewrite load_field; [|lia|exact Hj|apply width_fits; fold sb; lia]. fold sb.
      destruct (p_r_at bs cs Hok Hlen sb Sa) as [Ep _]. rewrite Ep.
      rewrite (Hlr sb Sa). cbn [rbind].
      replace (sb * 6 * 8) with (6 * (8 * sb)) by lia. replace (sb * 8 * 63) with (63 * (8 * sb)) by lia.
      assert (Hstart : G vb (firstn (8 * sb) ws) < x) by (destruct Sb as [Sb|[Sb1 Sb2]]; [lia|rewrite Sb2; replace (8 * 0) with 0 by lia; cbn [firstn]; unfold G; cbn; lia]).
      assert (Lc : 6 * length ws <= length (rr_c v)).
      { cbn [rrr_of rr_c]. destruct (fstate_closed ws) as (_ & _ & _ & Ecv & _). cbv zeta in Ecv. rewrite Ecv.
        destruct (seal_prefix (fbits 6 (map (@count1) ws))) as (pad' & -> & _).
        rewrite app_length, fbits_length, !map_length. lia. }
      destruct (Nat.le_gt_cases x (G vb ws)) as [Hin|Hout].
      + destruct (least_step (fun t => G vb (firstn t ws)) x (length ws)) as (t & T1 & T2 & T3);
          [cbn; lia|now rewrite firstn_all|].
        assert (T4 : 8 * sb <= t).
        { destruct (Nat.le_gt_cases (8 * sb) t); [assumption|].
          pose proof (G_firstn_mono vb (S t) (8 * sb) ws ltac:(lia)). lia. }
        rewrite (sel_loop_found vb x t T1 T2 T3 (t - 8 * sb) (8 * sb)) by lia.
        destruct (select_in_word vb t x T1 T2 T3) as (k & Ek & Ec). rewrite Ek.
        now rewrite (select_ws_bs vb x (63 * t + k) ltac:(lia) Ec).
      + rewrite (sel_loop_none vb x Hout (length ws - 8 * sb) (8 * sb)) by lia.
        now rewrite select_from_none by lia.
  Qed.

  Theorem rr_select_correct x : rr_select v x = Ok (bv_select bs x).
  Proof.
    unfold rr_select, bv_select. cbn [rr_s1 rr_r rr_bits rrr_of]. fold (rrr_of bits ws).
    destruct (fstate_sel ws Hall) as (_ & S1 & _).
    change (fun c : nat => c) with (add_rank_v true). change w_select1 with (wsel_v true).
    apply (select_helper_correct true _ _ _ x S1).
    intros sb Hsb. destruct (p_r_at bs cs Hok Hlen sb Hsb) as [_ Er]. cbn [rrr_of rr_r] in Er. rewrite Er.
    cbn [unwrap]. unfold rank_of, G. now rewrite countv_true.
  Qed.

  Theorem rr_select0_correct x : rr_select0 v x = Ok (bv_select0 bs x).
  Proof.
    unfold rr_select0, bv_select0. cbn [rr_s0 rr_r rr_bits rr_word rrr_of]. fold (rrr_of bits ws).
    destruct (fstate_sel ws Hall) as (_ & _ & S0).
    change (fun c : nat => 63 - c) with (add_rank_v false). change w_select0 with (wsel_v false).
    apply (select_helper_correct false _ _ _ x S0).
    intros sb Hsb. destruct (p_r_at bs cs Hok Hlen sb Hsb) as [_ Er]. cbn [rrr_of rr_r] in Er. rewrite Er.
    cbn [unwrap rbind].
    pose proof (Forall_firstn _ (8 * sb) _ Hall) as Hf.
    pose proof (rank_of_bound _ Hf) as Hb. pose proof (concat_length_63 _ Hf) as Hl.
    assert (Hfl : length (firstn (8 * sb) ws) = 8 * sb) by (rewrite firstn_length; lia).
    change word63 with (list bool) in *.
    replace (sb * 8 * 63 <? rank_of (firstn (8 * sb) ws)) with false by (symmetry; apply Nat.ltb_ge; lia).
    f_equal. unfold G. rewrite countv_false. unfold rank_of. lia.
  Qed.
End Built.
