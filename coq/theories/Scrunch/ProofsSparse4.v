(* Scrunch/ProofsSparse4.v — sparse::BitVector::from_indices builds, for every strictly increasing
   index list below len and every branch factor the constructor accepts, a tree whose access / rank /
   select are those of the plain bit list `bits_of_indices len idx`. *)
From Coq Require Import Arith List Bool Lia.
From Blue Require Import Scrunch.ModelBits Scrunch.ModelSparse Scrunch.Model Scrunch.ProofsBits Scrunch.ProofsSorted
  Scrunch.ProofsSparse1 Scrunch.ProofsSparse2 Scrunch.ProofsSparse3.
Import ListNotations.
Arguments Nat.sub : simpl never.
Arguments Nat.div : simpl never.
Arguments Nat.modulo : simpl never.
Arguments Nat.leb : simpl never.
Arguments Nat.ltb : simpl never.
Arguments Nat.eqb : simpl never.
Arguments Nat.pow : simpl never.

Lemma removelast_firstn_pred {A} (l : list A) : removelast l = firstn (length l - 1) l.
Proof.
  induction l as [|x [|y l] IH]; [reflexivity|reflexivity|].
  replace (length (x :: y :: l) - 1) with (S (length (y :: l) - 1)) by (cbn [length]; lia).
  cbn [firstn]. rewrite <- IH. reflexivity.
Qed.

Lemma chunked_count_le {A} k (l : list A) cs : chunked k l cs -> length cs <= length l.
Proof.
  induction 1 as [c H1 H2|c l cs Hc Hch IH]; [cbn; lia|].
  rewrite app_length. cbn [length].
  pose proof (chunked_pos _ _ _ Hch). lia.
Qed.

Lemma sinc_strictly_increasing l : sinc l -> strictly_increasing l = true.
Proof.
  induction l as [|x [|y l] IH]; intros H; [reflexivity|reflexivity|].
  cbn [strictly_increasing]. inversion H as [|? ? Hs Hf]; subst. inversion Hf; subst.
  apply andb_true_iff. split; [now apply Nat.ltb_lt|now apply IH].
Qed.

(* the accepted constructions *)
Definition sparse_accepts (branch len : nat) (idx : list nat) : Prop :=
  4 <= branch < 256 /\ sinc idx /\ Forall (fun i => i < len) idx.

Lemma from_indices_accepts branch len idx b : from_indices branch len idx = Some b ->
  sparse_accepts branch len idx /\ b = bits_of_indices len idx.
Proof.
  unfold from_indices. destruct ((4 <=? branch) && (branch <? 256)) eqn:E1; [|discriminate].
  destruct (strictly_increasing idx) eqn:E2; [|discriminate].
  destruct (forallb (fun i => i <? len) idx) eqn:E3; [|discriminate].
  intros H. inversion H. split; [|reflexivity]. apply andb_true_iff in E1. destruct E1 as [A B].
  apply Nat.leb_le in A. apply Nat.ltb_lt in B. split; [lia|]. split; [now apply strictly_increasing_sinc|].
  apply Forall_forall. intros i Hi. rewrite forallb_forall in E3. apply Nat.ltb_lt. now apply E3.
Qed.

(* the constructor's result, as a well-formed tree *)
Lemma sv_from_indices_wf branch len idx : sparse_accepts branch len idx -> idx <> [] ->
  exists h r nodes,
    sv_from_indices branch len idx =
      Some {| sv_length := len; sv_branch := branch; sv_nodes := nodes; sv_root := r; sv_levels := S h |} /\
    wf (vb branch nodes) h r idx.
Proof.
  intros (HB & Hs & Hf) Hne. unfold sv_from_indices.
  replace ((4 <=? branch) && (branch <? 256)) with true
    by (symmetry; apply andb_true_iff; split; [apply Nat.leb_le|apply Nat.ltb_lt]; lia).
  rewrite (sinc_strictly_increasing _ Hs).
  replace (forallb (fun i => i <? len) idx) with true.
  2:{ symmetry. apply forallb_forall. intros i Hi. rewrite Forall_forall in Hf. apply Nat.ltb_lt. exact (Hf i Hi). }
  destruct idx as [|i0 idx'] eqn:Ei; [contradiction|]. rewrite <- Ei in *. clear Ei.
  destruct (build_leaves_closed branch (S (length idx)) ltac:(lia) idx [] Hne ltac:(lia)) as (cs & Hch & Eb).
  rewrite Eb. cbn [length app].
  destruct (build_levels_spec branch idx ltac:(lia) (S (length idx)) 0 (map lastv cs) 0 cs (leaf_nodes branch cs))
    as (h' & r & nodes' & El & Hw).
  - now rewrite Nat.pow_1_r.
  - pose proof (chunked_count_le _ _ _ Hch). lia.
  - exact (leaves_wf branch [] idx cs Hch).
  - rewrite firstn_map. now rewrite removelast_firstn_pred.
  - rewrite El. exists h', r, nodes'. split; [reflexivity|exact Hw].
Qed.

Lemma bv_select_zero b : bv_select b 0 = Some 0.
Proof. unfold bv_select. destruct b; reflexivity. Qed.

Theorem sparse_is_the_bit_list branch len idx : sparse_accepts branch len idx ->
  exists v, sv_from_indices branch len idx = Some v /\
    (forall x, sv_access v x = Ok (bv_access (bits_of_indices len idx) x)) /\
    (forall x, sv_rank v x = Ok (bv_rank (bits_of_indices len idx) x)) /\
    (forall k, sv_select v k = bv_select (bits_of_indices len idx) k).
Proof.
  intros Hacc. pose proof Hacc as (HB & Hs & Hf).
  destruct idx as [|i0 idx'] eqn:Ei.
  - (* no set bits: an empty tree of zero levels *)
    exists {| sv_length := len; sv_branch := branch; sv_nodes := []; sv_root := 0; sv_levels := 0 |}.
    split.
    { unfold sv_from_indices.
      replace ((4 <=? branch) && (branch <? 256)) with true
        by (symmetry; apply andb_true_iff; split; [apply Nat.leb_le|apply Nat.ltb_lt]; lia).
      reflexivity. }
    split; [|split].
    + intros x. unfold sv_access, sv_access_rank. cbn [sv_length sv_levels].
      destruct (Nat.leb_spec len x) as [Hx|Hx].
      * f_equal. symmetry. apply nth_error_None. now rewrite bits_of_indices_length.
      * replace (len <? x) with false by (symmetry; apply Nat.ltb_ge; lia).
        cbn. now rewrite access_of_indices by lia.
    + intros x. unfold sv_rank, sv_access_rank. cbn [sv_length sv_levels].
      destruct (Nat.ltb_spec len x) as [Hx|Hx].
      * now rewrite rank_of_indices_none.
      * cbn. now rewrite (rank_of_indices len [] Hs x Hx).
    + intros [|k]; [now rewrite bv_select_zero|]. cbn. symmetry. apply (select_of_indices_none len [] Hs Hf). cbn. lia.
  - rewrite <- Ei in *. assert (Hne : idx <> []) by (rewrite Ei; discriminate). clear Ei.
    destruct (sv_from_indices_wf branch len idx Hacc Hne) as (h & r & nodes & E & Hw).
    set (v := {| sv_length := len; sv_branch := branch; sv_nodes := nodes; sv_root := r; sv_levels := S h |}) in *.
    assert (Hwv : wf v h r idx) by (eapply wf_mono; [| |exact Hw]; [reflexivity|auto]).
    assert (Hsk : skip_factors v = skip_factors_from (sv_branch v) h).
    { unfold skip_factors. cbn [sv_levels v]. now replace (S h - 1) with h by lia. }
    assert (HBv : 3 <= sv_branch v) by (cbn; lia).
    exists v. split; [exact E|]. split; [|split].
    + intros x. unfold sv_access, sv_access_rank. cbn [sv_length sv_levels sv_root v]. fold v.
      destruct (Nat.leb_spec len x) as [Hx|Hx].
      * f_equal. symmetry. apply nth_error_None. now rewrite bits_of_indices_length.
      * replace (len <? x) with false by (symmetry; apply Nat.ltb_ge; lia).
        replace (S h =? 0) with false by reflexivity.
        rewrite Hsk, (descend_rank_correct v HBv h r idx Hwv Hs 0 x). cbn.
        now rewrite access_of_indices by lia.
    + intros x. unfold sv_rank, sv_access_rank. cbn [sv_length sv_levels sv_root v]. fold v.
      destruct (Nat.ltb_spec len x) as [Hx|Hx].
      * now rewrite rank_of_indices_none.
      * replace (S h =? 0) with false by reflexivity.
        rewrite Hsk, (descend_rank_correct v HBv h r idx Hwv Hs 0 x). cbn.
        now rewrite (rank_of_indices len idx Hs x Hx).
    + intros [|k]; [now rewrite bv_select_zero|]. unfold sv_select. cbn [sv_levels sv_root v]. fold v.
      replace (S h =? 0) with false by reflexivity.
      rewrite Hsk, (descend_select_correct v HBv h r idx Hwv Hs k).
      destruct (Nat.ltb_spec k (length idx)) as [Hk|Hk].
      * rewrite (select_of_indices len idx Hs Hf (S k)) by lia. now replace (S k - 1) with k by lia.
      * now rewrite (select_of_indices_none len idx Hs Hf (S k)) by lia.
Qed.

(* the constructor refuses exactly the calls the specification refuses *)
Theorem sparse_refuses_alike branch len idx : from_indices branch len idx = None -> sv_from_indices branch len idx = None.
Proof.
  unfold from_indices, sv_from_indices. destruct ((4 <=? branch) && (branch <? 256)); [|reflexivity].
  destruct (strictly_increasing idx); [|reflexivity].
  destruct (forallb (fun i => i <? len) idx); [discriminate|reflexivity].
Qed.
