(* Scrunch/ProofsSuffix.v — the suffix array as THE sorted permutation of the suffixes:
   lexicographic order, insertion sort is correct, the sorted permutation is unique, inverse
   permutation, psi. *)
From Coq Require Import Arith List Bool Lia Sorted Permutation.
From Blue Require Import Scrunch.ModelBits Scrunch.Model Scrunch.ProofsBits Scrunch.ProofsSorted.
Import ListNotations.

Arguments Nat.sub : simpl never.
Arguments Nat.div : simpl never.
Arguments Nat.modulo : simpl never.
Arguments Nat.leb : simpl never.
Arguments Nat.ltb : simpl never.
Arguments Nat.eqb : simpl never.

(* ------------------------------------------------------------------ lexicographic order *)
Lemma lex_ltb_irrefl a : lex_ltb a a = false.
Proof.
  induction a as [|x a IH]; [reflexivity|]. cbn [lex_ltb].
  destruct (Nat.ltb_spec x x); [lia|exact IH].
Qed.

Lemma lex_ltb_cons_same x a b : lex_ltb (x :: a) (x :: b) = lex_ltb a b.
Proof. cbn [lex_ltb]. destruct (Nat.ltb_spec x x); [lia|reflexivity]. Qed.

Lemma lex_ltb_cons_lt x y a b : x < y -> lex_ltb (x :: a) (y :: b) = true.
Proof. intros H. cbn [lex_ltb]. destruct (Nat.ltb_spec x y); [reflexivity|lia]. Qed.

Lemma lex_ltb_cons_gt x y a b : y < x -> lex_ltb (x :: a) (y :: b) = false.
Proof.
  intros H. cbn [lex_ltb]. destruct (Nat.ltb_spec x y); [lia|].
  destruct (Nat.ltb_spec y x); [reflexivity|lia].
Qed.

Lemma lex_ltb_head_le x y a b : lex_ltb (x :: a) (y :: b) = true -> x <= y.
Proof.
  intros H. destruct (Nat.le_gt_cases x y); [assumption|]. rewrite lex_ltb_cons_gt in H by assumption. discriminate.
Qed.

Lemma lex_ltb_nil_r a : lex_ltb a [] = false.
Proof. destruct a; reflexivity. Qed.

Lemma lex_ltb_trans a : forall b c, lex_ltb a b = true -> lex_ltb b c = true -> lex_ltb a c = true.
Proof.
  induction a as [|x a IH]; intros b c H1 H2.
  - destruct c as [|z c]; [rewrite lex_ltb_nil_r in H2; discriminate|reflexivity].
  - destruct b as [|y b]; [rewrite lex_ltb_nil_r in H1; discriminate|].
    destruct c as [|z c]; [rewrite lex_ltb_nil_r in H2; discriminate|].
    pose proof (lex_ltb_head_le _ _ _ _ H1). pose proof (lex_ltb_head_le _ _ _ _ H2).
    destruct (Nat.eq_dec x z) as [->|Hne].
    + assert (y = z) by lia. subst. rewrite lex_ltb_cons_same in *. eapply IH; eauto.
    + apply lex_ltb_cons_lt. lia.
Qed.

Lemma lex_ltb_asym a b : lex_ltb a b = true -> lex_ltb b a = false.
Proof.
  intros H. destruct (lex_ltb b a) eqn:E; [|reflexivity].
  pose proof (lex_ltb_trans _ _ _ H E). rewrite lex_ltb_irrefl in H0. discriminate.
Qed.

Lemma lex_ltb_total a : forall b, a <> b -> lex_ltb a b = true \/ lex_ltb b a = true.
Proof.
  induction a as [|x a IH]; intros [|y b] H; [contradiction|now left|now right|].
  destruct (Nat.lt_trichotomy x y) as [Hl|[->|Hg]].
  - left. now apply lex_ltb_cons_lt.
  - rewrite !lex_ltb_cons_same. apply IH. congruence.
  - right. now apply lex_ltb_cons_lt.
Qed.

(* ------------------------------------------------------------------ suffixes *)
Definition suf (T : list nat) (i : nat) : list nat := skipn i T.

Lemma suf_length T i : length (suf T i) = length T - i.
Proof. unfold suf. apply skipn_length. Qed.

Lemma suf_inj T i j : i <= length T -> j <= length T -> suf T i = suf T j -> i = j.
Proof. intros Hi Hj E. apply (f_equal (@length nat)) in E. rewrite !suf_length in E. lia. Qed.

Lemma suf_cons T i : i < length T -> suf T i = nth i T 0 :: suf T (S i).
Proof.
  unfold suf. revert i. induction T as [|x S0 IH]; intros i H; [cbn in H; lia|].
  destruct i as [|i]; [reflexivity|]. cbn [skipn nth]. apply IH. cbn in H. lia.
Qed.

(* the order of the suffix array *)
Definition sufltb (T : list nat) (i j : nat) : bool := lex_ltb (suf T i) (suf T j).

Definition is_suffix_array (T sa : list nat) : Prop :=
  Permutation sa (seq 0 (length T)) /\ StronglySorted (fun i j => sufltb T i j = true) sa.

(* ------------------------------------------------------------------ insertion sort *)
Section InsertionSort.
  Variable T : list nat.
  Let R := fun i j => sufltb T i j = true.

  Lemma insert_suf_perm i l : Permutation (insert_suf T i l) (i :: l).
  Proof.
    induction l as [|j l IH]; cbn [insert_suf]; [reflexivity|].
    destruct (lex_ltb (skipn i T) (skipn j T)); [reflexivity|].
    rewrite IH. apply perm_swap.
  Qed.

  Lemma insert_suf_sorted i l : i <= length T -> Forall (fun j => j <= length T) l -> ~ In i l ->
    StronglySorted R l -> StronglySorted R (insert_suf T i l).
  Proof.
    intros Hi Hl Hnin Hs. induction Hs as [|j l Hs IH Hf]; cbn [insert_suf].
    - constructor; constructor.
    - fold (suf T i) (suf T j). destruct (lex_ltb (suf T i) (suf T j)) eqn:E.
      + constructor; [constructor; assumption|]. constructor; [exact E|].
        eapply Forall_impl; [|exact Hf]. intros k Hk. unfold R, sufltb in *. eapply lex_ltb_trans; eauto.
      + inversion Hl; subst.
        assert (Hji : R j i).
        { unfold R, sufltb. destruct (lex_ltb_total (suf T i) (suf T j)) as [H|H]; [|congruence|exact H].
          intros Heq. apply suf_inj in Heq; [|assumption|assumption]. subst. apply Hnin. now left. }
        constructor.
        * apply IH; [assumption|]. intros Hin. apply Hnin. now right.
        * eapply Permutation_Forall; [symmetry; apply insert_suf_perm|]. constructor; assumption.
  Qed.
End InsertionSort.


Lemma suffix_array_ok T : is_suffix_array T (suffix_array T).
Proof.
  unfold is_suffix_array, suffix_array.
  assert (G : forall l, NoDup l -> Forall (fun j => j <= length T) l ->
            Permutation (fold_right (insert_suf T) [] l) l /\
            StronglySorted (fun i j => sufltb T i j = true) (fold_right (insert_suf T) [] l)).
  { induction l as [|i l IH]; intros Hnd Hf; cbn [fold_right]; [split; [reflexivity|constructor]|].
    inversion Hnd; subst. inversion Hf; subst. destruct (IH H2 H4) as [P Srt]. split.
    - rewrite insert_suf_perm. now constructor.
    - apply insert_suf_sorted; [assumption| |intros Hin; apply H1; eapply Permutation_in; eauto|assumption].
      eapply Permutation_Forall; [symmetry; exact P|assumption]. }
  apply G; [apply seq_NoDup|]. apply Forall_forall. intros j Hj. apply in_seq in Hj. lia.
Qed.

(* a strict order has at most one sorted arrangement of a given multiset *)
Lemma sorted_perm_unique (R : nat -> nat -> Prop) :
  (forall x y, R x y -> R y x -> False) ->
  forall l1 l2, StronglySorted R l1 -> StronglySorted R l2 -> Permutation l1 l2 -> l1 = l2.
Proof.
  intros Hasym. induction l1 as [|x l1 IH]; intros l2 S1 S2 P.
  - apply Permutation_nil in P. now subst.
  - destruct l2 as [|y l2]; [symmetry in P; apply Permutation_nil in P; discriminate|].
    inversion S1 as [|? ? S1' F1]; subst. inversion S2 as [|? ? S2' F2]; subst.
    assert (x = y).
    { destruct (Nat.eq_dec x y) as [|Hne]; [assumption|]. exfalso.
      assert (Hx : In x (y :: l2)) by (eapply Permutation_in; [exact P|now left]).
      assert (Hy : In y (x :: l1)) by (eapply Permutation_in; [symmetry; exact P|now left]).
      destruct Hx as [Hx|Hx]; [congruence|]. destruct Hy as [Hy|Hy]; [congruence|].
      rewrite Forall_forall in F1, F2. exact (Hasym _ _ (F1 _ Hy) (F2 _ Hx)). }
    subst y. f_equal. apply IH; [assumption|assumption|]. eapply Permutation_cons_inv; eauto.
Qed.

(* SA-IS by interface: whatever computes a sorted permutation of the suffixes computes this one *)
Theorem suffix_array_unique T sa : is_suffix_array T sa -> sa = suffix_array T.
Proof.
  intros [P1 S1]. destruct (suffix_array_ok T) as [P2 S2].
  apply (sorted_perm_unique (fun i j => sufltb T i j = true)); [|assumption|assumption|].
  - intros x y H1 H2. unfold sufltb in *. rewrite (lex_ltb_asym _ _ H1) in H2. discriminate.
  - rewrite P1. now symmetry.
Qed.

(* ------------------------------------------------------------------ facts about a suffix array *)
Lemma StronglySorted_nth (R : nat -> nat -> Prop) l : StronglySorted R l ->
  forall i j, i < j -> j < length l -> R (nth i l 0) (nth j l 0).
Proof.
  induction 1 as [|x l Hs IH Hf]; intros i j Hij Hj; [cbn in Hj; lia|].
  destruct j as [|j]; [lia|]. cbn in Hj. destruct i as [|i]; cbn [nth].
  - rewrite Forall_forall in Hf. apply Hf, nth_In. lia.
  - apply IH; lia.
Qed.

Section SAFacts.
  Variables (T sa : list nat).
  Hypothesis Hsa : is_suffix_array T sa.
  Let m := length T.

  Lemma sa_length : length sa = m.
  Proof. destruct Hsa as [P _]. rewrite (Permutation_length P). apply seq_length. Qed.

  Lemma sa_In p : In p sa <-> p < m.
  Proof.
    destruct Hsa as [P _]. split; intros H.
    - apply (Permutation_in _ P) in H. apply in_seq in H. fold m in H. lia.
    - apply (Permutation_in _ (Permutation_sym P)). apply in_seq. fold m. lia.
  Qed.

  Lemma sa_lt i : i < m -> nth i sa 0 < m.
  Proof. intros H. apply sa_In, nth_In. now rewrite sa_length. Qed.

  Lemma sa_NoDup : NoDup sa.
  Proof. destruct Hsa as [P _]. eapply Permutation_NoDup; [symmetry; exact P|apply seq_NoDup]. Qed.

  Lemma sa_inj i j : i < m -> j < m -> nth i sa 0 = nth j sa 0 -> i = j.
  Proof.
    intros Hi Hj E. rewrite <- sa_length in Hi, Hj.
    exact (proj1 (NoDup_nth sa 0) sa_NoDup i j Hi Hj E).
  Qed.

  Lemma sa_surj p : p < m -> exists i, i < m /\ nth i sa 0 = p.
  Proof.
    intros H. apply sa_In in H. destruct (In_nth sa p 0 H) as (i & Hi & E).
    exists i. rewrite sa_length in Hi. now split.
  Qed.

  Lemma sa_sorted i j : i < j -> j < m -> sufltb T (nth i sa 0) (nth j sa 0) = true.
  Proof.
    intros Hij Hj. destruct Hsa as [_ Srt].
    apply (StronglySorted_nth _ _ Srt i j Hij). now rewrite sa_length.
  Qed.

  (* the order of the suffixes IS the order of their suffix-array positions *)
  Lemma sa_order i j : i < m -> j < m ->
    (sufltb T (nth i sa 0) (nth j sa 0) = true <-> i < j).
  Proof.
    intros Hi Hj. split.
    - intros H. destruct (Nat.lt_trichotomy i j) as [L|[E|G]]; [assumption| |].
      + subst. unfold sufltb in H. rewrite lex_ltb_irrefl in H. discriminate.
      + pose proof (sa_sorted j i G Hi) as H'. unfold sufltb in *. rewrite (lex_ltb_asym _ _ H) in H'. discriminate.
    - intros H. now apply sa_sorted.
  Qed.
End SAFacts.

(* ------------------------------------------------------------------ inverse permutation *)
Lemma set_nth_length {A} n (x : A) l : length (set_nth n x l) = length l.
Proof. revert n. induction l as [|a l IH]; intros [|n]; cbn; try reflexivity. now rewrite IH. Qed.

Lemma nth_set_nth_eq {A} n (x d : A) l : n < length l -> nth n (set_nth n x l) d = x.
Proof. revert n. induction l as [|a l IH]; intros [|n] H; cbn in *; try lia; [reflexivity|]. apply IH. lia. Qed.

Lemma nth_set_nth_neq {A} n k (x d : A) l : n <> k -> nth k (set_nth n x l) d = nth k l d.
Proof.
  revert n k. induction l as [|a l IH]; intros [|n] [|k] H; cbn; try reflexivity; try lia.
  apply IH. lia.
Qed.

Lemma inverse_fold_length ps (ix : list nat) :
  length (fold_left (fun ix '(i, xi) => set_nth xi i ix) ps ix) = length ix.
Proof.
  revert ix. induction ps as [|[i xi] ps IH]; intros ix; cbn [fold_left]; [reflexivity|].
  rewrite IH. apply set_nth_length.
Qed.

Lemma inverse_fold_spec (ps : list (nat * nat)) : NoDup (map snd ps) ->
  forall ix : list nat, Forall (fun p => snd p < length ix) ps ->
  forall i xi, In (i, xi) ps -> nth xi (fold_left (fun ix '(i, xi) => set_nth xi i ix) ps ix) 0 = i.
Proof.
  induction ps as [|[j xj] ps IH]; intros Hnd ix Hf i xi Hin; [destruct Hin|].
  cbn [fold_left]. cbn [map snd] in Hnd. inversion Hnd as [|? ? Hnin Hnd']; subst.
  inversion Hf as [|? ? Hj Hf']; subst. cbn [snd] in Hj.
  destruct Hin as [E|Hin].
  - injection E as -> ->.
    (* later writes go elsewhere *)
    assert (G : forall ps ix, ~ In xi (map snd ps) ->
                nth xi (fold_left (fun ix '(i, xi) => set_nth xi i ix) ps ix) 0 = nth xi ix 0).
    { clear. induction ps as [|[a b] ps IH]; intros ix H; cbn [fold_left]; [reflexivity|].
      cbn [map snd] in H. rewrite IH by (intros Hc; apply H; now right).
      apply nth_set_nth_neq. intros ->. apply H. now left. }
    rewrite G by assumption. now apply nth_set_nth_eq.
  - apply IH; [assumption| |assumption].
    eapply Forall_impl; [|exact Hf']. intros p Hp. now rewrite set_nth_length.
Qed.

Lemma map_snd_combine_aux (x : list nat) : map snd (combine (seq 0 (length x)) x) = x.
Proof.
  generalize 0. induction x as [|a x IH]; intros s; cbn; [reflexivity|]. now rewrite IH.
Qed.

Lemma inverse_length x : length (inverse x) = length x.
Proof. unfold inverse. rewrite inverse_fold_length. apply repeat_length. Qed.

Lemma inverse_spec x : NoDup x -> Forall (fun v => v < length x) x ->
  forall i, i < length x -> nth (nth i x 0) (inverse x) 0 = i.
Proof.
  intros Hnd Hf i Hi. unfold inverse.
  apply (inverse_fold_spec (combine (seq 0 (length x)) x)).
  - rewrite map_snd_combine_aux. exact Hnd.
  - apply Forall_forall. intros [a b] Hin. cbn [snd]. rewrite repeat_length.
    apply in_combine_r in Hin. rewrite Forall_forall in Hf. now apply Hf.
  - replace (i, nth i x 0) with (nth i (combine (seq 0 (length x)) x) (0, 0)).
    + apply nth_In. rewrite combine_length, seq_length. lia.
    + rewrite combine_nth by (now rewrite seq_length). now rewrite seq_nth.
Qed.

(* ------------------------------------------------------------------ isa, psi over a terminated string *)
Section Index.
  Variables (T sa : list nat) (n : nat).
  Hypothesis Hsa : is_suffix_array T sa.
  Hypothesis HT : length T = S n.
  Hypothesis Hterm : nth n T 0 = 0.
  Hypothesis Hpos : forall p, p < n -> 0 < nth p T 0.
  (* uniform signatures: every lemma of this section takes all four hypotheses *)
  Local Set Default Proof Using "Hsa HT Hterm Hpos".

  Let isa := inverse sa.
  Let psi := psi_of sa isa.

  Lemma ix_sa_length : length sa = S n.
  Proof. rewrite (sa_length T sa Hsa). exact HT. Qed.

  Lemma ix_sa_lt i : i < S n -> nth i sa 0 < S n.
  Proof. intros H. rewrite <- HT. apply (sa_lt T sa Hsa). now rewrite HT. Qed.

  Lemma ix_isa_length : length isa = S n.
  Proof. unfold isa. rewrite inverse_length. exact ix_sa_length. Qed.

  Lemma ix_isa_sa i : i < S n -> nth (nth i sa 0) isa 0 = i.
  Proof.
    intros H. unfold isa. apply inverse_spec.
    - exact (sa_NoDup T sa Hsa).
    - apply Forall_forall. intros v Hv. apply (sa_In T sa Hsa) in Hv. rewrite ix_sa_length, <- HT. exact Hv.
    - now rewrite ix_sa_length.
  Qed.

  Lemma ix_isa_lt p : p < S n -> nth p isa 0 < S n.
  Proof.
    intros H. destruct (sa_surj T sa Hsa p ltac:(now rewrite HT)) as (i & Hi & E).
    rewrite HT in Hi. rewrite <- E, ix_isa_sa by exact Hi. exact Hi.
  Qed.

  Lemma ix_sa_isa p : p < S n -> nth (nth p isa 0) sa 0 = p.
  Proof.
    intros H. destruct (sa_surj T sa Hsa p ltac:(now rewrite HT)) as (i & Hi & E).
    rewrite HT in Hi. now rewrite <- E, ix_isa_sa by exact Hi.
  Qed.

  (* the end marker's suffix is the least: suffix-array position 0 *)
  Lemma ix_sa_zero : nth 0 sa 0 = n.
  Proof.
    pose proof (ix_sa_isa n ltac:(lia)) as E. set (i0 := nth n isa 0) in *.
    assert (Hi0 : i0 < S n) by (apply ix_isa_lt; lia).
    destruct (Nat.eq_dec i0 0) as [Z|NZ]; [now rewrite Z in E|]. exfalso.
    pose proof (sa_sorted T sa Hsa 0 i0 ltac:(lia) ltac:(now rewrite HT)) as L.
    rewrite E in L. unfold sufltb in L.
    set (q := nth 0 sa 0) in *.
    assert (Hq : q < S n) by (apply ix_sa_lt; lia).
    assert (Hqn : q <> n).
    { intros Heq. apply NZ. symmetry. apply (sa_inj T sa Hsa); [rewrite HT; lia|rewrite HT; lia|].
      fold q. now rewrite E. }
    rewrite (suf_cons T q) in L by lia. rewrite (suf_cons T n) in L by lia. rewrite Hterm in L.
    rewrite lex_ltb_cons_gt in L; [discriminate|]. apply Hpos. lia.
  Qed.

  Lemma ix_psi_length : length psi = S n.
  Proof. unfold psi, psi_of. rewrite map_length. exact ix_sa_length. Qed.

  Lemma ix_psi_nth i : i < S n ->
    nth i psi 0 = nth (if nth i sa 0 + 1 =? S n then 0 else nth i sa 0 + 1) isa 0.
  Proof.
    intros H. unfold psi, psi_of.
    rewrite (nth_indep _ 0 ((fun pos => nth (if pos + 1 =? length isa then 0 else pos + 1) isa 0) 0))
      by (rewrite map_length, ix_sa_length; exact H).
    rewrite (map_nth (fun pos => nth (if pos + 1 =? length isa then 0 else pos + 1) isa 0) sa 0 i).
    now rewrite ix_isa_length.
  Qed.

  Lemma ix_psi_lt i : i < S n -> nth i psi 0 < S n.
  Proof.
    intros H. rewrite ix_psi_nth by exact H. pose proof (ix_sa_lt i H).
    destruct (Nat.eqb_spec (nth i sa 0 + 1) (S n)); apply ix_isa_lt; lia.
  Qed.

  (* psi is the successor in text order *)
  Lemma ix_sa_psi i : i < S n -> nth i sa 0 < n -> nth (nth i psi 0) sa 0 = S (nth i sa 0).
  Proof.
    intros H Hlt. rewrite ix_psi_nth by exact H.
    destruct (Nat.eqb_spec (nth i sa 0 + 1) (S n)); [lia|]. rewrite ix_sa_isa by lia. lia.
  Qed.

  Lemma ix_psi_zero : nth 0 psi 0 = nth 0 isa 0.
  Proof.
    rewrite ix_psi_nth by lia. rewrite ix_sa_zero.
    destruct (Nat.eqb_spec (n + 1) (S n)); [reflexivity|lia].
  Qed.

  (* first symbol of the suffix at suffix-array position i *)
  Definition fs (i : nat) : nat := nth (nth i sa 0) T 0.

  Lemma fs_mono i j : i <= j -> j < S n -> fs i <= fs j.
  Proof.
    intros Hij Hj. destruct (Nat.eq_dec i j) as [->|Hne]; [lia|].
    pose proof (sa_sorted T sa Hsa i j ltac:(lia) ltac:(now rewrite HT)) as L. unfold sufltb in L.
    pose proof (ix_sa_lt i ltac:(lia)). pose proof (ix_sa_lt j Hj).
    rewrite (suf_cons T (nth i sa 0)), (suf_cons T (nth j sa 0)) in L by lia.
    exact (lex_ltb_head_le _ _ _ _ L).
  Qed.

  Lemma fs_zero_iff i : i < S n -> (fs i = 0 <-> i = 0).
  Proof.
    intros H. unfold fs. split.
    - intros Z. pose proof (ix_sa_lt i H) as L.
      destruct (Nat.eq_dec (nth i sa 0) n) as [E|NE].
      + apply (sa_inj T sa Hsa); [now rewrite HT|rewrite HT; lia|]. now rewrite ix_sa_zero.
      + specialize (Hpos (nth i sa 0) ltac:(lia)). lia.
    - intros ->. now rewrite ix_sa_zero.
  Qed.

  (* within the suffixes that share a first symbol, psi is strictly increasing *)
  Lemma psi_mono_bucket i j : i < j -> j < S n -> 0 < i -> fs i = fs j -> nth i psi 0 < nth j psi 0.
  Proof.
    intros Hij Hj Hi0 Hfs.
    assert (Hi : i < S n) by lia.
    assert (Li : nth i sa 0 < n).
    { pose proof (ix_sa_lt i Hi). destruct (Nat.eq_dec (nth i sa 0) n) as [E|]; [|lia].
      exfalso. assert (i = 0); [|lia]. apply (fs_zero_iff i Hi). unfold fs. now rewrite E. }
    assert (Lj : nth j sa 0 < n).
    { pose proof (ix_sa_lt j Hj). destruct (Nat.eq_dec (nth j sa 0) n) as [E|]; [|lia].
      exfalso. assert (j = 0); [|lia]. apply (fs_zero_iff j Hj). unfold fs. now rewrite E. }
    pose proof (sa_sorted T sa Hsa i j Hij ltac:(now rewrite HT)) as L. unfold sufltb in L.
    rewrite (suf_cons T (nth i sa 0)), (suf_cons T (nth j sa 0)) in L by lia.
    unfold fs in Hfs. rewrite Hfs, lex_ltb_cons_same in L.
    rewrite <- (ix_sa_psi i Hi Li), <- (ix_sa_psi j Hj Lj) in L.
    apply (sa_order T sa Hsa); [rewrite HT; now apply ix_psi_lt|rewrite HT; now apply ix_psi_lt|exact L].
  Qed.
End Index.
