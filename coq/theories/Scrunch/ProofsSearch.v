(* Scrunch/ProofsSearch.v — backward search over psi finds exactly the suffixes prefixed by the
   needle; search/count equal the plain scan.  Stated over any Psi implementation that meets
   `psi_ok` (lookup = the psi array, constrain = the sub-range of a bucket whose successors fall
   into the target range); ReferencePsi is shown to meet it here, WaveletTreePsi in ProofsWT.v. *)
From Coq Require Import Arith NArith List Bool Lia Sorted Permutation.
From Blue Require Import Scrunch.ModelBits Scrunch.Model Scrunch.ProofsBits Scrunch.ProofsSorted
  Scrunch.ProofsSuffix.
Import ListNotations.

Arguments Nat.sub : simpl never.
Arguments Nat.div : simpl never.
Arguments Nat.modulo : simpl never.
Arguments Nat.leb : simpl never.
Arguments Nat.ltb : simpl never.
Arguments Nat.eqb : simpl never.

(* ------------------------------------------------------------------ what an index is *)
(* text, its alphabet `sg`, the translated string T = sigma(text) ++ [0], its suffix array *)
Record index_ok (text : list N) (sg : sigma) (T sa : list nat) : Prop := {
  io_sa : is_suffix_array T sa;
  io_len : length T = S (length text);
  io_term : nth (length text) T 0 = 0;
  io_c2s : forall p, p < length text ->
             char_to_sigma sg (nth p text 0%N) = Some (nth p T 0) /\ 0 < nth p T 0;
  io_c2s_inj : forall t c p, char_to_sigma sg t = Some c -> p < length text ->
             (nth p T 0 = c <-> nth p text 0%N = t);
  io_c2s_none : forall t, char_to_sigma sg t = None -> ~ In t text;
  io_range : forall t c, char_to_sigma sg t = Some c ->
             exists s e, sa_range_for_sigma sg c = Ok (s, e) /\ 1 <= s /\ s <= e /\ e <= length text /\
                         forall i, i < S (length text) -> (s <= i <= e <-> fs T sa i = c);
  io_sigma : forall i, i < S (length text) -> sa_index_to_sigma sg i = Some (fs T sa i);
  io_s2t : forall i, 0 < i -> i < S (length text) ->
             sa_index_to_t sg i = Ok (nth (nth i sa 0) text 0%N)
}.

Definition is_bucket (T sa : list nat) (n c s e : nat) : Prop :=
  1 <= s /\ s <= e /\ e <= n /\ forall i, i < S n -> (s <= i <= e <-> fs T sa i = c).

(* what backward search needs from a Psi implementation *)
Record psi_ok (T sa psi : list nat) (n : nat) (P : psi_ops) : Prop := {
  po_len : p_len P = S n;
  po_lookup : forall i, i < S n -> p_lookup P i = Ok (nth i psi 0);
  po_empty : forall into, exists r', p_constrain P (1, 0) into = Ok r' /\ snd r' < fst r';
  po_constrain : forall c s e into, is_bucket T sa n c s e ->
             exists lo hi, p_constrain P (s, e) into = Ok (lo, hi) /\ s <= lo /\ hi <= e /\
               forall i, s <= i <= e -> (lo <= i <= hi <-> fst into <= nth i psi 0 <= snd into)
}.

(* ------------------------------------------------------------------ prefixes and the plain scan *)
Lemma prefixb_skipn_cons t w text p :
  prefixb (t :: w) (skipn p text) = true <->
  p < length text /\ nth p text 0%N = t /\ prefixb w (skipn (S p) text) = true.
Proof.
  revert p. induction text as [|x text IH]; intros p.
  - rewrite skipn_nil. cbn. split; [discriminate|]. intros (H & _). lia.
  - destruct p as [|p].
    + cbn [skipn prefixb nth length]. rewrite andb_true_iff, N.eqb_eq. split.
      * intros (E & H). subst. repeat split; [lia|assumption].
      * intros (_ & E & H). now subst.
    + cbn [skipn nth length]. rewrite IH. cbn [skipn]. split; intros (H1 & H2 & H3); repeat split; try assumption; lia.
Qed.

Lemma prefixb_nil_r w : prefixb w [] = true -> w = [].
Proof. destruct w; [reflexivity|discriminate]. Qed.

(* ------------------------------------------------------------------ ReferencePsi meets psi_ok *)
Lemma nth_firstn_aux {A} (l : list A) k i d : i < k -> nth i (firstn k l) d = nth i l d.
Proof.
  revert k i. induction l as [|x l IH]; intros k i H; [now rewrite firstn_nil|].
  destruct k as [|k]; [lia|]. destruct i as [|i]; [reflexivity|]. cbn. apply IH. lia.
Qed.

Lemma skipn_firstn_nth (l : list nat) lo k i : i < k -> lo + k <= length l ->
  nth i (firstn k (skipn lo l)) 0 = nth (lo + i) l 0.
Proof.
  intros Hi Hl. rewrite nth_firstn_aux by exact Hi. revert l Hl. induction lo as [|lo IH]; intros l Hl; [reflexivity|].
  destruct l as [|x l]; [cbn in Hl; lia|]. cbn [skipn Nat.add nth]. apply IH. cbn in Hl. lia.
Qed.

Lemma sinc_of_nth l : (forall i j, i < j -> j < length l -> nth i l 0 < nth j l 0) -> sinc l.
Proof.
  induction l as [|x l IH]; intros H; [constructor|]. constructor.
  - apply IH. intros i j Hij Hj. apply (H (S i) (S j)); cbn; lia.
  - apply Forall_forall. intros y Hy. destruct (In_nth l y 0 Hy) as (k & Hk & <-).
    apply (H 0 (S k)); cbn; lia.
Qed.

Section RefPsi.
  Variables (text : list N) (sg : sigma) (T sa : list nat).
  Hypothesis Hio : index_ok text sg T sa.
  Let n := length text.
  Let isa := inverse sa.
  Let psi := psi_of sa isa.

  Let Hsa := io_sa _ _ _ _ Hio.
  Let HT : length T = S n := io_len _ _ _ _ Hio.
  Let Hterm : nth n T 0 = 0 := io_term _ _ _ _ Hio.

  Lemma io_pos p : p < n -> 0 < nth p T 0.
  Proof. intros H. exact (proj2 (io_c2s _ _ _ _ Hio p H)). Qed.

  Lemma bucket_slice c s e : is_bucket T sa n c s e ->
    exists sl, slice_incl psi s e = Ok sl /\ length sl = e + 1 - s /\ sinc sl /\
               forall k, k < e + 1 - s -> nth k sl 0 = nth (s + k) psi 0.
  Proof.
    intros (B1 & B2 & B3 & B4).
    pose proof (ix_psi_length T sa n Hsa HT Hterm io_pos) as Lp. fold isa psi in Lp.
    unfold slice_incl. destruct (Nat.leb_spec s (e + 1)); [|lia].
    destruct (Nat.leb_spec (e + 1) (length psi)); [|lia]. cbn [andb].
    eexists. split; [reflexivity|].
    assert (Hlen : length (firstn (e + 1 - s) (skipn s psi)) = e + 1 - s).
    { rewrite firstn_length, skipn_length. lia. }
    assert (Hnth : forall k, k < e + 1 - s -> nth k (firstn (e + 1 - s) (skipn s psi)) 0 = nth (s + k) psi 0).
    { intros k Hk. apply skipn_firstn_nth; lia. }
    split; [exact Hlen|]. split; [|exact Hnth].
    apply sinc_of_nth. rewrite Hlen. intros i j Hij Hj. rewrite !Hnth by lia.
    apply (psi_mono_bucket T sa n Hsa HT Hterm io_pos); try lia.
    assert (fs T sa (s + i) = c) by (apply B4; lia).
    assert (fs T sa (s + j) = c) by (apply B4; lia). congruence.
  Qed.

  Lemma rpsi_psi_ok : psi_ok T sa psi n (rpsi_ops sg psi).
  Proof.
    pose proof (ix_psi_length T sa n Hsa HT Hterm io_pos) as Lp. fold isa psi in Lp.
    constructor.
    - exact Lp.
    - intros i Hi. cbn. unfold rpsi_lookup. rewrite (nth_error_nth' psi 0) by lia. reflexivity.
    - intros into. cbn. unfold rpsi_constrain, slice_incl. cbn [fst snd].
      destruct (Nat.leb_spec 1 (0 + 1)); [|lia]. destruct (Nat.leb_spec (0 + 1) (length psi)); [|lia].
      cbn [andb rbind firstn]. replace (0 + 1 - 1) with 0 by lia. cbn [firstn].
      unfold count_lt. cbn [filter length]. cbn [Nat.add].
      destruct (Nat.eqb_spec 1 0); [lia|]. replace (1 - 1) with 0 by lia.
      destruct (Nat.ltb_spec 0 1); [|lia]. cbn [orb]. eexists. split; [reflexivity|cbn; lia].
    - intros c s e [a b] Hb. destruct (bucket_slice c s e Hb) as (sl & Hsl & Ll & Ssl & Nsl).
      destruct Hb as (B1 & B2 & B3 & B4).
      cbn [rpsi_ops p_constrain]. unfold rpsi_constrain. cbn [fst snd]. rewrite Hsl. cbn [rbind].
      pose proof (count_lt_le_length sl a) as Ca. pose proof (count_lt_le_length sl (b + 1)) as Cb.
      destruct (Nat.eqb_spec (count_lt sl (b + 1) + s) 0); [lia|].
      set (lo := count_lt sl a + s). set (hi := count_lt sl (b + 1) + s - 1).
      assert (Hcheck : (hi <? lo) || match sa_index_to_sigma sg lo, sa_index_to_sigma sg hi with
                                    | Some x, Some y => x =? y | None, None => true | _, _ => false end = true).
      { destruct (Nat.ltb_spec hi lo); [reflexivity|]. cbn [orb].
        rewrite (io_sigma _ _ _ _ Hio lo) by (unfold lo in *; fold n; lia).
        rewrite (io_sigma _ _ _ _ Hio hi) by (unfold hi in *; fold n; lia).
        assert (fs T sa lo = c) by (apply B4; unfold lo, hi in *; lia).
        assert (fs T sa hi = c) by (apply B4; unfold lo, hi in *; lia).
        apply Nat.eqb_eq. congruence. }
      rewrite Hcheck. exists lo, hi. split; [reflexivity|]. split; [unfold lo; lia|]. split; [unfold hi; lia|].
      intros i Hi. cbn [fst snd].
      assert (Ek : nth (i - s) sl 0 = nth i psi 0) by (rewrite Nsl by lia; f_equal; lia).
      pose proof (count_lt_nth sl Ssl (i - s) a ltac:(lia)) as Qa.
      pose proof (count_lt_nth sl Ssl (i - s) (b + 1) ltac:(lia)) as Qb.
      rewrite Ek in Qa, Qb. unfold lo, hi. lia.
  Qed.
End RefPsi.

(* ------------------------------------------------------------------ backward search *)
Section BackwardSearch.
  Variables (text : list N) (sg : sigma) (T sa : list nat).
  Hypothesis Hio : index_ok text sg T sa.
  Let n := length text.
  Let isa := inverse sa.
  Let psi := psi_of sa isa.
  Variable d : doc.
  Hypothesis Hsg : d_sigma d = sg.
  Hypothesis Hpsi : psi_ok T sa psi n (d_psi d).

  Let Hsa := io_sa _ _ _ _ Hio.
  Let HT : length T = S n := io_len _ _ _ _ Hio.
  Let Hterm : nth n T 0 = 0 := io_term _ _ _ _ Hio.
  Let Hpos := io_pos text sg T sa Hio.

  (* suffix-array position i holds a suffix of the text proper that starts with w *)
  Definition hit (w : list N) (i : nat) : Prop :=
    nth i sa 0 < n /\ prefixb w (skipn (nth i sa 0) text) = true.

  Definition exact_range (r : nat * nat) (w : list N) : Prop :=
    (fst r <= snd r -> snd r <= n) /\
    forall i, i < S n -> (fst r <= i <= snd r <-> hit w i).

  Lemma fs_text i t c : i < S n -> char_to_sigma sg t = Some c ->
    (fs T sa i = c <-> nth i sa 0 < n /\ nth (nth i sa 0) text 0%N = t).
  Proof.
    intros Hi Hc. unfold fs. pose proof (ix_sa_lt T sa n Hsa HT Hterm Hpos i Hi) as L.
    destruct (Nat.eq_dec (nth i sa 0) n) as [E|NE].
    - rewrite E, Hterm. split.
      + intros <-. (* c = 0 impossible: c is the symbol of some text position *)
        exfalso. destruct (io_range _ _ _ _ Hio t 0 Hc) as (s & e & _ & S1 & S2 & S3 & S4).
        assert (Hs : fs T sa s = 0) by (apply S4; fold n; lia).
        apply (fs_zero_iff T sa n Hsa HT Hterm Hpos s ltac:(fold n in S3; lia)) in Hs. lia.
      + intros (H & _). lia.
    - rewrite (io_c2s_inj _ _ _ _ Hio t c (nth i sa 0) Hc ltac:(fold n; lia)). split; [intros; split; [lia|assumption]|tauto].
  Qed.

  Lemma range_single t : exists r, sa_range_for sg t = Ok r /\ exact_range r [t] /\
    (snd r < fst r -> r = (1, 0)) /\
    (fst r <= snd r -> exists c, is_bucket T sa n c (fst r) (snd r) /\ char_to_sigma sg t = Some c).
  Proof.
    unfold sa_range_for. destruct (char_to_sigma sg t) as [c|] eqn:Hc.
    - destruct (io_range _ _ _ _ Hio t c Hc) as (s & e & R & S1 & S2 & S3 & S4). fold n in S3, S4.
      exists (s, e). split; [exact R|]. split; [|split].
      + split; [cbn [fst snd]; lia|].
        intros i Hi. cbn [fst snd]. rewrite (S4 i Hi), (fs_text i t c Hi Hc). unfold hit.
        split.
        * intros (L & E). split; [exact L|]. apply prefixb_skipn_cons. fold n. repeat split; try assumption.
        * intros (L & Pf). apply prefixb_skipn_cons in Pf. destruct Pf as (_ & E & _). now split.
      + cbn [fst snd]. lia.
      + intros _. exists c. split; [|reflexivity]. cbn [fst snd]. repeat split; try lia; apply S4; assumption.
    - exists (1, 0). split; [reflexivity|]. split; [|split].
      + split; [cbn [fst snd]; lia|].
        intros i Hi. cbn [fst snd]. split; [lia|]. intros (L & Pf).
        apply prefixb_skipn_cons in Pf. destruct Pf as (Lp & E & _).
        exfalso. apply (io_c2s_none _ _ _ _ Hio t Hc). rewrite <- E. apply nth_In. exact Lp.
      + reflexivity.
      + cbn [fst snd]. lia.
  Qed.

  (* one step of the loop: prepend t to a non-empty pattern w *)
  Lemma step_exact t w r : w <> [] -> exact_range r w ->
    exists r', (do r0 <- sa_range_for sg t; p_constrain (d_psi d) r0 r) = Ok r' /\ exact_range r' (t :: w).
  Proof.
    intros Hw [Hrb Hr]. destruct (range_single t) as (r0 & R0 & [_ X0] & E0 & B0). rewrite R0. cbn [rbind].
    destruct (Nat.lt_ge_cases (snd r0) (fst r0)) as [Hempty|Hne].
    - rewrite (E0 Hempty). destruct (po_empty _ _ _ _ _ Hpsi r) as (r' & C & Er'). exists r'. split; [exact C|].
      split; [lia|].
      intros i Hi. split; [lia|]. intros (L & Pf).
      apply prefixb_skipn_cons in Pf. destruct Pf as (Lp & E & Pw).
      assert (hit [t] i).
      { split; [exact L|]. apply prefixb_skipn_cons. repeat split; assumption. }
      apply (X0 i Hi) in H. lia.
    - destruct (B0 Hne) as (c & Bk & Hc). destruct r0 as [s e]. cbn [fst snd] in *.
      destruct (po_constrain _ _ _ _ _ Hpsi c s e r Bk) as (lo & hi & C & L1 & L2 & L3).
      exists (lo, hi). split; [exact C|].
      destruct Bk as (B1 & B2 & B3 & B4).
      split; [cbn [fst snd]; lia|]. intros i Hi. cbn [fst snd].
      split.
      + intros Hin. assert (Hse : s <= i <= e) by lia.
        pose proof (proj1 (L3 i Hse) Hin) as Hp.
        assert (Hfs : fs T sa i = c) by (apply B4; assumption).
        apply (fs_text i t c Hi Hc) in Hfs. destruct Hfs as (Li & Et).
        pose proof (ix_psi_lt T sa n Hsa HT Hterm Hpos i Hi) as Lpsi. fold isa psi in Lpsi.
        apply (Hr (nth i psi 0) Lpsi) in Hp. destruct Hp as (Lq & Pq).
        pose proof (ix_sa_psi T sa n Hsa HT Hterm Hpos i Hi Li) as Esp. fold isa psi in Esp.
        rewrite Esp in Lq, Pq.
        split; [exact Li|]. apply prefixb_skipn_cons. fold n. repeat split; assumption.
      + intros (Li & Pf). apply prefixb_skipn_cons in Pf. destruct Pf as (_ & Et & Pw).
        assert (Hfs : fs T sa i = c) by (apply (fs_text i t c Hi Hc); now split).
        assert (Hse : s <= i <= e) by (apply B4; assumption).
        apply (L3 i Hse).
        pose proof (ix_psi_lt T sa n Hsa HT Hterm Hpos i Hi) as Lpsi. fold isa psi in Lpsi.
        apply (Hr (nth i psi 0) Lpsi). unfold hit.
        pose proof (ix_sa_psi T sa n Hsa HT Hterm Hpos i Hi Li) as Esp. fold isa psi in Esp.
        rewrite Esp. split; [|exact Pw].
        (* w is not empty, so the match cannot start at the end of the text *)
        destruct (Nat.lt_ge_cases (S (nth i sa 0)) n) as [|Hge]; [assumption|].
        exfalso. rewrite skipn_all2 in Pw by (fold n; lia). apply prefixb_nil_r in Pw. contradiction.
  Qed.

  Lemma fold_exact rest : forall w r, w <> [] -> exact_range r w ->
    exists r', fold_left (fun acc t' => do range <- acc; do r0 <- sa_range_for sg t';
                                         p_constrain (d_psi d) r0 range) rest (Ok r) = Ok r' /\
               exact_range r' (rev rest ++ w).
  Proof.
    induction rest as [|t rest IH]; intros w r Hw Hr.
    - exists r. split; [reflexivity|exact Hr].
    - cbn [fold_left rbind].
      destruct (step_exact t w r Hw Hr) as (r1 & S1 & X1). rewrite S1.
      destruct (IH (t :: w) r1 ltac:(discriminate) X1) as (r' & F & X'). exists r'. split; [exact F|].
      cbn [rev]. now rewrite <- app_assoc.
  Qed.

  Theorem backwards_search_exact needle :
    exists r, backwards_search d needle = Ok r /\ exact_range r needle.
  Proof.
    unfold backwards_search. destruct (rev needle) as [|t rest] eqn:E.
    - assert (needle = []) by (apply (f_equal (@rev N)) in E; rewrite rev_involutive in E; exact E). subst.
      unfold doc_len. rewrite (po_len _ _ _ _ _ Hpsi). destruct (Nat.eqb_spec (S n) 0); [lia|]. cbn [rbind].
      exists (1, S n - 1). split; [reflexivity|]. split; [cbn [fst snd]; lia|].
      intros i Hi. cbn [fst snd]. unfold hit. cbn [prefixb].
      pose proof (ix_sa_lt T sa n Hsa HT Hterm Hpos i Hi).
      split.
      + intros Hin. split; [|reflexivity]. destruct (Nat.eq_dec (nth i sa 0) n) as [En|]; [|lia].
        exfalso. assert (i = 0); [|lia]. apply (sa_inj T sa Hsa); [rewrite HT; lia|rewrite HT; lia|].
        now rewrite (ix_sa_zero T sa n Hsa HT Hterm Hpos).
      + intros (L & _). destruct (Nat.eq_dec i 0) as [->|]; [|lia].
        rewrite (ix_sa_zero T sa n Hsa HT Hterm Hpos) in L. lia.
    - rewrite Hsg. destruct (range_single t) as (r0 & R0 & X0 & _). rewrite R0.
      destruct (fold_exact rest [t] r0 ltac:(discriminate) X0) as (r' & F & X').
      exists r'. split; [exact F|].
      assert (needle = rev rest ++ [t]).
      { apply (f_equal (@rev N)) in E. rewrite rev_involutive in E. exact E. }
      now subst.
  Qed.
End BackwardSearch.

(* ------------------------------------------------------------------ sort, mapM *)
Lemma mapM_ok {A B} (f : A -> res B) (g : A -> B) l :
  (forall x, In x l -> f x = Ok (g x)) -> mapM f l = Ok (map g l).
Proof.
  induction l as [|a l IH]; intros H; [reflexivity|]. cbn [mapM map].
  rewrite (H a (or_introl eq_refl)). cbn [rbind]. rewrite IH by (intros x Hx; apply H; now right). reflexivity.
Qed.

Lemma insert_nat_perm x l : Permutation (insert_nat x l) (x :: l).
Proof.
  induction l as [|y l IH]; cbn [insert_nat]; [reflexivity|].
  destruct (x <=? y); [reflexivity|]. rewrite IH. apply perm_swap.
Qed.

Lemma sort_nat_perm l : Permutation (sort_nat l) l.
Proof.
  induction l as [|x l IH]; cbn; [reflexivity|]. fold (sort_nat l). rewrite insert_nat_perm. now constructor.
Qed.

Lemma insert_nat_sorted x l : StronglySorted le l -> StronglySorted le (insert_nat x l).
Proof.
  induction 1 as [|y l Hs IH Hf]; cbn [insert_nat]; [repeat constructor|].
  destruct (Nat.leb_spec x y).
  - constructor; [now constructor|]. constructor; [assumption|].
    eapply Forall_impl; [|exact Hf]. cbn. intros; lia.
  - constructor; [exact IH|]. eapply Permutation_Forall; [symmetry; apply insert_nat_perm|].
    constructor; [lia|assumption].
Qed.

Lemma sort_nat_sorted l : StronglySorted le (sort_nat l).
Proof. induction l as [|x l IH]; cbn; [constructor|]. fold (sort_nat l). now apply insert_nat_sorted. Qed.

Lemma sorted_le_NoDup_sinc l : StronglySorted le l -> NoDup l -> sinc l.
Proof.
  induction 1 as [|x l Hs IH Hf]; intros Hnd; [constructor|].
  inversion Hnd as [|? ? Hnin Hnd']; subst. constructor; [now apply IH|].
  apply Forall_forall. intros y Hy. rewrite Forall_forall in Hf. specialize (Hf y Hy).
  assert (x <> y) by (intros ->; contradiction). lia.
Qed.

Lemma sinc_ext l1 l2 : sinc l1 -> sinc l2 -> (forall x, In x l1 <-> In x l2) -> l1 = l2.
Proof.
  intros S1 S2 H. apply (sorted_perm_unique lt); [intros; lia|assumption|assumption|].
  apply NoDup_Permutation; [now apply sinc_NoDup|now apply sinc_NoDup|exact H].
Qed.

Lemma sinc_filter_seq f a k : sinc (filter f (seq a k)).
Proof.
  revert a. induction k as [|k IH]; intros a; cbn [seq filter]; [constructor|].
  destruct (f a); [|apply IH]. constructor; [apply IH|].
  apply Forall_forall. intros y Hy. apply filter_In in Hy. destruct Hy as [Hy _]. apply in_seq in Hy. lia.
Qed.

Lemma NoDup_map_inj_in {A B} (f : A -> B) l :
  (forall x y, In x l -> In y l -> f x = f y -> x = y) -> NoDup l -> NoDup (map f l).
Proof.
  intros Hinj Hnd. induction Hnd as [|a l Hnin Hnd IH]; cbn [map]; constructor.
  - intros Hin. apply in_map_iff in Hin. destruct Hin as (y & E & Hy).
    assert (y = a) by (apply Hinj; [now right|now left|exact E]). subst. contradiction.
  - apply IH. intros x y Hx Hy. apply Hinj; now right.
Qed.

Lemma occurrences_In text w p :
  In p (occurrences text w) <-> p < length text /\ prefixb w (skipn p text) = true.
Proof.
  unfold occurrences. rewrite filter_In, in_seq. split; intros (H1 & H2); split; try assumption; lia.
Qed.

(* ------------------------------------------------------------------ search and count *)
Section SearchCount.
  Variables (text : list N) (sg : sigma) (T sa : list nat).
  Hypothesis Hio : index_ok text sg T sa.
  Let n := length text.
  Let isa := inverse sa.
  Let psi := psi_of sa isa.
  Variable d : doc.
  Hypothesis Hsg : d_sigma d = sg.
  Hypothesis Hpsi : psi_ok T sa psi n (d_psi d).
  (* locate: the suffix-array accessor answers sa[i] at every position of the text proper *)
  Hypothesis Hloc : forall i, 0 < i -> i < S n -> d_sa d i = Ok (nth i sa 0).

  Let Hsa := io_sa _ _ _ _ Hio.
  Let HT : length T = S n := io_len _ _ _ _ Hio.
  Let Hterm : nth n T 0 = 0 := io_term _ _ _ _ Hio.
  Let Hpos := io_pos text sg T sa Hio.

  Lemma exact_range_low r w : exact_range text sa r w -> fst r <= snd r -> 0 < fst r.
  Proof.
    intros [Hb X] Hne. destruct (Nat.eq_dec (fst r) 0) as [Z|]; [|lia]. exfalso.
    assert (H0 : hit text sa w 0) by (apply (X 0 ltac:(lia)); lia).
    destruct H0 as (L & _). rewrite (ix_sa_zero T sa n Hsa HT Hterm Hpos) in L. fold n in L. lia.
  Qed.

  Lemma range_positions r w : exact_range text sa r w -> fst r <= snd r ->
    sort_nat (map (fun i => nth i sa 0) (seq (fst r) (snd r + 1 - fst r))) = occurrences text w.
  Proof.
    intros X Hne. pose proof (exact_range_low r w X Hne) as Hlow. destruct X as [Hb X]. specialize (Hb Hne).
    set (l := map (fun i => nth i sa 0) (seq (fst r) (snd r + 1 - fst r))).
    assert (Hnd : NoDup l).
    { unfold l. apply NoDup_map_inj_in; [|apply seq_NoDup].
      intros i j Hi Hj E. apply in_seq in Hi, Hj.
      apply (sa_inj T sa Hsa); [rewrite HT; fold n; lia|rewrite HT; fold n; lia|exact E]. }
    apply sinc_ext.
    - apply sorted_le_NoDup_sinc; [apply sort_nat_sorted|].
      eapply Permutation_NoDup; [symmetry; apply sort_nat_perm|exact Hnd].
    - unfold occurrences. apply sinc_filter_seq.
    - intros p. rewrite occurrences_In. split.
      + intros Hin. apply (Permutation_in _ (sort_nat_perm l)) in Hin. unfold l in Hin.
        apply in_map_iff in Hin. destruct Hin as (i & <- & Hi). apply in_seq in Hi.
        assert (Hi' : i < S n) by lia.
        destruct (proj1 (X i Hi') ltac:(lia)) as (L & Pf). split; assumption.
      + intros (Lp & Pf). apply (Permutation_in _ (Permutation_sym (sort_nat_perm l))). unfold l.
        destruct (sa_surj T sa Hsa p ltac:(rewrite HT; fold n; lia)) as (i & Hi & E). rewrite HT in Hi.
        apply in_map_iff. exists i. split; [exact E|]. apply in_seq.
        assert (Hh : hit text sa w i) by (unfold hit; rewrite E; split; assumption).
        apply (X i Hi) in Hh. lia.
  Qed.

  Lemma empty_range_no_occurrences r w : exact_range text sa r w -> snd r < fst r -> occurrences text w = [].
  Proof.
    intros [_ X] He. destruct (occurrences text w) as [|p l] eqn:E; [reflexivity|]. exfalso.
    assert (Hin : In p (occurrences text w)) by (rewrite E; now left).
    apply occurrences_In in Hin. destruct Hin as (Lp & Pf).
    destruct (sa_surj T sa Hsa p ltac:(rewrite HT; fold n; lia)) as (i & Hi & Ei). rewrite HT in Hi.
    assert (Hh : hit text sa w i) by (unfold hit; rewrite Ei; split; assumption).
    apply (X i Hi) in Hh. lia.
  Qed.

  (* search finds exactly the occurrence positions of the plain scan, in increasing order *)
  Theorem doc_search_correct needle : doc_search d needle = Ok (occurrences text needle).
  Proof.
    unfold doc_search.
    destruct (backwards_search_exact text sg T sa Hio d Hsg Hpsi needle) as (r & B & X). rewrite B. cbn [rbind].
    destruct (Nat.ltb_spec (snd r) (fst r)) as [He|Hne].
    - now rewrite (empty_range_no_occurrences r needle X He).
    - pose proof (exact_range_low r needle X Hne) as Hlow. pose proof (proj1 X Hne) as Hb.
      rewrite (mapM_ok (d_sa d) (fun i => nth i sa 0)).
      + cbn [rbind]. f_equal. now apply range_positions.
      + intros i Hi. apply in_seq in Hi. apply Hloc; lia.
  Qed.

  Theorem doc_count_correct needle : doc_count d needle = Ok (length (occurrences text needle)).
  Proof.
    unfold doc_count.
    destruct (backwards_search_exact text sg T sa Hio d Hsg Hpsi needle) as (r & B & X). rewrite B. cbn [rbind].
    f_equal. destruct (Nat.ltb_spec (snd r) (fst r)) as [He|Hne].
    - now rewrite (empty_range_no_occurrences r needle X He).
    - rewrite <- (range_positions r needle X Hne).
      rewrite (Permutation_length (sort_nat_perm _)), map_length, seq_length. lia.
  Qed.
End SearchCount.
