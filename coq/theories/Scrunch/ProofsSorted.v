(* Scrunch/ProofsSorted.v — strictly increasing lists of naturals: counting elements below a
   bound, insertion sort, uniqueness of the sorted arrangement; rank/select of a bit vector
   built from such a list of indices. *)
From Coq Require Import Arith List Bool Lia Sorted Permutation.
From Blue Require Import Scrunch.ModelBits Scrunch.Model Scrunch.ProofsBits.
Import ListNotations.

Arguments Nat.sub : simpl never.
Arguments Nat.div : simpl never.
Arguments Nat.modulo : simpl never.
Arguments Nat.leb : simpl never.
Arguments Nat.ltb : simpl never.
Arguments Nat.eqb : simpl never.

Definition sinc (l : list nat) : Prop := StronglySorted lt l.

Lemma strictly_increasing_sinc l : strictly_increasing l = true -> sinc l.
Proof.
  induction l as [|x l IH]; intros H; [constructor|].
  destruct (strictly_increasing_cons x l H) as [H1 H2]. constructor; [now apply IH|exact H2].
Qed.

Lemma sinc_strictly_increasing l : sinc l -> strictly_increasing l = true.
Proof.
  induction 1 as [|x l Hs IH Hf]; [reflexivity|].
  destruct l as [|y l]; [reflexivity|]. cbn [strictly_increasing].
  inversion Hf; subst. apply andb_true_intro. split; [now apply Nat.ltb_lt|exact IH].
Qed.

Lemma adjacent_increasing_sinc l : adjacent_increasing l = true -> sinc l.
Proof.
  intros H. apply strictly_increasing_sinc. revert H.
  induction l as [|x l IH]; [reflexivity|]. destruct l as [|y l]; [reflexivity|].
  cbn [adjacent_increasing strictly_increasing]. intros H. apply andb_prop in H. destruct H as [H1 H2].
  rewrite H1. cbn [andb]. now apply IH.
Qed.

Lemma sinc_nth l : sinc l -> forall i j, i < j -> j < length l -> nth i l 0 < nth j l 0.
Proof.
  induction 1 as [|x l Hs IH Hf]; intros i j Hij Hj; [cbn in Hj; lia|].
  destruct j as [|j]; [lia|]. cbn in Hj. destruct i as [|i]; cbn [nth].
  - rewrite Forall_forall in Hf. apply Hf, nth_In. lia.
  - apply IH; lia.
Qed.

Lemma sinc_NoDup l : sinc l -> NoDup l.
Proof. intros H. apply strictly_increasing_NoDup, sinc_strictly_increasing, H. Qed.

Lemma sinc_app_inv a b : sinc (a ++ b) -> sinc a /\ sinc b /\ (forall x y, In x a -> In y b -> x < y).
Proof.
  induction a as [|x a IH]; cbn [app]; intros H.
  - split; [constructor|]. split; [exact H|]. intros x y [].
  - inversion H as [|? ? Hs Hf]; subst. destruct (IH Hs) as (Ha & Hb & Hab).
    rewrite Forall_forall in Hf. split.
    + constructor; [exact Ha|]. apply Forall_forall. intros y Hy. apply Hf, in_or_app. now left.
    + split; [exact Hb|]. intros u v [<-|Hu] Hv; [apply Hf, in_or_app; now right|now apply Hab].
Qed.

(* ------------------------------------------------------------------ count_lt *)
Lemma count_lt_cons y l x : count_lt (y :: l) x = (if y <? x then 1 else 0) + count_lt l x.
Proof. unfold count_lt. cbn [filter]. destruct (y <? x); reflexivity. Qed.

Lemma count_lt_le_length l x : count_lt l x <= length l.
Proof. unfold count_lt. induction l as [|y l IH]; cbn; [lia|]. destruct (y <? x); cbn; lia. Qed.

Lemma count_lt_all_ge l x : Forall (fun y => x <= y) l -> count_lt l x = 0.
Proof.
  induction 1 as [|y l Hy Hl IH]; [reflexivity|]. rewrite count_lt_cons, IH.
  destruct (Nat.ltb_spec y x); lia.
Qed.

Lemma count_lt_mono l x y : x <= y -> count_lt l x <= count_lt l y.
Proof.
  intros H. induction l as [|z l IH]; [reflexivity|]. rewrite !count_lt_cons.
  destruct (Nat.ltb_spec z x), (Nat.ltb_spec z y); lia.
Qed.

(* in a strictly increasing list, element k is below x iff more than k elements are below x *)
Lemma count_lt_nth l : sinc l -> forall k x, k < length l -> (nth k l 0 < x <-> k < count_lt l x).
Proof.
  induction 1 as [|y l Hs IH Hf]; intros k x Hk; [cbn in Hk; lia|].
  rewrite count_lt_cons. cbn [length] in Hk. destruct (Nat.ltb_spec y x) as [Hyx|Hxy].
  - destruct k as [|k]; cbn [nth]; [lia|]. rewrite (IH k x ltac:(lia)). lia.
  - assert (Z : count_lt l x = 0).
    { apply count_lt_all_ge. eapply Forall_impl; [|exact Hf]. cbn. intros; lia. }
    rewrite Z. destruct k as [|k]; cbn [nth]; [lia|].
    rewrite Forall_forall in Hf.
    assert (Hin : In (nth k l 0) l) by (apply nth_In; lia). specialize (Hf _ Hin). lia.
Qed.

Lemma count_lt_nth_self l : sinc l -> forall k, k < length l -> count_lt l (nth k l 0) = k.
Proof.
  intros Hs k Hk.
  destruct (Nat.lt_trichotomy (count_lt l (nth k l 0)) k) as [H|[H|H]]; [|assumption|].
  - (* element count_lt is not below nth k: fine; but element k-1.. *)
    pose proof (count_lt_le_length l (nth k l 0)).
    assert (A : ~ nth (count_lt l (nth k l 0)) l 0 < nth k l 0).
    { intros A. apply (count_lt_nth l Hs) in A; lia. }
    pose proof (sinc_nth l Hs _ _ H Hk). lia.
  - apply (count_lt_nth l Hs k (nth k l 0) Hk) in H. lia.
Qed.

Lemma count_lt_S_nth l : sinc l -> forall k, k < length l -> count_lt l (S (nth k l 0)) = S k.
Proof.
  intros Hs k Hk.
  assert (A : k < count_lt l (S (nth k l 0))) by (apply (count_lt_nth l Hs); lia).
  destruct (Nat.eq_dec (count_lt l (S (nth k l 0))) (S k)) as [E|NE]; [assumption|].
  pose proof (count_lt_le_length l (S (nth k l 0))).
  assert (B : nth (S k) l 0 < S (nth k l 0)) by (apply (count_lt_nth l Hs); lia).
  pose proof (sinc_nth l Hs k (S k) ltac:(lia) ltac:(lia)). lia.
Qed.

(* ------------------------------------------------------------------ bit vectors from indices *)
Section FromIndices.
  Variables (len : nat) (idx : list nat).
  Hypothesis Hs : sinc idx.
  Hypothesis Hb : Forall (fun i => i < len) idx.

  Lemma rank_of_indices x : x <= len ->
    bv_rank (bits_of_indices len idx) x = Some (count_lt idx x).
  Proof.
    intros Hx. rewrite bv_rank_some by (rewrite bits_of_indices_length; exact Hx). f_equal.
    apply count1_bits_of_indices; [now apply sinc_NoDup|exact Hx].
  Qed.

  Lemma rank_of_indices_none x : len < x -> bv_rank (bits_of_indices len idx) x = None.
  Proof. intros Hx. apply bv_rank_none. now rewrite bits_of_indices_length. Qed.

  Lemma access_of_indices x : x < len ->
    bv_access (bits_of_indices len idx) x = Some (existsb (Nat.eqb x) idx).
  Proof.
    intros Hx. unfold bv_access. rewrite (nth_error_nth' _ false) by (now rewrite bits_of_indices_length).
    now rewrite bits_of_indices_nth.
  Qed.

  Lemma count1_of_indices : count1 (bits_of_indices len idx) = length idx.
  Proof.
    rewrite <- (firstn_all (bits_of_indices len idx)), bits_of_indices_length.
    rewrite count1_bits_of_indices by (try apply sinc_NoDup; auto).
    clear Hs. induction Hb as [|y l Hy Hl IH]; [reflexivity|]. cbn [filter length].
    destruct (Nat.ltb_spec y len); [|lia]. cbn [length]. now rewrite IH.
  Qed.

  Lemma select_of_indices k : 0 < k -> k <= length idx ->
    bv_select (bits_of_indices len idx) k = Some (S (nth (k - 1) idx 0)).
  Proof.
    intros Hk Hk'. unfold bv_select. apply select_from_least. unfold least_reaching.
    assert (Hlt : nth (k - 1) idx 0 < len).
    { rewrite Forall_forall in Hb. apply Hb, nth_In. lia. }
    rewrite bits_of_indices_length. split; [lia|]. split.
    - rewrite countv_true, count1_bits_of_indices by (try apply sinc_NoDup; auto; lia).
      change (count_lt idx (S (nth (k - 1) idx 0)) = k).
      rewrite count_lt_S_nth by (auto; lia). lia.
    - intros q Hq. rewrite countv_true, count1_bits_of_indices by (try apply sinc_NoDup; auto; lia).
      change (count_lt idx q < k).
      pose proof (count_lt_mono idx q (nth (k - 1) idx 0) ltac:(lia)).
      rewrite count_lt_nth_self in H by (auto; lia). lia.
  Qed.

  Lemma select_of_indices_none k : length idx < k -> bv_select (bits_of_indices len idx) k = None.
  Proof.
    intros Hk. unfold bv_select. apply select_from_none. now rewrite countv_true, count1_of_indices.
  Qed.
End FromIndices.
