(* Scrunch/ProofsWT4.v — the streaming constructor of WaveletTreePsi (construct_streaming_mapped,
   flush_context, the y_key / y_value pass) establishes `wstruct`; hence CompressedDocument
   answers as the plain scan, for every text. *)
From Coq Require Import Arith NArith List Bool Lia Sorted Permutation.
From Blue Require Import Scrunch.ModelBits Scrunch.Model Scrunch.ModelWT Scrunch.ProofsBits
  Scrunch.ProofsSorted Scrunch.ProofsSuffix Scrunch.ProofsIAP Scrunch.ProofsSearch Scrunch.ProofsSigma
  Scrunch.ProofsDoc Scrunch.ProofsSampled Scrunch.ProofsCompressed
  Scrunch.ProofsWT1 Scrunch.ProofsWT2 Scrunch.ProofsWT3.
Import ListNotations.
Local Open Scope nat_scope.

Arguments Nat.sub : simpl never.
Arguments Nat.div : simpl never.
Arguments Nat.modulo : simpl never.
Arguments Nat.leb : simpl never.
Arguments Nat.ltb : simpl never.
Arguments Nat.eqb : simpl never.

(* ------------------------------------------------------------------ small list facts *)
Lemma count_eq_app c a b : count_eq c (a ++ b) = count_eq c a + count_eq c b.
Proof. unfold count_eq. now rewrite filter_app, app_length. Qed.

Lemma count_eq_single c s : count_eq c [s] = if c =? s then 1 else 0.
Proof. unfold count_eq. cbn [filter]. destruct (c =? s); reflexivity. Qed.

Lemma nth_set_nth {A} n k (x d : A) l : n < length l ->
  nth k (set_nth n x l) d = if k =? n then x else nth k l d.
Proof.
  intros H. destruct (Nat.eqb_spec k n) as [->|NE]; [now apply nth_set_nth_eq|].
  apply nth_set_nth_neq. lia.
Qed.

Lemma firstn_skipn_snoc (SY : list nat) a k : a + k < length SY ->
  firstn (S k) (skipn a SY) = firstn k (skipn a SY) ++ [nth (a + k) SY 0].
Proof.
  intros H. rewrite (firstn_S_nth 0) by (rewrite skipn_length; lia). f_equal. f_equal.
  revert SY H. induction a as [|a IH]; intros SY H; [reflexivity|].
  destruct SY as [|y SY]; [cbn in H; lia|]. cbn [skipn Nat.add nth]. apply IH. cbn in H. lia.
Qed.

Lemma nth_repeat_aux {A} (x d : A) k j : j < k -> nth j (repeat x k) d = x.
Proof. revert j. induction k as [|k IH]; intros j H; [lia|]. destruct j; [reflexivity|]. cbn. apply IH. lia. Qed.

(* ------------------------------------------------------------------ SaToSigma::build *)
Lemma sa_to_sigma_build_spec limits : forall sym prev len,
  StronglySorted le limits -> Forall (fun l => prev <= l /\ l <= len) limits ->
  last limits prev = len ->
  exists F, sa_to_sigma_build limits sym prev len = Ok F /\ length F = len - prev /\
            forall j, j < len - prev -> nth j F 0 = sym + length (filter (fun l => l <=? prev + j) limits).
Proof.
  induction limits as [|l limits IH]; intros sym prev len Hs Hf Hl.
  - cbn in Hl. subst len. cbn [sa_to_sigma_build]. rewrite Nat.eqb_refl. exists []. split; [reflexivity|].
    split; [cbn; lia|]. intros j Hj. lia.
  - cbn [sa_to_sigma_build]. pose proof (Forall_inv Hf) as [H1 H2]. pose proof (Forall_inv_tail Hf) as Hf'.
    apply StronglySorted_inv in Hs. destruct Hs as [Hs' Hle].
    destruct (Nat.ltb_spec l prev); [lia|]. destruct (Nat.ltb_spec len l); [lia|]. cbn [orb].
    assert (Hl' : last limits l = len).
    { destruct limits as [|l2 limits]; [cbn in Hl |- *; exact Hl|].
      change (last (l :: l2 :: limits) prev) with (last (l2 :: limits) prev) in Hl.
      rewrite <- Hl. clear. generalize l2. induction limits as [|x lim IHl]; intros y; [reflexivity|].
      change (last (y :: x :: lim) l) with (last (x :: lim) l).
      change (last (y :: x :: lim) prev) with (last (x :: lim) prev). apply IHl. }
    destruct (IH (S sym) l len Hs') as (F & EF & LF & NF).
    + apply Forall_forall. intros x Hx. rewrite Forall_forall in Hle, Hf'. specialize (Hle x Hx). specialize (Hf' x Hx). lia.
    + exact Hl'.
    + rewrite EF. cbn [rbind]. eexists. split; [reflexivity|]. split.
      * rewrite app_length, repeat_length. lia.
      * intros j Hj. cbn [filter]. destruct (Nat.lt_ge_cases j (l - prev)) as [Hlt|Hge].
        -- rewrite app_nth1 by (rewrite repeat_length; exact Hlt).
           rewrite nth_repeat_aux by exact Hlt.
           destruct (Nat.leb_spec l (prev + j)); [lia|].
           assert (Z : filter (fun l0 => l0 <=? prev + j) limits = []).
           { clear - Hle Hlt. induction Hle as [|x lim Hx Hlim IHl]; [reflexivity|]. cbn [filter].
             destruct (Nat.leb_spec x (prev + j)); [lia|]. exact IHl. }
           rewrite Z. cbn. lia.
        -- rewrite app_nth2 by (rewrite repeat_length; exact Hge). rewrite repeat_length.
           rewrite NF by lia. destruct (Nat.leb_spec l (prev + j)); [|lia]. cbn [length].
           replace (l + (j - (l - prev))) with (prev + j) by lia. lia.
Qed.

(* ------------------------------------------------------------------ rows covering a prefix *)
Fixpoint pcovers (SY : list nat) (rows : list wrow) (a b : nat) : Prop :=
  match rows with
  | [] => a = b
  | r :: rest =>
      w_start r = a /\ w_tree r <> [] /\ a + length (w_tree r) <= length SY /\
      w_tree r = firstn (length (w_tree r)) (skipn a SY) /\
      pcovers SY rest (a + length (w_tree r)) b
  end.

Lemma pcovers_covers SY rows a : pcovers SY rows a (length SY) -> covers SY rows a.
Proof.
  revert a. induction rows as [|r rows IH]; intros a H; cbn [pcovers covers] in *; [exact H|].
  destruct H as (A & B & C & D & E). repeat split; try assumption. now apply IH.
Qed.

Lemma pcovers_snoc SY rows R : forall a b, pcovers SY rows a b ->
  w_start R = b -> w_tree R <> [] -> b + length (w_tree R) <= length SY ->
  w_tree R = firstn (length (w_tree R)) (skipn b SY) ->
  pcovers SY (rows ++ [R]) a (b + length (w_tree R)).
Proof.
  induction rows as [|r rows IH]; intros a b H H1 H2 H3 H4; cbn [pcovers app] in *.
  - subst a. repeat split; try assumption. 
  - destruct H as (A & B & C & D & E). repeat split; try assumption. now apply IH.
Qed.

(* ------------------------------------------------------------------ cells of a column *)
Definition col_cells (c : nat) (out : list wrow) : list (nat * nat) :=
  map (fun r => (r, count_eq c (w_tree (nth r out row0)))) (col_rows c out).

Lemma col_rows_snoc c out R :
  col_rows c (out ++ [R]) = col_rows c out ++ (if 0 <? count_eq c (w_tree R) then [length out] else []).
Proof.
  unfold col_rows. rewrite app_length. cbn [length]. replace (length out + 1) with (S (length out)) by lia.
  rewrite seq_S, filter_app. cbn [Nat.add filter].
  rewrite (nth_middle out [] R row0). f_equal.
  apply filter_ext_in. intros r Hr. apply in_seq in Hr. now rewrite app_nth1 by lia.
Qed.

Lemma col_cells_snoc c out R :
  col_cells c (out ++ [R]) =
  col_cells c out ++ (if 0 <? count_eq c (w_tree R) then [(length out, count_eq c (w_tree R))] else []).
Proof.
  unfold col_cells. rewrite col_rows_snoc, map_app. f_equal.
  - apply map_ext_in. intros r Hr. unfold col_rows in Hr. apply filter_In in Hr. destruct Hr as [Hr _].
    apply in_seq in Hr. now rewrite app_nth1 by lia.
  - destruct (0 <? count_eq c (w_tree R)); [|reflexivity]. cbn [map]. now rewrite (nth_middle out [] R row0).
Qed.

(* ------------------------------------------------------------------ folds of set_nth over distinct indices *)
Lemma fold_set_nth {A} (d : A) (g : nat -> A -> A) (l : list nat) : NoDup l ->
  forall xs, Forall (fun s => s < length xs) l ->
  let r := fold_left (fun xs s => set_nth s (g s (nth s xs d)) xs) l xs in
  length r = length xs /\
  forall c, nth c r d = if in_dec Nat.eq_dec c l then g c (nth c xs d) else nth c xs d.
Proof.
  induction 1 as [|a l Hnin Hnd IH]; intros xs Hf; cbn [fold_left].
  - split; [reflexivity|]. intros c. destruct (in_dec Nat.eq_dec c []) as [[]|]; reflexivity.
  - pose proof (Forall_inv Hf) as Ha. pose proof (Forall_inv_tail Hf) as Hf'.
    destruct (IH (set_nth a (g a (nth a xs d)) xs)) as [L1 N1].
    { eapply Forall_impl; [|exact Hf']. intros s Hs. now rewrite set_nth_length. }
    rewrite set_nth_length in L1. split; [exact L1|]. intros c. rewrite N1.
    destruct (in_dec Nat.eq_dec c l) as [Hin|Hnin'].
    + destruct (in_dec Nat.eq_dec c (a :: l)) as [_|Hc]; [|exfalso; apply Hc; now right].
      assert (c <> a) by (intros ->; contradiction). now rewrite nth_set_nth_neq by lia.
    + destruct (in_dec Nat.eq_dec c (a :: l)) as [[->|Hc]|Hc].
      * now rewrite nth_set_nth_eq by exact Ha.
      * contradiction.
      * assert (c <> a) by (intros ->; apply Hc; now left). now rewrite nth_set_nth_neq by lia.
Qed.

Lemma NoDup_app_snoc {A} (l : list A) x : NoDup l -> ~ In x l -> NoDup (l ++ [x]).
Proof.
  intros Hnd Hnin. induction Hnd as [|y l Hy Hl IH]; cbn [app]; [constructor; [intros []|constructor]|].
  constructor.
  - rewrite in_app_iff. cbn [In]. intros [H|[H|[]]]; [contradiction|]. subst. apply Hnin. now left.
  - apply IH. intros H. apply Hnin. now right.
Qed.

(* ------------------------------------------------------------------ the streaming loop *)
Record sinv (K : nat) (SY : list nat) (i : nat) (st : cstate) : Prop := {
  si_start : c_start st <= i;
  si_cov : pcovers SY (c_out st) 0 (c_start st);
  si_tree : c_tree st = firstn (i - c_start st) (skipn (c_start st) SY);
  si_row : c_row st = length (c_out st);
  si_counts_len : length (c_counts st) = K;
  si_counts : forall c, c < K -> nth c (c_counts st) 0 = count_eq c (c_tree st);
  si_active_nd : NoDup (c_active st);
  si_active : forall c, In c (c_active st) <-> c < K /\ 0 < count_eq c (c_tree st);
  si_cells_len : length (c_cells st) = K;
  si_cells : forall c, c < K -> nth c (c_cells st) [] = col_cells c (c_out st)
}.

(* after a flush: the tree is empty, every count is zero, the row is in the table *)
Record finv (K : nat) (SY : list nat) (i : nat) (f : cstate) : Prop := {
  fi_cov : pcovers SY (c_out f) 0 i;
  fi_tree : c_tree f = [];
  fi_row : S (c_row f) = length (c_out f);
  fi_counts_len : length (c_counts f) = K;
  fi_counts : forall c, c < K -> nth c (c_counts f) 0 = 0;
  fi_active : c_active f = [];
  fi_cells_len : length (c_cells f) = K;
  fi_cells : forall c, c < K -> nth c (c_cells f) [] = col_cells c (c_out f)
}.

Lemma flush_inv K SY i st : sinv K SY i st -> c_start st < i -> i <= length SY ->
  finv K SY i (flush_context st) /\ c_ctx (flush_context st) = c_ctx st.
Proof.
  intros I Hlt Hi. split; [|reflexivity].
  set (R := {| w_start := c_start st; w_tree := c_tree st |}).
  assert (Htl : length (c_tree st) = i - c_start st).
  { rewrite (si_tree _ _ _ _ I), firstn_length, skipn_length. lia. }
  assert (Hact : Forall (fun s => s < K) (c_active st)).
  { apply Forall_forall. intros s Hs. now apply (si_active _ _ _ _ I) in Hs. }
  destruct (fold_set_nth (@nil (nat * nat)) (fun s old => old ++ [(c_row st, nth s (c_counts st) 0)])
              (c_active st) (si_active_nd _ _ _ _ I) (c_cells st)) as [Lc Nc].
  { now rewrite (si_cells_len _ _ _ _ I). }
  destruct (fold_set_nth 0 (fun s old => 0) (c_active st) (si_active_nd _ _ _ _ I) (c_counts st)) as [Ln Nn].
  { now rewrite (si_counts_len _ _ _ _ I). }
  constructor; cbn [flush_context c_out c_tree c_row c_counts c_active c_cells].
  - replace i with (c_start st + length (w_tree R)) by (cbn [w_tree R]; lia).
    apply pcovers_snoc; cbn [R w_start w_tree].
    + exact (si_cov _ _ _ _ I).
    + reflexivity.
    + intros E. rewrite E in Htl. cbn in Htl. lia.
    + lia.
    + rewrite Htl. exact (si_tree _ _ _ _ I).
  - reflexivity.
  - rewrite app_length. cbn [length]. rewrite (si_row _ _ _ _ I). lia.
  - rewrite Ln. exact (si_counts_len _ _ _ _ I).
  - intros c Hc. rewrite Nn. destruct (in_dec Nat.eq_dec c (c_active st)) as [|Hnin]; [reflexivity|].
    rewrite (si_counts _ _ _ _ I c Hc).
    destruct (Nat.eq_dec (count_eq c (c_tree st)) 0) as [|NZ]; [assumption|].
    exfalso. apply Hnin. apply (si_active _ _ _ _ I). split; [exact Hc|lia].
  - reflexivity.
  - rewrite Lc. exact (si_cells_len _ _ _ _ I).
  - intros c Hc. rewrite Nc, col_cells_snoc. cbn [w_tree]. rewrite (si_cells _ _ _ _ I c Hc).
    rewrite (si_counts _ _ _ _ I c Hc), (si_row _ _ _ _ I).
    destruct (in_dec Nat.eq_dec c (c_active st)) as [Hin|Hnin].
    + apply (si_active _ _ _ _ I) in Hin. destruct Hin as [_ Hp].
      destruct (Nat.ltb_spec 0 (count_eq c (c_tree st))); [reflexivity|lia].
    + destruct (Nat.ltb_spec 0 (count_eq c (c_tree st))) as [Hp|]; [|now rewrite app_nil_r].
      exfalso. apply Hnin. apply (si_active _ _ _ _ I). now split.
Qed.

(* pushing one symbol *)
Lemma push_inv K SY i st symbol cnt :
  sinv K SY i st -> i < length SY -> symbol = nth i SY 0 -> symbol < K ->
  nth_error (c_counts st) symbol = Some cnt ->
  sinv K SY (S i)
    {| c_ctx := c_ctx st; c_start := c_start st; c_row := c_row st;
       c_tree := c_tree st ++ [symbol];
       c_counts := set_nth symbol (cnt + 1) (c_counts st);
       c_active := if cnt =? 0 then c_active st ++ [symbol] else c_active st;
       c_cells := c_cells st; c_out := c_out st |}.
Proof.
  intros I Hi Es Hs Hc.
  assert (Ecnt : cnt = count_eq symbol (c_tree st)).
  { apply nth_error_nth with (d := 0) in Hc. rewrite <- Hc. apply (si_counts _ _ _ _ I). exact Hs. }
  constructor; cbn [c_ctx c_start c_row c_tree c_counts c_active c_cells c_out].
  - pose proof (si_start _ _ _ _ I). lia.
  - exact (si_cov _ _ _ _ I).
  - pose proof (si_start _ _ _ _ I) as Hst.
    replace (S i - c_start st) with (S (i - c_start st)) by lia.
    rewrite firstn_skipn_snoc by lia. rewrite <- (si_tree _ _ _ _ I).
    replace (c_start st + (i - c_start st)) with i by lia. now rewrite Es.
  - exact (si_row _ _ _ _ I).
  - rewrite set_nth_length. exact (si_counts_len _ _ _ _ I).
  - intros c Hck. rewrite nth_set_nth by (rewrite (si_counts_len _ _ _ _ I); exact Hs).
    rewrite count_eq_app, count_eq_single. destruct (Nat.eqb_spec c symbol) as [->|NE].
    + rewrite Ecnt. reflexivity.
    + rewrite (si_counts _ _ _ _ I c Hck). lia.
  - destruct (Nat.eqb_spec cnt 0) as [Z|NZ]; [|exact (si_active_nd _ _ _ _ I)].
    apply NoDup_app_snoc; [exact (si_active_nd _ _ _ _ I)|].
    intros Hin. apply (si_active _ _ _ _ I) in Hin. lia.
  - intros c. rewrite count_eq_app, count_eq_single.
    destruct (Nat.eqb_spec cnt 0) as [Z|NZ].
    + rewrite in_app_iff. cbn [In]. rewrite (si_active _ _ _ _ I c).
      destruct (Nat.eqb_spec c symbol) as [->|NE]; [intuition lia|]. intuition lia.
    + rewrite (si_active _ _ _ _ I c). destruct (Nat.eqb_spec c symbol) as [->|NE]; [|intuition lia].
      split; [intros [A B]; split; [exact A|lia]|intros [A B]; split; [exact A|lia]].
  - exact (si_cells_len _ _ _ _ I).
  - exact (si_cells _ _ _ _ I).
Qed.

Lemma finv_restart K SY i f ctx : finv K SY i f ->
  sinv K SY i {| c_ctx := ctx; c_start := i; c_row := c_row f + 1; c_tree := c_tree f;
                 c_counts := c_counts f; c_active := c_active f; c_cells := c_cells f; c_out := c_out f |}.
Proof.
  intros Fi. constructor; cbn [c_ctx c_start c_row c_tree c_counts c_active c_cells c_out].
  - lia.
  - exact (fi_cov _ _ _ _ Fi).
  - rewrite (fi_tree _ _ _ _ Fi), Nat.sub_diag. reflexivity.
  - pose proof (fi_row _ _ _ _ Fi). lia.
  - exact (fi_counts_len _ _ _ _ Fi).
  - intros c Hc. rewrite (fi_counts _ _ _ _ Fi c Hc), (fi_tree _ _ _ _ Fi). reflexivity.
  - rewrite (fi_active _ _ _ _ Fi). constructor.
  - intros c. rewrite (fi_active _ _ _ _ Fi), (fi_tree _ _ _ _ Fi). cbn. lia.
  - exact (fi_cells_len _ _ _ _ Fi).
  - exact (fi_cells _ _ _ _ Fi).
Qed.

Lemma sinv_set_ctx K SY i st ctx : sinv K SY i st ->
  sinv K SY i {| c_ctx := ctx; c_start := c_start st; c_row := c_row st; c_tree := c_tree st;
                 c_counts := c_counts st; c_active := c_active st; c_cells := c_cells st; c_out := c_out st |}.
Proof. intros I. destruct I. constructor; assumption. Qed.

Section Loop.
  Variables (K m : nat) (F psi ipsi : list nat).
  Hypothesis HF : length F = m.
  Hypothesis HFK : Forall (fun s => s < K) F.
  Hypothesis Hpsi : length psi = m.
  Hypothesis Hpsi_lt : Forall (fun v => v < m) psi.
  Hypothesis Hipsi : length ipsi = m.
  Hypothesis Hipsi_lt : Forall (fun v => v < m) ipsi.

  Definition loop_syms : list nat := map (fun i => nth (nth i ipsi 0) F 0) (seq 0 m).

  Lemma loop_syms_length : length loop_syms = m.
  Proof. unfold loop_syms. now rewrite map_length, seq_length. Qed.

  Lemma loop_syms_nth i : i < m -> nth i loop_syms 0 = nth (nth i ipsi 0) F 0.
  Proof.
    intros Hi. unfold loop_syms.
    rewrite (nth_indep _ 0 ((fun i => nth (nth i ipsi 0) F 0) 0)) by (rewrite map_length, seq_length; exact Hi).
    rewrite (map_nth (fun i => nth (nth i ipsi 0) F 0) (seq 0 m) 0 i). now rewrite seq_nth.
  Qed.

  Lemma F_lt j : j < m -> nth j F 0 < K.
  Proof. intros Hj. rewrite Forall_forall in HFK. apply HFK, nth_In. lia. Qed.

  Lemma step_inv i st : sinv K loop_syms i st -> (0 < i -> c_start st < i) -> i < m ->
    exists st', stream_step m F psi st i (nth i ipsi 0) = Ok st' /\ sinv K loop_syms (S i) st' /\ c_start st' < S i.
  Proof.
    intros I Hne Hi. unfold stream_step.
    destruct (Nat.leb_spec m i); [lia|].
    rewrite (nth_error_nth' F 0) by lia. cbn [unwrap rbind].
    rewrite (nth_error_nth' psi 0) by lia. cbn [unwrap rbind].
    assert (Hp : nth i psi 0 < m) by (rewrite Forall_forall in Hpsi_lt; apply Hpsi_lt, nth_In; lia).
    destruct (Nat.leb_spec m (nth i psi 0)); [lia|].
    rewrite (nth_error_nth' F 0) by lia. cbn [unwrap rbind].
    assert (Hx : nth i ipsi 0 < m) by (rewrite Forall_forall in Hipsi_lt; apply Hipsi_lt, nth_In; lia).
    destruct (Nat.leb_spec m (nth i ipsi 0)); [lia|].
    rewrite (nth_error_nth' F 0) by lia. cbn [unwrap rbind].
    set (tmp := (nth i F 0, nth (nth i psi 0) F 0)).
    (* the state after the row decision satisfies the invariant at i *)
    match goal with |- context [nth_error (c_counts ?s1) _] => set (st1 := s1) end.
    assert (I1 : sinv K loop_syms i st1 /\ c_start st1 <= i).
    { unfold st1. destruct (ctx_eqb (c_ctx st) tmp).
      - split; [exact I|exact (si_start _ _ _ _ I)].
      - destruct (Nat.ltb_spec 0 i) as [Hpos|Hz].
        + split; [|cbn; lia].
          (* a new row: flush what was collected since c_start *)
          destruct (flush_inv K loop_syms i st I (Hne Hpos) ltac:(rewrite loop_syms_length; lia)) as [Fi _].
          apply (finv_restart K loop_syms i (flush_context st) tmp Fi).
        + assert (i = 0) by lia. subst i. split; [|cbn; lia].
          pose proof (sinv_set_ctx K loop_syms 0 st tmp I) as I'.
          assert (Z : c_start st = 0) by (pose proof (si_start _ _ _ _ I); lia). rewrite Z in I'. exact I'. }
    destruct I1 as [I1 Hs1].
    assert (Hsym : nth (nth i ipsi 0) F 0 < K) by (now apply F_lt).
    rewrite (nth_error_nth' (c_counts st1) 0) by (rewrite (si_counts_len _ _ _ _ I1); exact Hsym).
    cbn [unwrap rbind]. eexists. split; [reflexivity|]. split.
    - apply push_inv; [exact I1|rewrite loop_syms_length; exact Hi|now rewrite loop_syms_nth|exact Hsym|].
      apply nth_error_nth'. rewrite (si_counts_len _ _ _ _ I1). exact Hsym.
    - cbn [c_start]. lia.
  Qed.

  Lemma loop_inv rem : forall i st, rem = skipn i ipsi -> sinv K loop_syms i st ->
    (0 < i -> c_start st < i) -> i <= m ->
    exists st', stream_loop m F psi st i rem = Ok st' /\ sinv K loop_syms m st' /\ (0 < m -> c_start st' < m).
  Proof.
    induction rem as [|x rem IH]; intros i st Hrem I Hne Hi.
    - assert (i = m).
      { apply (f_equal (@length nat)) in Hrem. rewrite skipn_length, Hipsi in Hrem. cbn in Hrem. lia. }
      subst i. exists st. split; [reflexivity|]. split; [exact I|exact Hne].
    - assert (Him : i < m).
      { apply (f_equal (@length nat)) in Hrem. rewrite skipn_length, Hipsi in Hrem. cbn in Hrem. lia. }
      rewrite (skipn_cons_nth ipsi i 0) in Hrem by lia. injection Hrem as Hx Hrem'.
      cbn [stream_loop]. subst x.
      destruct (step_inv i st I Hne Him) as (st1 & E1 & I1 & S1). rewrite E1. cbn [rbind].
      apply (IH (S i) st1 Hrem' I1); [intros _; exact S1|lia].
  Qed.

  Definition st_init : cstate :=
    {| c_ctx := (0, 0); c_start := 0; c_row := 0; c_tree := [];
       c_counts := repeat 0 K; c_active := [];
       c_cells := repeat [] K; c_out := [] |}.

  Lemma st_init_inv : sinv K loop_syms 0 st_init.
  Proof.
    constructor; cbn [st_init c_ctx c_start c_row c_tree c_counts c_active c_cells c_out].
    - lia.
    - reflexivity.
    - reflexivity.
    - reflexivity.
    - apply repeat_length.
    - intros c Hc. now rewrite nth_repeat_aux.
    - constructor.
    - intros c. cbn. lia.
    - apply repeat_length.
    - intros c Hc. now rewrite nth_repeat_aux.
  Qed.

  Hypothesis Hm : 0 < m.

  Lemma loop_result : exists st,
    stream_loop m F psi st_init 0 ipsi = Ok st /\ finv K loop_syms m (flush_context st).
  Proof.
    destruct (loop_inv ipsi 0 st_init eq_refl st_init_inv ltac:(lia) ltac:(lia)) as (st & E & I & S).
    exists st. split; [exact E|].
    apply (flush_inv K loop_syms m st I (S Hm)). rewrite loop_syms_length. lia.
  Qed.
End Loop.

(* ------------------------------------------------------------------ the y_key / y_value pass *)
Definition pushes (sum : nat) (sizes : list nat) : list nat :=
  flat_map (fun t => if 0 <? sum + cstart sizes t then [sum + cstart sizes t - 1] else [])
           (seq 0 (length sizes)).

Lemma pushes_cons sum c sizes :
  pushes sum (c :: sizes) = (if 0 <? sum then [sum - 1] else []) ++ pushes (sum + c) sizes.
Proof.
  unfold pushes. cbn [length seq flat_map]. rewrite cstart_0, Nat.add_0_r. f_equal.
  rewrite <- seq_shift, flat_map_concat_map, map_map, <- flat_map_concat_map.
  apply flat_map_ext. intros t. rewrite cstart_cons. now rewrite Nat.add_assoc.
Qed.

Lemma y_fold_spec l : forall sum yk yv,
  y_fold l sum yk yv = (sum + sumn (map snd l), yk ++ pushes sum (map snd l), yv ++ map fst l).
Proof.
  induction l as [|[r c] l IH]; intros sum yk yv; cbn [y_fold map fst snd].
  - unfold pushes, sumn. cbn. now rewrite Nat.add_0_r, !app_nil_r.
  - rewrite IH, pushes_cons. f_equal; [f_equal|].
    + unfold sumn. cbn [fold_right]. lia.
    + destruct (0 <? sum); [now rewrite <- app_assoc|reflexivity].
    + now rewrite <- app_assoc.
Qed.

Lemma pushes_zero_ends sizes : Forall (fun s => 1 <= s) sizes -> sizes <> [] ->
  pushes 0 sizes ++ [sumn sizes - 1] = cell_ends sizes.
Proof.
  intros Hp Hne. unfold pushes, cell_ends.
  assert (HL : exists L', length sizes = S L') by (destruct sizes; [contradiction|cbn; eauto]).
  destruct HL as (L' & HL). rewrite HL.
  rewrite <- (cons_seq L' 0). cbn [flat_map]. rewrite cstart_0. cbn [Nat.add].
  destruct (Nat.ltb_spec 0 0); [lia|]. cbn [app].
  rewrite (seq_S L' 1), map_app. cbn [map]. f_equal.
  - rewrite flat_map_concat_map.
    assert (G : forall l, Forall (fun t => 1 <= t /\ t <= length sizes) l ->
              concat (map (fun t => if 0 <? 0 + cstart sizes t then [0 + cstart sizes t - 1] else []) l)
              = map (fun t => cstart sizes t - 1) l).
    { induction 1 as [|t l Ht Hl IHl]; [reflexivity|]. cbn [map concat]. rewrite IHl. cbn [Nat.add].
      pose proof (cstart_mono sizes Hp 0 t ltac:(lia) ltac:(lia)) as M. rewrite cstart_0 in M.
      destruct (Nat.ltb_spec 0 (cstart sizes t)); [reflexivity|lia]. }
    apply G. apply Forall_forall. intros t Ht. apply in_seq in Ht. lia.
  - f_equal. rewrite cstart_all by lia. reflexivity.
Qed.

(* ------------------------------------------------------------------ the constructor, assembled *)
Section Construct.
  Variable text : list N.
  Let n := length text.
  Let sg := the_sigma text.
  Let T := sigma_string text.
  Let sa := suffix_array T.
  Let isa := inverse sa.
  Let psi := psi_of sa isa.
  Let ipsi := inverse psi.
  Let K := sigma_K sg.
  Let buckets := running 0 (map snd (sigma_counts text)).
  Let SY := wt_syms T sa n.

  Let Hsa : is_suffix_array T sa := suffix_array_ok T.
  Let HT : length T = S n := so_T_length text.
  Let Hterm : nth n T 0 = 0 := so_T_term text.
  Let Hpos : forall p, p < n -> 0 < nth p T 0 := so_T_pos text.
  Let Hio : index_ok text sg T sa := sigma_index_ok text sa Hsa.

  Lemma cs_K : K = S (length (sigma_counts text)).
  Proof. unfold K, sigma_K, sg. cbn [s2c the_sigma]. rewrite so_len_s2c. lia. Qed.

  Lemma cs_HK j : j < S n -> fs T sa j < K.
  Proof.
    intros Hj. rewrite cs_K. pose proof (so_fs_le text sa Hsa j Hj) as H.
    change (fs T sa j <= length (sigma_counts text)) in H. lia.
  Qed.

  Lemma cs_limits : bucket_limits sg = Ok (map S buckets).
  Proof.
    unfold bucket_limits. rewrite (mapM_ok _ (fun i => S (nth i buckets 0))).
    - f_equal. fold K. rewrite cs_K, <- (so_buckets_length text). fold buckets.
      rewrite <- (map_nth_seq buckets) at 2. now rewrite map_map.
    - intros i Hi. apply in_seq in Hi. fold K in Hi. rewrite cs_K in Hi.
      unfold sg. rewrite (so_select text (i + 1)) by lia. fold buckets. cbn [ok_or].
      replace (i + 1 - 1) with i by lia. reflexivity.
  Qed.

  Definition Fsyms : list nat := map (fs T sa) (seq 0 (S n)).

  Lemma cs_s2s : sa_to_sigma_build (map S buckets) 0 0 (S n) = Ok Fsyms.
  Proof.
    destruct (sa_to_sigma_build_spec (map S buckets) 0 0 (S n)) as (F & EF & LF & NF).
    - (* sorted *)
      pose proof (so_buckets_sinc text) as Sb. fold buckets in Sb. clear - Sb.
      induction Sb as [|x l Hs IH Hf]; cbn [map]; constructor; [exact IH|].
      apply Forall_map. eapply Forall_impl; [|exact Hf]. cbn. intros; lia.
    - apply Forall_map. pose proof (so_buckets_lt text) as Lb. fold buckets n in Lb.
      eapply Forall_impl; [|exact Lb]. cbn. intros; lia.
    - (* last *)
      assert (Hne : buckets <> []) by (unfold buckets; destruct (map snd (sigma_counts text)); discriminate).
      assert (E : last (map S buckets) 0 = S (last buckets 0)).
      { clear - Hne. induction buckets as [|x l IH]; [contradiction|]. destruct l as [|y l]; [reflexivity|].
        change (last (map S (x :: y :: l)) 0) with (last (map S (y :: l)) 0).
        change (last (x :: y :: l) 0) with (last (y :: l) 0). apply IH. discriminate. }
      rewrite E. unfold buckets. rewrite running_last, so_total. fold n. lia.
    - rewrite EF. f_equal. apply (nth_ext _ _ 0 0).
      + unfold Fsyms. rewrite map_length, seq_length. lia.
      + intros j Hj. rewrite LF in Hj. rewrite NF by exact Hj. cbn [Nat.add].
        unfold Fsyms. rewrite (nth_indep _ 0 (fs T sa 0)) by (rewrite map_length, seq_length; lia).
        rewrite (map_nth (fs T sa) (seq 0 (S n)) 0 j), seq_nth by lia. cbn [Nat.add].
        pose proof (so_rank text sa Hsa j ltac:(fold n; lia)) as R.
        change (count_lt buckets j = fs T sa j) in R. rewrite <- R. unfold count_lt.
        clear. induction buckets as [|b l IH]; [reflexivity|]. cbn [map filter].
        destruct (Nat.leb_spec (S b) j), (Nat.ltb_spec b j); cbn [length]; lia.
  Qed.

  Lemma Fsyms_nth j : j < S n -> nth j Fsyms 0 = fs T sa j.
  Proof.
    intros Hj. unfold Fsyms. rewrite (nth_indep _ 0 (fs T sa 0)) by (rewrite map_length, seq_length; lia).
    rewrite (map_nth (fs T sa) (seq 0 (S n)) 0 j), seq_nth by lia. reflexivity.
  Qed.

  Lemma cs_loop_syms : loop_syms (S n) Fsyms ipsi = SY.
  Proof.
    unfold loop_syms, SY, wt_syms. apply map_ext_in. intros i Hi. apply in_seq in Hi.
    apply Fsyms_nth. apply (psi_ipsi T sa n Hsa HT Hterm Hpos i ltac:(lia)).
  Qed.

  Theorem wpsi_construct_ok : exists w, wpsi_construct sg psi = Ok w /\ wstruct K SY w.
  Proof.
    pose proof (ix_psi_length T sa n Hsa HT Hterm Hpos) as Lpsi. fold isa psi in Lpsi.
    pose proof (ipsi_length T sa n Hsa HT Hterm Hpos) as Lipsi. change (length ipsi = S n) in Lipsi.
    unfold wpsi_construct. rewrite cs_limits. cbn [rbind].
    assert (Lb : length (map S buckets) = K) by (rewrite map_length, cs_K; exact (so_buckets_length text)).
    rewrite Lb. fold K. rewrite Nat.eqb_refl, Lpsi, cs_s2s.
    cbn [rbind].
    destruct (loop_result K (S n) Fsyms psi ipsi) as (st & Est & Fi).
    - unfold Fsyms. now rewrite map_length, seq_length.
    - apply Forall_forall. intros s Hs. unfold Fsyms in Hs. apply in_map_iff in Hs.
      destruct Hs as (j & <- & Hj). apply in_seq in Hj. apply cs_HK. lia.
    - exact Lpsi.
    - pose proof (psi_bounded T sa n Hsa HT Hterm Hpos) as B. fold isa psi in B. now rewrite Lpsi in B.
    - exact Lipsi.
    - apply Forall_forall. intros v Hv. destruct (In_nth _ _ 0 Hv) as (i & Hi & <-).
      rewrite Lipsi in Hi.
      apply (psi_ipsi T sa n Hsa HT Hterm Hpos i Hi).
    - lia.
    - fold ipsi. unfold st_init in Est. rewrite Est. cbn [rbind].
      rewrite Lipsi, Nat.eqb_refl. cbn [negb].
      rewrite cs_loop_syms in Fi.
      set (f := flush_context st) in *.
      set (rows := c_out f).
      assert (Hcov : covers SY rows 0).
      { apply pcovers_covers. unfold SY. rewrite (wt_syms_length T sa n Hsa HT Hterm Hpos). exact (fi_cov _ _ _ _ Fi). }
      (* the cells, column by column *)
      assert (Ecells : c_cells f = map (fun c => col_cells c rows) (seq 0 K)).
      { apply (nth_ext _ _ [] []).
        - now rewrite (fi_cells_len _ _ _ _ Fi), map_length, seq_length.
        - intros c Hc. rewrite (fi_cells_len _ _ _ _ Fi) in Hc. rewrite (fi_cells _ _ _ _ Fi c Hc).
          rewrite (nth_indep _ [] ((fun c => col_cells c rows) 0)) by (rewrite map_length, seq_length; exact Hc).
          rewrite (map_nth (fun c => col_cells c rows) (seq 0 K) 0 c), seq_nth by exact Hc. reflexivity. }
      assert (Eval : map fst (concat (c_cells f)) = map snd (cells K rows)).
      { rewrite Ecells. unfold cells. generalize (seq 0 K) as l. induction l as [|c l IH]; [reflexivity|].
        cbn [map concat flat_map]. rewrite !map_app, IH. f_equal. unfold col_cells. rewrite !map_map. cbn [fst snd].
        reflexivity. }
      assert (Esz : map snd (concat (c_cells f)) = map (cell_size rows) (cells K rows)).
      { rewrite Ecells. unfold cells. generalize (seq 0 K) as l. induction l as [|c l IH]; [reflexivity|].
        cbn [map concat flat_map]. rewrite !map_app, IH. f_equal. unfold col_cells, cell_size. rewrite !map_map. cbn [fst snd].
        reflexivity. }
      (* a table with these rows is structurally well-formed whatever its y_key: use it to count *)
      set (sizes := map (cell_size rows) (cells K rows)).
      set (w0 := {| w_table := rows; w_ykey := bits_of_indices (length SY) (cell_ends sizes);
                    w_yvalue := map snd (cells K rows) |}).
      assert (Hw0 : wstruct K SY w0) by (constructor; [exact Hcov|reflexivity|reflexivity]).
      pose proof (sizes_total T sa n Hsa HT Hterm Hpos K cs_HK w0 Hw0) as Htot. cbn [w0 w_table] in Htot. fold sizes in Htot.
      pose proof (sizes_pos T sa n Hsa HT Hterm Hpos K cs_HK w0 Hw0) as Hpos'. cbn [w0 w_table] in Hpos'. fold sizes in Hpos'.
      rewrite y_fold_spec, Esz, Eval. fold sizes. cbn [Nat.add]. rewrite Htot.
      destruct (Nat.eqb_spec (S n) 0); [lia|]. cbn [app].
      assert (Hne : sizes <> []) by (intros Z; rewrite Z in Htot; cbn in Htot; lia).
      replace (pushes 0 sizes ++ [S n - 1]) with (cell_ends sizes)
        by (rewrite <- Htot; symmetry; apply (pushes_zero_ends sizes Hpos' Hne)).
      unfold from_indices. replace ((4 <=? 128) && (128 <? 256)) with true by reflexivity.
      rewrite (sinc_strictly_increasing _ (cell_ends_sinc sizes Hpos')).
      replace (forallb (fun i => i <? S n) (cell_ends sizes)) with true.
      + cbn [ok_or rbind]. eexists. split; [reflexivity|]. constructor; cbn [w_table w_ykey w_yvalue].
        * exact Hcov.
        * reflexivity.
        * fold sizes. unfold SY. now rewrite (wt_syms_length T sa n Hsa HT Hterm Hpos).
      + symmetry. apply forallb_forall. intros x Hx. apply Nat.ltb_lt.
        pose proof (cell_ends_lt sizes Hpos') as Hl. rewrite Forall_forall in Hl. specialize (Hl x Hx). lia.
  Qed.

  Theorem wavelet_psi_ok_all : wavelet_psi_ok text.
  Proof.
    unfold wavelet_psi_ok. fold T sa isa psi sg n.
    destruct wpsi_construct_ok as (w & Cw & Sw). exists w. split; [exact Cw|].
    apply (wpsi_psi_ok text sg T sa Hio K cs_HK w Sw).
  Qed.
End Construct.

(* ------------------------------------------------------------------ CompressedDocument, unconditionally *)
Theorem compressed_doc_correct text rb : check_record_boundaries text rb = true ->
  exists d, construct_compressed text rb = Ok d /\ answers_as_scan text rb d.
Proof.
  intros Hc. apply (compressed_doc_correct_given text rb Hc). apply wavelet_psi_ok_all.
Qed.

(* PsiDocument over the reference arrays and the wavelet-tree psi *)
Theorem wavelet_doc_correct text rb : check_record_boundaries text rb = true ->
  exists d, construct_wavelet_doc text rb = Ok d /\ answers_as_scan text rb d.
Proof.
  intros Hc. destruct (wavelet_psi_ok_all text) as (w & Cw & Hpsi).
  destruct (construct_parts_ok text rb Hc) as (p & Cp & Erb & Esg & ES & Esa & Eisa & Epsi & Hio).
  unfold construct_wavelet_doc. rewrite Cp. cbn [rbind].
  assert (Ew : wpsi_construct (pt_sigma p) (pt_psi p) = Ok w).
  { rewrite Esg, Epsi, Eisa, Esa. exact Cw. }
  rewrite Ew. cbn [rbind]. eexists. split; [reflexivity|].
  apply check_record_boundaries_valid in Hc.
  pose proof (io_sa _ _ _ _ Hio) as Hsa. pose proof (io_len _ _ _ _ Hio) as HT.
  pose proof (io_term _ _ _ _ Hio) as Hterm. pose proof (io_pos _ _ _ _ Hio) as Hpos.
  apply (doc_answers text rb (pt_sigma p) (pt_S p) (pt_sa p) Hio Hc); cbn [d_sigma d_rb d_psi d_sa d_isa].
  - reflexivity.
  - exact Erb.
  - rewrite Esg, ES, Esa. exact Hpsi.
  - intros i _ Hi. unfold rsa_lookup.
    rewrite (nth_error_nth' _ 0) by (rewrite (ix_sa_length _ _ _ Hsa HT Hterm Hpos); exact Hi). reflexivity.
  - intros r Hr. unfold risa_lookup. rewrite Eisa.
    rewrite (nth_error_nth' _ 0); [reflexivity|].
    rewrite (ix_isa_length _ _ _ Hsa HT Hterm Hpos). pose proof (rb_nth_lt _ _ Hc r Hr). lia.
Qed.
