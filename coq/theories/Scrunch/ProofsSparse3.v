(* Scrunch/ProofsSparse3.v — sparse::BitVector::from_indices builds a well-formed tree; hence the
   sparse bit vector answers access, rank and select as the plain bit array, for every bit pattern. *)
From Coq Require Import Arith List Bool Lia Sorted.
From Blue Require Import Scrunch.ModelBits Scrunch.Model Scrunch.ModelSparse Scrunch.ProofsBits
  Scrunch.ProofsSorted Scrunch.ProofsSparse1 Scrunch.ProofsSparse2.
Import ListNotations.

Arguments Nat.sub : simpl never.
Arguments Nat.div : simpl never.
Arguments Nat.modulo : simpl never.
Arguments Nat.leb : simpl never.
Arguments Nat.ltb : simpl never.
Arguments Nat.eqb : simpl never.
Arguments Nat.pow : simpl never.

(* ------------------------------------------------------------------ list facts *)
Lemma firstn_seq a n k : k <= n -> firstn k (seq a n) = seq a k.
Proof.
  revert a n. induction k as [|k IH]; intros a n H; [reflexivity|].
  destruct n as [|n]; [lia|]. cbn [seq firstn]. f_equal. apply IH. lia.
Qed.

Lemma skipn_seq a n k : skipn k (seq a n) = seq (a + k) (n - k).
Proof.
  revert a n. induction k as [|k IH]; intros a n.
  - cbn [skipn]. f_equal; lia.
  - destruct n as [|n]; [reflexivity|]. cbn [seq skipn]. rewrite IH. f_equal; lia.
Qed.

Lemma seq_sinc a n : sinc (seq a n).
Proof.
  revert a. induction n as [|n IH]; intros a; cbn [seq]; constructor; [apply IH|].
  apply Forall_forall. intros y Hy. apply in_seq in Hy. lia.
Qed.

Lemma removelast_firstn_aux {A} (l : list A) n : 1 <= n -> n <= length l ->
  removelast (firstn n l) = firstn (n - 1) l.
Proof.
  revert n. induction l as [|x l IH]; intros n H1 H2; [cbn in H2; lia|].
  destruct n as [|n]; [lia|]. destruct n as [|n]; [reflexivity|].
  destruct l as [|y l]; [cbn in H2; lia|].
  change (firstn (S (S n)) (x :: y :: l)) with (x :: firstn (S n) (y :: l)).
  change (firstn (S n) (y :: l)) with (y :: firstn n l) at 1.
  rewrite removelast_cons2. change (y :: firstn n l) with (firstn (S n) (y :: l)).
  rewrite IH by (cbn in *; lia). replace (S (S n) - 1) with (S (S n - 1)) by lia. reflexivity.
Qed.

Lemma removelast_skipn_aux {A} (l : list A) n : n < length l -> removelast (skipn n l) = skipn n (removelast l).
Proof.
  revert l. induction n as [|n IH]; intros l H; [reflexivity|].
  destruct l as [|x l]; [cbn in H; lia|]. destruct l as [|y l]; [cbn in H; lia|].
  rewrite removelast_cons2. cbn [skipn]. apply IH. cbn in *. lia.
Qed.

Lemma firstn_removelast_aux {A} (l : list A) n : n < length l -> firstn n (removelast l) = firstn n l.
Proof.
  revert n. induction l as [|x l IH]; intros n H; [cbn in H; lia|].
  destruct l as [|y l]; [destruct n; [reflexivity|cbn in H; lia]|].
  rewrite removelast_cons2. destruct n as [|n]; [reflexivity|]. cbn [firstn]. f_equal. apply IH. cbn in *. lia.
Qed.

Lemma nth_removelast_aux {A} (l : list A) j d : j < length l - 1 -> nth j (removelast l) d = nth j l d.
Proof.
  revert j. induction l as [|x l IH]; intros j H; [cbn in H; lia|].
  destruct l as [|y l]; [cbn in H; lia|]. rewrite removelast_cons2.
  destruct j as [|j]; [reflexivity|]. cbn [nth]. apply IH. cbn in *. lia.
Qed.

Lemma nth_firstn_lt {A} (l : list A) k i d : i < k -> nth i (firstn k l) d = nth i l d.
Proof.
  revert k i. induction l as [|x l IH]; intros k i H; [now rewrite firstn_nil|].
  destruct k as [|k]; [lia|]. destruct i as [|i]; [reflexivity|]. cbn. apply IH. lia.
Qed.

Lemma In_firstn_sub {A} (l : list A) k a : In a (firstn k l) -> In a l.
Proof.
  revert k. induction l as [|y l IH]; intros [|k] H; cbn in *; try contradiction.
  destruct H as [->|H]; [now left|right; eauto].
Qed.

Lemma firstn_firstn_le {A} (l : list A) a b : a <= b -> firstn a (firstn b l) = firstn a l.
Proof. intros H. rewrite firstn_firstn. f_equal. lia. Qed.

Lemma last_app_nonempty {A} (c r : list A) d : r <> [] -> last (c ++ r) d = last r d.
Proof.
  intros Hr. induction c as [|x c IH]; [reflexivity|]. cbn [app].
  destruct (c ++ r) as [|y t] eqn:E; [destruct c; [contradiction|discriminate]|].
  change (last (x :: y :: t) d) with (last (y :: t) d). exact IH.
Qed.

Lemma lastv_concat (g : list (list nat)) : g <> [] -> (forall c, In c g -> c <> []) ->
  lastv (concat g) = lastv (last g []).
Proof.
  induction g as [|c g IH]; intros Hne Hall; [contradiction|].
  destruct g as [|c2 g].
  - cbn [concat last]. now rewrite app_nil_r.
  - change (last (c :: c2 :: g) []) with (last (c2 :: g) []). rewrite <- IH by (try discriminate; intros d Hd; apply Hall; now right).
    cbn [concat]. unfold lastv. apply last_app_nonempty.
    intros E. apply app_eq_nil in E. destruct E as [E _]. apply (Hall c2); [right; now left|exact E].
Qed.

(* chunked: splitting off a prefix of the chunks *)
Lemma chunked_split {A} k (cs' : list (list A)) : cs' <> [] -> forall g l, chunked k l (g ++ cs') ->
  exists l1 l2, l = l1 ++ l2 /\ l1 = concat g /\ chunked k l2 cs' /\ (g <> [] -> chunked k l1 g).
Proof.
  intros Hne. induction g as [|c g IHg]; intros l H; cbn [app] in H.
  - exists [], l. repeat split; [exact H|intros; contradiction].
  - inversion H as [? ? ?|c0 l0 cs0 Hc0 Hch0].
    + exfalso. destruct g; cbn in *; try discriminate. apply Hne. congruence.
    + subst. destruct (IHg l0 Hch0) as (l1 & l2 & E & E1 & E3 & E4).
      exists (c ++ l1), l2. rewrite E. split; [now rewrite app_assoc|]. split; [cbn; now rewrite E1|].
      split; [exact E3|]. intros _. destruct g as [|c2 g].
      * cbn in E1. subst l1. rewrite app_nil_r. pose proof (chunked_pos _ _ _ Hch0) as [Hk1 _]. apply ch_last; lia.
      * apply ch_cons; [reflexivity|]. apply E4. discriminate.
Qed.

(* ------------------------------------------------------------------ the constructor in closed form *)
Definition leaf_nodes (B : nat) (cs : list (list nat)) : list snode := map (fun c => SLeaf (mk_slice B c)) cs.

Definition mknode (B : nat) (g : list (list nat)) (pg : list nat) : snode :=
  SInternal (mk_slice (B - 1) (map lastv (removelast g))) (mk_slice B pg).

Fixpoint nodes_of (B a : nat) (gs : list (list (list nat))) : list snode :=
  match gs with
  | [] => []
  | g :: r => mknode B g (seq a (length g)) :: nodes_of B (a + length g) r
  end.

Lemma build_leaves_closed B fuel : 1 <= B -> forall idx nodes, idx <> [] -> length idx < fuel ->
  exists cs, chunked B idx cs /\
    build_leaves fuel B idx nodes = (map lastv cs, seq (length nodes) (length cs), nodes ++ leaf_nodes B cs).
Proof.
  intros HB. induction fuel as [|f IH]; intros idx nodes Hne Hf; [lia|].
  cbn [build_leaves]. destruct idx as [|i0 idx0] eqn:Ei; [contradiction|]. rewrite <- Ei in *.
  destruct (Nat.le_gt_cases (length idx) B) as [Hle|Hgt].
  - (* the last leaf *)
    rewrite firstn_all2 by exact Hle. rewrite skipn_all2 by exact Hle.
    exists [idx]. split; [apply ch_last; [rewrite Ei; cbn; lia|exact Hle]|].
    destruct f as [|f']; [rewrite Ei in Hf; cbn in Hf; lia|]. cbn [build_leaves map leaf_nodes seq length]. reflexivity.
  - assert (Hsk : skipn B idx <> []).
    { intros E. apply (f_equal (@length nat)) in E. rewrite skipn_length in E. cbn in E. lia. }
    destruct (IH (skipn B idx) (nodes ++ [SLeaf (mk_slice B (firstn B idx))]) Hsk) as (cs & Hch & Eb).
    { rewrite skipn_length. lia. }
    rewrite Eb. exists (firstn B idx :: cs). split.
    + rewrite <- (firstn_skipn B idx) at 1. apply ch_cons; [rewrite firstn_length; lia|exact Hch].
    + cbn [map leaf_nodes seq length]. rewrite app_length. cbn [length].
      replace (length nodes + 1) with (S (length nodes)) by lia. rewrite <- app_assoc. reflexivity.
Qed.

Lemma build_level_closed B fuel : 1 <= B -> forall divs a cs nodes,
  1 <= length cs -> length cs < fuel -> (forall c, In c cs -> c <> []) ->
  firstn (length cs - 1) divs = map lastv (removelast cs) ->
  exists gs, chunked B cs gs /\
    build_level fuel B divs (seq a (length cs)) nodes =
    (map lastv (removelast (map (@concat nat) gs)), seq (length nodes) (length gs), nodes ++ nodes_of B a gs).
Proof.
  intros HB. induction fuel as [|f IH]; intros divs a cs nodes H1 Hf Hall Hd; [lia|].
  cbn [build_level]. rewrite seq_length.
  destruct (Nat.ltb_spec B (length cs)) as [Hgt|Hle].
  - set (g := firstn B cs). set (rest := skipn B cs).
    assert (Hg : length g = B) by (unfold g; rewrite firstn_length; lia).
    assert (Hrl : length rest = length cs - B) by (unfold rest; apply skipn_length).
    assert (Hcs : cs = g ++ rest) by (unfold g, rest; symmetry; apply firstn_skipn).
    destruct (IH (skipn B divs) (a + B) rest (nodes ++ [mknode B g (seq a B)])) as (gs & Hch & Eb).
    + lia.
    + lia.
    + intros c Hc. apply Hall. rewrite Hcs. apply in_or_app. now right.
    + rewrite Hrl. unfold rest. rewrite removelast_skipn_aux by lia. rewrite <- skipn_map.
      rewrite <- Hd. rewrite skipn_firstn_comm. f_equal. lia.
    + (* the node written for this group is mknode g *)
      assert (Enode : SInternal (mk_slice (B - 1) (firstn (B - 1) divs)) (mk_slice B (firstn B (seq a (length cs)))) = mknode B g (seq a B)).
      { unfold mknode. rewrite firstn_seq by lia. f_equal. f_equal.
        unfold g. rewrite removelast_firstn_aux by lia.
        rewrite <- (firstn_firstn_le divs (B - 1) (length cs - 1)) by lia. rewrite Hd.
        rewrite firstn_map. f_equal. apply firstn_removelast_aux. lia. }
      rewrite Enode, skipn_seq. rewrite <- Hrl. fold rest. rewrite Eb.
      exists (g :: gs). split; [rewrite Hcs; apply ch_cons; [exact Hg|exact Hch]|].
      destruct (chunked_tail_nonempty _ _ _ Hch) as (g2 & gs2 & Egs).
      cbn [map nodes_of length seq]. rewrite Hg, app_length. cbn [length].
      replace (length nodes + 1) with (S (length nodes)) by lia. rewrite <- app_assoc. cbn [app].
      f_equal. f_equal.
      rewrite Egs. cbn [map]. rewrite removelast_cons2. cbn [map]. f_equal.
      (* the promoted divider is the last index under this group *)
      assert (Hnth : nth (B - 1) divs 0 = lastv (nth (B - 1) cs [])).
      { assert (E : nth (B - 1) (firstn (length cs - 1) divs) 0 = nth (B - 1) divs 0) by (apply nth_firstn_lt; lia).
        rewrite <- E, Hd. rewrite (nth_indep _ 0 (lastv [])) by (rewrite map_length, removelast_length_aux; lia).
        rewrite (map_nth lastv). f_equal. apply nth_removelast_aux. lia. }
      rewrite Hnth. rewrite lastv_concat.
      * f_equal. unfold g. rewrite (last_nth_aux (firstn B cs)) by (intros E; apply (f_equal (@length (list nat))) in E; rewrite firstn_length in E; cbn in E; lia).
        rewrite firstn_length. replace (Nat.min B (length cs) - 1) with (B - 1) by lia.
        symmetry. apply nth_firstn_lt. lia.
      * intros E. unfold g in E. apply (f_equal (@length (list nat))) in E. rewrite firstn_length in E. cbn in E. lia.
      * intros c Hc. apply Hall. unfold g in Hc. eapply In_firstn_sub; eauto.
  - destruct (Nat.ltb_spec 0 (length cs)); [|lia].
    exists [cs]. split; [apply ch_last; lia|]. cbn [map nodes_of removelast length seq]. rewrite Hd. reflexivity.
Qed.

(* ------------------------------------------------------------------ the closed form is a well-formed tree *)
Definition vb (B : nat) (nodes : list snode) : sparse :=
  {| sv_length := 0; sv_branch := B; sv_nodes := nodes; sv_root := 0; sv_levels := 0 |}.

Lemma wf_mono v v' : sv_branch v' = sv_branch v ->
  (forall a n, nth_error (sv_nodes v) a = Some n -> nth_error (sv_nodes v') a = Some n) ->
  forall h a c, wf v h a c -> wf v' h a c.
Proof.
  intros Hb Hn. induction h as [|h IH]; intros a c Hw.
  - inversion Hw as [a' c' E H1 H2|]; subst. apply wf_leaf; rewrite ?Hb; [now apply Hn|exact H1|exact H2].
  - inversion Hw as [|h' a' c' cs ptrs E Hch Hf Hl Hs]; subst.
    apply (wf_node v' h a c cs ptrs); rewrite ?Hb; try assumption.
    + now apply Hn.
    + unfold cap in *. now rewrite Hb.
    + clear - Hf IH. induction Hf; constructor; auto.
Qed.

Lemma nth_error_prefix {A} (l ext : list A) a n : nth_error l a = Some n -> nth_error (l ++ ext) a = Some n.
Proof. intros H. rewrite nth_error_app1; [exact H|]. apply nth_error_Some. congruence. Qed.

Lemma Forall2_seq {Y} (R : nat -> Y -> Prop) (d : Y) l : forall a,
  (forall j, j < length l -> R (a + j) (nth j l d)) -> Forall2 R (seq a (length l)) l.
Proof.
  induction l as [|y l IH]; intros a H; cbn [length seq]; constructor.
  - specialize (H 0 ltac:(cbn; lia)). now rewrite Nat.add_0_r in H.
  - apply IH. intros j Hj. specialize (H (S j) ltac:(cbn; lia)). now replace (S a + j) with (a + S j) by lia.
Qed.

Lemma leaves_wf B nodes idx cs : chunked B idx cs ->
  Forall2 (wf (vb B (nodes ++ leaf_nodes B cs)) 0) (seq (length nodes) (length cs)) cs.
Proof.
  intros Hch. apply (Forall2_seq _ []). intros j Hj.
  pose proof (chunked_nonempty _ _ _ Hch) as [_ Hall]. rewrite Forall_forall in Hall.
  specialize (Hall (nth j cs []) (nth_In _ _ Hj)).
  apply wf_leaf; cbn [vb sv_nodes sv_branch]; [|lia|lia].
  rewrite nth_error_app2 by lia. replace (length nodes + j - length nodes) with j by lia.
  unfold leaf_nodes. rewrite (nth_error_nth' _ (SLeaf (mk_slice B []))) by (now rewrite map_length).
  f_equal. apply (map_nth (fun c => SLeaf (mk_slice B c))).
Qed.

Lemma Forall2_app_inv_seq {Y} (R : nat -> Y -> Prop) a (g r : list Y) :
  Forall2 R (seq a (length (g ++ r))) (g ++ r) ->
  Forall2 R (seq a (length g)) g /\ Forall2 R (seq (a + length g) (length r)) r.
Proof.
  revert a. induction g as [|y g IH]; intros a H.
  - cbn [app length seq] in *. split; [constructor|]. now rewrite Nat.add_0_r.
  - cbn [app length seq] in H. inversion H as [|? ? ? ? Hy Hr]; subst. destruct (IH _ Hr) as [A B'].
    split; [cbn [length seq]; now constructor|]. cbn [length]. now replace (a + S (length g)) with (S a + length g) by lia.
Qed.

Lemma level_wf_gen B h gs cs : chunked B cs gs -> forall a pre post final,
  final = pre ++ nodes_of B a gs ++ post ->
  Forall (fun g => chunked (B ^ S h) (concat g) g) gs ->
  Forall2 (wf (vb B final) h) (seq a (length cs)) cs ->
  Forall2 (wf (vb B final) (S h)) (seq (length pre) (length gs)) (map (@concat nat) gs).
Proof.
  intros Hch. induction Hch as [g H1 H2|g cs' gs' Hg Hch IH]; intros a pre post final Ef Hall Hf.
  - cbn [map length seq]. constructor; [|constructor]. pose proof (Forall_inv Hall) as Hg. cbv beta in Hg.
    apply (wf_node (vb B _) h (length pre) (concat g) g (seq a (length g))); cbn [vb sv_nodes sv_branch].
    + rewrite Ef. cbn [nodes_of app]. rewrite nth_error_app2 by lia. now rewrite Nat.sub_diag.
    + exact Hg.
    + exact Hf.
    + now rewrite seq_length.
    + apply seq_sinc.
  - cbn [map length seq]. pose proof (Forall_inv Hall) as Hgc. pose proof (Forall_inv_tail Hall) as Hall'. cbv beta in Hgc.
    destruct (Forall2_app_inv_seq _ _ _ _ Hf) as [Fg Fr].
    constructor.
    + apply (wf_node (vb B _) h (length pre) (concat g) g (seq a (length g))); cbn [vb sv_nodes sv_branch].
      * rewrite Ef. cbn [nodes_of app]. rewrite nth_error_app2 by lia. now rewrite Nat.sub_diag.
      * exact Hgc.
      * exact Fg.
      * rewrite seq_length. lia.
      * apply seq_sinc.
    + replace (S (length pre)) with (length (pre ++ [mknode B g (seq a (length g))])) by (rewrite app_length; cbn; lia).
      apply (IH (a + length g) _ post); [|exact Hall'|exact Fr].
      rewrite Ef. cbn [nodes_of app]. now rewrite <- app_assoc.
Qed.

(* ------------------------------------------------------------------ the level loop *)
Lemma chunked_group_shrinks {A} B (cs : list A) gs : 2 <= B -> chunked B cs gs -> 1 < length cs -> length gs < length cs.
Proof.
  intros HB Hch H1. pose proof (chunked_length _ _ _ Hch) as L.
  pose proof (chunked_nonempty _ _ _ Hch) as [Hne Hall].
  assert (1 <= length (last gs [])).
  { rewrite Forall_forall in Hall. assert (In (last gs []) gs) by (destruct gs; [contradiction|apply last_In_aux]).
    apply Hall in H. lia. }
  destruct gs as [|g [|g2 gs']]; [contradiction|cbn; lia|]. cbn [length] in *. nia.
Qed.

Lemma build_levels_spec B idx : 3 <= B -> forall fuel h divs a cs nodes,
  chunked (B ^ S h) idx cs -> length cs <= fuel ->
  Forall2 (wf (vb B nodes) h) (seq a (length cs)) cs ->
  firstn (length cs - 1) divs = map lastv (removelast cs) ->
  exists h' r nodes', build_levels fuel B divs (seq a (length cs)) nodes (S h) = ([r], nodes', S h') /\
                      wf (vb B nodes') h' r idx.
Proof.
  intros HB. induction fuel as [|f IH]; intros h divs a cs nodes Hch Hf Hw Hd.
  - pose proof (chunked_nonempty _ _ _ Hch) as [Hne _]. destruct cs; [contradiction|cbn in Hf; lia].
  - cbn [build_levels]. rewrite seq_length.
    pose proof (chunked_nonempty _ _ _ Hch) as [Hne Hall].
    assert (Hcs1 : 1 <= length cs) by (destruct cs; [contradiction|cbn; lia]).
    destruct (Nat.ltb_spec 1 (length cs)) as [Hgt|Hle].
    + destruct (build_level_closed B (S (length cs)) ltac:(lia) divs a cs nodes Hcs1 ltac:(lia)) as (gs & Hg & Eb).
      * intros c Hc E. rewrite Forall_forall in Hall. specialize (Hall c Hc). subst c. cbn in Hall. lia.
      * exact Hd.
      * rewrite Eb. destruct (chunked_group _ _ _ _ _ Hch Hg) as [Hch' Hgall].
        pose proof (chunked_group_shrinks B cs gs ltac:(lia) Hg Hgt) as Hsh.
        replace (S h + 1) with (S (S h)) by lia.
        assert (Elen : length gs = length (map (@concat nat) gs)) by (now rewrite map_length).
        rewrite Elen.
        apply (IH (S h) _ (length nodes) (map (@concat nat) gs) (nodes ++ nodes_of B a gs)).
        -- replace (B ^ S (S h)) with (B * B ^ S h) by (rewrite (Nat.pow_succ_r' B (S h)); reflexivity). exact Hch'.
        -- rewrite map_length. lia.
        -- rewrite map_length. apply (level_wf_gen B h gs cs Hg a nodes [] _).
           ++ now rewrite app_nil_r.
           ++ exact Hgall.
           ++ clear - Hw. revert Hw. generalize (seq a (length cs)). intros l Hw.
              induction Hw; constructor; [|assumption].
              eapply wf_mono; [| |eassumption]; [reflexivity|]. cbn [vb sv_nodes]. intros a0 n0. apply nth_error_prefix.
        -- rewrite map_length. rewrite firstn_all2; [reflexivity|]. rewrite map_length, removelast_length_aux, map_length. lia.
    + assert (E1 : length cs = 1) by lia. destruct cs as [|c [|c2 cs']]; cbn in E1; try lia.
      cbn [length seq]. exists h, a, nodes. split; [reflexivity|].
      inversion Hw as [|? ? ? ? Hc _]; subst. pose proof (chunked_concat _ _ _ Hch) as Ec. cbn in Ec. rewrite app_nil_r in Ec. now subst c.
Qed.
