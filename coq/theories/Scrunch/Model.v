(* Scrunch/Model.v — executable model of scrunch's text index.  Definitions only.

   Transcribed function by function from
     scrunch/src/lib.rs      check_record_boundaries, ReferenceDocument, PsiDocument
                             (backwards_search, search, count, lookup, offset_of, retrieve,
                             len, records, construct), inverse, translate_text
     scrunch/src/sigma.rs    Sigma (construct, char_to_sigma, sa_index_to_sigma, sa_index_to_t,
                             sa_range_for, sa_range_for_sigma, bucket_limits)
     scrunch/src/psi/mod.rs  ReferencePsi (lookup, constrain), compute_from_sa_isa_u32
     scrunch/src/sa.rs       ReferenceSuffixArray, SampledSuffixArray (construct_u32, lookup)
     scrunch/src/isa.rs      ReferenceInverseSuffixArray, SampledInverseSuffixArray
     scrunch/src/sampled.rs  SampledArray (by interface: a presence bit vector + the values)
   WaveletTreePsi is in ModelWT.v.

   Specified by interface only (not transcribed; compared component-wise by the check):
     * SA-IS (sais.rs): `suffix_array` below is an insertion sort of the suffixes — THE sorted
       permutation; Proofs shows it is the only list satisfying `is_suffix_array`.
     * bit-vector / wavelet-tree / bit-array encodings and the protobuf framing: a bit vector is
       its `list bool` (ModelBits.v), a packed array is its list of values.
     * std: `slice::binary_search_by` on a strictly increasing slice and `partition_point` on a
       sorted slice return the number of elements below the probe (`count_lt`); `sort` sorts;
       HashMap/dense-table lookups are finite maps.
     * lib.rs `inverse_and_psi_u32` is transcribed (`inverse_and_psi`: one pass, isa slots start
       as the sentinel None, psi slots start uninitialised = None; reading an unwritten slot at
       the end would be undefined behaviour = Panic).  ProofsIAP shows it equal to `inverse` +
       `psi_of` (= psi/mod.rs compute_from_sa_isa_u32) on every permutation.

   Indices, ranks and sigma-domain symbols are `nat` (all bounded by the text length); text
   characters (u32) are `N`.  usize arithmetic is unbounded; every `x - 1` that could
   underflow is an explicit Panic. *)
From Coq Require Import Arith NArith List Bool.
From Blue Require Import Scrunch.ModelBits.
Import ListNotations.

(* ------------------------------------------------------------------ small list helpers *)
Fixpoint mapM {A B} (f : A -> res B) (l : list A) : res (list B) :=
  match l with
  | [] => Ok []
  | a :: r => do b <- f a; do bs <- mapM f r; Ok (b :: bs)
  end.

(* number of elements below x: what std's binary search / partition_point return on sorted input *)
Definition count_lt (l : list nat) (x : nat) : nat := length (filter (fun y => y <? x) l).

Fixpoint insert_nat (x : nat) (l : list nat) : list nat :=
  match l with
  | [] => [x]
  | y :: r => if x <=? y then x :: l else y :: insert_nat x r
  end.
Definition sort_nat (l : list nat) : list nat := fold_right insert_nat [] l.

(* ------------------------------------------------------------------ Sigma *)
Record sigma := { s2c : list N;        (* sigma_to_char: the distinct characters, ascending *)
                  columns : bits }.    (* bit i set iff i is a bucket boundary; length n+1 *)

(* counting pass + sort_by_key: an association list kept sorted by character *)
Fixpoint insert_count (t : N) (l : list (N * nat)) : list (N * nat) :=
  match l with
  | [] => [(t, 1)]
  | (u, c) :: r =>
      if N.eqb t u then (u, S c) :: r
      else if N.ltb t u then (t, 1) :: l
      else (u, c) :: insert_count t r
  end.
Definition sigma_counts (text : list N) : list (N * nat) :=
  fold_left (fun acc t => insert_count t acc) text [].

(* buckets: 0, c1, c1+c2, ... *)
Fixpoint running (acc : nat) (cs : list nat) : list nat :=
  match cs with
  | [] => [acc]
  | c :: r => acc :: running (acc + c) r
  end.

Definition sigma_construct (text : list N) : res sigma :=
  let sc := sigma_counts text in
  let buckets := running 0 (map snd sc) in
  let columns_len := last buckets 0 in
  match from_indices 16 (columns_len + 1) buckets with
  | Some cols => Ok {| s2c := map fst sc; columns := cols |}
  | None => Err
  end.

Definition sigma_K (sg : sigma) : nat := length (s2c sg) + 1.

Fixpoint index_of (t : N) (l : list N) (i : nat) : option nat :=
  match l with
  | [] => None
  | u :: r => if N.eqb t u then Some i else index_of t r (S i)
  end.

(* char -> [1, K) *)
Definition char_to_sigma (sg : sigma) (t : N) : option nat := index_of t (s2c sg) 1.

Definition sa_index_to_sigma (sg : sigma) (idx : nat) : option nat :=
  if idx <? bv_len (columns sg) then bv_rank (columns sg) idx else None.

(* Some(self.sigma_to_char[self.columns.rank(idx)? - 1]) for 0 < idx < len; callers `.ok_or(..)?` *)
Definition sa_index_to_t (sg : sigma) (idx : nat) : res N :=
  if (0 <? idx) && (idx <? bv_len (columns sg)) then
    do r <- ok_or (bv_rank (columns sg) idx);
    if r =? 0 then Panic else unwrap (nth_error (s2c sg) (r - 1))
  else Err.

Definition sa_range_for_sigma (sg : sigma) (k : nat) : res (nat * nat) :=
  do a <- ok_or (bv_select (columns sg) k);
  do b <- ok_or (bv_select (columns sg) (k + 1));
  if b =? 0 then Panic else Ok (a, b - 1).

Definition sa_range_for (sg : sigma) (t : N) : res (nat * nat) :=
  match char_to_sigma sg t with
  | Some k => sa_range_for_sigma sg k
  | None => Ok (1, 0)
  end.

(* bucket_limits: select(i+1) for i in 0..K *)
Definition bucket_limits (sg : sigma) : res (list nat) :=
  mapM (fun i => ok_or (bv_select (columns sg) (i + 1))) (seq 0 (sigma_K sg)).

(* translate_text*: every character through char_to_sigma, then the end marker 0 *)
Definition translate_text (sg : sigma) (text : list N) : res (list nat) :=
  do s <- mapM (fun t => ok_or (char_to_sigma sg t)) text;
  Ok (s ++ [0]).

(* ------------------------------------------------------------------ suffix sorting, by interface *)
Fixpoint lex_ltb (a b : list nat) : bool :=
  match a, b with
  | _, [] => false
  | [], _ :: _ => true
  | x :: a', y :: b' => if x <? y then true else if y <? x then false else lex_ltb a' b'
  end.

Fixpoint insert_suf (S : list nat) (i : nat) (l : list nat) : list nat :=
  match l with
  | [] => [i]
  | j :: r => if lex_ltb (skipn i S) (skipn j S) then i :: l else j :: insert_suf S i r
  end.

(* the sorted permutation of the suffixes of S (S ends with its unique least symbol 0) *)
Definition suffix_array (S : list nat) : list nat :=
  fold_right (insert_suf S) [] (seq 0 (length S)).

(* lib.rs `inverse`: ix[x[i]] = i *)
Fixpoint set_nth {A} (n : nat) (x : A) (l : list A) : list A :=
  match n, l with
  | O, _ :: t => x :: t
  | S n', h :: t => h :: set_nth n' x t
  | _, [] => []
  end.
Definition inverse (x : list nat) : list nat :=
  fold_left (fun ix '(i, xi) => set_nth xi i ix) (combine (seq 0 (length x)) x) (repeat 0 (length x)).

(* psi/mod.rs compute_from_sa_isa_u32: psi[idx] = isa[sa[idx]+1], wrapping to isa[0] *)
Definition psi_of (sa isa : list nat) : list nat :=
  map (fun pos => nth (if pos + 1 =? length isa then 0 else pos + 1) isa 0) sa.

(* lib.rs inverse_and_psi_u32: for (idx, pos) in sa.enumerate(): isa[pos] = idx; if the predecessor
   position's isa is already known its psi entry is idx; if the successor position's isa is
   already known this index's psi entry is that. *)
Definition iap_step (len : nat) (st : list (option nat) * list (option nat)) (ip : nat * nat)
  : list (option nat) * list (option nat) :=
  let '(isa, psi) := st in
  let '(idx, pos) := ip in
  let isa := set_nth pos (Some idx) isa in
  let prev_pos := if pos =? 0 then len - 1 else pos - 1 in
  let psi := match nth prev_pos isa None with
             | Some prev_isa => set_nth prev_isa (Some idx) psi
             | None => psi
             end in
  let next_pos := if pos + 1 =? len then 0 else pos + 1 in
  let psi := match nth next_pos isa None with
             | Some next_isa => set_nth idx (Some next_isa) psi
             | None => psi
             end in
  (isa, psi).

Fixpoint enumerate_from {A} (i : nat) (l : list A) : list (nat * A) :=
  match l with
  | [] => []
  | a :: r => (i, a) :: enumerate_from (S i) r
  end.

Definition inverse_and_psi (sa : list nat) : res (list nat * list nat) :=
  let len := length sa in
  let '(isa, psi) := fold_left (iap_step len) (enumerate_from 0 sa) (repeat None len, repeat None len) in
  do isa' <- mapM unwrap isa;
  do psi' <- mapM unwrap psi;
  Ok (isa', psi').

(* ------------------------------------------------------------------ the Psi trait *)
Record psi_ops := {
  p_len : nat;
  p_lookup : nat -> res nat;
  p_constrain : nat * nat -> nat * nat -> res (nat * nat)   (* range, into (closed intervals) *)
}.

(* ReferencePsi *)
Definition rpsi_lookup (psi : list nat) (idx : nat) : res nat := ok_or (nth_error psi idx).

(* self.psi[range.0..=range.1]: panics unless range.0 <= range.1 + 1 <= len *)
Definition slice_incl (l : list nat) (lo hi : nat) : res (list nat) :=
  if (lo <=? hi + 1) && (hi + 1 <=? length l) then Ok (firstn (hi + 1 - lo) (skipn lo l)) else Panic.

Definition rpsi_constrain (sg : sigma) (psi : list nat) (range into : nat * nat) : res (nat * nat) :=
  do sl <- slice_incl psi (fst range) (snd range);
  let start := count_lt sl (fst into) + fst range in
  let x := count_lt sl (snd into + 1) + fst range in
  if x =? 0 then Panic else
  let limit := x - 1 in
  (* assert!(start > limit || sigma.sa_index_to_sigma(start) == sigma.sa_index_to_sigma(limit)) *)
  if (limit <? start)
     || (match sa_index_to_sigma sg start, sa_index_to_sigma sg limit with
         | Some a, Some b => a =? b
         | None, None => true
         | _, _ => false
         end)
  then Ok (start, limit) else Panic.

Definition rpsi_ops (sg : sigma) (psi : list nat) : psi_ops :=
  {| p_len := length psi; p_lookup := rpsi_lookup psi; p_constrain := rpsi_constrain sg psi |}.

(* ------------------------------------------------------------------ SampledArray, by interface *)
Record sampled := { sp_present : bits; sp_values : list nat }.

(* values: (offset, value) pairs with increasing offsets.  `values[values.len() - 1]` panics on
   an empty list.  The result of from_indices is ignored by the Rust; when it is None nothing is
   written and the array cannot be parsed back: Err. *)
Definition sampled_construct (vals : list (nat * nat)) : res sampled :=
  match vals with
  | [] => Panic
  | _ =>
      match from_indices 128 (fst (last vals (0, 0)) + 1) (map fst vals) with
      | Some b => Ok {| sp_present := b; sp_values := map snd vals |}
      | None => Err
      end
  end.

Definition sampled_lookup (sp : sampled) (x : nat) : option nat :=
  match bv_access (sp_present sp) x, bv_rank (sp_present sp) x with
  | Some true, Some r => nth_error (sp_values sp) r
  | _, _ => None
  end.

(* ------------------------------------------------------------------ suffix array access *)
(* ReferenceSuffixArray *)
Definition rsa_lookup (sa : list nat) (idx : nat) : res nat := ok_or (nth_error sa idx).

(* SampledSuffixArray *)
Record ssa := { ssa_sampling : nat; ssa_zero : nat; ssa_sampled : sampled }.

Definition ssa_construct (sampling : nat) (sa : list nat) : res ssa :=
  if 31 <? sampling then Err else
  let stride := 2 ^ sampling in
  let vals := map (fun '(idx, v) => (idx, v / stride))
                  (filter (fun '(idx, v) => v mod stride =? 0) (enumerate_from 0 sa)) in
  do zero <- unwrap (nth_error sa 0);
  do sp <- sampled_construct vals;
  Ok {| ssa_sampling := sampling; ssa_zero := zero; ssa_sampled := sp |}.

(* loop { if idx == 0 {return zero - k}; if let Some(sa) = sampled.lookup(idx) {return (sa << s) - k};
          idx = psi.lookup(idx)?; k += 1 } *)
Fixpoint ssa_lookup (fuel : nat) (s : ssa) (psi_lookup : nat -> res nat) (idx k : nat) : res nat :=
  match fuel with
  | 0 => NoFuel
  | S f =>
      if idx =? 0 then (if k <=? ssa_zero s then Ok (ssa_zero s - k) else Panic)
      else match sampled_lookup (ssa_sampled s) idx with
           | Some v => let v' := v * 2 ^ ssa_sampling s in
                       if k <=? v' then Ok (v' - k) else Panic
           | None => do idx' <- psi_lookup idx; ssa_lookup f s psi_lookup idx' (S k)
           end
  end.

(* ------------------------------------------------------------------ inverse suffix array access *)
Definition risa_lookup (isa : list nat) (idx : nat) : res nat := ok_or (nth_error isa idx).

(* SampledInverseSuffixArray::construct_u32: samples isa at `to_sample` (the record starts) *)
Fixpoint sisa_values (isa : list nat) (to_sample : list nat) (prev : option nat) : res (list (nat * nat)) :=
  match to_sample with
  | [] => Ok []
  | s :: r =>
      if (length isa <=? s) || (match prev with Some p => s <=? p | None => false end) then Err
      else do v <- unwrap (nth_error isa s);
           do rest <- sisa_values isa r (Some s);
           Ok ((s, v) :: rest)
  end.

Definition sisa_construct (isa : list nat) (to_sample : list nat) : res sampled :=
  do vals <- sisa_values isa to_sample None;
  sampled_construct vals.

Definition sisa_lookup (sp : sampled) (idx : nat) : res nat := ok_or (sampled_lookup sp idx).

(* ------------------------------------------------------------------ PsiDocument *)
Record doc := {
  d_rb : bits;                       (* record_boundaries: bit rb-1 set for every record start rb > 0 *)
  d_sigma : sigma;
  d_sa : nat -> res nat;             (* sa.lookup(&sigma, &psi, idx) *)
  d_isa : nat -> res nat;
  d_psi : psi_ops
}.

(* self.psi.len() - 1 *)
Definition doc_len (d : doc) : res nat :=
  if p_len (d_psi d) =? 0 then Panic else Ok (p_len (d_psi d) - 1).

Definition doc_records (d : doc) : nat :=
  match bv_rank (d_rb d) (bv_len (d_rb d)) with Some r => r | None => 0 end + 1.

Definition backwards_search (d : doc) (needle : list N) : res (nat * nat) :=
  match rev needle with
  | [] => do n <- doc_len d; Ok (1, n)
  | t :: rest =>
      fold_left (fun acc t' =>
                   do range <- acc;
                   do r <- sa_range_for (d_sigma d) t';
                   p_constrain (d_psi d) r range)
                rest (sa_range_for (d_sigma d) t)
  end.

Definition doc_search (d : doc) (needle : list N) : res (list nat) :=
  do range <- backwards_search d needle;
  if snd range <? fst range then Ok []
  else do offs <- mapM (d_sa d) (seq (fst range) (snd range + 1 - fst range));
       Ok (sort_nat offs).

Definition doc_count (d : doc) (needle : list N) : res nat :=
  do range <- backwards_search d needle;
  Ok (if snd range <? fst range then 0 else snd range - fst range + 1).

Definition doc_lookup (d : doc) (offset : nat) : res nat := ok_or (bv_rank (d_rb d) offset).

Definition doc_offset_of (d : doc) (record : nat) : res nat := ok_or (bv_select (d_rb d) record).

Fixpoint retrieve_loop (d : doc) (steps idx : nat) : res (list N) :=
  match steps with
  | 0 => Ok []
  | S k =>
      do t <- sa_index_to_t (d_sigma d) idx;
      do idx' <- p_lookup (d_psi d) idx;
      do rest <- retrieve_loop d k idx';
      Ok (t :: rest)
  end.

Definition doc_retrieve (d : doc) (record : nat) : res (list N) :=
  do start <- ok_or (bv_select (d_rb d) record);
  (* `.select(record.0 + 1).unwrap_or(self.len())`: the argument self.len() is evaluated first *)
  do len <- doc_len d;
  let limit := match bv_select (d_rb d) (record + 1) with
               | Some l => l
               | None => len
               end in
  if limit <? start then Err
  else do idx <- d_isa d start;
       retrieve_loop d (limit - start) idx.

(* ------------------------------------------------------------------ construction *)
Fixpoint adjacent_increasing (l : list nat) : bool :=
  match l with
  | [] => true
  | x :: r => match r with
              | [] => true
              | y :: _ => (x <? y) && adjacent_increasing r
              end
  end.

Definition check_record_boundaries (text : list N) (rb : list nat) : bool :=
  match rb with
  | [] => false
  | b0 :: _ => adjacent_increasing rb && (b0 =? 0) && (last rb 0 <? length text)
  end.

(* what every PsiDocument::construct computes before choosing representations *)
Record parts := {
  pt_rb : bits; pt_sigma : sigma; pt_S : list nat;
  pt_sa : list nat; pt_isa : list nat; pt_psi : list nat
}.

Definition construct_parts (text : list N) (rb : list nat) : res parts :=
  if negb (check_record_boundaries text rb) then Err else
  let sparse := map (fun b => b - 1) (tl rb) in
  do rbv <- ok_or (from_indices 16 (length text) sparse);
  do sg <- sigma_construct text;
  do s <- translate_text sg text;
  let sa := suffix_array s in
  do ip <- inverse_and_psi sa;
  Ok {| pt_rb := rbv; pt_sigma := sg; pt_S := s; pt_sa := sa; pt_isa := fst ip; pt_psi := snd ip |}.

(* PsiDocument<ReferenceSuffixArray, ReferenceInverseSuffixArray, ReferencePsi> *)
Definition construct_reference_psi_doc (text : list N) (rb : list nat) : res doc :=
  do p <- construct_parts text rb;
  Ok {| d_rb := pt_rb p; d_sigma := pt_sigma p;
        d_sa := rsa_lookup (pt_sa p); d_isa := risa_lookup (pt_isa p);
        d_psi := rpsi_ops (pt_sigma p) (pt_psi p) |}.

(* the sampling rate: the literal 6 in `SA::construct_u32(6, ..)` (lib.rs); not a named const *)
Definition SA_SAMPLING : nat := 6.

(* ------------------------------------------------------------------ ReferenceDocument *)
Record refdoc := { r_text : list N; r_rb : list nat }.

Definition construct_refdoc (text : list N) (rb : list nat) : res refdoc :=
  if check_record_boundaries text rb then Ok {| r_text := text; r_rb := rb |} else Err.

Fixpoint list_eqb (a b : list N) : bool :=
  match a, b with
  | [], [] => true
  | x :: a', y :: b' => N.eqb x y && list_eqb a' b'
  | _, _ => false
  end.

(* text.windows(k).enumerate(): the k-long windows at 0 .. len-k *)
Definition ref_search (r : refdoc) (needle : list N) : list nat :=
  match needle with
  | [] => seq 0 (length (r_text r))
  | _ =>
      let k := length needle in
      filter (fun idx => list_eqb (firstn k (skipn idx (r_text r))) needle)
             (seq 0 (length (r_text r) + 1 - k))
  end.

Definition ref_count (r : refdoc) (needle : list N) : nat := length (ref_search r needle).

Definition ref_lookup (r : refdoc) (offset : nat) : res nat :=
  let pp := count_lt (r_rb r) offset in
  let n := length (r_rb r) in
  if (n <=? pp) && negb (n =? 0) then Ok (n - 1)
  else if n <=? pp then Err
  else if nth pp (r_rb r) 0 <=? offset then Ok pp
  else if pp =? 0 then Panic else Ok (pp - 1).

Definition ref_retrieve (r : refdoc) (record : nat) : res (list N) :=
  let n := length (r_rb r) in
  if n <=? record then Err else
  let start := nth record (r_rb r) 0 in
  let limit := if n <=? record + 1 then length (r_text r) else nth (record + 1) (r_rb r) 0 in
  if (start <=? limit) && (limit <=? length (r_text r)) then Ok (firstn (limit - start) (skipn start (r_text r)))
  else Panic.

Definition ref_offset_of (r : refdoc) (record : nat) : res nat :=
  if length (r_rb r) <=? record then Err else Ok (nth record (r_rb r) 0).

(* ------------------------------------------------------------------ the specification: a plain scan *)
Fixpoint prefixb (w t : list N) : bool :=
  match w, t with
  | [], _ => true
  | _ :: _, [] => false
  | x :: w', y :: t' => N.eqb x y && prefixb w' t'
  end.

(* the positions of the text at which the needle occurs (for the empty needle: every position) *)
Definition occurrences (text needle : list N) : list nat :=
  filter (fun i => prefixb needle (skipn i text)) (seq 0 (length text)).

(* the record containing text offset `off`: the last record start <= off *)
Definition spec_record_of (rb : list nat) (off : nat) : nat :=
  length (filter (fun b => b <=? off) rb) - 1.

(* record r, byte for byte *)
Definition spec_record (text : list N) (rb : list nat) (r : nat) : list N :=
  let start := nth r rb 0 in
  let limit := nth (S r) rb (length text) in
  firstn (limit - start) (skipn start text).
