(* Scrunch/ProofsBits.v — rank/select over the plain bit array; the binary searches of
   binary_search.rs; the trait-default select/select0 equal the specification. *)
From Coq Require Import Arith List Bool Lia.
From Blue Require Import Scrunch.ModelBits.
Import ListNotations.

Arguments Nat.sub : simpl never.
Arguments Nat.div : simpl never.
Arguments Nat.modulo : simpl never.
Arguments Nat.leb : simpl never.
Arguments Nat.ltb : simpl never.
Arguments Nat.eqb : simpl never.

Lemma beqb_sym a b : Bool.eqb a b = Bool.eqb b a.
Proof. destruct a, b; reflexivity. Qed.

(* ------------------------------------------------------------------ count1 / firstn *)
Lemma count1_app a b : count1 (a ++ b) = count1 a + count1 b.
Proof. induction a as [|x a IH]; cbn; [reflexivity|]. rewrite IH. lia. Qed.

Lemma count1_le_length b : count1 b <= length b.
Proof. induction b as [|x b IH]; cbn; [lia|]. destruct x; lia. Qed.

Lemma firstn_S_nth {A} (d : A) x (l : list A) : x < length l ->
  firstn (S x) l = firstn x l ++ [nth x l d].
Proof.
  revert l. induction x as [|x IH]; intros [|a l] H; cbn in *; try lia; [reflexivity|].
  f_equal. apply IH. lia.
Qed.

Lemma count1_firstn_S x b : x < length b ->
  count1 (firstn (S x) b) = count1 (firstn x b) + (if nth x b false then 1 else 0).
Proof.
  intros H. rewrite (firstn_S_nth false) by exact H. rewrite count1_app. cbn. lia.
Qed.

Lemma count1_firstn_mono b x y : x <= y -> count1 (firstn x b) <= count1 (firstn y b).
Proof.
  intros H. revert x y H. induction b as [|a b IH]; intros x y H.
  - now rewrite !firstn_nil.
  - destruct x as [|x]; [cbn; lia|]. destruct y as [|y]; [lia|]. cbn.
    specialize (IH x y ltac:(lia)). lia.
Qed.

Lemma count1_firstn_all b x : length b <= x -> count1 (firstn x b) = count1 b.
Proof. intros H. now rewrite firstn_all2. Qed.

Lemma count1_firstn_step b x : count1 (firstn (S x) b) <= S (count1 (firstn x b)).
Proof.
  destruct (Nat.lt_ge_cases x (length b)) as [H|H].
  - rewrite count1_firstn_S by exact H. destruct (nth x b false); lia.
  - rewrite !firstn_all2 by lia. lia.
Qed.

(* ------------------------------------------------------------------ rank *)
Lemma bv_rank_some b x : x <= length b -> bv_rank b x = Some (count1 (firstn x b)).
Proof. intros H. unfold bv_rank. destruct (Nat.leb_spec x (length b)); [reflexivity|lia]. Qed.

Lemma bv_rank_none b x : length b < x -> bv_rank b x = None.
Proof. intros H. unfold bv_rank. destruct (Nat.leb_spec x (length b)); [lia|reflexivity]. Qed.

Lemma bv_rank_inv b x r : bv_rank b x = Some r -> x <= length b /\ r = count1 (firstn x b).
Proof. unfold bv_rank. destruct (Nat.leb_spec x (length b)); [|discriminate]. intros [= <-]. now split. Qed.

(* number of bits equal to v among the first x *)
Definition countv (v : bool) (b : bits) : nat := length (filter (Bool.eqb v) b).

Lemma countv_true b : countv true b = count1 b.
Proof. unfold countv. induction b as [|x b IH]; cbn; [reflexivity|]. destruct x; cbn; lia. Qed.

Lemma countv_false b : countv false b = length b - count1 b.
Proof.
  unfold countv. induction b as [|x b IH]; cbn; [reflexivity|].
  pose proof (count1_le_length b). destruct x; cbn; lia.
Qed.

Lemma countv_app v a b : countv v (a ++ b) = countv v a + countv v b.
Proof. unfold countv. now rewrite filter_app, app_length. Qed.

(* ------------------------------------------------------------------ select *)
Lemma select_from_shift v b : forall k pos,
  select_from v b k pos = option_map (Nat.add pos) (select_from v b k 0).
Proof.
  induction b as [|x b IH]; intros k pos.
  - destruct k; cbn; [f_equal; lia|reflexivity].
  - destruct k as [|k]; cbn [select_from]; [cbn; f_equal; lia|].
    destruct (Bool.eqb x v).
    + rewrite (IH k (S pos)), (IH k 1). destruct (select_from v b k 0); cbn; [f_equal; lia|reflexivity].
    + rewrite (IH (S k) (S pos)), (IH (S k) 1). destruct (select_from v b (S k) 0); cbn; [f_equal; lia|reflexivity].
Qed.

Lemma select_from_cons v x b k :
  select_from v (x :: b) (S k) 0 =
  option_map S (select_from v b (if Bool.eqb x v then k else S k) 0).
Proof.
  cbn [select_from]. destruct (Bool.eqb x v); rewrite select_from_shift;
    destruct (select_from v b _ 0); reflexivity.
Qed.

Lemma countv_firstn_cons v x b p :
  countv v (firstn (S p) (x :: b)) = (if Bool.eqb x v then 1 else 0) + countv v (firstn p b).
Proof.
  unfold countv. cbn [firstn filter]. rewrite (beqb_sym v x). destruct (Bool.eqb x v); reflexivity.
Qed.

(* select answers the LEAST prefix length at which the count of v reaches k *)
Definition least_reaching (v : bool) (b : bits) (k p : nat) : Prop :=
  p <= length b /\ countv v (firstn p b) = k /\ forall q, q < p -> countv v (firstn q b) < k.

Lemma select_from_least v b : forall k p,
  select_from v b k 0 = Some p <-> least_reaching v b k p.
Proof.
  unfold least_reaching. induction b as [|x b IH]; intros k p.
  - destruct k; cbn.
    + split.
      * intros [= <-]. repeat split; [lia|lia].
      * intros (H1 & _ & _). f_equal. lia.
    + split; [discriminate|]. intros (H1 & H2 & _). assert (p = 0) by lia. subst. cbn in H2. discriminate.
  - destruct k as [|k].
    + cbn [select_from]. split.
      * intros [= <-]. cbn. repeat split; lia.
      * intros (_ & _ & H3). destruct p; [reflexivity|]. specialize (H3 0 ltac:(lia)). lia.
    + rewrite select_from_cons. split.
      * destruct (select_from v b _ 0) as [p'|] eqn:E; [|discriminate]. intros [= <-].
        apply IH in E. destruct E as (E1 & E2 & E3).
        split; [cbn; lia|]. split.
        -- rewrite countv_firstn_cons. destruct (Bool.eqb x v); lia.
        -- intros [|q] Hq; [cbn; lia|]. rewrite countv_firstn_cons.
           specialize (E3 q ltac:(lia)). destruct (Bool.eqb x v); lia.
      * intros (H1 & H2 & H3). destruct p as [|p]; [cbn in H2; discriminate|].
        rewrite countv_firstn_cons in H2.
        assert (E : select_from v b (if Bool.eqb x v then k else S k) 0 = Some p).
        { apply IH. split; [cbn in H1; lia|]. split.
          - destruct (Bool.eqb x v); lia.
          - intros q Hq. specialize (H3 (S q) ltac:(lia)). rewrite countv_firstn_cons in H3.
            destruct (Bool.eqb x v); lia. }
        now rewrite E.
Qed.

Lemma countv_firstn_mono v b x y : x <= y -> countv v (firstn x b) <= countv v (firstn y b).
Proof.
  revert x y. induction b as [|a b IH]; intros x y H.
  - now rewrite !firstn_nil.
  - destruct x as [|x]; [cbn; lia|]. destruct y as [|y]; [lia|].
    rewrite !countv_firstn_cons. specialize (IH x y ltac:(lia)). lia.
Qed.

Lemma countv_firstn_step v b x : countv v (firstn (S x) b) <= S (countv v (firstn x b)).
Proof.
  revert x. induction b as [|a b IH]; intros x.
  - rewrite !firstn_nil. cbn. lia.
  - destruct x as [|x].
    + rewrite countv_firstn_cons. cbn. destruct (Bool.eqb a v); lia.
    + rewrite !countv_firstn_cons. specialize (IH x). lia.
Qed.

Lemma countv_firstn_all v b x : length b <= x -> countv v (firstn x b) = countv v b.
Proof. intros H. now rewrite firstn_all2. Qed.

(* least prefix reaching k exists iff k <= total count *)
Lemma least_reaching_exists v b k : k <= countv v b -> exists p, least_reaching v b k p.
Proof.
  intros Hk. unfold least_reaching.
  (* search downward from length b *)
  assert (G : forall n, n <= length b -> k <= countv v (firstn n b) ->
              exists p, p <= n /\ countv v (firstn p b) = k /\ forall q, q < p -> countv v (firstn q b) < k).
  { induction n as [|n IH]; intros Hn Hc.
    - exists 0. cbn in *. repeat split; lia.
    - destruct (Nat.le_gt_cases k (countv v (firstn n b))) as [Hle|Hgt].
      + destruct (IH ltac:(lia) Hle) as (p & P1 & P2 & P3). exists p. repeat split; [lia|assumption|assumption].
      + exists (S n). pose proof (countv_firstn_step v b n). repeat split; [lia|lia|].
        intros q Hq. pose proof (countv_firstn_mono v b q n ltac:(lia)). lia. }
  destruct (G (length b) ltac:(lia)) as (p & P1 & P2 & P3).
  - rewrite firstn_all. exact Hk.
  - exists p. repeat split; assumption.
Qed.

Lemma least_reaching_unique v b k p q : least_reaching v b k p -> least_reaching v b k q -> p = q.
Proof.
  intros (P1 & P2 & P3) (Q1 & Q2 & Q3).
  destruct (Nat.lt_trichotomy p q) as [H|[H|H]]; [|assumption|].
  - specialize (Q3 p H). lia.
  - specialize (P3 q H). lia.
Qed.

Lemma select_from_total v b k : k <= countv v b -> exists p, select_from v b k 0 = Some p.
Proof.
  intros H. destruct (least_reaching_exists v b k H) as (p & Hp). exists p. now apply select_from_least.
Qed.

Lemma select_from_none v b k : countv v b < k -> select_from v b k 0 = None.
Proof.
  intros H. destruct (select_from v b k 0) as [p|] eqn:E; [|reflexivity].
  apply select_from_least in E. destruct E as (E1 & E2 & _).
  pose proof (countv_firstn_mono v b p (length b) E1). rewrite firstn_all in H0. lia.
Qed.

(* the bit just before a select answer is the selected bit *)
Lemma least_reaching_bit v b k p : 0 < k -> least_reaching v b k p ->
  0 < p /\ nth (p - 1) b (negb v) = v.
Proof.
  intros Hk (P1 & P2 & P3). destruct p as [|p]; [cbn in P2; lia|]. split; [lia|].
  replace (S p - 1) with p by lia.
  specialize (P3 p ltac:(lia)).
  assert (Hlt : p < length b) by lia.
  rewrite (firstn_S_nth (negb v)) in P2 by exact Hlt. rewrite countv_app in P2.
  unfold countv at 2 in P2. cbn [filter] in P2.
  destruct (nth p b (negb v)) eqn:N, v; cbn in *; try reflexivity; lia.
Qed.

(* ------------------------------------------------------------------ interface theorems *)
Theorem bv_select_rank b k p : bv_select b k = Some p -> bv_rank b p = Some k.
Proof.
  unfold bv_select. intros H. apply select_from_least in H. destruct H as (H1 & H2 & _).
  rewrite bv_rank_some by exact H1. rewrite <- countv_true, H2. reflexivity.
Qed.

Theorem bv_select_defined b k : (exists p, bv_select b k = Some p) <-> k <= count1 b.
Proof.
  unfold bv_select. rewrite <- countv_true. split.
  - intros (p & H). destruct (Nat.le_gt_cases k (countv true b)); [assumption|].
    rewrite select_from_none in H by assumption. discriminate.
  - apply select_from_total.
Qed.

Theorem bv_select_zero b : bv_select b 0 = Some 0.
Proof. destruct b; reflexivity. Qed.

Theorem bv_select_bit b k p : 0 < k -> bv_select b k = Some p ->
  0 < p /\ bv_access b (p - 1) = Some true.
Proof.
  unfold bv_select, bv_access. intros Hk H. apply select_from_least in H.
  destruct (least_reaching_bit true b k p Hk H) as (Hp & Hn). split; [assumption|].
  destruct H as (H1 & _). cbn in Hn.
  rewrite (nth_error_nth' b false) by lia. now rewrite Hn.
Qed.

(* select is the inverse of rank at set bits *)
Theorem bv_select_of_rank b i : bv_access b i = Some true ->
  bv_select b (count1 (firstn (S i) b)) = Some (S i).
Proof.
  unfold bv_access, bv_select. intros H.
  assert (Hi : i < length b) by (apply nth_error_Some; congruence).
  apply select_from_least. unfold least_reaching. rewrite countv_true. repeat split; [lia|].
  intros q Hq. rewrite countv_true.
  pose proof (count1_firstn_mono b q i ltac:(lia)).
  rewrite count1_firstn_S by exact Hi.
  rewrite (nth_error_nth' b false Hi) in H. injection H as ->. lia.
Qed.

Theorem bv_rank0_spec b x : x <= length b ->
  default_rank0 (bv_rank b) x = Some (countv false (firstn x b)).
Proof.
  intros H. unfold default_rank0. rewrite bv_rank_some by exact H. f_equal.
  rewrite countv_false, firstn_length. lia.
Qed.

(* ------------------------------------------------------------------ binary_search.rs *)
(* partition_by over a predicate that is total (never panics) on [first, last) and whose true
   region is downward closed there: the answer is the boundary. *)
Lemma binary_search_partition (pred : nat -> res bool) (f : nat -> bool) : forall fuel left right,
  right - left < fuel ->
  (forall x, left <= x < right -> pred x = Ok (f x)) ->
  (forall x y, left <= y -> y <= x -> x < right -> f x = true -> f y = true) ->
  exists p,
    binary_search_by fuel (fun probe => do b <- pred probe; Ok (if b then Lt else Gt)) left right = Ok p /\
    (left <= right -> left <= p <= right) /\ (right < left -> p = left) /\
    (forall x, left <= x < p -> f x = true) /\ (p < right -> f p = false).
Proof.
  induction fuel as [|fuel IH]; intros left right Hfuel Hpred Hmono; [lia|].
  cbn [binary_search_by]. destruct (Nat.ltb_spec left right) as [Hlt|Hge].
  - set (mid := left + (right - left) / 2).
    assert (Hmid : left <= mid < right).
    { pose proof (Nat.div_lt (right - left) 2 ltac:(lia) ltac:(lia)). unfold mid. lia. }
    rewrite (Hpred mid Hmid). cbn [rbind]. destruct (f mid) eqn:Fm.
    + destruct (IH (mid + 1) right ltac:(lia)) as (p & P1 & P2 & P3 & P4 & P5).
      * intros x Hx. apply Hpred. lia.
      * intros x y H1 H2 H3. apply Hmono; lia.
      * exists p. split; [exact P1|]. split; [lia|]. split; [lia|]. split; [|exact P5].
        intros x Hx. destruct (Nat.le_gt_cases x mid) as [Hle|Hgt].
        -- apply (Hmono mid x); [lia|lia|lia|exact Fm].
        -- apply P4. lia.
    + destruct (IH left mid ltac:(lia)) as (p & P1 & P2 & P3 & P4 & P5).
      * intros x Hx. apply Hpred. lia.
      * intros x y H1 H2 H3. apply Hmono; lia.
      * exists p. split; [exact P1|]. split; [lia|]. split; [lia|]. split; [exact P4|].
        intros Hp. destruct (Nat.eq_dec p mid) as [->|Hne]; [exact Fm|]. apply P5. lia.
  - exists left. split; [reflexivity|]. split; [lia|]. split; [lia|]. split; [intros x Hx; lia|lia].
Qed.

Lemma partition_by_spec (pred : nat -> res bool) (f : nat -> bool) first last :
  (forall x, first <= x < last -> pred x = Ok (f x)) ->
  (forall x y, first <= y -> y <= x -> x < last -> f x = true -> f y = true) ->
  exists p, partition_by pred first last = Ok p /\
    (first <= last -> first <= p <= last) /\ (last < first -> p = first) /\
    (forall x, first <= x < p -> f x = true) /\ (p < last -> f p = false).
Proof.
  intros Hpred Hmono. unfold partition_by. apply binary_search_partition; [lia|assumption|assumption].
Qed.

(* ------------------------------------------------------------------ the trait defaults *)
Lemma default_select_gen (v : bool) (b : bits) (rk : nat -> option nat) k :
  (forall x, x <= length b -> rk x = Some (countv v (firstn x b))) ->
  (forall x, length b < x -> rk x = None) ->
  (do left <- partition_by (fun mid => do r <- unwrap (rk mid); Ok (r <? k)) 0 (length b);
   Ok (match rk left with
       | Some r => if r =? k then Some left else None
       | None => None
       end)) = Ok (select_from v b k 0).
Proof.
  intros Hrk Hrk'.
  destruct (partition_by_spec (fun mid => do r <- unwrap (rk mid); Ok (r <? k))
              (fun x => countv v (firstn x b) <? k) 0 (length b)) as (p & P1 & P2 & _ & P4 & P5).
  - intros x Hx. rewrite Hrk by lia. reflexivity.
  - intros x y _ Hyx Hx Hf. apply Nat.ltb_lt in Hf. apply Nat.ltb_lt.
    pose proof (countv_firstn_mono v b y x Hyx). lia.
  - rewrite P1. cbn [rbind]. f_equal. specialize (P2 ltac:(lia)).
    rewrite Hrk by lia.
    destruct (Nat.eqb_spec (countv v (firstn p b)) k) as [E|NE].
    + symmetry. apply select_from_least. unfold least_reaching. repeat split; [lia|exact E|].
      intros q Hq. specialize (P4 q ltac:(lia)). now apply Nat.ltb_lt in P4.
    + symmetry. destruct (select_from v b k 0) as [q|] eqn:S; [|reflexivity]. exfalso.
      apply select_from_least in S. destruct S as (S1 & S2 & S3).
      destruct (Nat.lt_trichotomy p q) as [H|[H|H]].
      * specialize (S3 p H). destruct (Nat.eq_dec p (length b)) as [->|Hne]; [lia|].
        specialize (P5 ltac:(lia)). apply Nat.ltb_ge in P5. lia.
      * subst. lia.
      * specialize (P4 q ltac:(lia)). apply Nat.ltb_lt in P4. lia.
Qed.

Theorem default_select_correct b k : default_select (length b) (bv_rank b) k = Ok (bv_select b k).
Proof.
  unfold default_select, bv_select. apply default_select_gen.
  - intros x Hx. rewrite bv_rank_some by exact Hx. now rewrite countv_true.
  - intros x Hx. now apply bv_rank_none.
Qed.

Theorem default_select0_correct b k : default_select0 (length b) (bv_rank b) k = Ok (bv_select0 b k).
Proof.
  unfold default_select0, bv_select0. apply default_select_gen.
  - intros x Hx. now apply bv_rank0_spec.
  - intros x Hx. unfold default_rank0. now rewrite bv_rank_none.
Qed.

(* ------------------------------------------------------------------ bits_of_indices *)
Lemma strictly_increasing_cons x l : strictly_increasing (x :: l) = true ->
  strictly_increasing l = true /\ Forall (fun y => x < y) l.
Proof.
  revert x. induction l as [|y l IH]; intros x H; [split; [reflexivity|constructor]|].
  cbn [strictly_increasing] in H. apply andb_prop in H. destruct H as [H1 H2]. apply Nat.ltb_lt in H1.
  split; [exact H2|]. destruct (IH y H2) as [_ F]. constructor; [exact H1|].
  eapply Forall_impl; [|exact F]. cbn. intros; lia.
Qed.

Lemma bits_of_indices_length len idx : length (bits_of_indices len idx) = len.
Proof. unfold bits_of_indices. now rewrite map_length, seq_length. Qed.

Lemma bits_of_indices_nth len idx i : i < len ->
  nth i (bits_of_indices len idx) false = existsb (Nat.eqb i) idx.
Proof.
  intros H. unfold bits_of_indices.
  rewrite (nth_indep _ false (existsb (Nat.eqb 0) idx)) by (now rewrite map_length, seq_length).
  rewrite (map_nth (fun i => existsb (Nat.eqb i) idx) (seq 0 len) 0 i).
  now rewrite seq_nth.
Qed.

Lemma existsb_eqb_In i idx : existsb (Nat.eqb i) idx = true <-> In i idx.
Proof.
  rewrite existsb_exists. split.
  - intros (x & Hin & E). apply Nat.eqb_eq in E. now subst.
  - intros H. exists i. split; [assumption|apply Nat.eqb_refl].
Qed.

(* count of set bits below x = number of indices below x *)
Lemma count1_bits_of_indices len idx x : NoDup idx -> x <= len ->
  count1 (firstn x (bits_of_indices len idx)) = length (filter (fun y => y <? x) idx).
Proof.
  intros Hnd. induction x as [|x IH]; intros Hx.
  - cbn. symmetry. induction idx as [|y idx IHi]; [reflexivity|]. cbn. inversion Hnd; subst. now apply IHi.
  - rewrite count1_firstn_S by (rewrite bits_of_indices_length; lia).
    rewrite IH by lia. rewrite bits_of_indices_nth by lia.
    clear IH. induction idx as [|y idx IHi]; [reflexivity|].
    inversion Hnd as [|? ? Hnin Hnd']; subst. cbn [filter existsb].
    destruct (Nat.eqb_spec x y) as [->|Hne].
    + cbn [orb]. destruct (Nat.ltb_spec y y); [lia|]. destruct (Nat.ltb_spec y (S y)); [|lia].
      cbn [length]. specialize (IHi Hnd').
      assert (E : existsb (Nat.eqb y) idx = false).
      { destruct (existsb (Nat.eqb y) idx) eqn:E; [|reflexivity]. apply existsb_eqb_In in E. contradiction. }
      rewrite E in IHi. lia.
    + cbn [orb]. specialize (IHi Hnd').
      destruct (Nat.ltb_spec y x), (Nat.ltb_spec y (S x)); cbn [length]; lia.
Qed.

Lemma strictly_increasing_NoDup l : strictly_increasing l = true -> NoDup l.
Proof.
  induction l as [|x l IH]; intros H; [constructor|].
  destruct (strictly_increasing_cons x l H) as [H1 H2]. constructor; [|now apply IH].
  intros Hin. rewrite Forall_forall in H2. specialize (H2 x Hin). lia.
Qed.
