(* Scrunch/ProofsWT2.v — the table of WaveletTreePsi, structurally: rows cover the symbol string,
   cells are (column, row) pairs in column-major order; then psi is the concatenation of the
   cells' values, so every suffix-array index lies in exactly one cell and its psi value is read
   off that cell's row. *)
From Coq Require Import Arith NArith List Bool Lia Sorted Permutation.
From Blue Require Import Scrunch.ModelBits Scrunch.Model Scrunch.ModelWT Scrunch.ProofsBits
  Scrunch.ProofsSorted Scrunch.ProofsSuffix Scrunch.ProofsIAP Scrunch.ProofsSearch Scrunch.ProofsSigma Scrunch.ProofsWT1.
Import ListNotations.
Local Open Scope nat_scope.

Arguments Nat.sub : simpl never.
Arguments Nat.div : simpl never.
Arguments Nat.modulo : simpl never.
Arguments Nat.leb : simpl never.
Arguments Nat.ltb : simpl never.
Arguments Nat.eqb : simpl never.

Definition row0 : wrow := {| w_start := 0; w_tree := [] |}.

(* rows are consecutive, non-empty slices of the symbol string SY, from index a to its end *)
Fixpoint covers (SY : list nat) (rows : list wrow) (a : nat) : Prop :=
  match rows with
  | [] => a = length SY
  | r :: rest =>
      w_start r = a /\ w_tree r <> [] /\ a + length (w_tree r) <= length SY /\
      w_tree r = firstn (length (w_tree r)) (skipn a SY) /\
      covers SY rest (a + length (w_tree r))
  end.

(* psi values held by column c of a row *)
Definition rowvals (c : nat) (row : wrow) : list nat :=
  map (Nat.add (w_start row)) (positions c (w_tree row)).

(* the rows in which column c is not empty, ascending *)
Definition col_rows (c : nat) (rows : list wrow) : list nat :=
  filter (fun r => 0 <? count_eq c (w_tree (nth r rows row0))) (seq 0 (length rows)).

(* all cells (column, row), column-major *)
Definition cells (K : nat) (rows : list wrow) : list (nat * nat) :=
  flat_map (fun c => map (pair c) (col_rows c rows)) (seq 0 K).

Definition cellvals (rows : list wrow) (cr : nat * nat) : list nat :=
  rowvals (fst cr) (nth (snd cr) rows row0).

Definition cell_size (rows : list wrow) (cr : nat * nat) : nat :=
  count_eq (fst cr) (w_tree (nth (snd cr) rows row0)).

(* what the constructor must establish (ProofsWT4.v) *)
Record wstruct (K : nat) (SY : list nat) (w : wpsi) : Prop := {
  ws_cov : covers SY (w_table w) 0;
  ws_yvalue : w_yvalue w = map snd (cells K (w_table w));
  ws_ykey : w_ykey w = bits_of_indices (length SY)
                         (cell_ends (map (cell_size (w_table w)) (cells K (w_table w))))
}.

(* ------------------------------------------------------------------ rows *)
Lemma rowvals_length c row : length (rowvals c row) = count_eq c (w_tree row).
Proof. unfold rowvals. now rewrite map_length, count_eq_positions. Qed.

Lemma covers_row SY rows : forall a, covers SY rows a -> forall r, r < length rows ->
  let row := nth r rows row0 in
  a <= w_start row /\ w_tree row <> [] /\ w_start row + length (w_tree row) <= length SY /\
  (forall k, k < length (w_tree row) -> nth k (w_tree row) 0 = nth (w_start row + k) SY 0) /\
  (forall r', r < r' -> r' < length rows -> w_start row + length (w_tree row) <= w_start (nth r' rows row0)).
Proof.
  induction rows as [|x rows IH]; intros a Hc r Hr; [cbn in Hr; lia|].
  cbn [covers] in Hc. destruct Hc as (Hs & Hne & Hle & Htree & Hrest).
  destruct r as [|r]; cbn [nth].
  - split; [lia|]. split; [exact Hne|]. split; [lia|]. split.
    + intros k Hk. rewrite Htree at 1. rewrite nth_firstn_aux by exact Hk.
      rewrite Hs. clear - Hle Hk. revert SY Hle. induction a as [|a IHa]; intros SY Hle; [reflexivity|].
      destruct SY as [|y SY]; [cbn in Hle; lia|]. cbn [skipn Nat.add nth]. apply IHa. cbn in Hle. lia.
    + intros r' Hr' Hlen. destruct r' as [|r']; [lia|]. cbn [nth]. cbn [length] in Hlen.
      destruct (IH _ Hrest r' ltac:(lia)) as (A & _). lia.
  - cbn [length] in Hr. destruct (IH _ Hrest r ltac:(lia)) as (A & B & C & D & E).
    split; [lia|]. split; [exact B|]. split; [exact C|]. split; [exact D|].
    intros r' Hr' Hlen. destruct r' as [|r']; [lia|]. cbn [nth]. cbn [length] in Hlen. apply E; lia.
Qed.

(* the positions of c in SY from a on, row by row *)
Lemma covers_positions c SY rows : forall a, covers SY rows a ->
  filter (fun i => nth i SY 0 =? c) (seq a (length SY - a)) = flat_map (rowvals c) rows.
Proof.
  induction rows as [|x rows IH]; intros a Hc.
  - cbn [covers] in Hc. subst a. now rewrite Nat.sub_diag.
  - cbn [covers] in Hc. destruct Hc as (Hs & Hne & Hle & Htree & Hrest).
    cbn [flat_map]. rewrite <- (IH _ Hrest).
    replace (length SY - a) with (length (w_tree x) + (length SY - (a + length (w_tree x)))) by lia.
    rewrite seq_app, filter_app. f_equal.
    unfold rowvals, positions. rewrite Hs.
    (* filter over seq a len = map (a+) (filter over seq 0 len) *)
    assert (Hk : forall k, k < length (w_tree x) -> nth k (w_tree x) 0 = nth (a + k) SY 0).
    { intros k Hk. rewrite Htree at 1. rewrite nth_firstn_aux by exact Hk.
      clear - Hle Hk. revert SY Hle. induction a as [|a IHa]; intros SY Hle; [reflexivity|].
      destruct SY as [|y SY]; [cbn in Hle; lia|]. cbn [skipn Nat.add nth]. apply IHa. cbn in Hle. lia. }
    revert Hk. generalize (length (w_tree x)) as len. generalize (w_tree x) as t. clear.
    intros t len. revert a. induction len as [|len IHl]; intros a Hk; [reflexivity|].
    rewrite !seq_S, !filter_app, map_app. cbn [filter Nat.add].
    rewrite IHl by (intros k Hk'; apply Hk; lia). f_equal.
    rewrite (Hk len ltac:(lia)). destruct (nth (a + len) SY 0 =? c); reflexivity.
Qed.

(* dropping the empty rows of a column *)
Lemma flat_map_col_rows c rows :
  flat_map (rowvals c) rows = concat (map (fun r => rowvals c (nth r rows row0)) (col_rows c rows)).
Proof.
  unfold col_rows.
  assert (E : flat_map (rowvals c) rows = concat (map (fun r => rowvals c (nth r rows row0)) (seq 0 (length rows)))).
  { rewrite flat_map_concat_map. f_equal. clear. induction rows as [|x rows IH]; [reflexivity|].
    cbn [length seq map nth]. f_equal. rewrite <- seq_shift, map_map. exact IH. }
  rewrite E. generalize (seq 0 (length rows)) as l. induction l as [|r l IH]; [reflexivity|].
  cbn [map concat filter]. destruct (Nat.ltb_spec 0 (count_eq c (w_tree (nth r rows row0)))) as [Hp|Hz].
  - cbn [map concat]. now rewrite IH.
  - rewrite IH. assert (Z : rowvals c (nth r rows row0) = []).
    { apply length_zero_iff_nil. rewrite rowvals_length. lia. }
    now rewrite Z.
Qed.

(* ------------------------------------------------------------------ all positions, by class *)
Definition byclass (K : nat) (SY : list nat) : list nat :=
  concat (map (fun c => positions c SY) (seq 0 K)).

Lemma cells_concat K SY rows : covers SY rows 0 ->
  concat (map (cellvals rows) (cells K rows)) = byclass K SY.
Proof.
  intros Hc. unfold cells, byclass. generalize (seq 0 K) as cs.
  induction cs as [|c cs IH]; [reflexivity|].
  cbn [flat_map map concat]. rewrite map_app, concat_app, IH. f_equal.
  rewrite map_map. unfold cellvals. cbn [fst snd].
  rewrite <- flat_map_col_rows. rewrite <- (covers_positions c SY rows 0 Hc). unfold positions.
  now rewrite Nat.sub_0_r.
Qed.

Lemma SS_app {A} (R : A -> A -> Prop) l1 l2 : StronglySorted R l1 -> StronglySorted R l2 ->
  (forall x y, In x l1 -> In y l2 -> R x y) -> StronglySorted R (l1 ++ l2).
Proof.
  induction 1 as [|x l1 Hs IH Hf]; intros H2 Hc; [exact H2|]. cbn [app]. constructor.
  - apply IH; [exact H2|]. intros a b Ha Hb. apply Hc; [now right|exact Hb].
  - apply Forall_app. split; [exact Hf|]. apply Forall_forall. intros y Hy. apply Hc; [now left|exact Hy].
Qed.

Section ByClass.
  Variable SY : list nat.
  Definition keyR (i i' : nat) : Prop :=
    nth i SY 0 < nth i' SY 0 \/ (nth i SY 0 = nth i' SY 0 /\ i < i').

  Definition bc (a k : nat) : list nat := concat (map (fun c => positions c SY) (seq a k)).

  Lemma bc_In a k i : In i (bc a k) <-> i < length SY /\ a <= nth i SY 0 < a + k.
  Proof.
    unfold bc. revert a. induction k as [|k IH]; intros a; cbn [seq map concat].
    - split; [intros []|lia].
    - rewrite in_app_iff, IH, positions_In. lia.
  Qed.

  Lemma bc_sorted a k : StronglySorted keyR (bc a k).
  Proof.
    unfold bc. revert a. induction k as [|k IH]; intros a; cbn [seq map concat]; [constructor|].
    apply SS_app.
    - (* one class: increasing positions *)
      assert (G : forall l, sinc l -> Forall (fun i => nth i SY 0 = a) l -> StronglySorted keyR l).
      { induction 1 as [|x l Hs IHs Hf]; intros Hall; constructor.
        - apply IHs. now inversion Hall.
        - inversion Hall as [|? ? Hx Hl]; subst. apply Forall_forall. intros y Hy.
          rewrite Forall_forall in Hf, Hl. right. split; [now rewrite (Hl y Hy)|now apply Hf]. }
      apply G; [apply positions_sinc|]. apply Forall_forall. intros i Hi. now apply positions_In in Hi.
    - apply IH.
    - intros x y Hx Hy. apply positions_In in Hx. fold (bc (S a) k) in Hy. apply bc_In in Hy. left. lia.
  Qed.

  Lemma bc_NoDup a k : NoDup (bc a k).
  Proof.
    assert (G : forall l, StronglySorted keyR l -> NoDup l).
    { induction 1 as [|x l Hs IH Hf]; constructor; [|exact IH].
      intros Hin. rewrite Forall_forall in Hf. specialize (Hf x Hin). unfold keyR in Hf. lia. }
    apply G, bc_sorted.
  Qed.

  Lemma byclass_perm K : Forall (fun s => s < K) SY -> Permutation (byclass K SY) (seq 0 (length SY)).
  Proof.
    intros Hf. apply NoDup_Permutation; [apply (bc_NoDup 0 K)|apply seq_NoDup|].
    intros i. change (byclass K SY) with (bc 0 K). rewrite bc_In, in_seq. split; [lia|].
    intros Hi. split; [lia|]. rewrite Forall_forall in Hf.
    assert (Hin : In (nth i SY 0) SY) by (apply nth_In; lia). specialize (Hf _ Hin). lia.
  Qed.
End ByClass.

(* ------------------------------------------------------------------ psi is the concatenation of the cells *)
Section PsiCells.
  Variables (T sa : list nat) (n : nat).
  Hypothesis Hsa : is_suffix_array T sa.
  Hypothesis HT : length T = S n.
  Hypothesis Hterm : nth n T 0 = 0.
  Hypothesis Hpos : forall p, p < n -> 0 < nth p T 0.
  Variable K : nat.
  Hypothesis HK : forall j, j < S n -> fs T sa j < K.
  Local Set Default Proof Using "Hsa HT Hterm Hpos HK".
  Let isa := inverse sa.
  Let psi := psi_of sa isa.
  Let SY := wt_syms T sa n.

  Lemma SY_length : length SY = S n.
  Proof. exact (wt_syms_length T sa n Hsa HT Hterm Hpos). Qed.

  Lemma SY_lt : Forall (fun s => s < K) SY.
  Proof.
    apply Forall_forall. intros s Hs. destruct (In_nth _ _ 0 Hs) as (i & Hi & <-). rewrite SY_length in Hi.
    unfold SY. rewrite (wt_syms_nth T sa n Hsa HT Hterm Hpos i Hi). apply HK.
    apply (psi_ipsi T sa n Hsa HT Hterm Hpos i Hi).
  Qed.

  Theorem psi_byclass : psi = byclass K SY.
  Proof.
    apply (sorted_perm_unique (keyR SY)).
    - unfold keyR. intros x y. lia.
    - exact (psi_key_sorted T sa n Hsa HT Hterm Hpos).
    - apply (bc_sorted SY 0 K).
    - rewrite (byclass_perm SY K SY_lt), SY_length.
      pose proof (perm_of_bounded psi (psi_NoDup T sa n Hsa HT Hterm Hpos) (psi_bounded T sa n Hsa HT Hterm Hpos)) as P.
      pose proof (ix_psi_length T sa n Hsa HT Hterm Hpos) as L. fold isa psi in L. now rewrite L in P.
  Qed.

  (* ---- the facts the queries use, cell by cell ---- *)
  Variable w : wpsi.
  Hypothesis Hw : wstruct K SY w.
  Local Set Default Proof Using "Hsa HT Hterm Hpos HK Hw".
  Let rows := w_table w.
  Let CL := cells K rows.
  Let sizes := map (cell_size rows) CL.

  Lemma sizes_lengths : sizes = map (@length nat) (map (cellvals rows) CL).
  Proof.
    unfold sizes. rewrite map_map. apply map_ext. intros [c r]. unfold cell_size, cellvals. cbn [fst snd].
    now rewrite rowvals_length.
  Qed.

  Lemma sizes_pos : Forall (fun s => 1 <= s) sizes.
  Proof.
    unfold sizes, CL, cells. apply Forall_map. apply Forall_forall. intros [c r] Hin.
    apply in_flat_map in Hin. destruct Hin as (c' & _ & Hin). apply in_map_iff in Hin.
    destruct Hin as (r' & E & Hr). injection E as <- <-. unfold col_rows in Hr. apply filter_In in Hr.
    destruct Hr as [_ Hr]. apply Nat.ltb_lt in Hr. unfold cell_size. cbn [fst snd]. lia.
  Qed.

  Lemma psi_concat : psi = concat (map (cellvals rows) CL).
  Proof. rewrite psi_byclass. symmetry. apply cells_concat. exact (ws_cov _ _ _ Hw). Qed.

  Lemma sizes_total : sumn sizes = S n.
  Proof.
    rewrite sizes_lengths, sumn_map_length_concat, <- psi_concat.
    exact (ix_psi_length T sa n Hsa HT Hterm Hpos).
  Qed.

  Lemma CL_cell t : t < length CL ->
    let c := fst (nth t CL (0, 0)) in let r := snd (nth t CL (0, 0)) in
    r < length rows /\ c < K /\ 1 <= count_eq c (w_tree (nth r rows row0)).
  Proof.
    intros Ht c r. assert (Hin : In (nth t CL (0, 0)) CL) by (now apply nth_In).
    unfold CL, cells in Hin. apply in_flat_map in Hin. destruct Hin as (c' & Hc' & Hin).
    apply in_map_iff in Hin. destruct Hin as (r' & E & Hr).
    assert (c = c' /\ r = r') as [-> ->] by (unfold c, r, CL, cells; rewrite <- E; now split).
    unfold col_rows in Hr. apply filter_In in Hr. destruct Hr as [Hr1 Hr2].
    apply in_seq in Hr1. apply in_seq in Hc'. apply Nat.ltb_lt in Hr2. repeat split; lia.
  Qed.

  (* every suffix-array index of a cell: its psi value sits in the cell's row, at the position of
     the corresponding occurrence of the cell's column symbol *)
  Lemma cell_value t j : t < length CL -> cstart sizes t <= j < cstart sizes (S t) ->
    let c := fst (nth t CL (0, 0)) in let row := nth (snd (nth t CL (0, 0))) rows row0 in
    j < S n /\ fs T sa j = c /\
    j - cstart sizes t < length (positions c (w_tree row)) /\
    nth j psi 0 = w_start row + nth (j - cstart sizes t) (positions c (w_tree row)) 0.
  Proof.
    intros Ht Hj c row.
    assert (Hjn : j < S n).
    { rewrite <- sizes_total. pose proof (cstart_mono sizes sizes_pos (S t) (length sizes)) as M.
      unfold sizes in *. rewrite map_length in *. destruct (Nat.eq_dec (S t) (length CL)) as [E|NE].
      - rewrite <- (cstart_all _ (length CL)) by (rewrite map_length; lia). rewrite <- E. lia.
      - specialize (M ltac:(lia) ltac:(lia)). rewrite (cstart_all _ (length CL)) in M by (rewrite map_length; lia). lia. }
    assert (Hval : nth j psi 0 = nth (j - cstart sizes t) (cellvals rows (nth t CL (0, 0))) 0).
    { rewrite psi_concat. rewrite sizes_lengths in Hj |- *.
      rewrite (concat_nth_cell (map (cellvals rows) CL) 0) with (t := t).
      - f_equal. rewrite (nth_indep _ [] (cellvals rows (0, 0))) by (now rewrite map_length).
        apply (map_nth (cellvals rows)).
      - pose proof sizes_pos as P. rewrite sizes_lengths in P.
        apply Forall_forall. intros l Hl. rewrite Forall_forall in P. apply (P (length l)).
        apply in_map. exact Hl.
      - now rewrite map_length.
      - exact Hj. }
    assert (Hlen : j - cstart sizes t < length (positions c (w_tree row))).
    { rewrite <- count_eq_positions.
      assert (E : nth t sizes 0 = count_eq c (w_tree row)).
      { unfold sizes. rewrite (nth_indep _ 0 (cell_size rows (0, 0))) by (now rewrite map_length).
        rewrite (map_nth (cell_size rows)). reflexivity. }
      rewrite <- E. rewrite cstart_S in Hj by (unfold sizes; now rewrite map_length). lia. }
    unfold cellvals, rowvals in Hval. fold c row in Hval.
    rewrite (nth_indep (map (Nat.add (w_start row)) (positions c (w_tree row))) 0 (Nat.add (w_start row) 0)) in Hval
      by (now rewrite map_length).
    rewrite (map_nth (Nat.add (w_start row))) in Hval.
    split; [exact Hjn|]. split; [|split; [exact Hlen|exact Hval]].
    (* the column: SY at the psi value *)
    pose proof (wt_syms_psi T sa n Hsa HT Hterm Hpos j Hjn) as Es. fold isa psi in Es. rewrite <- Es, Hval.
    assert (Hin : In (nth (j - cstart sizes t) (positions c (w_tree row)) 0) (positions c (w_tree row))) by (now apply nth_In).
    apply positions_In in Hin. destruct Hin as (Hk & Hc).
    destruct (CL_cell t Ht) as (Hr & _ & _).
    destruct (covers_row SY rows 0 (ws_cov _ _ _ Hw) _ Hr) as (_ & _ & _ & D & _). fold row in D.
    fold SY. now rewrite <- (D _ Hk).
  Qed.
End PsiCells.
