(* Scrunch/ProofsCompressed.v — CompressedDocument = PsiDocument<SampledSuffixArray,
   SampledInverseSuffixArray, WaveletTreePsi<..>> answers as the plain scan, given that the
   WaveletTreePsi built by the constructor meets the Psi interface (`psi_ok`; ProofsWT.v). *)
From Coq Require Import Arith NArith List Bool Lia Sorted Permutation.
From Blue Require Import Scrunch.ModelBits Scrunch.Model Scrunch.ModelWT Scrunch.ProofsBits
  Scrunch.ProofsSorted Scrunch.ProofsSuffix Scrunch.ProofsSearch Scrunch.ProofsSigma
  Scrunch.ProofsDoc Scrunch.ProofsSampled.
Import ListNotations.
Local Open Scope nat_scope.

Arguments Nat.sub : simpl never.
Arguments Nat.div : simpl never.
Arguments Nat.modulo : simpl never.
Arguments Nat.leb : simpl never.
Arguments Nat.ltb : simpl never.
Arguments Nat.eqb : simpl never.
Arguments Nat.pow : simpl never.

(* the WaveletTreePsi constructor succeeds and its result meets the Psi interface *)
Definition wavelet_psi_ok (text : list N) : Prop :=
  let T := sigma_string text in
  let sa := suffix_array T in
  let psi := psi_of sa (inverse sa) in
  exists w, wpsi_construct (the_sigma text) psi = Ok w /\
            psi_ok T sa psi (length text) (wpsi_ops (the_sigma text) w).

Theorem compressed_doc_correct_given text rb : check_record_boundaries text rb = true ->
  wavelet_psi_ok text ->
  exists d, construct_compressed text rb = Ok d /\ answers_as_scan text rb d.
Proof.
  intros Hc (w & Cw & Hpsi).
  destruct (construct_parts_ok text rb Hc) as (p & Cp & Erb & Esg & ES & Esa & Eisa & Epsi & Hio).
  unfold construct_compressed. rewrite Cp. cbn [rbind].
  apply check_record_boundaries_valid in Hc.
  pose proof (io_sa _ _ _ _ Hio) as Hsa. pose proof (io_len _ _ _ _ Hio) as HT.
  pose proof (io_term _ _ _ _ Hio) as Hterm. pose proof (io_pos _ _ _ _ Hio) as Hpos.
  set (n := length text) in *.
  rewrite (ssa_construct_ok (pt_S p) (pt_sa p) n Hsa HT Hterm Hpos SA_SAMPLING ltac:(unfold SA_SAMPLING; lia)).
  cbn [rbind].
  rewrite (sisa_construct_ok (pt_isa p) rb n ltac:(rewrite Eisa; apply (ix_isa_length _ _ _ Hsa HT Hterm Hpos)) Hc).
  cbn [rbind].
  assert (Ew : wpsi_construct (pt_sigma p) (pt_psi p) = Ok w).
  { rewrite Esg, Epsi, Eisa, Esa. exact Cw. }
  rewrite Ew. cbn [rbind]. eexists. split; [reflexivity|].
  assert (Hpsi' : psi_ok (pt_S p) (pt_sa p) (psi_of (pt_sa p) (inverse (pt_sa p))) n
                    (wpsi_ops (the_sigma text) w)).
  { rewrite ES, Esa. exact Hpsi. }
  apply (doc_answers text rb (pt_sigma p) (pt_S p) (pt_sa p) Hio Hc); cbn [d_sigma d_rb d_psi d_sa d_isa].
  - reflexivity.
  - exact Erb.
  - rewrite Esg. exact Hpsi'.
  - intros i Hi0 Hi.
    rewrite Epsi, Eisa, (ix_psi_length _ _ _ Hsa HT Hterm Hpos), Esg.
    rewrite (ssa_lookup_correct (pt_S p) (pt_sa p) n Hsa HT Hterm Hpos SA_SAMPLING ltac:(unfold SA_SAMPLING; lia)
               (p_lookup (wpsi_ops (the_sigma text) w)) (po_lookup _ _ _ _ _ Hpsi') (S (S n)) i 0 Hi ltac:(lia) ltac:(lia)).
    f_equal. lia.
  - intros r Hr. rewrite Eisa.
    apply (sisa_lookup_correct (inverse (pt_sa p)) rb n (ix_isa_length _ _ _ Hsa HT Hterm Hpos) Hc r Hr).
Qed.

(* ------------------------------------------------------------------ ReferenceDocument, refusals *)
Theorem refdoc_correct text rb : check_record_boundaries text rb = true ->
  exists r, construct_refdoc text rb = Ok r /\
    (forall needle, ref_search r needle = occurrences text needle /\
                    ref_count r needle = length (occurrences text needle)) /\
    (forall off, off < length text -> ref_lookup r off = Ok (spec_record_of rb off)) /\
    (forall k, k < length rb -> ref_retrieve r k = Ok (spec_record text rb k) /\
                                ref_offset_of r k = Ok (nth k rb 0)) /\
    (forall k, length rb <= k -> ref_retrieve r k = Err /\ ref_offset_of r k = Err).
Proof.
  intros Hc. unfold construct_refdoc. rewrite Hc. eexists. split; [reflexivity|].
  apply check_record_boundaries_valid in Hc.
  split; [intros needle; split; [apply ref_search_correct|apply ref_count_correct]|].
  split; [intros off Hoff; now apply ref_lookup_correct|].
  split; [intros k Hk; split; [now apply ref_retrieve_correct|now apply ref_offset_of_correct]|].
  intros k Hk. now apply ref_beyond.
Qed.

Theorem invalid_refused text rb : check_record_boundaries text rb = false ->
  construct_compressed text rb = Err /\ construct_reference_psi_doc text rb = Err /\
  construct_refdoc text rb = Err.
Proof.
  intros Hc. unfold construct_compressed, construct_reference_psi_doc, construct_refdoc, construct_parts.
  rewrite Hc. repeat split; reflexivity.
Qed.

Theorem empty_text_refused rb : check_record_boundaries [] rb = false.
Proof.
  unfold check_record_boundaries. destruct rb as [|b rb]; [reflexivity|].
  cbn [length]. destruct (Nat.ltb_spec (last (b :: rb) 0) 0); [lia|]. now rewrite andb_false_r.
Qed.

(* ------------------------------------------------------------------ the specification says what it should *)
Lemma prefixb_firstn w : forall l, prefixb w l = true <-> firstn (length w) l = w.
Proof.
  induction w as [|x w IH]; intros l; [cbn; tauto|]. destruct l as [|y l]; cbn [prefixb firstn length].
  - split; discriminate.
  - rewrite andb_true_iff, N.eqb_eq, IH. split.
    + intros [-> E]. now rewrite E.
    + intros E. injection E as -> E. now split.
Qed.

Theorem occurrences_spec text needle p :
  In p (occurrences text needle) <-> p < length text /\ firstn (length needle) (skipn p text) = needle.
Proof. rewrite occurrences_In, prefixb_firstn. reflexivity. Qed.

Theorem occurrences_ascending text needle : StronglySorted lt (occurrences text needle).
Proof. unfold occurrences. apply sinc_filter_seq. Qed.

(* the record of an offset is the one whose start is the last start <= off *)
Theorem spec_record_of_spec n rb off : valid_boundaries n rb -> off < n ->
  let r := spec_record_of rb off in
  r < length rb /\ nth r rb 0 <= off /\ (forall r', r < r' -> r' < length rb -> off < nth r' rb 0).
Proof.
  intros Hv Hoff r. unfold r. rewrite spec_record_of_count.
  destruct Hv as (Hne & Hs & Z & _).
  pose proof (count_lt_le_length rb (S off)) as Cl.
  assert (Hpos : 0 < count_lt rb (S off)).
  { apply (count_lt_nth rb Hs 0 (S off)); [destruct rb; [contradiction|cbn; lia]|]. rewrite Z. lia. }
  split; [lia|]. split.
  - assert (Q : nth (count_lt rb (S off) - 1) rb 0 < S off) by (apply (count_lt_nth rb Hs); lia). lia.
  - intros r' H1 H2. destruct (Nat.lt_ge_cases off (nth r' rb 0)) as [|Hge]; [assumption|]. exfalso.
    assert (Q : r' < count_lt rb (S off)) by (apply (count_lt_nth rb Hs r' (S off) H2); lia). lia.
Qed.
