(* Scrunch/ProofsSparse5.v — sparse::BitVector::construct(bits) (the indices of the set bits handed
   to from_indices) implements the bit list, every list; rank0 / select0 are the trait defaults. *)
From Coq Require Import Arith List Bool Lia Sorted.
From Blue Require Import Scrunch.ModelBits Scrunch.ModelSparse Scrunch.Model Scrunch.ProofsBits Scrunch.ProofsSorted
  Scrunch.ProofsSparse4.
Import ListNotations.
Arguments Nat.sub : simpl never.
Arguments Nat.leb : simpl never.
Arguments Nat.ltb : simpl never.
Arguments Nat.eqb : simpl never.

Lemma ones_from_bounds bs : forall i x, In x (ones_from i bs) -> i <= x < i + length bs.
Proof.
  induction bs as [|b bs IH]; intros i x H; [contradiction|]. cbn [ones_from length] in *.
  destruct b; [destruct H as [<-|H]; [lia|]|]; apply IH in H; lia.
Qed.

Lemma ones_from_sinc bs : forall i, sinc (ones_from i bs).
Proof.
  induction bs as [|b bs IH]; intros i; [constructor|]. cbn [ones_from]. destruct b; [|apply IH].
  constructor; [apply IH|]. apply Forall_forall. intros x Hx. apply ones_from_bounds in Hx. lia.
Qed.

Lemma ones_from_mem bs : forall i x, i <= x -> existsb (Nat.eqb x) (ones_from i bs) = nth (x - i) bs false.
Proof.
  induction bs as [|b bs IH]; intros i x Hx; [cbn; now destruct (x - i)|]. cbn [ones_from].
  destruct (Nat.eq_dec x i) as [->|Hne].
  - rewrite Nat.sub_diag. cbn [nth]. destruct b.
    + cbn [existsb]. now rewrite Nat.eqb_refl.
    + destruct (existsb (Nat.eqb i) (ones_from (S i) bs)) eqn:E; [|reflexivity].
      apply existsb_exists in E. destruct E as (y & Hy & Ey). apply Nat.eqb_eq in Ey. subst y.
      apply ones_from_bounds in Hy. lia.
  - replace (x - i) with (S (x - S i)) by lia. cbn [nth]. destruct b.
    + cbn [existsb]. replace (x =? i) with false by (symmetry; now apply Nat.eqb_neq). cbn [orb]. apply IH. lia.
    + apply IH. lia.
Qed.

Lemma bits_of_ones bs : bits_of_indices (length bs) (ones_from 0 bs) = bs.
Proof.
  apply (nth_ext _ _ false false); [apply bits_of_indices_length|].
  intros x Hx. rewrite bits_of_indices_length in Hx. rewrite bits_of_indices_nth by exact Hx.
  rewrite ones_from_mem by lia. now rewrite Nat.sub_0_r.
Qed.

Theorem sparse_construct_is_the_bit_list bs :
  exists v, sv_construct bs = Some v /\
    (forall x, sv_access v x = Ok (bv_access bs x)) /\
    (forall x, sv_rank v x = Ok (bv_rank bs x)) /\
    (forall k, sv_select v k = bv_select bs k).
Proof.
  unfold sv_construct.
  destruct (sparse_is_the_bit_list 16 (length bs) (ones_from 0 bs)) as (v & C & A & R & S).
  - split; [lia|]. split; [apply ones_from_sinc|]. apply Forall_forall. intros x Hx.
    apply ones_from_bounds in Hx. lia.
  - rewrite bits_of_ones in *. exists v. repeat split; assumption.
Qed.
