(* Scrunch/ProofsDoc.v — record boundaries through rank/select, extract (retrieve) through
   isa + psi + sigma, locate through the sampled suffix array; the Document operations of any
   PsiDocument whose parts meet their interfaces equal the plain scan; ReferenceDocument too. *)
From Coq Require Import Arith NArith List Bool Lia Sorted Permutation.
From Blue Require Import Scrunch.ModelBits Scrunch.Model Scrunch.ProofsBits Scrunch.ProofsSorted
  Scrunch.ProofsSuffix Scrunch.ProofsIAP Scrunch.ProofsSearch Scrunch.ProofsSigma.
Import ListNotations.

Arguments Nat.sub : simpl never.
Arguments Nat.div : simpl never.
Arguments Nat.modulo : simpl never.
Arguments Nat.leb : simpl never.
Arguments Nat.ltb : simpl never.
Arguments Nat.eqb : simpl never.
Arguments Nat.pow : simpl never.

(* ------------------------------------------------------------------ record boundaries *)
Definition valid_boundaries (n : nat) (rb : list nat) : Prop :=
  rb <> [] /\ sinc rb /\ nth 0 rb 0 = 0 /\ last rb 0 < n.

Lemma check_record_boundaries_valid text rb :
  check_record_boundaries text rb = true <-> valid_boundaries (length text) rb.
Proof.
  unfold check_record_boundaries, valid_boundaries. destruct rb as [|b0 rb].
  - split; [discriminate|]. intros (H & _). contradiction.
  - rewrite !andb_true_iff, Nat.eqb_eq, Nat.ltb_lt. cbn [nth]. split.
    + intros ((A & B) & C). split; [discriminate|]. split; [now apply adjacent_increasing_sinc|]. now split.
    + intros (_ & A & B & C). split; [split|]; try assumption.
      apply sinc_strictly_increasing in A. revert A. generalize (b0 :: rb). clear.
      induction l as [|x l IH]; [reflexivity|]. destruct l as [|y l]; [reflexivity|].
      cbn [strictly_increasing adjacent_increasing]. intros H. apply andb_prop in H. destruct H as [H1 H2].
      rewrite H1. cbn [andb]. now apply IH.
Qed.

Section Boundaries.
  Variables (n : nat) (rb : list nat).
  Hypothesis Hv : valid_boundaries n rb.
  Let sparse := map (fun b => b - 1) (tl rb).

  Lemma rb_head : exists rest, rb = 0 :: rest.
  Proof. destruct Hv as (A & _ & C & _). destruct rb as [|b r]; [contradiction|]. cbn in C. subst. now exists r. Qed.

  Lemma rb_nth_pos k : 0 < k -> k < length rb -> 0 < nth k rb 0.
  Proof.
    intros Hk Hk'. destruct Hv as (_ & S & Z & _).
    pose proof (sinc_nth rb S 0 k Hk Hk'). lia.
  Qed.

  Lemma rb_nth_lt k : k < length rb -> nth k rb 0 < n.
  Proof.
    intros Hk. destruct Hv as (A & S & _ & L). rewrite last_is_nth in L by exact A.
    destruct (Nat.eq_dec k (length rb - 1)) as [->|]; [exact L|].
    pose proof (sinc_nth rb S k (length rb - 1) ltac:(lia) ltac:(lia)). lia.
  Qed.

  Lemma sparse_length : length sparse = length rb - 1.
  Proof. unfold sparse. rewrite map_length. destruct rb_head as (r & ->). cbn. lia. Qed.

  Lemma sparse_nth k : k < length sparse -> nth k sparse 0 = nth (S k) rb 0 - 1.
  Proof.
    intros Hk. unfold sparse in *. destruct rb_head as (r & E). rewrite E in *. cbn [tl nth] in *.
    rewrite (nth_indep _ 0 ((fun b => b - 1) 0)) by exact Hk. apply (map_nth (fun b => b - 1)).
  Qed.

  Lemma sparse_sinc : sinc sparse.
  Proof.
    apply sinc_of_nth. intros i j Hij Hj. rewrite !sparse_nth by lia. rewrite sparse_length in Hj.
    destruct Hv as (_ & S & _ & _).
    pose proof (sinc_nth rb S (Datatypes.S i) (Datatypes.S j) ltac:(lia) ltac:(lia)).
    pose proof (rb_nth_pos (Datatypes.S i) ltac:(lia) ltac:(lia)). lia.
  Qed.

  Lemma sparse_lt : Forall (fun i => i < n) sparse.
  Proof.
    apply Forall_forall. intros x Hx. destruct (In_nth _ _ 0 Hx) as (k & Hk & <-).
    rewrite sparse_nth by exact Hk. rewrite sparse_length in Hk.
    pose proof (rb_nth_lt (Datatypes.S k) ltac:(lia)). lia.
  Qed.

  Definition rb_bits : bits := bits_of_indices n sparse.

  Lemma rb_from_indices : from_indices 16 n sparse = Some rb_bits.
  Proof.
    unfold from_indices. replace ((4 <=? 16) && (16 <? 256)) with true by reflexivity.
    rewrite (sinc_strictly_increasing _ sparse_sinc).
    replace (forallb (fun i => i <? n) sparse) with true; [reflexivity|].
    symmetry. apply forallb_forall. intros x Hx. apply Nat.ltb_lt.
    pose proof sparse_lt as H. rewrite Forall_forall in H. now apply H.
  Qed.

  (* number of record starts <= off, minus one *)
  Lemma count_lt_sparse off : count_lt sparse off = spec_record_of rb off.
  Proof.
    unfold spec_record_of, sparse. destruct rb_head as (r & E).
    assert (Hpos : Forall (fun b => 0 < b) r).
    { apply Forall_forall. intros b Hb. destruct (In_nth _ _ 0 Hb) as (k & Hk & <-).
      pose proof (rb_nth_pos (Datatypes.S k)) as P. rewrite E in P. cbn [nth length] in P. apply P; lia. }
    rewrite E. cbn [tl filter]. destruct (Nat.leb_spec 0 off); [|lia]. cbn [length].
    replace (Datatypes.S (length (filter (fun b => b <=? off) r)) - 1) with (length (filter (fun b => b <=? off) r)) by lia.
    unfold count_lt. clear E. induction Hpos as [|b r Hb Hr IH]; [reflexivity|]. cbn [map filter].
    destruct (Nat.ltb_spec (b - 1) off), (Nat.leb_spec b off); cbn [length]; lia.
  Qed.

  Theorem rb_lookup off : off <= n -> bv_rank rb_bits off = Some (spec_record_of rb off).
  Proof.
    intros H. unfold rb_bits. rewrite (rank_of_indices n sparse sparse_sinc) by exact H.
    now rewrite count_lt_sparse.
  Qed.

  Theorem rb_lookup_none off : n < off -> bv_rank rb_bits off = None.
  Proof. intros H. unfold rb_bits. now apply rank_of_indices_none. Qed.

  Theorem rb_offset_of r : r < length rb -> bv_select rb_bits r = Some (nth r rb 0).
  Proof.
    intros Hr. destruct r as [|r].
    - rewrite bv_select_zero. destruct Hv as (_ & _ & Z & _). now rewrite Z.
    - unfold rb_bits. rewrite (select_of_indices n sparse sparse_sinc sparse_lt) by (rewrite ?sparse_length; lia).
      replace (Datatypes.S r - 1) with r by lia. rewrite sparse_nth by (rewrite sparse_length; lia).
      pose proof (rb_nth_pos (Datatypes.S r) ltac:(lia) Hr). f_equal. lia.
  Qed.

  Theorem rb_offset_of_none r : length rb <= r -> bv_select rb_bits r = None.
  Proof.
    intros Hr. unfold rb_bits. apply (select_of_indices_none n sparse sparse_sinc sparse_lt).
    rewrite sparse_length. destruct Hv as (A & _). destruct rb; [contradiction|]. cbn in *. lia.
  Qed.

  Theorem rb_records : bv_rank rb_bits (bv_len rb_bits) = Some (length rb - 1).
  Proof.
    unfold bv_len, rb_bits. rewrite bits_of_indices_length.
    rewrite (rank_of_indices n sparse sparse_sinc) by lia. f_equal.
    rewrite <- sparse_length. unfold count_lt.
    pose proof sparse_lt as H. induction H as [|x l Hx Hl IH]; [reflexivity|]. cbn [filter].
    destruct (Nat.ltb_spec x n); [|lia]. cbn [length]. now rewrite IH.
  Qed.
End Boundaries.

Lemma skipn_cons_nth {A} (l : list A) p d : p < length l -> skipn p l = nth p l d :: skipn (S p) l.
Proof.
  revert p. induction l as [|x l IH]; intros p H; [cbn in H; lia|].
  destruct p as [|p]; [reflexivity|]. cbn [skipn nth]. apply IH. cbn in H. lia.
Qed.

(* every Document operation answers as the plain scan of the text *)
Definition answers_as_scan (text : list N) (rb : list nat) (d : doc) : Prop :=
  doc_len d = Ok (length text) /\
  doc_records d = length rb /\
  (forall needle, doc_search d needle = Ok (occurrences text needle)) /\
  (forall needle, doc_count d needle = Ok (length (occurrences text needle))) /\
  (forall off, off < length text -> doc_lookup d off = Ok (spec_record_of rb off)) /\
  (forall r, r < length rb -> doc_retrieve d r = Ok (spec_record text rb r)) /\
  (forall r, r < length rb -> doc_offset_of d r = Ok (nth r rb 0)) /\
  (forall r, length rb <= r -> doc_retrieve d r = Err /\ doc_offset_of d r = Err).

(* ------------------------------------------------------------------ a PsiDocument whose parts meet their interfaces *)
Section DocCorrect.
  Variables (text : list N) (rb : list nat) (sg : sigma) (T sa : list nat).
  Hypothesis Hio : index_ok text sg T sa.
  Let n := length text.
  Hypothesis Hv : valid_boundaries n rb.
  Let isa := inverse sa.
  Let psi := psi_of sa isa.
  Variable d : doc.
  Hypothesis Hsg : d_sigma d = sg.
  Hypothesis Hrb : d_rb d = rb_bits n rb.
  Hypothesis Hpsi : psi_ok T sa psi n (d_psi d).
  Hypothesis Hloc : forall i, 0 < i -> i < S n -> d_sa d i = Ok (nth i sa 0).
  (* the inverse suffix array is consulted at record starts only *)
  Hypothesis Hisa : forall r, r < length rb -> d_isa d (nth r rb 0) = Ok (nth (nth r rb 0) isa 0).

  Let Hsa := io_sa _ _ _ _ Hio.
  Let HT : length T = S n := io_len _ _ _ _ Hio.
  Let Hterm : nth n T 0 = 0 := io_term _ _ _ _ Hio.
  Let Hpos := io_pos text sg T sa Hio.

  Theorem doc_len_correct : doc_len d = Ok n.
  Proof.
    unfold doc_len. rewrite (po_len _ _ _ _ _ Hpsi). destruct (Nat.eqb_spec (S n) 0); [lia|].
    f_equal. lia.
  Qed.

  Theorem doc_records_correct : doc_records d = length rb.
  Proof.
    unfold doc_records. rewrite Hrb, (rb_records n rb Hv).
    destruct Hv as (A & _). destruct rb; [contradiction|]. cbn [length]. lia.
  Qed.

  Theorem doc_lookup_correct off : off < n -> doc_lookup d off = Ok (spec_record_of rb off).
  Proof. intros H. unfold doc_lookup. rewrite Hrb, (rb_lookup n rb Hv) by lia. reflexivity. Qed.

  Theorem doc_offset_of_correct r : r < length rb -> doc_offset_of d r = Ok (nth r rb 0).
  Proof. intros H. unfold doc_offset_of. now rewrite Hrb, (rb_offset_of n rb Hv). Qed.

  Theorem doc_offset_of_beyond r : length rb <= r -> doc_offset_of d r = Err.
  Proof. intros H. unfold doc_offset_of. now rewrite Hrb, (rb_offset_of_none n rb Hv). Qed.

  (* following psi from the suffix-array position of text offset p spells the text from p on *)
  Lemma retrieve_loop_correct steps : forall p, p + steps <= n ->
    retrieve_loop d steps (nth p isa 0) = Ok (firstn steps (skipn p text)).
  Proof.
    induction steps as [|k IH]; intros p Hp; [reflexivity|].
    cbn [retrieve_loop]. rewrite Hsg.
    pose proof (ix_isa_lt T sa n Hsa HT Hterm Hpos p ltac:(lia)) as Li. fold isa in Li.
    pose proof (ix_sa_isa T sa n Hsa HT Hterm Hpos p ltac:(lia)) as Es. fold isa in Es.
    assert (Hi0 : 0 < nth p isa 0).
    { destruct (Nat.eq_dec (nth p isa 0) 0) as [Z|]; [|lia]. exfalso.
      rewrite Z, (ix_sa_zero T sa n Hsa HT Hterm Hpos) in Es. lia. }
    rewrite (io_s2t _ _ _ _ Hio (nth p isa 0) Hi0 Li), Es. cbn [rbind].
    rewrite (po_lookup _ _ _ _ _ Hpsi (nth p isa 0) Li). cbn [rbind].
    assert (Ep : nth (nth p isa 0) psi 0 = nth (S p) isa 0).
    { pose proof (ix_psi_nth T sa n Hsa HT Hterm Hpos (nth p isa 0) Li) as Q. fold isa psi in Q.
      rewrite Q, Es. destruct (Nat.eqb_spec (p + 1) (S n)); [lia|]. f_equal. lia. }
    rewrite Ep, (IH (S p)) by lia. cbn [rbind]. f_equal.
    assert (Hlt : p < length text) by (fold n; lia).
    now rewrite (skipn_cons_nth text p 0%N Hlt).
  Qed.

  Theorem doc_retrieve_correct r : r < length rb -> doc_retrieve d r = Ok (spec_record text rb r).
  Proof.
    intros Hr. unfold doc_retrieve, spec_record. rewrite Hrb, (rb_offset_of n rb Hv r Hr). cbn [ok_or rbind].
    rewrite doc_len_correct. cbn [rbind].
    assert (Hlim : (match bv_select (rb_bits n rb) (r + 1) with Some l => l | None => n end) = nth (S r) rb n).
    { destruct (Nat.lt_ge_cases (S r) (length rb)) as [H|H].
      - replace (r + 1) with (S r) by lia. rewrite (rb_offset_of n rb Hv (S r) H). apply nth_indep. exact H.
      - rewrite (rb_offset_of_none n rb Hv (r + 1)) by lia. symmetry. apply nth_overflow. lia. }
    rewrite Hlim. fold n.
    assert (Hle : nth r rb 0 <= nth (S r) rb n /\ nth (S r) rb n <= n).
    { destruct (Nat.lt_ge_cases (S r) (length rb)) as [H|H].
      - rewrite (nth_indep rb n 0 H). destruct Hv as (_ & S & _).
        pose proof (sinc_nth rb S r (Datatypes.S r) ltac:(lia) H). pose proof (rb_nth_lt n rb Hv (Datatypes.S r) H). lia.
      - rewrite (nth_overflow rb n) by lia. pose proof (rb_nth_lt n rb Hv r Hr). lia. }
    destruct (Nat.ltb_spec (nth (S r) rb n) (nth r rb 0)); [lia|].
    rewrite (Hisa r Hr). cbn [rbind]. apply retrieve_loop_correct. lia.
  Qed.

  Theorem doc_retrieve_beyond r : length rb <= r -> doc_retrieve d r = Err.
  Proof. intros H. unfold doc_retrieve. now rewrite Hrb, (rb_offset_of_none n rb Hv r H). Qed.

  Theorem doc_answers : answers_as_scan text rb d.
  Proof.
    unfold answers_as_scan. fold n.
    split; [exact doc_len_correct|]. split; [exact doc_records_correct|].
    split; [exact (doc_search_correct text sg T sa Hio d Hsg Hpsi Hloc)|].
    split; [exact (doc_count_correct text sg T sa Hio d Hsg Hpsi)|].
    split; [exact doc_lookup_correct|]. split; [exact doc_retrieve_correct|].
    split; [exact doc_offset_of_correct|].
    intros r Hr. split; [now apply doc_retrieve_beyond|now apply doc_offset_of_beyond].
  Qed.
End DocCorrect.

(* ------------------------------------------------------------------ construction *)
Definition sigma_string (text : list N) : list nat := map (c2s text) text ++ [0].

Lemma construct_parts_ok text rb : check_record_boundaries text rb = true ->
  exists p, construct_parts text rb = Ok p /\
    pt_rb p = rb_bits (length text) rb /\
    pt_sigma p = the_sigma text /\ pt_S p = sigma_string text /\
    pt_sa p = suffix_array (sigma_string text) /\
    pt_isa p = inverse (pt_sa p) /\ pt_psi p = psi_of (pt_sa p) (pt_isa p) /\
    index_ok text (pt_sigma p) (pt_S p) (pt_sa p).
Proof.
  intros Hc. unfold construct_parts. rewrite Hc. cbn [negb].
  apply check_record_boundaries_valid in Hc.
  rewrite (rb_from_indices (length text) rb Hc). cbn [ok_or rbind].
  rewrite so_construct. cbn [rbind]. rewrite so_translate. cbn [rbind].
  fold (sigma_string text).
  pose proof (suffix_array_ok (sigma_string text)) as Hsa.
  pose proof (so_T_length text) as HT. fold (sigma_string text) in HT.
  rewrite (inverse_and_psi_ok (suffix_array (sigma_string text))).
  - cbn [rbind]. eexists. split; [reflexivity|]. cbn [pt_rb pt_sigma pt_S pt_sa pt_isa pt_psi fst snd].
    do 6 (split; [reflexivity|]).
    apply sigma_index_ok. exact Hsa.
  - exact (sa_NoDup _ _ Hsa).
  - apply Forall_forall. intros v Hv. apply (sa_In _ _ Hsa) in Hv. now rewrite (sa_length _ _ Hsa).
  - rewrite (sa_length _ _ Hsa), HT. lia.
Qed.

Theorem reference_psi_doc_correct text rb : check_record_boundaries text rb = true ->
  exists d, construct_reference_psi_doc text rb = Ok d /\ answers_as_scan text rb d.
Proof.
  intros Hc. destruct (construct_parts_ok text rb Hc) as (p & Cp & Erb & Esg & ES & Esa & Eisa & Epsi & Hio).
  unfold construct_reference_psi_doc. rewrite Cp. cbn [rbind]. eexists. split; [reflexivity|].
  apply check_record_boundaries_valid in Hc.
  pose proof (io_sa _ _ _ _ Hio) as Hsa. pose proof (io_len _ _ _ _ Hio) as HT.
  pose proof (io_term _ _ _ _ Hio) as Hterm. pose proof (io_pos _ _ _ _ Hio) as Hpos.
  apply (doc_answers text rb (pt_sigma p) (pt_S p) (pt_sa p) Hio Hc); cbn [d_sigma d_rb d_psi d_sa d_isa].
  - reflexivity.
  - exact Erb.
  - rewrite Epsi, Eisa. apply (rpsi_psi_ok text (pt_sigma p) (pt_S p) (pt_sa p) Hio).
  - intros i _ Hi. unfold rsa_lookup.
    rewrite (nth_error_nth' _ 0) by (rewrite (ix_sa_length _ _ _ Hsa HT Hterm Hpos); exact Hi). reflexivity.
  - intros r Hr. unfold risa_lookup. rewrite Eisa.
    rewrite (nth_error_nth' _ 0); [reflexivity|].
    rewrite (ix_isa_length _ _ _ Hsa HT Hterm Hpos). pose proof (rb_nth_lt _ _ Hc r Hr). lia.
Qed.

(* ------------------------------------------------------------------ ReferenceDocument is the plain scan *)
Lemma prefixb_length w l : prefixb w l = true -> length w <= length l.
Proof.
  revert l. induction w as [|x w IH]; intros [|y l] H; cbn in *; try lia; try discriminate.
  apply andb_prop in H. destruct H as [_ H]. specialize (IH l H). lia.
Qed.

Lemma list_eqb_firstn_prefixb w : forall l, length w <= length l ->
  list_eqb (firstn (length w) l) w = prefixb w l.
Proof.
  induction w as [|x w IH]; intros l H; [reflexivity|].
  destruct l as [|y l]; [cbn in H; lia|]. cbn [length firstn list_eqb prefixb].
  rewrite IH by (cbn in H; lia). now rewrite N.eqb_sym.
Qed.

Lemma spec_record_of_count rb off : spec_record_of rb off = count_lt rb (S off) - 1.
Proof.
  unfold spec_record_of, count_lt. reflexivity.
Qed.

Section RefDoc.
  Variables (text : list N) (rb : list nat).
  Let n := length text.
  Hypothesis Hv : valid_boundaries n rb.
  Let r := {| r_text := text; r_rb := rb |}.

  Theorem ref_search_correct needle : ref_search r needle = occurrences text needle.
  Proof.
    unfold ref_search, occurrences. cbn [r r_text]. destruct needle as [|t w].
    - cbn [prefixb]. symmetry. generalize (seq 0 (length text)). intros l.
      induction l as [|x l IH]; cbn [filter]; [reflexivity|]. now rewrite IH.
    - set (nd := t :: w). apply sinc_ext; [apply sinc_filter_seq|apply sinc_filter_seq|].
      intros i. rewrite !filter_In, !in_seq. fold n. split.
      + intros (Hi & E). assert (Hl : length nd <= length (skipn i text)) by (rewrite skipn_length; fold n; lia).
        rewrite list_eqb_firstn_prefixb in E by exact Hl. split; [|exact E].
        assert (0 < length nd) by (cbn; lia). lia.
      + intros (Hi & E). pose proof (prefixb_length _ _ E) as Hl. rewrite skipn_length in Hl. fold n in Hl.
        split; [lia|]. rewrite list_eqb_firstn_prefixb; [exact E|rewrite skipn_length; fold n; lia].
  Qed.

  Theorem ref_count_correct needle : ref_count r needle = length (occurrences text needle).
  Proof. unfold ref_count. now rewrite ref_search_correct. Qed.

  Theorem ref_lookup_correct off : off < n -> ref_lookup r off = Ok (spec_record_of rb off).
  Proof.
    intros Hoff. unfold ref_lookup. cbn [r r_rb]. rewrite spec_record_of_count.
    destruct Hv as (Hne & Hs & Z & _).
    pose proof (count_lt_le_length rb off) as Cl. pose proof (count_lt_mono rb off (S off) ltac:(lia)) as Cm.
    pose proof (count_lt_le_length rb (S off)) as Cl'.
    destruct (Nat.leb_spec (length rb) (count_lt rb off)) as [Hall|Hsome].
    - destruct (Nat.eqb_spec (length rb) 0) as [E|_]; [destruct rb; [contradiction|discriminate]|].
      cbn [negb andb]. f_equal. lia.
    - cbn [andb].
      pose proof (count_lt_nth rb Hs (count_lt rb off) off Hsome) as Q1.
      pose proof (count_lt_nth rb Hs (count_lt rb off) (S off) Hsome) as Q2.
      destruct (Nat.leb_spec (nth (count_lt rb off) rb 0) off) as [Hle|Hgt].
      + f_equal.
        (* exactly one more boundary is <= off *)
        assert (A : count_lt rb off < count_lt rb (S off)) by (apply Q2; lia).
        destruct (Nat.eq_dec (count_lt rb (S off)) (S (count_lt rb off))) as [E|NE]; [lia|].
        assert (B : S (count_lt rb off) < length rb) by lia.
        pose proof (count_lt_nth rb Hs (S (count_lt rb off)) (S off) B) as Q3.
        assert (nth (S (count_lt rb off)) rb 0 < S off) by (apply Q3; lia).
        pose proof (sinc_nth rb Hs (count_lt rb off) (S (count_lt rb off)) ltac:(lia) B). lia.
      + assert (A : ~ count_lt rb off < count_lt rb (S off)) by (intros A; apply Q2 in A; lia).
        destruct (Nat.eqb_spec (count_lt rb off) 0) as [E0|NE0].
        * exfalso. rewrite E0, Z in Hgt. lia.
        * f_equal. lia.
  Qed.

  Theorem ref_offset_of_correct k : k < length rb -> ref_offset_of r k = Ok (nth k rb 0).
  Proof. intros H. unfold ref_offset_of. cbn [r r_rb]. destruct (Nat.leb_spec (length rb) k); [lia|reflexivity]. Qed.

  Theorem ref_retrieve_correct k : k < length rb -> ref_retrieve r k = Ok (spec_record text rb k).
  Proof.
    intros H. unfold ref_retrieve, spec_record. cbn [r r_rb r_text].
    destruct (Nat.leb_spec (length rb) k); [lia|].
    assert (E : (if length rb <=? k + 1 then length text else nth (k + 1) rb 0) = nth (S k) rb (length text)).
    { replace (k + 1) with (S k) by lia. destruct (Nat.leb_spec (length rb) (S k)).
      - now rewrite nth_overflow by lia.
      - now apply nth_indep. }
    rewrite E. fold n.
    assert (Hle : nth k rb 0 <= nth (S k) rb n /\ nth (S k) rb n <= n).
    { destruct (Nat.lt_ge_cases (S k) (length rb)) as [Hk|Hk].
      - rewrite (nth_indep rb n 0 Hk). destruct Hv as (_ & S & _).
        pose proof (sinc_nth rb S k (Datatypes.S k) ltac:(lia) Hk). pose proof (rb_nth_lt n rb Hv (Datatypes.S k) Hk). lia.
      - rewrite (nth_overflow rb n) by lia. pose proof (rb_nth_lt n rb Hv k H). lia. }
    destruct (Nat.leb_spec (nth k rb 0) (nth (S k) rb n)); [|lia].
    destruct (Nat.leb_spec (nth (S k) rb n) n); [|lia]. reflexivity.
  Qed.

  Theorem ref_beyond k : length rb <= k -> ref_retrieve r k = Err /\ ref_offset_of r k = Err.
  Proof.
    intros H. unfold ref_retrieve, ref_offset_of. cbn [r r_rb]. destruct (Nat.leb_spec (length rb) k); [|lia]. now split.
  Qed.
End RefDoc.
