(* Scrunch/ProofsStructural.v — the proved bit-vector instances put where CompressedDocument uses
   them: the record boundaries through the sparse B-tree, every other sparse vector (sigma's
   columns, the presence vectors of the sampled arrays, y_key) and every rrr vector (the nodes of
   the prefix wavelet trees) through the universal theorems. *)
From Coq Require Import Arith NArith List Bool Lia.
From Blue Require Import Scrunch.ModelBits Scrunch.Model Scrunch.ModelWT Scrunch.ModelSparse Scrunch.ModelRRR
  Scrunch.ProofsBits Scrunch.ProofsSorted Scrunch.ProofsDoc Scrunch.ProofsCompressed Scrunch.ProofsWT4
  Scrunch.ProofsSparse4 Scrunch.ProofsSparse5 Scrunch.ProofsRRR2 Scrunch.ProofsRRR6.
Import ListNotations.
Local Open Scope nat_scope.
Arguments Nat.sub : simpl never.
Arguments Nat.leb : simpl never.
Arguments Nat.ltb : simpl never.
Arguments Nat.eqb : simpl never.

(* rank as the trait defaults (rank0, select0) see it *)
Definition sv_rank_opt (v : sparse) (x : nat) : option nat :=
  match sv_rank v x with Ok r => r | _ => None end.

(* a sparse vector answers as the bit list b: the four methods it implements and the two it
   inherits from the trait *)
Definition sparse_answers (v : sparse) (b : bits) : Prop :=
  sv_length v = length b /\
  (forall x, sv_access v x = Ok (bv_access b x)) /\
  (forall x, sv_rank v x = Ok (bv_rank b x)) /\
  (forall k, sv_select v k = bv_select b k) /\
  (forall x, default_rank0 (sv_rank_opt v) x = default_rank0 (bv_rank b) x) /\
  (forall k, default_select0 (sv_length v) (sv_rank_opt v) k = Ok (bv_select0 b k)).

Lemma sv_from_indices_length branch len idx v : sv_from_indices branch len idx = Some v -> sv_length v = len.
Proof.
  unfold sv_from_indices. destruct (_ && _); [|discriminate]. destruct (strictly_increasing idx); [|discriminate].
  destruct (forallb _ idx); [|discriminate]. destruct idx as [|i idx'].
  - intros [= <-]. reflexivity.
  - destruct (build_leaves _ _ _ _) as [[ds ps] nodes]. destruct (build_levels _ _ _ _ _ _) as [[ps' nodes'] levels].
    intros [= <-]. reflexivity.
Qed.

Lemma sparse_answers_of v b : sv_length v = length b ->
  (forall x, sv_access v x = Ok (bv_access b x)) -> (forall x, sv_rank v x = Ok (bv_rank b x)) ->
  (forall k, sv_select v k = bv_select b k) -> sparse_answers v b.
Proof.
  intros L A R S. unfold sparse_answers.
  assert (Ro : forall x, sv_rank_opt v x = bv_rank b x) by (intros x; unfold sv_rank_opt; now rewrite R).
  repeat split; try assumption.
  - intros x. unfold default_rank0. now rewrite Ro.
  - intros k. rewrite L. unfold default_select0, bv_select0. apply default_select_gen.
    + intros x Hx. unfold default_rank0. rewrite Ro. now apply bv_rank0_spec.
    + intros x Hx. unfold default_rank0. now rewrite Ro, bv_rank_none.
Qed.

(* from_indices, every accepted call *)
Theorem sparse_from_indices_answers branch len idx b : from_indices branch len idx = Some b ->
  exists v, sv_from_indices branch len idx = Some v /\ sparse_answers v b.
Proof.
  intros H. destruct (from_indices_accepts _ _ _ _ H) as [Hacc ->].
  destruct (sparse_is_the_bit_list branch len idx Hacc) as (v & C & A & R & S).
  exists v. split; [exact C|]. apply sparse_answers_of; try assumption.
  rewrite (sv_from_indices_length _ _ _ _ C). now rewrite bits_of_indices_length.
Qed.

(* construct(bits), every bit list *)
Theorem sparse_construct_answers b : exists v, sv_construct b = Some v /\ sparse_answers v b.
Proof.
  destruct (sparse_construct_is_the_bit_list b) as (v & C & A & R & S). exists v. split; [exact C|].
  apply sparse_answers_of; try assumption. exact (sv_from_indices_length _ _ _ _ C).
Qed.

(* ------------------------------------------------------------------ the document *)
Lemma construct_compressed_rb text rb d : check_record_boundaries text rb = true ->
  construct_compressed text rb = Ok d -> d_rb d = rb_bits (length text) rb.
Proof.
  intros Hc. destruct (construct_parts_ok text rb Hc) as (p & Cp & Erb & _).
  unfold construct_compressed. rewrite Cp. cbn [rbind].
  destruct (ssa_construct SA_SAMPLING (pt_sa p)); cbn [rbind]; try discriminate.
  destruct (sisa_construct (pt_isa p) rb); cbn [rbind]; try discriminate.
  destruct (wpsi_construct (pt_sigma p) (pt_psi p)); cbn [rbind]; try discriminate.
  intros [= <-]. exact Erb.
Qed.

(* lookup / offset_of as CompressedDocument runs them: rank / select on the sparse B-tree built
   by from_indices(16, text.len(), record_boundaries[1..] - 1) *)
Definition sdoc_lookup (v : sparse) (offset : nat) : res nat := do r <- sv_rank v offset; ok_or r.
Definition sdoc_offset_of (v : sparse) (record : nat) : res nat := ok_or (sv_select v record).
Definition sdoc_records (v : sparse) : res nat :=
  do r <- sv_rank v (sv_length v); Ok (match r with Some r => r | None => 0 end + 1).

Theorem compressed_doc_structural text rb : check_record_boundaries text rb = true ->
  exists d, construct_compressed text rb = Ok d /\ answers_as_scan text rb d /\
    exists v, sv_from_indices 16 (length text) (map (fun b => b - 1) (tl rb)) = Some v /\
      sparse_answers v (d_rb d) /\
      sdoc_records v = Ok (length rb) /\
      (forall off, off < length text -> sdoc_lookup v off = Ok (spec_record_of rb off)) /\
      (forall r, r < length rb -> sdoc_offset_of v r = Ok (nth r rb 0)) /\
      (forall r, length rb <= r -> sdoc_offset_of v r = Err).
Proof.
  intros Hc. destruct (compressed_doc_correct text rb Hc) as (d & Cd & Ha).
  exists d. split; [exact Cd|]. split; [exact Ha|].
  pose proof (construct_compressed_rb text rb d Hc Cd) as Erb.
  pose proof (proj1 (check_record_boundaries_valid text rb) Hc) as Hv.
  destruct (sparse_from_indices_answers 16 (length text) (map (fun b => b - 1) (tl rb)) (rb_bits (length text) rb)
              (rb_from_indices (length text) rb Hv)) as (v & Cv & Hs).
  exists v. split; [exact Cv|]. rewrite Erb. split; [exact Hs|].
  destruct Hs as (L & A & R & S & _).
  destruct Ha as (_ & Hrec & _ & _ & Hlook & _ & Hoff & Hnone).
  unfold doc_lookup, doc_offset_of, doc_records in *. rewrite Erb in *.
  split; [|split; [|split]].
  - unfold sdoc_records. rewrite L, R. cbn [rbind]. unfold bv_len in Hrec. now rewrite Hrec.
  - intros off Ho. unfold sdoc_lookup. rewrite R. cbn [rbind]. now apply Hlook.
  - intros r Hr. unfold sdoc_offset_of. rewrite S. now apply Hoff.
  - intros r Hr. unfold sdoc_offset_of. rewrite S. now apply Hnone.
Qed.
