(* Scrunch/ProofsIAP.v — the inverse of a permutation; lib.rs inverse_and_psi_u32 (one pass over
   the suffix array, filling isa and psi as predecessors / successors become known) computes the
   inverse suffix array and psi = compute_from_sa_isa_u32, on every permutation. *)
From Coq Require Import Arith NArith List Bool Lia Sorted Permutation.
From Blue Require Import Scrunch.ModelBits Scrunch.Model Scrunch.ProofsBits Scrunch.ProofsSorted
  Scrunch.ProofsSuffix.
Import ListNotations.

Arguments Nat.sub : simpl never.
Arguments Nat.div : simpl never.
Arguments Nat.modulo : simpl never.
Arguments Nat.leb : simpl never.
Arguments Nat.ltb : simpl never.
Arguments Nat.eqb : simpl never.

(* ------------------------------------------------------------------ inverse of a permutation *)
Lemma perm_of_bounded (x : list nat) : NoDup x -> Forall (fun v => v < length x) x ->
  Permutation x (seq 0 (length x)).
Proof.
  intros Hnd Hf. apply NoDup_Permutation_bis; [exact Hnd|now rewrite seq_length|].
  intros v Hv. apply in_seq. rewrite Forall_forall in Hf. specialize (Hf v Hv). lia.
Qed.

Lemma inverse_perm (x : list nat) : NoDup x -> Forall (fun v => v < length x) x ->
  forall p, p < length x -> nth p (inverse x) 0 < length x /\ nth (nth p (inverse x) 0) x 0 = p.
Proof.
  intros Hnd Hf p Hp.
  assert (Hin : In p x).
  { apply (Permutation_in _ (Permutation_sym (perm_of_bounded x Hnd Hf))). apply in_seq. lia. }
  destruct (In_nth _ _ 0 Hin) as (i & Hi & E). rewrite <- E, inverse_spec by assumption. split; [assumption|reflexivity].
Qed.

Lemma inverse_NoDup (x : list nat) : NoDup x -> Forall (fun v => v < length x) x ->
  NoDup (inverse x) /\ Forall (fun v => v < length (inverse x)) (inverse x).
Proof.
  intros Hnd Hf. rewrite inverse_length. split.
  - apply NoDup_nth with (d := 0). rewrite inverse_length. intros i j Hi Hj E.
    destruct (inverse_perm x Hnd Hf i Hi) as (_ & A). destruct (inverse_perm x Hnd Hf j Hj) as (_ & B). congruence.
  - apply Forall_forall. intros v Hv. destruct (In_nth _ _ 0 Hv) as (p & Hp & <-). rewrite inverse_length in Hp.
    apply (inverse_perm x Hnd Hf p Hp).
Qed.


Lemma nth_repeat_same {A} (x : A) k j : nth j (repeat x k) x = x.
Proof. revert j. induction k as [|k IH]; intros [|j]; cbn; try reflexivity. apply IH. Qed.

Lemma skipn_cons_nth_nat (l : list nat) p : p < length l -> skipn p l = nth p l 0 :: skipn (S p) l.
Proof.
  revert p. induction l as [|x l IH]; intros p H; [cbn in H; lia|].
  destruct p as [|p]; [reflexivity|]. cbn [skipn nth]. apply IH. cbn in H. lia.
Qed.

Section IAP.
  Variable sa : list nat.
  Let m := length sa.
  Hypothesis Hnd : NoDup sa.
  Hypothesis Hb : Forall (fun v => v < m) sa.
  Hypothesis Hm : 0 < m.
  Let isaF := inverse sa.

  Definition nxt (p : nat) : nat := if p + 1 =? m then 0 else p + 1.
  Definition prv (p : nat) : nat := if p =? 0 then m - 1 else p - 1.

  Lemma nxt_prv p : p < m -> nxt (prv p) = p.
  Proof.
    intros H. unfold nxt, prv. destruct (Nat.eqb_spec p 0) as [E|NE].
    - destruct (Nat.eqb_spec (m - 1 + 1) m); lia.
    - destruct (Nat.eqb_spec (p - 1 + 1) m); lia.
  Qed.
  Lemma prv_lt p : p < m -> prv p < m.
  Proof. intros H. unfold prv. destruct (Nat.eqb_spec p 0); lia. Qed.
  Lemma nxt_lt p : p < m -> nxt p < m.
  Proof. intros H. unfold nxt. destruct (Nat.eqb_spec (p + 1) m); lia. Qed.

  Lemma sa_nth_lt i : i < m -> nth i sa 0 < m.
  Proof. intros H. rewrite Forall_forall in Hb. apply Hb, nth_In. exact H. Qed.

  Lemma isaF_sa i : i < m -> nth (nth i sa 0) isaF 0 = i.
  Proof. intros H. apply inverse_spec; assumption. Qed.

  Lemma sa_isaF p : p < m -> nth p isaF 0 < m /\ nth (nth p isaF 0) sa 0 = p.
  Proof. intros H. apply inverse_perm; assumption. Qed.

  Definition tv (j : nat) : nat := nth (nxt (nth j sa 0)) isaF 0.

  Lemma prv_nxt p : p < m -> prv (nxt p) = p.
  Proof. intros H. unfold nxt, prv. destruct (Nat.eqb_spec (p + 1) m) as [E|NE]; [destruct (Nat.eqb_spec 0 0); lia|].
    destruct (Nat.eqb_spec (p + 1) 0); lia. Qed.

  Lemma isaF_inj p q : p < m -> q < m -> nth p isaF 0 = nth q isaF 0 -> p = q.
  Proof. intros Hp Hq E. destruct (sa_isaF p Hp) as (_ & A). destruct (sa_isaF q Hq) as (_ & B). congruence. Qed.

  (* the entry whose successor is being visited *)
  Lemma tv_eq j t : j < m -> t < m -> (tv j = t <-> j = nth (prv (nth t sa 0)) isaF 0).
  Proof.
    intros Hj Ht. unfold tv. pose proof (sa_nth_lt j Hj) as Lj. pose proof (sa_nth_lt t Ht) as Lt.
    split.
    - intros E. rewrite <- (isaF_sa t Ht) in E. apply isaF_inj in E; [|now apply nxt_lt|exact Lt].
      rewrite <- E, prv_nxt by exact Lj. now rewrite isaF_sa.
    - intros ->. destruct (sa_isaF (prv (nth t sa 0)) (prv_lt _ Lt)) as (_ & Q). rewrite Q, nxt_prv by exact Lt.
      now apply isaF_sa.
  Qed.

  (* state after the first t suffix-array entries *)
  Record iinv (t : nat) (isa psi : list (option nat)) : Prop := {
    ii_len1 : length isa = m;
    ii_len2 : length psi = m;
    ii_isa : forall p, p < m -> nth p isa None = if nth p isaF 0 <? t then Some (nth p isaF 0) else None;
    ii_psi : forall j, j < m -> nth j psi None = if (j <? t) && (tv j <? t) then Some (tv j) else None
  }.

  Lemma iinv_step t isa psi : t < m -> iinv t isa psi ->
    iinv (S t) (fst (iap_step m (isa, psi) (t, nth t sa 0))) (snd (iap_step m (isa, psi) (t, nth t sa 0))).
  Proof.
    intros Ht I. unfold iap_step. set (pos := nth t sa 0).
    assert (Hpos : pos < m) by (now apply sa_nth_lt).
    set (isa1 := set_nth pos (Some t) isa).
    assert (L1 : length isa1 = m) by (unfold isa1; rewrite set_nth_length; exact (ii_len1 _ _ _ I)).
    assert (N1 : forall p, p < m -> nth p isa1 None = if nth p isaF 0 <? S t then Some (nth p isaF 0) else None).
    { intros p Hp. unfold isa1. destruct (Nat.eq_dec p pos) as [->|NE].
      - rewrite nth_set_nth_eq by (rewrite (ii_len1 _ _ _ I); exact Hpos). unfold pos. rewrite isaF_sa by exact Ht.
        destruct (Nat.ltb_spec t (S t)); [reflexivity|lia].
      - rewrite nth_set_nth_neq by lia. rewrite (ii_isa _ _ _ I p Hp).
        assert (nth p isaF 0 <> t).
        { intros E. apply NE. destruct (sa_isaF p Hp) as (_ & Q). rewrite E in Q. unfold pos. now rewrite Q. }
        destruct (Nat.ltb_spec (nth p isaF 0) t), (Nat.ltb_spec (nth p isaF 0) (S t)); try reflexivity; lia. }
    fold (prv pos). fold (nxt pos).
    set (q' := nth (prv pos) isaF 0). set (k' := nth (nxt pos) isaF 0).
    assert (Hq' : q' < m) by (apply sa_isaF, prv_lt, Hpos).
    assert (Hk' : k' < m) by (apply sa_isaF, nxt_lt, Hpos).
    rewrite (N1 (prv pos) (prv_lt _ Hpos)), (N1 (nxt pos) (nxt_lt _ Hpos)). fold q' k'.
    set (psi1 := if q' <? S t then set_nth q' (Some t) psi else psi).
    replace (match (if q' <? S t then Some q' else None) with Some prev_isa => set_nth prev_isa (Some t) psi | None => psi end)
      with psi1 by (unfold psi1; destruct (q' <? S t); reflexivity).
    set (psi2 := if k' <? S t then set_nth t (Some k') psi1 else psi1).
    replace (match (if k' <? S t then Some k' else None) with Some next_isa => set_nth t (Some next_isa) psi1 | None => psi1 end)
      with psi2 by (unfold psi2; destruct (k' <? S t); reflexivity).
    cbn [fst snd].
    assert (Lp1 : length psi1 = m) by (unfold psi1; destruct (q' <? S t); [rewrite set_nth_length|]; exact (ii_len2 _ _ _ I)).
    assert (Lp2 : length psi2 = m) by (unfold psi2; destruct (k' <? S t); [rewrite set_nth_length|]; exact Lp1).
    constructor; [exact L1|exact Lp2|exact N1|].
    intros j Hj. assert (Etv : tv t = k') by reflexivity.
    pose proof (tv_eq j t Hj Ht) as Q. fold pos q' in Q.
    destruct (Nat.eq_dec j t) as [->|NEt].
    - (* the entry of the current index *)
      unfold psi2. destruct (Nat.ltb_spec k' (S t)) as [Hk|Hk].
      + rewrite nth_set_nth_eq by (rewrite Lp1; exact Ht). rewrite Etv.
        destruct (Nat.ltb_spec t (S t)); [|lia]. destruct (Nat.ltb_spec k' (S t)); [reflexivity|lia].
      + rewrite Etv. destruct (Nat.ltb_spec k' (S t)); [lia|]. rewrite andb_false_r.
        assert (NQ : q' <> t).
        { intros E. assert (Ep : prv pos = pos).
          { destruct (sa_isaF (prv pos) (prv_lt _ Hpos)) as (_ & A). fold q' in A. rewrite E in A. exact (eq_sym A). }
          (* prv fixes a point only when m = 1 *)
          assert (m = 1) by (unfold prv in Ep; destruct (Nat.eqb_spec pos 0); lia).
          lia. }
        unfold psi1. destruct (Nat.ltb_spec q' (S t)).
        * rewrite nth_set_nth_neq by exact NQ. rewrite (ii_psi _ _ _ I t Ht).
          destruct (Nat.ltb_spec t t); [lia|reflexivity].
        * rewrite (ii_psi _ _ _ I t Ht). destruct (Nat.ltb_spec t t); [lia|reflexivity].
    - assert (E2 : nth j psi2 None = nth j psi1 None).
      { unfold psi2. destruct (k' <? S t); [now rewrite nth_set_nth_neq by lia|reflexivity]. }
      rewrite E2. unfold psi1.
      destruct (Nat.eq_dec j q') as [Eq|NEq].
      + (* j is the predecessor entry: its successor is the current index *)
        assert (Etj : tv j = t) by (apply Q; exact Eq).
        rewrite Etj. destruct (Nat.ltb_spec t (S t)); [|lia]. rewrite andb_true_r. subst j.
        destruct (Nat.ltb_spec q' (S t)).
        * now rewrite nth_set_nth_eq by (rewrite (ii_len2 _ _ _ I); exact Hq').
        * rewrite (ii_psi _ _ _ I q' Hq'). destruct (Nat.ltb_spec q' t); [lia|reflexivity].
      + assert (NE : tv j <> t) by (intros E; apply NEq, Q; exact E).
        assert (Eold : nth j (if q' <? S t then set_nth q' (Some t) psi else psi) None = nth j psi None).
        { destruct (q' <? S t); [now rewrite nth_set_nth_neq by lia|reflexivity]. }
        rewrite Eold, (ii_psi _ _ _ I j Hj).
        destruct (Nat.ltb_spec j t), (Nat.ltb_spec j (S t)), (Nat.ltb_spec (tv j) t), (Nat.ltb_spec (tv j) (S t));
          cbn [andb]; try reflexivity; lia.
  Qed.

  Lemma iinv_init : iinv 0 (repeat None m) (repeat None m).
  Proof.
    constructor; try apply repeat_length.
    - intros p Hp. rewrite nth_repeat_same. destruct (Nat.ltb_spec (nth p isaF 0) 0); [lia|reflexivity].
    - intros j Hj. rewrite nth_repeat_same. destruct (Nat.ltb_spec j 0); [lia|reflexivity].
  Qed.

  Lemma iinv_fold rest : forall t st, rest = skipn t sa -> t <= m -> iinv t (fst st) (snd st) ->
    let r := fold_left (iap_step m) (enumerate_from t rest) st in iinv m (fst r) (snd r).
  Proof.
    induction rest as [|x rest IH]; intros t st Hr Htm I; cbn [enumerate_from fold_left].
    - assert (t = m).
      { apply (f_equal (@length nat)) in Hr. rewrite skipn_length in Hr. cbn in Hr. fold m in Hr. lia. }
      subst t. exact I.
    - assert (Ht : t < m).
      { apply (f_equal (@length nat)) in Hr. rewrite skipn_length in Hr. cbn in Hr. fold m in Hr. lia. }
      rewrite (skipn_cons_nth_nat sa t Ht) in Hr. injection Hr as -> Hr'.
      destruct st as [isa psi]. cbn [fst snd] in I.
      pose proof (iinv_step t isa psi Ht I) as I'.
      apply (IH (S t) _ Hr' ltac:(lia) I').
  Qed.

  Lemma mapM_unwrap_some {A} (l : list A) : mapM unwrap (map Some l) = Ok l.
  Proof. induction l as [|x l IH]; [reflexivity|]. cbn [map mapM unwrap rbind]. now rewrite IH. Qed.

  Theorem inverse_and_psi_ok : inverse_and_psi sa = Ok (inverse sa, psi_of sa (inverse sa)).
  Proof.
    unfold inverse_and_psi. fold m.
    pose proof (iinv_fold sa 0 (repeat None m, repeat None m) eq_refl ltac:(lia) iinv_init) as I.
    cbn zeta in I. destruct (fold_left (iap_step m) (enumerate_from 0 sa) (repeat None m, repeat None m)) as [isa psi].
    cbn [fst snd] in I.
    assert (LF : length isaF = m) by (unfold isaF; apply inverse_length).
    assert (E1 : isa = map Some isaF).
    { apply (nth_ext _ _ None None); [now rewrite map_length, (ii_len1 _ _ _ I)|].
      intros p Hp. rewrite (ii_len1 _ _ _ I) in Hp. rewrite (ii_isa _ _ _ I p Hp).
      destruct (sa_isaF p Hp) as (L & _). destruct (Nat.ltb_spec (nth p isaF 0) m); [|lia].
      rewrite (nth_indep _ None (Some 0)) by (rewrite map_length; lia). now rewrite (map_nth Some). }
    assert (E2 : psi = map Some (psi_of sa isaF)).
    { apply (nth_ext _ _ None None); [unfold psi_of; now rewrite !map_length, (ii_len2 _ _ _ I)|].
      intros j Hj. rewrite (ii_len2 _ _ _ I) in Hj. rewrite (ii_psi _ _ _ I j Hj).
      assert (Lt : tv j < m) by (unfold tv; apply sa_isaF, nxt_lt, sa_nth_lt, Hj).
      destruct (Nat.ltb_spec j m); [|lia]. destruct (Nat.ltb_spec (tv j) m); [|lia]. cbn [andb].
      rewrite (nth_indep _ None (Some 0)) by (unfold psi_of; rewrite !map_length; exact Hj).
      rewrite (map_nth Some). f_equal. unfold psi_of.
      rewrite (nth_indep _ 0 ((fun pos => nth (if pos + 1 =? length isaF then 0 else pos + 1) isaF 0) 0))
        by (rewrite map_length; exact Hj).
      rewrite (map_nth (fun pos => nth (if pos + 1 =? length isaF then 0 else pos + 1) isaF 0) sa 0 j).
      unfold tv, nxt. now rewrite LF. }
    rewrite E1, E2, !mapM_unwrap_some. reflexivity.
  Qed.
End IAP.
