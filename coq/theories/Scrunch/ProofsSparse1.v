(* Scrunch/ProofsSparse1.v — ingredients for the sparse bit vector: the three-way binary search,
   lists cut into chunks, slices (base + deltas), the leaf scan and the leaf / internal-node
   primitives of sparse.rs. *)
From Coq Require Import Arith List Bool Lia Sorted.
From Blue Require Import Scrunch.ModelBits Scrunch.Model Scrunch.ModelSparse Scrunch.ProofsBits
  Scrunch.ProofsSorted.
Import ListNotations.

Arguments Nat.sub : simpl never.
Arguments Nat.div : simpl never.
Arguments Nat.modulo : simpl never.
Arguments Nat.leb : simpl never.
Arguments Nat.ltb : simpl never.
Arguments Nat.eqb : simpl never.
Arguments Nat.pow : simpl never.

(* ------------------------------------------------------------------ binary_search_by, three-way *)
(* the probe is total on [left, right); "Less" is downward closed and an "Equal" has only "Less"
   below it (strictly increasing keys): the answer is the first index that is not "Less" *)
Lemma binary_search_three_way (search : nat -> res comparison) (f : nat -> comparison) :
  forall fuel left right,
  right - left < fuel ->
  (forall x, left <= x < right -> search x = Ok (f x)) ->
  (forall x y, left <= y -> y < x -> x < right -> f x = Lt -> f y = Lt) ->
  (forall x y, left <= y -> y < x -> x < right -> f x = Eq -> f y = Lt) ->
  exists p, binary_search_by fuel search left right = Ok p /\
    (left <= right -> left <= p <= right) /\
    (forall x, left <= x < p -> f x = Lt) /\ (p < right -> f p <> Lt).
Proof.
  induction fuel as [|fuel IH]; intros left right Hfuel Hs Hlt Heq; [lia|].
  cbn [binary_search_by]. destruct (Nat.ltb_spec left right) as [Hl|Hge].
  - set (mid := left + (right - left) / 2).
    assert (Hmid : left <= mid < right).
    { pose proof (Nat.div_lt (right - left) 2 ltac:(lia) ltac:(lia)). unfold mid. lia. }
    rewrite (Hs mid Hmid). cbn [rbind]. destruct (f mid) eqn:Fm.
    + (* Equal: return mid *)
      exists mid. split; [reflexivity|]. split; [lia|]. split.
      * intros x Hx. apply (Heq mid x); [lia|lia|lia|exact Fm].
      * intros _. congruence.
    + destruct (IH (mid + 1) right ltac:(lia)) as (p & P1 & P2 & P3 & P4).
      * intros x Hx. apply Hs. lia.
      * intros x y H1 H2 H3. apply Hlt; lia.
      * intros x y H1 H2 H3. apply Heq; lia.
      * exists p. split; [exact P1|]. split; [lia|]. split; [|exact P4].
        intros x Hx. destruct (Nat.le_gt_cases x mid) as [Hle|Hgt].
        -- destruct (Nat.eq_dec x mid) as [->|]; [exact Fm|]. apply (Hlt mid x); [lia|lia|lia|exact Fm].
        -- apply P3. lia.
    + destruct (IH left mid ltac:(lia)) as (p & P1 & P2 & P3 & P4).
      * intros x Hx. apply Hs. lia.
      * intros x y H1 H2 H3. apply Hlt; lia.
      * intros x y H1 H2 H3. apply Heq; lia.
      * exists p. split; [exact P1|]. split; [lia|]. split; [exact P3|].
        intros Hp. destruct (Nat.eq_dec p mid) as [->|Hne]; [congruence|]. apply P4. lia.
  - exists left. split; [reflexivity|]. split; [lia|]. split; [intros x Hx; lia|lia].
Qed.

Lemma last_In_aux {A} (x : A) l d : In (last (x :: l) d) (x :: l).
Proof.
  revert x. induction l as [|y l IH]; intros x; [now left|].
  change (last (x :: y :: l) d) with (last (y :: l) d). right. apply IH.
Qed.

(* ------------------------------------------------------------------ chunks *)
(* l cut into chunks of k, the last one between 1 and k long *)
Inductive chunked {A} (k : nat) : list A -> list (list A) -> Prop :=
| ch_last c : 1 <= length c -> length c <= k -> chunked k c [c]
| ch_cons c l cs : length c = k -> chunked k l cs -> chunked k (c ++ l) (c :: cs).

Lemma chunked_concat {A} k (l : list A) cs : chunked k l cs -> concat cs = l.
Proof. induction 1; cbn [concat]; [apply app_nil_r|now rewrite IHchunked]. Qed.

Lemma chunked_nonempty {A} k (l : list A) cs : chunked k l cs -> cs <> [] /\ Forall (fun c => 1 <= length c /\ length c <= k) cs.
Proof.
  induction 1 as [c H1 H2|c l cs Hc Hch [IH1 IH2]].
  - split; [discriminate|]. repeat constructor; assumption.
  - split; [discriminate|]. constructor; [|exact IH2].
    destruct IH2 as [|d ds [Hd1 Hd2] _]; [contradiction|]. lia.
Qed.

Lemma chunked_pos {A} k (l : list A) cs : chunked k l cs -> 1 <= k /\ 1 <= length l.
Proof.
  induction 1 as [c H1 H2|c l cs Hc Hch [IH1 IH2]]; [lia|]. rewrite app_length. lia.
Qed.

(* all chunks but the last are full *)
Lemma chunked_full {A} k (l : list A) cs j : chunked k l cs -> S j < length cs -> length (nth j cs []) = k.
Proof.
  intros H. revert j. induction H as [c H1 H2|c l cs Hc Hch IH]; intros j Hj; [cbn in Hj; lia|].
  destruct j as [|j]; [exact Hc|]. cbn [nth]. apply IH. cbn in Hj. lia.
Qed.

Lemma chunked_length {A} k (l : list A) cs : chunked k l cs ->
  length l = (length cs - 1) * k + length (last cs []).
Proof.
  induction 1 as [c H1 H2|c l cs Hc Hch IH]; [cbn [length last]; replace (1 - 1) with 0 by lia; lia|].
  rewrite app_length, IH, Hc. destruct cs as [|d ds]; [inversion Hch|].
  change (last (c :: d :: ds) []) with (last (d :: ds) []). cbn [length].
  replace (S (S (length ds)) - 1) with (S (S (length ds) - 1)) by lia. lia.
Qed.

(* element x of l sits in chunk x / k at offset x mod k *)
Lemma chunked_nth {A} k (l : list A) cs (d : A) x : chunked k l cs -> x < length l ->
  x / k < length cs /\ x mod k < length (nth (x / k) cs []) /\ nth x l d = nth (x mod k) (nth (x / k) cs []) d.
Proof.
  intros H. revert x. induction H as [c H1 H2|c l cs Hc Hch IH]; intros x Hx.
  - rewrite Nat.div_small, Nat.mod_small by lia. cbn. repeat split; lia.
  - pose proof (chunked_pos _ _ _ Hch) as [Hk _]. rewrite app_length in Hx.
    destruct (Nat.lt_ge_cases x k) as [Hlt|Hge].
    + rewrite Nat.div_small, Nat.mod_small by lia. cbn [nth length]. rewrite app_nth1 by lia. repeat split; lia.
    + assert (E1 : x / k = S ((x - k) / k)).
      { replace x with ((x - k) + 1 * k) at 1 by lia. rewrite Nat.div_add by lia. lia. }
      assert (E2 : x mod k = (x - k) mod k).
      { replace x with ((x - k) + 1 * k) at 1 by lia. now rewrite Nat.mod_add by lia. }
      rewrite E1, E2. cbn [nth length]. rewrite app_nth2 by lia. rewrite Hc.
      destruct (IH (x - k) ltac:(lia)) as (A1 & A2 & A3). repeat split; [lia|exact A2|exact A3].
Qed.

(* past the end: the chunk number is past the chunks, or the offset past the last chunk *)
Lemma chunked_beyond {A} k (l : list A) cs x : chunked k l cs -> length l <= x ->
  length cs <= x / k \/ (x / k = length cs - 1 /\ length (last cs []) <= x mod k).
Proof.
  intros H Hx. pose proof (chunked_length _ _ _ H) as L. pose proof (chunked_pos _ _ _ H) as [Hk _].
  pose proof (chunked_nonempty _ _ _ H) as [Hne Hall].
  assert (Hlast : length (last cs []) <= k).
  { rewrite Forall_forall in Hall. assert (In (last cs []) cs) by (destruct cs; [contradiction|apply last_In_aux]).
    apply Hall in H0. lia. }
  destruct (Nat.lt_ge_cases (x / k) (length cs)) as [Hlt|Hge]; [|now left]. right.
  pose proof (Nat.div_mod x k ltac:(lia)) as Dm. pose proof (Nat.mod_upper_bound x k ltac:(lia)) as Mu.
  assert (x / k = length cs - 1) by nia. split; [assumption|]. nia.
Qed.

(* grouping the chunks themselves: chunks of k grouped by b are chunks of b*k *)
Lemma chunked_group {A} k b (l : list A) cs gs : chunked k l cs -> chunked b cs gs ->
  chunked (b * k) l (map (@concat A) gs) /\
  Forall (fun g => chunked k (concat g) g) gs.
Proof.
  intros Hc Hg. revert l Hc. induction Hg as [g H1 H2|g cs' gs Hgl Hg IH]; intros l Hc.
  - cbn [map]. split; [|constructor; [rewrite (chunked_concat _ _ _ Hc); exact Hc|constructor]].
    rewrite (chunked_concat _ _ _ Hc). constructor.
    + pose proof (chunked_pos _ _ _ Hc). lia.
    + rewrite (chunked_length _ _ _ Hc). pose proof (chunked_nonempty _ _ _ Hc) as [Hne Hall].
      assert (length (last g []) <= k).
      { rewrite Forall_forall in Hall. assert (In (last g []) g) by (destruct g; [contradiction|apply last_In_aux]).
        apply Hall in H. lia. }
      nia.
  - (* split l after the first b chunks *)
    assert (S : forall g l, chunked k l (g ++ cs') -> cs' <> [] ->
              exists l1 l2, l = l1 ++ l2 /\ l1 = concat g /\ length l1 = length g * k /\ chunked k l2 cs' /\
                            (g <> [] -> chunked k l1 g)).
    { clear. induction g as [|c g IHg]; intros l H Hne; cbn [app] in H.
      - exists [], l. repeat split; [exact H|intros; contradiction].
      - inversion H as [? ? ?|c0 l0 cs0 Hc0 Hch0].
        + exfalso. destruct g; cbn in *; try discriminate. apply Hne. congruence.
        + subst.
          destruct (IHg l0 Hch0 Hne) as (l1 & l2 & E & E1 & E2 & E3 & E4).
          exists (c ++ l1), l2. rewrite E. split; [now rewrite app_assoc|]. split; [cbn; now rewrite E1|].
          split; [rewrite app_length; cbn; lia|]. split; [exact E3|].
          intros _. destruct g as [|c2 g].
          * cbn in E1. subst l1. rewrite app_nil_r. pose proof (chunked_pos _ _ _ Hch0) as [Hk1 _].
            apply ch_last; lia.
          * apply ch_cons; [reflexivity|]. apply E4. discriminate. }
    pose proof (chunked_nonempty _ _ _ Hg) as [Hne' _].
    assert (Hcs' : cs' <> []) by (pose proof (chunked_pos _ _ _ Hg) as [_ Hp]; intros ->; cbn in Hp; lia).
    destruct (S g l Hc Hcs') as (l1 & l2 & E & E1 & E2 & E3 & E4).
    destruct (IH l2 E3) as [I1 I2]. cbn [map]. subst l. split.
    + rewrite <- E1. constructor; [rewrite E2, Hgl; reflexivity|exact I1].
    + constructor; [|exact I2]. rewrite <- E1. apply E4. intros ->. cbn in Hgl.
      pose proof (chunked_pos _ _ _ Hg). lia.
Qed.

Lemma nth_repeat_zero k j : nth j (repeat 0 k) 0 = 0.
Proof. revert j. induction k as [|k IH]; intros [|j]; cbn; try reflexivity. apply IH. Qed.

(* ------------------------------------------------------------------ slices *)
Lemma mk_slice_cons_load branch v0 rest i : S (length rest) <= branch ->
  sl_load (mk_slice branch (v0 :: rest)) i =
  if i <? length rest then Some (nth i rest 0 - v0)
  else if i <? branch - 1 then Some 0 else None.
Proof.
  intros Hb. unfold sl_load, mk_slice. cbn [sl_deltas length].
  destruct (Nat.ltb_spec i (length rest)) as [H|H].
  - rewrite nth_error_app1 by (now rewrite map_length).
    rewrite (nth_error_nth' _ 0) by (now rewrite map_length). f_equal.
    rewrite (nth_indep _ 0 ((fun v => v - v0) 0)) by (now rewrite map_length).
    apply (map_nth (fun v => v - v0)).
  - rewrite nth_error_app2 by (now rewrite map_length). rewrite map_length.
    destruct (Nat.ltb_spec i (branch - 1)) as [H2|H2].
    + rewrite (nth_error_nth' _ 0) by (rewrite repeat_length; lia). f_equal.
      apply nth_repeat_zero.
    + apply nth_error_None. rewrite repeat_length. lia.
Qed.

Lemma mk_slice_cons_base branch v0 rest : sl_base (mk_slice branch (v0 :: rest)) = Some v0.
Proof. reflexivity. Qed.

Lemma mk_slice_deltas_length branch vs : length vs <= branch -> 1 <= branch ->
  length (sl_deltas (mk_slice branch vs)) = branch - 1.
Proof.
  intros H Hb. destruct vs as [|v0 rest]; cbn [mk_slice sl_deltas]; [apply repeat_length|].
  rewrite app_length, map_length, repeat_length. cbn [length] in *. lia.
Qed.

(* ------------------------------------------------------------------ Leaf *)
Definition memb (x : nat) (l : list nat) : bool := existsb (Nat.eqb x) l.

Lemma leaf_scan_spec v0 x : v0 < x -> forall rest pad idx,
  sinc (v0 :: rest) ->
  leaf_scan v0 x (map (fun v => v - v0) rest ++ repeat 0 pad) idx =
  if (count_lt rest x <? length rest) || (0 <? pad)
  then Some (memb x rest, idx + count_lt rest x + 1)
  else None.
Proof.
  intros Hx. induction rest as [|r rest IH]; intros pad idx Hs.
  - cbn [map app length count_lt filter]. unfold count_lt. cbn [filter length].
    destruct pad as [|pad]; [reflexivity|]. cbn [repeat leaf_scan].
    destruct (Nat.ltb_spec 0 0); [lia|]. destruct (Nat.ltb_spec 0 (S pad)); [|lia]. cbn [orb].
    destruct (Nat.eqb_spec 0 0); [|lia]. rewrite orb_true_r. cbn [memb existsb].
    destruct (Nat.eqb_spec (v0 + 0) x); [lia|]. f_equal. f_equal. lia.
  - inversion Hs as [|? ? Hs' Hf]; subst. inversion Hf as [|? ? Hr Hf']; subst.
    assert (Hs2 : sinc (v0 :: rest)).
    { constructor; [now inversion Hs'|exact Hf']. }
    cbn [map app leaf_scan]. replace (v0 + (r - v0)) with r by lia.
    rewrite count_lt_cons. cbn [length memb existsb].
    destruct (Nat.eqb_spec (r - v0) 0); [lia|]. rewrite orb_false_r.
    destruct (Nat.leb_spec x r) as [Hle|Hgt].
    + (* the scan stops here: nothing later is below x *)
      destruct (Nat.ltb_spec r x); [lia|].
      assert (Z : count_lt rest x = 0).
      { apply count_lt_all_ge. inversion Hs' as [|? ? _ Hf2]; subst. eapply Forall_impl; [|exact Hf2]. cbn. intros; lia. }
      rewrite Z. destruct (Nat.ltb_spec (0 + 0) (S (length rest))); [|lia]. cbn [orb].
      f_equal. f_equal; [|lia].
      destruct (Nat.eqb_spec r x) as [->|NE]; [now rewrite Nat.eqb_refl|].
      destruct (Nat.eqb_spec x r); [lia|]. cbn [orb].
      symmetry. fold (memb x rest).
      unfold memb. destruct (existsb (Nat.eqb x) rest) eqn:E; [|reflexivity]. apply existsb_exists in E.
      destruct E as (y & Hy & Ey). apply Nat.eqb_eq in Ey. subst y.
      inversion Hs' as [|? ? _ Hf2]; subst. rewrite Forall_forall in Hf2. specialize (Hf2 x Hy). lia.
    + destruct (Nat.ltb_spec r x); [|lia]. rewrite (IH pad (idx + 1) Hs2).
      destruct (Nat.eqb_spec x r); [lia|]. cbn [orb].
      replace (1 + count_lt rest x <? S (length rest)) with (count_lt rest x <? length rest)
        by (destruct (Nat.ltb_spec (count_lt rest x) (length rest)), (Nat.ltb_spec (1 + count_lt rest x) (S (length rest))); try reflexivity; lia).
      destruct ((count_lt rest x <? length rest) || (0 <? pad)); [|reflexivity]. f_equal. f_equal. lia.
Qed.

Lemma memb_cons x v l : memb x (v :: l) = (x =? v) || memb x l.
Proof. reflexivity. Qed.

Lemma sinc_head_lt v0 rest y : sinc (v0 :: rest) -> In y rest -> v0 < y.
Proof. intros H Hy. inversion H as [|? ? _ Hf]; subst. rewrite Forall_forall in Hf. now apply Hf. Qed.

Theorem leaf_access_rank_correct branch chunk x : sinc chunk -> 1 <= length chunk -> length chunk <= branch ->
  leaf_access_rank branch (mk_slice branch chunk) x = Some (memb x chunk, count_lt chunk x).
Proof.
  intros Hs H1 H2. destruct chunk as [|v0 rest]; [cbn in H1; lia|]. cbn [length] in H2.
  unfold leaf_access_rank. rewrite mk_slice_cons_base. cbn [base_ge base_val].
  rewrite memb_cons, count_lt_cons.
  destruct (Nat.leb_spec x v0) as [Hle|Hgt].
  - (* at or below the first index *)
    destruct (Nat.ltb_spec v0 x); [lia|].
    assert (Z : count_lt rest x = 0).
    { apply count_lt_all_ge. apply Forall_forall. intros y Hy. pose proof (sinc_head_lt _ _ _ Hs Hy). lia. }
    rewrite Z. f_equal. f_equal. rewrite (Nat.eqb_sym x v0).
    destruct (Nat.eqb_spec v0 x); [reflexivity|]. cbn [orb].
    unfold memb. destruct (existsb (Nat.eqb x) rest) eqn:E; [|reflexivity]. apply existsb_exists in E.
    destruct E as (y & Hy & Ey). apply Nat.eqb_eq in Ey. subst y. pose proof (sinc_head_lt _ _ _ Hs Hy). lia.
  - destruct (Nat.ltb_spec v0 x); [|lia]. destruct (Nat.eqb_spec x v0); [lia|]. cbn [orb].
    cbn [mk_slice sl_deltas length].
    rewrite firstn_all2 by (rewrite app_length, map_length, repeat_length; lia).
    rewrite (leaf_scan_spec v0 x Hgt rest (branch - S (length rest)) 0 Hs).
    pose proof (count_lt_le_length rest x).
    destruct (Nat.ltb_spec (count_lt rest x) (length rest)) as [Hc|Hc]; cbn [orb].
    + f_equal. f_equal. lia.
    + destruct (Nat.ltb_spec 0 (branch - S (length rest))) as [Hp|Hp].
      * f_equal. f_equal. lia.
      * (* a full leaf whose indices are all below x *)
        assert (Hm : memb x rest = false).
        { unfold memb. destruct (existsb (Nat.eqb x) rest) eqn:E; [|reflexivity]. apply existsb_exists in E.
          destruct E as (y & Hy & Ey). apply Nat.eqb_eq in Ey. subst y.
          destruct (In_nth _ _ 0 Hy) as (k & Hk & Ek).
          assert (Hsr : sinc rest) by (now inversion Hs).
          pose proof (count_lt_nth rest Hsr k x Hk) as Q. rewrite Ek in Q. lia. }
        rewrite Hm. f_equal. f_equal. lia.
Qed.

Theorem leaf_select_correct branch chunk x : sinc chunk -> 1 <= length chunk -> length chunk <= branch ->
  leaf_select (mk_slice branch chunk) x = if x <? length chunk then Some (S (nth x chunk 0)) else None.
Proof.
  intros Hs H1 H2. destruct chunk as [|v0 rest]; [cbn in H1; lia|]. cbn [length] in *.
  unfold leaf_select. destruct x as [|i].
  - rewrite mk_slice_cons_base. cbn [nth]. destruct (Nat.ltb_spec 0 (S (length rest))); [|lia]. f_equal. lia.
  - rewrite mk_slice_cons_load by exact H2. rewrite mk_slice_cons_base. cbn [base_val nth].
    destruct (Nat.ltb_spec i (length rest)) as [Hi|Hi].
    + destruct (Nat.ltb_spec (S i) (S (length rest))); [|lia].
      assert (v0 < nth i rest 0) by (apply (sinc_head_lt _ _ _ Hs), nth_In; exact Hi).
      destruct (Nat.ltb_spec 0 (nth i rest 0 - v0)); [|lia]. f_equal. lia.
    + destruct (Nat.ltb_spec (S i) (S (length rest))); [lia|].
      destruct (Nat.ltb_spec i (branch - 1)); [|reflexivity]. destruct (Nat.ltb_spec 0 0); [lia|reflexivity].
Qed.

(* ------------------------------------------------------------------ Internal *)
Theorem internal_pointer_correct branch ptrs index : sinc ptrs -> 1 <= length ptrs -> length ptrs <= branch ->
  internal_pointer (mk_slice branch ptrs) index = if index <? length ptrs then Some (nth index ptrs 0) else None.
Proof.
  intros Hs H1 H2. destruct ptrs as [|p0 rest]; [cbn in H1; lia|]. cbn [length] in *.
  unfold internal_pointer. destruct index as [|i].
  - rewrite mk_slice_cons_base. cbn [nth base_val]. destruct (Nat.ltb_spec 0 (S (length rest))); [reflexivity|lia].
  - rewrite mk_slice_cons_load by exact H2. rewrite mk_slice_cons_base. cbn [base_val nth].
    destruct (Nat.ltb_spec i (length rest)) as [Hi|Hi].
    + destruct (Nat.ltb_spec (S i) (S (length rest))); [|lia].
      assert (p0 < nth i rest 0) by (apply (sinc_head_lt _ _ _ Hs), nth_In; exact Hi).
      destruct (Nat.ltb_spec 0 (nth i rest 0 - p0)); [|lia]. f_equal. lia.
    + destruct (Nat.ltb_spec (S i) (S (length rest))); [lia|].
      destruct (Nat.ltb_spec i (branch - 1)); [|reflexivity]. destruct (Nat.ltb_spec 0 0); [lia|reflexivity].
Qed.

(* position: the child to descend into is the number of dividers below x *)
Theorem internal_position_correct branch divs ptrs x : 3 <= branch ->
  sinc divs -> sinc ptrs -> 1 <= length ptrs -> length ptrs <= branch -> length divs = length ptrs - 1 ->
  internal_position branch (mk_slice (branch - 1) divs) (mk_slice branch ptrs) x =
  Ok (Some (count_lt divs x, nth (count_lt divs x) ptrs 0)).
Proof.
  intros Hb Hsd Hsp H1 H2 Hl. destruct ptrs as [|p0 prest]; [cbn in H1; lia|]. cbn [length] in *.
  unfold internal_position. rewrite (mk_slice_cons_base branch p0 prest). cbn [base_val].
  destruct divs as [|d0 drest].
  - cbn [mk_slice sl_base base_ge]. reflexivity.
  - rewrite mk_slice_cons_base. cbn [base_ge base_val length] in *. rewrite count_lt_cons.
    destruct (Nat.leb_spec x d0) as [Hle|Hgt].
    + destruct (Nat.ltb_spec d0 x); [lia|].
      assert (Z : count_lt drest x = 0).
      { apply count_lt_all_ge. apply Forall_forall. intros y Hy. pose proof (sinc_head_lt _ _ _ Hsd Hy). lia. }
      rewrite Z. reflexivity.
    + destruct (Nat.ltb_spec d0 x); [|lia].
      assert (Hsr : sinc drest) by (now inversion Hsd).
      set (f := fun mid => if mid <? length drest then Nat.compare (nth mid drest 0) x else Gt).
      destruct (binary_search_three_way
                  (fun mid => do load <- unwrap (sl_load (mk_slice (branch - 1) (d0 :: drest)) mid);
                              Ok (if load =? 0 then Gt else Nat.compare (d0 + load) x))
                  f (S (branch - 2)) 0 (branch - 2)) as (p & P1 & P2 & P3 & P4).
      * lia.
      * intros mid Hmid. rewrite mk_slice_cons_load by (cbn [length]; lia). unfold f.
        destruct (Nat.ltb_spec mid (length drest)) as [Hm|Hm]; cbn [unwrap rbind].
        -- assert (d0 < nth mid drest 0) by (apply (sinc_head_lt _ _ _ Hsd), nth_In; exact Hm).
           destruct (Nat.eqb_spec (nth mid drest 0 - d0) 0); [lia|].
           replace (d0 + (nth mid drest 0 - d0)) with (nth mid drest 0) by lia. reflexivity.
        -- destruct (Nat.ltb_spec mid (branch - 1 - 1)); [|lia]. cbn [unwrap rbind]. reflexivity.
      * intros a b _ Hba Ha Hf. unfold f in *.
        destruct (Nat.ltb_spec a (length drest)) as [Hla|Hla]; [|discriminate].
        destruct (Nat.ltb_spec b (length drest)); [|lia].
        apply Nat.compare_lt_iff in Hf. apply Nat.compare_lt_iff.
        pose proof (sinc_nth drest Hsr b a Hba Hla). lia.
      * intros a b _ Hba Ha Hf. unfold f in *.
        destruct (Nat.ltb_spec a (length drest)) as [Hla|Hla]; [|discriminate].
        destruct (Nat.ltb_spec b (length drest)); [|lia].
        apply Nat.compare_eq_iff in Hf. apply Nat.compare_lt_iff.
        pose proof (sinc_nth drest Hsr b a Hba Hla). lia.
      * replace (branch - 1 - 1) with (branch - 2) in * by lia.
        change (binary_search_by (S (branch - 2))
                  (fun mid => do load <- unwrap (sl_load (mk_slice (branch - 1) (d0 :: drest)) mid);
                              Ok (if load =? 0 then Gt else Nat.compare (d0 + load) x)) 0 (branch - 2))
          with (binary_search_by (S (branch - 2))
                  (fun mid => do load <- unwrap (sl_load (mk_slice (branch - 1) (d0 :: drest)) mid);
                              Ok (if load =? 0 then Gt else Nat.compare (d0 + load) x)) 0 (branch - 2)).
        rewrite P1. cbn [rbind]. specialize (P2 ltac:(lia)).
        (* p is the number of later dividers below x *)
        assert (Hp : p = count_lt drest x).
        { assert (Hple : p <= length drest).
          { destruct (Nat.le_gt_cases p (length drest)) as [|Hgt']; [assumption|]. exfalso.
            pose proof (P3 (length drest) ltac:(lia)) as F. unfold f in F.
            destruct (Nat.ltb_spec (length drest) (length drest)); [lia|discriminate]. }
          pose proof (count_lt_le_length drest x) as Cl.
          destruct (Nat.lt_trichotomy p (count_lt drest x)) as [Hlt|[E|Hgt']]; [|exact E|].
          - exfalso. assert (Hpl : p < length drest) by lia.
            assert (Q : nth p drest 0 < x) by (apply (count_lt_nth drest Hsr p x Hpl); exact Hlt).
            assert (Hpb : p < branch - 2) by lia.
            specialize (P4 Hpb). unfold f in P4. destruct (Nat.ltb_spec p (length drest)); [|lia].
            apply P4. now apply Nat.compare_lt_iff.
          - exfalso. assert (Hcl : count_lt drest x < length drest) by lia.
            pose proof (P3 (count_lt drest x) ltac:(lia)) as F. unfold f in F.
            destruct (Nat.ltb_spec (count_lt drest x) (length drest)); [|lia].
            apply Nat.compare_lt_iff in F. apply (count_lt_nth drest Hsr _ x Hcl) in F. lia. }
        rewrite mk_slice_cons_load by (cbn [length]; lia).
        pose proof (count_lt_le_length drest x) as Cl.
        destruct (Nat.ltb_spec p (length prest)) as [Hpp|Hpp]; [|lia].
        replace (1 + count_lt drest x) with (S p) by lia. cbn [nth].
        assert (p0 < nth p prest 0) by (apply (sinc_head_lt _ _ _ Hsp), nth_In; exact Hpp).
        replace (p + 1) with (S p) by lia. replace (p0 + (nth p prest 0 - p0)) with (nth p prest 0) by lia.
        reflexivity.
Qed.
