(* Scrunch/ModelPrefixRRR.v — the prefix wavelet tree of ModelPrefixWT.v with the bit vector of
   every node an rrr::BitVector (ModelRRR.v) instead of its bit list: what
   prefix::WaveletTree<E> over rrr::BitVector is in CompressedDocument.  Definitions only.
   The three recursive queries are those of ModelPrefixWT.v with bv_access / bv_rank /
   bv_select / bv_select0 replaced by rr_access_rank / rr_rank / rr_select / rr_select0. *)
From Coq Require Import Arith List Bool.
From Blue Require Import Scrunch.ModelBits Scrunch.ModelRRR Scrunch.ModelPrefixWT.
Import ListNotations.

Inductive rtree := RNil | RNode (bv : rrr) (l r : rtree).

(* construct_recursive hands every node's bits to rrr::BitVector::construct *)
Fixpoint rt_of (t : ptree) : res rtree :=
  match t with
  | PNil => Ok RNil
  | PNode bv l r =>
      do v <- rr_construct bv;
      do l' <- rt_of l;
      do r' <- rt_of r;
      Ok (RNode v l' r')
  end.

Definition rt_build (enc : nat -> option code) (fuel : nat) (text : list nat) : res rtree :=
  do t <- pt_build enc fuel text; rt_of t.

Section Queries.
  Variable enc : nat -> option code.
  Variable dec : code -> option nat.

  Fixpoint rt_access_rec (t : rtree) (acc : code) (x : nat) : res (option nat) :=
    match t with
    | RNil => Ok (dec acc)
    | RNode bv l r =>
        do ar <- rr_access_rank bv x;
        match ar with
        | Some (bit, rank) =>
            if bit then rt_access_rec r (acc ++ [true]) rank
            else rt_access_rec l (acc ++ [false]) (x - rank)
        | None => Ok None
        end
    end.

  Fixpoint rt_rank_rec (t : rtree) (c : code) (x : nat) : res (option nat) :=
    match t, c with
    | RNode bv l r, b :: c' =>
        do rk0 <- rr_rank bv x;
        match rk0 with
        | None => Ok None
        | Some rk =>
            let this_rank := if b then rk else x - rk in
            match c' with
            | [] => Ok (Some this_rank)
            | _ => rt_rank_rec (if b then r else l) c' this_rank
            end
        end
    | _, _ => Ok None
    end.

  Fixpoint rt_select_rec (t : rtree) (c : code) (x : nat) : res (option nat) :=
    match t, c with
    | RNode bv l r, b :: c' =>
        do x0 <- (match c' with
                  | [] => Ok (Some x)
                  | _ => rt_select_rec (if b then r else l) c' x
                  end);
        match x0 with
        | None => Ok None
        | Some x' => if b then rr_select bv x' else rr_select0 bv x'
        end
    | _, _ => Ok None
    end.

  Definition rt_access (t : rtree) (x : nat) : res (option nat) := rt_access_rec t [] x.
  Definition rt_rank_q (t : rtree) (q x : nat) : res (option nat) :=
    match t, enc q with
    | RNode _ _ _, Some c => rt_rank_rec t c x
    | _, _ => Ok None
    end.
  Definition rt_select_q (t : rtree) (q x : nat) : res (option nat) :=
    match t, enc q with
    | RNode _ _ _, Some c => rt_select_rec t c x
    | _, _ => Ok None
    end.
End Queries.
