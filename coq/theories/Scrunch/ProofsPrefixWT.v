(* Scrunch/ProofsPrefixWT.v — the prefix-code wavelet tree (wavelet_tree/prefix.rs) answers access,
   rank_q and select_q as the plain symbol list does, for every code book whose code words pass
   the constructor's consistency checks (every prefix-free code does). *)
From Coq Require Import Arith List Bool Lia.
From Blue Require Import Scrunch.ModelBits Scrunch.ModelPrefixWT Scrunch.ProofsBits.
Import ListNotations.

Arguments Nat.sub : simpl never.
Arguments Nat.leb : simpl never.
Arguments Nat.ltb : simpl never.
Arguments Nat.eqb : simpl never.

(* ------------------------------------------------------------------ code words *)
Fixpoint ceqb (a b : code) : bool :=
  match a, b with
  | [], [] => true
  | x :: a', y :: b' => Bool.eqb x y && ceqb a' b'
  | _, _ => false
  end.

Lemma ceqb_spec a b : ceqb a b = true <-> a = b.
Proof.
  revert b. induction a as [|x a IH]; intros [|y b]; cbn; try (split; [discriminate|discriminate]); [tauto|].
  rewrite andb_true_iff, Bool.eqb_true_iff, IH. split; [intros [-> ->]; reflexivity|intros E; injection E as -> ->; now split].
Qed.

Lemma ceqb_cons x a y b : ceqb (x :: a) (y :: b) = Bool.eqb x y && ceqb a b.
Proof. reflexivity. Qed.

Lemma ceqb_refl a : ceqb a a = true.
Proof. now apply ceqb_spec. Qed.

Definition count_code (c : code) (l : list code) : nat := length (filter (ceqb c) l).

Definition heads (cs : list code) : bits := map head_bit cs.

(* the entries on side b *)
Definition all_continue (b : bool) (cs : list code) : Prop :=
  forall c, In c cs -> head_bit c = b -> continues_with b c = true.
Definition all_end (b : bool) (cs : list code) : Prop :=
  forall c, In c cs -> head_bit c = b -> c = [b].
Definition nonempty (cs : list code) : Prop := forall c, In c cs -> c <> [].

Lemma existsb_false {A} (f : A -> bool) l : existsb f l = false -> forall x, In x l -> f x = false.
Proof.
  intros H x Hx. destruct (f x) eqn:E; [|reflexivity].
  assert (existsb f l = true) by (apply existsb_exists; eauto). congruence.
Qed.

Lemma nonempty_of cs : existsb is_empty_code cs = false -> nonempty cs.
Proof. intros H c Hc E. subst c. pose proof (existsb_false _ _ H [] Hc). discriminate. Qed.

Lemma all_continue_of b cs : nonempty cs -> existsb (ends_with b) cs = false -> all_continue b cs.
Proof.
  intros Hne H c Hc Hh. pose proof (existsb_false _ _ H c Hc) as E.
  destruct c as [|x [|y r]]; [exfalso; now apply (Hne [] Hc)| |].
  - cbn in Hh, E. subst x. now rewrite Bool.eqb_reflx in E.
  - cbn in Hh |- *. subst x. apply Bool.eqb_reflx.
Qed.

Lemma all_end_of b cs : nonempty cs -> existsb (continues_with b) cs = false -> all_end b cs.
Proof.
  intros Hne H c Hc Hh. pose proof (existsb_false _ _ H c Hc) as E.
  destruct c as [|x [|y r]]; [exfalso; now apply (Hne [] Hc)| |].
  - cbn in Hh. now subst x.
  - cbn in Hh, E. subst x. now rewrite Bool.eqb_reflx in E.
Qed.

Lemma In_firstn_aux {A} (l : list A) x a : In a (firstn x l) -> In a l.
Proof.
  revert x. induction l as [|y l IH]; intros [|x] H; cbn in *; try contradiction.
  destruct H as [->|H]; [now left|right; eauto].
Qed.

Lemma all_continue_firstn b cs x : all_continue b cs -> all_continue b (firstn x cs).
Proof. intros H c Hc. apply H. eapply In_firstn_aux; eauto. Qed.

Lemma all_end_firstn b cs x : all_end b cs -> all_end b (firstn x cs).
Proof. intros H c Hc. apply H. eapply In_firstn_aux; eauto. Qed.

(* ------------------------------------------------------------------ counting *)
Lemma sub_cons b c l : sub b (c :: l) = (if continues_with b c then [tl c] else []) ++ sub b l.
Proof. reflexivity. Qed.

Lemma heads_cons c l : heads (c :: l) = head_bit c :: heads l.
Proof. reflexivity. Qed.

Lemma countv_cons v x l : countv v (x :: l) = (if Bool.eqb v x then 1 else 0) + countv v l.
Proof. unfold countv. cbn [filter]. destruct (Bool.eqb v x); reflexivity. Qed.

Lemma count_code_cons c d l : count_code c (d :: l) = (if ceqb c d then 1 else 0) + count_code c l.
Proof. unfold count_code. cbn [filter]. destruct (ceqb c d); reflexivity. Qed.

Lemma count_code_app c a b : count_code c (a ++ b) = count_code c a + count_code c b.
Proof. unfold count_code. now rewrite filter_app, app_length. Qed.

Lemma continues_head b c : continues_with b c = true -> head_bit c = b.
Proof. destruct c as [|x [|y r]]; cbn; try discriminate. intros H. now apply Bool.eqb_prop. Qed.

Lemma sub_length b l : all_continue b l -> length (sub b l) = countv b (heads l).
Proof.
  induction l as [|c l IH]; intros H; [reflexivity|].
  rewrite sub_cons, heads_cons, countv_cons, app_length, IH by (intros d Hd; apply H; now right).
  destruct (Bool.eqb b (head_bit c)) eqn:E.
  - apply Bool.eqb_prop in E. rewrite (H c (or_introl eq_refl) (eq_sym E)). reflexivity.
  - destruct (continues_with b c) eqn:Cw; [|reflexivity].
    apply continues_head in Cw. rewrite Cw, Bool.eqb_reflx in E. discriminate.
Qed.

Lemma sub_firstn b cs x : sub b (firstn x cs) = firstn (length (sub b (firstn x cs))) (sub b cs).
Proof.
  revert x. induction cs as [|c cs IH]; intros x; [now rewrite firstn_nil|].
  destruct x as [|x]; [reflexivity|]. cbn [firstn]. rewrite !sub_cons, app_length.
  set (hd := if continues_with b c then [tl c] else []).
  rewrite firstn_app.
  replace (length hd + length (sub b (firstn x cs)) - length hd) with (length (sub b (firstn x cs))) by lia.
  rewrite <- IH. f_equal. rewrite firstn_all2 by lia. reflexivity.
Qed.

Lemma count_code_sub b c' l : c' <> [] -> count_code c' (sub b l) = count_code (b :: c') l.
Proof.
  intros Hc. induction l as [|d l IH]; [reflexivity|].
  rewrite sub_cons, count_code_app, count_code_cons, IH. f_equal.
  destruct d as [|x [|y r]].
  - reflexivity.
  - cbn [continues_with ceqb]. destruct c'; [contradiction|]. now rewrite andb_false_r.
  - cbn [continues_with tl ceqb]. rewrite (beqb_sym b x).
    destruct (Bool.eqb x b); cbn [andb]; [|reflexivity].
    rewrite count_code_cons. unfold count_code. cbn [filter length]. lia.
Qed.

Lemma count_code_ends b l : all_end b l -> count_code [b] l = countv b (heads l).
Proof.
  induction l as [|d l IH]; intros H; [reflexivity|].
  rewrite count_code_cons, heads_cons, countv_cons, IH by (intros e He; apply H; now right). f_equal.
  destruct (Bool.eqb b (head_bit d)) eqn:E.
  - apply Bool.eqb_prop in E. rewrite (H d (or_introl eq_refl) (eq_sym E)). cbn [ceqb]. now rewrite Bool.eqb_reflx.
  - destruct d as [|x r]; [reflexivity|]. cbn in E |- *. now rewrite E.
Qed.

Lemma In_sub b c' cs : c' <> [] -> In (b :: c') cs -> In c' (sub b cs).
Proof.
  intros Hc Hin. unfold sub. apply in_flat_map. exists (b :: c'). split; [exact Hin|].
  destruct c'; [contradiction|]. cbn [continues_with tl]. rewrite Bool.eqb_reflx. now left.
Qed.

Lemma heads_firstn cs x : heads (firstn x cs) = firstn x (heads cs).
Proof. unfold heads. symmetry. apply firstn_map. Qed.

Lemma heads_length cs : length (heads cs) = length cs.
Proof. unfold heads. apply map_length. Qed.

(* the rank a child is entered with *)
Lemma this_rank_is_countv (b : bool) cs x : x <= length cs ->
  (if b then count1 (firstn x (heads cs)) else x - count1 (firstn x (heads cs))) = countv b (firstn x (heads cs)).
Proof.
  intros Hx. destruct b; [now rewrite countv_true|].
  rewrite countv_false, firstn_length, heads_length. lia.
Qed.

(* ------------------------------------------------------------------ what a successful construction says *)
Definition child_of (b : bool) (l r : ptree) : ptree := if b then r else l.

Lemma construct_inv fuel cs t : pt_construct fuel cs = Ok t ->
  exists f l r, fuel = S f /\ t = PNode (heads cs) l r /\ nonempty cs /\
    (forall b, existsb (ends_with b) cs = true -> existsb (continues_with b) cs = false) /\
    (forall b, if existsb (continues_with b) cs then pt_construct f (sub b cs) = Ok (child_of b l r)
               else child_of b l r = PNil).
Proof.
  destruct fuel as [|f]; [discriminate|]. cbn [pt_construct].
  destruct (existsb is_empty_code cs) eqn:E0; [discriminate|].
  destruct (existsb (ends_with false) cs) eqn:D0, (existsb (continues_with false) cs) eqn:C0,
           (existsb (ends_with true) cs) eqn:D1, (existsb (continues_with true) cs) eqn:C1;
    cbn [andb orb]; try discriminate;
    repeat match goal with
           | |- context [pt_construct f ?x] => destruct (pt_construct f x) eqn:?; cbn [rbind]; try discriminate
           end;
    intros [= <-]; eexists f, _, _; (split; [reflexivity|]); (split; [reflexivity|]);
    (split; [now apply nonempty_of|]);
    (split; [intros [|]; congruence|]);
    intros [|]; cbn [child_of]; rewrite ?C0, ?C1; try assumption; reflexivity.
Qed.

(* ------------------------------------------------------------------ rank *)
Theorem pt_rank_correct fuel : forall cs t, pt_construct fuel cs = Ok t ->
  forall c, In c cs -> forall x, x <= length cs ->
  pt_rank_rec t c x = Some (count_code c (firstn x cs)).
Proof.
  induction fuel as [|f IH]; intros cs t Hc c Hin x Hx; [discriminate|].
  destruct (construct_inv _ _ _ Hc) as (f' & l & r & Ef & -> & Hne & Hcons & Hch). injection Ef as <-.
  destruct c as [|b c']; [exfalso; exact (Hne [] Hin eq_refl)|].
  cbn [pt_rank_rec]. rewrite bv_rank_some by (rewrite heads_length; exact Hx).
  rewrite (this_rank_is_countv b cs x Hx).
  destruct c' as [|b2 c''].
  - (* the code word ends here: every entry on this side is this code word *)
    assert (Hd : existsb (ends_with b) cs = true).
    { apply existsb_exists. exists [b]. split; [exact Hin|]. cbn. apply Bool.eqb_reflx. }
    pose proof (all_end_of b cs Hne (Hcons b Hd)) as Hend.
    rewrite <- heads_firstn. now rewrite (count_code_ends b (firstn x cs) (all_end_firstn b cs x Hend)).
  - set (c' := b2 :: c'') in *.
    assert (Hcw : existsb (continues_with b) cs = true).
    { apply existsb_exists. exists (b :: c'). split; [exact Hin|]. cbn. apply Bool.eqb_reflx. }
    assert (Hnd : existsb (ends_with b) cs = false).
    { destruct (existsb (ends_with b) cs) eqn:E; [|reflexivity]. rewrite (Hcons b E) in Hcw. discriminate. }
    pose proof (all_continue_of b cs Hne Hnd) as Hcont.
    specialize (Hch b). rewrite Hcw in Hch.
    replace (if b then r else l) with (child_of b l r) by reflexivity.
    rewrite <- heads_firstn, <- (sub_length b (firstn x cs) (all_continue_firstn b cs x Hcont)).
    rewrite (IH _ _ Hch c' (In_sub b c' cs ltac:(discriminate) Hin)).
    + rewrite <- sub_firstn. now rewrite count_code_sub by discriminate.
    + pose proof (f_equal (@length (list bool)) (sub_firstn b cs x)) as E. rewrite firstn_length in E. lia.
Qed.

(* ------------------------------------------------------------------ select *)
Lemma select_from_S_pos v b k p : select_from v b (S k) 0 = Some p -> exists p', p = S p'.
Proof.
  destruct b as [|x b]; [discriminate|]. rewrite select_from_cons.
  destruct (select_from v b _ 0); [|discriminate]. intros [= <-]. eauto.
Qed.

Lemma select_from_zero v b : select_from v b 0 0 = Some 0.
Proof. destruct b; reflexivity. Qed.

Lemma select_from_as_true v b : forall k pos,
  select_from v b k pos = select_from true (map (fun x => Bool.eqb x v) b) k pos.
Proof.
  induction b as [|x b IH]; intros k pos; destruct k; cbn [select_from map]; try reflexivity.
  destruct (Bool.eqb x v); cbn [Bool.eqb]; apply IH.
Qed.

(* the k-th occurrence of b::c' is the (k'-th entry on side b), where k' is the position of the
   k-th c' among the entries handed to the child *)
Lemma sel_comp (b : bool) c' : c' <> [] -> forall l, all_continue b l -> forall k,
  select_from true (map (ceqb (b :: c')) l) k 0 =
  match select_from true (map (ceqb c') (sub b l)) k 0 with
  | Some x' => select_from b (heads l) x' 0
  | None => None
  end.
Proof.
  intros Hc. induction l as [|d l IH]; intros Hcont k.
  - destruct k; reflexivity.
  - assert (Hcont' : all_continue b l) by (intros e He; apply Hcont; now right).
    destruct k as [|k].
    { rewrite (select_from_zero true (map (ceqb (b :: c')) (d :: l))).
      rewrite (select_from_zero true (map (ceqb c') (sub b (d :: l)))). now rewrite select_from_zero. }
    cbn [map]. rewrite select_from_cons. rewrite sub_cons, heads_cons.
    destruct (Bool.eqb (head_bit d) b) eqn:Eh.
    + apply Bool.eqb_prop in Eh. pose proof (Hcont d (or_introl eq_refl) Eh) as Cw. rewrite Cw.
      destruct d as [|x [|y r]]; try discriminate. cbn in Eh. subst x.
      cbn [app map tl]. rewrite select_from_cons.
      rewrite (ceqb_cons b c' b (y :: r)), Bool.eqb_reflx. cbn [andb].
      set (e := ceqb c' (y :: r)). replace (Bool.eqb e true) with e by (destruct e; reflexivity).
      rewrite (IH Hcont' (if e then k else S k)).
      destruct (select_from true (map (ceqb c') (sub b l)) (if e then k else S k) 0) as [x''|]; cbn [option_map]; [|reflexivity].
      rewrite select_from_cons. cbn [head_bit]. now rewrite Bool.eqb_reflx.
    + assert (Cw : continues_with b d = false).
      { destruct (continues_with b d) eqn:C; [|reflexivity]. apply continues_head in C. rewrite C, Bool.eqb_reflx in Eh. discriminate. }
      rewrite Cw. cbn [app].
      assert (Ec : ceqb (b :: c') d = false).
      { destruct d as [|x r]; [reflexivity|]. cbn in Eh |- *. rewrite beqb_sym, Eh. reflexivity. }
      rewrite Ec. cbn [Bool.eqb]. rewrite (IH Hcont' (S k)).
      destruct (select_from true (map (ceqb c') (sub b l)) (S k) 0) as [x'|] eqn:Es; cbn [option_map]; [|reflexivity].
      destruct (select_from_S_pos _ _ _ _ Es) as (x'' & ->).
      rewrite select_from_cons, Eh. reflexivity.
Qed.

Lemma map_ceqb_ends b cs : nonempty cs -> all_end b cs ->
  map (ceqb [b]) cs = map (fun x => Bool.eqb x b) (heads cs).
Proof.
  intros Hne Hend. unfold heads. rewrite map_map. apply map_ext_in. intros d Hd.
  destruct (Bool.eqb (head_bit d) b) eqn:E.
  - apply Bool.eqb_prop in E. rewrite (Hend d Hd E). cbn. now rewrite Bool.eqb_reflx.
  - destruct d as [|x r]; [exfalso; exact (Hne [] Hd eq_refl)|]. cbn in E |- *. now rewrite beqb_sym, E.
Qed.

Theorem pt_select_correct fuel : forall cs t, pt_construct fuel cs = Ok t ->
  forall c, In c cs -> forall k,
  pt_select_rec t c k = select_from true (map (ceqb c) cs) k 0.
Proof.
  induction fuel as [|f IH]; intros cs t Hc c Hin k; [discriminate|].
  destruct (construct_inv _ _ _ Hc) as (f' & l & r & Ef & -> & Hne & Hcons & Hch). injection Ef as <-.
  destruct c as [|b c']; [exfalso; exact (Hne [] Hin eq_refl)|].
  cbn [pt_select_rec]. destruct c' as [|b2 c''].
  - assert (Hd : existsb (ends_with b) cs = true).
    { apply existsb_exists. exists [b]. split; [exact Hin|]. cbn. apply Bool.eqb_reflx. }
    pose proof (all_end_of b cs Hne (Hcons b Hd)) as Hend.
    rewrite (map_ceqb_ends b cs Hne Hend), <- select_from_as_true.
    destruct b; reflexivity.
  - set (c' := b2 :: c'') in *.
    assert (Hcw : existsb (continues_with b) cs = true).
    { apply existsb_exists. exists (b :: c'). split; [exact Hin|]. cbn. apply Bool.eqb_reflx. }
    assert (Hnd : existsb (ends_with b) cs = false).
    { destruct (existsb (ends_with b) cs) eqn:E; [|reflexivity]. rewrite (Hcons b E) in Hcw. discriminate. }
    pose proof (all_continue_of b cs Hne Hnd) as Hcont.
    specialize (Hch b). rewrite Hcw in Hch.
    replace (if b then r else l) with (child_of b l r) by reflexivity.
    rewrite (IH _ _ Hch c' (In_sub b c' cs ltac:(discriminate) Hin) k).
    rewrite (sel_comp b c' ltac:(discriminate) cs Hcont k).
    destruct (select_from true (map (ceqb c') (sub b cs)) k 0); [|reflexivity].
    destruct b; reflexivity.
Qed.

Lemma skipn_cons_nth_code (l : list (list bool)) p : p < length l -> skipn p l = nth p l [] :: skipn (S p) l.
Proof.
  revert p. induction l as [|x l IH]; intros p H; [cbn in H; lia|].
  destruct p as [|p]; [reflexivity|]. cbn [skipn nth]. apply IH. cbn in H. lia.
Qed.

(* ------------------------------------------------------------------ access *)
Lemma sub_app b l1 l2 : sub b (l1 ++ l2) = sub b l1 ++ sub b l2.
Proof. unfold sub. apply flat_map_app. Qed.

Lemma nth_sub b cs x d' : x < length cs -> nth x cs [] = b :: d' -> d' <> [] ->
  nth (length (sub b (firstn x cs))) (sub b cs) [] = d'.
Proof.
  intros Hx Hn Hd. rewrite <- (firstn_skipn x cs) at 2. rewrite sub_app.
  rewrite app_nth2 by lia. rewrite Nat.sub_diag.
  rewrite (skipn_cons_nth_code cs x Hx), Hn, sub_cons.
  destruct d'; [contradiction|]. cbn [continues_with tl]. rewrite Bool.eqb_reflx. reflexivity.
Qed.

Section Access.
  Variable dec : list bool -> option nat.

  Theorem pt_access_correct fuel : forall cs t, pt_construct fuel cs = Ok t ->
    forall acc x, x < length cs -> pt_access_rec dec t acc x = dec (acc ++ nth x cs []).
  Proof.
    induction fuel as [|f IH]; intros cs t Hc acc x Hx; [discriminate|].
    destruct (construct_inv _ _ _ Hc) as (f' & l & r & Ef & -> & Hne & Hcons & Hch). injection Ef as <-.
    cbn [pt_access_rec]. unfold bv_access. rewrite (nth_error_nth' (heads cs) false) by (rewrite heads_length; exact Hx).
    rewrite bv_rank_some by (rewrite heads_length; lia).
    assert (Hin : In (nth x cs []) cs) by (now apply nth_In).
    destruct (nth x cs []) as [|b d'] eqn:En; [exfalso; exact (Hne [] Hin eq_refl)|].
    assert (Eh : nth x (heads cs) false = b).
    { unfold heads. rewrite (nth_indep _ false (head_bit [])) by (rewrite map_length; exact Hx).
      rewrite (map_nth head_bit cs [] x), En. reflexivity. }
    rewrite Eh.
    (* both branches: enter child b with index countv b (firstn x heads) and accumulator acc ++ [b] *)
    assert (G : pt_access_rec dec (child_of b l r) (acc ++ [b]) (countv b (firstn x (heads cs))) = dec (acc ++ b :: d')).
    { destruct d' as [|b2 d''].
      - assert (Hd : existsb (ends_with b) cs = true).
        { apply existsb_exists. exists [b]. split; [exact Hin|]. cbn. apply Bool.eqb_reflx. }
        specialize (Hch b). rewrite (Hcons b Hd) in Hch. rewrite Hch. reflexivity.
      - set (d' := b2 :: d'') in *.
        assert (Hcw : existsb (continues_with b) cs = true).
        { apply existsb_exists. exists (b :: d'). split; [exact Hin|]. cbn. apply Bool.eqb_reflx. }
        assert (Hnd : existsb (ends_with b) cs = false).
        { destruct (existsb (ends_with b) cs) eqn:E; [|reflexivity]. rewrite (Hcons b E) in Hcw. discriminate. }
        pose proof (all_continue_of b cs Hne Hnd) as Hcont.
        specialize (Hch b). rewrite Hcw in Hch.
        rewrite <- heads_firstn, <- (sub_length b (firstn x cs) (all_continue_firstn b cs x Hcont)).
        rewrite (IH _ _ Hch (acc ++ [b]) (length (sub b (firstn x cs)))).
        + rewrite (nth_sub b cs x d' Hx En ltac:(discriminate)). now rewrite <- app_assoc.
        + rewrite <- (firstn_skipn x cs) at 2. rewrite sub_app, app_length.
          rewrite (skipn_cons_nth_code cs x Hx), En, sub_cons. unfold d'. cbn [continues_with]. rewrite Bool.eqb_reflx.
          rewrite app_length. cbn [length]. lia. }
    pose proof (this_rank_is_countv b cs x ltac:(lia)) as Et.
    destruct b; cbn [child_of] in G; rewrite <- Et in G; exact G.
  Qed.
End Access.

(* ------------------------------------------------------------------ prefix-free codes construct *)
Fixpoint is_prefix (a b : list bool) : bool :=
  match a, b with
  | [], _ => true
  | x :: a', y :: b' => Bool.eqb x y && is_prefix a' b'
  | _ :: _, [] => false
  end.

(* no code word is a proper prefix of another *)
Definition prefix_free (cs : list (list bool)) : Prop :=
  forall c d, In c cs -> In d cs -> is_prefix c d = true -> c = d.

Lemma sub_In b c' cs : In c' (sub b cs) -> c' <> [] /\ In (b :: c') cs.
Proof.
  unfold sub. intros H. apply in_flat_map in H. destruct H as (d & Hd & H).
  destruct d as [|x [|y r]]; cbn [continues_with] in H; try contradiction.
  destruct (Bool.eqb x b) eqn:E; [|contradiction]. apply Bool.eqb_prop in E. subst x.
  destruct H as [<-|[]]. cbn [tl]. split; [discriminate|exact Hd].
Qed.

Lemma prefix_free_sub b cs : prefix_free cs -> prefix_free (sub b cs).
Proof.
  intros H c d Hc Hd Hp. apply sub_In in Hc, Hd. destruct Hc as [_ Hc]. destruct Hd as [_ Hd].
  assert (E : b :: c = b :: d) by (apply H; [exact Hc|exact Hd|cbn; now rewrite Bool.eqb_reflx]).
  now injection E.
Qed.

Definition max_len (cs : list (list bool)) : nat := fold_right (fun c m => Nat.max (length c) m) 0 cs.

Lemma max_len_In cs c : In c cs -> length c <= max_len cs.
Proof.
  induction cs as [|d cs IH]; intros H; [destruct H|]. cbn [max_len fold_right].
  destruct H as [->|H]; [lia|]. specialize (IH H). unfold max_len in IH. lia.
Qed.

Lemma max_len_sub b cs : nonempty cs -> cs <> [] -> sub b cs <> [] -> max_len (sub b cs) < max_len cs.
Proof.
  intros Hne _ Hs.
  assert (G : forall c', In c' (sub b cs) -> S (length c') <= max_len cs).
  { intros c' Hc'. apply sub_In in Hc'. destruct Hc' as [_ Hc']. apply max_len_In in Hc'. cbn in Hc'. exact Hc'. }
  assert (B : forall l m, l <> [] -> (forall c', In c' l -> S (length c') <= m) -> max_len l < m).
  { clear. induction l as [|c l IH]; intros m Hl Hb; [contradiction|]. cbn [max_len fold_right].
    pose proof (Hb c (or_introl eq_refl)). destruct l as [|c2 l]; [cbn; lia|].
    specialize (IH m ltac:(discriminate) (fun c' Hc' => Hb c' (or_intror Hc'))). unfold max_len in IH. lia. }
  apply B; assumption.
Qed.

Theorem pt_construct_total fuel : forall cs, nonempty cs -> prefix_free cs -> max_len cs < fuel ->
  exists t, pt_construct fuel cs = Ok t.
Proof.
  induction fuel as [|f IH]; intros cs Hne Hpf Hf; [lia|].
  cbn [pt_construct].
  assert (E0 : existsb is_empty_code cs = false).
  { destruct (existsb is_empty_code cs) eqn:E; [|reflexivity]. apply existsb_exists in E.
    destruct E as (c & Hc & E). destruct c; [exfalso; exact (Hne [] Hc eq_refl)|discriminate]. }
  rewrite E0.
  assert (Hx : forall b, existsb (ends_with b) cs && existsb (continues_with b) cs = false).
  { intros b. destruct (existsb (ends_with b) cs) eqn:D; [|reflexivity].
    destruct (existsb (continues_with b) cs) eqn:C; [|reflexivity]. exfalso.
    apply existsb_exists in D, C. destruct D as (c & Hc & Dc). destruct C as (d & Hd & Cd).
    destruct c as [|x [|? ?]]; try discriminate. cbn in Dc. apply Bool.eqb_prop in Dc. subst x.
    destruct d as [|x [|y r]]; try discriminate. cbn in Cd. apply Bool.eqb_prop in Cd. subst x.
    assert (E : [b] = b :: y :: r) by (apply Hpf; [exact Hc|exact Hd|cbn; now rewrite Bool.eqb_reflx]).
    discriminate. }
  rewrite (Hx false), (Hx true). cbn [orb].
  assert (Hchild : forall b, exists t, (if existsb (continues_with b) cs then pt_construct f (sub b cs) else Ok PNil) = Ok t).
  { intros b. destruct (existsb (continues_with b) cs) eqn:C; [|eauto].
    apply IH.
    - intros c Hc. apply sub_In in Hc. tauto.
    - now apply prefix_free_sub.
    - assert (Hs : sub b cs <> []).
      { apply existsb_exists in C. destruct C as (d & Hd & Cd). destruct d as [|x [|y r]]; try discriminate.
        cbn in Cd. apply Bool.eqb_prop in Cd. subst x. intros Z.
        assert (In (y :: r) (sub b cs)) by (apply In_sub; [discriminate|exact Hd]). rewrite Z in H. destruct H. }
      assert (cs <> []) by (intros ->; apply Hs; reflexivity).
      pose proof (max_len_sub b cs Hne H Hs). lia. }
  destruct (Hchild false) as (l & El). destruct (Hchild true) as (r & Er).
  rewrite El, Er. cbn [rbind]. eauto.
Qed.

(* ------------------------------------------------------------------ against the plain symbol list *)
From Blue Require Import Scrunch.Model Scrunch.ModelWT Scrunch.ProofsSorted Scrunch.ProofsSuffix
  Scrunch.ProofsIAP Scrunch.ProofsSearch Scrunch.ProofsSigma Scrunch.ProofsWT1.
Local Open Scope nat_scope.

Lemma filter_length_count1 {A} (f : A -> bool) l : length (filter f l) = count1 (map f l).
Proof. induction l as [|a l IH]; [reflexivity|]. cbn [filter map count1]. destruct (f a); cbn [length]; lia. Qed.

Section AgainstList.
  Variables (enc : nat -> option (list bool)) (dec : list bool -> option nat) (cf : nat -> list bool).
  Variable text : list nat.
  (* the encoder knows every symbol of the text and decodes its own code words *)
  Hypothesis Henc : forall s, In s text -> enc s = Some (cf s) /\ dec (cf s) = Some s.

  Lemma encode_all_ok fuel : pt_build enc fuel text = pt_construct fuel (map cf text).
  Proof.
    unfold pt_build.
    assert (G : forall l, (forall s, In s l -> In s text) ->
      (fix encode_all (l : list nat) : res (list (list bool)) :=
         match l with
         | [] => Ok []
         | s :: r => do c <- ok_or (enc s); do cs <- encode_all r; Ok (c :: cs)
         end) l = Ok (map cf l)).
    { induction l as [|s l IH]; intros H; [reflexivity|].
      rewrite (proj1 (Henc s (H s (or_introl eq_refl)))). cbn [ok_or rbind map].
      rewrite IH by (intros s' Hs'; apply H; now right). reflexivity. }
    rewrite G by auto. reflexivity.
  Qed.

  Lemma cf_inj q s : In q text -> In s text -> cf q = cf s -> q = s.
  Proof.
    intros Hq Hs E. destruct (Henc q Hq) as [_ A]. destruct (Henc s Hs) as [_ B]. rewrite E in A. congruence.
  Qed.

  Lemma map_ceqb_cf q : In q text -> forall l, (forall s, In s l -> In s text) ->
    map (ceqb (cf q)) (map cf l) = symbits q l.
  Proof.
    intros Hq l Hl. unfold symbits. rewrite map_map. apply map_ext_in. intros s Hs.
    destruct (Nat.eqb_spec s q) as [->|NE]; [apply ceqb_refl|].
    destruct (ceqb (cf q) (cf s)) eqn:E; [|reflexivity]. apply ceqb_spec in E.
    exfalso. apply NE. symmetry. apply cf_inj; auto.
  Qed.

  Theorem prefix_wt_correct fuel t : pt_build enc fuel text = Ok t ->
    (forall x, x < length text -> pt_access dec t x = wt_access text x) /\
    (forall q, In q text -> forall x, x <= length text -> pt_rank_q enc t q x = wt_rank_q text q x) /\
    (forall q, In q text -> forall k, pt_select_q enc t q k = wt_select_q text q k).
  Proof.
    rewrite encode_all_ok. intros Hc.
    destruct (construct_inv _ _ _ Hc) as (f & l & r & Ef & Et & _).
    split; [|split].
    - intros x Hx. unfold pt_access. rewrite (pt_access_correct dec _ _ _ Hc [] x) by (rewrite map_length; exact Hx).
      cbn [app]. unfold wt_access. rewrite (nth_error_nth' text 0 Hx).
      rewrite (nth_indep _ [] (cf 0)) by (rewrite map_length; exact Hx). rewrite (map_nth cf).
      apply (Henc (nth x text 0)). now apply nth_In.
    - intros q Hq x Hx. unfold pt_rank_q. rewrite Et, (proj1 (Henc q Hq)). rewrite <- Et.
      rewrite (pt_rank_correct _ _ _ Hc (cf q) (in_map cf text q Hq) x) by (rewrite map_length; exact Hx).
      unfold wt_rank_q. destruct (Nat.leb_spec x (length text)); [|lia]. f_equal.
      unfold count_code. rewrite firstn_map, filter_length_count1.
      rewrite map_ceqb_cf by (auto; intros s Hs; eapply In_firstn_aux; eauto).
      now rewrite count_eq_count1.
    - intros q Hq k. unfold pt_select_q. rewrite Et, (proj1 (Henc q Hq)). rewrite <- Et.
      rewrite (pt_select_correct _ _ _ Hc (cf q) (in_map cf text q Hq) k).
      rewrite map_ceqb_cf by auto. unfold wt_select_q. now rewrite wt_select_from_bits.
  Qed.

  Theorem prefix_wt_constructs fuel : (forall s, In s text -> cf s <> []) ->
    prefix_free (map cf text) -> max_len (map cf text) < fuel ->
    exists t, pt_build enc fuel text = Ok t.
  Proof.
    intros Hne Hpf Hf. rewrite encode_all_ok. apply pt_construct_total; [|exact Hpf|exact Hf].
    intros c Hc. apply in_map_iff in Hc. destruct Hc as (s & <- & Hs). now apply Hne.
  Qed.
End AgainstList.

(* ------------------------------------------------------------------ FixedWidthEncoder *)
Lemma of_to_bits w : forall p, p < 2 ^ w -> of_bits (to_bits w p) = p.
Proof.
  induction w as [|w IH]; intros p Hp; [cbn in *; lia|].
  cbn [to_bits of_bits]. rewrite IH.
  - pose proof (Nat.div2_odd p) as E. destruct (Nat.odd p); cbn [Nat.b2n] in E; lia.
  - rewrite Nat.div2_div. apply Nat.div_lt_upper_bound; [lia|]. rewrite Nat.pow_succ_r' in Hp. lia.
Qed.

Lemma to_bits_length w p : length (to_bits w p) = w.
Proof. revert p. induction w as [|w IH]; intros p; [reflexivity|]. cbn [to_bits length]. now rewrite IH. Qed.

Lemma is_prefix_same_length a : forall b, length a = length b -> is_prefix a b = true -> a = b.
Proof.
  induction a as [|x a IH]; intros [|y b] Hl Hp; cbn in *; try lia; [reflexivity|].
  apply andb_prop in Hp. destruct Hp as [E Hp]. apply Bool.eqb_prop in E. subst. f_equal. apply IH; [lia|exact Hp].
Qed.

Lemma position_of_spec t l : forall i,
  match position_of t l i with
  | Some p => i <= p /\ p - i < length l /\ nth (p - i) l 0 = t
  | None => ~ In t l
  end.
Proof.
  induction l as [|y l IH]; intros i; cbn [position_of]; [intros []|].
  destruct (Nat.eqb_spec t y) as [->|NE].
  - rewrite Nat.sub_diag. cbn. repeat split; lia.
  - specialize (IH (S i)). destruct (position_of t l (S i)) as [p|].
    + destruct IH as (A & B & C). cbn [length]. repeat split; try lia.
      replace (p - i) with (S (p - S i)) by lia. exact C.
    + intros [E|H]; [congruence|contradiction].
Qed.

Lemma insert_uniq_In x l y : In y (insert_uniq x l) <-> y = x \/ In y l.
Proof.
  induction l as [|z l IH]; cbn [insert_uniq In]; [intuition|].
  destruct (Nat.ltb_spec x z); [cbn [In]; intuition|].
  destruct (Nat.eqb_spec x z) as [->|]; cbn [In]; [intuition|]. rewrite IH. intuition.
Qed.

Lemma fw_chars_In text s : In s (fw_chars text) <-> In s text.
Proof.
  unfold fw_chars. induction text as [|x text IH]; cbn [fold_right In]; [tauto|].
  rewrite insert_uniq_In, IH. intuition.
Qed.

Section FixedWidth.
  Variable text : list nat.
  Let chars := fw_chars text.
  Let w := fw_width chars.
  Definition fw_cf (s : nat) : list bool :=
    match position_of s chars 0 with Some p => to_bits w p | None => [] end.

  Lemma fw_width_bound : length chars <= 2 ^ w.
  Proof.
    unfold w, fw_width. pose proof (Nat.log2_up_spec (Nat.max (length chars) 2) ltac:(lia)) as H. lia.
  Qed.

  Lemma fw_width_pos : 1 <= w.
  Proof. unfold w, fw_width. apply (Nat.log2_up_le_mono 2 (Nat.max (length chars) 2)). lia. Qed.

  Lemma fw_Henc s : In s text -> fw_enc chars s = Some (fw_cf s) /\ fw_dec chars (fw_cf s) = Some s.
  Proof.
    intros Hs. apply fw_chars_In in Hs. fold chars in Hs. unfold fw_enc, fw_cf, fw_dec. fold w.
    pose proof (position_of_spec s chars 0) as P. destruct (position_of s chars 0) as [p|]; [|contradiction].
    destruct P as (_ & B & C). rewrite Nat.sub_0_r in B, C. split; [reflexivity|].
    rewrite of_to_bits by (pose proof fw_width_bound; lia). rewrite (nth_error_nth' chars 0 B). now rewrite C.
  Qed.

  Lemma fw_cf_length s : In s text -> length (fw_cf s) = w.
  Proof.
    intros Hs. apply fw_chars_In in Hs. fold chars in Hs. unfold fw_cf.
    pose proof (position_of_spec s chars 0) as P. destruct (position_of s chars 0); [apply to_bits_length|contradiction].
  Qed.

  (* prefix::WaveletTree<FixedWidthEncoder> constructs for every symbol string and answers as the list *)
  Theorem fixed_width_tree_correct : exists t,
    fw_tree text = Ok (t, chars) /\
    (forall x, x < length text -> pt_access (fw_dec chars) t x = wt_access text x) /\
    (forall q, In q text -> forall x, x <= length text -> pt_rank_q (fw_enc chars) t q x = wt_rank_q text q x) /\
    (forall q, In q text -> forall k, pt_select_q (fw_enc chars) t q k = wt_select_q text q k).
  Proof.
    destruct (prefix_wt_constructs (fw_enc chars) (fw_dec chars) fw_cf text fw_Henc (S w)) as (t & Et).
    - intros s Hs E. pose proof (fw_cf_length s Hs) as L. rewrite E in L. cbn in L. pose proof fw_width_pos. lia.
    - intros c d Hc Hd Hp. apply in_map_iff in Hc, Hd. destruct Hc as (s & <- & Hs). destruct Hd as (s' & <- & Hs').
      apply is_prefix_same_length; [now rewrite !fw_cf_length|exact Hp].
    - assert (G : forall l, (forall s, In s l -> In s text) -> max_len (map fw_cf l) <= w).
      { induction l as [|s l IH]; intros H; [cbn; lia|]. cbn [map max_len fold_right].
        rewrite (fw_cf_length s (H s (or_introl eq_refl))).
        specialize (IH (fun s' Hs' => H s' (or_intror Hs'))). unfold max_len in IH. lia. }
      specialize (G text (fun s H => H)). lia.
    - exists t. unfold fw_tree. fold chars w. rewrite Et. cbn [rbind]. split; [reflexivity|].
      exact (prefix_wt_correct (fw_enc chars) (fw_dec chars) fw_cf text fw_Henc (S w) t Et).
  Qed.
End FixedWidth.
