(* Scrunch/ModelSparse.v — executable model of scrunch/src/bit_vector/sparse.rs: a sparse bit
   vector stored as a B-tree over the sorted indices of its set bits.  Definitions only.

   Transcribed: push_slice_u64 / parse_slice_u64 (a slice = its first value + the deltas of the
   others to it, padded with zeros; a zero delta means "absent"), BitVector::from_indices (leaves of
   `branch` indices, then levels of internal nodes over `branch` children each: branch-1 dividers
   + branch pointers, the root pointer and the number of levels), BitVector::new (skip factors),
   Leaf::{access_rank, select}, Internal::{position, pointer}, and the trait methods access_rank,
   access, rank, select (rank0 / select0 are the trait defaults of ModelBits.v).
   By interface: the byte layout — varint headers, the bit packing of the deltas (a packed array
   is the list of its fields; `load(i * bits, bits)` is the i-th field, None past the end), byte
   offsets (a node's offset is its sequence number in the order the nodes are written; only the
   order of offsets matters to the code). *)
From Coq Require Import Arith List Bool.
From Blue Require Import Scrunch.ModelBits.
Import ListNotations.

(* push_slice_u64(bytes, branch, values) / parse_slice_u64(branch, bytes).  The base of an empty
   slice is the sentinel u64::MAX: `None` here (indices are below 2^64, so it compares above
   every index; the model's naturals are unary and cannot hold the number itself). *)
Record slice := { sl_base : option nat; sl_deltas : list nat }.

Definition mk_slice (branch : nat) (values : list nat) : slice :=
  match values with
  | [] => {| sl_base := None; sl_deltas := repeat 0 (branch - 1) |}      (* bits = 0: every load is 0 *)
  | v0 :: rest =>
      {| sl_base := Some v0;
         sl_deltas := map (fun v => v - v0) rest ++ repeat 0 (branch - length values) |}
  end.

(* `base >= x` *)
Definition base_ge (b : option nat) (x : nat) : bool :=
  match b with Some v => x <=? v | None => true end.
(* base as a summand (never reached with the sentinel: an empty slice has only zero loads) *)
Definition base_val (b : option nat) : nat := match b with Some v => v | None => 0 end.

(* words.load(i * bits, bits) *)
Definition sl_load (s : slice) (i : nat) : option nat := nth_error (sl_deltas s) i.

Inductive snode :=
| SLeaf (words : slice)
| SInternal (dividers pointers : slice).

Record sparse := {
  sv_length : nat;
  sv_branch : nat;
  sv_nodes : list snode;          (* node at offset k = k-th node written *)
  sv_root : nat;
  sv_levels : nat
}.

(* ------------------------------------------------------------------ Leaf *)
(* the FixedWidthIterator over the branch-1 words: (idx, load) pairs in order *)
Fixpoint leaf_scan (base x : nat) (words : list nat) (idx : nat) : option (bool * nat) :=
  match words with
  | [] => None
  | load :: r =>
      let word := base + load in
      if (x <=? word) || (load =? 0) then Some (word =? x, idx + 1)
      else leaf_scan base x r (idx + 1)
  end.

Definition leaf_access_rank (branch : nat) (s : slice) (x : nat) : option (bool * nat) :=
  if base_ge (sl_base s) x then Some (match sl_base s with Some v => v =? x | None => false end, 0)
  else match leaf_scan (base_val (sl_base s)) x (firstn (branch - 1) (sl_deltas s)) 0 with
       | Some r => Some r
       | None => Some (false, branch)
       end.

Definition leaf_select (s : slice) (index : nat) : option nat :=
  match index with
  | 0 => match sl_base s with Some v => Some (v + 1) | None => None end    (* u64::MAX + 1 does not fit usize *)
  | S i =>
      match sl_load s i with
      | Some delta => if 0 <? delta then Some (base_val (sl_base s) + delta + 1) else None
      | None => None
      end
  end.

(* ------------------------------------------------------------------ Internal *)
(* binary_search_by(0, branch - 2, |mid| ..): load == 0 -> Greater, else compare divider with x *)
Definition internal_position (branch : nat) (dividers pointers : slice) (x : nat) : res (option (nat * nat)) :=
  if base_ge (sl_base dividers) x then Ok (Some (0, base_val (sl_base pointers)))
  else
    do idx <- binary_search_by (S (branch - 2))
                (fun mid => do load <- unwrap (sl_load dividers mid);
                            Ok (if load =? 0 then Gt else Nat.compare (base_val (sl_base dividers) + load) x))
                0 (branch - 2);
    Ok (match sl_load pointers idx with
        | Some d => Some (idx + 1, base_val (sl_base pointers) + d)
        | None => None
        end).

Definition internal_pointer (pointers : slice) (index : nat) : option nat :=
  match index with
  | 0 => Some (base_val (sl_base pointers))
  | S i =>
      match sl_load pointers i with
      | Some d => if 0 <? d then Some (base_val (sl_base pointers) + d) else None
      | None => None
      end
  end.

(* ------------------------------------------------------------------ BitVector *)
Definition load_leaf (v : sparse) (offset : nat) : option slice :=
  match nth_error (sv_nodes v) offset with Some (SLeaf s) => Some s | _ => None end.
Definition load_internal (v : sparse) (offset : nat) : option (slice * slice) :=
  match nth_error (sv_nodes v) offset with Some (SInternal d p) => Some (d, p) | _ => None end.

(* [branch^(levels-1); ..; branch] *)
Fixpoint skip_factors_from (branch : nat) (k : nat) : list nat :=
  match k with
  | 0 => []
  | S k' => branch ^ k :: skip_factors_from branch k'
  end.
Definition skip_factors (v : sparse) : list nat := skip_factors_from (sv_branch v) (sv_levels v - 1).

Fixpoint descend_rank (v : sparse) (sfs : list nat) (node_offset cumulative x : nat) : res (option (bool * nat)) :=
  match sfs with
  | [] =>
      Ok (match load_leaf v node_offset with
          | Some leaf =>
              match leaf_access_rank (sv_branch v) leaf x with
              | Some (a, r) => Some (a, cumulative + r)
              | None => None
              end
          | None => None
          end)
  | sf :: rest =>
      match load_internal v node_offset with
      | None => Ok None
      | Some (d, p) =>
          do pos <- internal_position (sv_branch v) d p x;
          match pos with
          | None => Ok None
          | Some (offset, pointer) => descend_rank v rest pointer (cumulative + offset * sf) x
          end
      end
  end.

Definition sv_access_rank (v : sparse) (x : nat) : res (option (bool * nat)) :=
  if sv_length v <? x then Ok None
  else if sv_levels v =? 0 then Ok (Some (false, 0))
  else descend_rank v (skip_factors v) (sv_root v) 0 x.

Definition sv_access (v : sparse) (x : nat) : res (option bool) :=
  if sv_length v <=? x then Ok None
  else do ar <- sv_access_rank v x; Ok (option_map fst ar).

Definition sv_rank (v : sparse) (x : nat) : res (option nat) :=
  if sv_length v <? x then Ok None
  else do ar <- sv_access_rank v x; Ok (option_map snd ar).

(* `while x >= skip_factor { index += 1; x -= skip_factor }` *)
Fixpoint descend_select (v : sparse) (sfs : list nat) (node_offset x : nat) : option nat :=
  match sfs with
  | [] => match load_leaf v node_offset with Some leaf => leaf_select leaf x | None => None end
  | sf :: rest =>
      match load_internal v node_offset with
      | None => None
      | Some (_, p) =>
          match internal_pointer p (x / sf) with
          | Some pointer => descend_select v rest pointer (x mod sf)
          | None => None
          end
      end
  end.

Definition sv_select (v : sparse) (x : nat) : option nat :=
  match x with
  | 0 => Some 0
  | S x' => if sv_levels v =? 0 then None else descend_select v (skip_factors v) (sv_root v) x'
  end.

(* ------------------------------------------------------------------ from_indices *)
(* the leaves: every `branch` indices make a leaf; dividers = last index of each leaf,
   pointers = where the leaf was written *)
Fixpoint build_leaves (fuel branch : nat) (indices : list nat) (nodes : list snode)
  : list nat * list nat * list snode :=
  match fuel with
  | 0 => ([], [], nodes)
  | S f =>
      match indices with
      | [] => ([], [], nodes)
      | _ =>
          let chunk := firstn branch indices in
          let '(ds, ps, nodes') :=
            build_leaves f branch (skipn branch indices) (nodes ++ [SLeaf (mk_slice branch chunk)]) in
          (last chunk 0 :: ds, length nodes :: ps, nodes')
      end
  end.

(* one level: `while idx + branch < pointers.len()` full groups, then the remainder (1..=branch) *)
Fixpoint build_level (fuel branch : nat) (dividers pointers : list nat) (nodes : list snode)
  : list nat * list nat * list snode :=
  match fuel with
  | 0 => ([], [], nodes)
  | S f =>
      if branch <? length pointers then
        let node := SInternal (mk_slice (branch - 1) (firstn (branch - 1) dividers))
                              (mk_slice branch (firstn branch pointers)) in
        let '(ds, ps, nodes') :=
          build_level f branch (skipn branch dividers) (skipn branch pointers) (nodes ++ [node]) in
        (nth (branch - 1) dividers 0 :: ds, length nodes :: ps, nodes')
      else
        let amt := length pointers in
        if 0 <? amt then
          let node := SInternal (mk_slice (branch - 1) (firstn (amt - 1) dividers))
                                (mk_slice branch pointers) in
          ([], [length nodes], nodes ++ [node])
        else ([], [], nodes)
  end.

(* `while pointers.len() > 1` *)
Fixpoint build_levels (fuel branch : nat) (dividers pointers : list nat) (nodes : list snode) (levels : nat)
  : list nat * list snode * nat :=
  match fuel with
  | 0 => (pointers, nodes, levels)
  | S f =>
      if 1 <? length pointers then
        let '(ds, ps, nodes') := build_level (S (length pointers)) branch dividers pointers nodes in
        build_levels f branch ds ps nodes' (levels + 1)
      else (pointers, nodes, levels)
  end.

Definition sv_from_indices (branch len : nat) (indices : list nat) : option sparse :=
  if (4 <=? branch) && (branch <? 256) then
    if strictly_increasing indices then
      if forallb (fun i => i <? len) indices then        (* `len <= indices[last]` is the rejection (the indices increase) *)
        match indices with
        | [] => Some {| sv_length := len; sv_branch := branch; sv_nodes := []; sv_root := 0; sv_levels := 0 |}
        | _ =>
            let '(ds, ps, nodes) := build_leaves (S (length indices)) branch indices [] in
            let '(ps', nodes', levels) := build_levels (S (length indices)) branch ds ps nodes 1 in
            Some {| sv_length := len; sv_branch := branch; sv_nodes := nodes';
                    sv_root := nth 0 ps' 0; sv_levels := levels |}
        end
      else None
    else None
  else None.

(* BitVector::construct(bits): the indices of the set bits, in order, then from_indices(16, ..) *)
Fixpoint ones_from (i : nat) (bs : list bool) : list nat :=
  match bs with
  | [] => []
  | b :: r => if b then i :: ones_from (S i) r else ones_from (S i) r
  end.

Definition sv_construct (bs : list bool) : option sparse :=
  sv_from_indices 16 (length bs) (ones_from 0 bs).
