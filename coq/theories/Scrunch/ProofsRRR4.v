(* Scrunch/ProofsRRR4.v — rrr.rs, part 4: u63::select_word is select on the word's bits, and
   select over a concatenation splits at the count of the first part. *)
From Coq Require Import Arith NArith List Bool Lia.
From Blue Require Import Scrunch.ModelBits Scrunch.ModelRRR Scrunch.ProofsBits.
Import ListNotations.
Local Open Scope nat_scope.
Arguments Nat.sub : simpl never.
Arguments Nat.div : simpl never.
Arguments Nat.modulo : simpl never.
Arguments Nat.leb : simpl never.
Arguments Nat.ltb : simpl never.
Arguments Nat.eqb : simpl never.
Arguments Nat.mul : simpl never.

Lemma select_from_zero v b pos : select_from v b 0 pos = Some pos.
Proof. destruct b; reflexivity. Qed.

Lemma countv_cons v x a : countv v (x :: a) = (if Bool.eqb x v then 1 else 0) + countv v a.
Proof. unfold countv. cbn [filter]. rewrite (beqb_sym v x). destruct (Bool.eqb x v); reflexivity. Qed.

Lemma select_from_app v a : forall b k pos,
  select_from v (a ++ b) k pos =
  if k <=? countv v a then select_from v a k pos else select_from v b (k - countv v a) (pos + length a).
Proof.
  induction a as [|x a IH]; intros b k pos.
  - cbn [app length]. change (countv v []) with 0. destruct k as [|k].
    + now rewrite !select_from_zero.
    + replace (S k <=? 0) with false by (symmetry; apply Nat.leb_gt; lia).
      now replace (S k - 0) with (S k) by lia; replace (pos + 0) with pos by lia.
  - destruct k as [|k].
    + replace (0 <=? countv v (x :: a)) with true by (symmetry; apply Nat.leb_le; lia).
      now rewrite !select_from_zero.
    + rewrite countv_cons. cbn [app select_from length]. destruct (Bool.eqb x v); rewrite IH.
      * destruct (Nat.leb_spec k (countv v a)); destruct (Nat.leb_spec (S k) (1 + countv v a)); try lia; [reflexivity|].
        f_equal; lia.
      * destruct (Nat.leb_spec (S k) (countv v a)); destruct (Nat.leb_spec (S k) (0 + countv v a)); try lia; [reflexivity|].
        f_equal; lia.
Qed.

Lemma select_from_negb w : forall k pos, select_from false w k pos = select_from true (map negb w) k pos.
Proof.
  induction w as [|x w IH]; intros k pos; [destruct k; reflexivity|].
  destruct k as [|k]; [reflexivity|]. cbn [map select_from]. destruct x; cbn [negb Bool.eqb]; apply IH.
Qed.

Lemma option_map_add_add a b (o : option nat) :
  option_map (Nat.add a) (option_map (Nat.add b) o) = option_map (Nat.add (a + b)) o.
Proof. destruct o; cbn; [f_equal; lia|reflexivity]. Qed.

Lemma sw_step_inv (word : list bool) x idx s : 1 <= x <= count1 word -> length word <= 2 * s ->
  let st' := sw_step (word, x, idx) s in
  1 <= snd (fst st') <= count1 (fst (fst st')) /\ length (fst (fst st')) <= s /\
  option_map (Nat.add idx) (bv_select word x) =
  option_map (Nat.add (snd st')) (bv_select (fst (fst st')) (snd (fst st'))).
Proof.
  intros Hx Hl. cbv zeta. unfold sw_step.
  pose proof (firstn_skipn s word) as Hsplit.
  assert (Hc : count1 word = count1 (firstn s word) + count1 (skipn s word))
    by (rewrite <- Hsplit at 1; apply count1_app).
  assert (Hsel : bv_select word x =
                 if x <=? count1 (firstn s word) then bv_select (firstn s word) x
                 else select_from true (skipn s word) (x - count1 (firstn s word)) (length (firstn s word))).
  { unfold bv_select. rewrite <- Hsplit at 1. rewrite select_from_app, countv_true. reflexivity. }
  destruct (Nat.ltb_spec (count1 (firstn s word)) x) as [Hlt|Hge]; cbn [fst snd].
  - assert (Hfl : length (firstn s word) = s).
    { rewrite firstn_length. destruct (Nat.le_gt_cases s (length word)); [lia|].
      rewrite firstn_all2 in Hlt by lia. lia. }
    split; [lia|]. split; [rewrite skipn_length; lia|].
    rewrite Hsel. replace (x <=? count1 (firstn s word)) with false by (symmetry; apply Nat.leb_gt; lia).
    rewrite Hfl, select_from_shift. unfold bv_select. now rewrite option_map_add_add.
  - split; [lia|]. split; [rewrite firstn_length; lia|].
    rewrite Hsel. now replace (x <=? count1 (firstn s word)) with true by (symmetry; apply Nat.leb_le; lia).
Qed.

Lemma bv_select_zero' b : bv_select b 0 = Some 0.
Proof. unfold bv_select. apply select_from_zero. Qed.

Theorem select_word_spec word x : length word <= 64 -> select_word word x = bv_select word x.
Proof.
  intros Hl. unfold select_word.
  destruct (Nat.eqb_spec x 0) as [->|Hx]; [now rewrite bv_select_zero'|].
  destruct (Nat.ltb_spec (count1 word) x) as [Hlt|Hge].
  - symmetry. apply select_from_none. now rewrite countv_true.
  - cbn [fold_left].
    destruct (sw_step_inv word x 0 32 ltac:(lia) ltac:(lia)) as (A1 & B1 & C1).
    set (sti1 := sw_step (word, x, 0) 32) in *; clearbody sti1; destruct sti1 as [[w1 x1] i1]; cbn [fst snd] in *.
    destruct (sw_step_inv w1 x1 i1 16 ltac:(lia) ltac:(lia)) as (A2 & B2 & C2).
    set (sti2 := sw_step (w1, x1, i1) 16) in *; clearbody sti2; destruct sti2 as [[w2 x2] i2]; cbn [fst snd] in *.
    destruct (sw_step_inv w2 x2 i2 8 ltac:(lia) ltac:(lia)) as (A3 & B3 & C3).
    set (sti3 := sw_step (w2, x2, i2) 8) in *; clearbody sti3; destruct sti3 as [[w3 x3] i3]; cbn [fst snd] in *.
    destruct (sw_step_inv w3 x3 i3 4 ltac:(lia) ltac:(lia)) as (A4 & B4 & C4).
    set (sti4 := sw_step (w3, x3, i3) 4) in *; clearbody sti4; destruct sti4 as [[w4 x4] i4]; cbn [fst snd] in *.
    destruct (sw_step_inv w4 x4 i4 2 ltac:(lia) ltac:(lia)) as (A5 & B5 & C5).
    set (sti5 := sw_step (w4, x4, i4) 2) in *; clearbody sti5; destruct sti5 as [[w5 x5] i5]; cbn [fst snd] in *.
    destruct (sw_step_inv w5 x5 i5 1 ltac:(lia) ltac:(lia)) as (A6 & B6 & C6).
    set (sti6 := sw_step (w5, x5, i5) 1) in *; clearbody sti6; destruct sti6 as [[w6 x6] i6]; cbn [fst snd] in *.
    assert (E : option_map (Nat.add 0) (bv_select word x) = option_map (Nat.add i6) (bv_select w6 x6)) by congruence.
    destruct w6 as [|b [|b' w6]]; cbn [length] in B6; [cbn in A6; lia| |lia].
    destruct b; [|cbn in A6; lia]. cbn in A6. replace x6 with 1 in E by lia.
    change (bv_select [true] 1) with (Some 1) in E. cbn [option_map] in E.
    destruct (bv_select word x); cbn [option_map] in E; [|discriminate].
    f_equal. injection E as E'. lia.
Qed.

Lemma w_select1_spec w x : length w = 63 -> w_select1 w x = bv_select w x.
Proof. intros H. apply select_word_spec. lia. Qed.

Lemma w_select0_spec w x : length w = 63 -> w_select0 w x = bv_select0 w x.
Proof.
  intros H. unfold w_select0, bv_select0. rewrite select_from_negb. apply select_word_spec.
  rewrite map_length. lia.
Qed.
