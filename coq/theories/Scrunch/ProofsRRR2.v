(* Scrunch/ProofsRRR2.v — rrr.rs, part 2: construct_from_words never panics (every value pushed
   fits its width) and its six arrays are, in closed form: c the classes, o the offsets at their
   class widths, p / r the o-length / rank before every 8th word, s0 / s1 the select samples. *)
From Coq Require Import Arith NArith List Bool Lia.
From Blue Require Import Scrunch.ModelBits Scrunch.ModelRRR Scrunch.ProofsBits Scrunch.ProofsSparse1 Scrunch.ProofsRRR1.
Import ListNotations.
Local Open Scope nat_scope.
Arguments Nat.sub : simpl never.
Arguments Nat.div : simpl never.
Arguments Nat.modulo : simpl never.
Arguments Nat.leb : simpl never.
Arguments Nat.ltb : simpl never.
Arguments Nat.eqb : simpl never.
Arguments Nat.pow : simpl never.
Arguments Nat.log2_up : simpl never.
Arguments N.pow : simpl never.
Arguments N.ltb : simpl never.
Arguments N.of_nat : simpl never.

(* the vector is short enough for its widths to be below 64 bits: len < 2^62 *)
Definition rrr_len_ok (bits : nat) : Prop := Nat.log2_up (bits + 1) <= 62.

Lemma calc_width_bounds bits : rrr_len_ok bits -> 8 <= calc_width bits < 64.
Proof. unfold rrr_len_ok, calc_width. lia. Qed.

Lemma width_fits bits v : v <= bits -> (N.of_nat v < 2 ^ N.of_nat (calc_width bits))%N.
Proof.
  intros Hv. pose proof (Nat.log2_log2_up_spec (bits + 1) ltac:(lia)) as [_ H].
  assert (H2 : 2 ^ Nat.log2_up (bits + 1) <= 2 ^ calc_width bits).
  { apply Nat.pow_le_mono_r; [lia|]. unfold calc_width. lia. }
  change 2%N with (N.of_nat 2). rewrite <- Nat2N.inj_pow. lia.
Qed.

(* ------------------------------------------------------------------ the loop without the packing *)
Record pst := {
  q_idx : nat; q_olen : nat; q_rank : nat; q_rank0 : nat; q_next0 : nat; q_next1 : nat;
  q_pv : list nat; q_cv : list nat; q_ob : list bool; q_rv : list nat; q_s0v : list nat; q_s1v : list nat
}.

Definition sel1 (rank next sb : nat) (sv : list nat) : list nat * nat :=
  if next <=? rank then (sv ++ [sb], next + 64) else (sv, next).

Definition ofield (w : word63) : list bool := to_bits (Lw (count1 w)) (enc_o w).

Definition pure_step (st : pst) (w : word63) : pst :=
  let idx := q_idx st in
  let c := count1 w in
  let boundary := idx mod 8 =? 0 in
  {| q_idx := S idx; q_olen := q_olen st + Lw c; q_rank := q_rank st + c; q_rank0 := q_rank0 st + (63 - c);
     q_next0 := snd (sel1 (q_rank0 st + (63 - c)) (q_next0 st) (idx / 8) (q_s0v st));
     q_next1 := snd (sel1 (q_rank st + c) (q_next1 st) (idx / 8) (q_s1v st));
     q_pv := if boundary then q_pv st ++ [q_olen st] else q_pv st;
     q_cv := q_cv st ++ [c];
     q_ob := q_ob st ++ ofield w;
     q_rv := if boundary then q_rv st ++ [q_rank st] else q_rv st;
     q_s0v := fst (sel1 (q_rank0 st + (63 - c)) (q_next0 st) (idx / 8) (q_s0v st));
     q_s1v := fst (sel1 (q_rank st + c) (q_next1 st) (idx / 8) (q_s1v st)) |}.

Definition pst0 : pst :=
  {| q_idx := 0; q_olen := 0; q_rank := 0; q_rank0 := 0; q_next0 := 0; q_next1 := 0;
     q_pv := []; q_cv := []; q_ob := []; q_rv := []; q_s0v := []; q_s1v := [] |}.

Definition enc_state (width : nat) (st : pst) : bstate :=
  {| b_idx := q_idx st; b_olen := q_olen st; b_rank := q_rank st; b_rank0 := q_rank0 st;
     b_next0 := q_next0 st; b_next1 := q_next1 st;
     b_p := fbits width (q_pv st); b_c := fbits 6 (q_cv st); b_o := q_ob st;
     b_r := fbits width (q_rv st); b_s0 := fbits width (q_s0v st); b_s1 := fbits width (q_s1v st) |}.

Definition pinv (st : pst) : Prop :=
  q_olen st <= 63 * q_idx st /\ q_rank st <= 63 * q_idx st /\ q_rank0 st <= 63 * q_idx st /\
  q_rank st <= q_next1 st /\ q_rank0 st <= q_next0 st.

Lemma fbits_snoc w vs v : fbits w (vs ++ [v]) = fbits w vs ++ to_bits w (N.of_nat v).
Proof. rewrite fbits_app. unfold fbits at 2. cbn [map concat]. now rewrite app_nil_r. Qed.

Lemma push_word_ok acc v w : w < 64 -> (v < 2 ^ N.of_nat w)%N -> push_word acc v w = Ok (acc ++ to_bits w v).
Proof.
  intros Hw Hv. unfold push_word.
  replace (w <? 64) with true by (symmetry; now apply Nat.ltb_lt).
  now replace (v <? 2 ^ N.of_nat w)%N with true by (symmetry; now apply N.ltb_lt).
Qed.

Lemma sel_push_ok bits rank next sb sv : rrr_len_ok bits -> sb <= bits -> rank < next + 64 ->
  sel_push 2 (calc_width bits) rank next sb (fbits (calc_width bits) sv) =
  Ok (fbits (calc_width bits) (fst (sel1 rank next sb sv)), snd (sel1 rank next sb sv)).
Proof.
  intros Hlen Hsb Hr. pose proof (calc_width_bounds bits Hlen) as Hw. unfold sel1. cbn [sel_push].
  destruct (Nat.leb_spec next rank) as [H|H]; [|reflexivity].
  rewrite push_word_ok by (try apply width_fits; lia). cbn [rbind].
  replace (next + SELECT <=? rank) with false by (symmetry; apply Nat.leb_gt; unfold SELECT; lia).
  cbn [fst snd]. now rewrite fbits_snoc.
Qed.

Lemma Lw_le_63 c : c <= 63 -> Lw c <= 63.
Proof. intros H. pose proof (Lw_lt_64 c H). lia. Qed.

Lemma build_step_ok bits st w : rrr_len_ok bits -> length w = 63 -> pinv st -> 63 * q_idx st < bits ->
  build_step (calc_width bits) (enc_state (calc_width bits) st) w = Ok (enc_state (calc_width bits) (pure_step st w)) /\
  pinv (pure_step st w).
Proof.
  intros Hlen Hw (I1 & I2 & I3 & I4 & I5) Hidx.
  pose proof (calc_width_bounds bits Hlen) as Hwd.
  pose proof (count1_le_length w) as Hc. rewrite Hw in Hc.
  pose proof (Lw_le_63 (count1 w) Hc) as HL.
  split.
  - unfold build_step. cbn [enc_state b_idx b_olen b_rank b_rank0 b_next0 b_next1 b_p b_c b_o b_r b_s0 b_s1].
    assert (Ep : (if q_idx st mod WORD =? 0 then push_word (fbits (calc_width bits) (q_pv st)) (N.of_nat (q_olen st)) (calc_width bits)
                  else Ok (fbits (calc_width bits) (q_pv st))) =
                 Ok (fbits (calc_width bits) (if q_idx st mod 8 =? 0 then q_pv st ++ [q_olen st] else q_pv st))).
    { unfold WORD. destruct (q_idx st mod 8 =? 0); [|reflexivity].
      rewrite push_word_ok by (try apply width_fits; lia). now rewrite fbits_snoc. }
    assert (Er : (if q_idx st mod WORD =? 0 then push_word (fbits (calc_width bits) (q_rv st)) (N.of_nat (q_rank st)) (calc_width bits)
                  else Ok (fbits (calc_width bits) (q_rv st))) =
                 Ok (fbits (calc_width bits) (if q_idx st mod 8 =? 0 then q_rv st ++ [q_rank st] else q_rv st))).
    { unfold WORD. destruct (q_idx st mod 8 =? 0); [|reflexivity].
      rewrite push_word_ok by (try apply width_fits; lia). now rewrite fbits_snoc. }
    rewrite Ep, Er. cbn [rbind]. rewrite (encode_spec w Hw). cbn [rbind fst snd].
    replace (63 <? count1 w) with false by (symmetry; apply Nat.ltb_ge; lia).
    rewrite (L_table_nth _ Hc). cbn [unwrap rbind].
    assert (Eo : (if 0 <? Lw (count1 w) then push_word (q_ob st) (enc_o w) (Lw (count1 w)) else Ok (q_ob st)) =
                 Ok (q_ob st ++ ofield w)).
    { unfold ofield. destruct (Nat.ltb_spec 0 (Lw (count1 w))) as [Hp|Hz].
      - apply push_word_ok; [pose proof (Lw_lt_64 _ Hc); lia|now apply enc_o_fits].
      - replace (Lw (count1 w)) with 0 by lia. cbn [to_bits]. now rewrite app_nil_r. }
    rewrite Eo. cbn [rbind].
    rewrite push_word_ok by (try lia; change (2 ^ N.of_nat 6)%N with 64%N; lia). cbn [rbind].
    unfold WORD.
    assert (Hsb : q_idx st / 8 <= bits).
    { pose proof (Nat.div_le_upper_bound (q_idx st) 8 (q_idx st) ltac:(lia) ltac:(lia)). lia. }
    rewrite (sel_push_ok bits _ _ _ _ Hlen Hsb) by lia. cbn [rbind].
    rewrite (sel_push_ok bits _ _ _ _ Hlen Hsb) by lia. cbn [rbind fst snd].
    unfold enc_state, pure_step. cbn [q_idx q_olen q_rank q_rank0 q_next0 q_next1 q_pv q_cv q_ob q_rv q_s0v q_s1v].
    rewrite fbits_snoc. reflexivity.
  - unfold pinv, pure_step, sel1.
    cbn [q_idx q_olen q_rank q_rank0 q_next0 q_next1 q_pv q_cv q_ob q_rv q_s0v q_s1v].
    repeat split; try lia.
    + destruct (Nat.leb_spec (q_next1 st) (q_rank st + count1 w)); cbn [snd]; lia.
    + destruct (Nat.leb_spec (q_next0 st) (q_rank0 st + (63 - count1 w))); cbn [snd]; lia.
Qed.

Lemma build_loop_ok bits : rrr_len_ok bits -> forall ws st,
  Forall (fun w => length w = 63) ws -> pinv st -> 63 * (q_idx st + length ws) < bits + 63 ->
  build_loop (calc_width bits) (enc_state (calc_width bits) st) ws =
  Ok (enc_state (calc_width bits) (fold_left pure_step ws st)).
Proof.
  intros Hlen. induction ws as [|w ws IH]; intros st Hall Hinv Hb; [reflexivity|].
  cbn [build_loop fold_left]. cbn [length] in Hb.
  destruct (build_step_ok bits st w Hlen (Forall_inv Hall) Hinv ltac:(lia)) as [E I'].
  rewrite E. cbn [rbind]. apply IH; [exact (Forall_inv_tail Hall)|exact I'|].
  unfold pure_step. cbn [q_idx]. lia.
Qed.

(* ------------------------------------------------------------------ words of a bit list *)
Lemma pad63_length l : length l <= 63 -> length (pad63 l) = 63.
Proof. intros H. unfold pad63. rewrite app_length, repeat_length. lia. Qed.

Lemma chunks63_closed : forall fuel bs, length bs < fuel -> bs <> [] ->
  exists cs, chunked 63 bs cs /\ chunks63 fuel bs = map pad63 cs.
Proof.
  induction fuel as [|f IH]; intros bs Hf Hne; [lia|].
  assert (Hpos : 1 <= length bs) by (destruct bs; [contradiction|cbn; lia]).
  cbn [chunks63]. destruct bs as [|b0 bs0] eqn:Eb; [contradiction|]. rewrite <- Eb in *. clear Eb Hne.
  destruct (Nat.le_gt_cases (length bs) 63) as [Hle|Hgt].
  - exists [bs]. split.
    + apply ch_last; [exact Hpos|exact Hle].
    + rewrite firstn_all2 by lia. rewrite skipn_all2 by lia.
      cbn [map]. f_equal. destruct f; reflexivity.
  - destruct (IH (skipn 63 bs)) as (cs & Hch & E).
    + rewrite skipn_length. lia.
    + intros E. assert (length (skipn 63 bs) = 0) by now rewrite E. rewrite skipn_length in H. lia.
    + exists (firstn 63 bs :: cs). split.
      * rewrite <- (firstn_skipn 63 bs) at 1. apply ch_cons; [rewrite firstn_length; lia|exact Hch].
      * cbn [map]. now rewrite E.
Qed.

Definition words_ok (bs : list bool) (cs : list (list bool)) : Prop :=
  (bs = [] /\ cs = []) \/ chunked 63 bs cs.

Lemma words_of_bits_closed bs : exists cs, words_ok bs cs /\ words_of_bits bs = map pad63 cs.
Proof.
  unfold words_of_bits. destruct bs as [|b0 bs0] eqn:Eb.
  - exists []. split; [left; split; reflexivity|reflexivity].
  - rewrite <- Eb. destruct (chunks63_closed (S (length bs)) bs ltac:(lia) ltac:(rewrite Eb; discriminate)) as (cs & H & E).
    exists cs. split; [right; exact H|exact E].
Qed.

Lemma words_ok_facts bs cs : words_ok bs cs ->
  Forall (fun w => length w = 63) (map pad63 cs) /\ 63 * length cs < length bs + 63 /\ length bs <= 63 * length cs.
Proof.
  intros [[-> ->]|Hch]; [cbn; split; [constructor|lia]|].
  pose proof (chunked_nonempty _ _ _ Hch) as [Hne Hall].
  pose proof (chunked_length _ _ _ Hch) as L.
  assert (Hlast : 1 <= length (last cs []) <= 63).
  { rewrite Forall_forall in Hall. apply Hall. destruct cs; [contradiction|apply last_In_aux]. }
  assert (1 <= length cs) by (destruct cs; [contradiction|cbn; lia]).
  split; [|nia].
  apply Forall_forall. intros w Hin. apply in_map_iff in Hin. destruct Hin as (c & <- & Hc).
  rewrite Forall_forall in Hall. apply pad63_length. now apply Hall.
Qed.

(* ------------------------------------------------------------------ the constructor's result *)
Definition fstate (ws : list word63) : pst := fold_left pure_step ws pst0.

Definition rrr_of (bits : nat) (ws : list word63) : rrr :=
  let width := calc_width bits in
  let st := fstate ws in
  {| rr_word := 8; rr_sel := 64; rr_bits := bits;
     rr_p := seal (fbits width (q_pv st)); rr_c := seal (fbits 6 (q_cv st)); rr_o := seal (q_ob st);
     rr_r := seal (fbits width (q_rv st)); rr_s0 := seal (fbits width (q_s0v st)); rr_s1 := seal (fbits width (q_s1v st)) |}.

Lemma pinv0 : pinv pst0.
Proof. unfold pinv, pst0. cbn. lia. Qed.

Theorem rr_construct_ok bs : rrr_len_ok (length bs) ->
  exists cs, words_ok bs cs /\ rr_construct bs = Ok (rrr_of (length bs) (map pad63 cs)).
Proof.
  intros Hlen. destruct (words_of_bits_closed bs) as (cs & Hok & E). exists cs. split; [exact Hok|].
  unfold rr_construct, construct_from_words. rewrite E.
  destruct (words_ok_facts bs cs Hok) as (Hall & Hb & _).
  change bstate0 with (enc_state (calc_width (length bs)) pst0).
  rewrite (build_loop_ok (length bs) Hlen (map pad63 cs) pst0 Hall pinv0)
    by (cbn [pst0 q_idx]; rewrite map_length; lia).
  cbn [rbind enc_state b_p b_c b_o b_r b_s0 b_s1]. reflexivity.
Qed.

(* ------------------------------------------------------------------ the arrays in closed form *)
Definition olen_of (ws : list word63) : nat := fold_right (fun w a => Lw (count1 w) + a) 0 ws.
Definition rank_of (ws : list word63) : nat := count1 (concat ws).

Lemma olen_of_app a b : olen_of (a ++ b) = olen_of a + olen_of b.
Proof. unfold olen_of. induction a as [|w a IH]; [reflexivity|]. cbn [app fold_right]. rewrite IH. lia. Qed.
Lemma olen_of_one w : olen_of [w] = Lw (count1 w).
Proof. unfold olen_of. cbn. lia. Qed.
Lemma rank_of_app a b : rank_of (a ++ b) = rank_of a + rank_of b.
Proof. unfold rank_of. now rewrite concat_app, count1_app. Qed.
Lemma rank_of_one w : rank_of [w] = count1 w.
Proof. unfold rank_of. cbn [concat]. now rewrite app_nil_r. Qed.

(* one entry per 8 words, holding f of the words before *)
Definition sampled_by (f : list word63 -> nat) (ws : list word63) (pv : list nat) : Prop :=
  length ws <= 8 * length pv /\ 8 * length pv < length ws + 8 /\
  forall j, j < length pv -> nth j pv 0 = f (firstn (8 * j) ws).

Lemma fstate_snoc ws w : fstate (ws ++ [w]) = pure_step (fstate ws) w.
Proof. unfold fstate. now rewrite fold_left_app. Qed.

Lemma sampled_step f ws w pv v : sampled_by f ws pv -> v = f ws ->
  sampled_by f (ws ++ [w]) (if length ws mod 8 =? 0 then pv ++ [v] else pv).
Proof.
  intros (H1 & H2 & H3) Hv. pose proof (Nat.div_mod (length ws) 8 ltac:(lia)) as Hd.
  pose proof (Nat.mod_upper_bound (length ws) 8 ltac:(lia)) as Hm.
  unfold sampled_by. rewrite app_length. cbn [length].
  destruct (Nat.eqb_spec (length ws mod 8) 0) as [E|E].
  - rewrite app_length. cbn [length]. repeat split; try lia.
    intros j Hj. destruct (Nat.eq_dec j (length pv)) as [->|Hne].
    + rewrite nth_middle. rewrite firstn_app. replace (8 * length pv - length ws) with 0 by lia.
      cbn [firstn]. rewrite app_nil_r, firstn_all2 by lia. exact Hv.
    + rewrite app_nth1 by lia. rewrite H3 by lia. f_equal.
      rewrite firstn_app. replace (8 * j - length ws) with 0 by lia. cbn [firstn]. now rewrite app_nil_r.
  - repeat split; try lia. intros j Hj. rewrite H3 by lia. f_equal.
    rewrite firstn_app. replace (8 * j - length ws) with 0 by lia. cbn [firstn]. now rewrite app_nil_r.
Qed.

Lemma fstate_closed ws :
  let st := fstate ws in
  q_idx st = length ws /\ q_olen st = olen_of ws /\ q_rank st = rank_of ws /\
  q_cv st = map (@count1) ws /\ q_ob st = concat (map ofield ws) /\
  sampled_by olen_of ws (q_pv st) /\ sampled_by rank_of ws (q_rv st).
Proof.
  induction ws as [|w ws IH] using rev_ind.
  - cbn. unfold sampled_by. cbn. repeat split; try lia.
  - rewrite fstate_snoc. cbv zeta in IH. destruct IH as (I1 & I2 & I3 & I4 & I5 & I6 & I7).
    cbv zeta. unfold pure_step. cbn [q_idx q_olen q_rank q_cv q_ob q_pv q_rv].
    rewrite I1, I2, I3, I4, I5. rewrite app_length, olen_of_app, olen_of_one, rank_of_app, rank_of_one, !map_app, concat_app.
    cbn [length map concat fold_right]. rewrite ?app_nil_r.
    split; [lia|]. split; [lia|]. split; [lia|]. split; [reflexivity|]. split; [reflexivity|]. split.
    + apply sampled_step; [exact I6|reflexivity].
    + apply sampled_step; [exact I7|reflexivity].
Qed.
