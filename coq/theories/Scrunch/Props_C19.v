(* Props_C19.v — the property theorems for C19 and nothing else.
   C19: "The compressed text index answers every query as the uncompressed text would."

   `answers_as_scan text rb d` (ProofsDoc.v) says of a document d: len and record count are those
   of the text; search returns exactly `occurrences text needle` (the positions found by a plain
   scan, ascending) and count its length, for EVERY needle (absent symbols, needles longer than
   the text and needles crossing record boundaries included); lookup maps every text offset to
   `spec_record_of`; retrieve reproduces every record (`spec_record`) and offset_of its start;
   record numbers past the end are errors.

   The three `.._answers_as_scan_partial` theorems are PARTIAL with respect to the property's
   text, and exactly this is missing from them:
   (a) suffix sorting: the model's `suffix_array` is a specification sorter (insertion sort of the
       suffixes), not sais.rs; C19_suffix_array_unique shows any sorted permutation of the
       suffixes is that array, and the check compares sais.rs's output with it on every text;
   (b) the Huffman code book (encoder.rs HuffmanEncoder: code lengths, canonical codes, the
       32-bit fallback) is not modelled; the wavelet trees inside WaveletTreePsi are used through
       their list interface (wt_access / wt_rank_q / wt_select_q), which the prefix-tree theorems
       below meet for every encoder that is a prefix-free injection on the row's symbols with
       non-empty code words (a one-symbol row, where a Huffman book could have an empty code
       word, is covered by the `wt|huff` correspondence cases only);
   (c) bytes: no theorem mentions a byte.  The clause "serialising and re-parsing changes
       nothing" of the property is CORRESPONDENCE ONLY: the models hold the values the parsers
       return (a bit array is its bit list, a sparse node its slices, a SampledArray its presence
       vector and value list, a document its parts), and the harness queries every structure only
       after building it into bytes and parsing those bytes back (documents additionally parsed
       again from a copy of the bytes at another offset, section D of a doc case), at every index; the
       byte-at-a-time loops of BitArray::{load, push_word}, FixedWidthIterator, the varint node
       headers of sparse.rs and the protobuf framing are not transcribed;
   (d) inside the document functions the sigma columns, the sampled arrays' presence vectors and
       y_key are plain lists read through bv_access / bv_rank / bv_select (proved equal to what
       the sparse B-tree computes, but not re-instantiated; see .._structural_partial).

   What is proved for all inputs: the search logic (Sigma, backward search over psi, the
   WaveletTreePsi table with its streaming constructor and its lookup / lower_bound /
   upper_bound / constrain, locate through the sampled suffix array, extract through the sampled
   inverse suffix array + psi, record lookup through rank/select), for the executable models of
   Model.v / ModelWT.v.
   What is by interface (compared by the correspondence check, not proved): SA-IS (any sorted
   permutation of the suffixes is THE suffix array, C19_suffix_array_unique), the Huffman code
   book, the byte-level serialisation.  The two bit-vector encodings CompressedDocument uses are
   proved (round 2): the sparse B-tree of sparse.rs (ModelSparse.v) and the RRR vector of rrr.rs
   (ModelRRR.v: classes, offsets through the binomial table, p / r superblock samples, s0 / s1
   select samples, u63::select_word) construct without panicking and answer access / rank /
   select / select0 (and the inherited rank0 / select0 of the sparse vector) exactly as the plain
   bit list, for every bit pattern (the C19_sparse_.. and C19_rrr_.. theorems); they are put under the record
   boundaries of the document and under every node of the prefix wavelet tree
   (C19_compressed_document_answers_as_scan_structural_partial, C19_prefix_wavelet_tree_over_rrr).
   Inside the document model the other sparse vectors (sigma's columns, the presence vectors of
   the two sampled arrays, y_key) stay plain lists read through bv_access / bv_rank / bv_select,
   which the same universal theorems show the B-tree computes.  The prefix wavelet
   tree is proved separately over bit vectors by interface (the C19_prefix_wavelet_tree theorems); the
   WaveletTreePsi theorems use a wavelet tree through its list interface.  Texts must pass
   check_record_boundaries (non-empty text, first record at 0, strictly increasing starts, last
   record non-empty): both ReferenceDocument::construct and CompressedDocument::construct
   refuse everything else (C19_invalid_divisions_refused_alike). *)
From Coq Require Import Arith NArith List Bool Sorted.
From Blue Require Import Scrunch.ModelBits Scrunch.Model Scrunch.ModelWT Scrunch.ProofsBits
  Scrunch.ProofsSorted Scrunch.ProofsSuffix Scrunch.ProofsIAP Scrunch.ProofsSearch Scrunch.ProofsSigma
  Scrunch.ProofsDoc Scrunch.ProofsSampled Scrunch.ProofsCompressed Scrunch.ProofsWT1 Scrunch.ProofsWT2
  Scrunch.ProofsWT3 Scrunch.ProofsWT4 Scrunch.ModelPrefixWT Scrunch.ProofsPrefixWT
  Scrunch.ModelSparse Scrunch.ModelRRR Scrunch.ModelPrefixRRR Scrunch.ProofsSparse4 Scrunch.ProofsSparse5
  Scrunch.ProofsRRR1 Scrunch.ProofsRRR2 Scrunch.ProofsRRR4 Scrunch.ProofsRRR6 Scrunch.ProofsStructural.
Import ListNotations.
Local Open Scope nat_scope.

(* The compressed document (sampled suffix array + sampled inverse suffix array + wavelet-tree
   psi) answers every query as a plain scan of the original text, for every text, alphabet,
   record division and needle.  _partial: modulo (a) SA-IS, (b) the Huffman book / list-interface
   wavelet trees, (c) the byte layer and (d) the list-held sparse vectors, as listed in the header. *)
Theorem C19_compressed_document_answers_as_scan_partial : forall text rb,
  check_record_boundaries text rb = true ->
  exists d, construct_compressed text rb = Ok d /\ answers_as_scan text rb d.
Proof. exact compressed_doc_correct. Qed.

(* The same for the PsiDocument over the reference (uncompressed) suffix array, inverse suffix
   array and psi: backward search itself is right. *)
Theorem C19_reference_psi_document_answers_as_scan_partial : forall text rb,
  check_record_boundaries text rb = true ->
  exists d, construct_reference_psi_doc text rb = Ok d /\ answers_as_scan text rb d.
Proof. exact reference_psi_doc_correct. Qed.

(* ... and over the reference suffix arrays with the wavelet-tree psi. *)
Theorem C19_wavelet_psi_document_answers_as_scan_partial : forall text rb,
  check_record_boundaries text rb = true ->
  exists d, construct_wavelet_doc text rb = Ok d /\ answers_as_scan text rb d.
Proof. exact wavelet_doc_correct. Qed.

(* The wavelet-tree representation of psi (context rows, one wavelet tree per row, cells located
   through y_key / y_value) built by the streaming constructor meets the Psi interface: lookup
   returns psi[idx] and constrain returns exactly the sub-range of a symbol's bucket whose
   successors fall into the target range. *)
Theorem C19_wavelet_psi_meets_the_psi_interface : forall text,
  let T := sigma_string text in
  let sa := suffix_array T in
  let psi := psi_of sa (inverse sa) in
  exists w, wpsi_construct (the_sigma text) psi = Ok w /\
            psi_ok T sa psi (length text) (wpsi_ops (the_sigma text) w).
Proof. exact wavelet_psi_ok_all. Qed.

(* ReferenceDocument (windows / partition_point over the stored text) is the plain scan. *)
Theorem C19_reference_document_is_the_scan : forall text rb,
  check_record_boundaries text rb = true ->
  exists r, construct_refdoc text rb = Ok r /\
    (forall needle, ref_search r needle = occurrences text needle /\
                    ref_count r needle = length (occurrences text needle)) /\
    (forall off, off < length text -> ref_lookup r off = Ok (spec_record_of rb off)) /\
    (forall k, k < length rb -> ref_retrieve r k = Ok (spec_record text rb k) /\
                                ref_offset_of r k = Ok (nth k rb 0)) /\
    (forall k, length rb <= k -> ref_retrieve r k = Err /\ ref_offset_of r k = Err).
Proof. exact refdoc_correct. Qed.

(* Divisions that are not valid are refused by both constructors, alike (the empty text has
   no valid division). *)
Theorem C19_invalid_divisions_refused_alike : forall text rb,
  check_record_boundaries text rb = false ->
  construct_compressed text rb = Err /\ construct_reference_psi_doc text rb = Err /\
  construct_refdoc text rb = Err.
Proof. exact invalid_refused. Qed.

Theorem C19_empty_text_has_no_valid_division : forall rb, check_record_boundaries [] rb = false.
Proof. exact empty_text_refused. Qed.

(* The wavelet tree over prefix-free code words (wavelet_tree/prefix.rs: one bit vector per node,
   recursive access / rank / select) answers as the plain symbol list, for every encoder that
   knows the symbols of the text and decodes its own code words, whenever the constructor
   succeeds; it succeeds for every prefix-free code book. *)
Theorem C19_prefix_wavelet_tree_answers_as_the_symbol_list :
  forall enc dec cf text, (forall s, In s text -> enc s = Some (cf s) /\ dec (cf s) = Some s) ->
  forall fuel t, pt_build enc fuel text = Ok t ->
    (forall x, x < length text -> pt_access dec t x = wt_access text x) /\
    (forall q, In q text -> forall x, x <= length text -> pt_rank_q enc t q x = wt_rank_q text q x) /\
    (forall q, In q text -> forall k, pt_select_q enc t q k = wt_select_q text q k).
Proof. exact prefix_wt_correct. Qed.

(* The hypothesis `cf s <> []` is essential (construct_recursive refuses an empty code word) and is
   NOT established for the Huffman book here: for a one-symbol row (an all-equal text) the book has
   one symbol and no theorem says its code word is non-empty; that case is covered by the
   `wt|huff` correspondence cases (single-symbol strings) only.  For the fixed-width encoder the
   width is at least 1 and C19_fixed_width_wavelet_tree closes the chain. *)
Theorem C19_prefix_wavelet_tree_constructs_for_prefix_free_codes :
  forall enc dec cf text, (forall s, In s text -> enc s = Some (cf s) /\ dec (cf s) = Some s) ->
  forall fuel, (forall s, In s text -> cf s <> []) ->
  prefix_free (map cf text) -> max_len (map cf text) < fuel ->
  exists t, pt_build enc fuel text = Ok t.
Proof. exact prefix_wt_constructs. Qed.

(* With the fixed-width encoder (encoder.rs FixedWidthEncoder) the chain is closed: the tree is
   built and answers as the list, for every symbol string. *)
Theorem C19_fixed_width_wavelet_tree : forall text, exists t,
  fw_tree text = Ok (t, fw_chars text) /\
  (forall x, x < length text -> pt_access (fw_dec (fw_chars text)) t x = wt_access text x) /\
  (forall q, In q text -> forall x, x <= length text ->
     pt_rank_q (fw_enc (fw_chars text)) t q x = wt_rank_q text q x) /\
  (forall q, In q text -> forall k, pt_select_q (fw_enc (fw_chars text)) t q k = wt_select_q text q k).
Proof. exact fixed_width_tree_correct. Qed.

(* The specification is the plain scan: `occurrences` lists, in ascending order, exactly the
   positions at which the needle is read off the text; `spec_record_of` is the record whose
   start is the last one not after the offset. *)
Theorem C19_specification_is_the_plain_scan : forall text needle,
  StronglySorted lt (occurrences text needle) /\
  forall p, In p (occurrences text needle) <->
            p < length text /\ firstn (length needle) (skipn p text) = needle.
Proof. intros text needle. exact (conj (occurrences_ascending text needle) (occurrences_spec text needle)). Qed.

Theorem C19_specification_record_of_offset : forall n rb off, valid_boundaries n rb -> off < n ->
  let r := spec_record_of rb off in
  r < length rb /\ nth r rb 0 <= off /\ (forall r', r < r' -> r' < length rb -> off < nth r' rb 0).
Proof. exact spec_record_of_spec. Qed.

(* lib.rs inverse_and_psi_u32 (one pass, sentinel-initialised isa, uninitialised psi) never reads
   an unwritten slot and computes the inverse permutation and psi[i] = isa[sa[i] + 1 (mod len)],
   for every permutation. *)
Theorem C19_inverse_and_psi_one_pass : forall sa, NoDup sa -> Forall (fun v => v < length sa) sa ->
  0 < length sa -> inverse_and_psi sa = Ok (inverse sa, psi_of sa (inverse sa)).
Proof. exact inverse_and_psi_ok. Qed.

(* SA-IS by interface: a sorted permutation of the suffixes is unique, so any correct suffix
   sorter computes the array the theorems above are about. *)
Theorem C19_suffix_array_unique : forall T sa, is_suffix_array T sa -> sa = suffix_array T.
Proof. exact suffix_array_unique. Qed.

Theorem C19_suffix_array_sorted : forall T, is_suffix_array T (suffix_array T).
Proof. exact suffix_array_ok. Qed.

(* Bit vectors: rank and select over the plain bit array are mutually inverse, select is
   defined exactly up to the number of set bits, and the binary-search defaults of the trait
   (`select`, `rank0`, `select0`, inherited by the sparse vector) compute the same answers. *)
Theorem C19_rank_select_spec : forall b,
  (forall k p, bv_select b k = Some p -> bv_rank b p = Some k) /\
  (forall k, (exists p, bv_select b k = Some p) <-> k <= count1 b) /\
  (forall k p, 0 < k -> bv_select b k = Some p -> 0 < p /\ bv_access b (p - 1) = Some true) /\
  (forall i, bv_access b i = Some true -> bv_select b (count1 (firstn (S i) b)) = Some (S i)) /\
  (forall x, bv_rank b x = if x <=? length b then Some (count1 (firstn x b)) else None).
Proof.
  intros b.
  exact (conj (bv_select_rank b) (conj (bv_select_defined b) (conj (bv_select_bit b)
        (conj (bv_select_of_rank b) (fun x => eq_refl))))).
Qed.

Theorem C19_trait_defaults_equal_spec : forall b k,
  default_select (length b) (bv_rank b) k = Ok (bv_select b k) /\
  default_select0 (length b) (bv_rank b) k = Ok (bv_select0 b k).
Proof. intros b k. exact (conj (default_select_correct b k) (default_select0_correct b k)). Qed.

(* A bit vector built from a strictly increasing index list (sparse::BitVector::from_indices):
   rank counts the indices below, select returns the k-th index + 1. *)
Theorem C19_from_indices_rank_select : forall len idx, sinc idx -> Forall (fun i => i < len) idx ->
  (forall x, x <= len -> bv_rank (bits_of_indices len idx) x = Some (count_lt idx x)) /\
  (forall k, 0 < k -> k <= length idx -> bv_select (bits_of_indices len idx) k = Some (S (nth (k - 1) idx 0))) /\
  (forall k, length idx < k -> bv_select (bits_of_indices len idx) k = None).
Proof.
  intros len idx Hs Hb.
  exact (conj (rank_of_indices len idx Hs) (conj (select_of_indices len idx Hs Hb) (select_of_indices_none len idx Hs Hb))).
Qed.

(* ---- round 2: the bit-vector encodings themselves ---- *)

(* sparse.rs: BitVector::from_indices builds, for every call it accepts (4 <= branch < 256, strictly
   increasing indices below len; `from_indices` of ModelBits.v is that acceptance test and the
   bit list meant), a B-tree of leaves and internal nodes whose access / rank / select — and the
   rank0 / select0 it inherits from the trait — are those of the plain bit list, at every
   argument.  `sparse_answers v b`: sv_length, sv_access, sv_rank, sv_select, default_rank0 and
   default_select0 over sv_rank all equal the list functions of b. *)
Theorem C19_sparse_from_indices_is_the_bit_list : forall branch len idx b,
  from_indices branch len idx = Some b ->
  exists v, sv_from_indices branch len idx = Some v /\ sparse_answers v b.
Proof. exact sparse_from_indices_answers. Qed.

(* from_indices refuses whatever the specification refuses (branch outside [4, 256), indices not
   strictly increasing, an index at or beyond len): with the theorem above, the two accept alike *)
Theorem C19_sparse_from_indices_refuses_alike : forall branch len idx,
  from_indices branch len idx = None -> sv_from_indices branch len idx = None.
Proof. exact sparse_refuses_alike. Qed.

(* ... and BitVector::construct(bits) (the indices of the set bits, branch 16), for EVERY bit list *)
Theorem C19_sparse_construct_is_the_bit_list : forall b,
  exists v, sv_construct b = Some v /\ sparse_answers v b.
Proof. exact sparse_construct_answers. Qed.

(* rrr.rs: decode inverts encode on every 63-bit word, and the offset fits the width L gives the
   word's class (so Builder::push_word's assertion holds) *)
Theorem C19_rrr_decode_inverts_encode : forall w, length w = 63 ->
  exists o, ModelRRR.encode w = Ok (o, count1 w) /\ ModelRRR.decode o (count1 w) = Some w /\
            (o < 2 ^ N.of_nat (nth (count1 w) L_table 0%nat))%N.
Proof.
  intros w Hw. exists (enc_o w).
  exact (conj (encode_spec w Hw) (conj (decode_encode w Hw) (enc_o_fits w Hw))).
Qed.

(* u63::select_word (halving by popcounts) is select on the bits of the word *)
Theorem C19_rrr_select_word : forall word x, length word <= 64 -> select_word word x = bv_select word x.
Proof. exact select_word_spec. Qed.

(* rrr::BitVector::construct never panics (every p / r / s0 / s1 / c / o entry fits the width it
   is pushed with) and the vector answers access, access_rank, rank, select and select0 as the
   plain bit list, at every argument, for every bit list shorter than 2^62 bits
   (`rrr_len_ok n` is log2_up (n + 1) <= 62: the widths must stay below 64). *)
Theorem C19_rrr_bit_vector_is_the_bit_list : forall b, rrr_len_ok (length b) ->
  exists v, rr_construct b = Ok v /\ rrr_answers v b.
Proof. exact rrr_is_the_bit_list. Qed.

Theorem C19_rrr_length_bound : forall n, rrr_len_ok n <-> n + 1 <= 2 ^ 62.
Proof. intros n. unfold rrr_len_ok. symmetry. apply Nat.log2_up_le_pow2. apply Nat.lt_0_succ || (rewrite Nat.add_1_r; apply Nat.lt_0_succ). Qed.

(* the prefix wavelet tree as CompressedDocument stores it — every node an rrr vector — answers
   as the plain symbol list *)
Theorem C19_prefix_wavelet_tree_over_rrr :
  forall enc dec cf text, (forall s, In s text -> enc s = Some (cf s) /\ dec (cf s) = Some s) ->
  rrr_len_ok (length text) ->
  forall fuel t, pt_build enc fuel text = Ok t ->
  exists rt, rt_build enc fuel text = Ok rt /\
    (forall x, x < length text -> rt_access dec rt x = Ok (wt_access text x)) /\
    (forall q, In q text -> forall x, x <= length text -> rt_rank_q enc rt q x = Ok (wt_rank_q text q x)) /\
    (forall q, In q text -> forall k, rt_select_q enc rt q k = Ok (wt_select_q text q k)).
Proof.
  intros enc dec cf text Hcf Hlen fuel t Hb.
  destruct (rt_build_correct enc dec fuel text t Hlen Hb) as (rt & E & A & R & S).
  destruct (prefix_wt_correct enc dec cf text Hcf fuel t Hb) as (PA & PR & PS).
  exists rt. split; [exact E|]. split; [|split].
  - intros x Hx. rewrite A. f_equal. now apply PA.
  - intros q Hq x Hx. rewrite R. f_equal. now apply PR.
  - intros q Hq k. rewrite S. f_equal. now apply PS.
Qed.

(* The central theorem with the sparse B-tree put under the record boundaries: the vector
   CompressedDocument::construct builds with from_indices(16, text.len(), boundaries[1..] - 1)
   exists, answers as the list the document model holds, and records / lookup / offset_of run on
   it (sdoc_*: rank / select on the B-tree) answer as the scan.
   _partial: the gap is the other sparse vectors inside the document model (sigma's columns, the
   presence vectors of the sampled suffix arrays, y_key) and the wavelet trees of WaveletTreePsi,
   which the model keeps as plain lists / list-interface trees; every one of them is a bit list
   read only through bv_access / bv_rank / bv_select / bv_select0, which
   C19_sparse_from_indices_is_the_bit_list and C19_prefix_wavelet_tree_over_rrr prove equal to the
   encoded vectors' answers, but the document functions are not re-instantiated over them. *)
Theorem C19_compressed_document_answers_as_scan_structural_partial : forall text rb,
  check_record_boundaries text rb = true ->
  exists d, construct_compressed text rb = Ok d /\ answers_as_scan text rb d /\
    exists v, sv_from_indices 16 (length text) (map (fun b => b - 1) (tl rb)) = Some v /\
      sparse_answers v (d_rb d) /\
      sdoc_records v = Ok (length rb) /\
      (forall off, off < length text -> sdoc_lookup v off = Ok (spec_record_of rb off)) /\
      (forall r, r < length rb -> sdoc_offset_of v r = Ok (nth r rb 0)) /\
      (forall r, length rb <= r -> sdoc_offset_of v r = Err).
Proof. exact compressed_doc_structural. Qed.


(* the context size the model of WaveletTreePsi is written for is the one in the source
   (re-extracted on every run into Gen/Const_Scrunch.v) *)
Example context_size_is_two : CTX_SZ_is_two = true.
Proof. reflexivity. Qed.

(* ---- non-vacuity: concrete, non-trivial objects satisfy the hypotheses ---- *)
Definition banana : list N := [66; 65; 78; 65; 78; 65]%N.

Example banana_valid : check_record_boundaries banana [0; 3] = true.
Proof. reflexivity. Qed.

Example banana_compressed :
  exists d, construct_compressed banana [0; 3] = Ok d /\
    doc_search d [65; 78]%N = Ok [1; 3] /\ doc_count d [78; 65]%N = Ok 2 /\
    doc_lookup d 4 = Ok 1 /\ doc_retrieve d 1 = Ok [65; 78; 65]%N /\ doc_search d [67]%N = Ok [].
Proof.
  destruct (C19_compressed_document_answers_as_scan_partial banana [0; 3] banana_valid) as (d & C & A).
  exists d. split; [exact C|]. destruct A as (_ & _ & S & Cn & L & R & _).
  rewrite (S [65; 78]%N), (Cn [78; 65]%N), (L 4 ltac:(cbn; auto with arith)), (R 1 ltac:(cbn; auto)), (S [67]%N).
  repeat split; reflexivity.
Qed.

Example banana_bits : list bool := [true; false; false; true; true; false; true].

Example banana_sparse :
  exists v, sv_construct banana_bits = Some v /\ sv_rank v 5 = Ok (Some 3) /\ sv_select v 3 = Some 5.
Proof.
  destruct (C19_sparse_construct_is_the_bit_list banana_bits) as (v & C & (_ & _ & R & S & _)).
  exists v. split; [exact C|]. rewrite R, S. split; reflexivity.
Qed.

Example banana_rrr :
  exists v, rr_construct banana_bits = Ok v /\ rr_rank v 5 = Ok (Some 3) /\ rr_select0 v 2 = Ok (Some 3).
Proof.
  destruct (C19_rrr_bit_vector_is_the_bit_list banana_bits) as (v & C & (_ & _ & R & _ & S0)).
  - unfold rrr_len_ok. apply Nat.leb_le. reflexivity.
  - exists v. split; [exact C|]. rewrite R, S0. split; reflexivity.
Qed.
