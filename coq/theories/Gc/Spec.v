(* Gc/Spec.v — what a garbage-collection policy allows, stated without cursors, determiner state,
   key tracking or tombstone buffers.  Definitions only.

   A key's versions are its entries newest first.  A *version group* is a value together with the
   tombstone directly above it, if any (the doc comment of GarbageCollectionPolicy::Versions: "a
   non-tombstone value" or "the oldest tombstone in a sequence of tombstones" each count as one
   version, so a value under a tombstone weighs 2, a bare value 1).  A policy is a predicate on
   (weight of the groups down to and including this one, timestamp of the group's value). *)
From Coq Require Import NArith PArith List Bool.
From Blue Require Import Gc.Model.
Import ListNotations.
Open Scope N_scope.

(* does policy p retain a group whose cumulative weight is w and whose value has timestamp ts *)
Fixpoint sat (p : policy) (now w ts : N) : bool :=
  match p with
  | PVersions n => w <=? Npos n
  | PExpires m => (now - Npos m) <=? ts
  | PAny ps => existsb (fun q => sat q now w ts) ps
  | PAll ps => forallb (fun q => sat q now w ts) ps
  end.

(* retained_spec for one key: [vs] = the versions of the key newest first, [w] = weight of the
   groups above.
   - a value not under a tombstone is a group of weight 1;
   - a tombstone directly above a value forms with it a group of weight 2, kept or dropped whole;
   - a tombstone above another tombstone, or above nothing, is dropped. *)
Fixpoint spec_key (p : policy) (now w : N) (vs : list entry) {struct vs} : list entry :=
  match vs with
  | [] => []
  | e :: vs' =>
      if is_value e then
        (if sat p now (w + 1) (ets e) then [e] else []) ++ spec_key p now (w + 1) vs'
      else
        match vs' with
        | [] => []
        | e' :: vs'' =>
            if is_value e' then
              (if sat p now (w + 2) (ets e') then [e; e'] else []) ++ spec_key p now (w + 2) vs''
            else spec_key p now w vs'
        end
  end.

(* The same thing said position by position, without recursion over the result (Proofs_Index.v
   proves the two readings equal): the weight of the version groups closed within a list ... *)
Fixpoint total_weight (under : bool) (vs : list entry) : N :=
  match vs with
  | [] => 0
  | e :: vs' =>
      if is_value e then (if under then 2 else 1) + total_weight false vs'
      else total_weight true vs'
  end.

(* ... the weight accumulated down to and including position i of a key's versions ... *)
Definition weight_upto (vs : list entry) (i : nat) : N := total_weight false (firstn (S i) vs).

(* ... and: the entry at position i is retained iff it is a value whose cumulative weight and
   timestamp satisfy the policy, or a tombstone directly above such a value *)
Definition keeps (p : policy) (now : N) (vs : list entry) (i : nat) : bool :=
  match nth_error vs i with
  | None => false
  | Some e =>
      if is_value e then sat p now (weight_upto vs i) (ets e)
      else match nth_error vs (S i) with
           | Some e' => is_value e' && sat p now (weight_upto vs (S i)) (ets e')
           | None => false
           end
  end.

Definition spec_key_idx (p : policy) (now : N) (vs : list entry) : list entry :=
  map snd (filter (fun ie => keeps p now vs (fst ie)) (combine (seq 0 (length vs)) vs)).

(* the keys of a list of entries, in order of first appearance *)
Fixpoint keys (es : list entry) : list key :=
  match es with
  | [] => []
  | e :: es' => ekey e :: filter (fun k => negb (key_eqb k (ekey e))) (keys es')
  end.

Definition kfilter (k : key) (es : list entry) : list entry :=
  filter (fun e => key_eqb (ekey e) k) es.

(* retained_spec for a whole input: key by key *)
Definition gc_spec (p : policy) (now : N) (es : list entry) : list entry :=
  flat_map (fun k => spec_key p now 0 (kfilter k es)) (keys es).

(* what a reader of the present sees for a key whose versions (newest first) are vs:
   the newest entry decides; a tombstone or no entry at all both read as absent *)
Definition current (vs : list entry) : option (list N) :=
  match vs with
  | e :: _ => evalue e
  | [] => None
  end.

Definition visible (es : list entry) (k : key) : option (list N) := current (kfilter k es).

(* what a reader at snapshot timestamp t sees *)
Definition visible_at (es : list entry) (k : key) (t : N) : option (list N) :=
  current (filter (fun e => ets e <=? t) (kfilter k es)).

(* Reading by timestamp rather than by position: the entry a point read of key k finds among a
   bag of entries is the one with the largest timestamp (the first such, if several) *)
Fixpoint newest (k : key) (l : list entry) : option entry :=
  match l with
  | [] => None
  | e :: l' =>
      if key_eqb (ekey e) k then
        match newest k l' with
        | Some e' => if ets e <? ets e' then Some e' else Some e
        | None => Some e
        end
      else newest k l'
  end.

Definition read (l : list entry) (k : key) : option (list N) :=
  match newest k l with Some e => evalue e | None => None end.

(* the precondition under which a GC of the inputs [es] cannot change what key k reads in a tree
   whose other entries are [rest]: every version of k outside the inputs is newer than every
   version inside.  A compaction into the LAST level whose inputs are closed under overlap has it
   (nothing lies below the last level; Bridge_Lsm.v derives it from area Lsm's tree invariant
   Ordered and the admissibility predicate valid_compactionb). *)
Definition inputs_closed_for (rest es : list entry) (k : key) : Prop :=
  forall x y, In x rest -> In y es -> ekey x = k -> ekey y = k -> ets y < ets x.

(* input shapes *)
(* equal keys are adjacent: once a key has been left it does not come back *)
Fixpoint contiguous (es : list entry) : Prop :=
  match es with
  | [] => True
  | e :: es' =>
      contiguous es' /\
      match es' with
      | [] => True
      | e' :: _ => ekey e' = ekey e \/ ~ In (ekey e) (map ekey es')
      end
  end.

(* strictly increasing in the KeyRef order (what a merge of SSTs with distinct (key, timestamp)
   pairs yields) *)
Fixpoint sorted (es : list entry) : Prop :=
  match es with
  | [] => True
  | e :: es' =>
      sorted es' /\ match es' with [] => True | e' :: _ => keyref_cmp (kr e) (kr e') = Lt end
  end.

(* non-decreasing in the KeyRef order: several entries may share (key, timestamp) *)
Fixpoint wsorted (es : list entry) : Prop :=
  match es with
  | [] => True
  | e :: es' =>
      wsorted es' /\ match es' with [] => True | e' :: _ => keyref_cmp (kr e) (kr e') <> Gt end
  end.

(* the entries of [es] that are not in the sub-list [rs] (both in the order of [es]) *)
Fixpoint minus (cmpb : entry -> entry -> bool) (es rs : list entry) : list entry :=
  match es with
  | [] => []
  | e :: es' =>
      match rs with
      | r :: rs' => if cmpb r e then minus cmpb es' rs' else e :: minus cmpb es' rs
      | [] => e :: minus cmpb es' []
      end
  end.

Definition same_kr (a b : entry) : bool :=
  match keyref_cmp (kr a) (kr b) with Eq => true | _ => false end.

(* the entries the policy lets a GC drop *)
Definition gc_dropped (p : policy) (now : N) (es : list entry) : list entry :=
  minus same_kr es (gc_spec p now es).

(* policies that retain at least a key's sole newest version when evaluated as lsmtk does
   (now = 0); `any()` and the like fail this *)
Definition keeps_newest (p : policy) : bool := sat p 0 1 0.
