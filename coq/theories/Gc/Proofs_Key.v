(* Gc/Proofs_Key.v — [u8]::cmp (lex_cmp) and the KeyRef order are decidable strict total orders *)
From Coq Require Import NArith PArith List Bool Lia.
From Blue Require Import Gc.Model.
Import ListNotations.
Open Scope N_scope.

Lemma lex_cmp_refl a : lex_cmp a a = Eq.
Proof. induction a as [|x a IH]; cbn; [reflexivity|]. now rewrite N.compare_refl. Qed.

Lemma lex_cmp_eq a b : lex_cmp a b = Eq -> a = b.
Proof.
  revert b; induction a as [|x a IH]; intros [|y b]; cbn; try discriminate; [reflexivity|].
  destruct (N.compare x y) eqn:E; try discriminate.
  apply N.compare_eq in E. intros H. f_equal; [exact E|now apply IH].
Qed.

Lemma lex_cmp_antisym a b : lex_cmp b a = CompOpp (lex_cmp a b).
Proof.
  revert b; induction a as [|x a IH]; intros [|y b]; cbn; try reflexivity.
  rewrite (N.compare_antisym x y). destruct (N.compare x y); cbn; auto.
Qed.

Lemma lex_cmp_lt_trans a b c : lex_cmp a b = Lt -> lex_cmp b c = Lt -> lex_cmp a c = Lt.
Proof.
  revert b c; induction a as [|x a IH]; intros [|y b] [|z c]; cbn; try discriminate; try reflexivity.
  destruct (N.compare x y) eqn:E1; destruct (N.compare y z) eqn:E2; try discriminate; intros H1 H2.
  - apply N.compare_eq in E1, E2. subst. rewrite N.compare_refl. eapply IH; eauto.
  - apply N.compare_eq in E1. subst. now rewrite E2.
  - apply N.compare_eq in E2. subst. now rewrite E1.
  - rewrite N.compare_lt_iff in *. assert (x < z) by lia. rewrite <- N.compare_lt_iff in H. now rewrite H.
Qed.

Lemma key_eqb_refl k : key_eqb k k = true.
Proof. unfold key_eqb. now rewrite lex_cmp_refl. Qed.

Lemma key_eqb_eq a b : key_eqb a b = true <-> a = b.
Proof.
  unfold key_eqb. split.
  - destruct (lex_cmp a b) eqn:E; try discriminate. intros _. now apply lex_cmp_eq.
  - intros ->. now rewrite lex_cmp_refl.
Qed.

Lemma key_eqb_neq a b : key_eqb a b = false <-> a <> b.
Proof.
  split.
  - intros H E. apply key_eqb_eq in E. congruence.
  - intros H. destruct (key_eqb a b) eqn:E; [|reflexivity]. apply key_eqb_eq in E. contradiction.
Qed.

Lemma key_eqb_sym a b : key_eqb a b = key_eqb b a.
Proof. unfold key_eqb. rewrite (lex_cmp_antisym a b). destruct (lex_cmp a b); reflexivity. Qed.

Lemma key_eq_dec (a b : key) : {a = b} + {a <> b}.
Proof.
  destruct (key_eqb a b) eqn:E; [left; now apply key_eqb_eq | right; now apply key_eqb_neq].
Qed.

(* ---- KeyRef order ---- *)
Lemma keyref_cmp_refl a : keyref_cmp a a = Eq.
Proof. unfold keyref_cmp. now rewrite lex_cmp_refl, N.compare_refl. Qed.

Lemma keyref_cmp_eq a b : keyref_cmp a b = Eq -> a = b.
Proof.
  destruct a as [ka ta], b as [kb tb]. unfold keyref_cmp; cbn [fst snd].
  destruct (lex_cmp ka kb) eqn:E; try discriminate.
  apply lex_cmp_eq in E. subst.
  destruct (N.compare ta tb) eqn:E2; cbn; try discriminate.
  apply N.compare_eq in E2. now subst.
Qed.

Lemma keyref_cmp_antisym a b : keyref_cmp b a = CompOpp (keyref_cmp a b).
Proof.
  destruct a as [ka ta], b as [kb tb]. unfold keyref_cmp; cbn [fst snd].
  rewrite (lex_cmp_antisym ka kb). destruct (lex_cmp ka kb); cbn; try reflexivity.
  rewrite (N.compare_antisym ta tb). reflexivity.
Qed.

Lemma keyref_cmp_lt_trans a b c :
  keyref_cmp a b = Lt -> keyref_cmp b c = Lt -> keyref_cmp a c = Lt.
Proof.
  destruct a as [ka ta], b as [kb tb], c as [kc tc]. unfold keyref_cmp; cbn [fst snd].
  destruct (lex_cmp ka kb) eqn:E1; destruct (lex_cmp kb kc) eqn:E2; try discriminate.
  - apply lex_cmp_eq in E1, E2. subst. rewrite lex_cmp_refl.
    destruct (N.compare ta tb) eqn:C1; cbn; try discriminate.
    destruct (N.compare tb tc) eqn:C2; cbn; try discriminate. intros _ _.
    rewrite N.compare_gt_iff in *. assert (tc < ta) by lia.
    rewrite <- N.compare_gt_iff in H. now rewrite H.
  - apply lex_cmp_eq in E1. subst. now rewrite E2.
  - apply lex_cmp_eq in E2. subst. now rewrite E1.
  - now rewrite (lex_cmp_lt_trans _ _ _ E1 E2).
Qed.

Lemma keyref_cmp_gt_lt a b : keyref_cmp a b = Gt <-> keyref_cmp b a = Lt.
Proof. rewrite (keyref_cmp_antisym a b). destruct (keyref_cmp a b); cbn; split; congruence. Qed.
