(* Gc/Proofs_Discard.v — discard = sum of the setsums of the dropped entries; the books of a
   garbage collection balance: input = output + discard. *)
From Coq Require Import NArith List Permutation.
From Blue Require Import Setsum.Model Setsum.Proofs Gc.Model Gc.Spec Gc.Discard
  Gc.Proofs_Key Gc.Proofs_Collect Gc.Proofs_Walk.
Import ListNotations.
Open Scope N_scope.

Section WithHash.
  Variable H : list N -> list N.
  Hypothesis H_ok : forall x, bytes_ok (H x) /\ length (H x) = 32%nat.

  Lemma entry_setsum_insert e : entry_setsum H e = insert H zero (frame e).
  Proof.
    unfold entry_setsum, frame, kv_put, kv_del. destruct (evalue e) as [v|];
      rewrite insert_vectored_concat; cbn [concat app]; now rewrite ?app_nil_r.
  Qed.

  Lemma discard_add_insert s e : canonical s -> discard_add H s e = insert H s (frame e).
  Proof.
    intros Hs. unfold discard_add. rewrite entry_setsum_insert. unfold insert, insert_vectored.
    rewrite add_zero_l by (apply item_canonical; exact H_ok). reflexivity.
  Qed.

  Lemma fold_discard_add es : forall s, canonical s ->
    fold_left (discard_add H) es s = fold_left (insert H) (map frame es) s.
  Proof.
    induction es as [|e es IH]; intros s Hs; cbn [fold_left map]; [reflexivity|].
    rewrite discard_add_insert by exact Hs. apply IH. apply insert_canonical; assumption.
  Qed.

  (* discard handed to compaction_finish = setsum of exactly the entries the policy drops *)
  Theorem gc_walk_setsum_spec p es : sorted es ->
    gc_walk_setsum H p es = WOk (gc_spec p 0 es) (entries_setsum H (gc_dropped p 0 es)).
  Proof.
    intros Hs. unfold gc_walk_setsum. rewrite gc_walk_spec by exact Hs.
    rewrite fold_discard_add by apply zero_canonical. reflexivity.
  Qed.

  (* compaction_finish's check `input_setsum == output_setsum + discard_setsum` holds *)
  Theorem gc_books_balance p es : sorted es ->
    entries_setsum H es
    = add_state (entries_setsum H (gc_spec p 0 es)) (entries_setsum H (gc_dropped p 0 es)).
  Proof.
    intros Hs. unfold entries_setsum. rewrite <- (setsum_union H H_ok), <- map_app.
    unfold setsum_of. apply (fold_insert_perm H H_ok); [|apply zero_canonical].
    apply Permutation_map. now apply gc_partition.
  Qed.
End WithHash.
