(* Gc/Proofs_Walk.v — the lock-step walk of perform_garbage_collection: on a strictly sorted
   merged input it never takes the `gc iterator out of sync` branch, writes exactly gc_spec and
   feeds exactly the other entries to the discard accumulator. *)
From Coq Require Import NArith PArith List Bool Lia Permutation.
From Blue Require Import Gc.Model Gc.Spec Gc.Proofs_Key Gc.Proofs_Det Gc.Proofs_Collect.
Import ListNotations.
Open Scope N_scope.

(* ------------------------------------------------------------ sub-sequences *)
Inductive sublist {A} : list A -> list A -> Prop :=
| sl_nil l : sublist [] l
| sl_keep x l1 l2 : sublist l1 l2 -> sublist (x :: l1) (x :: l2)
| sl_skip x l1 l2 : sublist l1 l2 -> sublist l1 (x :: l2).

Lemma sublist_refl {A} (l : list A) : sublist l l.
Proof. induction l; constructor; auto. Qed.

Lemma sublist_app {A} (a1 a2 b1 b2 : list A) :
  sublist a1 a2 -> sublist b1 b2 -> sublist (a1 ++ b1) (a2 ++ b2).
Proof.
  induction 1 as [l|x l1 l2 _ IH|x l1 l2 _ IH]; intros Hb; cbn [app].
  - induction l as [|y l IHl]; cbn [app]; [exact Hb|constructor; exact IHl].
  - constructor. auto.
  - constructor. auto.
Qed.

Lemma sublist_in {A} (a b : list A) x : sublist a b -> In x a -> In x b.
Proof.
  induction 1 as [l|y l1 l2 _ IH|y l1 l2 _ IH]; cbn [In]; intros H; [contradiction| |].
  - destruct H; auto.
  - auto.
Qed.

Lemma sublist_cons_l {A} (x : A) a b : sublist (x :: a) b -> sublist a b.
Proof.
  remember (x :: a) as xa eqn:E. induction 1 as [l|y l1 l2 H IH|y l1 l2 H IH]; [discriminate| |].
  - inversion E; subst. constructor. exact H.
  - constructor. auto.
Qed.

(* the per-key specification retains a sub-sequence of the key's versions *)
Lemma spec_key_sublist p now : forall n vs w, (length vs <= n)%nat -> sublist (spec_key p now w vs) vs.
Proof.
  induction n as [|n IH]; intros vs w Hlen.
  - destruct vs; [constructor|cbn in Hlen; lia].
  - destruct vs as [|e vs']; [constructor|]. cbn [length] in Hlen. cbn [spec_key].
    destruct (is_value e).
    + assert (Hs : sublist (spec_key p now (w + 1) vs') vs') by (apply IH; lia).
      destruct (sat p now (w + 1) (ets e)); cbn [app]; constructor; exact Hs.
    + destruct vs' as [|e' vs'']; [constructor|]. cbn [length] in Hlen.
      destruct (is_value e').
      * assert (Hs : sublist (spec_key p now (w + 2) vs'') vs'') by (apply IH; lia).
        destruct (sat p now (w + 2) (ets e')); cbn [app].
        -- constructor. constructor. exact Hs.
        -- constructor. constructor. exact Hs.
      * constructor. apply IH. cbn [length]. lia.
Qed.

(* ------------------------------------------------------------ sorted inputs *)
Lemma sorted_tail e es : sorted (e :: es) -> sorted es.
Proof. cbn [sorted]. tauto. Qed.

Lemma sorted_lt_all es : forall e, sorted (e :: es) ->
  forall y, In y es -> keyref_cmp (kr e) (kr y) = Lt.
Proof.
  induction es as [|e' es IH]; intros e Hs y Hy; [contradiction|].
  destruct Hs as [Hs' Hlt]. destruct Hy as [<-|Hy]; [exact Hlt|].
  eapply keyref_cmp_lt_trans; [exact Hlt|]. apply IH; assumption.
Qed.

Lemma keyref_lt_key_le a b : keyref_cmp a b = Lt -> lex_cmp (fst a) (fst b) <> Gt.
Proof. unfold keyref_cmp. destruct (lex_cmp (fst a) (fst b)); congruence. Qed.

(* a strictly sorted input has its equal keys adjacent *)
Lemma sorted_contiguous es : sorted es -> contiguous es.
Proof.
  induction es as [|e es IH]; intros Hs; [exact I|]. cbn [contiguous].
  split; [apply IH; eapply sorted_tail; eauto|].
  destruct es as [|e' es']; [exact I|].
  destruct (key_eq_dec (ekey e') (ekey e)) as [E|Hne]; [left; exact E|right].
  intros Hin. apply in_map_iff in Hin. destruct Hin as (y & Hy1 & Hy2).
  (* e < e' <= y in the KeyRef order, key e = key y, so key e' = key e *)
  assert (H1 : keyref_cmp (kr e) (kr e') = Lt) by (destruct Hs as [_ H]; exact H).
  assert (Hle1 : lex_cmp (ekey e) (ekey e') <> Gt) by (apply (keyref_lt_key_le _ _ H1)).
  assert (Hle2 : lex_cmp (ekey e') (ekey y) <> Gt).
  { destruct Hy2 as [<-|Hy2]; [rewrite lex_cmp_refl; discriminate|].
    apply (keyref_lt_key_le (kr e') (kr y)). eapply sorted_lt_all; [eapply sorted_tail; eauto|exact Hy2]. }
  rewrite Hy1 in Hle2.
  rewrite (lex_cmp_antisym (ekey e) (ekey e')) in Hle2.
  destruct (lex_cmp (ekey e) (ekey e')) eqn:E; cbn in Hle2; try congruence.
  apply lex_cmp_eq in E. congruence.
Qed.

(* ------------------------------------------------------------ gc_spec is a sub-sequence *)
Lemma gc_spec_sublist p now : forall n es, (length es <= n)%nat -> contiguous es ->
  sublist (gc_spec p now es) es.
Proof.
  induction n as [|n IH]; intros es Hlen Hc.
  - destruct es; [constructor|cbn in Hlen; lia].
  - destruct es as [|e es']; [constructor|].
    set (k := ekey e). set (tw := e :: take_key k es'). set (dw := drop_key k es').
    assert (Hes : e :: es' = tw ++ dw)
      by (unfold tw, dw; cbn [app]; now rewrite <- (take_drop k es')).
    assert (Hall : Forall (fun x => ekey x = k) tw)
      by (unfold tw; constructor; [reflexivity|apply take_key_all]).
    assert (Hnin : ~ In k (map ekey dw)) by (unfold dw, k; now apply contiguous_drop_notin).
    rewrite Hes, (gc_spec_split p now k tw dw) by (auto; unfold tw; discriminate).
    apply sublist_app.
    + apply (spec_key_sublist p now (length tw)). lia.
    + apply IH.
      * unfold dw. pose proof (drop_key_length k es'). cbn [length] in Hlen. lia.
      * unfold dw. apply contiguous_drop. eapply contiguous_tail; eauto.
Qed.

(* ------------------------------------------------------------ lazy walk = walk over the drained list *)
Fixpoint walk_list {A} (add : A -> entry -> A) (main : list entry) (rs : list keyref)
         (out : list entry) (acc : A) {struct main} : walk_result A :=
  match main with
  | [] => WOk out acc
  | e :: main' =>
      match rs with
      | r :: rs' =>
          match keyref_cmp r (kr e) with
          | Lt => WOutOfSync
          | Eq => walk_list add main' rs' (out ++ [e]) acc
          | Gt => walk_list add main' rs out (add acc e)
          end
      | [] => walk_list add main' [] out (add acc e)
      end
  end.

Lemma walk_walk_list {A} (add : A -> entry -> A) main : forall g nxt out acc,
  walk add main g nxt out acc =
  walk_list add main (match nxt with Some x => x :: drain_g g | None => [] end) out acc.
Proof.
  induction main as [|e main IH]; intros g nxt out acc; cbn [walk walk_list]; [reflexivity|].
  destruct nxt as [gcn|].
  - destruct (keyref_cmp gcn (kr e)).
    + pose proof (gc_next_drain g) as H. destruct (gc_next g) as [[x|] g'].
      * destruct H as [H _]. rewrite IH, H. reflexivity.
      * rewrite IH, H. reflexivity.
    + reflexivity.
    + rewrite IH. reflexivity.
  - rewrite IH. reflexivity.
Qed.

Lemma gc_walk_walk_list {A} (add : A -> entry -> A) acc0 p es :
  gc_walk add acc0 p es = walk_list add es (drain_g (collector_new p es 0)) [] acc0.
Proof.
  unfold gc_walk. pose proof (gc_next_drain (collector_new p es 0)) as H.
  destruct (gc_next (collector_new p es 0)) as [[x|] g'].
  - destruct H as [H _]. rewrite walk_walk_list, H. reflexivity.
  - rewrite walk_walk_list, H. reflexivity.
Qed.

(* ------------------------------------------------------------ the walk over a sub-sequence *)
Lemma minus_nil_r cmpb es : minus cmpb es [] = es.
Proof. induction es as [|e es IH]; cbn [minus]; [reflexivity|now rewrite IH]. Qed.

Lemma walk_list_nil {A} (add : A -> entry -> A) es : forall out acc,
  walk_list add es [] out acc = WOk out (fold_left add es acc).
Proof. induction es as [|e es IH]; intros out acc; cbn [walk_list fold_left]; [reflexivity|apply IH]. Qed.

Lemma same_kr_refl e : same_kr e e = true.
Proof. unfold same_kr. now rewrite keyref_cmp_refl. Qed.

Lemma walk_list_sublist {A} (add : A -> entry -> A) sub es : sublist sub es -> sorted es ->
  forall out acc,
    walk_list add es (map kr sub) out acc
    = WOk (out ++ sub) (fold_left add (minus same_kr es sub) acc).
Proof.
  induction 1 as [l|x l1 l2 Hsl IH|x l1 l2 Hsl IH]; intros Hs out acc.
  - cbn [map]. rewrite walk_list_nil, minus_nil_r, app_nil_r. reflexivity.
  - cbn [map walk_list minus]. rewrite keyref_cmp_refl, same_kr_refl.
    rewrite IH by (eapply sorted_tail; eauto). now rewrite <- app_assoc.
  - destruct l1 as [|r l1'].
    + cbn [map]. rewrite walk_list_nil, minus_nil_r, app_nil_r. reflexivity.
    + assert (Hlt : keyref_cmp (kr x) (kr r) = Lt).
      { eapply sorted_lt_all; [exact Hs|]. eapply sublist_in; [exact Hsl|now left]. }
      assert (Hgt : keyref_cmp (kr r) (kr x) = Gt) by now apply keyref_cmp_gt_lt.
      cbn [map walk_list minus]. unfold same_kr. rewrite Hgt.
      cbn [map] in IH. rewrite IH by (eapply sorted_tail; eauto). reflexivity.
Qed.

Lemma drain_g_collector_new p es now : contiguous es ->
  drain_g (collector_new p es now) = map kr (gc_spec p now es).
Proof.
  intros Hc. unfold drain_g, collector_new; cbn [gret gcur gkb gdet].
  rewrite determiner_det_of. apply (drain_s_spec p now (length es)); auto.
Qed.

(* perform_garbage_collection's loop, for every policy and every strictly sorted merged input:
   no out-of-sync error, the entries written are exactly gc_spec (evaluated at now = 0 as lsmtk
   does), and the accumulator has seen exactly the other entries, in order *)
Theorem gc_walk_spec {A} (add : A -> entry -> A) acc0 p es : sorted es ->
  gc_walk add acc0 p es = WOk (gc_spec p 0 es) (fold_left add (gc_dropped p 0 es) acc0).
Proof.
  intros Hs. pose proof (sorted_contiguous es Hs) as Hc.
  rewrite gc_walk_walk_list, drain_g_collector_new by exact Hc.
  rewrite (walk_list_sublist add (gc_spec p 0 es) es); [reflexivity| |exact Hs].
  apply (gc_spec_sublist p 0 (length es)); auto.
Qed.

(* written and dropped entries together are the input: nothing is lost or invented by the walk *)
Lemma minus_perm sub es : sublist sub es -> sorted es ->
  Permutation es (sub ++ minus same_kr es sub).
Proof.
  induction 1 as [l|x l1 l2 Hsl IH|x l1 l2 Hsl IH]; intros Hs.
  - rewrite minus_nil_r. apply Permutation_refl.
  - cbn [minus app]. rewrite same_kr_refl. constructor. apply IH. eapply sorted_tail; eauto.
  - destruct l1 as [|r l1'].
    + rewrite minus_nil_r. apply Permutation_refl.
    + assert (Hlt : keyref_cmp (kr x) (kr r) = Lt).
      { eapply sorted_lt_all; [exact Hs|]. eapply sublist_in; [exact Hsl|now left]. }
      assert (Hgt : keyref_cmp (kr r) (kr x) = Gt) by now apply keyref_cmp_gt_lt.
      cbn [minus]. unfold same_kr at 1. rewrite Hgt.
      apply Permutation_cons_app. apply IH. eapply sorted_tail; eauto.
Qed.

Lemma gc_partition p now es : sorted es ->
  Permutation es (gc_spec p now es ++ gc_dropped p now es).
Proof.
  intros Hs. apply minus_perm; [|exact Hs].
  apply (gc_spec_sublist p now (length es)); auto. now apply sorted_contiguous.
Qed.
