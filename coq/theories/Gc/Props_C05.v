(* Props_C05.v — the property theorems for C05 (the garbage-collection half; the
   compaction-conserves-every-version half over apply_compaction lives in area Lsm) and nothing
   else.  "GC discards only what policy permits ... never the entry that decides the current value
   of a key."

   Objects (Gc/Model.v, transcribed from sst/src/gc.rs and lsmtk/src/tree/mod.rs):
     collect p es now      GarbageCollectionPolicy::collector(cursor over es, now) driven by next()
                           until None; None = out of fuel
     gc_walk add a0 p es   the loop of perform_garbage_collection over the merged inputs es
     gc_spec p now es      (Gc/Spec.v) what policy p allows to be retained, key by key
     gc_dropped p now es   the other entries of es
   H is SHA3-256 (external code): any function producing 32 bytes. *)
From Coq Require Import NArith PArith List Bool Permutation.
From Blue Require Import Gen.Const_Gc Setsum.Model Setsum.Proofs Gc.Model Gc.ModelLiteral Gc.Spec
  Gc.Discard Gc.Proofs_Key Gc.Proofs_Det Gc.Proofs_Collect Gc.Proofs_Walk Gc.Proofs_Discard
  Gc.Proofs_Current Gc.Proofs_Literal Gc.Proofs_Index Gc.Proofs_Tree Gc.Proofs_Weak.
Import ListNotations.
Open Scope N_scope.

Definition hash_ok (H : list N -> list N) : Prop :=
  forall x, bytes_ok (H x) /\ length (H x) = 32%nat.

(* 1. collector = specification: for EVERY policy of the policy language, every clock value and
   every input in which equal keys are adjacent, of any length, with any pattern of values and
   tombstones per key, the real control flow (determiner state, key tracking, tombstone buffer,
   two-step return) returns exactly the KeyRefs the policy allows to be retained — and the fuel
   bound 2|es|+1 of the model is never hit *)
Theorem C05_collector_eq_spec : forall p now es, contiguous es ->
  collect p es now = Some (map kr (gc_spec p now es)).
Proof. exact collect_eq_spec. Qed.

Theorem C05_collector_eq_spec_sorted : forall p now es, sorted es ->
  collect p es now = Some (map kr (gc_spec p now es)).
Proof. intros p now es Hs. apply collect_eq_spec, sorted_contiguous, Hs. Qed.

(* the model's next() merges one pass round `'iterating` into the handling of an entry;
   ModelLiteral.v transcribes the two nested loops literally (explicit fuel 2|cursor|+2 for the
   outer one).  They are the same function and the fuel is never exhausted. *)
Theorem C05_literal_next_is_model_next : forall g, gc_next_literal g = Some (gc_next g).
Proof. exact gc_next_literal_eq. Qed.

Theorem C05_literal_collect_is_model_collect : forall p es now,
  collect_literal p es now = collect p es now.
Proof. exact collect_literal_eq. Qed.

(* the specification read position by position (an entry is retained iff it is a value whose
   cumulative version weight and timestamp satisfy the policy, or a tombstone directly above such
   a value) is the same as the recursive reading used above *)
Theorem C05_spec_two_readings : forall p now vs, spec_key p now 0 vs = spec_key_idx p now vs.
Proof. exact spec_key_idx_eq. Qed.

(* what is retained is a sub-sequence of the input: nothing invented, nothing reordered *)
Theorem C05_retained_is_subsequence : forall p now es, contiguous es ->
  sublist (gc_spec p now es) es.
Proof. intros p now es Hc. now apply (gc_spec_sublist p now (length es)). Qed.

(* 2. the lock-step walk of perform_garbage_collection: for every policy and every strictly
   sorted merged input it writes exactly gc_spec (policy evaluated at now = 0, as lsmtk does) and
   hands exactly the other entries, in order, to the discard accumulator — whatever that is *)
Theorem C05_gc_walk_spec : forall (A : Type) (add : A -> entry -> A) acc0 p es, sorted es ->
  gc_walk add acc0 p es = WOk (gc_spec p 0 es) (fold_left add (gc_dropped p 0 es) acc0).
Proof. intros A add acc0 p es Hs. now apply gc_walk_spec. Qed.

(* ... in particular the `gc iterator out of sync with inputs` branch is dead code *)
Theorem C05_gc_sync_never_errors : forall (A : Type) (add : A -> entry -> A) acc0 p es,
  sorted es -> gc_walk add acc0 p es <> WOutOfSync.
Proof. intros A add acc0 p es Hs. rewrite gc_walk_spec by exact Hs. discriminate. Qed.

(* both without the assumption that (key, timestamp) pairs are distinct: on an input that is only
   weakly sorted (duplicates allowed) the collector still equals the specification and the walk
   still cannot go out of sync (which entry of several with equal key AND timestamp is written is
   then decided by leftmost matching; see the report for the three-way tie where that matters) *)
Theorem C05_collector_eq_spec_weakly_sorted : forall p now es, wsorted es ->
  collect p es now = Some (map kr (gc_spec p now es)).
Proof. exact collect_eq_spec_weak. Qed.

Theorem C05_gc_sync_never_errors_weakly_sorted :
  forall (A : Type) (add : A -> entry -> A) acc0 p es,
  wsorted es -> gc_walk add acc0 p es <> WOutOfSync.
Proof. intros A add acc0 p es Hs. now apply gc_walk_no_oos_weak. Qed.

(* 3. discard = the setsum of exactly the dropped entries *)
Theorem C05_discard_is_dropped : forall H, hash_ok H -> forall p es, sorted es ->
  gc_walk_setsum H p es = WOk (gc_spec p 0 es) (entries_setsum H (gc_dropped p 0 es)).
Proof. intros H Hok p es Hs. now apply gc_walk_setsum_spec. Qed.

(* 4. nothing is lost or invented: written and dropped entries together are the input (as
   multisets), so compaction_finish's `input == output + discard` balances *)
Theorem C05_written_plus_dropped_is_input : forall p now es, sorted es ->
  Permutation es (gc_spec p now es ++ gc_dropped p now es).
Proof. exact gc_partition. Qed.

Theorem C05_books_balance : forall H, hash_ok H -> forall p es, sorted es ->
  entries_setsum H es
  = add_state (entries_setsum H (gc_spec p 0 es)) (entries_setsum H (gc_dropped p 0 es)).
Proof. intros H Hok p es Hs. now apply gc_books_balance. Qed.

(* 5. versions = N (N >= 1 by type: NonZeroU64), at any clock value: every key reads after the
   GC as it read before *)
Theorem C05_versions_preserves_current : forall n now es k,
  visible (gc_spec (PVersions n) now es) k = visible es k.
Proof. exact gc_spec_visible_versions. Qed.

(* ... and how: per key (vs = the key's versions, newest first): a deciding VALUE is itself
   retained and stays the newest; a deciding TOMBSTONE is either dropped together with every other
   version of the key in the inputs, or the oldest tombstone of its run is retained on top *)
Theorem C05_versions_deciding_entry : forall n now vs,
  match vs with
  | [] => spec_key (PVersions n) now 0 vs = []
  | e :: _ =>
      if is_value e then exists rest, spec_key (PVersions n) now 0 vs = e :: rest
      else spec_key (PVersions n) now 0 vs = [] \/
           exists t rest, spec_key (PVersions n) now 0 vs = t :: rest /\
                          is_value t = false /\ In t vs
  end.
Proof.
  intros n now vs. apply spec_key_decides; [apply ts_blind_versions|].
  cbn [sat]. apply N.leb_le. destruct n; discriminate.
Qed.

(* the default policy of lsmtk, `versions = 1`, in closed form: of every key exactly the newest
   entry survives if it is a value (versions shadowed by a newer value go), and nothing survives
   if it is a tombstone (the tombstone goes together with everything it shadows) *)
Theorem C05_default_policy_closed_form : forall now vs,
  spec_key (PVersions 1) now 0 vs =
  match vs with
  | e :: _ => if is_value e then [e] else []
  | [] => []
  end.
Proof. exact spec_key_versions1. Qed.

(* 6. every policy as lsmtk evaluates it (now = 0).  Full-strength statement: "for every policy p,
   a GC leaves every key's current value unchanged".
   It is FALSE for policies that do not retain even a key's sole newest version, e.g. `any()`
   (known class K-retain-nothing, see known_findings.txt), and true for all others. *)
Definition Known_retain_nothing (p : policy) : Prop := keeps_newest p = false.

Theorem C05_current_preserved_refuted :
  exists p es k, sorted es /\
    match gc_walk (fun (a : unit) _ => a) tt p es with
    | WOk written _ => visible written k <> visible es k
    | WOutOfSync => False
    end.
Proof.
  exists (PAny []), [mkE [107] 5 (Some [118])], [107]. split; [cbn; auto|].
  vm_compute. discriminate.
Qed.

Theorem C05_current_preserved_outside_known : forall p, ~ Known_retain_nothing p ->
  forall (A : Type) (add : A -> entry -> A) acc0 es, sorted es ->
  exists written discard,
    gc_walk add acc0 p es = WOk written discard /\
    forall k, visible written k = visible es k.
Proof.
  intros p Hk A add acc0 es Hs. rewrite gc_walk_spec by exact Hs.
  eexists _, _. split; [reflexivity|]. intros k. apply gc_spec_visible.
  unfold Known_retain_nothing in Hk. destruct (keeps_newest p); congruence.
Qed.

(* the same with the rest of the tree around the compaction and reads decided by TIMESTAMP (not by
   position in the merged input): [rest] = all entries of the files that are not inputs.
   Full-strength statement: "a point read of k over the whole tree returns after the GC what it
   returned before".  It is FALSE when some version of k outside the inputs is not newer than a
   version inside (known class K1-inputs-not-closed: the selector of lsmtk can emit a top-level
   compaction that skips an overlapping file of a level in between, see known_findings.txt — the
   GC then drops a tombstone "with everything it shadows" while a shadowed value survives outside),
   and true otherwise (the last level has nothing below it; with inputs closed under overlap
   everything outside is newer: the tree-shape invariant of area Lsm). *)
Definition Known_inputs_not_closed (rest es : list entry) (k : key) : Prop :=
  exists x y, In x rest /\ In y es /\ ekey x = k /\ ekey y = k /\ ets x <= ets y.

Theorem C05_tree_read_refuted :
  exists p rest es k, keeps_newest p = true /\ sorted es /\
    match gc_walk (fun (a : unit) _ => a) tt p es with
    | WOk written _ => read (rest ++ written) k <> read (rest ++ es) k
    | WOutOfSync => False
    end.
Proof.
  (* the reproduction found on the real store, reduced to key 6b: L13 6b@11~, L15 6b@4=83 are
     inputs, L14 6b@8=63 is not; versions = 1 *)
  exists (PVersions 1), [mkE [107] 8 (Some [99])],
         [mkE [107] 11 None; mkE [107] 4 (Some [131])], [107].
  split; [reflexivity|]. split; [cbn; auto|]. vm_compute. discriminate.
Qed.

Theorem C05_tree_read_outside_known : forall p, ~ Known_retain_nothing p ->
  forall (A : Type) (add : A -> entry -> A) acc0 rest es k, sorted es ->
  ~ Known_inputs_not_closed rest es k ->
  exists written discard,
    gc_walk add acc0 p es = WOk written discard /\
    read (rest ++ written) k = read (rest ++ es) k.
Proof.
  intros p Hk A add acc0 rest es k Hs Hnk. rewrite gc_walk_spec by exact Hs.
  eexists _, _. split; [reflexivity|]. apply gc_tree_read; [|exact Hs|].
  - unfold Known_retain_nothing in Hk. destruct (keeps_newest p); congruence.
  - intros x y Hx Hy Hkx Hky. destruct (N.lt_ge_cases (ets y) (ets x)) as [Hlt|Hge]; [exact Hlt|].
    exfalso. apply Hnk. exists x, y. auto.
Qed.

(* in a sorted input "first entry of the key" and "largest timestamp of the key" are the same read *)
Theorem C05_read_by_timestamp_is_first : forall es k, sorted es -> read es k = visible es k.
Proof. exact read_sorted_visible. Qed.

(* ttl_micros never collects inside lsmtk (now_micros is the literal 0): every value survives *)
Theorem C05_expires_never_collects_in_lsmtk : forall m w ts, sat (PExpires m) 0 w ts = true.
Proof. intros m w ts. cbn [sat]. change (0 - N.pos m) with 0. destruct ts; reflexivity. Qed.

(* 7. a garbage collection happens only for compactions whose upper level is the last level and
   that have more than one input; every other rewrite writes every entry and discards nothing *)
Theorem C05_gc_only_top_level : forall ninputs upper,
  dispatch ninputs upper = KGc -> upper = GC_NUM_LEVELS - 1 /\ ninputs <> 1.
Proof.
  intros ninputs upper. unfold dispatch, top_level.
  destruct (ninputs =? 1) eqn:E1; [discriminate|].
  destruct (upper =? GC_NUM_LEVELS - 1) eqn:E2; [|discriminate].
  intros _. split; [now apply N.eqb_eq|]. now apply N.eqb_neq.
Qed.

Theorem C05_rewrite_writes_everything : forall (A : Type) (acc0 : A) es,
  rewrite_walk acc0 es = WOk es acc0.
Proof. reflexivity. Qed.

(* ---- non-vacuity: concrete, non-trivial instances of the hypotheses and of the conclusions ---- *)
Definition ex_key_a : key := [97].
Definition ex_key_b : key := [97; 0].
Definition ex_input : list entry :=
  [ mkE ex_key_a 9 None; mkE ex_key_a 8 None; mkE ex_key_a 7 (Some [1]); mkE ex_key_a 3 (Some [2]);
    mkE ex_key_b 6 (Some []); mkE ex_key_b 5 None; mkE ex_key_b 4 (Some [3]); mkE ex_key_b 2 None ].

Example ex_input_sorted : sorted ex_input.
Proof. cbn; repeat split; auto. Qed.

Example ex_collect :
  collect (PVersions 2) ex_input 0 = Some [(ex_key_a, 8); (ex_key_a, 7); (ex_key_b, 6)] /\
  collect (PAll [PVersions 3; PAny [PExpires 4; PVersions 1]]) ex_input 10
    = Some [(ex_key_a, 8); (ex_key_a, 7); (ex_key_b, 6)] /\
  gc_walk_lists (PVersions 3) ex_input
    = WOk [mkE ex_key_a 8 None; mkE ex_key_a 7 (Some [1]); mkE ex_key_a 3 (Some [2]);
           mkE ex_key_b 6 (Some []); mkE ex_key_b 5 None; mkE ex_key_b 4 (Some [3])]
          [mkE ex_key_a 9 None; mkE ex_key_b 2 None].
Proof. vm_compute. auto. Qed.

Example ex_keeps_newest :
  keeps_newest (PVersions 1) = true /\ keeps_newest (PExpires 5) = true /\
  keeps_newest (PAll [PVersions 2; PExpires 1]) = true /\
  keeps_newest (PAny []) = false /\ keeps_newest (PAll [PVersions 1; PAny []]) = false.
Proof. vm_compute. auto. Qed.
