(* Props_C05.v — the property theorems for C05 and nothing else.
   "A compaction that is not a garbage collection leaves the multiset of entries reachable through
   the tree unchanged ...  A garbage collection removes only entries the configured policy allows
   ... never the entry that decides the current value of a key."
   The tree (levels, files, apply_compaction, reads) is area Lsm's model; Gc/Bridge_Conserve.v and
   Gc/Bridge_Lsm.v join the two areas and are cited in sections 8 and 9 below.
   Inputs in which two entries share a (key, timestamp) pair are excluded by the store's invariant
   (C05_merged_inputs_sorted); what the code does on them is stated (C05_walk_weakly_sorted_guarantee)
   but is not part of the property.

   Objects (Gc/Model.v, transcribed from sst/src/gc.rs and lsmtk/src/tree/mod.rs):
     collect p es now      GarbageCollectionPolicy::collector(cursor over es, now) driven by next()
                           until None; None = out of fuel
     gc_walk add a0 p es   the loop of perform_garbage_collection over the merged inputs es
     gc_spec p now es      (Gc/Spec.v) what policy p allows to be retained, key by key
     gc_dropped p now es   the other entries of es
   H is SHA3-256 (external code): any function producing 32 bytes. *)
From Coq Require Import NArith PArith List Bool Permutation.
From Blue Require Import Gen.Const_Gc Setsum.Model Setsum.Proofs Gc.Model Gc.ModelLiteral Gc.Spec
  Gc.Discard Gc.Proofs_Key Gc.Proofs_Det Gc.Proofs_Collect Gc.Proofs_Walk Gc.Proofs_Discard
  Gc.Proofs_Current Gc.Proofs_Literal Gc.Proofs_Index Gc.Proofs_Tree Gc.Proofs_Weak Gc.Proofs_Rewrite.
From Blue Require Lsm.Model Lsm.LoadProofs Lsm.Ordered Lsm.SortLemmas Lsm.CompactProofs Lsm.GcProofs
  Gc.Bridge_Conserve Gc.Bridge_Lsm.
Import ListNotations.
Open Scope N_scope.

Definition hash_ok (H : list N -> list N) : Prop :=
  forall x, bytes_ok (H x) /\ length (H x) = 32%nat.

(* 1. collector = specification: for EVERY policy of the policy language, every clock value and
   every input in which equal keys are adjacent, of any length, with any pattern of values and
   tombstones per key, the real control flow (determiner state, key tracking, tombstone buffer,
   two-step return) returns exactly the KeyRefs the policy allows to be retained — and the fuel
   bound 2|es|+1 of the model is never hit *)
Theorem C05_collector_eq_spec : forall p now es, contiguous es ->
  collect p es now = Some (map kr (gc_spec p now es)).
Proof. exact collect_eq_spec. Qed.

Theorem C05_collector_eq_spec_sorted : forall p now es, sorted es ->
  collect p es now = Some (map kr (gc_spec p now es)).
Proof. intros p now es Hs. apply collect_eq_spec, sorted_contiguous, Hs. Qed.

(* the model's next() merges one pass round `'iterating` into the handling of an entry;
   ModelLiteral.v transcribes the two nested loops literally (explicit fuel 2|cursor|+2 for the
   outer one).  They are the same function and the fuel is never exhausted. *)
Theorem C05_literal_next_is_model_next : forall g, gc_next_literal g = Some (gc_next g).
Proof. exact gc_next_literal_eq. Qed.

Theorem C05_literal_collect_is_model_collect : forall p es now,
  collect_literal p es now = collect p es now.
Proof. exact collect_literal_eq. Qed.

(* the specification read position by position (an entry is retained iff it is a value whose
   cumulative version weight and timestamp satisfy the policy, or a tombstone directly above such
   a value) is the same as the recursive reading used above *)
Theorem C05_spec_two_readings : forall p now vs, spec_key p now 0 vs = spec_key_idx p now vs.
Proof. exact spec_key_idx_eq. Qed.

(* what is retained is a sub-sequence of the input: nothing invented, nothing reordered *)
Theorem C05_retained_is_subsequence : forall p now es, contiguous es ->
  sublist (gc_spec p now es) es.
Proof. intros p now es Hc. now apply (gc_spec_sublist p now (length es)). Qed.

(* 2. the lock-step walk of perform_garbage_collection: for every policy and every strictly
   sorted merged input it writes exactly gc_spec (policy evaluated at now = 0, as lsmtk does) and
   hands exactly the other entries, in order, to the discard accumulator — whatever that is *)
Theorem C05_gc_walk_spec : forall (A : Type) (add : A -> entry -> A) acc0 p es, sorted es ->
  gc_walk add acc0 p es = WOk (gc_spec p 0 es) (fold_left add (gc_dropped p 0 es) acc0).
Proof. intros A add acc0 p es Hs. now apply gc_walk_spec. Qed.

(* ... in particular the `gc iterator out of sync with inputs` branch is dead code *)
Theorem C05_gc_sync_never_errors : forall (A : Type) (add : A -> entry -> A) acc0 p es,
  sorted es -> gc_walk add acc0 p es <> WOutOfSync.
Proof. intros A add acc0 p es Hs. rewrite gc_walk_spec by exact Hs. discriminate. Qed.

(* both without the assumption that (key, timestamp) pairs are distinct: on an input that is only
   weakly sorted (duplicates allowed) the collector still equals the specification and the walk
   still cannot go out of sync (which entry of several with equal key AND timestamp is written is
   then decided by leftmost matching; see the report for the three-way tie where that matters) *)
Theorem C05_collector_eq_spec_weakly_sorted : forall p now es, wsorted es ->
  collect p es now = Some (map kr (gc_spec p now es)).
Proof. exact collect_eq_spec_weak. Qed.

Theorem C05_gc_sync_never_errors_weakly_sorted :
  forall (A : Type) (add : A -> entry -> A) acc0 p es,
  wsorted es -> gc_walk add acc0 p es <> WOutOfSync.
Proof. intros A add acc0 p es Hs. now apply gc_walk_no_oos_weak. Qed.

(* what the walk DOES guarantee on a weakly sorted input: it writes, for each KeyRef the collector
   retains, in order, the leftmost input entry not yet passed that carries this KeyRef (mod.rs
   compares KeyRefs only), every other entry goes to the discard accumulator, and written plus
   dropped is the input.  So the KeyRefs written are exactly the KeyRefs the policy retains ... *)
Theorem C05_walk_weakly_sorted_guarantee :
  forall (A : Type) (add : A -> entry -> A) acc0 p es, wsorted es ->
  exists written dropped,
    gc_walk add acc0 p es = WOk written (fold_left add dropped acc0) /\
    map kr written = map kr (gc_spec p 0 es) /\ sublist written es /\
    Permutation es (written ++ dropped).
Proof. intros A add acc0 p es Hs. now apply gc_walk_weak. Qed.

(* ... but not necessarily the ENTRIES.  This is outside C05's quantifier, not a finding: in
   every compaction the selector can choose in a reachable tree the merged inputs are strictly
   sorted — no two entries share a (key, timestamp) pair: C05_merged_inputs_sorted below, from the
   store's invariant Ordered — and with a tombstone and a value at the SAME (key, timestamp) "the
   entry that decides the current value" is not defined.  Duplicate pairs need a foreign ingest
   that C01's histories do not accept.  The next theorem only records that the hypothesis
   `sorted` of C05_gc_walk_spec cannot be weakened to `wsorted`: under versions = 3 on
   [6b@5~; 6b@5~; 6b@5=01; 6b@4=02] gc_spec is 6b@5~ 6b@5=01 6b@4=02, the walk writes
   6b@5~ 6b@5~ 6b@4=02 ... *)
Theorem C05_walk_needs_distinct_pairs :
  exists p es, wsorted es /\
    match gc_walk (fun (a : unit) _ => a) tt p es with
    | WOk written _ => written <> gc_spec p 0 es /\
                       exists e, In e (gc_spec p 0 es) /\ ~ In e written
    | WOutOfSync => False
    end.
Proof.
  exists (PVersions 3),
    [mkE [107] 5 None; mkE [107] 5 None; mkE [107] 5 (Some [1]); mkE [107] 4 (Some [2])].
  split; [cbn; repeat split; discriminate|]. vm_compute. split; [discriminate|].
  exists (mkE [107] 5 (Some [1])). split; [auto|].
  intros [H|[H|[H|[]]]]; discriminate.
Qed.

(* ... and that adjacent duplicates are the only obstacle on a weakly sorted input *)
Theorem C05_walk_writes_spec_without_adjacent_duplicates :
  forall (A : Type) (add : A -> entry -> A) acc0 p es, wsorted es -> ~ duplicate_pairs es ->
  gc_walk add acc0 p es = WOk (gc_spec p 0 es) (fold_left add (gc_dropped p 0 es) acc0).
Proof. intros A add acc0 p es Hs Hnd. apply gc_walk_spec. now apply wsorted_no_dup_sorted. Qed.

(* 3. discard = the setsum of exactly the dropped entries *)
Theorem C05_discard_is_dropped : forall H, hash_ok H -> forall p es, sorted es ->
  gc_walk_setsum H p es = WOk (gc_spec p 0 es) (entries_setsum H (gc_dropped p 0 es)).
Proof. intros H Hok p es Hs. now apply gc_walk_setsum_spec. Qed.

(* 4. nothing is lost or invented: written and dropped entries together are the input (as
   multisets), so compaction_finish's `input == output + discard` balances *)
Theorem C05_written_plus_dropped_is_input : forall p now es, sorted es ->
  Permutation es (gc_spec p now es ++ gc_dropped p now es).
Proof. exact gc_partition. Qed.

Theorem C05_books_balance : forall H, hash_ok H -> forall p es, sorted es ->
  entries_setsum H es
  = add_state (entries_setsum H (gc_spec p 0 es)) (entries_setsum H (gc_dropped p 0 es)).
Proof. intros H Hok p es Hs. now apply gc_books_balance. Qed.

(* 5. versions = N (N >= 1 by type: NonZeroU64), at any clock value: every key reads after the
   GC as it read before *)
Theorem C05_versions_preserves_current : forall n now es k,
  visible (gc_spec (PVersions n) now es) k = visible es k.
Proof. exact gc_spec_visible_versions. Qed.

(* ... and how: per key (vs = the key's versions, newest first): a deciding VALUE is itself
   retained and stays the newest; a deciding TOMBSTONE is either dropped together with every other
   version of the key in the inputs, or the oldest tombstone of its run is retained on top *)
Theorem C05_versions_deciding_entry : forall n now vs,
  match vs with
  | [] => spec_key (PVersions n) now 0 vs = []
  | e :: _ =>
      if is_value e then exists rest, spec_key (PVersions n) now 0 vs = e :: rest
      else spec_key (PVersions n) now 0 vs = [] \/
           exists t rest, spec_key (PVersions n) now 0 vs = t :: rest /\
                          is_value t = false /\ In t vs
  end.
Proof.
  intros n now vs. apply spec_key_decides; [apply ts_blind_versions|].
  cbn [sat]. apply N.leb_le. destruct n; discriminate.
Qed.

(* the default policy of lsmtk, `versions = 1`, in closed form: of every key exactly the newest
   entry survives if it is a value (versions shadowed by a newer value go), and nothing survives
   if it is a tombstone (the tombstone goes together with everything it shadows) *)
Theorem C05_default_policy_closed_form : forall now vs,
  spec_key (PVersions 1) now 0 vs =
  match vs with
  | e :: _ => if is_value e then [e] else []
  | [] => []
  end.
Proof. exact spec_key_versions1. Qed.

(* 6. every policy as lsmtk evaluates it (now = 0).  Full-strength statement: "for every policy p,
   a GC leaves every key's current value unchanged".
   It is FALSE for policies that do not retain even a key's sole newest version, e.g. `any()`
   (known class K-retain-nothing, see known_findings.txt), and true for all others. *)
Definition Known_retain_nothing (p : policy) : Prop := keeps_newest p = false.

Theorem C05_current_preserved_refuted :
  exists p es k, sorted es /\
    match gc_walk (fun (a : unit) _ => a) tt p es with
    | WOk written _ => visible written k <> visible es k
    | WOutOfSync => False
    end.
Proof.
  exists (PAny []), [mkE [107] 5 (Some [118])], [107]. split; [cbn; auto|].
  vm_compute. discriminate.
Qed.

Theorem C05_current_preserved_outside_known : forall p, ~ Known_retain_nothing p ->
  forall (A : Type) (add : A -> entry -> A) acc0 es, sorted es ->
  exists written discard,
    gc_walk add acc0 p es = WOk written discard /\
    forall k, visible written k = visible es k.
Proof.
  intros p Hk A add acc0 es Hs. rewrite gc_walk_spec by exact Hs.
  eexists _, _. split; [reflexivity|]. intros k. apply gc_spec_visible.
  unfold Known_retain_nothing in Hk. destruct (keeps_newest p); congruence.
Qed.

(* the same with the rest of the tree around the compaction and reads decided by TIMESTAMP (not by
   position in the merged input): [rest] = all entries of the files that are not inputs.
   Precondition inputs_closed_for rest es k: every version of k outside the inputs is newer than
   every version inside.  The last level has nothing below it, so a compaction into it whose inputs
   are closed under overlap has the precondition: C05_inputs_closed_from_tree_invariant (section 9)
   derives it from area Lsm's Ordered + valid_compactionb.  (lsmtk's selector used to emit
   top-level compactions that skipped an overlapping file of a level in between — F16/K1, repaired
   by /repo commit 764f777, corpus/C05/30_lsm_k1_gc_resurrects.json; the second theorem keeps that
   reproduction as the witness that the precondition cannot be dropped.) *)
Theorem C05_tree_read_preserved : forall p, ~ Known_retain_nothing p ->
  forall (A : Type) (add : A -> entry -> A) acc0 rest es k, sorted es ->
  inputs_closed_for rest es k ->
  exists written discard,
    gc_walk add acc0 p es = WOk written discard /\
    read (rest ++ written) k = read (rest ++ es) k.
Proof.
  intros p Hk A add acc0 rest es k Hs Hcl. rewrite gc_walk_spec by exact Hs.
  eexists _, _. split; [reflexivity|]. apply gc_tree_read; [|exact Hs|exact Hcl].
  unfold Known_retain_nothing in Hk. destruct (keeps_newest p); congruence.
Qed.

Theorem C05_tree_read_needs_closed_inputs :
  exists p rest es k, keeps_newest p = true /\ sorted es /\ ~ inputs_closed_for rest es k /\
    match gc_walk (fun (a : unit) _ => a) tt p es with
    | WOk written _ => read (rest ++ written) k <> read (rest ++ es) k
    | WOutOfSync => False
    end.
Proof.
  (* the reproduction found on the real store before 764f777, reduced to key 6b: L13 6b@11~ and
     L15 6b@4=83 are inputs, L14 6b@8=63 is not; versions = 1 *)
  exists (PVersions 1), [mkE [107] 8 (Some [99])],
         [mkE [107] 11 None; mkE [107] 4 (Some [131])], [107].
  split; [reflexivity|]. split; [cbn; auto|]. split.
  - intros H. specialize (H (mkE [107] 8 (Some [99])) (mkE [107] 11 None)
                            (or_introl eq_refl) (or_introl eq_refl) eq_refl eq_refl).
    cbn in H. discriminate.
  - vm_compute. discriminate.
Qed.

(* in a sorted input "first entry of the key" and "largest timestamp of the key" are the same read *)
Theorem C05_read_by_timestamp_is_first : forall es k, sorted es -> read es k = visible es k.
Proof. exact read_sorted_visible. Qed.

(* ttl_micros never collects inside lsmtk (now_micros is the literal 0): every value survives *)
Theorem C05_expires_never_collects_in_lsmtk : forall m w ts, sat (PExpires m) 0 w ts = true.
Proof. intros m w ts. cbn [sat]. change (0 - N.pos m) with 0. destruct ts; reflexivity. Qed.

(* 7. a garbage collection happens only for compactions whose upper level is the last level and
   that have more than one input; every other rewrite writes every entry and discards nothing *)
Theorem C05_gc_only_top_level : forall ninputs upper,
  dispatch ninputs upper = KGc -> upper = GC_NUM_LEVELS - 1 /\ ninputs <> 1.
Proof.
  intros ninputs upper. unfold dispatch, top_level.
  destruct (ninputs =? 1) eqn:E1; [discriminate|].
  destruct (upper =? GC_NUM_LEVELS - 1) eqn:E2; [|discriminate].
  intros _. split; [now apply N.eqb_eq|]. now apply N.eqb_neq.
Qed.

(* perform_compaction's loop through SstMultiBuilder, for EVERY size policy (target_full,
   minimum_full are arbitrary predicates on the open builder's contents) and EVERY pattern of
   split hints: the outputs, concatenated in the order seal() returns them, are the merged input,
   entry for entry and in order, and no output file is empty *)
Theorem C05_rewrite_writes_everything_once :
  forall (target_full minimum_full : list entry -> bool) (main : list (bool * entry)),
  concat (rewrite_outputs target_full minimum_full main) = map snd main /\
  Forall (fun f => f <> []) (rewrite_outputs target_full minimum_full main).
Proof. exact rewrite_outputs_spec. Qed.

(* 8. THE FIRST HALF OF THE PROPERTY, over area Lsm's tree: a compaction that is not a garbage
   collection leaves the multiset of (key, timestamp, value-or-tombstone) entries reachable through
   the tree unchanged — for every admissible compaction of every version and every way of cutting
   the sorted merge of its inputs into non-empty files (a key's versions straddling two files or
   not) ... *)
Theorem C05_compaction_conserves_entries : forall v c outs,
  Lsm.Model.valid_compactionb v c = true -> Lsm.Model.outputs_okb v c outs = true ->
  Permutation (Lsm.Model.file_entries (Lsm.Model.apply_compaction v c outs)) (Lsm.Model.file_entries v).
Proof. exact Gc.Bridge_Conserve.valid_compaction_conserves_entries. Qed.

(* ... in particular for what the rewrite loop above writes (any thresholds, any split hints) *)
Theorem C05_rewrite_conserves_entries : forall v c target_full minimum_full main outs,
  Lsm.Model.valid_compactionb v c = true ->
  map snd main = map Gc.Bridge_Lsm.to_gc (Lsm.Model.sort_entries (Lsm.Model.input_entries v c)) ->
  map Lsm.Model.fents outs = map (map Gc.Bridge_Lsm.of_gc) (rewrite_outputs target_full minimum_full main) ->
  Permutation (Lsm.Model.file_entries (Lsm.Model.apply_compaction v c outs)) (Lsm.Model.file_entries v).
Proof. exact Gc.Bridge_Lsm.rewrite_conserves_entries. Qed.

(* 9. Gc joined to Lsm for a compaction into the LAST level that area Lsm admits
   (valid_compactionb, which contains the overlap closure vc_closed) in a well-formed, Ordered
   store; E = the sorted merge of its inputs, seen as a Gc input.
   (a) E is strictly sorted, so every walk theorem above applies to it; *)
Theorem C05_merged_inputs_sorted : forall s c,
  Lsm.LoadProofs.wf_version (Lsm.Model.ver s) -> Lsm.Ordered.Ordered s ->
  Lsm.Model.valid_compactionb (Lsm.Model.ver s) c = true ->
  sorted (map Gc.Bridge_Lsm.to_gc (Lsm.Model.sort_entries (Lsm.Model.input_entries (Lsm.Model.ver s) c))).
Proof. exact Gc.Bridge_Lsm.merged_inputs_sorted. Qed.

(* (b) what the collector retains, cut anywhere into non-empty files, is what area Lsm accepts as
   the outputs of a garbage collection (gc_outputs_okb), for every policy that retains a sole
   newest version — so installing it preserves every point read (Lsm's gc_preserves_reads); *)
Theorem C05_collector_outputs_admissible : forall v c outs p,
  keeps_newest p = true ->
  flat_map Lsm.Model.fents outs =
    map Gc.Bridge_Lsm.of_gc (gc_spec p 0 (map Gc.Bridge_Lsm.to_gc (Lsm.Model.sort_entries (Lsm.Model.input_entries v c)))) ->
  forallb (fun f => match Lsm.Model.fents f with [] => false | _ => true end) outs = true ->
  Lsm.Model.gc_outputs_okb v c outs = true.
Proof.
  intros v c outs p Hk Hout Hne. apply (Gc.Bridge_Lsm.gc_spec_outputs_ok v c outs p Hk); auto.
  apply Lsm.SortLemmas.sort_entries_ssorted.
Qed.

Theorem C05_gc_installed_preserves_reads : forall s c p outs k,
  Lsm.LoadProofs.wf_version (Lsm.Model.ver s) -> Lsm.Ordered.Ordered s ->
  Lsm.Model.valid_compactionb (Lsm.Model.ver s) c = true ->
  keeps_newest p = true -> S (Lsm.Model.cupper c) = length (Lsm.Model.ver s) ->
  flat_map Lsm.Model.fents outs =
    map Gc.Bridge_Lsm.of_gc (gc_spec p 0 (map Gc.Bridge_Lsm.to_gc (Lsm.Model.sort_entries (Lsm.Model.input_entries (Lsm.Model.ver s) c)))) ->
  forallb (fun f => match Lsm.Model.fents f with [] => false | _ => true end) outs = true ->
  Lsm.GcProofs.hd_value (Lsm.Model.kview (Lsm.Model.compact s c outs) k) = Lsm.GcProofs.hd_value (Lsm.Model.kview s k) /\
  Lsm.Ordered.desc_ts (Lsm.Model.kview (Lsm.Model.compact s c outs) k) /\
  (forall e, In e (Lsm.Model.kview (Lsm.Model.compact s c outs) k) -> In e (Lsm.Model.kview s k)).
Proof. intros s c p outs k Hw Ho Hv. exact (Gc.Bridge_Lsm.gc_installed_preserves_reads s c Hw Ho Hv p outs k). Qed.

(* (c) the precondition of C05_tree_read_preserved is a consequence of the tree invariant: the view
   of k is A ++ (its versions in the inputs) ++ B with B empty as soon as the inputs hold a version
   of k, and everything in A is newer than everything in the inputs; *)
Theorem C05_inputs_closed_from_tree_invariant : forall s c k outs,
  Lsm.LoadProofs.wf_version (Lsm.Model.ver s) -> Lsm.Ordered.Ordered s ->
  Lsm.Model.valid_compactionb (Lsm.Model.ver s) c = true ->
  S (Lsm.Model.cupper c) = length (Lsm.Model.ver s) ->
  exists A B, Lsm.Model.kview s k = A ++ Lsm.GcProofs.J s c k ++ B /\
              Lsm.Model.kview (Lsm.Model.compact s c outs) k = A ++ Lsm.CompactProofs.K k outs ++ B /\
              (Lsm.GcProofs.J s c k <> [] -> B = []) /\
              inputs_closed_for (map Gc.Bridge_Lsm.to_gc A)
                (map Gc.Bridge_Lsm.to_gc (Lsm.Model.sort_entries (Lsm.Model.input_entries (Lsm.Model.ver s) c))) k.
Proof. intros s c k outs Hw Ho Hv. exact (Gc.Bridge_Lsm.inputs_closed_from_ordered s c Hw Ho Hv k outs). Qed.

(* (d) the second half at tree level, as multisets: the entries reachable after the GC together
   with the entries the policy let go are the entries reachable before *)
Theorem C05_gc_conserves_entries_up_to_dropped : forall s c p outs,
  Lsm.LoadProofs.wf_version (Lsm.Model.ver s) -> Lsm.Ordered.Ordered s ->
  Lsm.Model.valid_compactionb (Lsm.Model.ver s) c = true ->
  flat_map Lsm.Model.fents outs =
    map Gc.Bridge_Lsm.of_gc (gc_spec p 0 (map Gc.Bridge_Lsm.to_gc (Lsm.Model.sort_entries (Lsm.Model.input_entries (Lsm.Model.ver s) c)))) ->
  Permutation
    (Lsm.Model.file_entries (Lsm.Model.apply_compaction (Lsm.Model.ver s) c outs) ++
     map Gc.Bridge_Lsm.of_gc (gc_dropped p 0 (map Gc.Bridge_Lsm.to_gc (Lsm.Model.sort_entries (Lsm.Model.input_entries (Lsm.Model.ver s) c)))))
    (Lsm.Model.file_entries (Lsm.Model.ver s)).
Proof. intros s c p outs Hw Ho Hv. exact (Gc.Bridge_Lsm.gc_conserves_entries_up_to_dropped s c Hw Ho Hv p outs). Qed.

(* ---- non-vacuity: concrete, non-trivial instances of the hypotheses and of the conclusions ---- *)
Definition ex_key_a : key := [97].
Definition ex_key_b : key := [97; 0].
Definition ex_input : list entry :=
  [ mkE ex_key_a 9 None; mkE ex_key_a 8 None; mkE ex_key_a 7 (Some [1]); mkE ex_key_a 3 (Some [2]);
    mkE ex_key_b 6 (Some []); mkE ex_key_b 5 None; mkE ex_key_b 4 (Some [3]); mkE ex_key_b 2 None ].

Example ex_input_sorted : sorted ex_input.
Proof. cbn; repeat split; auto. Qed.

Example ex_collect :
  collect (PVersions 2) ex_input 0 = Some [(ex_key_a, 8); (ex_key_a, 7); (ex_key_b, 6)] /\
  collect (PAll [PVersions 3; PAny [PExpires 4; PVersions 1]]) ex_input 10
    = Some [(ex_key_a, 8); (ex_key_a, 7); (ex_key_b, 6)] /\
  gc_walk_lists (PVersions 3) ex_input
    = WOk [mkE ex_key_a 8 None; mkE ex_key_a 7 (Some [1]); mkE ex_key_a 3 (Some [2]);
           mkE ex_key_b 6 (Some []); mkE ex_key_b 5 None; mkE ex_key_b 4 (Some [3])]
          [mkE ex_key_a 9 None; mkE ex_key_b 2 None].
Proof. vm_compute. auto. Qed.

Example ex_keeps_newest :
  keeps_newest (PVersions 1) = true /\ keeps_newest (PExpires 5) = true /\
  keeps_newest (PAll [PVersions 2; PExpires 1]) = true /\
  keeps_newest (PAny []) = false /\ keeps_newest (PAll [PVersions 1; PAny []]) = false.
Proof. vm_compute. auto. Qed.

(* an instance of the tree-level theorem with a non-empty rest of the tree: a newer version of
   key a and versions of another key live outside the inputs *)
Definition ex_rest : list entry :=
  [ mkE ex_key_a 12 (Some [9]); mkE [98] 1 (Some [7]); mkE [98] 11 None ].

Example ex_inputs_closed :
  inputs_closed_for ex_rest ex_input ex_key_a /\ inputs_closed_for ex_rest ex_input ex_key_b /\
  read (ex_rest ++ gc_spec (PVersions 1) 0 ex_input) ex_key_a = Some [9] /\
  read (ex_rest ++ ex_input) ex_key_b = Some [] /\
  read (ex_rest ++ gc_spec (PVersions 1) 0 ex_input) ex_key_b = Some [].
Proof.
  split; [|split; [|vm_compute; auto]].
  - intros x y Hx Hy Hkx Hky. cbn [In ex_rest] in Hx.
    destruct Hx as [<-|[<-|[<-|[]]]]; try (cbn in Hkx; discriminate).
    cbn [In ex_input] in Hy. cbn [ets].
    repeat (destruct Hy as [<-|Hy]; [try reflexivity; cbn in Hky; discriminate|]). destruct Hy.
  - intros x y Hx Hy Hkx Hky. cbn [In ex_rest] in Hx.
    destruct Hx as [<-|[<-|[<-|[]]]]; cbn in Hkx; discriminate.
Qed.

(* hash_ok is satisfiable, and the books of the example balance under that hash *)
Definition H_example (x : list N) : list N :=
  map (fun i => (i * 37 + N.of_nat (length x) * 101 + 250) mod 256) (map N.of_nat (seq 0 32)).

Example hash_ok_example : hash_ok H_example.
Proof.
  intros x. split.
  - unfold bytes_ok, H_example. apply Forall_forall. intros b Hin.
    apply in_map_iff in Hin. destruct Hin as (i & <- & _). apply N.mod_upper_bound. discriminate.
  - unfold H_example. now rewrite !map_length, seq_length.
Qed.

Example ex_books_balance :
  entries_setsum H_example ex_input
  = add_state (entries_setsum H_example (gc_spec (PVersions 2) 0 ex_input))
              (entries_setsum H_example (gc_dropped (PVersions 2) 0 ex_input)) /\
  entries_setsum H_example (gc_dropped (PVersions 2) 0 ex_input) <> zero.
Proof.
  split; [apply C05_books_balance; [exact hash_ok_example|exact ex_input_sorted]|].
  vm_compute. discriminate.
Qed.

(* the rewrite loop on a concrete input: a threshold of two entries per file and one split hint *)
Example ex_rewrite :
  rewrite_outputs (fun es => 2 <=? N.of_nat (length es)) (fun es => 1 <=? N.of_nat (length es))
    [(false, mkE ex_key_a 9 None); (false, mkE ex_key_a 8 None); (false, mkE ex_key_a 7 (Some [1]));
     (true, mkE ex_key_b 6 (Some [])); (false, mkE ex_key_b 5 None)]
  = [[mkE ex_key_a 9 None; mkE ex_key_a 8 None]; [mkE ex_key_a 7 (Some [1])];
     [mkE ex_key_b 6 (Some []); mkE ex_key_b 5 None]].
Proof. vm_compute. reflexivity. Qed.
