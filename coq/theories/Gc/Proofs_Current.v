(* Gc/Proofs_Current.v — what a garbage collection does to the value a reader sees. *)
From Coq Require Import NArith PArith List Bool Lia.
From Blue Require Import Gc.Model Gc.Spec Gc.Proofs_Key Gc.Proofs_Det Gc.Proofs_Collect Gc.Proofs_Walk.
Import ListNotations.
Open Scope N_scope.

(* unfolding equations of spec_key *)
Lemma spec_key_val p now w e vs : is_value e = true ->
  spec_key p now w (e :: vs) =
  (if sat p now (w + 1) (ets e) then [e] else []) ++ spec_key p now (w + 1) vs.
Proof. intros He. cbn [spec_key]. now rewrite He. Qed.

Lemma spec_key_tomb_end p now w e : is_value e = false -> spec_key p now w [e] = [].
Proof. intros He. cbn [spec_key]. now rewrite He. Qed.

Lemma spec_key_tomb_val p now w e e' vs : is_value e = false -> is_value e' = true ->
  spec_key p now w (e :: e' :: vs) =
  (if sat p now (w + 2) (ets e') then [e; e'] else []) ++ spec_key p now (w + 2) vs.
Proof. intros He He'. cbn [spec_key]. now rewrite He, He'. Qed.

Lemma spec_key_tomb_tomb p now w e e' vs : is_value e = false -> is_value e' = false ->
  spec_key p now w (e :: e' :: vs) = spec_key p now w (e' :: vs).
Proof.
  intros He He'. change (spec_key p now w (e :: e' :: vs)) with
    (if is_value e then (if sat p now (w + 1) (ets e) then [e] else []) ++ spec_key p now (w + 1) (e' :: vs)
     else if is_value e' then (if sat p now (w + 2) (ets e') then [e; e'] else []) ++ spec_key p now (w + 2) vs
          else spec_key p now w (e' :: vs)).
  now rewrite He, He'.
Qed.

(* a policy whose verdict does not look at timestamps when evaluated at clock value `now`:
   every policy at now = 0 (lsmtk), and versions = N at any clock *)
Definition ts_blind (p : policy) (now : N) : Prop := forall w ts ts', sat p now w ts = sat p now w ts'.

Lemma ts_blind_now0 p : ts_blind p 0.
Proof. intros w ts ts'. apply sat_now0_ts. Qed.

Lemma ts_blind_versions n now : ts_blind (PVersions n) now.
Proof. intros w ts ts'. reflexivity. Qed.

(* once the policy lets go at weight w it retains nothing further down *)
Lemma spec_key_nil_after p now : forall n vs w, (length vs <= n)%nat ->
  (forall w' ts, w < w' -> sat p now w' ts = false) -> spec_key p now w vs = [].
Proof.
  induction n as [|n IH]; intros vs w Hlen Hno.
  - destruct vs; [reflexivity|cbn in Hlen; lia].
  - destruct vs as [|e vs']; [reflexivity|]. cbn [length] in Hlen.
    destruct (is_value e) eqn:He.
    + rewrite spec_key_val by exact He.
      rewrite Hno by lia. cbn [app]. apply IH; [lia|]. intros w' ts Hw. apply Hno. lia.
    + destruct vs' as [|e' vs'']; [now apply spec_key_tomb_end|]. cbn [length] in Hlen.
      destruct (is_value e') eqn:He'.
      * rewrite spec_key_tomb_val by assumption.
        rewrite Hno by lia. cbn [app]. apply IH; [lia|]. intros w' ts Hw. apply Hno. lia.
      * rewrite spec_key_tomb_tomb by assumption. apply IH; [cbn [length]; lia|exact Hno].
Qed.

Lemma blind_false_after p now w ts : ts_blind p now -> sat p now w ts = false ->
  forall w' ts', w <= w' -> sat p now w' ts' = false.
Proof.
  intros Hb Hf w' ts' Hw. destruct (sat p now w' ts') eqn:E; [|reflexivity].
  rewrite (Hb w' ts' ts) in E. rewrite (sat_antitone p now ts w w' Hw E) in Hf. discriminate.
Qed.

(* a run of tombstones on top: either everything below goes too, or the run's oldest tombstone
   is kept on top of what remains *)
Lemma spec_key_tomb_head p now : ts_blind p now -> forall n vs w e, (length vs <= n)%nat ->
  is_value e = false ->
  spec_key p now w (e :: vs) = [] \/
  exists t rest, spec_key p now w (e :: vs) = t :: rest /\ is_value t = false /\ In t (e :: vs).
Proof.
  intros Hb. induction n as [|n IH]; intros vs w e Hlen He.
  - destruct vs; [left; now apply spec_key_tomb_end|cbn in Hlen; lia].
  - destruct vs as [|e' vs']; [left; now apply spec_key_tomb_end|].
    cbn [length] in Hlen.
    destruct (is_value e') eqn:Ev.
    + rewrite spec_key_tomb_val by assumption.
      destruct (sat p now (w + 2) (ets e')) eqn:Es; cbn [app].
      * right. exists e, (e' :: spec_key p now (w + 2) vs'). cbn [In]. auto.
      * left. apply (spec_key_nil_after p now (length vs')); [lia|].
        intros w' ts Hw. eapply blind_false_after; eauto. lia.
    + rewrite spec_key_tomb_tomb by assumption.
      destruct (IH vs' w e' ltac:(lia) Ev) as [H|(t & rest & H1 & H2 & H3)].
      * left. exact H.
      * right. exists t, rest. split; [exact H1|]. split; [exact H2|]. now right.
Qed.

(* THE per-key statement.  For a timestamp-blind evaluation of a policy that retains a sole
   newest version: a deciding VALUE is kept and stays on top; a deciding TOMBSTONE is either
   dropped together with every older version of the key, or replaced on top by the oldest
   tombstone of its run.  Either way the key reads as before. *)
Lemma spec_key_decides p now vs : ts_blind p now -> sat p now 1 0 = true ->
  match vs with
  | [] => spec_key p now 0 vs = []
  | e :: _ =>
      if is_value e then exists rest, spec_key p now 0 vs = e :: rest
      else spec_key p now 0 vs = [] \/
           exists t rest, spec_key p now 0 vs = t :: rest /\ is_value t = false /\ In t vs
  end.
Proof.
  intros Hb H1. destruct vs as [|e vs']; [reflexivity|].
  destruct (is_value e) eqn:Ev.
  - rewrite spec_key_val by exact Ev. change (0 + 1) with 1. rewrite (Hb 1 (ets e) 0), H1.
    cbn [app]. eauto.
  - apply (spec_key_tomb_head p now Hb (length vs')); auto.
Qed.

Lemma spec_key_current p now vs : ts_blind p now -> sat p now 1 0 = true ->
  current (spec_key p now 0 vs) = current vs.
Proof.
  intros Hb H1. pose proof (spec_key_decides p now vs Hb H1) as H.
  destruct vs as [|e vs']; [now rewrite H|].
  destruct (is_value e) eqn:Ev.
  - destruct H as (rest & ->). reflexivity.
  - assert (Hc : current (e :: vs') = None).
    { cbn [current]. unfold is_value in Ev. destruct (evalue e); [discriminate|reflexivity]. }
    rewrite Hc. destruct H as [->|(t & rest & -> & Ht & _)]; [reflexivity|].
    cbn [current]. unfold is_value in Ht. destruct (evalue t); [discriminate|reflexivity].
Qed.

(* under a tombstone every group weighs at least 2 more *)
Lemma spec_key_tomb_nil p now : forall n vs w e, (length vs <= n)%nat -> is_value e = false ->
  (forall w' ts, w + 2 <= w' -> sat p now w' ts = false) -> spec_key p now w (e :: vs) = [].
Proof.
  induction n as [|n IH]; intros vs w e Hlen He Hno.
  - destruct vs; [now apply spec_key_tomb_end|cbn in Hlen; lia].
  - destruct vs as [|e' vs']; [now apply spec_key_tomb_end|].
    cbn [length] in Hlen.
    destruct (is_value e') eqn:Ev.
    + rewrite spec_key_tomb_val by assumption.
      rewrite Hno by lia. cbn [app]. apply (spec_key_nil_after p now (length vs')); [lia|].
      intros w' ts Hw. apply Hno. lia.
    + rewrite spec_key_tomb_tomb by assumption. apply IH; [lia|exact Ev|exact Hno].
Qed.

(* the default policy `versions = 1`, in closed form: of each key exactly the newest entry
   survives if it is a value; if it is a tombstone nothing of the key survives *)
Lemma spec_key_versions1 now vs :
  spec_key (PVersions 1) now 0 vs =
  match vs with
  | e :: _ => if is_value e then [e] else []
  | [] => []
  end.
Proof.
  assert (Hno : forall w' ts, 2 <= w' -> sat (PVersions 1) now w' ts = false).
  { intros w' ts Hlt. cbn [sat]. apply N.leb_gt. lia. }
  destruct vs as [|e vs']; [reflexivity|].
  destruct (is_value e) eqn:Ev.
  - rewrite spec_key_val by exact Ev.
    change (sat (PVersions 1) now (0 + 1) (ets e)) with true. cbn [app]. f_equal.
    apply (spec_key_nil_after _ now (length vs')); [lia|]. intros w' ts Hw. apply Hno. lia.
  - apply (spec_key_tomb_nil _ now (length vs')); [lia|exact Ev|].
    intros w' ts Hw. apply Hno. lia.
Qed.

(* ------------------------------------------------------------ from one key to the whole input *)
Lemma keys_nodup es : NoDup (keys es).
Proof.
  induction es as [|e es IH]; cbn [keys]; constructor.
  - rewrite filter_In. intros [_ H]. now rewrite key_eqb_refl in H.
  - now apply NoDup_filter.
Qed.

Lemma spec_key_keys p now k : forall vs w, Forall (fun e => ekey e = k) vs ->
  Forall (fun e => ekey e = k) (spec_key p now w vs).
Proof.
  intros vs w Hall. rewrite Forall_forall in *. intros x Hx. apply Hall.
  eapply sublist_in; [apply (spec_key_sublist p now (length vs)); lia|exact Hx].
Qed.

Lemma kfilter_all k es : Forall (fun e => ekey e = k) (kfilter k es).
Proof.
  apply Forall_forall. intros x Hx. unfold kfilter in Hx. apply filter_In in Hx.
  now apply key_eqb_eq.
Qed.

Lemma kfilter_flat_map k (f : key -> list entry) ks :
  (forall k', Forall (fun e => ekey e = k') (f k')) -> NoDup ks ->
  kfilter k (flat_map f ks) = if in_dec key_eq_dec k ks then f k else [].
Proof.
  intros Hf. induction ks as [|k0 ks IH]; intros Hnd; [reflexivity|].
  inversion Hnd as [|? ? Hnin Hnd']; subst. cbn [flat_map]. unfold kfilter in *.
  rewrite filter_app, (IH Hnd').
  destruct (key_eq_dec k0 k) as [->|Hne].
  - rewrite filter_all_true.
    2:{ eapply Forall_impl; [|apply Hf]. cbn. intros x ->. apply key_eqb_refl. }
    destruct (in_dec key_eq_dec k ks) as [Hin|_]; [contradiction|].
    destruct (in_dec key_eq_dec k (k :: ks)) as [_|Hn]; [now rewrite app_nil_r|].
    exfalso. apply Hn. now left.
  - rewrite filter_all_false.
    2:{ eapply Forall_impl; [|apply Hf]. cbn. intros x ->. now apply key_eqb_neq. }
    cbn [app]. destruct (in_dec key_eq_dec k ks) as [Hin|Hnin'];
      destruct (in_dec key_eq_dec k (k0 :: ks)) as [Hin2|Hnin2]; try reflexivity.
    + exfalso. apply Hnin2. now right.
    + exfalso. destruct Hin2 as [E|Hin2]; [now apply Hne|contradiction].
Qed.

(* the retained entries of key k are the per-key specification applied to k's versions *)
Lemma kfilter_gc_spec p now es k :
  kfilter k (gc_spec p now es) = spec_key p now 0 (kfilter k es).
Proof.
  unfold gc_spec. rewrite kfilter_flat_map.
  - destruct (in_dec key_eq_dec k (keys es)) as [Hin|Hnin]; [reflexivity|].
    assert (E : kfilter k es = []).
    { unfold kfilter. apply filter_all_false. apply Forall_forall. intros x Hx.
      apply key_eqb_neq. intros E. apply Hnin. apply keys_in. rewrite <- E. now apply in_map. }
    now rewrite E.
  - intros k'. apply spec_key_keys, kfilter_all.
  - apply keys_nodup.
Qed.

(* a GC evaluated as lsmtk does (now = 0), under any policy that retains a sole newest version,
   leaves the value every key reads as unchanged *)
Theorem gc_spec_visible p es k : keeps_newest p = true ->
  visible (gc_spec p 0 es) k = visible es k.
Proof.
  intros Hk. unfold visible. rewrite kfilter_gc_spec.
  apply spec_key_current; [apply ts_blind_now0|exact Hk].
Qed.

Theorem gc_spec_visible_versions n now es k :
  visible (gc_spec (PVersions n) now es) k = visible es k.
Proof.
  unfold visible. rewrite kfilter_gc_spec.
  apply spec_key_current; [apply ts_blind_versions|]. cbn [sat]. apply N.leb_le. lia.
Qed.
