(* Gc/ModelLiteral.v — GarbageCollector::next once more, this time loop by loop exactly as written
   in sst/src/gc.rs (the outer `'iterating` loop with explicit fuel, the inner `while` as its own
   recursion, key_backing updated by a separate pass round the outer loop).  Definitions only.
   Proofs_Literal.v shows that Model.gc_next — which merges the "copy the key and go round again"
   pass into the handling of the entry — computes the same function, and that the fuel suffices. *)
From Coq Require Import NArith PArith List Bool.
From Blue Require Import Gc.Model.
Import ListNotations.
Open Scope N_scope.

(* how the inner `while self.key_backing == kvp.key { .. }` is left *)
Inductive wres :=
| WReturn (x : keyref) (g : collector)      (* return self.return_key(kvp, tombstones) *)
| WContinue (cur : list entry) (d : det)    (* continue 'iterating (value not retained) *)
| WBreak (d : det)                          (* break 'iterating (cursor exhausted) *)
| WExit (cur : list entry) (d : det).       (* condition false: kvp has another key *)

(* return_key *)
Definition return_key (cur : list entry) (d : det) (kb : key) (ts : N) (tombs : list N)
  : keyref * collector :=
  if negb (is_nil tombs) then ((kb, last tombs 0), mkGC cur d kb (Some ts))
  else ((kb, ts), mkGC cur d kb None).

(* the inner while; [cur] = cursor (head = kvp), every iteration advances the cursor *)
Fixpoint gc_while (cur : list entry) (kb : key) (tombs : list N) (d : det) {struct cur} : wres :=
  match cur with
  | [] => WBreak d
  | e :: cur' =>
      if key_eqb kb (ekey e) then
        match evalue e with
        | Some _ =>
            let (r, d') := retain d (ekey e) tombs (ets e) in
            if r then let (x, g) := return_key cur' d' kb (ets e) tombs in WReturn x g
            else WContinue cur' d'
        | None => gc_while cur' kb (tombs ++ [ets e]) d
        end
      else WExit cur d
  end.

(* 'iterating: loop { let mut tombstones = vec![]; let mut kvp = match cursor.key_value() ..; while ..;
   key_backing := kvp.key }.  None = out of fuel. *)
Fixpoint gc_iterating (fuel : nat) (cur : list entry) (kb : key) (d : det)
  : option (option keyref * collector) :=
  match fuel with
  | O => None
  | S f =>
      match cur with
      | [] => Some (None, mkGC [] d kb None)
      | _ :: _ =>
          match gc_while cur kb [] d with
          | WReturn x g => Some (Some x, g)
          | WContinue cur' d' => gc_iterating f cur' kb d'
          | WBreak d' => Some (None, mkGC [] d' kb None)
          | WExit cur' d' =>
              (* self.key_backing.resize(..); copy_from_slice(&kvp.key); cursor not advanced *)
              gc_iterating f cur' (match cur' with e :: _ => ekey e | [] => kb end) d'
          end
      end
  end.

Definition gc_next_literal (g : collector) : option (option keyref * collector) :=
  match gret g with
  | Some ts => Some (Some (gkb g, ts), mkGC (gcur g) (gdet g) (gkb g) None)
  | None => gc_iterating (2 * length (gcur g) + 2) (gcur g) (gkb g) (gdet g)
  end.

Fixpoint drain_literal (fuel : nat) (g : collector) : option (list keyref) :=
  match fuel with
  | O => None
  | S f =>
      match gc_next_literal g with
      | Some (Some x, g') => match drain_literal f g' with Some l => Some (x :: l) | None => None end
      | Some (None, _) => Some []
      | None => None
      end
  end.

Definition collect_literal (p : policy) (es : list entry) (now : N) : option (list keyref) :=
  drain_literal (2 * length es + 1) (collector_new p es now).
